(* C04: every value the structural readers return is representable and canonical, so by
   [C04_structured_fixpoint] decode (encode (decode b)) = decode b for the structured families. *)
From Coq Require Import List ZArith NArith Bool Lia.
From RB Require Import Base.Val Model.Caps Model.WireEnc Spec.WireRead Spec.WireEncSpec Spec.WireReadFam
     Spec.WireFamSpec Proofs.WireEnc Proofs.WireEncFam Proofs.WireEncFix.
Import ListNotations.
Open Scope N_scope.


Lemma take_spec n b f r : take n b = Some (f, r) -> blen f = n /\ b = f ++ r.
Proof.
  unfold take. destruct (n <=? blen b) eqn:E; [|discriminate]. apply N.leb_le in E.
  intros H. inversion H; subst. split.
  - unfold blen in *. rewrite firstn_length. lia.
  - symmetry. apply firstn_skipn.
Qed.

Lemma takes_spec sizes : forall b fs r, takes sizes b = Some (fs, r) -> map blen fs = sizes /\ b = concat fs ++ r.
Proof.
  induction sizes as [|n sizes IH]; intros b fs r H; cbn [takes] in H.
  - inversion H; subst. split; reflexivity.
  - destruct (take n b) as [[f r0]|] eqn:Et; [|discriminate].
    destruct (takes sizes r0) as [[fs' r']|] eqn:Es; [|discriminate]. inversion H; subst.
    apply take_spec in Et as [Hf Hb]. apply IH in Es as [Hm Hr]. subst. cbn [map concat].
    split; [reflexivity | now rewrite app_assoc].
Qed.

Lemma bytes_ok_app a b : bytes_ok (a ++ b) <-> bytes_ok a /\ bytes_ok b.
Proof. unfold bytes_ok. apply Forall_app. Qed.

Lemma rdn_bound l : forall acc, bytes_ok l -> rdn l acc < (acc + 1) * 256 ^ blen l.
Proof.
  induction l as [|x l IH]; intros acc H; cbn [rdn].
  - change (blen []) with 0. rewrite N.pow_0_r. lia.
  - inversion H as [|? ? Hx Hl]; subst. specialize (IH (acc * 256 + x) Hl).
    rewrite blen_cons. replace (1 + blen l) with (N.succ (blen l)) by lia. rewrite N.pow_succ_r'.
    nia.
Qed.

Lemma rdn_lt l k : bytes_ok l -> blen l = k -> rdn l 0 < 256 ^ k.
Proof. intros H <-. pose proof (rdn_bound l 0 H). lia. Qed.

(* ---- RTC, SR Policy *)
Lemma read_rtc_sound b v rest : bytes_ok b -> read_rtc b = Some (v, rest) -> structured SRtc (0, v) /\ canon_struct v = v.
Proof.
  intros Hb H. unfold read_rtc in H. destruct b as [|l r]; [discriminate|].
  inversion Hb as [|? ? _ Hr]; subst.
  destruct (l =? 0); [inversion H; subst; split; [split; [reflexivity | exact I] | reflexivity]|].
  destruct (l =? 32).
  - destruct (take 4 r) as [[a r']|] eqn:Et; [|discriminate]. inversion H; subst.
    apply take_spec in Et as [Ha ->]. apply bytes_ok_app in Hr as [Hba _].
    split; [split; [reflexivity | cbn; apply (rdn_lt a 4 Hba Ha)] | reflexivity].
  - destruct (l =? 96); [|discriminate].
    destruct (takes [4; 8] r) as [[fs r']|] eqn:Et; [|discriminate].
    pose proof (takes_spec _ _ _ _ Et) as [Hm ->].
    destruct fs as [|a [|rt [|]]]; try discriminate. inversion H; subst. cbn [map] in Hm. inversion Hm as [[Ha Hrt]].
    cbn [concat] in Hr. apply bytes_ok_app in Hr as [Hr _]. apply bytes_ok_app in Hr as [Hba _].
    split; [split; [reflexivity | cbn; split; [apply (rdn_lt a 4 Hba Ha) | exact Hrt]] | reflexivity].
Qed.

Lemma read_srp_sound b v rest : bytes_ok b -> read_srp b = Some (v, rest) -> structured SSrp (0, v) /\ canon_struct v = v.
Proof.
  intros Hb H. unfold read_srp in H. destruct b as [|l r]; [discriminate|].
  inversion Hb as [|? ? _ Hr]; subst.
  destruct ((l =? 96) || (l =? 192)) eqn:El; [|discriminate].
  destruct (takes [4; 4; (l - 64) / 8] r) as [[fs r']|] eqn:Et; [|discriminate].
  pose proof (takes_spec _ _ _ _ Et) as [Hm ->].
  destruct fs as [|d [|c [|ep [|]]]]; try discriminate. inversion H; subst. cbn [map] in Hm. inversion Hm as [[Hd Hc Hep]].
  cbn [concat] in Hr. apply bytes_ok_app in Hr as [Hr _]. apply bytes_ok_app in Hr as [Hbd Hr]. apply bytes_ok_app in Hr as [Hbc _].
  split; [|reflexivity]. split; [reflexivity|]. cbn. split; [apply (rdn_lt d 4 Hbd Hd)|]. split; [apply (rdn_lt c 4 Hbc); congruence|].
  apply orb_prop in El as [E | E]; apply N.eqb_eq in E; subst l; rewrite Hep; [left | right]; reflexivity.
Qed.

(* ---- EVPN *)
Ltac split_bytes H :=
  repeat match goal with
         | H0 : bytes_ok (_ ++ _) |- _ => let H1 := fresh "Hb" in let H2 := fresh "Hb" in apply bytes_ok_app in H0 as [H1 H2]
         end.

Lemma ip_len_ok_cases il a0 : ip_len_ok il a0 = true -> il = 32 \/ il = 128 \/ (a0 = true /\ il = 0).
Proof.
  unfold ip_len_ok. intros H. apply orb_prop in H as [H | H]; [apply orb_prop in H as [H | H]; apply N.eqb_eq in H; auto|].
  apply andb_prop in H as [-> H]. apply N.eqb_eq in H. auto.
Qed.

Lemma read_evpn_sound b v rest : bytes_ok b -> read_evpn b = Some (v, rest) -> structured SEvpn (0, v) /\ canon_struct v = v.
Proof.
  intros Hb H. unfold read_evpn in H. destruct b as [|ty [|n r]]; try discriminate.
  inversion Hb as [|? ? _ Hb1]; subst. inversion Hb1 as [|? ? _ Hr]; subst. clear Hb Hb1.
  destruct (take n r) as [[d rest']|] eqn:Et; [|discriminate].
  apply take_spec in Et as [_ ->]. apply bytes_ok_app in Hr as [Hd _].
  assert (Hgoal : forall e, evpn_wf e -> structured SEvpn (0, NEvpn e) /\ canon_struct (NEvpn e) = NEvpn e).
  { intros e He. split; [split; [reflexivity | exact He] | reflexivity]. }
  destruct (ty =? 1).
  { destruct (takes [8; 10; 4; 3] d) as [[fs r1]|] eqn:E; [|discriminate].
    pose proof (takes_spec _ _ _ _ E) as [Hm ->].
    destruct fs as [|rd [|esi [|et [|lb [|f5 fs']]]]]; try discriminate Hm. destruct r1; [|discriminate H].
    inversion H; subst. cbn [map] in Hm. injection Hm as Hrd Hesi Het Hlb.
    cbn [concat] in Hd. rewrite !app_nil_r in Hd. split_bytes Hd.
    apply Hgoal. cbn. repeat split; try congruence.
    - apply (rdn_lt et 4); assumption.
    - apply (rdn_lt lb 3); [assumption | congruence]. }
  destruct (ty =? 2).
  { destruct (takes [8; 10; 4; 1; 6; 1] d) as [[fs r1]|] eqn:E; [|discriminate].
    pose proof (takes_spec _ _ _ _ E) as [Hm ->].
    destruct fs as [|rd [|esi [|et [|f4 [|mac [|f6 [|f7 fs']]]]]]]; try discriminate Hm.
    destruct f4 as [|ml [|? ?]]; try discriminate H. destruct f6 as [|il [|? ?]]; try discriminate H.
    cbn [map] in Hm. injection Hm as Hrd Hesi Het Hmac.
    destruct ((ml =? 48) && ip_len_ok il true) eqn:Ec; [|discriminate].
    apply andb_prop in Ec as [_ Hil].
    destruct (takes [il / 8; 3] r1) as [[fs2 r2]|] eqn:E2; [|discriminate].
    pose proof (takes_spec _ _ _ _ E2) as [Hm2 ->].
    destruct fs2 as [|ip [|l1 [|f3 fs2']]]; try discriminate Hm2. cbn [map] in Hm2. injection Hm2 as Hip Hl1.
    cbn [concat] in Hd. rewrite ?app_nil_r in Hd. split_bytes Hd.
    assert (Hipl : blen ip = 0 \/ blen ip = 4 \/ blen ip = 16).
    { destruct (ip_len_ok_cases _ _ Hil) as [-> | [-> | [_ ->]]]; rewrite Hip; cbn; auto. }
    destruct r2 as [|x r2'].
    - inversion H; subst. apply Hgoal. cbn. repeat split; try congruence; try exact Hipl.
      + apply (rdn_lt et 4); assumption.
      + apply (rdn_lt l1 3); [assumption | congruence].
    - destruct (take 3 (x :: r2')) as [[l2 r3]|] eqn:E3; [|discriminate]. destruct r3; [|discriminate].
      apply take_spec in E3 as [Hl2 E3]. rewrite app_nil_r in E3. rewrite E3 in *.
      inversion H; subst. apply Hgoal. cbn. repeat split; try congruence; try exact Hipl.
      + apply (rdn_lt et 4); assumption.
      + apply (rdn_lt l1 3); [assumption | congruence].
      + change (rdn (x :: r2') 0 < 256 ^ 3). apply rdn_lt; assumption. }
  destruct (ty =? 3).
  { destruct (takes [8; 4; 1] d) as [[fs r1]|] eqn:E; [|discriminate].
    pose proof (takes_spec _ _ _ _ E) as [Hm ->].
    destruct fs as [|rd [|et [|f3 [|f4 fs']]]]; try discriminate Hm. destruct f3 as [|il [|? ?]]; try discriminate H.
    cbn [map] in Hm. injection Hm as Hrd Het.
    destruct (ip_len_ok il false && (blen r1 =? il / 8)) eqn:Ec; [|discriminate].
    apply andb_prop in Ec as [Hil Hl]. apply N.eqb_eq in Hl.
    cbn [concat] in Hd. split_bytes Hd.
    inversion H; subst. apply Hgoal. cbn. repeat split; try congruence.
    - apply (rdn_lt et 4); assumption.
    - destruct (ip_len_ok_cases _ _ Hil) as [-> | [-> | [Hx _]]]; [left | right | discriminate]; rewrite Hl; reflexivity. }
  destruct (ty =? 4).
  { destruct (takes [8; 10; 1] d) as [[fs r1]|] eqn:E; [|discriminate].
    pose proof (takes_spec _ _ _ _ E) as [Hm ->].
    destruct fs as [|rd [|esi [|f3 [|f4 fs']]]]; try discriminate Hm. destruct f3 as [|il [|? ?]]; try discriminate H.
    cbn [map] in Hm. injection Hm as Hrd Hesi.
    destruct (ip_len_ok il false && (blen r1 =? il / 8)) eqn:Ec; [|discriminate].
    apply andb_prop in Ec as [Hil Hl]. apply N.eqb_eq in Hl.
    inversion H; subst. apply Hgoal. cbn. repeat split; try congruence.
    destruct (ip_len_ok_cases _ _ Hil) as [-> | [-> | [Hx _]]]; [left | right | discriminate]; rewrite Hl; reflexivity. }
  destruct (ty =? 5); [|discriminate].
  destruct (takes [8; 10; 4; 1] d) as [[fs r1]|] eqn:E; [|discriminate].
  pose proof (takes_spec _ _ _ _ E) as [Hm ->].
  destruct fs as [|rd [|esi [|et [|f4 [|f5 fs']]]]]; try discriminate Hm. destruct f4 as [|pl [|? ?]]; try discriminate H.
  cbn [map] in Hm. injection Hm as Hrd Hesi Het.
  set (w := (blen r1 - 3) / 2) in *.
  destruct (((w =? 4) || (w =? 16)) && (blen r1 =? 2 * w + 3) && (pl <=? 8 * w)) eqn:Ec; [|discriminate].
  apply andb_prop in Ec as [Ec Hpl]. apply andb_prop in Ec as [Hw _]. apply N.leb_le in Hpl.
  destruct (takes [w; w; 3] r1) as [[fs2 r2]|] eqn:E2; [|discriminate].
  pose proof (takes_spec _ _ _ _ E2) as [Hm2 ->].
  destruct fs2 as [|ip [|gw [|lb [|f4 fs2']]]]; try discriminate Hm2. destruct r2; [|discriminate H].
  cbn [map] in Hm2. injection Hm2 as Hip Hgw Hlb.
  cbn [concat] in Hd. rewrite ?app_nil_r in Hd. split_bytes Hd.
  inversion H; subst. apply Hgoal. cbn. repeat split; try congruence.
  - apply (rdn_lt et 4); assumption.
  - apply orb_prop in Hw as [Hw | Hw]; apply N.eqb_eq in Hw; [left | right]; congruence.
  - rewrite Hip. exact Hpl.
  - apply (rdn_lt lb 3); [assumption | congruence].
Qed.

(* ---- Flowspec *)
Lemma land207_all :
  forallb (fun o => let b := N.land o 207 in (b <? 256) && ((b / 16) mod 4 =? 0) && Bool.eqb (128 <=? b) (128 <=? o))
          (map N.of_nat (seq 0 256)) = true.
Proof. vm_compute. reflexivity. Qed.

Lemma land207 o : o < 256 ->
  let b := N.land o 207 in b < 256 /\ (b / 16) mod 4 = 0 /\ (128 <=? b) = (128 <=? o).
Proof.
  intros Ho. pose proof land207_all as H. rewrite forallb_forall in H.
  assert (Hin : In o (map N.of_nat (seq 0 256))).
  { apply in_map_iff. exists (N.to_nat o). split; [apply Nnat.N2Nat.id | apply in_seq; lia]. }
  specialize (H o Hin). cbv zeta in *. apply andb_prop in H as [H H3]. apply andb_prop in H as [H1 H2].
  apply N.ltb_lt in H1. apply N.eqb_eq in H2. apply Bool.eqb_prop in H3. auto.
Qed.

Lemma pow2_cases o : 2 ^ ((o / 16) mod 4) = 1 \/ 2 ^ ((o / 16) mod 4) = 2 \/ 2 ^ ((o / 16) mod 4) = 4 \/ 2 ^ ((o / 16) mod 4) = 8.
Proof.
  assert (H : (o / 16) mod 4 < 4) by (apply N.mod_lt; lia).
  generalize dependent ((o / 16) mod 4). intros x H.
  assert (x = 0 \/ x = 1 \/ x = 2 \/ x = 3) as [-> | [-> | [-> | ->]]] by lia; cbn; auto.
Qed.

Lemma pow_256_le k : k <= 8 -> 256 ^ k <= 18446744073709551616.
Proof. intros H. change 18446744073709551616 with (256 ^ 8). apply N.pow_le_mono_r; lia. Qed.

Lemma read_fs_ops_sound fuel : forall b ops rest,
  bytes_ok b -> read_fs_ops fuel b = Some (ops, rest) ->
  ops_wf ops /\ bytes_ok rest /\ blen (flat_map enc_op ops) + blen rest <= blen b.
Proof.
  induction fuel as [|k IH]; intros b ops rest Hb H; [discriminate|]. cbn [read_fs_ops] in H.
  destruct b as [|o r]; [discriminate|]. inversion Hb as [|? ? Ho Hr]; subst.
  destruct (take (2 ^ ((o / 16) mod 4)) r) as [[vb r']|] eqn:Et; [|discriminate].
  apply take_spec in Et as [Hvb ->]. apply bytes_ok_app in Hr as [Hbv Hr'].
  destruct (land207 o Ho) as [Hb256 [Hz Hend]].
  assert (Hv : rdn vb 0 < 18446744073709551616).
  { pose proof (rdn_lt vb _ Hbv Hvb) as Hlt. pose proof (pow_256_le (2 ^ ((o / 16) mod 4))) as Hp.
    destruct (pow2_cases o) as [E | [E | [E | E]]]; rewrite E in *; specialize (Hp ltac:(lia)); lia. }
  (* the re-encoded operator is not longer than the one read *)
  assert (Hlen : blen (enc_op (N.land o 207, rdn vb 0)) <= 1 + blen vb).
  { unfold enc_op. cbn [fst snd]. pose proof (rdn_lt vb _ Hbv Hvb) as Hlt. rewrite Hvb.
    destruct (op_order_cases (rdn vb 0) Hv) as [[-> Hr0] | [[-> Hr0] | [[-> Hr0] | [-> Hr0]]]]; cbn [N.eqb Pos.eqb];
      rewrite blen_cons; destruct (pow2_cases o) as [E | [E | [E | E]]]; rewrite E in *;
      try (change (blen (be16 (rdn vb 0))) with 2); try (change (blen (be32 (rdn vb 0))) with 4);
      try (change (blen (be64 (rdn vb 0))) with 8); try (change (blen [rdn vb 0 mod 256]) with 1);
      try lia; exfalso; cbn in Hlt; lia. }
  destruct (128 <=? o) eqn:E128.
  - inversion H; subst. cbn [ops_wf flat_map]. rewrite app_nil_r.
    split; [repeat split; try assumption; apply N.leb_le; exact Hend|].
    split; [assumption|]. rewrite blen_cons, blen_app. lia.
  - destruct (read_fs_ops k r') as [[l r'']|] eqn:Er; [|discriminate]. inversion H; subst.
    destruct (IH _ _ _ Hr' Er) as [Hwf [Hbr Hsz]].
    split.
    + destruct l as [|[b' v'] t]; [destruct Hwf|]. cbn [ops_wf]. repeat split; try assumption.
      apply N.leb_gt. exact Hend.
    + split; [assumption|]. cbn [flat_map]. rewrite !blen_app, blen_cons, blen_app. lia.
Qed.

Lemma read_fs_comps_sound fuel v6 : forall b comps,
  bytes_ok b -> read_fs_comps fuel v6 b = Some comps ->
  Forall (fcomp_wf v6) comps /\ map canon_fcomp comps = comps /\
  exists body, enc_fcomps v6 comps = Ok body /\ blen body <= blen b.
Proof.
  induction fuel as [|k IH]; intros b comps Hb H.
  - destruct b; [|discriminate]. inversion H; subst. split; [constructor|]. split; [reflexivity|]. exists []. split; [reflexivity | cbn; lia].
  - destruct b as [|ty r]; [inversion H; subst; split; [constructor|]; split; [reflexivity|]; exists []; split; [reflexivity | cbn; lia]|].
    cbn [read_fs_comps] in H. inversion Hb as [|? ? Hty Hr]; subst.
    destruct ((ty =? 1) || (ty =? 2)) eqn:Et.
    + destruct r as [|m r1]; [discriminate|]. inversion Hr as [|? ? Hm Hr1]; subst.
      assert (Hcase : forall off r2, bytes_ok r2 -> (v6 = false -> off = 0) ->
                match take ((m + 7) / 8) r2 with
                | Some (o, r3) => match read_fs_comps k v6 r3 with Some l => Some (FPrefix ty m off o :: l) | None => None end
                | None => None end = Some comps ->
                blen r2 + (if v6 then 1 else 0) <= blen r1 ->
                Forall (fcomp_wf v6) comps /\ map canon_fcomp comps = comps /\
                exists body, enc_fcomps v6 comps = Ok body /\ blen body <= blen (ty :: m :: r1)).
      { intros off r2 Hr2 Hoff Hc Hsz.
        destruct (take ((m + 7) / 8) r2) as [[o r3]|] eqn:Etk; [|discriminate].
        apply take_spec in Etk as [Ho ->]. apply bytes_ok_app in Hr2 as [_ Hr3].
        destruct (read_fs_comps k v6 r3) as [l|] eqn:El; [|discriminate]. inversion Hc; subst.
        destruct (IH _ _ Hr3 El) as [Hwf [Hcan [body [Hbody Hbl]]]].
        assert (Hsig : sig_octets m o = o).
        { unfold sig_octets. rewrite <- Ho. unfold blen. rewrite Nnat.Nat2N.id. apply firstn_all. }
        split; [constructor; [|exact Hwf]|].
        { cbn [fcomp_wf]. split; [apply orb_prop in Et as [E | E]; apply N.eqb_eq in E; auto|]. split; [lia | exact Hoff]. }
        split; [cbn [map canon_fcomp]; rewrite Hsig, Hcan; reflexivity|].
        cbn [enc_fcomps enc_fcomp]. change (len o) with (blen o). rewrite Ho.
        replace ((m + 7) / 8 <=? (m + 7) / 8) with true by (symmetry; apply N.leb_le; lia).
        cbn [bind]. rewrite Hbody. cbn [bind]. eexists. split; [reflexivity|].
        fold (sig_octets m o). rewrite Hsig. rewrite blen_app in Hsz.
        destruct v6; cbn [app]; repeat (rewrite blen_cons || rewrite blen_app); lia. }
      destruct v6.
      * destruct r1 as [|off r2]; [discriminate|]. inversion Hr1 as [|? ? _ Hr2]; subst.
        apply (Hcase off r2 Hr2); [discriminate | exact H | rewrite blen_cons; lia].
      * apply (Hcase 0 r1 Hr1); [reflexivity | exact H | lia].
    + destruct (read_fs_ops (length r) r) as [[ops r1]|] eqn:Eo; [|discriminate].
      destruct (read_fs_ops_sound _ _ _ _ Hr Eo) as [Hops [Hr1 Hsz]].
      destruct (read_fs_comps k v6 r1) as [l|] eqn:El; [|discriminate]. inversion H; subst.
      destruct (IH _ _ Hr1 El) as [Hwf [Hcan [body [Hbody Hbl]]]].
      apply orb_false_iff in Et as [E1 E2]. apply N.eqb_neq in E1, E2.
      split; [constructor; [cbn [fcomp_wf]; auto | exact Hwf]|].
      split; [cbn [map canon_fcomp]; rewrite Hcan; reflexivity|].
      cbn [enc_fcomps enc_fcomp bind]. rewrite Hbody. cbn [bind]. eexists. split; [reflexivity|].
      rewrite blen_cons, blen_app, blen_cons. lia.
Qed.

Lemma read_fs_len_sound b n r : bytes_ok b -> read_fs_len b = Some (n, r) -> n < 4096 /\ bytes_ok r.
Proof.
  unfold read_fs_len. intros Hb H. destruct b as [|f t]; [discriminate|]. inversion Hb as [|? ? Hf Ht]; subst.
  destruct (f <? 240) eqn:E.
  - inversion H; subst. apply N.ltb_lt in E. split; [lia | assumption].
  - destruct t as [|s t']; [discriminate|]. inversion Ht as [|? ? Hs Ht']; subst. inversion H; subst.
    assert (f mod 16 < 16) by (apply N.mod_lt; lia). split; [nia | assumption].
Qed.

Lemma read_flow_sound v6 vpn b v rest :
  bytes_ok b -> read_flow v6 vpn b = Some (v, rest) -> structured (SFlow v6 vpn) (0, v) /\ canon_struct v = v.
Proof.
  intros Hb H. unfold read_flow in H.
  destruct (read_fs_len b) as [[n r]|] eqn:El; [|discriminate].
  destruct (read_fs_len_sound _ _ _ Hb El) as [Hn Hr].
  destruct (take n r) as [[body rest']|] eqn:Et; [|discriminate].
  apply take_spec in Et as [Hbody ->]. apply bytes_ok_app in Hr as [Hbb _].
  destruct vpn.
  - destruct (take 8 body) as [[rd cb]|] eqn:E8; [|discriminate].
    apply take_spec in E8 as [Hrd ->]. apply bytes_ok_app in Hbb as [_ Hcb].
    destruct (read_fs_comps (length cb) v6 cb) as [comps|] eqn:Ec; [|discriminate]. inversion H; subst.
    destruct (read_fs_comps_sound _ _ _ _ Hcb Ec) as [Hwf [Hcan [body' [Hb' Hbl]]]].
    split; [|cbn [canon_struct]; rewrite Hcan; reflexivity].
    split; [reflexivity|]. cbn [snd structured]. rewrite Hb'. rewrite blen_app in Hn.
    repeat split; try assumption. lia.
  - destruct (read_fs_comps (length body) v6 body) as [comps|] eqn:Ec; [|discriminate]. inversion H; subst.
    destruct (read_fs_comps_sound _ _ _ _ Hbb Ec) as [Hwf [Hcan [body' [Hb' Hbl]]]].
    split; [|cbn [canon_struct]; rewrite Hcan; reflexivity].
    split; [reflexivity|]. cbn [snd structured]. rewrite Hb'. repeat split; try assumption. cbn [blen length N.of_nat]. lia.
Qed.

(* ---- MUP *)
Lemma rdn_zeros l k : rdn (l ++ zeros k) 0 = rdn l 0 * 256 ^ N.of_nat k.
Proof.
  rewrite rdn_app. generalize (rdn l 0) as acc. induction k as [|k IH]; intros acc.
  - cbn. lia.
  - cbn [zeros repeat rdn]. fold (zeros k). rewrite IH. rewrite Nnat.Nat2N.inj_succ, N.pow_succ_r'. lia.
Qed.

Lemma read_mup_sound v6 b v rest :
  bytes_ok b -> read_mup v6 b = Some (v, rest) -> structured (SMup v6) (0, v) /\ canon_struct v = v.
Proof.
  intros Hb H. unfold read_mup in H. set (w := if v6 then 16 else 4) in *.
  assert (Hw : w = 4 \/ w = 16) by (subst w; destruct v6; auto).
  destruct b as [|a [|t1 [|t0 [|n r]]]]; try discriminate; try (destruct a as [|[| |]]; discriminate).
  destruct a as [|[p|p|]]; try discriminate.
  inversion Hb as [|? ? _ Hb1]; subst. inversion Hb1 as [|? ? _ Hb2]; subst. inversion Hb2 as [|? ? _ Hb3]; subst.
  inversion Hb3 as [|? ? _ Hr]; subst. clear Hb Hb1 Hb2 Hb3.
  destruct (take n r) as [[d rest']|] eqn:Et; [|discriminate].
  apply take_spec in Et as [_ ->]. apply bytes_ok_app in Hr as [Hd _].
  assert (Hgoal : forall m, mup_wf v6 m -> canon_struct (NMup m) = NMup m ->
            structured (SMup v6) (0, NMup m) /\ canon_struct (NMup m) = NMup m).
  { intros m Hm Hc. split; [split; [reflexivity | exact Hm] | exact Hc]. }
  cbv zeta in H. set (ty := t1 * 256 + t0) in *.
  destruct (ty =? 1).
  { destruct (takes [8; 1] d) as [[fs pr]|] eqn:E; [|discriminate].
    pose proof (takes_spec _ _ _ _ E) as [Hm ->].
    destruct fs as [|rd [|f2 [|f3 fs']]]; try discriminate Hm. destruct f2 as [|pl [|? ?]]; try discriminate H.
    cbn [map] in Hm. injection Hm as Hrd.
    destruct ((pl <=? 8 * w) && (blen pr =? (pl + 7) / 8)) eqn:Ec; [|discriminate].
    apply andb_prop in Ec as [Hpl Hpr]. apply N.leb_le in Hpl. apply N.eqb_eq in Hpr.
    inversion H; subst.
    assert (Hle : (pl + 7) / 8 < w + 1) by (apply N.div_lt_upper_bound; lia).
    apply Hgoal.
    - unfold mup_wf. fold w. repeat split; try assumption; lia.
    - cbn [canon_struct]. unfold sig_octets. rewrite <- Hpr. unfold blen. rewrite Nnat.Nat2N.id, firstn_all. reflexivity. }
  destruct (ty =? 2).
  { destruct (takes [8; w] d) as [[fs r1]|] eqn:E; [|discriminate].
    pose proof (takes_spec _ _ _ _ E) as [Hm ->].
    destruct fs as [|rd [|a [|f3 fs']]]; try discriminate Hm. destruct r1; [|discriminate H].
    cbn [map] in Hm. injection Hm as Hrd Ha. inversion H; subst.
    apply Hgoal; [unfold mup_wf; fold w; split; assumption | reflexivity]. }
  destruct (ty =? 3).
  { destruct (takes [8; 1] d) as [[fs r1]|] eqn:E; [|discriminate].
    pose proof (takes_spec _ _ _ _ E) as [Hm ->].
    destruct fs as [|rd [|f2 [|f3 fs']]]; try discriminate Hm. destruct f2 as [|pl [|? ?]]; try discriminate H.
    cbn [map] in Hm. injection Hm as Hrd.
    destruct (pl <=? 8 * w) eqn:Hpl; [|discriminate]. apply N.leb_le in Hpl.
    destruct (takes [(pl + 7) / 8; 4; 1; 1] r1) as [[fs2 r2]|] eqn:E2; [|discriminate].
    pose proof (takes_spec _ _ _ _ E2) as [Hm2 ->].
    destruct fs2 as [|pr [|te [|f3 [|f4 [|f5 fs2']]]]]; try discriminate Hm2.
    destruct f3 as [|q [|? ?]]; try discriminate H. destruct f4 as [|el [|? ?]]; try discriminate H.
    cbn [map] in Hm2. injection Hm2 as Hpr Hte.
    destruct (el =? 8 * w); [|discriminate].
    destruct (takes [w; 1] r2) as [[fs3 r3]|] eqn:E3; [|discriminate].
    pose proof (takes_spec _ _ _ _ E3) as [Hm3 ->].
    destruct fs3 as [|ep [|f2 [|f3 fs3']]]; try discriminate Hm3. destruct f2 as [|sl [|? ?]]; try discriminate H.
    cbn [map] in Hm3. injection Hm3 as Hep.
    cbn [concat] in Hd. rewrite ?app_nil_r in Hd. split_bytes Hd.
    assert (Hle : (pl + 7) / 8 < w + 1) by (apply N.div_lt_upper_bound; lia).
    assert (Hsig : sig_octets pl pr = pr).
    { unfold sig_octets. rewrite <- Hpr. unfold blen. rewrite Nnat.Nat2N.id, firstn_all. reflexivity. }
    assert (Hteid : rdn te 0 < 4294967296) by (apply (rdn_lt te 4); assumption).
    destruct (sl =? 0).
    - destruct r3; [|discriminate H]. inversion H; subst. apply Hgoal.
      + unfold mup_wf. fold w. repeat split; try assumption; lia.
      + cbn [canon_struct]. rewrite Hsig. reflexivity.
    - destruct ((sl =? 8 * w) && (blen r3 =? w)) eqn:Es; [|discriminate].
      apply andb_prop in Es as [_ Hs]. apply N.eqb_eq in Hs. inversion H; subst. apply Hgoal.
      + unfold mup_wf. fold w. repeat split; try assumption; lia.
      + cbn [canon_struct]. rewrite Hsig. reflexivity. }
  destruct (ty =? 4); [|discriminate].
  destruct (takes [8; 1] d) as [[fs r1]|] eqn:E; [|discriminate].
  pose proof (takes_spec _ _ _ _ E) as [Hm ->].
  destruct fs as [|rd [|f2 [|f3 fs']]]; try discriminate Hm. destruct f2 as [|el [|? ?]]; try discriminate H.
  cbn [map] in Hm. injection Hm as Hrd.
  destruct ((8 * w <=? el) && (el <=? 8 * w + 32)) eqn:Ec; [|discriminate].
  apply andb_prop in Ec as [Hlo Hhi]. apply N.leb_le in Hlo, Hhi.
  destruct (takes [w] r1) as [[fs2 tb]|] eqn:E2; [|discriminate].
  pose proof (takes_spec _ _ _ _ E2) as [Hm2 ->].
  destruct fs2 as [|ep [|f2 fs2']]; try discriminate Hm2. cbn [map] in Hm2. injection Hm2 as Hep.
  destruct (blen tb =? (el - 8 * w + 7) / 8) eqn:Etb; [|discriminate]. apply N.eqb_eq in Etb.
  cbn [concat] in Hd. rewrite ?app_nil_r in Hd. split_bytes Hd.
  assert (Hk : blen tb <= 4).
  { rewrite Etb. assert ((el - 8 * w + 7) / 8 < 5) by (apply N.div_lt_upper_bound; lia). lia. }
  remember (4 - length tb)%nat as kz eqn:Ekz.
  assert (Hlen : N.of_nat kz = 4 - blen tb) by (unfold blen in *; lia).
  clear Ekz. inversion H; subst. apply Hgoal; [|reflexivity].
  unfold mup_wf. fold w. rewrite rdn_zeros, Hlen, <- Etb.
  repeat split; try assumption.
  - pose proof (rdn_lt tb _ ltac:(eassumption) eq_refl) as Hlt.
    replace 4294967296 with (256 ^ blen tb * 256 ^ (4 - blen tb)).
    + apply N.mul_lt_mono_pos_r; [apply N.neq_0_lt_0, N.pow_nonzero; lia | exact Hlt].
    + rewrite <- N.pow_add_r. replace (blen tb + (4 - blen tb)) with 4 by lia. reflexivity.
  - apply N.mod_mul. apply N.pow_nonzero. lia.
Qed.

(* ---- BGP-LS *)
Lemma be16_of_bytes a b : a < 256 -> b < 256 -> be16 (a * 256 + b) = [a; b].
Proof.
  intros Ha Hb. unfold be16. f_equal; [|f_equal].
  - rewrite N.div_add_l by lia. rewrite (N.div_small b) by lia. rewrite N.add_0_r. apply N.mod_small. exact Ha.
  - rewrite N.add_comm, N.mod_add by lia. apply N.mod_small. exact Hb.
Qed.

Lemma read_tlv16s_exact fuel : forall b l,
  bytes_ok b -> read_tlv16s fuel b = Some l ->
  flat_map enc_tlv16 l = b /\ tlv_types_ok l /\ Forall (fun t => bytes_ok (snd t)) l.
Proof.
  induction fuel as [|k IH]; intros b l Hb H.
  - destruct b; [|discriminate]. inversion H; subst. repeat split; constructor.
  - destruct b as [|t1 [|t0 [|l1 [|l0 r]]]]; try discriminate; [inversion H; subst; repeat split; constructor|].
    cbn [read_tlv16s] in H.
    inversion Hb as [|? ? H1 Hb1]; subst. inversion Hb1 as [|? ? H0 Hb2]; subst.
    inversion Hb2 as [|? ? Hl1 Hb3]; subst. inversion Hb3 as [|? ? Hl0 Hr]; subst.
    destruct (take (l1 * 256 + l0) r) as [[v r']|] eqn:Et; [|discriminate].
    apply take_spec in Et as [Hv ->]. apply bytes_ok_app in Hr as [Hbv Hr'].
    destruct (read_tlv16s k r') as [l'|] eqn:El; [|discriminate]. inversion H; subst.
    destruct (IH _ _ Hr' El) as [Hex [Hty Hbs]].
    split; [|split; [constructor; [cbn [fst]; lia | exact Hty] | constructor; [exact Hbv | exact Hbs]]].
    cbn [flat_map]. rewrite Hex. unfold enc_tlv16. cbn [fst snd]. change (len v) with (blen v). rewrite Hv.
    rewrite trunc16_small by lia. rewrite !be16_of_bytes by assumption. reflexivity.
Qed.

Lemma read_sids_exact tl : forall s,
  Forall (fun t => bytes_ok (snd t)) tl -> read_sids tl = Some s ->
  map (fun x => (518, be16 (fst x) ++ [0; 0] ++ snd x)) s = tl /\ Forall (fun x => fst x < 65536 /\ blen (snd x) = 16) s.
Proof.
  induction tl as [|[t v] tl IH]; intros s Hb H; cbn [read_sids] in H.
  - inversion H; subst. split; [reflexivity | constructor].
  - inversion Hb as [|? ? Hv Htl]; subst. cbn [snd] in Hv.
    destruct (t =? 518) eqn:Et; [|discriminate]. apply N.eqb_eq in Et. subst t.
    destruct (takes [2; 2; 16] v) as [[fs r]|] eqn:E; [|discriminate].
    pose proof (takes_spec _ _ _ _ E) as [Hm ->].
    destruct fs as [|mt [|z [|sid [|f4 fs']]]]; try discriminate Hm.
    destruct z as [|z0 [|z1 [|? ?]]]; try discriminate H; try (cbn in Hm; discriminate Hm);
      try (exfalso; cbn [map] in Hm; injection Hm as _ Hz _; unfold blen in Hz; cbn [length] in Hz; lia).
    destruct z0 as [|pz0]; [|discriminate H]. destruct z1 as [|pz1]; [|discriminate H]. destruct r as [|r0 r']; [|discriminate H].
    destruct (read_sids tl) as [s'|] eqn:Es; [|discriminate H]. inversion H; subst.
    cbn [map] in Hm. injection Hm as Hmt Hsid.
    destruct (IH _ Htl eq_refl) as [Hex Hok].
    cbn [concat] in Hv. rewrite ?app_nil_r in Hv. split_bytes Hv.
    destruct mt as [|m1 [|m0 [|? ?]]]; try discriminate Hmt; try (exfalso; unfold blen in Hmt; cbn [length] in Hmt; lia).
    assert (Hm1 : m1 < 256 /\ m0 < 256).
    { match goal with Hx : bytes_ok [m1; m0] |- _ => inversion Hx as [|? ? Ha Hx']; inversion Hx' as [|? ? Hb' _]; subst; auto end. }
    destruct Hm1 as [Hm1 Hm0].
    split.
    + cbn [map fst snd]. rewrite Hex. f_equal. f_equal. cbn [rdn concat app]. rewrite N.mul_0_l, N.add_0_l.
      rewrite be16_of_bytes by assumption. cbn [app]. rewrite !app_nil_r. reflexivity.
    + constructor; [|exact Hok]. cbn [fst snd rdn]. split; [nia | exact Hsid].
Qed.

Lemma read_ls_sound b v rest : bytes_ok b -> read_ls b = Some (v, rest) -> structured SLs (0, v) /\ canon_struct v = v.
Proof.
  intros Hb H. unfold read_ls in H.
  destruct b as [|t1 [|t0 [|l1 [|l0 r]]]]; try discriminate.
  inversion Hb as [|? ? H1 Hb1]; subst. inversion Hb1 as [|? ? H0 Hb2]; subst.
  inversion Hb2 as [|? ? Hl1 Hb3]; subst. inversion Hb3 as [|? ? Hl0 Hr]; subst. clear Hb Hb1 Hb2 Hb3.
  set (ty := t1 * 256 + t0) in *.
  assert (Hty : ty < 65536) by (subst ty; lia).
  destruct (take (l1 * 256 + l0) r) as [[body rest']|] eqn:Et; [|discriminate].
  apply take_spec in Et as [Hbody ->]. apply bytes_ok_app in Hr as [Hbb _].
  assert (Hn : blen body < 65536) by lia.
  assert (Hgoal : forall n, ls_wf n -> structured SLs (0, NLs n) /\ canon_struct (NLs n) = NLs n).
  { intros n Hw. split; [split; [reflexivity | exact Hw] | reflexivity]. }
  destruct (ls_known ty && (9 <=? blen body)) eqn:Ek.
  2:{ inversion H; subst. apply Hgoal. split; [|split; assumption].
      unfold enc_ls. rewrite !blen_app. change (blen (be16 ty)) with 2. change (blen (be16 (trunc16 (len body)))) with 2. lia. }
  destruct body as [|p b1]; [discriminate|]. inversion Hbb as [|? ? Hp Hb1]; subst.
  destruct (take 8 b1) as [[idb d]|] eqn:E8; [|discriminate].
  apply take_spec in E8 as [Hid ->]. apply bytes_ok_app in Hb1 as [Hbi Hbd].
  assert (Hi : rdn idb 0 < 18446744073709551616) by (apply (rdn_lt idb 8); assumption).
  destruct (read_tlv16s (length d) d) as [tls|] eqn:Ed; [|discriminate].
  destruct (read_tlv16s_exact _ _ _ Hbd Ed) as [Hdx [Hdt Hdb]].
  destruct tls as [|[c lv] tl]; [discriminate|].
  destruct (c =? 256) eqn:Ec; [apply N.eqb_eq in Ec; subst c|].
  2:{ exfalso. destruct c as [|c']; [discriminate H|]. apply N.eqb_neq in Ec.
      repeat (destruct c' as [c'|c'|]; try discriminate H); congruence. }
  inversion Hdb as [|? ? Hblv Hbtl]; subst. cbn [snd] in Hblv.
  destruct (read_tlv16s (length lv) lv) as [local|] eqn:El; [|discriminate].
  destruct (read_tlv16s_exact _ _ _ Hblv El) as [Hlx [Hlt _]].
  inversion Hdt as [|? ? _ Htlt]; subst.
  (* the length of the re-encoded NLRI is the length that was read *)
  assert (Hsz : forall tyc tl', flat_map enc_tlv16 tl' = flat_map enc_tlv16 tl ->
            blen (be16 tyc ++ be16 (trunc16 (len (p :: be64 (rdn idb 0) ++ ls_container 256 local ++ flat_map enc_tlv16 tl'))) ++
                  p :: be64 (rdn idb 0) ++ ls_container 256 local ++ flat_map enc_tlv16 tl') < 65540).
  { intros tyc tl' Htl'. rewrite !blen_app. change (blen (be16 tyc)) with 2.
    change (blen (be16 (trunc16 (len (p :: be64 (rdn idb 0) ++ ls_container 256 local ++ flat_map enc_tlv16 tl'))))) with 2.
    rewrite blen_cons, !blen_app, Htl'. change (blen (be64 (rdn idb 0))) with 8.
    cbn [flat_map] in Hn. fold (ls_container 256 local) in Hn. rewrite blen_cons, !blen_app, Hid in Hn. lia. }
  destruct (ty =? 1) eqn:E1.
  { destruct tl; [|discriminate]. inversion H; subst. apply Hgoal. split; [|repeat split; assumption].
    unfold enc_ls. specialize (Hsz 1 [] eq_refl). cbn [flat_map] in Hsz. rewrite app_nil_r in Hsz. exact Hsz. }
  destruct (ty =? 2) eqn:E2.
  { destruct tl as [|[c2 rv] k]; [discriminate|].
    destruct (c2 =? 257) eqn:Ec2; [apply N.eqb_eq in Ec2; subst c2|].
    2:{ exfalso. destruct c2 as [|c']; [discriminate H|]. apply N.eqb_neq in Ec2.
        repeat (destruct c' as [c'|c'|]; try discriminate H); congruence. }
    inversion Hbtl as [|? ? Hbrv Hbk]; subst. cbn [snd] in Hbrv.
    destruct (read_tlv16s (length rv) rv) as [remote|] eqn:Er; [|discriminate]. inversion H; subst.
    destruct (read_tlv16s_exact _ _ _ Hbrv Er) as [Hrx [Hrt _]].
    inversion Htlt as [|? ? _ Hkt]; subst.
    apply Hgoal. split; [|repeat split; assumption].
    unfold enc_ls. apply (Hsz 2 ((257, flat_map enc_tlv16 remote) :: k)). reflexivity. }
  destruct (ty =? 6) eqn:E6.
  { destruct (read_sids tl) as [s|] eqn:Es; [|discriminate]. inversion H; subst.
    destruct (read_sids_exact _ _ Hbtl Es) as [Hsx Hsok].
    apply Hgoal. split; [|repeat split; assumption].
    unfold enc_ls. rewrite (flat_map_map (fun x => (518, be16 (fst x) ++ [0; 0] ++ snd x)) s). rewrite Hsx.
    apply (Hsz 6 tl eq_refl). }
  inversion H; subst. apply Hgoal. split; [|repeat split; assumption].
  unfold enc_ls. apply (Hsz (if ty =? 4 then 4 else 3) tl eq_refl).
Qed.

(* ---- all structured kinds: what a reader returns is representable and canonical ... *)
Theorem C04_read_struct_sound :
  forall (k : skind) (b : list N) (v : nlri) (rest : list N),
    bytes_ok b -> read_struct k b = Some (v, rest) -> structured k (0, v) /\ canon_struct v = v.
Proof.
  intros k b v rest Hb H. destruct k; cbn [read_struct] in H.
  - eapply read_flow_sound; eassumption.
  - eapply read_rtc_sound; eassumption.
  - eapply read_evpn_sound; eassumption.
  - eapply read_srp_sound; eassumption.
  - eapply read_mup_sound; eassumption.
  - eapply read_ls_sound; eassumption.
Qed.

(* ... hence decode (encode (decode b)) = decode b: every value obtained by reading octets is
   encoded (no panic, either profile) and its encoding reads as the same value *)
Theorem C04_decode_encode_decode_fixpoint :
  forall (p : profile) (k : skind) (b : list N) (v : nlri) (rest : list N),
    bytes_ok b -> read_struct k b = Some (v, rest) ->
    exists enc, enc_nlri p v = Ok enc /\ forall rest', read_struct k (enc ++ rest') = Some (v, rest').
Proof.
  intros p k b v rest Hb H.
  destruct (C04_read_struct_sound k b v rest Hb H) as [Hs Hc].
  assert (He : exists enc, enc_nlri p v = Ok enc).
  { destruct Hs as [_ Hs]. cbn [snd] in Hs.
    destruct k; destruct v; try contradiction; cbn [enc_nlri]; try (eexists; reflexivity).
    - destruct Hs as [_ [_ [Hwf _]]].
      assert (Hx : exists body, enc_fcomps v0 comps = Ok body).
      { clear - Hwf. induction comps as [|c comps IH]; [eexists; reflexivity|]. inversion Hwf as [|? ? Hc Hcs]; subst.
        destruct (IH Hcs) as [body Hb]. cbn [enc_fcomps]. rewrite Hb.
        destruct c as [ty m off a | ty ops]; cbn [enc_fcomp fcomp_wf] in *.
        - destruct Hc as [_ [Ha _]]. change (len a) with (blen a).
          replace ((m + 7) / 8 <=? blen a) with true by (symmetry; apply N.leb_le; exact Ha). cbn [bind]. eexists. reflexivity.
        - cbn [bind]. eexists. reflexivity. }
      destruct Hx as [body Hx]. rewrite Hx. cbn [bind]. eexists. reflexivity.
    - unfold enc_mup. destruct m as [rd pl a | rd a | rd pl a teid qfi ep src | rd el ep teid]; try (cbn [bind]; eexists; reflexivity).
      unfold mup_wf in Hs. destruct Hs as [_ [Hep [Hlo [Hhi _]]]]. change (len ep) with (blen ep). rewrite Hep.
      assert ((el - 8 * (if v6 then 16 else 4) + 7) / 8 < 5) by (apply N.div_lt_upper_bound; lia).
      replace ((el - 8 * (if v6 then 16 else 4) + 7) / 8 <=? 4) with true by (symmetry; apply N.leb_le; lia).
      cbn [bind]. eexists. reflexivity. }
  destruct He as [enc He]. exists enc. split; [exact He|]. intros rest'.
  destruct (C04_structured_fixpoint p k 0 v Hs) as [_ [_ [_ Hr]]]. rewrite (Hr enc rest' He), Hc. reflexivity.
Qed.
