(* IpNet::contains (Model/Negotiate.v) equals bit-level containment
   (Spec/NegotiateSpec.v inside).  Per-octet facts come from complete
   vm_compute sweeps over all octets, lifted with forallb_forall; the octet
   list is handled by induction. *)
From Coq Require Import List NArith Bool Lia ZifyBool ZifyN ZifyNat Arith.
From RB Require Import Base.Val Model.Caps Model.Fsm Model.Negotiate Spec.NegotiateSpec.
Import ListNotations.
Open Scope N_scope.

Definition octs : list N := map N.of_nat (seq 0 256).

Lemma in_octs x : x < 256 -> In x octs.
Proof.
  intro H. unfold octs. apply in_map_iff. exists (N.to_nat x). split; [lia|].
  apply in_seq. lia.
Qed.

(* the top [r] bits of two octets agree *)
Definition top_eq (r : nat) (x y : N) : bool :=
  forallb (fun j => Bool.eqb (N.testbit x (N.of_nat (7 - j))) (N.testbit y (N.of_nat (7 - j)))) (seq 0 r).

Definition omask (r : N) : N := N.shiftl (N.shiftr 255 (8 - r)) (8 - r).

(* whole octets: equal iff all 8 bits agree  (65536 pairs) *)
Lemma sweep_whole :
  forallb (fun x => forallb (fun y => Bool.eqb (x =? y) (top_eq 8 x y)) octs) octs = true.
Proof. vm_compute. reflexivity. Qed.

(* partial octet: masked values equal iff the top r bits agree  (7 * 65536 triples) *)
Lemma sweep_partial :
  forallb (fun r => forallb (fun x => forallb (fun y =>
     Bool.eqb (N.land x (omask (N.of_nat r)) =? N.land y (omask (N.of_nat r))) (top_eq r x y)) octs) octs)
          (seq 1 7) = true.
Proof. vm_compute. reflexivity. Qed.

Lemma whole_octet x y : x < 256 -> y < 256 -> (x =? y) = top_eq 8 x y.
Proof.
  intros Hx Hy. pose proof sweep_whole as H.
  rewrite forallb_forall in H. specialize (H x (in_octs x Hx)).
  rewrite forallb_forall in H. specialize (H y (in_octs y Hy)).
  apply eqb_prop in H. exact H.
Qed.

Lemma partial_octet r x y :
  (1 <= r <= 7)%nat -> x < 256 -> y < 256 ->
  (N.land x (omask (N.of_nat r)) =? N.land y (omask (N.of_nat r))) = top_eq r x y.
Proof.
  intros Hr Hx Hy. pose proof sweep_partial as H.
  rewrite forallb_forall in H. specialize (H r). rewrite in_seq in H. specialize (H ltac:(lia)).
  rewrite forallb_forall in H. specialize (H x (in_octs x Hx)).
  rewrite forallb_forall in H. specialize (H y (in_octs y Hy)).
  apply eqb_prop in H. exact H.
Qed.

Lemma top_eq_spec r x y :
  top_eq r x y = true <->
  forall j, (j < r)%nat -> N.testbit x (N.of_nat (7 - j)) = N.testbit y (N.of_nat (7 - j)).
Proof.
  unfold top_eq. rewrite forallb_forall. split.
  - intros H j Hj. apply eqb_prop. apply H. apply in_seq. lia.
  - intros H j Hj. apply in_seq in Hj. rewrite (H j ltac:(lia)). apply eqb_reflx.
Qed.

(* bit numbering of an octet list *)
Lemma obit_low x l i : (i < 8)%nat -> obit (x :: l) i = N.testbit x (N.of_nat (7 - i)).
Proof.
  intro H. unfold obit. rewrite (Nat.div_small i 8 H), (Nat.mod_small i 8 H). reflexivity.
Qed.

Lemma obit_high x l i : obit (x :: l) (8 + i) = obit l i.
Proof.
  unfold obit.
  replace ((8 + i) / 8)%nat with (S (i / 8)).
  2:{ replace (8 + i)%nat with (i + 1 * 8)%nat by lia. rewrite Nat.div_add by lia. lia. }
  replace ((8 + i) mod 8)%nat with (i mod 8)%nat.
  2:{ replace (8 + i)%nat with (i + 1 * 8)%nat by lia. rewrite Nat.mod_add by lia. reflexivity. }
  reflexivity.
Qed.

(* the loop of contains over the remaining octets *)
Lemma contains_from_spec div : forall (r : nat) (a b : list N),
  (r < 8)%nat -> length a = length b ->
  Forall (fun x => x < 256) a -> Forall (fun x => x < 256) b ->
  (div < length a \/ (r = 0 /\ div <= length a))%nat ->
  exists v, contains_from div (N.of_nat r) a b = COk v
            /\ (v = true <-> forall i, (i < 8 * div + r)%nat -> obit a i = obit b i).
Proof.
  induction div as [|n IH]; intros r a b Hr Hlen Fa Fb Hd.
  - cbn [contains_from]. destruct (0 <? N.of_nat r) eqn:E0.
    + assert (Hr1 : (1 <= r <= 7)%nat) by lia.
      destruct a as [|x a']; [cbn in Hd; lia|]. destruct b as [|y b']; [discriminate Hlen|].
      inversion Fa as [|? ? Hx _]; inversion Fb as [|? ? Hy _]; subst.
      eexists. split; [reflexivity|].
      fold (omask (N.of_nat r)). rewrite (partial_octet r x y Hr1 Hx Hy), top_eq_spec.
      split; intros H i Hi.
      * rewrite !obit_low by lia. apply H. lia.
      * specialize (H i ltac:(lia)). rewrite !obit_low in H by lia. exact H.
    + exists true. split; [reflexivity|]. split; [|reflexivity]. intros _ i Hi. lia.
  - cbn [contains_from].
    destruct a as [|x a']; [cbn in Hd; lia|]. destruct b as [|y b']; [discriminate Hlen|].
    inversion Fa as [|? ? Hx Fa']; inversion Fb as [|? ? Hy Fb']; subst.
    cbn [length] in *. rewrite (whole_octet x y Hx Hy).
    destruct (top_eq 8 x y) eqn:Et.
    + destruct (IH r a' b' Hr ltac:(lia) Fa' Fb' ltac:(lia)) as (v & Hv & Hiff).
      exists v. split; [exact Hv|]. rewrite Hiff. rewrite top_eq_spec in Et.
      split; intros H i Hi.
      * destruct (Nat.lt_ge_cases i 8) as [Hlt|Hge].
        -- rewrite !obit_low by lia. apply Et. exact Hlt.
        -- replace i with (8 + (i - 8))%nat by lia. rewrite !obit_high. apply H. lia.
      * specialize (H (8 + i)%nat ltac:(lia)). rewrite !obit_high in H. exact H.
    + exists false. split; [reflexivity|]. split; [discriminate|]. intro H. exfalso.
      assert (Ht : top_eq 8 x y = true).
      { apply top_eq_spec. intros j Hj. specialize (H j ltac:(lia)). rewrite !obit_low in H by lia. exact H. }
      congruence.
Qed.

Lemma mask_split mask :
  mask = 8 * N.shiftr mask 3 + N.land mask 7 /\ N.land mask 7 < 8.
Proof.
  rewrite N.shiftr_div_pow2. change 7 with (N.ones 3). rewrite N.land_ones.
  change (2 ^ 3) with 8. split; [apply N.div_mod; lia | apply N.mod_lt; lia].
Qed.

Lemma contains_octets_spec w a b mask :
  octets_ok w a -> octets_ok w b -> mask <= 8 * N.of_nat w ->
  exists v, contains_octets a b mask = COk v
            /\ (v = true <-> forall i, (i < N.to_nat mask)%nat -> obit a i = obit b i).
Proof.
  intros [La Fa] [Lb Fb] Hm. unfold contains_octets.
  destruct (mask_split mask) as [Hs Hr].
  set (d := N.shiftr mask 3) in *. set (r := N.land mask 7) in *.
  destruct (contains_from_spec (N.to_nat d) (N.to_nat r) a b ltac:(lia) ltac:(congruence) Fa Fb ltac:(lia))
    as (v & Hv & Hiff).
  rewrite N2Nat.id in Hv. exists v. split; [exact Hv|]. rewrite Hiff.
  replace (8 * N.to_nat d + N.to_nat r)%nat with (N.to_nat mask) by lia. reflexivity.
Qed.

(* (1) for every prefix length up to the address width, IPv4 and IPv6, the
   fixed IpNet::contains returns exactly "the address agrees with the prefix
   on its leading mask bits" and does not panic *)
Lemma C16_contains_eq_bit_prefix :
  forall (net : ipnet) (addr : ipaddr),
    net_ok net -> addr_ok addr -> mask_of net <= width net ->
    exists v, contains net addr = COk v /\ (v = true <-> inside net addr).
Proof.
  intros [a mask|a mask] [b|b] Hn Ha Hm; cbn [net_ok addr_ok mask_of width contains inside] in *.
  - apply (contains_octets_spec 4); auto.
  - exists false. split; [reflexivity|]. split; [discriminate|intros []].
  - exists false. split; [reflexivity|]. split; [discriminate|intros []].
  - apply (contains_octets_spec 16); auto.
Qed.

(* beyond the width: the loop or the partial octet indexes past the end *)
Lemma contains_from_over div : forall (r : N) (a : list N),
  (length a < div)%nat \/ (length a = div /\ 0 < r) ->
  contains_from div r a a = CPanic.
Proof.
  induction div as [|n IH]; intros r a H; cbn [contains_from].
  - destruct H as [H|[H Hr]]; [lia|].
    destruct a; try discriminate H. destruct (0 <? r) eqn:E; [reflexivity|lia].
  - destruct a as [|x a']; [reflexivity|]. rewrite N.eqb_refl. apply IH. cbn [length] in H. lia.
Qed.

Lemma contains_from_false_or_panic div : forall (r : N) (a b : list N),
  length a = length b ->
  (length a < div)%nat \/ (length a = div /\ 0 < r) ->
  contains_from div r a b = CPanic \/ contains_from div r a b = COk false.
Proof.
  induction div as [|n IH]; intros r a b Hl H; cbn [contains_from].
  - destruct H as [H|[H Hr]]; [lia|].
    destruct a; try discriminate H. destruct b; try discriminate Hl.
    destruct (0 <? r) eqn:E; [left; reflexivity|lia].
  - destruct a as [|x a']; destruct b as [|y b']; try discriminate Hl; [left; reflexivity|].
    destruct (x =? y); [|right; reflexivity]. apply IH; cbn [length] in *; lia.
Qed.

(* (2) a prefix length above the width never says "inside", and panics (slice
   index out of bounds) exactly on the addresses that agree with the prefix on
   all octets - in particular on the prefix's own address.  Such IpNet values
   cannot come from FromStr (it accepts masks 0..=32 / 0..=128 only), which is
   the only constructor used for dynamic-neighbour prefixes; IpNet::new does
   not check. *)
Lemma C16_contains_beyond_width :
  forall (w : nat) (a b : list N) (mask : N),
    length a = w -> length b = w -> 8 * N.of_nat w < mask ->
    (contains_octets a b mask = CPanic \/ contains_octets a b mask = COk false)
    /\ contains_octets a a mask = CPanic.
Proof.
  intros w a b mask La Lb Hm. unfold contains_octets.
  destruct (mask_split mask) as [Hs Hr].
  set (d := N.shiftr mask 3) in *. set (r := N.land mask 7) in *.
  assert (Hc : (length a < N.to_nat d)%nat \/ (length a = N.to_nat d /\ 0 < r)).
  { destruct (N.lt_ge_cases (N.of_nat w) d); [left; lia|]. right. split; lia. }
  split.
  - apply contains_from_false_or_panic; [congruence|exact Hc].
  - apply contains_from_over. exact Hc.
Qed.

Example contains_nonvacuous :
  let net := Net4 [10; 1; 18; 0] 20 in
  net_ok net /\ addr_ok (A4 [10; 1; 18; 5]) /\ mask_of net <= width net
  /\ contains net (A4 [10; 1; 18; 5]) = COk true /\ contains net (A4 [10; 1; 32; 5]) = COk false
  /\ contains_octets [10; 1; 18; 0] [10; 1; 18; 0] 33 = CPanic.
Proof.
  cbv zeta. unfold net_ok, addr_ok, octets_ok, mask_of, width.
  repeat split; try reflexivity; try lia; repeat (constructor; try lia).
Qed.
