(* Two more reachable-state invariants of Model/Rib.v:
   [invE]  no destination is empty, local path ids and (peer address, remote
           path id) keys are pairwise distinct inside every destination;
   [invI]  destination ids are pairwise distinct and the allocator's used set
           is exactly the set of local ids of the live destinations. *)
From Coq Require Import List NArith ZArith Bool Lia Sorting.Permutation Sorting.Sorted.
From RB Require Import Base.Val Model.Rib Spec.BestPath Spec.RibSpec
     Proofs.RibOrder Proofs.RibInv Proofs.RibAux.
Import ListNotations.
Open Scope N_scope.

(* ------------------------------------------------------------ list helpers *)

Lemma nodup_map_filter {A B} (h : A -> B) p l : NoDup (map h l) -> NoDup (map h (filter p l)).
Proof.
  induction l as [|a r IH]; cbn; intro H; [constructor|].
  apply NoDup_cons_iff in H as [Hn Hr]. destruct (p a); cbn; [|apply IH, Hr].
  constructor; [|apply IH, Hr]. intro Hin. apply Hn.
  apply in_map_iff in Hin as (x & E & Hx). apply filter_In in Hx as [Hx _].
  apply in_map_iff. exists x. split; assumption.
Qed.

Lemma nodup_map_remove_first {B} (h : entry -> B) g l :
  NoDup (map h l) -> NoDup (map h (remove_first g l)).
Proof.
  induction l as [|a r IH]; cbn; intro H; [constructor|].
  apply NoDup_cons_iff in H as [Hn Hr]. destruct (g a); [exact Hr|]. cbn.
  constructor; [|apply IH, Hr]. intro Hin. apply Hn.
  apply in_map_iff in Hin as (x & E & Hx). apply remove_first_sub in Hx.
  apply in_map_iff. exists x. split; assumption.
Qed.

Lemma nodup_map_perm {A B} (h : A -> B) l1 l2 :
  Permutation l1 l2 -> NoDup (map h l1) -> NoDup (map h l2).
Proof. intros Hp. apply Permutation_NoDup, Permutation_map, Hp. Qed.

Lemma perm_nonnil {A} (l1 l2 : list A) : Permutation l1 l2 -> l1 <> [] -> l2 <> [].
Proof. intros Hp H1 ->. apply Permutation_sym, Permutation_nil in Hp. contradiction. Qed.

(* ------------------------------------------------------------- entry keys *)

Definition ekey (e : entry) : N * N := (s_addr (e_src e), e_rpid e).

Lemma same_key_ekey s rpid e : same_key s rpid e = true <-> ekey e = (s_addr s, rpid).
Proof.
  unfold same_key, from_addr, ekey. rewrite andb_true_iff, !N.eqb_eq. split.
  - intros [-> ->]. reflexivity.
  - intro H. injection H as -> ->. split; reflexivity.
Qed.

Definition okd (d : dest) : Prop :=
  d_entries d <> [] /\ NoDup (map e_lpid (d_entries d)) /\ NoDup (map ekey (d_entries d)).

Record invE (t : table) : Prop := {
  ve_keys : NoDup (map fst (t_dests t));
  ve_ok : forall net d, In (net, d) (t_dests t) -> okd d
}.

Lemma invE_empty shard : invE (empty_table shard).
Proof. split; cbn; [constructor|intros ? ? []]. Qed.

(* ---- allocation of local path ids *)

Lemma alloc_pid_from_fresh fuel next ents p n' :
  alloc_pid_from fuel next ents = Some (p, n') -> existsb (fun q => e_lpid q =? p) ents = false.
Proof.
  revert next. induction fuel as [|f IH]; intro next; cbn; [discriminate|].
  destruct (existsb (fun q => e_lpid q =? next) ents) eqn:E.
  - apply IH.
  - intro H. injection H as <- _. exact E.
Qed.

Lemma ins_pid_fresh d0 s rpid pn :
  NoDup (map e_lpid (d_entries d0)) ->
  ins_pid d0 (filter (fun e => negb (same_key s rpid e)) (d_entries d0))
          (find (same_key s rpid) (d_entries d0)) = Some pn ->
  ~ In (fst pn) (map e_lpid (filter (fun e => negb (same_key s rpid e)) (d_entries d0))).
Proof.
  intros Hnd. unfold ins_pid. destruct (find (same_key s rpid) (d_entries d0)) as [old|] eqn:Ef.
  - intro H. injection H as <-. cbn [fst]. apply find_some in Ef as [Hin Hk].
    intro Hx. apply in_map_iff in Hx as (x & E & Hx). apply filter_In in Hx as [Hx Hnk].
    assert (x = old) by (apply (nodup_map_inj e_lpid (d_entries d0)); assumption).
    subst x. rewrite Hk in Hnk. discriminate.
  - unfold alloc_pid. cbn [d_entries with_entries]. destruct pn as [p n']. intro H.
    apply alloc_pid_from_fresh in H. cbn [fst]. intro Hx.
    apply in_map_iff in Hx as (x & E & Hx).
    assert (existsb (fun q => e_lpid q =? p)
                    (filter (fun e => negb (same_key s rpid e)) (d_entries d0)) = true); [|congruence].
    apply existsb_exists. exists x. split; [exact Hx|]. apply N.eqb_eq, E.
Qed.

Lemma ins_sorted_nonnil cmp e l : ins_sorted cmp e l <> [].
Proof. apply (perm_nonnil (e :: l)); [apply ins_sorted_perm|discriminate]. Qed.

(* the destination an insert works on: the existing one or a fresh empty one *)
Lemma ins_lookup_entries t net :
  invE t ->
  NoDup (map e_lpid (d_entries (fst (ins_lookup t net))))
  /\ NoDup (map ekey (d_entries (fst (ins_lookup t net)))).
Proof.
  intros [Hk Hok]. unfold ins_lookup. destruct (alookup net (t_dests t)) as [d|] eqn:Hd; cbn [fst d_entries].
  - apply alookup_in in Hd. destruct (Hok _ _ Hd) as (_ & H1 & H2). split; assumption.
  - split; constructor.
Qed.

Lemma okd_inserted d0 s rpid pn cmp e np :
  NoDup (map e_lpid (d_entries d0)) -> NoDup (map ekey (d_entries d0)) ->
  ins_pid d0 (filter (fun x => negb (same_key s rpid x)) (d_entries d0))
          (find (same_key s rpid) (d_entries d0)) = Some pn ->
  e_lpid e = fst pn -> ekey e = (s_addr s, rpid) ->
  okd (with_entries d0 (ins_sorted cmp e (filter (fun x => negb (same_key s rpid x)) (d_entries d0))) np).
Proof.
  intros Hl Hkk Hp El Ek. unfold okd. cbn [d_entries with_entries].
  set (rest := filter (fun x => negb (same_key s rpid x)) (d_entries d0)) in *.
  split; [apply ins_sorted_nonnil|]. split.
  - apply (nodup_map_perm e_lpid (e :: rest)); [apply ins_sorted_perm|]. cbn. constructor.
    + rewrite El. apply (ins_pid_fresh d0 s rpid pn Hl Hp).
    + apply nodup_map_filter, Hl.
  - apply (nodup_map_perm ekey (e :: rest)); [apply ins_sorted_perm|]. cbn. constructor.
    + rewrite Ek. intro Hx. apply in_map_iff in Hx as (x & E & Hx). apply filter_In in Hx as [_ Hnk].
      apply same_key_ekey in E. rewrite E in Hnk. discriminate.
    + apply nodup_map_filter, Hkk.
Qed.

Lemma invE_insert t s net rpid nh a filt nhinv lim :
  invE t -> invE (fst (insert t s net rpid nh a filt nhinv lim)).
Proof.
  intros Hinv. destruct (ins_lookup_entries t net Hinv) as [Hl Hkk]. destruct Hinv as [Hk Hok].
  unfold insert. cbv zeta.
  destruct (ins_over t lim _); [split; assumption|].
  destruct (ins_pid _ _ _) as [pn|] eqn:Hp; [|split; assumption].
  cbn [fst]. split; cbn [t_dests].
  - apply nodup_aset, Hk.
  - intros n d1 Hin. apply (in_aset _ _ _ _ _ Hk) in Hin as [[-> ->]|[_ Hin]]; [|apply (Hok _ _ Hin)].
    apply (okd_inserted _ s rpid pn); try assumption; reflexivity.
Qed.

Lemma invE_remove t s net rpid ctr : invE t -> invE (fst (remove t s net rpid ctr)).
Proof.
  intros [Hk Hok]. unfold remove.
  destruct (alookup net (t_dests t)) as [d|] eqn:Hd; [|split; assumption].
  destruct (find _ _) as [removed|]; [|split; assumption]. cbv zeta.
  apply alookup_in in Hd. destruct (Hok _ _ Hd) as (_ & Hl & Hkk).
  destruct (remove_first (same_key s rpid) (d_entries d)) as [|x xs] eqn:Hrest; cbn [fst]; split; cbn [t_dests].
  - apply nodup_aremove, Hk.
  - intros n d1 Hin. apply in_aremove in Hin as [_ Hin]. apply (Hok _ _ Hin).
  - apply nodup_aset, Hk.
  - intros n d1 Hin. apply (in_aset _ _ _ _ _ Hk) in Hin as [[-> ->]|[_ Hin]]; [|apply (Hok _ _ Hin)].
    unfold okd. cbn [d_entries with_entries]. rewrite <- Hrest. split; [rewrite Hrest; discriminate|].
    split; apply nodup_map_remove_first; assumption.
Qed.

(* ---- drop / purge: one destination *)

Lemma drop_dest_cases fl k addr net d :
  let sel := drop_sel fl k addr in
  let rest := filter (fun e => negb (sel e)) (d_entries d) in
  let d' := with_entries d rest (d_next_pid d) in
  (existsb sel (d_entries d) = false /\ drop_dest fl k addr net d = (Some d, None, []))
  \/ (existsb sel (d_entries d) = true /\
      fst (fst (drop_dest fl k addr net d)) = (match rest with [] => None | _ => Some d' end) /\
      snd (drop_dest fl k addr net d) = filter sel (d_entries d) /\
      snd (fst (drop_dest fl k addr net d)) =
        if existsb (fun e => sel e && eligible e) (d_entries d)
        then Some {| c_net := net; c_dest_id := d_id d;
                     c_best_changed := match rest with [] => true | _ => negb (oNeqb (best_lpid d) (best_lpid d')) end;
                     c_any_changed := true; c_replaced := None;
                     c_paths := match rest with [] => [] | _ => elig_list d' end |}
        else None).
Proof.
  unfold drop_dest. cbv zeta.
  destruct (existsb (drop_sel fl k addr) (d_entries d)) eqn:Ex; cbn [negb]; [right|left; split; reflexivity].
  split; [reflexivity|].
  generalize (filter (fun e => negb (drop_sel fl k addr e)) (d_entries d)). intro rest.
  destruct (existsb (fun e => drop_sel fl k addr e && eligible e) (d_entries d)); cbn [negb];
    destruct rest; cbn [fst snd]; repeat split; reflexivity.
Qed.

Lemma drop_dest_okd fl k addr net d d' :
  okd d -> fst (fst (drop_dest fl k addr net d)) = Some d' -> okd d' /\ d_id d' = d_id d.
Proof.
  intros (Hne & Hl & Hkk) H.
  destruct (drop_dest_cases fl k addr net d) as [[_ E]|(_ & E & _)]; cbv zeta in E; rewrite E in H.
  - cbn in H. injection H as <-. split; [split; [|split]; assumption|reflexivity].
  - remember (filter (fun e => negb (drop_sel fl k addr e)) (d_entries d)) as rest eqn:Er.
    destruct rest as [|x xs]; [discriminate|]. injection H as <-.
    split; [|reflexivity]. unfold okd. cbn [d_entries with_entries].
    split; [discriminate|]. rewrite Er. split; apply nodup_map_filter; assumption.
Qed.

Lemma invE_drop t k addr ctr : invE t -> invE (fst (drop_op t k addr ctr)).
Proof.
  intros [Hk Hok]. destruct (drop_op_dests t k addr ctr) as [Hd _].
  split; rewrite ?Hd.
  - apply nodup_fm, Hk.
  - intros n d' Hin. apply in_fm in Hin as (d & Hin & E).
    apply (drop_dest_okd _ _ _ _ _ _ (Hok _ _ Hin) E).
Qed.

(* ---- stale marking and next-hop validity keep ids, keys and membership *)

Lemma restale_dest_entries fl' llgr addr net d :
  d_id (fst (restale_dest fl' llgr addr net d)) = d_id d
  /\ Permutation (d_entries d) (d_entries (fst (restale_dest fl' llgr addr net d))).
Proof.
  unfold restale_dest. destruct (negb (existsb (from_addr addr) (d_entries d))); cbn [fst d_id d_entries with_entries].
  - split; reflexivity.
  - split; [reflexivity|apply isort_perm].
Qed.

Lemma okd_perm d d' : Permutation (d_entries d) (d_entries d') -> okd d -> okd d'.
Proof.
  intros Hp (Hne & Hl & Hkk). split; [apply (perm_nonnil _ _ Hp Hne)|].
  split; [apply (nodup_map_perm _ _ _ Hp Hl)|apply (nodup_map_perm _ _ _ Hp Hkk)].
Qed.

Lemma invE_restale t llgr addr : invE t -> invE (fst (restale_op t llgr addr)).
Proof.
  intros [Hk Hok]. destruct (restale_op_dests t llgr addr) as [Hd _]. cbv zeta in Hd.
  split; rewrite ?Hd.
  - rewrite keys_mp. exact Hk.
  - intros n d' Hin. apply in_mp in Hin as (d & Hin & ->).
    apply (okd_perm d); [apply restale_dest_entries|apply (Hok _ _ Hin)].
Qed.

Definition nhv_e (nh : N) (reachable : bool) (e : entry) : entry :=
  if match e_nh e with Some x => x =? nh | None => false end
  then {| e_lpid := e_lpid e; e_rpid := e_rpid e; e_src := e_src e; e_nh := e_nh e; e_attr := e_attr e;
          e_filtered := e_filtered e; e_nhinv := negb reachable |}
  else e.

Lemma nhv_e_same nh r e :
  e_lpid (nhv_e nh r e) = e_lpid e /\ e_rpid (nhv_e nh r e) = e_rpid e /\ e_src (nhv_e nh r e) = e_src e
  /\ e_nh (nhv_e nh r e) = e_nh e /\ e_attr (nhv_e nh r e) = e_attr e
  /\ e_filtered (nhv_e nh r e) = e_filtered e.
Proof.
  unfold nhv_e. destruct (match e_nh e with Some x => x =? nh | None => false end); cbn; repeat split; reflexivity.
Qed.

Definition nhv_hit (nh : N) (reachable : bool) (e : entry) : bool :=
  match e_nh e with Some x => (x =? nh) && negb (Bool.eqb (e_nhinv e) (negb reachable)) | None => false end.

Lemma nhv_dest_cases nh r net d :
  (existsb (nhv_hit nh r) (d_entries d) = false /\ nhv_dest nh r net d = (d, None))
  \/ (existsb (nhv_hit nh r) (d_entries d) = true /\
      let d' := with_entries d (map (nhv_e nh r) (d_entries d)) (d_next_pid d) in
      nhv_dest nh r net d =
      (d', Some {| c_net := net; c_dest_id := d_id d;
                   c_best_changed := negb (key_eqb (best_key d) (best_key d'));
                   c_any_changed := true; c_replaced := None; c_paths := elig_list d' |})).
Proof.
  unfold nhv_dest. fold (nhv_hit nh r).
  destruct (existsb (nhv_hit nh r) (d_entries d)); cbn [negb]; [right|left]; split; reflexivity.
Qed.

Lemma nhv_dest_okd nh r net d : okd d -> okd (fst (nhv_dest nh r net d)) /\ d_id (fst (nhv_dest nh r net d)) = d_id d.
Proof.
  intros (Hne & Hl & Hkk).
  destruct (nhv_dest_cases nh r net d) as [[_ E]|[_ E]]; cbv zeta in E; rewrite E; cbn [fst].
  - split; [split; [|split]; assumption|reflexivity].
  - split; [|reflexivity]. unfold okd. cbn [d_entries with_entries]. split; [|split].
    + destruct (d_entries d); [contradiction|discriminate].
    + rewrite map_map. erewrite map_ext; [exact Hl|]. intro e. apply nhv_e_same.
    + rewrite map_map. erewrite map_ext; [exact Hkk|]. intro e. unfold ekey.
      destruct (nhv_e_same nh r e) as (_ & -> & -> & _). reflexivity.
Qed.

Lemma invE_nhv t nh r : invE t -> invE (fst (nhv_op t nh r)).
Proof.
  intros [Hk Hok]. destruct (nhv_op_dests t nh r) as [Hd _].
  split; rewrite ?Hd.
  - rewrite keys_mp. exact Hk.
  - intros n d' Hin. apply in_mp in Hin as (d & Hin & ->). apply nhv_dest_okd, (Hok _ _ Hin).
Qed.

Lemma invE_set_deferring t b : invE t -> invE (set_deferring t b).
Proof. intros [Hk Hok]. split; assumption. Qed.

Lemma invE_step t o : invE t -> invE (fst (fst (step t o))).
Proof.
  intros Hi. destruct o as [s net rpid nh a filt nhinv lim|s net rpid ctr|k addr ctr|llgr addr|nh r| |];
    cbn [step].
  - pose proof (invE_insert t s net rpid nh a filt nhinv lim Hi) as H.
    destruct (insert t s net rpid nh a filt nhinv lim) as [t' [| |c]]; exact H.
  - pose proof (invE_remove t s net rpid ctr Hi) as H.
    destruct (remove t s net rpid ctr) as [t' [c|]]; exact H.
  - pose proof (invE_drop t k addr ctr Hi) as H. destruct (drop_op t k addr ctr) as [t' cs]. exact H.
  - pose proof (invE_restale t llgr addr Hi) as H. destruct (restale_op t llgr addr) as [t' cs]. exact H.
  - pose proof (invE_nhv t nh r Hi) as H. destruct (nhv_op t nh r) as [t' cs]. exact H.
  - apply invE_set_deferring, Hi.
  - apply invE_set_deferring, Hi.
Qed.

Lemma invE_run t ops : invE t -> invE (run t ops).
Proof.
  revert t. induction ops as [|o r IH]; intros t Hi; cbn; [exact Hi|]. apply IH, invE_step, Hi.
Qed.

(* ===================================================== destination ids *)

Definition lid (d : dest) : N := local_of (d_id d).

Record invI (t : table) : Prop := {
  vi_locals : NoDup (map (fun nd => lid (snd nd)) (t_dests t));
  vi_used : forall l, In l (t_used t) <-> exists net d, In (net, d) (t_dests t) /\ lid d = l;
  vi_form : forall net d, In (net, d) (t_dests t) -> d_id d = dest_id (t_shard t) (lid d);
  vi_usednd : NoDup (t_used t)
}.

Lemma invI_empty shard : invI (empty_table shard).
Proof.
  split; cbn; [constructor| |intros ? ? []|constructor].
  intro l. split; [intros []|intros (? & ? & [] & _)].
Qed.

(* ---- bit packing: the local id is recovered from the packed id *)

Lemma local_of_dest_id shard l : l < 16777216 -> local_of (dest_id shard l) = l.
Proof.
  intro Hl. unfold local_of, dest_id. change 16777215 with (N.ones 24).
  apply N.bits_inj. intro i. rewrite N.land_spec, N.lor_spec.
  destruct (N.lt_ge_cases i 24) as [Hi|Hi].
  - rewrite N.ones_spec_low by exact Hi. rewrite N.shiftl_spec_low by exact Hi.
    cbn. apply andb_true_r.
  - rewrite N.ones_spec_high by exact Hi. rewrite andb_false_r. symmetry.
    destruct (N.eq_dec l 0) as [->|Hz]; [apply N.bits_0|].
    apply N.bits_above_log2. apply N.lt_le_trans with 24; [|exact Hi].
    apply N.log2_lt_pow2; [lia|]. exact Hl.
Qed.

(* ---- the allocator returns a free id (pigeonhole over the fuel) *)

Lemma filter_len_le {A} (p q : A -> bool) l :
  (forall x, p x = true -> q x = true) -> (length (filter p l) <= length (filter q l))%nat.
Proof.
  intro H. induction l as [|a r IH]; cbn; [lia|].
  destruct (p a) eqn:Pa; [rewrite (H a Pa); cbn; lia|]. destruct (q a); cbn; lia.
Qed.

Lemma filter_len_lt {A} (p q : A -> bool) l y :
  (forall x, p x = true -> q x = true) -> In y l -> q y = true -> p y = false ->
  (length (filter p l) < length (filter q l))%nat.
Proof.
  intros H. induction l as [|a r IH]; cbn; [intros []|]. intros [->|Hy] Qy Py.
  - rewrite Qy, Py. cbn. pose proof (filter_len_le p q r H). lia.
  - specialize (IH Hy Qy Py). destruct (p a) eqn:Pa; [rewrite (H a Pa); cbn; lia|].
    destruct (q a); cbn; lia.
Qed.

Lemma mex_from_fresh fuel k used :
  Nat.le (length (filter (fun x => k <=? x) used)) fuel ->
  existsb (N.eqb (mex_from fuel k used)) used = false.
Proof.
  revert k. induction fuel as [|f IH]; intros k Hlen; cbn [mex_from].
  - destruct (existsb (N.eqb k) used) eqn:E; [|reflexivity]. exfalso.
    apply existsb_exists in E as (x & Hx & Ex). apply N.eqb_eq in Ex. subst x.
    assert (Hin : In k (filter (fun x => k <=? x) used)).
    { apply filter_In. split; [exact Hx|]. apply N.leb_le. lia. }
    destruct (filter (fun x => k <=? x) used); [destruct Hin|cbn in Hlen; lia].
  - destruct (existsb (N.eqb k) used) eqn:E; [|exact E].
    apply IH. apply existsb_exists in E as (x & Hx & Ex). apply N.eqb_eq in Ex. subst x.
    assert (Nat.lt (length (filter (fun x => k + 1 <=? x) used)) (length (filter (fun x => k <=? x) used))); [|unfold Nat.le in *; lia].
    apply (filter_len_lt _ _ used k); [| exact Hx | |].
    + intros x Hxx. apply N.leb_le in Hxx. apply N.leb_le. lia.
    + apply N.leb_le. lia.
    + apply N.leb_gt. lia.
Qed.

Lemma mex_from_le fuel k used : mex_from fuel k used <= k + N.of_nat fuel.
Proof.
  revert k. induction fuel as [|f IH]; intro k; cbn [mex_from]; [lia|].
  destruct (existsb (N.eqb k) used); [|lia]. specialize (IH (k + 1)). lia.
Qed.

Lemma alloc_id_fresh used : ~ In (alloc_id used) used.
Proof.
  unfold alloc_id. intro Hin.
  assert (E : existsb (N.eqb (mex_from (length used) 0 used)) used = false).
  { apply mex_from_fresh. pose proof (filter_len_le (fun x => 0 <=? x) (fun _ => true) used (fun _ _ => eq_refl)) as H.
    assert (Hall : filter (fun _ : N => true) used = used).
    { clear. induction used as [|a r IH]; cbn; [reflexivity|]. rewrite IH. reflexivity. }
    rewrite Hall in H. exact H. }
  assert (existsb (N.eqb (mex_from (length used) 0 used)) used = true); [|congruence].
  apply existsb_exists. eexists. split; [exact Hin|apply N.eqb_refl].
Qed.

Lemma alloc_id_le used : alloc_id used <= N.of_nat (length used).
Proof. unfold alloc_id. pose proof (mex_from_le (length used) 0 used). lia. Qed.

Lemma invI_used_len t : invI t -> (length (t_used t) <= length (t_dests t))%nat.
Proof.
  intros [Hl Hu Hf Hn].
  rewrite <- (map_length (fun nd => lid (snd nd)) (t_dests t)).
  apply NoDup_incl_length; [exact Hn|]. intros l Hin. apply Hu in Hin as (net & d & Hin & <-).
  apply in_map_iff. exists (net, d). split; [reflexivity|exact Hin].
Qed.

(* ---- generic preservation lemmas, one per shape of update *)

Lemma invI_replace t t' net d d2 :
  alookup net (t_dests t) = Some d -> d_id d2 = d_id d ->
  t_dests t' = aset net d2 (t_dests t) -> t_used t' = t_used t -> t_shard t' = t_shard t ->
  invI t -> invI t'.
Proof.
  intros Hd Hid Ed Eu Es [Hl Hu Hf Hn].
  destruct (aset_some net d2 d (t_dests t) Hd) as (m1 & m2 & Em & Ea).
  assert (Elid : lid d2 = lid d) by (unfold lid; rewrite Hid; reflexivity).
  split; rewrite ?Ed, ?Eu, ?Es, ?Ea.
  - rewrite Em in Hl. rewrite map_app in *. cbn [map snd] in *. rewrite Elid. exact Hl.
  - intro l. rewrite Hu, Em. split; intros (n & d1 & Hin & E); rewrite in_app_iff in Hin; cbn [In] in Hin.
    + destruct Hin as [Hin|[Hin|Hin]].
      * exists n, d1. split; [rewrite in_app_iff; left; exact Hin|exact E].
      * injection Hin as <- <-. exists net, d2. split; [rewrite in_app_iff; right; left; reflexivity|congruence].
      * exists n, d1. split; [rewrite in_app_iff; right; right; exact Hin|exact E].
    + destruct Hin as [Hin|[Hin|Hin]].
      * exists n, d1. split; [rewrite in_app_iff; left; exact Hin|exact E].
      * injection Hin as <- <-. exists net, d. split; [rewrite in_app_iff; right; left; reflexivity|congruence].
      * exists n, d1. split; [rewrite in_app_iff; right; right; exact Hin|exact E].
  - intros n d1 Hin. rewrite in_app_iff in Hin. cbn [In] in Hin. destruct Hin as [Hin|[Hin|Hin]].
    + apply (Hf n). rewrite Em, in_app_iff. left. exact Hin.
    + injection Hin as <- <-. rewrite Hid, Elid. apply (Hf net). rewrite Em, in_app_iff. right. left. reflexivity.
    + apply (Hf n). rewrite Em, in_app_iff. right. right. exact Hin.
  - exact Hn.
Qed.

Lemma invI_add t t' net d2 :
  alookup net (t_dests t) = None -> N.of_nat (length (t_dests t)) < 16777216 ->
  d_id d2 = dest_id (t_shard t) (alloc_id (t_used t)) ->
  t_dests t' = aset net d2 (t_dests t) -> t_used t' = alloc_id (t_used t) :: t_used t ->
  t_shard t' = t_shard t ->
  invI t -> invI t'.
Proof.
  intros Hd Hb Hid Ed Eu Es Hinv. pose proof (invI_used_len t Hinv) as Hlen.
  destruct Hinv as [Hl Hu Hf Hn].
  set (l := alloc_id (t_used t)) in *.
  assert (Hfresh : ~ In l (t_used t)) by apply alloc_id_fresh.
  assert (Hsmall : l < 16777216) by (pose proof (alloc_id_le (t_used t)); unfold l; lia).
  assert (Elid : lid d2 = l) by (unfold lid; rewrite Hid; apply local_of_dest_id, Hsmall).
  split; rewrite ?Ed, ?Eu, ?Es, ?(aset_none net d2 (t_dests t) Hd).
  - rewrite map_app. cbn [map snd]. rewrite Elid. apply nodup_snoc; [exact Hl|].
    intro Hin. apply Hfresh. apply Hu. apply in_map_iff in Hin as ([n d1] & E & Hin). exists n, d1. split; assumption.
  - intro x. cbn [In]. rewrite Hu. split.
    + intros [<-|(n & d1 & Hin & E)].
      * exists net, d2. split; [rewrite in_app_iff; right; left; reflexivity|exact Elid].
      * exists n, d1. split; [rewrite in_app_iff; left; exact Hin|exact E].
    + intros (n & d1 & Hin & E). rewrite in_app_iff in Hin. destruct Hin as [Hin|[Hin|[]]].
      * right. exists n, d1. split; assumption.
      * injection Hin as <- <-. left. congruence.
  - intros n d1 Hin. rewrite in_app_iff in Hin. destruct Hin as [Hin|[Hin|[]]]; [apply (Hf _ _ Hin)|].
    injection Hin as <- <-. rewrite Elid. exact Hid.
  - constructor; assumption.
Qed.

Lemma invI_del t t' net d :
  NoDup (map fst (t_dests t)) -> alookup net (t_dests t) = Some d ->
  t_dests t' = aremove net (t_dests t) ->
  t_used t' = filter (fun x => negb (x =? lid d)) (t_used t) -> t_shard t' = t_shard t ->
  invI t -> invI t'.
Proof.
  intros Hk Hd Ed Eu Es [Hl Hu Hf Hn].
  destruct (aremove_some net d (t_dests t) Hk Hd) as (m1 & m2 & Em & Ea).
  assert (Hnot : ~ In (lid d) (map (fun nd => lid (snd nd)) (m1 ++ m2))).
  { rewrite Em, map_app in Hl. cbn [map snd] in Hl. apply NoDup_remove_2 in Hl. rewrite map_app. exact Hl. }
  split; rewrite ?Ed, ?Eu, ?Es, ?Ea.
  - rewrite Em, map_app in Hl. cbn [map] in Hl. apply NoDup_remove_1 in Hl. rewrite map_app. exact Hl.
  - intro l. rewrite filter_In, Hu, Em. split.
    + intros [(n & d1 & Hin & E) Hne]. rewrite in_app_iff in Hin. cbn [In] in Hin.
      destruct Hin as [Hin|[Hin|Hin]].
      * exists n, d1. split; [rewrite in_app_iff; left; exact Hin|exact E].
      * injection Hin as <- <-. rewrite E, N.eqb_refl in Hne. discriminate.
      * exists n, d1. split; [rewrite in_app_iff; right; exact Hin|exact E].
    + intros (n & d1 & Hin & E). split.
      * exists n, d1. split; [|exact E]. rewrite in_app_iff in *. cbn [In]. tauto.
      * destruct (l =? lid d) eqn:El; [|reflexivity]. apply N.eqb_eq in El. exfalso. apply Hnot.
        rewrite <- El, <- E. apply in_map_iff. exists (n, d1). split; [reflexivity|exact Hin].
  - intros n d1 Hin. apply (Hf n). rewrite Em. rewrite in_app_iff in *. cbn [In]. tauto.
  - apply NoDup_filter, Hn.
Qed.

Lemma invI_fm t t' g :
  NoDup (map fst (t_dests t)) ->
  (forall n d d', g n d = Some d' -> d_id d' = d_id d) ->
  t_dests t' = fm g (t_dests t) ->
  t_used t' = filter (fun x => negb (existsb (N.eqb x)
                 (flat_map (fun nd => match g (fst nd) (snd nd) with Some _ => [] | None => [lid (snd nd)] end)
                           (t_dests t)))) (t_used t) ->
  t_shard t' = t_shard t ->
  invI t -> invI t'.
Proof.
  intros Hk Hg Ed Eu Es [Hl Hu Hf Hn].
  assert (Hgl : forall n d d', g n d = Some d' -> lid d' = lid d).
  { intros n d d' E. unfold lid. rewrite (Hg _ _ _ E). reflexivity. }
  split; rewrite ?Ed, ?Eu, ?Es.
  - apply (nodup_map_fm lid g); assumption.
  - intro l. rewrite filter_In, Hu. split.
    + intros [(n & d & Hin & E) Hfree]. destruct (g n d) as [d'|] eqn:Eg.
      * exists n, d'. split; [apply in_fm; exists d; split; assumption|]. rewrite (Hgl _ _ _ Eg). exact E.
      * exfalso. apply negb_true_iff in Hfree.
        assert (existsb (N.eqb l) (flat_map (fun nd => match g (fst nd) (snd nd) with Some _ => [] | None => [lid (snd nd)] end) (t_dests t)) = true); [|congruence].
        apply existsb_exists. exists l. split; [|apply N.eqb_refl].
        apply in_flat_map. exists (n, d). split; [exact Hin|]. cbn [fst snd]. rewrite Eg. left. exact E.
    + intros (n & d' & Hin & E). apply in_fm in Hin as (d & Hin & Eg). split.
      * exists n, d. split; [exact Hin|]. rewrite <- (Hgl _ _ _ Eg). exact E.
      * apply negb_true_iff. destruct (existsb _ _) eqn:Ex; [|reflexivity]. exfalso.
        apply existsb_exists in Ex as (x & Hx & Exl). apply N.eqb_eq in Exl. subst x.
        apply in_flat_map in Hx as ([n2 d2] & Hin2 & Hx). cbn [fst snd] in Hx.
        destruct (g n2 d2) eqn:Eg2; [destruct Hx|]. destruct Hx as [Hx|[]].
        assert (Heq : (n2, d2) = (n, d)).
        { apply (nodup_map_inj (fun nd => lid (snd nd)) (t_dests t)); try assumption.
          cbn [snd]. rewrite Hx, <- E. apply (Hgl _ _ _ Eg). }
        injection Heq as -> ->. congruence.
  - intros n d' Hin. apply in_fm in Hin as (d & Hin & Eg).
    rewrite (Hg _ _ _ Eg), (Hgl _ _ _ Eg). apply (Hf _ _ Hin).
  - apply NoDup_filter, Hn.
Qed.

Lemma invI_mp t t' g :
  (forall n d, d_id (g n d) = d_id d) ->
  t_dests t' = mp g (t_dests t) -> t_used t' = t_used t -> t_shard t' = t_shard t ->
  invI t -> invI t'.
Proof.
  intros Hg Ed Eu Es [Hl Hu Hf Hn].
  assert (Hgl : forall n d, lid (g n d) = lid d) by (intros; unfold lid; rewrite Hg; reflexivity).
  split; rewrite ?Ed, ?Eu, ?Es.
  - rewrite (map_mp_same lid g); assumption.
  - intro l. rewrite Hu. split.
    + intros (n & d & Hin & E). exists n, (g n d). split; [apply in_mp; exists d; split; [assumption|reflexivity]|].
      rewrite Hgl. exact E.
    + intros (n & d' & Hin & E). apply in_mp in Hin as (d & Hin & ->). exists n, d. split; [exact Hin|].
      rewrite <- (Hgl n). exact E.
  - intros n d' Hin. apply in_mp in Hin as (d & Hin & ->). rewrite Hg, Hgl. apply (Hf _ _ Hin).
  - exact Hn.
Qed.

(* ---- the shape of each operation's effect on the table *)

Lemma insert_shape t s net rpid nh a filt nhinv lim :
  let t' := fst (insert t s net rpid nh a filt nhinv lim) in
  t' = t
  \/ exists d2, d_id d2 = d_id (fst (ins_lookup t net))
       /\ t_dests t' = aset net d2 (t_dests t) /\ t_used t' = snd (ins_lookup t net)
       /\ t_shard t' = t_shard t /\ t_flags t' = t_flags t /\ t_deferring t' = t_deferring t.
Proof.
  cbv zeta. unfold insert. cbv zeta.
  destruct (ins_over t lim _); [left; reflexivity|].
  destruct (ins_pid _ _ _) as [pn|]; [|left; reflexivity].
  right. cbn [fst t_dests t_used t_shard t_flags t_deferring]. eexists. split; [|repeat split; reflexivity].
  reflexivity.
Qed.

Lemma invI_insert t s net rpid nh a filt nhinv lim :
  N.of_nat (length (t_dests t)) < 16777216 ->
  invI t -> invI (fst (insert t s net rpid nh a filt nhinv lim)).
Proof.
  intros Hb Hinv.
  destruct (insert_shape t s net rpid nh a filt nhinv lim) as [E|(d2 & Hid & Ed & Eu & Es & _)];
    cbv zeta in *; [rewrite E; exact Hinv|].
  unfold ins_lookup in Hid, Eu. destruct (alookup net (t_dests t)) as [d|] eqn:Hd; cbn [fst snd d_id] in Hid, Eu.
  - apply (invI_replace t _ net d d2); assumption.
  - apply (invI_add t _ net d2); assumption.
Qed.

Lemma remove_shape t s net rpid ctr :
  let t' := fst (remove t s net rpid ctr) in
  t' = t
  \/ exists d, alookup net (t_dests t) = Some d /\ t_shard t' = t_shard t /\ t_flags t' = t_flags t
       /\ t_deferring t' = t_deferring t
       /\ ((remove_first (same_key s rpid) (d_entries d) = [] /\ t_dests t' = aremove net (t_dests t)
            /\ t_used t' = filter (fun x => negb (x =? lid d)) (t_used t))
           \/ (remove_first (same_key s rpid) (d_entries d) <> [] /\ t_used t' = t_used t
               /\ t_dests t' = aset net (with_entries d (remove_first (same_key s rpid) (d_entries d)) (d_next_pid d))
                                    (t_dests t))).
Proof.
  cbv zeta. unfold remove.
  destruct (alookup net (t_dests t)) as [d|] eqn:Hd; [|left; reflexivity].
  destruct (find _ _) as [removed|]; [|left; reflexivity]. cbv zeta. right. exists d. split; [reflexivity|].
  destruct (remove_first (same_key s rpid) (d_entries d)) as [|x xs] eqn:Hrest;
    cbn [fst t_dests t_used t_shard t_flags t_deferring]; repeat split; try reflexivity.
  - left. repeat split; reflexivity.
  - right. repeat split; try reflexivity. discriminate.
Qed.

Lemma invI_remove t s net rpid ctr :
  NoDup (map fst (t_dests t)) -> invI t -> invI (fst (remove t s net rpid ctr)).
Proof.
  intros Hk Hinv.
  destruct (remove_shape t s net rpid ctr) as [E|(d & Hd & Es & _ & _ & [(Hr & Ed & Eu)|(Hr & Eu & Ed)])];
    cbv zeta in *; [rewrite E; exact Hinv| |].
  - apply (invI_del t _ net d); assumption.
  - apply (invI_replace t _ net d (with_entries d (remove_first (same_key s rpid) (d_entries d)) (d_next_pid d)) Hd (eq_refl _) Ed Eu Es Hinv).
Qed.

Lemma drop_op_used t k addr ctr :
  t_used (fst (drop_op t k addr ctr))
  = filter (fun x => negb (existsb (N.eqb x)
        (flat_map (fun nd => match fst (fst (drop_dest (t_flags t) k addr (fst nd) (snd nd))) with
                             | Some _ => [] | None => [lid (snd nd)] end) (t_dests t)))) (t_used t)
  /\ t_shard (fst (drop_op t k addr ctr)) = t_shard t
  /\ t_deferring (fst (drop_op t k addr ctr)) = t_deferring t.
Proof.
  unfold drop_op. cbv zeta. destruct (stats_of t addr) as [rcv acc].
  destruct (fold_left _ _ _) as [[rcv' acc'] bad']. cbn [fst t_used t_shard t_deferring].
  split; [|split; reflexivity]. rewrite flat_map_map. reflexivity.
Qed.

Lemma invI_drop t k addr ctr :
  NoDup (map fst (t_dests t)) -> (forall net d, In (net, d) (t_dests t) -> okd d) ->
  invI t -> invI (fst (drop_op t k addr ctr)).
Proof.
  intros Hk Hok Hinv. destruct (drop_op_dests t k addr ctr) as [Ed _].
  destruct (drop_op_used t k addr ctr) as (Eu & Es & _).
  apply (invI_fm t _ (fun n d => fst (fst (drop_dest (t_flags t) k addr n d)))); try assumption.
  intros n d d' E.
  destruct (drop_dest_cases (t_flags t) k addr n d) as [[_ E1]|(_ & E1 & _)]; cbv zeta in E1; rewrite E1 in E.
  - cbn in E. injection E as <-. reflexivity.
  - destruct (filter _ (d_entries d)); [discriminate|]. injection E as <-. reflexivity.
Qed.

Lemma restale_op_rest t llgr addr :
  t_used (fst (restale_op t llgr addr)) = t_used t /\ t_shard (fst (restale_op t llgr addr)) = t_shard t
  /\ t_deferring (fst (restale_op t llgr addr)) = t_deferring t.
Proof. unfold restale_op. cbv zeta. cbn. repeat split; reflexivity. Qed.

Lemma invI_restale t llgr addr : invI t -> invI (fst (restale_op t llgr addr)).
Proof.
  intro Hinv. destruct (restale_op_dests t llgr addr) as [Ed _]. cbv zeta in Ed.
  destruct (restale_op_rest t llgr addr) as (Eu & Es & _).
  apply (invI_mp t _ _ (fun n d => proj1 (restale_dest_entries _ llgr addr n d)) Ed Eu Es Hinv).
Qed.

Lemma nhv_op_rest t nh r :
  t_used (fst (nhv_op t nh r)) = t_used t /\ t_shard (fst (nhv_op t nh r)) = t_shard t
  /\ t_deferring (fst (nhv_op t nh r)) = t_deferring t.
Proof. unfold nhv_op. cbn. repeat split; reflexivity. Qed.

Lemma nhv_dest_id nh r n d : d_id (fst (nhv_dest nh r n d)) = d_id d.
Proof.
  destruct (nhv_dest_cases nh r n d) as [[_ E]|[_ E]]; cbv zeta in E; rewrite E; reflexivity.
Qed.

Lemma invI_nhv t nh r : invI t -> invI (fst (nhv_op t nh r)).
Proof.
  intro Hinv. destruct (nhv_op_dests t nh r) as [Ed _]. destruct (nhv_op_rest t nh r) as (Eu & Es & _).
  apply (invI_mp t _ _ (nhv_dest_id nh r) Ed Eu Es Hinv).
Qed.

Lemma invI_set_deferring t b : invI t -> invI (set_deferring t b).
Proof. intros [Hl Hu Hf Hn]. split; assumption. Qed.

Lemma invI_step t o :
  invE t -> N.of_nat (length (t_dests t)) < 16777216 -> invI t -> invI (fst (fst (step t o))).
Proof.
  intros [Hk Hok] Hb Hi. destruct o as [s net rpid nh a filt nhinv lim|s net rpid ctr|k addr ctr|llgr addr|nh r| |];
    cbn [step].
  - pose proof (invI_insert t s net rpid nh a filt nhinv lim Hb Hi) as H.
    destruct (insert t s net rpid nh a filt nhinv lim) as [t' [| |c]]; exact H.
  - pose proof (invI_remove t s net rpid ctr Hk Hi) as H.
    destruct (remove t s net rpid ctr) as [t' [c|]]; exact H.
  - pose proof (invI_drop t k addr ctr Hk Hok Hi) as H. destruct (drop_op t k addr ctr) as [t' cs]. exact H.
  - pose proof (invI_restale t llgr addr Hi) as H. destruct (restale_op t llgr addr) as [t' cs]. exact H.
  - pose proof (invI_nhv t nh r Hi) as H. destruct (nhv_op t nh r) as [t' cs]. exact H.
  - apply invI_set_deferring, Hi.
  - apply invI_set_deferring, Hi.
Qed.

Lemma invI_run t ops : invE t -> invI t -> bounded t ops -> invI (run t ops).
Proof.
  revert t. induction ops as [|o r IH]; intros t He Hi Hb; cbn; [exact Hi|].
  destruct Hb as [Hb Hr]. apply IH; [apply invE_step, He|apply invI_step; assumption|exact Hr].
Qed.

Lemma step_shard t o : t_shard (fst (fst (step t o))) = t_shard t.
Proof.
  destruct o as [s net rpid nh a filt nhinv lim|s net rpid ctr|k addr ctr|llgr addr|nh r| |]; cbn [step].
  - pose proof (insert_shape t s net rpid nh a filt nhinv lim) as H. cbv zeta in H.
    destruct (insert t s net rpid nh a filt nhinv lim) as [t' [| |c]]; cbn [fst] in *;
      (destruct H as [->|(d2 & _ & _ & _ & Es & _)]; [reflexivity|exact Es]).
  - pose proof (remove_shape t s net rpid ctr) as H. cbv zeta in H.
    destruct (remove t s net rpid ctr) as [t' [c|]]; cbn [fst] in *;
      (destruct H as [->|(d & _ & Es & _)]; [reflexivity|exact Es]).
  - pose proof (drop_op_used t k addr ctr) as (_ & H & _). destruct (drop_op t k addr ctr) as [t' cs]. exact H.
  - pose proof (restale_op_rest t llgr addr) as (_ & H & _). destruct (restale_op t llgr addr) as [t' cs]. exact H.
  - pose proof (nhv_op_rest t nh r) as (_ & H & _). destruct (nhv_op t nh r) as [t' cs]. exact H.
  - reflexivity.
  - reflexivity.
Qed.

Lemma run_shard t ops : t_shard (run t ops) = t_shard t.
Proof.
  revert t. induction ops as [|o r IH]; intro t; [reflexivity|].
  change (run t (o :: r)) with (run (fst (fst (step t o))) r). rewrite IH. apply step_shard.
Qed.
