(* C19, MRT half: the encoders of Model/Mrt.v read back by the RFC 6396 reader of
   Spec/MrtRead.v. *)
From Coq Require Import List NArith Bool Arith Lia ZifyBool ZifyNat ZifyN.
From RB Require Import Base.Val Base.BytesBuf Model.Bmp Model.Mrt Spec.BmpRead Spec.MrtRead Proofs.Bmp.
Import ListNotations.
Open Scope N_scope.

(* ------------------------------------------------------------ closed forms *)

Definition mrt_rec (ts ty sub : N) (body : bytes) : bytes :=
  be 4 ts ++ be 2 ty ++ be 2 sub ++ be 4 (N.of_nat (length body)) ++ body.

Lemma mrt_rec_length : forall ts ty sub body, length (mrt_rec ts ty sub body) = (12 + length body)%nat.
Proof. intros. unfold mrt_rec. rewrite !app_length, !be_length. lia. Qed.

Lemma mp_record_closed : forall h ts sub dst pdu,
  mp_record h ts sub dst pdu = dst ++ mrt_rec ts 16 sub (mph_encode h ++ pdu).
Proof.
  intros h ts sub dst pdu. unfold mp_record, mrt_rec. cbv zeta.
  set (a := dst ++ be 4 ts ++ be 2 16 ++ be 2 sub).
  replace (dst ++ be 4 ts ++ be 2 16 ++ be 2 sub ++ be 4 0) with (a ++ be 4 0)
    by (unfold a; rewrite <- !app_assoc; reflexivity).
  replace (length (a ++ be 4 0) - 4)%nat with (length a) by (rewrite app_length, be_length; lia).
  rewrite <- app_assoc.
  rewrite patch_mid by (rewrite !be_length; reflexivity).
  unfold a. rewrite <- !app_assoc. do 4 f_equal. f_equal.
  rewrite !app_length, !be_length. first [lia | f_equal; lia | do 2 f_equal; lia | do 3 f_equal; lia].
Qed.

Definition mp_sub (m : mp_msg) : N := if mp_addpath m then 8 else 4.

Lemma mrt_encode_closed : forall ts dst m,
  mrt_encode ts dst m
  = dst ++ concat (map (fun p => mrt_rec ts 16 (mp_sub m) (mph_encode (mp_hdr m) ++ p))
                       (split_pdus (length (mp_blob m)) (mp_blob m))).
Proof.
  intros ts dst m. unfold mrt_encode.
  change (if mp_addpath m then SUBTYPE_AS4_ADDPATH else SUBTYPE_AS4) with (mp_sub m).
  generalize (split_pdus (length (mp_blob m)) (mp_blob m)) as pdus. intro pdus. revert dst.
  induction pdus as [|p pdus IH]; intro dst; cbn [fold_left map concat].
  - now rewrite app_nil_r.
  - rewrite IH, mp_record_closed, <- app_assoc. reflexivity.
Qed.

Lemma mrt_encode_all_closed : forall ts ms dst,
  mrt_encode_all ts dst ms
  = dst ++ concat (map (fun m => concat (map (fun p => mrt_rec ts 16 (mp_sub m) (mph_encode (mp_hdr m) ++ p))
                                         (split_pdus (length (mp_blob m)) (mp_blob m)))) ms).
Proof.
  intros ts ms. unfold mrt_encode_all. induction ms as [|m ms IH]; intro dst; cbn [fold_left map concat].
  - now rewrite app_nil_r.
  - rewrite IH, mrt_encode_closed, <- app_assoc. reflexivity.
Qed.

Lemma entry_bytes_closed : forall v6 e,
  entry_bytes v6 e = be 2 (re_idx e) ++ be 4 (re_orig e)
                     ++ be 2 (N.of_nat (length (entry_attrs v6 e))) ++ entry_attrs v6 e.
Proof.
  intros v6 e. unfold entry_bytes, entry_attrs. cbv zeta.
  set (at_ := concat (re_attrs e) ++ match re_nh e with Some nh => nh_attr v6 nh | None => [] end).
  set (a := be 2 (re_idx e) ++ be 4 (re_orig e)).
  rewrite <- (app_assoc a).
  rewrite patch_mid by (rewrite !be_length; reflexivity).
  unfold a. rewrite <- !app_assoc. do 2 f_equal. f_equal. f_equal.
  rewrite !app_length, !be_length. first [lia | f_equal; lia | do 2 f_equal; lia | do 3 f_equal; lia].
Qed.

Lemma encode_table_dump_closed : forall ts dst r,
  encode_table_dump ts dst r = dst ++ mrt_rec ts TABLE_DUMP_V2 (td_subtype r) (td_body r).
Proof.
  intros ts dst r. unfold encode_table_dump, mrt_rec. cbv zeta.
  set (a := dst ++ be 4 ts ++ be 2 TABLE_DUMP_V2 ++ be 2 (td_subtype r)).
  rewrite <- app_assoc.
  rewrite patch_mid by (rewrite !be_length; reflexivity).
  unfold a. rewrite <- !app_assoc. do 4 f_equal. f_equal.
  rewrite !app_length, !be_length. first [lia | f_equal; lia | do 2 f_equal; lia | do 3 f_equal; lia].
Qed.

(* ------------------------------------------------------------ reader steps *)

Lemma read_bgp_msg_ok : forall ty f rest, frame_ok ty f ->
  read_bgp_msg (f ++ rest) = Some (f, rest).
Proof.
  intros ty f rest Hfr. pose proof (frame_ok_length ty f Hfr) as HL19.
  destruct Hfr as [r' [Hf Hlen]].
  remember (length f) as L eqn:HL.
  assert (E : f ++ rest = marker ++ (be 2 (N.of_nat L) ++ [ty] ++ r' ++ rest)).
  { rewrite Hf at 1. rewrite <- !app_assoc. reflexivity. }
  unfold read_bgp_msg.
  rewrite (take_prefix 16 marker _ _ E marker_length). cbn [bind].
  destruct (list_eq_dec N.eq_dec marker marker) as [_|n]; [|congruence]. cbn [guard bind].
  rewrite rd_be by (change (256 ^ N.of_nat 2) with 65536; lia). cbn [bind].
  replace (19 <=? N.of_nat L) with true by lia. cbn [guard bind].
  rewrite Nat2N.id. apply take_app. symmetry; exact HL.
Qed.

Lemma ip_octets_length : forall a, wf_ip a -> length (ip_octets a) = if is_v6 a then 16%nat else 4%nat.
Proof. intros [b|b] H; exact H. Qed.

Lemma read_mp_body : forall ts m f ty, wf_mph (mp_hdr m) -> frame_ok ty f ->
  read_mrt_body ts 16 (mp_sub m) (mph_encode (mp_hdr m) ++ f) = Some (mp_view ts m f).
Proof.
  intros ts m f ty (Hra & Hla & Hif & Hwr & Hwl & Hsame & Has4) Hf.
  unfold read_mrt_body, mp_view, mp_sub.
  replace ((16 =? 16) && (((if mp_addpath m then 8 else 4) =? 4) || ((if mp_addpath m then 8 else 4) =? 8)))
    with true by (destruct (mp_addpath m); reflexivity).
  unfold mph_encode. rewrite Has4. unfold same_family in Hsame.
  destruct (m_raddr (mp_hdr m)) as [ra|ra] eqn:Era; destruct (m_laddr (mp_hdr m)) as [la|la] eqn:Ela;
    cbn [is_v6] in Hsame; try discriminate; cbn [wf_ip] in Hwr, Hwl;
    rewrite <- !app_assoc;
    (rewrite rd_be by exact Hra); cbn [bind];
    (rewrite rd_be by exact Hla); cbn [bind];
    (rewrite rd_be by exact Hif); cbn [bind];
    (rewrite rd_be by (cbv; reflexivity)); cbn [bind N.eqb Pos.eqb orb guard];
    (rewrite take_app by assumption); cbn [bind];
    (rewrite take_app by assumption); cbn [bind];
    rewrite <- (app_nil_r f) at 1;
    rewrite (read_bgp_msg_ok ty f [] Hf); cbn [bind is_nil guard is_v6 ip_octets]; reflexivity.
Qed.

Lemma read_mrt_one : forall ts ty sub body v rest,
  ts < 2 ^ 32 -> ty < 65536 -> sub < 65536 -> N.of_nat (length body) < 2 ^ 32 ->
  read_mrt_body ts ty sub body = Some v ->
  read_mrt (mrt_rec ts ty sub body ++ rest) = Some (N.of_nat (length body), v, rest).
Proof.
  intros ts ty sub body v rest Hts Hty Hsub Hlen Hv. unfold read_mrt, mrt_rec.
  rewrite <- !app_assoc.
  rewrite rd_be by exact Hts. cbn [bind].
  rewrite rd_be by exact Hty. cbn [bind].
  rewrite rd_be by exact Hsub. cbn [bind].
  rewrite rd_be by exact Hlen. cbn [bind].
  rewrite Nat2N.id, take_app by reflexivity. cbn [bind].
  rewrite Hv. reflexivity.
Qed.

Lemma read_mrt_stream_mono : forall f bs vs, read_mrt_stream f bs = Some vs ->
  forall f', (f <= f')%nat -> read_mrt_stream f' bs = Some vs.
Proof.
  induction f as [|f IH]; intros bs vs H f' Hle.
  - destruct bs; [|discriminate]. destruct f'; exact H.
  - destruct bs as [|x bs]; [destruct f'; exact H|].
    destruct f' as [|f']; [lia|].
    cbn [read_mrt_stream] in *.
    destruct (read_mrt (x :: bs)) as [[[len v] rest]|]; [|discriminate]. cbn [bind] in *.
    destruct (read_mrt_stream f rest) as [more|] eqn:E; [|discriminate].
    rewrite (IH rest more E f') by lia. exact H.
Qed.

Definition rec_reads (ts : N) (w : N * N * bytes) (v : mrt_view) : Prop :=
  fst (fst w) < 65536 /\ snd (fst w) < 65536 /\ N.of_nat (length (snd w)) < 2 ^ 32
  /\ read_mrt_body ts (fst (fst w)) (snd (fst w)) (snd w) = Some v.

Lemma read_stream_recs : forall ts ws vs, ts < 2 ^ 32 -> Forall2 (rec_reads ts) ws vs ->
  read_mrt_stream (length ws)
    (concat (map (fun w => mrt_rec ts (fst (fst w)) (snd (fst w)) (snd w)) ws)) = Some vs.
Proof.
  intros ts ws vs Hts H. induction H as [|[[ty sub] body] v ws vs (Hty & Hsub & Hl & Hr) Hrest IH].
  - reflexivity.
  - cbn [map concat length fst snd] in *.
    destruct (mrt_rec ts ty sub body ++ _) eqn:E.
    { apply (f_equal (@length N)) in E. rewrite app_length, mrt_rec_length in E. cbn in E. lia. }
    cbn [read_mrt_stream]. rewrite <- E.
    rewrite (read_mrt_one ts ty sub body v _ Hts Hty Hsub Hl Hr). cbn [bind].
    rewrite IH. reflexivity.
Qed.

(* ----------------------------------------------------------- BGP4MP theorems *)

Lemma mp_sub_lt : forall m, mp_sub m < 65536.
Proof. intro m. unfold mp_sub. destruct (mp_addpath m); cbv; reflexivity. Qed.

(* Reading back what one call of MrtCodec::encode appended gives one BGP4MP
   record per BGP message of the monitored item, each whole, under the same
   header; subtype = the ADD-PATH setting, AFI = the family of both addresses. *)
Theorem C19_mrt_readback : forall ts m ty fs,
  ts < 2 ^ 32 -> wf_mph (mp_hdr m) -> mp_len_ok m -> fs <> [] -> frames_ok ty fs (mp_blob m) ->
  forall fuel, (length (mrt_encode ts [] m) <= fuel)%nat ->
  read_mrt_stream fuel (mrt_encode ts [] m) = Some (map (mp_view ts m) fs).
Proof.
  intros ts m ty fs Hts Hwf Hlen Hne Hfs fuel Hfuel.
  rewrite mrt_encode_closed in *. cbn [app] in *.
  rewrite (split_pdus_frames _ _ _ Hfs Hne (length (mp_blob m))) in * by lia.
  pose proof (frames_ok_Forall _ _ _ Hfs) as Hall.
  assert (Hsz : forall f, In f fs -> (length f <= length (mp_blob m))%nat).
  { rewrite (frames_ok_concat _ _ _ Hfs). clear. intros f Hin.
    induction fs as [|g fs IH]; [contradiction|]. cbn [concat]. rewrite app_length.
    destruct Hin as [->|Hin]; [lia|specialize (IH Hin); lia]. }
  set (ws := map (fun p => ((16, mp_sub m), mph_encode (mp_hdr m) ++ p)) fs).
  assert (G : Forall2 (rec_reads ts) ws (map (mp_view ts m) fs)).
  { unfold ws. clear Hfs Hne Hfuel. induction fs as [|f fs IH]; cbn [map]; constructor.
    - inversion Hall; subst. split; [cbv; reflexivity|]. split; [apply mp_sub_lt|]. split.
      + cbn [snd]. rewrite app_length. unfold mp_len_ok in Hlen.
        pose proof (Hsz f (or_introl eq_refl)). lia.
      + cbn [fst snd]. eapply read_mp_body; eassumption.
    - inversion Hall; subst. apply IH; [assumption|]. intros g Hg. apply Hsz. right. exact Hg. }
  pose proof (read_stream_recs ts ws _ Hts G) as H.
  unfold ws in H. rewrite map_map in H. cbn [fst snd] in H.
  apply (read_mrt_stream_mono _ _ _ H).
  rewrite map_length.
  clear -Hfuel. revert Hfuel. generalize fuel. clear fuel.
  induction fs as [|f fs IH]; intros fuel Hfuel; cbn [map concat length] in *; [lia|].
  rewrite app_length, mrt_rec_length in Hfuel.
  destruct fuel as [|fuel]; [lia|]. specialize (IH fuel). lia.
Qed.

(* every record appended has a Length field equal to the bytes that follow its header *)
Theorem C19_mrt_length_exact : forall ts dst m, ts < 2 ^ 32 -> mp_len_ok m ->
  firstn (length dst) (mrt_encode ts dst m) = dst /\
  exists recs, skipn (length dst) (mrt_encode ts dst m) = concat recs /\ recs <> []
               /\ Forall record_length_exact recs.
Proof.
  intros ts dst m Hts Hlen. rewrite mrt_encode_closed.
  rewrite firstn_app, Nat.sub_diag, firstn_all, firstn_O, app_nil_r.
  rewrite skipn_app, Nat.sub_diag, skipn_all. cbn [app skipn].
  split; [reflexivity|]. eexists. split; [reflexivity|]. split.
  { pose proof (split_pdus_nonempty (length (mp_blob m)) (mp_blob m)) as Hn.
    destruct (split_pdus (length (mp_blob m)) (mp_blob m)); [congruence|discriminate]. }
  apply Forall_map. apply Forall_forall. intros p Hp.
  exists ts, 16, (mp_sub m), (N.of_nat (length (mph_encode (mp_hdr m) ++ p))), (mph_encode (mp_hdr m) ++ p).
  split; [reflexivity|]. split; [|reflexivity].
  assert (Hle : (length p <= length (mp_blob m))%nat).
  { pose proof (split_pdus_concat (length (mp_blob m)) (mp_blob m)) as Hc.
    apply (f_equal (@length N)) in Hc. rewrite <- Hc. clear -Hp.
    induction (split_pdus (length (mp_blob m)) (mp_blob m)) as [|q l IH]; [contradiction|].
    cbn [concat]. rewrite app_length. destruct Hp as [->|Hp]; [lia|specialize (IH Hp); lia]. }
  unfold mp_len_ok in Hlen. rewrite app_length. lia.
Qed.

(* The hypotheses of wf_mph about the header cannot be dropped at the API:
   (a) a local address of the other family is silently left out, and the record
       no longer reads back (the reader takes marker bytes for the local address);
   (b) with is_asn4 = false the AS numbers are written in two octets under the
       four-octet subtype. *)
Definition upd_frame : bytes := marker ++ [0; 23; 2; 0; 0; 0; 0].

Lemma C19_mrt_local_family_refuted :
  exists m, frames_ok BGP_UPDATE [mp_blob m] (mp_blob m) /\ m_asn4 (mp_hdr m) = true /\
            read_mrt_stream 10 (mrt_encode 0 [] m) = None.
Proof.
  exists {| mp_hdr := {| m_rasn := 1; m_lasn := 2; m_ifidx := 0; m_raddr := IP4 [10;0;0;1];
                         m_laddr := IP6 (repeat 0 15 ++ [1]); m_asn4 := true |};
            mp_blob := upd_frame; mp_addpath := false |}.
  split; [|split]; [|reflexivity|vm_compute; reflexivity].
  cbn [mp_blob]. rewrite <- (app_nil_r upd_frame) at 2. constructor; [|constructor].
  exists [0;0;0;0]. split; [reflexivity|cbv; reflexivity].
Qed.

Lemma C19_mrt_asn2_refuted :
  exists m, frames_ok BGP_UPDATE [mp_blob m] (mp_blob m) /\
            same_family (m_raddr (mp_hdr m)) (m_laddr (mp_hdr m)) /\
            read_mrt_stream 10 (mrt_encode 0 [] m) = None.
Proof.
  exists {| mp_hdr := {| m_rasn := 1; m_lasn := 2; m_ifidx := 0; m_raddr := IP4 [10;0;0;1];
                         m_laddr := IP4 [10;0;0;2]; m_asn4 := false |};
            mp_blob := upd_frame; mp_addpath := false |}.
  split; [|split]; [|reflexivity|vm_compute; reflexivity].
  cbn [mp_blob]. rewrite <- (app_nil_r upd_frame) at 2. constructor; [|constructor].
  exists [0;0;0;0]. split; [reflexivity|cbv; reflexivity].
Qed.

(* ----------------------------------------------------- TABLE_DUMP_V2 theorems *)

Lemma read_peers_ok : forall peers rest, Forall wf_peer peers ->
  read_peers (length peers) (concat (map peer_encode peers) ++ rest) = Some (map peer_view peers, rest).
Proof.
  induction peers as [|p peers IH]; intros rest Hwf; [reflexivity|].
  inversion Hwf as [|? ? (Hid & Hip & Has) Hrest]; subst.
  cbn [length map concat read_peers]. unfold peer_encode at 1, peer_view at 1.
  rewrite <- !app_assoc.
  destruct (pe_addr p) as [b|b]; cbn [is_v6 ip_octets wf_ip] in *;
    (rewrite rd_be by (cbv; reflexivity)); cbn [bind];
    (rewrite take_app by exact Hid); cbn [bind N.testbit Pos.testbit];
    (rewrite take_app by exact Hip); cbn [bind];
    (rewrite rd_be by exact Has); cbn [bind];
    rewrite IH by exact Hrest; reflexivity.
Qed.

Lemma read_entries_ok : forall v6 es rest, Forall (wf_entry v6) es ->
  read_entries (length es) (concat (map (entry_bytes v6) es) ++ rest)
  = Some (map (entry_view v6) es, rest).
Proof.
  induction es as [|e es IH]; intros rest Hwf; [reflexivity|].
  inversion Hwf as [|? ? (Hidx & Horig & Hal) Hrest]; subst.
  cbn [length map concat read_entries]. rewrite entry_bytes_closed. unfold entry_view at 1.
  rewrite <- !app_assoc.
  rewrite rd_be by exact Hidx. cbn [bind].
  rewrite rd_be by exact Horig. cbn [bind].
  rewrite rd_be by exact Hal. cbn [bind].
  rewrite Nat2N.id, take_app by reflexivity. cbn [bind].
  rewrite IH by exact Hrest. reflexivity.
Qed.

Lemma read_rib_body : forall ts v6 seq p es,
  seq < 2 ^ 32 -> prefix_ok v6 p -> N.of_nat (length es) < 65536 -> Forall (wf_entry v6) es ->
  read_mrt_body ts 13 (if v6 then 4 else 2) (be 4 seq ++ p ++ write_rib_entries v6 es)
  = Some (VRib ts (if v6 then 4 else 2) seq (hd 0 p) (tl p) (N.of_nat (length es)) (map (entry_view v6) es)).
Proof.
  intros ts v6 seq p es Hseq (mask & pr & Hp & Hmask & Hpl) Hcnt Hes. subst p. cbn [hd tl].
  unfold read_mrt_body.
  replace ((13 =? 16) && _) with false by reflexivity.
  replace ((13 =? 13) && ((if v6 then 4 else 2) =? 1)) with false by (destruct v6; reflexivity).
  replace ((13 =? 13) && (((if v6 then 4 else 2) =? 2) || ((if v6 then 4 else 2) =? 4))) with true
    by (destruct v6; reflexivity).
  rewrite rd_be by exact Hseq. cbn [bind].
  assert (Hm256 : mask < 256) by (destruct v6; lia).
  change ((mask :: pr) ++ ?x) with (be 0 0 ++ mask :: pr ++ x).
  unfold rd at 1. cbn [take length Nat.leb firstn skipn bind app be].
  assert (Hbd : be_dec [mask] = mask) by (unfold be_dec; cbn [fold_left]; lia).
  rewrite !Hbd.
  replace (mask <=? (if (if v6 then 4 else 2) =? 2 then 32 else 128)) with true
    by (destruct v6; cbn; lia).
  cbn [guard bind].
  rewrite take_app by exact Hpl. cbn [bind].
  unfold write_rib_entries.
  rewrite rd_be by exact Hcnt. cbn [bind].
  rewrite Nat2N.id.
  rewrite <- (app_nil_r (concat (map (entry_bytes v6) es))).
  rewrite read_entries_ok by exact Hes. cbn [bind is_nil guard]. reflexivity.
Qed.

Lemma read_td_body : forall ts r, wf_td r ->
  read_mrt_body ts TABLE_DUMP_V2 (td_subtype r) (td_body r) = Some (td_view ts r).
Proof.
  intros ts r Hwf. destruct r as [rid peers|seq p es|seq p es]; cbn [wf_td td_subtype td_body td_view] in *.
  - destruct Hwf as (Hrid & Hcnt & Hpeers).
    unfold read_mrt_body. change TABLE_DUMP_V2 with 13.
    replace ((13 =? 16) && _) with false by reflexivity.
    replace ((13 =? 13) && (1 =? 1)) with true by reflexivity.
    rewrite take_app by exact Hrid. cbn [bind].
    rewrite rd_be by (cbv; reflexivity). cbn [bind N.to_nat take Nat.leb firstn skipn].
    rewrite rd_be by exact Hcnt. cbn [bind].
    rewrite Nat2N.id.
    rewrite <- (app_nil_r (concat (map peer_encode peers))).
    rewrite read_peers_ok by exact Hpeers. cbn [bind is_nil guard]. reflexivity.
  - destruct Hwf as (Hseq & Hp & Hcnt & Hes). exact (read_rib_body ts false seq p es Hseq Hp Hcnt Hes).
  - destruct Hwf as (Hseq & Hp & Hcnt & Hes). exact (read_rib_body ts true seq p es Hseq Hp Hcnt Hes).
Qed.

(* A TABLE_DUMP_V2 record reads back to exactly what was written: the Length
   field equals the body size, the Peer Count / Entry Count field equals the
   number of peers / entries written, the reader finds that many and no byte is
   left; peer types match the address sizes; every entry carries its attribute
   block and next hop. *)
Theorem C19_table_dump_counts_consistent : forall ts r,
  ts < 2 ^ 32 -> wf_td r -> td_len_ok r ->
  read_mrt (encode_table_dump ts [] r) = Some (N.of_nat (length (td_body r)), td_view ts r, []).
Proof.
  intros ts r Hts Hwf Hlen. rewrite encode_table_dump_closed. cbn [app].
  rewrite <- (app_nil_r (mrt_rec _ _ _ _)).
  apply read_mrt_one; try assumption; try (cbv; reflexivity).
  - destruct r; cbv; reflexivity.
  - apply read_td_body. exact Hwf.
Qed.

(* `peers.len() as u16` / `entries.len() as u16`: with 65536 elements the count
   field says 0 and the record no longer reads back. *)
Lemma C19_td_peer_count_refuted :
  exists peers, Forall wf_peer peers /\
    read_mrt (encode_table_dump 0 [] (PeerIndexTable [1;1;1;1] peers)) = None.
Proof.
  exists (repeat {| pe_id := [1;1;1;1]; pe_addr := IP4 [10;0;0;1]; pe_asn := 1 |} (N.to_nat 65536)).
  split.
  - apply Forall_forall. intros p Hp. apply repeat_spec in Hp. subst p.
    repeat split; cbv; reflexivity.
  - vm_compute. reflexivity.
Qed.

Lemma C19_td_entry_count_refuted :
  exists es, Forall (wf_entry false) es /\
    read_mrt (encode_table_dump 0 [] (RibIpv4Unicast 0 [8; 10] es)) = None.
Proof.
  exists (repeat {| re_idx := 0; re_orig := 0; re_nh := None; re_attrs := [] |} (N.to_nat 65536)).
  split.
  - apply Forall_forall. intros e He. apply repeat_spec in He. subst e.
    repeat split; cbv; reflexivity.
  - vm_compute. reflexivity.
Qed.

(* ------------------------------------------------------------ non-vacuity *)

Definition mph6 : mp_header :=
  {| m_rasn := 4200000000; m_lasn := 65001; m_ifidx := 0;
     m_raddr := IP6 (repeat 0 15 ++ [1]); m_laddr := IP6 (repeat 0 15 ++ [2]); m_asn4 := true |}.

Example ex_mrt_hyps :
  wf_mph mph6 /\ mp_len_ok {| mp_hdr := mph6; mp_blob := upd_frame ++ upd_frame ++ []; mp_addpath := true |}
  /\ frames_ok BGP_UPDATE [upd_frame; upd_frame] (upd_frame ++ upd_frame ++ []).
Proof.
  split; [|split].
  - repeat split; cbv; reflexivity.
  - cbv; reflexivity.
  - assert (F : frame_ok BGP_UPDATE upd_frame) by (exists [0;0;0;0]; split; [reflexivity|cbv; reflexivity]).
    repeat constructor; exact F.
Qed.

Definition ex_entry : rib_entry :=
  {| re_idx := 1; re_orig := 1700000000; re_nh := Some [192;0;2;1];
     re_attrs := [[64;1;1;0]; [64;2;6;2;1;0;0;253;233]] |}.

Example ex_td_hyps :
  wf_td (PeerIndexTable [1;1;1;1] [{| pe_id := [10;0;0;1]; pe_addr := IP4 [10;0;0;1]; pe_asn := 65001 |};
                                   {| pe_id := [10;0;0;2]; pe_addr := IP6 (repeat 0 15 ++ [1]); pe_asn := 4200000000 |}])
  /\ wf_td (RibIpv4Unicast 0 [24; 10; 1; 2] [ex_entry; ex_entry])
  /\ td_len_ok (RibIpv4Unicast 0 [24; 10; 1; 2] [ex_entry; ex_entry]).
Proof.
  split; [|split].
  - cbn [wf_td]. split; [reflexivity|]. split; [cbv; reflexivity|].
    repeat constructor; cbv; reflexivity.
  - cbn [wf_td]. split; [cbv; reflexivity|]. split.
    + exists 24, [10;1;2]. repeat split; cbv; try reflexivity. discriminate.
    + split; [cbv; reflexivity|]. repeat constructor; cbv; reflexivity.
  - cbv; reflexivity.
Qed.
