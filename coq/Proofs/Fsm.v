(* Lemmas about Model/Fsm.v used by Props/C07.v. *)
From Coq Require Import List NArith Bool Lia.
From RB Require Import Base.Val Model.Caps Model.Fsm Spec.FsmSpec.
Import ListNotations.
Open Scope N_scope.

Lemma run_from_app p a b : run_from p (a ++ b) = run_from (run_from p a) b.
Proof. unfold run_from. apply fold_left_app. Qed.

Lemma run_from_rev p ins : run_from p ins = run_rev p (rev ins).
Proof.
  revert p. induction ins as [|x xs IH] using rev_ind; intro p; [reflexivity|].
  rewrite run_from_app, rev_app_distr. cbn [rev app run_rev]. rewrite <- IH. reflexivity.
Qed.

(* ---------------------------------------------------------- basic facts *)

Lemma slot_set_same p r o : slot (set_slot p r o) r = o.
Proof. destruct r; reflexivity. Qed.

Lemma slot_set_other p r o : slot (set_slot p r o) (other r) = slot p (other r).
Proof. destruct r; reflexivity. Qed.

Lemma other_neq r : role_eqb (other r) r = false.
Proof. destruct r; reflexivity. Qed.

Lemma role_eqb_refl r : role_eqb r r = true.
Proof. destruct r; reflexivity. Qed.

Lemma role_eqb_eq a b : role_eqb a b = true <-> a = b.
Proof. destruct a, b; cbn; split; congruence. Qed.

Lemma role_cases r r' : r' = r \/ r' = other r.
Proof. destruct r, r'; auto. Qed.

Lemma other_other r : other (other r) = r.
Proof. destruct r; reflexivity. Qed.

Lemma st_eqb_eq a b : st_eqb a b = true <-> a = b.
Proof. destruct a, b; cbn; split; intro H; try reflexivity; try discriminate. Qed.

Definition cfg_eq (p q : pfsm) : Prop :=
  p_local_id p = p_local_id q /\ p_local_asn p = p_local_asn q /\
  p_local_cap p = p_local_cap q /\ p_local_hold p = p_local_hold q /\
  p_expected_asn p = p_expected_asn q /\ p_send_max p = p_send_max q.

Lemma cfg_eq_refl p : cfg_eq p p.
Proof. repeat split. Qed.

Lemma cfg_eq_trans p q s : cfg_eq p q -> cfg_eq q s -> cfg_eq p s.
Proof. unfold cfg_eq. intuition congruence. Qed.

Lemma cfg_set_slot p r o : cfg_eq p (set_slot p r o).
Proof. destruct r; repeat split. Qed.

(* ------------------------------------------------ Connection::process facts *)

(* what a non-Connected input does to a connection's state and to the two
   flags PeerFsm::process derives from the outputs *)
Inductive conn_effect (c : conn) (i : input) (c' : conn) (outs : list output) : Prop :=
| CE_open asn id hold caps :
    i = Recv (MOpen asn id hold caps) -> c_state c = OpenSent ->
    asn_acceptable (c_expected_asn c) asn ->
    c_state c' = OpenConfirm -> c_remote_id c' = id ->
    c_expected_asn c' = c_expected_asn c ->
    existsb is_entered_oc outs = true -> existsb is_down outs = false ->
    conn_effect c i c' outs
| CE_ka :
    i = Recv MKeepalive -> c_state c = OpenConfirm -> c_state c' = Established ->
    c_remote_id c' = c_remote_id c -> c_expected_asn c' = c_expected_asn c ->
    existsb is_entered_oc outs = false -> existsb is_down outs = false ->
    conn_effect c i c' outs
| CE_same :
    c' = c -> existsb is_entered_oc outs = false ->
    conn_effect c i c' outs.

Lemma conn_step_effect c i :
  is_connected i = false ->
  conn_effect c i (fst (conn_step c i)) (snd (conn_step c i)).
Proof.
  intro Hi. destruct i as [b|m| | | | |]; try discriminate Hi; clear Hi.
  - destruct m as [asn id hold caps| | |code sub|f]; cbn [conn_step].
    + unfold on_open.
      destruct (st_eqb (c_state c) OpenSent) eqn:Hs; cbn [negb].
      * apply st_eqb_eq in Hs.
        destruct (negb (c_expected_asn c =? 0) && negb (c_expected_asn c =? asn)) eqn:Hexp.
        -- apply CE_same; reflexivity.
        -- eapply CE_open; try reflexivity; try assumption.
           ++ unfold asn_acceptable.
              apply andb_false_iff in Hexp as [H|H]; apply negb_false_iff, N.eqb_eq in H; auto.
           ++ cbn [fst snd]. destruct (N.min (open_hold (c_local_hold c)) hold =? 0); [destruct (c_local_hold c =? 0)|]; reflexivity.
           ++ cbn [fst snd]. destruct (N.min (open_hold (c_local_hold c)) hold =? 0); [destruct (c_local_hold c =? 0)|]; reflexivity.
      * apply CE_same; reflexivity.
    + unfold on_keepalive. destruct (c_state c) eqn:Hs;
        try (apply CE_same; reflexivity).
      apply CE_ka; first [assumption | reflexivity].
    + unfold on_update. destruct (st_eqb (c_state c) Established); apply CE_same; reflexivity.
    + apply CE_same; reflexivity.
    + unfold on_refresh. destruct (st_eqb (c_state c) Established); apply CE_same; reflexivity.
  - cbn [conn_step]. unfold on_ka_expired. destruct (c_state c); apply CE_same; reflexivity.
  - cbn [conn_step]. unfold on_hold_expired. destruct (c_state c); apply CE_same; reflexivity.
  - apply CE_same; reflexivity.
  - apply CE_same; reflexivity.
  - cbn [conn_step]. unfold on_update_sent.
    destruct (st_eqb (c_state c) Established && (0 <? c_ka c)); apply CE_same; reflexivity.
Qed.

(* which inputs produce a SessionDown *)
Definition open_rejected (expected asn : N) : bool :=
  negb (expected =? 0) && negb (expected =? asn).

Definition downs (c : conn) (i : input) : bool :=
  match i with
  | Connected _ => false
  | Recv (MNotif _ _) => true
  | Recv (MOpen asn _ _ _) =>
      negb (allowed (c_state c) (MOpen asn 0 0 [])) || open_rejected (c_expected_asn c) asn
  | Recv m => negb (allowed (c_state c) m)
  | HoldExpired => live_state (c_state c)
  | Disconnected | AdminShutdown => true
  | KaExpired | UpdateSent => false
  end.

Lemma conn_step_down c i :
  is_connected i = false ->
  existsb is_down (snd (conn_step c i)) = downs c i.
Proof.
  intros Hi. destruct i as [b|m| | | | |]; try discriminate Hi; clear Hi.
  - destruct m as [asn id hold caps| | |code sub|f]; cbn [conn_step downs].
    + unfold on_open, open_rejected.
      destruct (c_state c) eqn:Hs; cbn [st_eqb st_code N.eqb Pos.eqb negb allowed orb]; try reflexivity.
      destruct (negb (c_expected_asn c =? 0) && negb (c_expected_asn c =? asn)); cbn [snd];
        [reflexivity|].
      destruct (N.min (open_hold (c_local_hold c)) hold =? 0); [destruct (c_local_hold c =? 0)|]; reflexivity.
    + unfold on_keepalive. destruct (c_state c); reflexivity.
    + unfold on_update. destruct (c_state c); reflexivity.
    + reflexivity.
    + unfold on_refresh. destruct (c_state c); reflexivity.
  - cbn [conn_step downs]. unfold on_ka_expired. destruct (c_state c); reflexivity.
  - cbn [conn_step downs]. unfold on_hold_expired. destruct (c_state c); reflexivity.
  - reflexivity.
  - reflexivity.
  - cbn [conn_step downs]. unfold on_update_sent.
    destruct (st_eqb (c_state c) Established && (0 <? c_ka c)); reflexivity.
Qed.

(* ------------------------------------------------------ PeerFsm::process *)

Lemma peer_step_no_slot p r i :
  is_connected i = false -> slot p r = None -> peer_step p r i = (p, []).
Proof.
  intros Hi Hs. destruct i; try discriminate Hi; unfold peer_step; rewrite Hs; reflexivity.
Qed.

Definition collide (p1 : pfsm) (r : role) (res : list pfo) : pfsm * list pfo :=
  let res1 := res ++ (if role_eqb r RPassive then [PStopActive] else []) in
  match check_collision p1 r with
  | (p2, Some loser) =>
      if role_eqb loser r
      then (p2, res1 ++ [PConn r (SessDown (RLocalNotif 6 7) (Some (6, 7)))])
      else (p2, res1 ++ [PConn loser (Send (MNotif 6 7))])
  | (p2, None) => (p2, res1)
  end.

Lemma peer_step_slot p r i c :
  is_connected i = false -> slot p r = Some c ->
  peer_step p r i =
    let c' := fst (conn_step c i) in
    let outs := snd (conn_step c i) in
    let p1 := set_slot p r (Some c') in
    let res := map (map_out p r) outs in
    let p2res2 := if existsb is_entered_oc outs then collide p1 r res else (p1, res) in
    if existsb is_down outs
    then (set_slot (fst p2res2) r None, snd p2res2 ++ [PConn r (StateChanged Idle)])
    else p2res2.
Proof.
  intros Hi Hs. unfold collide.
  destruct i; try discriminate Hi; unfold peer_step; rewrite Hs;
    destruct (conn_step c _) as [c' outs]; cbn [fst snd];
    destruct (existsb is_entered_oc outs);
    try destruct (check_collision _ _) as [p2 [l|]];
    try destruct (role_eqb l r); destruct (existsb is_down outs); reflexivity.
Qed.

Lemma check_collision_spec p1 r c' :
  slot p1 r = Some c' ->
  let p2 := fst (check_collision p1 r) in
  cfg_eq p1 p2 /\
  match slot p1 (other r) with
  | None => snd (check_collision p1 r) = None /\ p2 = p1
  | Some oc =>
      if confirmed (c_state oc) then
        let loser := if st_eqb (c_state oc) Established then r
                     else other (if c_remote_id c' <? p_local_id p1 then RActive else RPassive) in
        snd (check_collision p1 r) = Some loser /\ p2 = set_slot p1 loser None
      else snd (check_collision p1 r) = None /\ p2 = p1
  end.
Proof.
  intros Hs. unfold check_collision, collision_winner. rewrite Hs.
  destruct (slot p1 (other r)) as [oc|] eqn:Ho; cbn [fst snd].
  - destruct (c_state oc) eqn:Hst; cbn [st_eqb st_code N.eqb Pos.eqb negb andb confirmed fst snd];
      (split; [first [apply cfg_eq_refl | apply cfg_set_slot] | split; reflexivity]).
  - split; [apply cfg_eq_refl | split; reflexivity].
Qed.

Definition slot_ok (p : pfsm) : Prop :=
  forall r c, slot p r = Some c ->
              live_state (c_state c) = true /\ c_expected_asn c = p_expected_asn p.

Definition one_confirmed (p : pfsm) : Prop :=
  confirmed (pstate p RActive) && confirmed (pstate p RPassive) = false.

Lemma one_confirmed_sym p r :
  one_confirmed p <-> confirmed (pstate p r) && confirmed (pstate p (other r)) = false.
Proof. unfold one_confirmed. destruct r; cbn [other]; [tauto | rewrite andb_comm; tauto]. Qed.

Lemma slot_set_cases p r r' o :
  slot (set_slot p r o) r' = if role_eqb r' r then o else slot p r'.
Proof. destruct r, r'; reflexivity. Qed.

Lemma pstate_slot p r : pstate p r = match slot p r with Some c => c_state c | None => Idle end.
Proof. reflexivity. Qed.

(* Everything PeerFsm::process can do to the two slots, in one case split. *)
Inductive step_desc (p : pfsm) (r : role) (i : input) (p' : pfsm) : Prop :=
| D_close b c : i = Connected b -> slot p r = Some c -> p' = p -> step_desc p r i p'
| D_new b c1 :
    i = Connected b -> slot p r = None -> slot p' r = Some c1 -> c_state c1 = OpenSent ->
    c_expected_asn c1 = p_expected_asn p -> slot p' (other r) = slot p (other r) ->
    step_desc p r i p'
| D_none : is_connected i = false -> slot p r = None -> p' = p -> step_desc p r i p'
| D_down c :
    is_connected i = false -> slot p r = Some c -> downs c i = true ->
    slot p' r = None -> slot p' (other r) = slot p (other r) -> step_desc p r i p'
| D_stay c :
    is_connected i = false -> slot p r = Some c -> downs c i = false ->
    slot p' r = Some c -> slot p' (other r) = slot p (other r) -> step_desc p r i p'
| D_ka c c' :
    i = Recv MKeepalive -> slot p r = Some c -> c_state c = OpenConfirm ->
    c_state c' = Established -> c_remote_id c' = c_remote_id c ->
    c_expected_asn c' = c_expected_asn c ->
    slot p' r = Some c' -> slot p' (other r) = slot p (other r) -> step_desc p r i p'
| D_open_alone asn id hold caps c c' :
    i = Recv (MOpen asn id hold caps) -> slot p r = Some c -> c_state c = OpenSent ->
    asn_acceptable (c_expected_asn c) asn ->
    c_state c' = OpenConfirm -> c_remote_id c' = id -> c_expected_asn c' = c_expected_asn c ->
    confirmed (pstate p (other r)) = false ->
    slot p' r = Some c' -> slot p' (other r) = slot p (other r) -> step_desc p r i p'
| D_open_collide asn id hold caps c c' oc loser :
    i = Recv (MOpen asn id hold caps) -> slot p r = Some c -> c_state c = OpenSent ->
    asn_acceptable (c_expected_asn c) asn ->
    c_state c' = OpenConfirm -> c_remote_id c' = id -> c_expected_asn c' = c_expected_asn c ->
    slot p (other r) = Some oc -> confirmed (c_state oc) = true ->
    loser = (if st_eqb (c_state oc) Established then r
             else other (if id <? p_local_id p then RActive else RPassive)) ->
    slot p' loser = None ->
    slot p' (other loser) = (if role_eqb loser r then Some oc else Some c') ->
    step_desc p r i p'.

Lemma peer_step_desc p r i :
  cfg_eq p (fst (peer_step p r i)) /\ step_desc p r i (fst (peer_step p r i)).
Proof.
  destruct (is_connected i) eqn:Hi.
  - destruct i as [b| | | | | |]; try discriminate Hi. cbn [peer_step]. unfold p_on_connected.
    destruct (slot p r) as [c|] eqn:Hs.
    + split; [apply cfg_eq_refl|]. eapply D_close; eauto.
    + cbn [conn_step on_connected fst]. split; [apply cfg_set_slot|].
      eapply D_new with (b := b); eauto.
      * apply slot_set_same.
      * reflexivity.
      * reflexivity.
      * apply slot_set_other.
  - destruct (slot p r) as [c|] eqn:Hs.
    2:{ rewrite (peer_step_no_slot _ _ _ Hi Hs). split; [apply cfg_eq_refl|].
        apply D_none; auto. }
    rewrite (peer_step_slot _ _ _ _ Hi Hs). cbv zeta.
    pose proof (conn_step_effect c i Hi) as Heff.
    pose proof (conn_step_down c i Hi) as Hdown.
    destruct (conn_step c i) as [c' outs]. cbn [fst snd] in *.
    destruct Heff as [asn id hold caps Hieq Hst Hacc Hst' Hrid Hexp Hent Hd
                     | Hieq Hst Hst' Hrid Hexp Hent Hd
                     | Hc Hent].
    + (* OPEN accepted *)
      rewrite Hent, Hd. unfold collide.
      pose proof (check_collision_spec (set_slot p r (Some c')) r c' (slot_set_same _ _ _)) as [Hcfg Hcc].
      rewrite slot_set_other in Hcc.
      destruct (check_collision (set_slot p r (Some c')) r) as [p2 lo]. cbn [fst snd] in *.
      assert (Hfst : forall a b, fst (if role_eqb a r then (p2, b) else (p2, b) : pfsm * list pfo) = p2)
        by (intros a b0; destruct (role_eqb a r); reflexivity).
      destruct (slot p (other r)) as [oc|] eqn:Hso.
      * destruct (confirmed (c_state oc)) eqn:Hconf.
        -- destruct Hcc as [Hlo Hp2]. subst lo.
           match goal with |- context [if role_eqb ?l r then _ else _] => set (loser := l) in * end.
           split.
           ++ destruct (role_eqb loser r); cbn [fst]; eapply cfg_eq_trans; try apply Hcfg; apply cfg_set_slot.
           ++ eapply D_open_collide with (loser := loser) (c' := c'); eauto.
              ** subst loser. rewrite Hrid. cbn. destruct r; reflexivity.
              ** destruct (role_eqb loser r); cbn [fst]; rewrite Hp2; apply slot_set_same.
              ** destruct (role_eqb loser r) eqn:Hlr; cbn [fst]; rewrite Hp2, slot_set_other.
                 --- apply role_eqb_eq in Hlr. rewrite Hlr, slot_set_other. exact Hso.
                 --- destruct (role_cases r loser) as [E|E]; [rewrite E, role_eqb_refl in Hlr; discriminate|].
                     rewrite E, other_other. apply slot_set_same.
        -- destruct Hcc as [Hlo Hp2]. subst lo p2. cbn [fst]. split; [apply cfg_set_slot|].
           eapply D_open_alone; eauto.
           ++ rewrite pstate_slot, Hso. exact Hconf.
           ++ apply slot_set_same.
           ++ apply slot_set_other.
      * destruct Hcc as [Hlo Hp2]. subst lo p2. cbn [fst]. split; [apply cfg_set_slot|].
        eapply D_open_alone; eauto.
        -- rewrite pstate_slot, Hso. reflexivity.
        -- apply slot_set_same.
        -- apply slot_set_other.
    + (* KEEPALIVE in OpenConfirm *)
      rewrite Hent, Hd. cbn [fst]. split; [apply cfg_set_slot|].
      eapply D_ka; eauto; [apply slot_set_same | apply slot_set_other].
    + subst c'. rewrite Hent, Hdown. destruct (downs c i) eqn:Hdn; cbn [fst].
      * split; [eapply cfg_eq_trans; apply cfg_set_slot|].
        eapply D_down; eauto; [apply slot_set_same|].
        rewrite !slot_set_other. reflexivity.
      * split; [apply cfg_set_slot|].
        eapply D_stay; eauto; [apply slot_set_same | apply slot_set_other].
Qed.

(* --------------------------------------------------- reachable-state invariant *)

Definition inv (p : pfsm) : Prop := slot_ok p /\ one_confirmed p.

Lemma inv_init lid lasn lcap lhold exp smax : inv (pfsm_new lid lasn lcap lhold exp smax).
Proof. split; [intros [] c H; discriminate H | reflexivity]. Qed.

Lemma slot_ok_intro p :
  (forall r, match slot p r with
             | Some c => live_state (c_state c) = true /\ c_expected_asn c = p_expected_asn p
             | None => True end) -> slot_ok p.
Proof. intros H r c Hs. specialize (H r). rewrite Hs in H. exact H. Qed.

Lemma inv_step p r i : inv p -> inv (fst (peer_step p r i)).
Proof.
  intros [Hok H1]. destruct (peer_step_desc p r i) as [Hcfg Hd].
  set (p' := fst (peer_step p r i)) in *.
  assert (Hexp : p_expected_asn p' = p_expected_asn p) by (destruct Hcfg as (_&_&_&_&E&_); auto).
  apply (one_confirmed_sym p r) in H1.
  unfold inv. rewrite (one_confirmed_sym p' r).
  assert (Hgen : forall ro so,
             slot p' r = ro -> slot p' (other r) = so ->
             (match ro with Some c => live_state (c_state c) = true /\ c_expected_asn c = p_expected_asn p | None => True end) ->
             (match so with Some c => live_state (c_state c) = true /\ c_expected_asn c = p_expected_asn p | None => True end) ->
             confirmed (match ro with Some c => c_state c | None => Idle end)
             && confirmed (match so with Some c => c_state c | None => Idle end) = false ->
             slot_ok p' /\ confirmed (pstate p' r) && confirmed (pstate p' (other r)) = false).
  { intros ro so Hr Ho Hokr Hoko Hc. split.
    - intros r' c0 Hs. rewrite Hexp.
      destruct (role_cases r r') as [E|E]; subst r'.
      + rewrite Hr in Hs. rewrite Hs in Hokr. exact Hokr.
      + rewrite Ho in Hs. rewrite Hs in Hoko. exact Hoko.
    - rewrite !pstate_slot, Hr, Ho. exact Hc. }
  assert (Hoko : match slot p (other r) with
                 | Some c => live_state (c_state c) = true /\ c_expected_asn c = p_expected_asn p
                 | None => True end).
  { destruct (slot p (other r)) eqn:E; [apply (Hok _ _ E)|exact Logic.I]. }
  rewrite !pstate_slot in H1.
  destruct Hd as [b c Hi Hs Hp | b c1 Hi Hs Hs' Hst Hex Hso | Hi Hs Hp
                 | c Hi Hs Hdn Hs' Hso | c Hi Hs Hdn Hs' Hso
                 | c c' Hi Hs Hst Hst' Hrid Hex Hs' Hso
                 | asn id hold caps c c' Hi Hs Hst Hacc Hst' Hrid Hex Hnc Hs' Hso
                 | asn id hold caps c c' oc loser Hi Hs Hst Hacc Hst' Hrid Hex Hso Hconf Hl Hsl Hsol].
  - fold p' in Hp. rewrite Hp. split; [exact Hok|]. rewrite !pstate_slot. exact H1.
  - apply (Hgen (Some c1) (slot p (other r)) Hs' Hso); [|exact Hoko|].
    + rewrite Hst. split; [reflexivity | exact Hex].
    + rewrite Hst. reflexivity.
  - fold p' in Hp. rewrite Hp. split; [exact Hok|]. rewrite !pstate_slot. exact H1.
  - apply (Hgen None (slot p (other r)) Hs' Hso); [exact Logic.I|exact Hoko|reflexivity].
  - apply (Hgen (Some c) (slot p (other r)) Hs' Hso); [|exact Hoko|].
    + apply (Hok _ _ Hs).
    + rewrite Hs in H1. exact H1.
  - apply (Hgen (Some c') (slot p (other r)) Hs' Hso); [|exact Hoko|].
    + rewrite Hst', Hex. split; [reflexivity|]. apply (Hok _ _ Hs).
    + rewrite Hs, Hst in H1. rewrite Hst'. exact H1.
  - apply (Hgen (Some c') (slot p (other r)) Hs' Hso); [|exact Hoko|].
    + rewrite Hst', Hex. split; [reflexivity|]. apply (Hok _ _ Hs).
    + rewrite pstate_slot in Hnc. rewrite Hnc. apply andb_false_r.
  - rewrite Hso in Hoko.
    destruct (role_cases r loser) as [E|E].
    + (* r loses *)
      rewrite E in Hsl, Hsol. rewrite role_eqb_refl in Hsol.
      apply (Hgen None (Some oc) Hsl Hsol); [exact Logic.I|exact Hoko|reflexivity].
    + rewrite E in Hsl, Hsol. rewrite other_other, other_neq in Hsol.
      apply (Hgen (Some c') None Hsol Hsl); [|exact Logic.I|apply andb_false_r].
      rewrite Hst', Hex. split; [reflexivity|]. apply (Hok _ _ Hs).
Qed.

Lemma inv_run_rev p0 rins : inv p0 -> inv (run_rev p0 rins).
Proof.
  intro H0. induction rins as [|x xs IH]; cbn [run_rev]; [exact H0|]. apply inv_step, IH.
Qed.

Lemma cfg_run_rev p0 rins : cfg_eq p0 (run_rev p0 rins).
Proof.
  induction rins as [|x xs IH]; cbn [run_rev]; [apply cfg_eq_refl|].
  eapply cfg_eq_trans; [exact IH|]. apply peer_step_desc.
Qed.

(* ------------------------------------------------ history of a live connection *)

Definition hist_ok (p0 : pfsm) (rins : list (role * input)) (r : role) : Prop :=
  match slot (run_rev p0 rins) r with
  | None => True
  | Some c =>
      match c_state c with
      | OpenSent => alive_since p0 r (ev_connected p0 r) rins
      | OpenConfirm => alive_since p0 r (ev_open p0 r) rins
      | Established => alive_since p0 r (ev_keepalive p0 r) rins
      | _ => False
      end
  end.

Lemma alive_slot p r c : slot p r = Some c -> alive p r = true.
Proof. unfold alive. intros ->. reflexivity. Qed.

Lemma hist_keep p0 x older r c :
  slot (run_rev p0 (x :: older)) r = Some c -> slot (run_rev p0 older) r = Some c ->
  hist_ok p0 older r -> hist_ok p0 (x :: older) r.
Proof.
  unfold hist_ok. intros Hn Ho. rewrite Hn, Ho.
  destruct (c_state c); try tauto; intro H; cbn [alive_since]; (split; [apply (alive_slot _ _ _ Hn)|right; exact H]).
Qed.

Lemma hist_none p0 l r : slot (run_rev p0 l) r = None -> hist_ok p0 l r.
Proof. unfold hist_ok. intros ->. exact Logic.I. Qed.

Lemma hist_step p0 rins :
  inv p0 -> slot p0 RActive = None -> slot p0 RPassive = None ->
  forall r, hist_ok p0 rins r.
Proof.
  intros Hinv0 Ha Hp. induction rins as [|[r0 i] older IH]; intro r.
  - unfold hist_ok. cbn [run_rev]. destruct r; [rewrite Ha|rewrite Hp]; exact Logic.I.
  - pose proof (inv_run_rev p0 older Hinv0) as [Hok _].
    pose proof (cfg_run_rev p0 older) as (_&_&_&_&Hexp0&_).
    set (p := run_rev p0 older) in *.
    destruct (peer_step_desc p r0 i) as [_ Hd].
    assert (Hrun : run_rev p0 ((r0, i) :: older) = fst (peer_step p r0 i)) by reflexivity.
    set (p' := fst (peer_step p r0 i)) in *.
    assert (Hunch : forall r1, slot p' r1 = slot p r1 -> hist_ok p0 ((r0, i) :: older) r1).
    { intros r1 E. destruct (slot p r1) as [c|] eqn:Es.
      - eapply hist_keep; [rewrite Hrun; exact E | exact Es | apply IH].
      - apply hist_none. rewrite Hrun. exact E. }
    assert (Hnone : forall r1, slot p' r1 = None -> hist_ok p0 ((r0, i) :: older) r1).
    { intros r1 E. apply hist_none. rewrite Hrun. exact E. }
    destruct Hd as [b c Hi Hs Hp' | b c1 Hi Hs Hs' Hst Hex Hso | Hi Hs Hp'
                   | c Hi Hs Hdn Hs' Hso | c Hi Hs Hdn Hs' Hso
                   | c c' Hi Hs Hst Hst' Hrid Hex Hs' Hso
                   | asn id hold caps c c' Hi Hs Hst Hacc Hst' Hrid Hex Hnc Hs' Hso
                   | asn id hold caps c c' oc loser Hi Hs Hst Hacc Hst' Hrid Hex Hso Hconf Hl Hsl Hsol].
    + apply Hunch. rewrite Hp'. reflexivity.
    + destruct (role_cases r0 r) as [E|E]; subst r; [|apply Hunch; exact Hso].
      unfold hist_ok. rewrite Hrun, Hs', Hst. cbn [alive_since]. split.
      * rewrite Hrun. apply (alive_slot _ _ _ Hs').
      * left. exists b, older. split; [rewrite Hi; reflexivity|].
        fold p. unfold alive. rewrite Hs. reflexivity.
    + apply Hunch. rewrite Hp'. reflexivity.
    + destruct (role_cases r0 r) as [E|E]; subst r; [apply Hnone; exact Hs' | apply Hunch; exact Hso].
    + destruct (role_cases r0 r) as [E|E]; subst r; apply Hunch; congruence.
    + destruct (role_cases r0 r) as [E|E]; subst r; [|apply Hunch; exact Hso].
      unfold hist_ok. rewrite Hrun, Hs', Hst'. cbn [alive_since]. split.
      * rewrite Hrun. apply (alive_slot _ _ _ Hs').
      * left. exists older. split; [rewrite Hi; reflexivity|].
        specialize (IH r0). unfold hist_ok in IH. fold p in IH. rewrite Hs, Hst in IH. exact IH.
    + destruct (role_cases r0 r) as [E|E]; subst r; [|apply Hunch; exact Hso].
      unfold hist_ok. rewrite Hrun, Hs', Hst'. cbn [alive_since]. split.
      * rewrite Hrun. apply (alive_slot _ _ _ Hs').
      * left. exists asn, id, hold, caps, older. split; [rewrite Hi; reflexivity|]. split.
        -- rewrite Hexp0. destruct (Hok _ _ Hs) as [_ E]. rewrite <- E. exact Hacc.
        -- specialize (IH r0). unfold hist_ok in IH. fold p in IH. rewrite Hs, Hst in IH. exact IH.
    + destruct (role_cases r0 loser) as [E|E]; rewrite E in Hsl, Hsol.
      * rewrite role_eqb_refl in Hsol.
        destruct (role_cases r0 r) as [E'|E']; subst r; [apply Hnone; exact Hsl|].
        apply Hunch. congruence.
      * rewrite other_other, other_neq in Hsol.
        destruct (role_cases r0 r) as [E'|E']; subst r; [|apply Hnone; exact Hsl].
        unfold hist_ok. rewrite Hrun, Hsol, Hst'. cbn [alive_since]. split.
        -- rewrite Hrun. apply (alive_slot _ _ _ Hsol).
        -- left. exists asn, id, hold, caps, older. split; [rewrite Hi; reflexivity|]. split.
           ++ rewrite Hexp0. destruct (Hok _ _ Hs) as [_ E']. rewrite <- E'. exact Hacc.
           ++ specialize (IH r0). unfold hist_ok in IH. fold p in IH. rewrite Hs, Hst in IH. exact IH.
Qed.

(* ------------------------------------------------------------ output facts *)

Lemma conn_step_not_allowed c m :
  allowed (c_state c) m = false -> conn_step c (Recv m) = (c, fsm_err c).
Proof.
  destruct m as [asn id hold caps| | |code sub|f]; cbn [conn_step];
    unfold on_open, on_keepalive, on_update, on_refresh;
    destruct (c_state c) eqn:Hs; cbn; intro H; try discriminate H; reflexivity.
Qed.

Lemma unexpected_message p r c m :
  slot p r = Some c -> allowed (c_state c) m = false ->
  let code := st_code (c_state c) in
  In (PConn r (SessDown (RLocalNotif 5 code) (Some (5, code)))) (snd (peer_step p r (Recv m)))
  /\ In (PConn r (StateChanged Idle)) (snd (peer_step p r (Recv m)))
  /\ slot (fst (peer_step p r (Recv m))) r = None
  /\ slot (fst (peer_step p r (Recv m))) (other r) = slot p (other r).
Proof.
  intros Hs Hna. rewrite (peer_step_slot p r (Recv m) c eq_refl Hs).
  rewrite (conn_step_not_allowed c m Hna). cbn.
  repeat split.
  - left. reflexivity.
  - right. left. reflexivity.
  - apply slot_set_same.
  - rewrite !slot_set_other. reflexivity.
Qed.

Lemma down_input_frees p r i c :
  inv p -> slot p r = Some c -> down_input i = true ->
  let p' := fst (peer_step p r i) in
  slot p' r = None
  /\ slot p' (other r) = slot p (other r)
  /\ In (PConn r (StateChanged Idle)) (snd (peer_step p r i))
  /\ (exists rs n, In (PConn r (SessDown rs n)) (snd (peer_step p r i)))
  /\ forall b, pstate (fst (peer_step p' r (Connected b))) r = OpenSent
               /\ exists m, In (PConn r (Send m)) (snd (peer_step p' r (Connected b))).
Proof.
  intros [Hok _] Hs Hdi.
  assert (Hi : is_connected i = false) by (destruct i as [| [] | | | | | ]; try discriminate Hdi; reflexivity).
  cbv zeta. rewrite (peer_step_slot p r i c Hi Hs).
  destruct (Hok _ _ Hs) as [Hlive _].
  assert (Hcs : exists rs n, conn_step c i = (c, [SessDown rs n])).
  { destruct i as [| [] | | | | | ]; try discriminate Hdi; cbn [conn_step]; eauto.
    unfold on_hold_expired. destruct (c_state c); try discriminate Hlive; eauto. }
  destruct Hcs as (rs & n & Hcs). rewrite Hcs. cbn.
  assert (Hnone : slot (set_slot (set_slot p r (Some c)) r None) r = None) by apply slot_set_same.
  repeat split.
  - exact Hnone.
  - rewrite !slot_set_other. reflexivity.
  - right. left. reflexivity.
  - exists rs, n. left. reflexivity.
  - unfold p_on_connected. rewrite Hnone. cbn. rewrite pstate_slot, slot_set_same. reflexivity.
  - unfold p_on_connected. rewrite Hnone. cbn. eexists. left. reflexivity.
Qed.

Lemma established_survives p r i :
  inv p -> pstate p (other r) = Established ->
  pstate (fst (peer_step p r i)) (other r) = Established.
Proof.
  intros [Hok H1] He. destruct (peer_step_desc p r i) as [_ Hd].
  set (p' := fst (peer_step p r i)) in *.
  rewrite pstate_slot in *.
  destruct Hd as [b c Hi Hs Hp' | b c1 Hi Hs Hs' Hst Hex Hso | Hi Hs Hp'
                 | c Hi Hs Hdn Hs' Hso | c Hi Hs Hdn Hs' Hso
                 | c c' Hi Hs Hst Hst' Hrid Hex Hs' Hso
                 | asn id hold caps c c' Hi Hs Hst Hacc Hst' Hrid Hex Hnc Hs' Hso
                 | asn id hold caps c c' oc loser Hi Hs Hst Hacc Hst' Hrid Hex Hso Hconf Hl Hsl Hsol];
    try (rewrite Hso; exact He); try (rewrite Hp'; exact He).
  rewrite Hso in He. rewrite He in Hl. cbn in Hl. subst loser.
  rewrite role_eqb_refl in Hsol. rewrite Hsol. exact He.
Qed.

(* the collision outcome, including what the loser is told *)
Lemma collision_outcome p r asn id hold caps c oc :
  inv p -> slot p r = Some c -> c_state c = OpenSent ->
  asn_acceptable (c_expected_asn c) asn ->
  slot p (other r) = Some oc -> confirmed (c_state oc) = true ->
  let res := peer_step p r (Recv (MOpen asn id hold caps)) in
  let loser := if st_eqb (c_state oc) Established then r
               else other (if id <? p_local_id p then RActive else RPassive) in
  slot (fst res) loser = None
  /\ confirmed (pstate (fst res) (other loser)) = true
  /\ (if role_eqb loser r
      then In (PConn r (SessDown (RLocalNotif 6 7) (Some (6, 7)))) (snd res)
      else In (PConn loser (Send (MNotif 6 7))) (snd res)).
Proof.
  intros Hinv Hs Hst Hacc Hso Hconf. cbv zeta.
  rewrite (peer_step_slot p r (Recv (MOpen asn id hold caps)) c eq_refl Hs). cbn [conn_step].
  unfold on_open. rewrite Hst. cbn [st_eqb st_code N.eqb Pos.eqb negb].
  assert (Hrej : negb (c_expected_asn c =? 0) && negb (c_expected_asn c =? asn) = false).
  { destruct Hacc as [E|E]; rewrite E; [reflexivity|]. rewrite N.eqb_refl. apply andb_false_r. }
  rewrite Hrej. cbv zeta. cbn [fst snd].
  match goal with |- context [set_slot p r (Some ?x)] => set (c' := x) end.
  assert (Hent : forall l, existsb is_entered_oc
            ([Send MKeepalive; Negotiated (c_local_cap c) caps] ++ l ++ [StateChanged OpenConfirm]) = true).
  { intro l. cbn. rewrite existsb_app. cbn. apply orb_true_r. }
  assert (Hdn : forall l, (forall o, In o l -> is_down o = false) -> existsb is_down
            ([Send MKeepalive; Negotiated (c_local_cap c) caps] ++ l ++ [StateChanged OpenConfirm]) = false).
  { intros l Hl. cbn. rewrite existsb_app. cbn. rewrite orb_false_r.
    destruct (existsb is_down l) eqn:E; [|reflexivity].
    apply existsb_exists in E as (o & Ho & Hd). rewrite (Hl o Ho) in Hd. discriminate. }
  rewrite Hent. rewrite Hdn.
  2:{ intros o Ho. destruct (N.min (open_hold (c_local_hold c)) hold =? 0); [destruct (c_local_hold c =? 0)|];
      cbn in Ho; intuition (subst; reflexivity). }
  unfold collide.
  pose proof (check_collision_spec (set_slot p r (Some c')) r c' (slot_set_same _ _ _)) as [_ Hcc].
  rewrite slot_set_other, Hso, Hconf in Hcc. cbv zeta in Hcc.
  destruct (check_collision (set_slot p r (Some c')) r) as [p2 lo]. cbn [fst snd] in Hcc.
  destruct Hcc as [Hlo Hp2]. subst lo.
  replace (c_remote_id c') with id in * by reflexivity.
  replace (p_local_id (set_slot p r (Some c'))) with (p_local_id p) in * by (destruct r; reflexivity).
  set (loser := if st_eqb (c_state oc) Established then r
                else other (if id <? p_local_id p then RActive else RPassive)) in *.
  destruct (role_eqb loser r) eqn:Hlr; cbn [fst snd].
  - apply role_eqb_eq in Hlr. rewrite Hp2, Hlr. split; [apply slot_set_same|]. split.
    + rewrite pstate_slot, !slot_set_other, Hso. exact Hconf.
    + apply in_or_app. right. left. reflexivity.
  - destruct (role_cases r loser) as [E|E]; [rewrite E, role_eqb_refl in Hlr; discriminate|].
    rewrite Hp2. split; [apply slot_set_same|]. split.
    + rewrite pstate_slot, slot_set_other. rewrite E, other_other, slot_set_same. reflexivity.
    + apply in_or_app. right. left. reflexivity.
Qed.

(* ------------------------------------------------- the C07 statements proper *)

Lemma fresh_inv p0 : fresh p0 -> inv p0.
Proof.
  intros [Ha Hp]. split.
  - intros [] c H; cbn in H; congruence.
  - unfold one_confirmed. rewrite !pstate_slot. cbn. rewrite Ha. reflexivity.
Qed.

Lemma inv_run_from p0 ins : fresh p0 -> inv (run_from p0 ins).
Proof. intro H. rewrite run_from_rev. apply inv_run_rev, fresh_inv, H. Qed.

Lemma C07_established_only_via_open_exchange :
  forall (p0 : pfsm) (ins : list (role * input)) (r : role),
    fresh p0 -> pstate (run_from p0 ins) r = Established ->
    alive_since p0 r (ev_keepalive p0 r) (rev ins).
Proof.
  intros p0 ins r Hf He. rewrite run_from_rev in He.
  pose proof (hist_step p0 (rev ins) (fresh_inv _ Hf) (proj1 Hf) (proj2 Hf) r) as H.
  unfold hist_ok in H. rewrite pstate_slot in He.
  destruct (slot (run_rev p0 (rev ins)) r) as [c|]; [|discriminate He].
  rewrite He in H. exact H.
Qed.

Lemma C07_down_inputs_free_slot :
  forall (p0 : pfsm) (ins : list (role * input)) (r : role) (i : input) (c : conn),
    fresh p0 -> slot (run_from p0 ins) r = Some c -> down_input i = true ->
    let p := run_from p0 ins in
    let p' := fst (peer_step p r i) in
    slot p' r = None
    /\ slot p' (other r) = slot p (other r)
    /\ In (PConn r (StateChanged Idle)) (snd (peer_step p r i))
    /\ (exists rs n, In (PConn r (SessDown rs n)) (snd (peer_step p r i)))
    /\ forall b, pstate (fst (peer_step p' r (Connected b))) r = OpenSent
                 /\ exists m, In (PConn r (Send m)) (snd (peer_step p' r (Connected b))).
Proof.
  intros p0 ins r i c Hf Hs Hd. apply (down_input_frees _ _ _ c); auto. apply inv_run_from, Hf.
Qed.

Lemma C07_at_most_one_confirmed :
  forall (p0 : pfsm) (ins : list (role * input)),
    fresh p0 -> ~ both_confirmed (run_from p0 ins).
Proof.
  intros p0 ins Hf [Ha Hp]. destruct (inv_run_from p0 ins Hf) as [_ H1].
  unfold one_confirmed in H1. rewrite Ha, Hp in H1. discriminate H1.
Qed.

Lemma C07_established_never_loses :
  forall (p0 : pfsm) (ins : list (role * input)) (r : role) (i : input),
    fresh p0 -> pstate (run_from p0 ins) (other r) = Established ->
    pstate (fst (peer_step (run_from p0 ins) r i)) (other r) = Established.
Proof. intros p0 ins r i Hf. apply established_survives, inv_run_from, Hf. Qed.

Lemma C07_collision_survivor :
  forall (p0 : pfsm) (ins : list (role * input)) (r : role) (asn id hold : N)
         (caps : list cap) (c oc : conn),
    fresh p0 ->
    let p := run_from p0 ins in
    slot p r = Some c -> c_state c = OpenSent ->
    asn_acceptable (c_expected_asn c) asn ->
    slot p (other r) = Some oc -> confirmed (c_state oc) = true ->
    let res := peer_step p r (Recv (MOpen asn id hold caps)) in
    let loser := if st_eqb (c_state oc) Established then r
                 else other (if id <? p_local_id p then RActive else RPassive) in
    slot (fst res) loser = None
    /\ confirmed (pstate (fst res) (other loser)) = true
    /\ (if role_eqb loser r
        then In (PConn r (SessDown (RLocalNotif 6 7) (Some (6, 7)))) (snd res)
        else In (PConn loser (Send (MNotif 6 7))) (snd res)).
Proof.
  intros p0 ins r asn id hold caps c oc Hf p Hs Hst Hacc Hso Hconf.
  apply (collision_outcome p r asn id hold caps c oc); auto. apply inv_run_from, Hf.
Qed.
