(* C17  Proofs about Model/Api.v against Spec/ApiSpec.v. *)
From Coq Require Import List ZArith NArith Bool Lia ZifyBool ZifyNat ZifyN.
From RB Require Import Base.Val Model.Api Spec.ApiSpec.
Import ListNotations.
Open Scope N_scope.

Local Ltac Zify.zify_post_hook ::= Z.div_mod_to_equations.
Arguments N.mul : simpl never.
Arguments N.add : simpl never.
Arguments N.div : simpl never.
Arguments N.modulo : simpl never.
Arguments N.sub : simpl never.

(* ------------------------------------------------------------------ *)
(* bytes                                                               *)
Lemma be32_of_be32 : forall a b c d, a < 256 -> b < 256 -> c < 256 -> d < 256 ->
  be32 (of_be32 a b c d) = [a; b; c; d].
Proof. intros a b c d Ha Hb Hc Hd. unfold be32, of_be32. repeat f_equal; lia. Qed.

Lemma of_be32_lt : forall a b c d, a < 256 -> b < 256 -> c < 256 -> d < 256 ->
  of_be32 a b c d < 4294967296.
Proof. intros. unfold of_be32. lia. Qed.

Lemma be16_of_be16 : forall a b, a < 256 -> b < 256 -> be16 (of_be16 a b) = [a; b].
Proof. intros a b Ha Hb. unfold be16, of_be16. repeat f_equal; lia. Qed.

Lemma of_be16_lt : forall a b, a < 256 -> b < 256 -> of_be16 a b < 65536.
Proof. intros. unfold of_be16. lia. Qed.

Lemma bytes_ok_be32 : forall v, bytes_ok (be32 v).
Proof. intros v. unfold be32. repeat constructor; lia. Qed.

Lemma bytes_ok_be16 : forall v, bytes_ok (be16 v).
Proof. intros v. unfold be16. repeat constructor; lia. Qed.

Lemma bytes_ok_app : forall a b, bytes_ok a -> bytes_ok b -> bytes_ok (a ++ b).
Proof. intros a b Ha Hb. apply Forall_app. split; assumption. Qed.

Lemma bytes_ok_app_inv : forall a b, bytes_ok (a ++ b) -> bytes_ok a /\ bytes_ok b.
Proof. intros a b H. apply Forall_app in H. exact H. Qed.

Lemma bytes_ok_flat_be32 : forall l, bytes_ok (flat_map be32 l).
Proof. induction l as [|x l IH]; cbn [flat_map]; [constructor|]. apply bytes_ok_app; [apply bytes_ok_be32|exact IH]. Qed.

Lemma length_be32 : forall v, length (be32 v) = 4%nat.
Proof. reflexivity. Qed.

Lemma length_flat_be32 : forall l, length (flat_map be32 l) = (4 * length l)%nat.
Proof. induction l as [|x l IH]; cbn [flat_map length]; [reflexivity|]. rewrite app_length, IH, length_be32. lia. Qed.

Lemma of_be32_be32 : forall v, v < 4294967296 ->
  of_be32 ((v / 16777216) mod 256) ((v / 65536) mod 256) ((v / 256) mod 256) (v mod 256) = v.
Proof. intros v Hv. unfold of_be32. lia. Qed.

(* of_bytes / to_bytes *)
Lemma of_bytes_snoc : forall l x, of_bytes (l ++ [x]) = of_bytes l * 256 + x.
Proof. intros l x. unfold of_bytes. rewrite fold_left_app. reflexivity. Qed.

Lemma to_bytes_of_bytes : forall l, bytes_ok l -> to_bytes (length l) (of_bytes l) = l.
Proof.
  induction l as [|x l IH] using rev_ind; intros Hok; [reflexivity|].
  apply bytes_ok_app_inv in Hok. destruct Hok as [Hl Hx]. inversion Hx as [|? ? Hx' _]; subst.
  rewrite app_length, Nat.add_1_r, of_bytes_snoc. cbn [to_bytes].
  replace ((of_bytes l * 256 + x) / 256) with (of_bytes l) by lia.
  replace ((of_bytes l * 256 + x) mod 256) with x by lia.
  rewrite IH by exact Hl. reflexivity.
Qed.

Lemma length_to_bytes : forall k v, length (to_bytes k v) = k.
Proof. induction k as [|k IH]; intros v; cbn [to_bytes]; [reflexivity|]. rewrite app_length, IH. cbn. lia. Qed.

Lemma bytes_ok_to_bytes : forall k v, bytes_ok (to_bytes k v).
Proof.
  induction k as [|k IH]; intros v; cbn [to_bytes]; [constructor|].
  apply bytes_ok_app; [apply IH|]. repeat constructor. lia.
Qed.

Lemma of_bytes_lt : forall l, bytes_ok l -> of_bytes l < 256 ^ N.of_nat (length l).
Proof.
  induction l as [|x l IH] using rev_ind; intros Hok; [cbn; lia|].
  apply bytes_ok_app_inv in Hok. destruct Hok as [Hl Hx]. inversion Hx as [|? ? Hx' _]; subst.
  rewrite of_bytes_snoc, app_length, Nat.add_1_r, Nat2N.inj_succ, N.pow_succ_r'.
  specialize (IH Hl). nia.
Qed.

(* read_n_u32 over a block of 4*k bytes *)
Lemma read_n_u32_app : forall k body rest,
  length body = (4 * k)%nat -> bytes_ok body ->
  exists nums, read_n_u32 k (body ++ rest) = Ok (nums, rest)
               /\ flat_map be32 nums = body /\ length nums = k /\ Forall u32_ok nums.
Proof.
  induction k as [|k IH]; intros body rest Hlen Hok.
  - destruct body; [|discriminate]. exists []. cbn. repeat split; constructor.
  - destruct body as [|a [|b [|c [|d body]]]]; try (cbn in Hlen; lia).
    inversion Hok as [|? ? Ha H1]; subst. inversion H1 as [|? ? Hb H2]; subst.
    inversion H2 as [|? ? Hc H3]; subst. inversion H3 as [|? ? Hd H4]; subst.
    destruct (IH body rest) as [nums [Hr [Hf [Hl Hu]]]]; [cbn in Hlen; lia|exact H4|].
    exists (of_be32 a b c d :: nums). cbn [read_n_u32 read_u32 app]. rewrite Hr.
    repeat split.
    + cbn [flat_map]. rewrite be32_of_be32, Hf by assumption. reflexivity.
    + cbn [length]. rewrite Hl. reflexivity.
    + constructor; [apply of_be32_lt; assumption|exact Hu].
Qed.

Lemma read_n_u32_exact : forall body,
  Nat.modulo (length body) 4 = 0%nat -> bytes_ok body ->
  exists nums, read_n_u32 (length body / 4) body = Ok (nums, [])
               /\ flat_map be32 nums = body /\ length nums = (length body / 4)%nat /\ Forall u32_ok nums.
Proof.
  intros body Hm Hok.
  destruct (read_n_u32_app (length body / 4) body []) as [nums H]; [|exact Hok|].
  - pose proof (Nat.div_mod (length body) 4). lia.
  - rewrite app_nil_r in H. exists nums. exact H.
Qed.
