(* Final statements for property C02. *)
From Coq Require Import List NArith ZArith Bool Lia Sorting.Permutation Sorting.Sorted.
From RB Require Import Base.Val Model.Rib Spec.BestPath Proofs.RibOrder Proofs.RibInv.
Import ListNotations.
Open Scope N_scope.

(* histories in which a Source token always denotes the same remote address *)
Definition consistent (ops : list op) : Prop := exists f, Forall (op_wf f) ops.

Lemma C02_cmp_code_refines_spec :
  forall fl net a b, cmp_for fl net a b = cmp_spec fl net a b.
Proof. exact cmp_for_is_spec. Qed.

Lemma C02_hops_code_refines_spec :
  forall a, Z.of_N (hops_of a) = match a_segs a with Some s => hops_spec s | None => 0%Z end.
Proof. exact hops_of_spec. Qed.

Lemma C02_decision_order_total_preorder :
  forall fl net,
    (forall a, not_worse fl net a a)
    /\ (forall a b, not_worse fl net a b \/ not_worse fl net b a)
    /\ (forall a b c, not_worse fl net a b -> not_worse fl net b c -> not_worse fl net a c)
    /\ (forall a b, cmp_spec fl net b a = CompOpp (cmp_spec fl net a b)).
Proof.
  intros fl net. repeat split.
  - apply not_worse_refl.
  - apply not_worse_total.
  - apply not_worse_trans.
  - apply cmp_spec_antisym.
Qed.

Lemma C02_dest_sorted_reachable :
  forall shard ops net d,
    consistent ops ->
    In (net, d) (t_dests (run (empty_table shard) ops)) ->
    ranked (t_flags (run (empty_table shard) ops)) net (d_entries d).
Proof.
  intros shard ops net d [f Hf] Hin.
  apply (i_ranked f _ (inv1_run f _ _ (inv1_empty f shard) Hf) _ _ Hin).
Qed.

Lemma hd_error_filter_in {A} g (l : list A) x : hd_error (filter g l) = Some x -> In x l /\ g x = true.
Proof.
  intro H. assert (Hin : In x (filter g l)).
  { destruct (filter g l); [discriminate|]. injection H as ->. left. reflexivity. }
  apply filter_In in Hin. exact Hin.
Qed.

Lemma C02_best_eligible_maximal :
  forall shard ops net d b,
    consistent ops ->
    In (net, d) (t_dests (run (empty_table shard) ops)) ->
    best_of d = Some b ->
    In b (d_entries d) /\ eligible b = true
    /\ forall e, In e (d_entries d) -> eligible e = true ->
                 not_worse (t_flags (run (empty_table shard) ops)) net b e.
Proof.
  intros shard ops net d b Hc Hin Hb.
  pose proof (C02_dest_sorted_reachable shard ops net d Hc Hin) as Hr.
  unfold best_of, elig_list in Hb.
  destruct (hd_error_filter_in _ _ _ Hb) as [Hbin Hbe]. split; [exact Hbin|]. split; [exact Hbe|].
  intros e He Hee.
  pose proof (ranked_filter _ net eligible _ Hr) as Hrf.
  destruct (filter eligible (d_entries d)) as [|h tl] eqn:E; [discriminate|]. injection Hb as ->.
  apply (ranked_head_best _ net b tl e Hrf). rewrite <- E. apply filter_In. split; assumption.
Qed.

Lemma Permutation_filter' {A} (g : A -> bool) l1 l2 :
  Permutation l1 l2 -> Permutation (filter g l1) (filter g l2).
Proof.
  induction 1 as [|x l l' _ IH|x y l|l l' l'' _ IH1 _ IH2]; cbn.
  - constructor.
  - destruct (g x); [constructor|]; exact IH.
  - destruct (g x), (g y); try reflexivity. apply perm_swap.
  - etransitivity; eassumption.
Qed.

(* Two reachable tables holding the same set of paths for a prefix under the
   same flags rank them identically up to ties, whatever the arrival order. *)
Lemma C02_ranking_order_independent :
  forall shard1 ops1 shard2 ops2 net d1 d2,
    consistent ops1 -> consistent ops2 ->
    let t1 := run (empty_table shard1) ops1 in
    let t2 := run (empty_table shard2) ops2 in
    In (net, d1) (t_dests t1) -> In (net, d2) (t_dests t2) ->
    (forall tok, flags_of (t_flags t1) tok = flags_of (t_flags t2) tok) ->
    Permutation (d_entries d1) (d_entries d2) ->
    Forall2 (tied (t_flags t1) net) (d_entries d1) (d_entries d2)
    /\ Forall2 (tied (t_flags t1) net) (elig_list d1) (elig_list d2).
Proof.
  intros shard1 ops1 shard2 ops2 net d1 d2 H1 H2 t1 t2 Hin1 Hin2 Hfl Hp.
  pose proof (C02_dest_sorted_reachable _ _ _ _ H1 Hin1) as R1.
  pose proof (C02_dest_sorted_reachable _ _ _ _ H2 Hin2) as R2.
  fold t1 in R1. fold t2 in R2.
  assert (R2' : ranked (t_flags t1) net (d_entries d2)).
  { apply (ranked_ext (t_flags t2)); [|exact R2]. intros e _. apply key_for_flags, Hfl. }
  split.
  - apply ranking_unique_up_to_ties; assumption.
  - apply ranking_unique_up_to_ties; try apply ranked_filter; try assumption.
    apply Permutation_filter', Hp.
Qed.

(* add-path window and ECMP set are prefixes of the one ranking *)
Lemma take_while_prefix {A} (g : A -> bool) l : exists r, l = take_while g l ++ r.
Proof.
  induction l as [|a r IH]; cbn; [exists []; reflexivity|].
  destruct (g a); [|exists (a :: r); reflexivity].
  destruct IH as [r' E]. exists r'. cbn. f_equal. exact E.
Qed.

Lemma C02_limited_and_ecmp_are_prefixes :
  forall fl (l : list entry) (n : nat),
    (exists r, l = firstn n l ++ r) /\ (exists r, l = ecmp_paths fl l ++ r).
Proof.
  intros fl l n. split.
  - exists (skipn n l). symmetry. apply firstn_skipn.
  - unfold ecmp_paths. destruct l as [|b r]; [exists []; reflexivity|]. apply take_while_prefix.
Qed.

Lemma b2z_inj a b : b2z a = b2z b -> a = b.
Proof. destruct a, b; cbn; congruence. Qed.

Lemma ecmp_key_eqb_tied fl p b :
  ecmp_key_eqb (ecmp_key fl p) (ecmp_key fl b) = true <-> ecmp_tied fl p b.
Proof.
  unfold ecmp_key, ecmp_key_eqb, ecmp_tied, spec_key. cbn [removelast].
  rewrite <- !hops_of_spec.
  rewrite !andb_true_iff, !N.eqb_eq, !Bool.eqb_true_iff. split.
  - intros [[[[[[H1 H2] H3] H4] H5] H6] H7].
    unfold lp_of, origin_of, clen_of in *. rewrite H1, H2, H3, H4, H5, H6, H7. reflexivity.
  - intro H. injection H as H7 H1 H2 H3 H4 H5 H6.
    apply b2z_inj in H7, H4, H5. assert (H4' : prefers_over_ibgp (s_role (e_src p)) = prefers_over_ibgp (s_role (e_src b))) by (destruct (prefers_over_ibgp (s_role (e_src p))), (prefers_over_ibgp (s_role (e_src b))); cbn in H4; congruence).
    unfold lp_of, origin_of, clen_of. repeat split; try assumption; lia.
Qed.

(* every member of the ECMP set ties with the best path on all steps before
   router-id, and the first path left out does not *)
Lemma take_while_all {A} (g : A -> bool) l p : In p (take_while g l) -> g p = true.
Proof.
  induction l as [|a r IH]; cbn; [intros []|].
  destruct (g a) eqn:E; [|intros []]. intros [<-|Hp]; [exact E|apply IH, Hp].
Qed.

Lemma take_while_stop {A} (g : A -> bool) l r x : l = take_while g l ++ x :: r -> g x = false.
Proof.
  revert r x. induction l as [|a l' IH]; cbn; intros r x H.
  - destruct r; discriminate.
  - destruct (g a) eqn:E.
    + cbn in H. injection H as H. apply (IH _ _ H).
    + cbn in H. injection H as <- _. exact E.
Qed.

Lemma C02_ecmp_code_refines_spec :
  forall fl b l,
    (forall p, In p (ecmp_paths fl (b :: l)) -> ecmp_tied fl p b)
    /\ (forall r x, b :: l = ecmp_paths fl (b :: l) ++ x :: r -> ~ ecmp_tied fl x b).
Proof.
  intros fl b l. unfold ecmp_paths. split.
  - intros p Hp. apply take_while_all in Hp. apply ecmp_key_eqb_tied, Hp.
  - intros r x H Ht. apply take_while_stop in H. apply ecmp_key_eqb_tied in Ht. congruence.
Qed.

Lemma find_first_ranked fl net g l e :
  ranked fl net l -> find g l = Some e ->
  In e l /\ g e = true /\ forall x, In x l -> g x = true -> not_worse fl net e x.
Proof.
  unfold ranked. induction l as [|a r IH]; intros Hs Hf; [discriminate|].
  cbn [find] in Hf. apply StronglySorted_inv in Hs as [Hr Ha]. destruct (g a) eqn:E.
  - injection Hf as <-. split; [left; reflexivity|]. split; [exact E|].
    intros x [<-|Hx] _; [apply not_worse_refl|]. rewrite Forall_forall in Ha. apply Ha, Hx.
  - destruct (IH Hr Hf) as (Hin & Hg & Hb). split; [right; exact Hin|]. split; [exact Hg|].
    intros x [<-|Hx] Hgx; [congruence|apply Hb; assumption].
Qed.

(* the route-server local view: best eligible path of the other RS clients *)
Lemma C02_rs_local_best :
  forall shard ops net d peer e,
    consistent ops ->
    In (net, d) (t_dests (run (empty_table shard) ops)) ->
    rs_local peer d = Some e ->
    In e (d_entries d) /\ eligible e = true /\ s_role (e_src e) = 1 /\ s_addr (e_src e) <> peer
    /\ forall x, In x (d_entries d) -> eligible x = true -> s_role (e_src x) = 1 -> s_addr (e_src x) <> peer ->
                 not_worse (t_flags (run (empty_table shard) ops)) net e x.
Proof.
  intros shard ops net d peer e Hc Hin Hrs.
  pose proof (C02_dest_sorted_reachable shard ops net d Hc Hin) as Hr.
  unfold rs_local in Hrs.
  destruct (find_first_ranked _ net _ _ _ Hr Hrs) as (Hin' & Hg & Hb).
  apply andb_true_iff in Hg as [Hg He]. apply andb_true_iff in Hg as [Hrole Hp].
  apply N.eqb_eq in Hrole. apply negb_true_iff in Hp. unfold from_addr in Hp. apply N.eqb_neq in Hp.
  repeat split; try assumption.
  intros x Hx Hex Hrx Hpx. apply Hb; [exact Hx|].
  rewrite Hrx, Hex. cbn. unfold from_addr. apply N.eqb_neq in Hpx. rewrite Hpx. reflexivity.
Qed.

(* ---- the statements are not vacuous: a concrete reachable table with three
   candidate paths for one prefix, one of them LLGR-stale *)
Definition ex_src (tok addr rid role : N) : src := {| s_tok := tok; s_addr := addr; s_rid := rid; s_role := role |}.
Definition ex_attr (tok lp : N) : attrs :=
  {| a_tok := tok; a_lp := Some lp; a_segs := Some [(2, 2)]; a_origin := Some 0; a_clen := None;
     a_oid := None; a_llgr := false; a_nollgr := false; a_mm := None; a_orig := tok |}.
Definition ex_ops : list op :=
  [ Insert (ex_src 1 1 9 0) 1 0 (Some 1) (ex_attr 100 200) false false None;
    Insert (ex_src 2 2 5 2) 1 0 (Some 2) (ex_attr 101 100) false false None;
    Insert (ex_src 3 3 7 0) 1 0 (Some 3) (ex_attr 102 100) false false None;
    Restale true 1 ].

Example ex_consistent : consistent ex_ops.
Proof. exists (fun tok => tok). repeat constructor. Qed.

Example ex_three_paths_llgr_last :
  exists d, In (1, d) (t_dests (run (empty_table 0) ex_ops))
            /\ map (fun e => s_tok (e_src e)) (d_entries d) = [3; 2; 1].
Proof. vm_compute. eexists. split; [left; reflexivity|reflexivity]. Qed.
