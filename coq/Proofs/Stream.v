(* Generic facts about the chunk-fed driver of Model/Stream.v: if one decoder
   call only looks at its own frame (extension stability), consumes input when
   it returns a message and never panics, then the delivered message sequence
   does not depend on how the byte stream was cut into chunks. *)
From Coq Require Import List NArith Bool Lia.
From RB Require Import Base.Val Base.Bytes Model.Stream Spec.WireSpec.
Import ListNotations.
Local Open Scope nat_scope.

Section StreamFacts.
  Context {M E : Type}.
  Variable dec : list N -> dres M E.

  Hypothesis H_nopanic : forall buf, dec buf <> DPanic.
  Hypothesis H_progress : forall buf m rest, dec buf = DMsg m rest -> length rest < length buf.
  Hypothesis H_ext_msg : forall buf m rest ext,
      dec buf = DMsg m rest -> dec (buf ++ ext) = DMsg m (rest ++ ext).
  Hypothesis H_ext_err : forall buf e rest ext,
      dec buf = DErr e rest -> dec (buf ++ ext) = DErr e (rest ++ ext).

  Inductive final := FPending (buf : list N) | FErr (e : E) (rest : list N).

  Definition ferr (f : final) : option E :=
    match f with FPending _ => None | FErr e _ => Some e end.

  (* big-step semantics of draining the buffer *)
  Inductive drains : list N -> list M -> final -> Prop :=
  | dr_need buf : dec buf = DNeed -> drains buf [] (FPending buf)
  | dr_err buf e rest : dec buf = DErr e rest -> drains buf [] (FErr e rest)
  | dr_msg buf m rest ms f :
      dec buf = DMsg m rest -> drains rest ms f -> drains buf (m :: ms) f.

  Lemma drains_det buf ms f : drains buf ms f -> forall ms' f', drains buf ms' f' -> ms = ms' /\ f = f'.
  Proof.
    induction 1 as [buf Hd|buf e rest Hd|buf m rest ms f Hd Hr IH]; intros ms' f' H2.
    - inversion H2 as [b H|b e' r' H|b m' r' ms2 f2 H H']; subst; try congruence. split; reflexivity.
    - inversion H2 as [b H|b e' r' H|b m' r' ms2 f2 H H']; subst; try congruence.
      rewrite Hd in H. injection H as <- <-. split; reflexivity.
    - inversion H2 as [b H|b e' r' H|b m' r' ms2 f2 H H']; subst; try congruence.
      rewrite Hd in H. injection H as <- <-.
      destruct (IH _ _ H') as [-> ->]. split; reflexivity.
  Qed.

  Lemma drains_ext_pending buf ms r :
    drains buf ms (FPending r) ->
    forall ext ms2 f, drains (r ++ ext) ms2 f -> drains (buf ++ ext) (ms ++ ms2) f.
  Proof.
    intro H. remember (FPending r) as fin eqn:Hf. revert r Hf.
    induction H as [buf Hd|buf e rest Hd|buf m rest ms f Hd Hr IH]; intros r Hf ext ms2 f2 H2.
    - injection Hf as <-. exact H2.
    - discriminate.
    - cbn [app]. eapply dr_msg; [apply H_ext_msg; exact Hd|]. eapply IH; eauto.
  Qed.

  Lemma drains_ext_err buf ms e rest :
    drains buf ms (FErr e rest) -> forall ext, drains (buf ++ ext) ms (FErr e (rest ++ ext)).
  Proof.
    intro H. remember (FErr e rest) as fin eqn:Hf. revert e rest Hf.
    induction H as [buf Hd|buf e0 rest0 Hd|buf m rest0 ms f Hd Hr IH]; intros e rest Hf ext.
    - discriminate.
    - injection Hf as <- <-. apply dr_err. apply H_ext_err. exact Hd.
    - eapply dr_msg; [apply H_ext_msg; exact Hd|]. eapply IH; eauto.
  Qed.

  Lemma msgs_of_app (a b : list (ev M E)) : msgs_of (a ++ b) = msgs_of a ++ msgs_of b.
  Proof. induction a as [|x a IH]; [reflexivity|]. destruct x; cbn [app msgs_of]; rewrite ?IH; reflexivity. Qed.

  Lemma err_of_app_none (a b : list (ev M E)) : err_of a = None -> err_of (a ++ b) = err_of b.
  Proof. induction a as [|x a IH]; [reflexivity|]. destruct x; cbn [app err_of]; intro H; try apply IH; congruence. Qed.

  Lemma err_of_app_some (a b : list (ev M E)) e : err_of a = Some e -> err_of (a ++ b) = Some e.
  Proof. induction a as [|x a IH]; [discriminate|]. destruct x; cbn [app err_of]; intro H; try apply IH; congruence. Qed.

  Definition clean_l (l : list (ev M E)) : Prop := ~ In EvSpin l /\ ~ In EvFuel l.

  Lemma clean_app a b : clean_l a -> clean_l b -> clean_l (a ++ b).
  Proof. unfold clean_l. intros [A1 A2] [B1 B2]. split; intro H; apply in_app_or in H; tauto. Qed.

  (* the executable driver computes the big-step semantics *)
  Lemma drain_sound : forall fuel buf, length buf < fuel ->
    exists ms f evs st, drains buf ms f /\ drain dec fuel buf = Some (evs, st) /\
      msgs_of evs = ms /\ err_of evs = ferr f /\ clean_l evs /\
      match f with FPending r => st = Pending r | FErr _ _ => st = Stopped end.
  Proof.
    induction fuel as [|fuel IH]; intros buf Hl; [lia|].
    cbn [drain]. destruct (dec buf) as [m rest| |e rest|] eqn:Hd.
    - pose proof (H_progress _ _ _ Hd) as Hp.
      destruct (Nat.eqb (length rest) (length buf)) eqn:He; [apply PeanoNat.Nat.eqb_eq in He; lia|].
      destruct (IH rest ltac:(lia)) as (ms & f & evs & st & Hdr & Hrun & Hm & He' & Hc & Hst).
      rewrite Hrun. exists (m :: ms), f, (EvMsg m (length rest) :: evs), st.
      repeat split; try assumption.
      + eapply dr_msg; eauto.
      + cbn [msgs_of]. congruence.
      + intros [H|H]; [discriminate|]. exact (proj1 Hc H).
      + intros [H|H]; [discriminate|]. exact (proj2 Hc H).
    - exists [], (FPending buf), [EvNeed (length buf)], (Pending buf).
      repeat split; try reflexivity; [apply dr_need; exact Hd| |]; intros [H|[]]; discriminate.
    - exists [], (FErr e rest), [EvErr e (length rest)], Stopped.
      repeat split; try reflexivity; [apply dr_err; exact Hd| |]; intros [H|[]]; discriminate.
    - exfalso. exact (H_nopanic _ Hd).
  Qed.

  Lemma feed_sound : forall chunks b0, chunks <> [] ->
    exists evs ms f, feed dec (Pending b0) chunks = Some evs /\ drains (b0 ++ concat chunks) ms f /\
      msgs_of evs = ms /\ err_of evs = ferr f /\ clean_l evs.
  Proof.
    induction chunks as [|c cs IH]; intros b0 Hne; [congruence|].
    cbn [feed concat].
    destruct (drain_sound (S (length (b0 ++ c))) (b0 ++ c) ltac:(lia))
      as (ms1 & f1 & evs1 & st1 & Hdr & Hrun & Hm & He & Hc & Hst).
    rewrite Hrun.
    destruct cs as [|c2 cs'].
    - cbn [feed concat]. rewrite !app_nil_r. exists evs1, ms1, f1. repeat split; try assumption; [exact (proj1 Hc)|exact (proj2 Hc)].
    - destruct f1 as [r|e rest].
      + subst st1.
        destruct (IH r ltac:(discriminate)) as (evs2 & ms2 & f2 & Hf2 & Hd2 & Hm2 & He2 & Hc2).
        rewrite Hf2. exists (evs1 ++ evs2), (ms1 ++ ms2), f2.
        split; [reflexivity|]. split.
        { rewrite app_assoc. eapply drains_ext_pending; eauto. }
        split; [rewrite msgs_of_app; congruence|].
        split; [rewrite err_of_app_none; assumption|].
        apply clean_app; assumption.
      + subst st1. cbn [feed]. rewrite app_nil_r.
        exists evs1, ms1, (FErr e (rest ++ concat (c2 :: cs'))).
        split; [reflexivity|]. split.
        { rewrite app_assoc. apply drains_ext_err. exact Hdr. }
        repeat split; try assumption; [exact (proj1 Hc)|exact (proj2 Hc)].
  Qed.

  Theorem stream_fragmentation_invariant : fragmentation_invariant dec.
  Proof.
    intros cs1 cs2 H1 H2 Hc. unfold run_stream.
    destruct (feed_sound cs1 [] H1) as (e1 & ms1 & f1 & Hf1 & Hd1 & Hm1 & He1 & Hc1).
    destruct (feed_sound cs2 [] H2) as (e2 & ms2 & f2 & Hf2 & Hd2 & Hm2 & He2 & Hc2).
    cbn [app] in Hd1, Hd2. rewrite Hc in Hd1.
    destruct (drains_det _ _ _ Hd1 _ _ Hd2) as [-> ->].
    exists e1, e2. split; [assumption|]. split; [assumption|]. split; [exact Hc1|]. split; [exact Hc2|]. split; congruence.
  Qed.
End StreamFacts.
