(* The cached PolicyAssignment::needs_rpki flag (property C14): evaluation in the
   daemon gets the RPKI table only when the flag of the assignment is set, so
   the flag is state evaluation depends on.  Along every history of table calls
   and of Global-level calls, the flag of every assignment in force -- the two
   global slots and every peer's export override -- equals "some statement of
   some of its policies has an rpki condition"; and for such an assignment the
   gated evaluation is the ungated one.  The verdict therefore does not depend
   on how the assignment was accumulated. *)
From Coq Require Import List NArith ZArith Bool Lia.
From RB Require Import Base.Val Model.Policy Model.PolicyTable Model.PolicyGlobal Proofs.PolicyTable Proofs.PolicyGlobal.
Import ListNotations.
Open Scope N_scope.

Definition flag_ok (a : assignment) : Prop := as_needs_rpki a = compute_needs_rpki (as_pols a).
Definition opt_flag_ok (o : option assignment) : Prop := forall a, o = Some a -> flag_ok a.
Definition slots_ok (t : table) : Prop := opt_flag_ok (t_imp t) /\ opt_flag_ok (t_exp t).

(* ------------------------------------------------------------------ *)
(* without an rpki condition the RPKI table is never consulted           *)

Section Gate.
  Variable rx_comm rx_ext rx_large : N -> N -> bool.
  Variable rx_aspath : N -> list N -> bool.

  Lemma cond_eval_no_rpki rp rp' x r c :
    is_rpki_cond c = false ->
    cond_eval rx_comm rx_ext rx_large rx_aspath rp x r c = cond_eval rx_comm rx_ext rx_large rx_aspath rp' x r c.
  Proof. destruct c; cbn [is_rpki_cond]; intros H; try discriminate; reflexivity. Qed.

  Lemma conds_all_no_rpki rp rp' x r l :
    existsb is_rpki_cond l = false ->
    conds_all rx_comm rx_ext rx_large rx_aspath rp x r l = conds_all rx_comm rx_ext rx_large rx_aspath rp' x r l.
  Proof.
    induction l as [|c l IH]; intros H; [reflexivity|]. cbn [existsb] in H. apply orb_false_iff in H. destruct H as [Hc Hl].
    cbn [conds_all]. rewrite (cond_eval_no_rpki rp rp' x r c Hc).
    destruct (cond_eval rx_comm rx_ext rx_large rx_aspath rp' x r c) as [[|]|]; cbn [bind]; [apply IH; exact Hl|reflexivity|reflexivity].
  Qed.

  Lemma stmt_apply_no_rpki rp rp' x s r :
    existsb is_rpki_cond (st_conds s) = false ->
    stmt_apply rx_comm rx_ext rx_large rx_aspath rp x s r = stmt_apply rx_comm rx_ext rx_large rx_aspath rp' x s r.
  Proof. intros H. unfold stmt_apply. rewrite (conds_all_no_rpki rp rp' x r _ H). reflexivity. Qed.

  Lemma policy_apply_no_rpki rp rp' x l : forall r,
    existsb (fun s => existsb is_rpki_cond (st_conds s)) l = false ->
    policy_apply rx_comm rx_ext rx_large rx_aspath rp x l r = policy_apply rx_comm rx_ext rx_large rx_aspath rp' x l r.
  Proof.
    induction l as [|s l IH]; intros r H; [reflexivity|]. cbn [existsb] in H. apply orb_false_iff in H. destruct H as [Hs Hl].
    cbn [policy_apply]. rewrite (stmt_apply_no_rpki rp rp' x s r Hs).
    destruct (stmt_apply rx_comm rx_ext rx_large rx_aspath rp' x s r) as [[d r1]|]; cbn [bind]; [|reflexivity].
    destruct (disp_eqb d DPass); [apply IH; exact Hl|reflexivity].
  Qed.

  Lemma pols_apply_no_rpki rp rp' x dflt l : forall r,
    compute_needs_rpki l = false ->
    pols_apply rx_comm rx_ext rx_large rx_aspath rp x dflt l r = pols_apply rx_comm rx_ext rx_large rx_aspath rp' x dflt l r.
  Proof.
    unfold compute_needs_rpki. induction l as [|p l IH]; intros r H; [reflexivity|].
    cbn [existsb] in H. apply orb_false_iff in H. destruct H as [Hp Hl].
    cbn [pols_apply]. rewrite (policy_apply_no_rpki rp rp' x (p_stmts p) r Hp).
    destruct (policy_apply rx_comm rx_ext rx_large rx_aspath rp' x (p_stmts p) r) as [[d r1]|]; cbn [bind]; [|reflexivity].
    destruct (disp_eqb d DPass); [apply IH; exact Hl|reflexivity].
  Qed.

  (* the gate of TableManager::apply_import / handle_prefix_update changes nothing
     when the flag is right *)
  Theorem gated_eval_is_ungated (validate : nlri -> N -> option N) a x r :
    flag_ok a ->
    eval_code rx_comm rx_ext rx_large rx_aspath (if as_needs_rpki a then Some validate else None) a x r =
    eval_code rx_comm rx_ext rx_large rx_aspath (Some validate) a x r.
  Proof.
    intros Hf. destruct (as_needs_rpki a) eqn:E; [reflexivity|].
    unfold eval_code. apply pols_apply_no_rpki. rewrite <- Hf. exact E.
  Qed.
End Gate.

(* ------------------------------------------------------------------ *)
(* the flag is right along every history                                *)

Lemma build_assignment_flag t ex im d names a : build_assignment t ex im d names = Some a -> flag_ok a.
Proof.
  unfold build_assignment. destruct (parse_all _ names) as [v|]; [|discriminate].
  destruct (im && existsb sets_nexthop v); [discriminate|].
  destruct ex as [old|].
  - destruct (existsb _ (as_pols old)); [discriminate|]. intros H. inversion H. reflexivity.
  - intros H. inversion H. reflexivity.
Qed.

Lemma without_policies_flag old names : flag_ok (without_policies old names).
Proof. reflexivity. Qed.

Lemma add_defined_set_slots t n c t' code :
  add_defined_set t n c = Ok (t', code) -> t_imp t' = t_imp t /\ t_exp t' = t_exp t.
Proof.
  unfold add_defined_set. intros H.
  destruct (negb (cfg_parses c)); [inversion H; auto|].
  destruct (lookup_set (cfg_kind c) n (t_sets t)).
  - destruct (set_in_use t (cfg_kind c) n); [inversion H; auto|].
    destruct (build_set _ c) as [[sv|e]|tag]; cbn [bind] in H; inversion H; auto.
  - destruct (build_set None c) as [[sv|e]|tag]; cbn [bind] in H; inversion H; auto.
Qed.

Lemma crud_step_slots t o t' code :
  slots_ok t -> crud_step t o = Ok (t', code) -> slots_ok t'.
Proof.
  intros [Hi He] H.
  assert (Same : t_imp t' = t_imp t /\ t_exp t' = t_exp t -> slots_ok t').
  { intros [E1 E2]. split; [rewrite E1|rewrite E2]; assumption. }
  destruct o as [rp nm c|al nm c|nm cs d0 a0|nm al cs d0 a0|nm ss|nm pr al ss|st im0 d0 ns|im0 ns al|im0 ro| | |nl asn];
    cbn [crud_step lift] in H.
  - apply Same. destruct rp.
    + unfold replace_defined_set in H. destruct (set_in_use t (cfg_kind c) nm); [inversion H; auto|].
      apply add_defined_set_slots in H. exact H.
    + apply add_defined_set_slots in H. exact H.
  - apply Same. inversion H as [E]. unfold delete_defined_set in E.
    repeat match type of E with context [match ?x with _ => _ end] => destruct x end; inversion E; auto.
  - apply Same. inversion H as [E]. unfold add_statement in E.
    repeat match type of E with context [match ?x with _ => _ end] => destruct x end; inversion E; auto.
  - apply Same. inversion H as [E]. unfold delete_statement in E.
    repeat match type of E with context [match ?x with _ => _ end] => destruct x end; inversion E; auto.
  - apply Same. inversion H as [E]. unfold add_policy in E.
    repeat match type of E with context [match ?x with _ => _ end] => destruct x end; inversion E; auto.
  - apply Same. inversion H as [E]. unfold delete_policy in E.
    repeat match type of E with context [match ?x with _ => _ end] => destruct x end; inversion E; auto.
  - inversion H as [E]. unfold add_assignment in E.
    destruct (build_assignment t _ im0 d0 ns) as [a|] eqn:B; inversion E; subst; [|split; assumption].
    apply build_assignment_flag in B. unfold with_asg. destruct im0; split; cbn [t_imp t_exp]; try assumption;
      intros x Ex; inversion Ex; subst; exact B.
  - inversion H as [E]. unfold delete_assignment in E. destruct al.
    + inversion E; subst. unfold with_asg. destruct im0; split; cbn [t_imp t_exp]; try assumption; intros x Ex; discriminate.
    + destruct (slot t im0) as [old|]; inversion E; subst; [|split; assumption].
      unfold with_asg. destruct im0; split; cbn [t_imp t_exp]; try assumption;
        intros x Ex; inversion Ex; subst; apply without_policies_flag.
  - inversion H; subst. split; assumption.
  - inversion H; subst. split; assumption.
  - inversion H; subst. split; assumption.
  - inversion H; subst. split; assumption.
Qed.

Lemma slots_ok_empty : slots_ok empty_table.
Proof. split; intros a E; discriminate. Qed.

Lemma history_slots_ok l : forall t, slots_ok t -> slots_ok (run_history t l).
Proof.
  induction l as [|o l IH]; intros t Hok; cbn [run_history]; [exact Hok|].
  destruct (crud_step t o) as [[t' c]|tag] eqn:E; [|exact Hok].
  apply IH. apply (crud_step_slots t o t' c Hok E).
Qed.

(* Global level: the slots and every peer's override *)
Definition gflags_ok (g : global) : Prop :=
  slots_ok (g_table g) /\ forall p a, In (p, Some a) (g_peers g) -> flag_ok a.

Lemma gstep_flags g o g' code : gflags_ok g -> gstep g o = Ok (g', code) -> gflags_ok g'.
Proof.
  intros [Hs Hp] H.
  assert (Hgen : forall o', on_table g (crud_step (g_table g) o') = Ok (g', code) -> gflags_ok g').
  { intros o' H'. unfold on_table in H'. destruct (crud_step (g_table g) o') as [[t c]|tag] eqn:E; [|discriminate].
    inversion H'; subst. split; [apply (crud_step_slots _ _ _ _ Hs E)|exact Hp]. }
  destruct o as [o'|p exp|p im d names|p im names all|p r| | |r|nl asn].
  - destruct o' as [rp nm c|al nm c|nm cs d0 a0|nm al cs d0 a0|nm ss|nm pr al ss|st im0 d0 ns|im0 ns al|im0 ro| | |nl asn];
      cbn [gstep] in H; try (apply (Hgen _ H)).
    + destruct (peers_ref g nm); [inversion H; subst; split; assumption|apply (Hgen _ H)].
    + destruct (peers_ref g nm); [inversion H; subst; split; assumption|apply (Hgen _ H)].
    + destruct st; apply (Hgen _ H).
  - cbn [gstep] in H. destruct (find_peer p (g_peers g)); [inversion H; subst; split; assumption|].
    destruct exp as [[d names]|].
    + destruct (build_assignment (g_table g) None false d names) as [a|] eqn:B; inversion H; subst; [|split; assumption].
      split; [exact Hs|]. intros q a' Hin. cbn [with_peers g_peers] in Hin. apply in_app_iff in Hin.
      destruct Hin as [Hin|[E|[]]]; [apply (Hp q a' Hin)|]. inversion E; subst. apply (build_assignment_flag _ _ _ _ _ _ B).
    + inversion H; subst. split; [exact Hs|]. intros q a' Hin. cbn [with_peers g_peers] in Hin. apply in_app_iff in Hin.
      destruct Hin as [Hin|[E|[]]]; [apply (Hp q a' Hin)|discriminate].
  - cbn [gstep] in H. destruct im; [inversion H; subst; split; assumption|].
    destruct (find_peer p (g_peers g)) as [ex0|]; [|inversion H; subst; split; assumption].
    destruct (build_assignment (g_table g) ex0 false (api_disp d) names) as [a|] eqn:B; inversion H; subst; [|split; assumption].
    split; [exact Hs|]. intros q a' Hin. cbn [with_peers g_peers] in Hin. apply in_set_peer in Hin.
    destruct Hin as [[_ E]|Hin]; [|apply (Hp q a' Hin)]. inversion E; subst. apply (build_assignment_flag _ _ _ _ _ _ B).
  - cbn [gstep] in H. destruct im; [inversion H; subst; split; assumption|].
    destruct (find_peer p (g_peers g)) as [ex0|]; [|inversion H; subst; split; assumption].
    destruct all.
    + inversion H; subst. split; [exact Hs|]. intros q a' Hin. cbn [with_peers g_peers] in Hin. apply in_set_peer in Hin.
      destruct Hin as [[_ E]|Hin]; [discriminate|apply (Hp q a' Hin)].
    + destruct ex0 as [old|]; inversion H; subst; [|split; assumption]. split; [exact Hs|].
      intros q a' Hin. cbn [with_peers g_peers] in Hin. apply in_set_peer in Hin.
      destruct Hin as [[_ E]|Hin]; [|apply (Hp q a' Hin)]. inversion E; subst. apply without_policies_flag.
  - cbn [gstep] in H. inversion H; subst. split; assumption.
  - cbn [gstep] in H. inversion H; subst. split; assumption.
  - cbn [gstep] in H. inversion H; subst. split; assumption.
  - cbn [gstep] in H. inversion H; subst. split; assumption.
  - cbn [gstep] in H. inversion H; subst. split; assumption.
Qed.

Lemma ghistory_flags l : forall g, gflags_ok g -> gflags_ok (grun_history g l).
Proof.
  induction l as [|o l IH]; intros g Hok; cbn [grun_history]; [exact Hok|].
  destruct (gstep g o) as [[g' c]|tag] eqn:E; [|exact Hok].
  apply IH. apply (gstep_flags g o g' c Hok E).
Qed.

(* final statements *)
Lemma C14_needs_rpki_cached_correctly :
  (forall l a, let t := run_history empty_table l in
               (t_imp t = Some a \/ t_exp t = Some a) -> as_needs_rpki a = compute_needs_rpki (as_pols a)) /\
  (forall l peer a, let g := grun_history empty_global l in
               (effective_export g peer = Some a \/ t_imp (g_table g) = Some a) ->
               as_needs_rpki a = compute_needs_rpki (as_pols a)).
Proof.
  split.
  - intros l a t [E|E]; destruct (history_slots_ok l empty_table slots_ok_empty) as [Hi He]; [apply (Hi a E)|apply (He a E)].
  - intros l peer a g H.
    assert (Hok : gflags_ok g).
    { apply ghistory_flags. split; [apply slots_ok_empty|]. intros p x []. }
    destruct Hok as [[Hi He] Hp]. destruct H as [H|H]; [|apply (Hi a H)].
    unfold effective_export in H. destruct (find_peer peer (g_peers g)) as [[ov|]|] eqn:F.
    + inversion H; subst. apply (Hp peer a). apply find_peer_in. exact F.
    + apply (He a H).
    + apply (He a H).
Qed.

Lemma C14_gated_evaluation_history_independent :
  forall (rc re rl : N -> N -> bool) (rxa : N -> list N -> bool) (validate : nlri -> N -> option N) l peer a x r,
    let g := grun_history empty_global l in
    (effective_export g peer = Some a \/ t_imp (g_table g) = Some a) ->
    eval_code rc re rl rxa (if as_needs_rpki a then Some validate else None) a x r =
    eval_code rc re rl rxa (Some validate) a x r.
Proof.
  intros rc re rl rxa validate l peer a x r g H. apply gated_eval_is_ungated.
  apply (proj2 C14_needs_rpki_cached_correctly l peer a H).
Qed.

(* non-vacuity: accumulated in two calls, the rpki policy first *)
Definition fx_no_act : actions :=
  {| ac_nexthop := None; ac_comm := None; ac_local_pref := None; ac_med := None;
     ac_prepend := None; ac_ext := None; ac_large := None; ac_origin := None |}.
Definition fx_history : list op :=
  [OAddStmt 1 [KVal (CRpki 2)] (Some DReject) fx_no_act; OAddStmt 2 [] None fx_no_act;
   OAddPol 1 [1]; OAddPol 2 [2]; OAddAsg false true DAccept [1]; OAddAsg false true DAccept [2]].
Example fx_flag_survives_accumulation :
  exists a, t_imp (run_history empty_table fx_history) = Some a /\ as_needs_rpki a = true /\ length (as_pols a) = 2%nat.
Proof. eexists. split; [vm_compute; reflexivity|split; reflexivity]. Qed.
