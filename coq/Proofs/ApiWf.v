(* C17  What the decoder model and attr_from_api accept is well-formed. *)
From Coq Require Import List ZArith NArith Bool Lia ZifyBool ZifyNat ZifyN.
From RB Require Import Base.Val Model.Api Spec.ApiSpec Proofs.ApiBytes Proofs.ApiStr Proofs.ApiSeg Proofs.ApiRt.
Import ListNotations.
Open Scope N_scope.

Local Ltac Zify.zify_post_hook ::= Z.div_mod_to_equations.
Arguments ip4_to_string : simpl never.
Arguments ip4_of_string : simpl never.
Arguments be32 : simpl never.
Arguments be16 : simpl never.
Arguments of_be32 : simpl never.
Arguments of_be16 : simpl never.
Arguments to_bytes : simpl never.
Arguments aspath_valid : simpl never.
Arguments write_extcom : simpl never.
Arguments Nat.div : simpl never.
Arguments Nat.modulo : simpl never.
Arguments N.of_nat : simpl never.
Arguments emit_segs : simpl never.
Arguments parse_ids : simpl never.
Arguments write_extcoms : simpl never.

Definition data_len_ok (a : attr) : Prop :=
  match a_data a with DVal _ => True | DBin b | DOpaque b => len_ok b end.

Lemma canon_lt : forall c f, canonical_flags c = Some f -> c < 256 /\ f < 256.
Proof.
  intros c f E. apply assoc_in in E. cbn [canon_table In] in E.
  repeat destruct E as [E|E]; try contradiction; injection E as <- <-; split; reflexivity.
Qed.

Ltac inv_bytes :=
  unfold bytes_ok in *;
  repeat match goal with H : Forall _ (_ :: _) |- _ => inversion H; clear H; subst end.

(* Attribute::decode stores only well-formed values *)
Lemma decode_value_wf : forall code f flags d a,
  canonical_flags code = Some f -> flags < 256 -> N.land flags 192 = N.land f 192 ->
  bytes_ok d -> len_ok d ->
  (code = NEXTHOP -> length d = 4%nat \/ length d = 16%nat) ->
  decode_value code flags d = Some a -> wf_attr a.
Proof.
  intros code f flags d a E Hfl Hbits Hok Hlen Hnh H.
  assert (Hcode : code < 256) by (apply canon_lt in E; tauto).
  assert (Hcb : class_bits_ok code flags) by (unfold class_bits_ok; rewrite E; exact Hbits).
  assert (G : forall dd, wf_data code dd -> wf_attr (mkAttr code flags dd)).
  { intros dd Hwd. repeat split; assumption. }
  unfold wf_data in G. apply assoc_in in E. cbn [canon_table In] in E. unfold decode_value in H.
  repeat destruct E as [E|E]; try contradiction; injection E as <- <-;
    cbn -[Nat.eqb Nat.leb Nat.modulo aspath_valid] in H; cbn in G.
  - (* ORIGIN *)
    destruct d as [|v [|? ?]]; try discriminate. destruct (N.ltb_spec 2 v); [discriminate|].
    injection H as <-. apply G; lia.
  - (* AS_PATH *)
    destruct (aspath_valid _ false d) eqn:Ev; [|discriminate]. injection H as <-.
    apply G. repeat split; try assumption. eapply aspath_valid_wf; eassumption.
  - (* NEXT_HOP *)
    destruct (Nat.eqb_spec (length d) 4) as [E4|]; [|discriminate]. injection H as <-.
    apply G. repeat split; try assumption. left. exact E4.
  - (* MED *)
    destruct d as [|b0 [|b1 [|b2 [|b3 [|? ?]]]]]; try discriminate. injection H as <-.
    inv_bytes. apply G. apply of_be32_lt; assumption.
  - (* LOCAL_PREF *)
    destruct d as [|b0 [|b1 [|b2 [|b3 [|? ?]]]]]; try discriminate. injection H as <-.
    inv_bytes. apply G. apply of_be32_lt; assumption.
  - (* ATOMIC_AGGREGATE *)
    destruct d; [|discriminate]. injection H as <-. apply G. repeat split; try assumption.
  - (* AGGREGATOR *)
    destruct d as [|a0 [|a1 [|a2 [|a3 [|a4 [|a5 [|a6 [|a7 [|? ?]]]]]]]]]; try discriminate.
    + injection H as <-. inv_bytes. apply G. repeat split.
      all: try (repeat constructor; try assumption; lia).
    + injection H as <-. apply G. repeat split; assumption.
  - (* COMMUNITY *)
    destruct (Nat.eqb_spec (length d) 0) as [E0|E0]; [discriminate|]. cbn [negb andb] in H.
    destruct (Nat.eqb_spec (Nat.modulo (length d) 4) 0) as [Em|]; [|discriminate]. injection H as <-.
    apply G. repeat split; try assumption. intros ->. apply E0. reflexivity.
  - (* ORIGINATOR_ID *)
    destruct d as [|b0 [|b1 [|b2 [|b3 [|? ?]]]]]; try discriminate. injection H as <-.
    inv_bytes. apply G. apply of_be32_lt; assumption.
  - (* CLUSTER_LIST *)
    destruct (Nat.eqb_spec (length d) 0) as [E0|E0]; [discriminate|]. cbn [negb andb] in H.
    destruct (Nat.eqb_spec (Nat.modulo (length d) 4) 0) as [Em|]; [|discriminate]. injection H as <-.
    apply G. repeat split; try assumption. intros ->. apply E0. reflexivity.
  - (* MP_REACH *) injection H as <-. apply G. repeat split; assumption.
  - (* MP_UNREACH *) injection H as <-. apply G. repeat split; assumption.
  - (* EXTENDED_COMMUNITY *)
    destruct (Nat.eqb_spec (length d) 0) as [E0|E0]; [discriminate|]. cbn [negb andb] in H.
    destruct (Nat.eqb_spec (Nat.modulo (length d) 8) 0) as [Em|]; [|discriminate]. injection H as <-.
    apply G. repeat split; try assumption. intros ->. apply E0. reflexivity.
  - (* AS4_PATH *)
    destruct (_ && _) eqn:Ev in H; [|discriminate]. injection H as <-.
    apply andb_prop in Ev. destruct Ev as [Ev E3]. apply andb_prop in Ev. destruct Ev as [E1 E2].
    apply G. repeat split; try assumption.
    + eapply aspath_valid_wf; eassumption.
    + intros ->. discriminate E2.
  - (* AS4_AGGREGATOR *)
    destruct (Nat.eqb_spec (length d) 8) as [El|]; [|discriminate]. injection H as <-.
    apply G. repeat split; assumption.
  - (* AIGP *) injection H as <-. apply G. repeat split; assumption.
  - (* LARGE_COMMUNITY *)
    destruct (Nat.eqb_spec (length d) 0) as [E0|E0]; [discriminate|]. cbn [negb andb] in H.
    destruct (Nat.eqb_spec (Nat.modulo (length d) 12) 0) as [Em|]; [|discriminate]. injection H as <-.
    apply G. repeat split; try assumption. intros ->. apply E0. reflexivity.
  - (* PREFIX_SID *) injection H as <-. apply G. repeat split; assumption.
  - (* LS *) injection H as <-. apply G. repeat split; assumption.
  - (* TUNNEL_ENCAP *) injection H as <-. apply G. repeat split; assumption.
Qed.

Lemma land_lxor_0 : forall a b m, N.land (N.lxor a b) m = 0 -> N.land a m = N.land b m.
Proof.
  intros a b m H. apply N.bits_inj. intros i. rewrite !N.land_spec.
  assert (Hi := f_equal (fun x => N.testbit x i) H). cbn beta in Hi.
  rewrite N.land_spec, N.lxor_spec, N.bits_0 in Hi.
  destruct (N.testbit a i), (N.testbit b i), (N.testbit m i); cbn in *; congruence.
Qed.

Lemma opt_trans_bits : forall f, f < 256 ->
  (N.land f 128 =? 0) = false -> (N.land f 64 =? 0) = false -> N.land f 192 = 192.
Proof.
  assert (H : forallb (fun f => implb (negb (N.land f 128 =? 0) && negb (N.land f 64 =? 0))
                                      (N.land f 192 =? 192)) octets = true) by (vm_compute; reflexivity).
  intros f Hf H1 H2. rewrite forallb_forall in H. specialize (H f (in_octets f Hf)).
  rewrite H1, H2 in H. cbn in H. apply N.eqb_eq in H. exact H.
Qed.

(* what the UPDATE decoder stores satisfies the Spec's invariants: the Spec is not
   stronger than what the wire guarantees *)
Theorem wire_accept_wf : forall flags code d a,
  flags < 256 -> code < 256 -> bytes_ok d -> len_ok d ->
  wire_accept flags code d = Some a -> wf_attr a.
Proof.
  intros flags code d a Hf Hc Hok Hlen H. unfold wire_accept in H.
  destruct (canonical_flags code) as [e|] eqn:E.
  - destruct (N.eqb_spec (N.land (N.lxor flags e) 192) 0) as [Hb|]; [|discriminate].
    destruct (decode_value code flags d) as [a'|] eqn:Ed; [|discriminate].
    destruct (N.eqb_spec code NEXTHOP) as [En|En].
    + rewrite !orb_true_r in H. cbn in H. discriminate H.
    + destruct (_ || _); [discriminate|]. injection H as <-.
      apply (decode_value_wf code e flags d a' E Hf (land_lxor_0 _ _ _ Hb) Hok Hlen); [contradiction|exact Ed].
  - destruct (N.land flags 128 =? 0) eqn:E1; [discriminate|].
    destruct (N.land flags 64 =? 0) eqn:E2; [discriminate|]. cbn in H. injection H as <-.
    unfold new_opaque. repeat split; cbn [a_code a_flags a_data]; try assumption.
    + unfold class_bits_ok. rewrite E. apply opt_trans_bits; assumption.
    + unfold wf_data. rewrite E. split; assumption.
Qed.

(* ------------------------------------------------------------------ *)
(* attr_from_api                                                       *)
Lemma len_check_inv : forall r a, len_check r = Ok (Some a) -> r = Some a /\ data_len_ok a.
Proof.
  intros r a H. unfold len_check in H. destruct r as [a'|]; [|discriminate].
  unfold data_len_ok. destruct (a_data a') eqn:Ed.
  - injection H as <-. rewrite Ed. split; [reflexivity|exact I].
  - destruct (N.ltb_spec 65535 (N.of_nat (length b))); [discriminate|]. injection H as <-.
    rewrite Ed. split; [reflexivity|unfold len_ok; lia].
  - destruct (N.ltb_spec 65535 (N.of_nat (length b))); [discriminate|]. injection H as <-.
    rewrite Ed. split; [reflexivity|unfold len_ok; lia].
Qed.

Lemma length_flat_large : forall (l : list (N * N * N)),
  length (flat_map (fun t => be32 (fst (fst t)) ++ be32 (snd (fst t)) ++ be32 (snd t)) l) = (length l * 12)%nat.
Proof. induction l as [|x l IH]; [reflexivity|]. cbn [flat_map length]. rewrite !app_length, IH, !length_be32. lia. Qed.

Lemma bytes_ok_flat_large : forall (l : list (N * N * N)),
  bytes_ok (flat_map (fun t => be32 (fst (fst t)) ++ be32 (snd (fst t)) ++ be32 (snd t)) l).
Proof.
  induction l as [|x l IH]; [constructor|]. cbn [flat_map].
  repeat apply bytes_ok_app; try apply bytes_ok_be32. exact IH.
Qed.

Ltac finish_wf := repeat split; cbn [a_code a_flags a_data]; try assumption; try lia; try reflexivity.

Lemma from_api_unchecked_wf : forall v6r x a, api_in_range x ->
  from_api_unchecked v6r x = Ok (Some a) -> data_len_ok a -> wf_attr a.
Proof.
  intros v6r x a Hr H Hl. unfold data_len_ok in Hl.
  destruct x; cbn [from_api_unchecked api_in_range] in *; try discriminate.
  - (* Unknown *)
    destruct Hr as [Hfl [Hty Hv]].
    destruct (N.ltb_spec 255 ty); [discriminate|].
    destruct (canonical_flags ty) as [f|] eqn:E.
    + destruct (N.ltb_spec 65535 (N.of_nat (length value))); [discriminate|].
      destruct (_ && _) eqn:En in H; [discriminate|]. injection H as H.
      eapply decode_value_wf; try eassumption.
      * apply canon_lt in E. tauto.
      * reflexivity.
      * unfold len_ok. lia.
      * intros ->. cbn in En. apply negb_false_iff, orb_prop in En.
        destruct En as [En|En]; apply Nat.eqb_eq in En; tauto.
    + destruct (N.eqb_spec (N.land flags 192) 192) as [Eb|]; [|discriminate].
      destruct (N.ltb_spec flags 256); [|discriminate]. cbn in H. injection H as <-.
      unfold new_opaque in *. cbn [a_data] in Hl. repeat split; cbn [a_code a_flags a_data]; try lia.
      * unfold class_bits_ok. rewrite E. exact Eb.
      * unfold wf_data. rewrite E. split; assumption.
  - (* Origin *)
    destruct (N.ltb_spec 2 o); [discriminate|]. injection H as <-. finish_wf.
  - (* AsPath *)
    destruct (forallb seg_ok segs) eqn:Es; [|discriminate]. injection H as <-.
    destruct (emit_segs_wf segs Es) as [Hw Hb]. cbn [a_data] in Hl. finish_wf.
  - (* NextHop *)
    destruct (ip4_of_string s) as [v|].
    + injection H as <-. finish_wf; try apply bytes_ok_be32; try (unfold len_ok; rewrite length_be32; lia); try (left; reflexivity).
    + destruct (v6r s) as [v|]; [|discriminate]. injection H as <-. cbn [a_data] in Hl.
      finish_wf; try apply bytes_ok_to_bytes; try (right; apply length_to_bytes).
  - (* Med *) injection H as <-. finish_wf.
  - (* LocalPref *) injection H as <-. finish_wf.
  - (* AtomicAggregate *) injection H as <-. finish_wf; try constructor; try (unfold len_ok; cbn [length]; lia).
  - (* Aggregator *)
    destruct (ip4_of_string addr) as [v|]; [|discriminate]. injection H as <-. cbn [a_data] in Hl.
    finish_wf. unfold be32. repeat constructor; lia.
  - (* Communities *)
    destruct (flat_map be32 l) as [|x0 b0] eqn:Eb; [discriminate|]. injection H as <-. cbn [a_data] in Hl.
    pose proof (bytes_ok_flat_be32 l) as Hb. pose proof (length_flat_be32 l) as Hlen. rewrite Eb in Hb, Hlen.
    finish_wf; try discriminate. all: rewrite Hlen, Nat.mul_comm; apply Nat.mod_mul; lia.
  - (* OriginatorId *)
    destruct (ip4_of_string s) as [v|] eqn:Ev; [|discriminate]. injection H as <-.
    finish_wf. eapply ip4_of_string_lt; eassumption.
  - (* ClusterList *)
    destruct (parse_ids ids) as [b|] eqn:Ep; [|discriminate]. destruct (parse_ids_len ids b Ep) as [Hb Hm].
    destruct b as [|x0 b0]; [discriminate|]. injection H as <-. cbn [a_data] in Hl. finish_wf; discriminate.
  - (* ExtCommunities *)
    destruct (write_extcoms l) as [b|] eqn:Ew; [|discriminate]. destruct (write_extcoms_len l b Hr Ew) as [Hm Hb].
    destruct b as [|x0 b0]; [discriminate|]. injection H as <-. cbn [a_data] in Hl. finish_wf; discriminate.
  - (* LargeCommunities *)
    pose proof (bytes_ok_flat_large l) as Hb. pose proof (length_flat_large l) as Hlen.
    destruct (flat_map _ l) as [|x0 b0] eqn:Eb; [discriminate|]. injection H as <-. cbn [a_data] in Hl.
    finish_wf; try discriminate. all: rewrite Hlen; apply Nat.mod_mul; lia.
  - (* MpReach *)
    destruct fam as [[afi safi]|]; [|discriminate]. destruct (_ || _); [discriminate|].
    destruct (_ && _).
    + injection H as <-. cbn [a_data] in Hl. finish_wf. unfold be16. repeat constructor; lia.
    + destruct nhs as [|nh r]; [discriminate|].
      destruct (ip4_of_string nh) as [v|].
      * injection H as <-. cbn [a_data] in Hl. finish_wf. repeat constructor; lia.
      * destruct (v6r nh) as [v|]; [|discriminate]. injection H as <-. cbn [a_data] in Hl. finish_wf.
        repeat constructor; lia.
Qed.

(* any value attr_from_api accepts satisfies the invariants of values accepted from the wire *)
Theorem from_api_wf : forall v6r x a, api_in_range x -> from_api v6r x = Ok (Some a) -> wf_attr a.
Proof.
  intros v6r x a Hr H. unfold from_api in H.
  destruct (from_api_unchecked v6r x) as [r|t] eqn:E; [|discriminate].
  apply len_check_inv in H. destruct H as [-> Hl]. eapply from_api_unchecked_wf; eassumption.
Qed.
