(* C17  Ipv4Addr Display / FromStr: the textual round trip and range lemmas. *)
From Coq Require Import List ZArith NArith Bool Lia ZifyBool ZifyNat ZifyN.
From RB Require Import Base.Val Model.Api Spec.ApiSpec Proofs.ApiBytes.
Import ListNotations.
Open Scope N_scope.

Local Ltac Zify.zify_post_hook ::= Z.div_mod_to_equations.

Lemma split_on_nonempty : forall sep l, split_on sep l <> [].
Proof.
  intros sep l. destruct l as [|c r]; cbn [split_on]; [discriminate|].
  destruct (c =? sep); [discriminate|]. destruct (split_on sep r); discriminate.
Qed.

Lemma split_on_nosep : forall sep g, Forall (fun c => c <> sep) g -> split_on sep g = [g].
Proof.
  intros sep g H. induction H as [|c g Hc _ IH]; [reflexivity|].
  cbn [split_on]. destruct (N.eqb_spec c sep) as [E|_]; [contradiction|]. rewrite IH. reflexivity.
Qed.

Lemma split_on_app : forall sep g rest, Forall (fun c => c <> sep) g ->
  split_on sep (g ++ sep :: rest) = g :: split_on sep rest.
Proof.
  intros sep g rest H. induction H as [|c g Hc _ IH].
  - cbn [app split_on]. rewrite N.eqb_refl. reflexivity.
  - cbn [app split_on]. destruct (N.eqb_spec c sep) as [E|_]; [contradiction|]. rewrite IH. reflexivity.
Qed.

(* the 256 octet values, swept *)
Definition octets : list N := map N.of_nat (seq 0 256).

Lemma in_octets : forall o, o < 256 -> In o octets.
Proof.
  intros o Ho. unfold octets. apply in_map_iff. exists (N.to_nat o). split; [lia|].
  apply in_seq. lia.
Qed.

Lemma parse_dec_octet : forall o, o < 256 -> parse_octet (dec_octet o) = Some o.
Proof.
  assert (H : forallb (fun o => match parse_octet (dec_octet o) with Some v => v =? o | None => false end) octets = true)
    by (vm_compute; reflexivity).
  intros o Ho. rewrite forallb_forall in H. specialize (H o (in_octets o Ho)).
  destruct (parse_octet (dec_octet o)) as [v|]; [|discriminate]. apply N.eqb_eq in H. subst. reflexivity.
Qed.

Lemma dec_octet_nodot : forall o, o < 256 -> Forall (fun c => c <> DOT) (dec_octet o).
Proof.
  assert (H : forallb (fun o => forallb (fun c => negb (c =? DOT)) (dec_octet o)) octets = true)
    by (vm_compute; reflexivity).
  intros o Ho. rewrite forallb_forall in H. specialize (H o (in_octets o Ho)).
  rewrite forallb_forall in H. apply Forall_forall. intros c Hc. specialize (H c Hc).
  destruct (N.eqb_spec c DOT); [discriminate|assumption].
Qed.

Theorem ip4_roundtrip : forall a, a < 4294967296 -> ip4_of_string (ip4_to_string a) = Some a.
Proof.
  intros a Ha. unfold ip4_of_string, ip4_to_string.
  set (o1 := (a / 16777216) mod 256). set (o2 := (a / 65536) mod 256).
  set (o3 := (a / 256) mod 256). set (o4 := a mod 256).
  assert (H1 : o1 < 256) by (subst o1; lia). assert (H2 : o2 < 256) by (subst o2; lia).
  assert (H3 : o3 < 256) by (subst o3; lia). assert (H4 : o4 < 256) by (subst o4; lia).
  rewrite (split_on_app DOT (dec_octet o1)) by (apply dec_octet_nodot; exact H1).
  rewrite (split_on_app DOT (dec_octet o2)) by (apply dec_octet_nodot; exact H2).
  rewrite (split_on_app DOT (dec_octet o3)) by (apply dec_octet_nodot; exact H3).
  rewrite (split_on_nosep DOT (dec_octet o4)) by (apply dec_octet_nodot; exact H4).
  rewrite !parse_dec_octet by assumption.
  f_equal. subst o1 o2 o3 o4. apply of_be32_be32. exact Ha.
Qed.

Corollary ip4_roundtrip_bytes : forall a b c d, a < 256 -> b < 256 -> c < 256 -> d < 256 ->
  ip4_of_string (ip4_to_string (of_be32 a b c d)) = Some (of_be32 a b c d).
Proof. intros. apply ip4_roundtrip. apply of_be32_lt; assumption. Qed.

Lemma parse_octet_lt : forall g v, parse_octet g = Some v -> v < 256.
Proof.
  intros g v H. unfold parse_octet, is_digit in H.
  destruct g as [|a [|b [|c [|d g]]]]; try discriminate.
  - destruct (_ && _) eqn:E in H; [|discriminate]. inversion H; subst. lia.
  - destruct (_ && _) eqn:E in H; [|discriminate]. inversion H; subst. lia.
  - destruct (_ && _) eqn:E in H; [|discriminate].
    destruct (_ <=? 255) eqn:E2 in H; [|discriminate]. inversion H; subst. lia.
Qed.

Lemma ip4_of_string_lt : forall s a, ip4_of_string s = Some a -> a < 4294967296.
Proof.
  intros s a H. unfold ip4_of_string in H.
  destruct (split_on DOT s) as [|g1 [|g2 [|g3 [|g4 [|g5 r]]]]]; try discriminate.
  destruct (parse_octet g1) eqn:E1; [|discriminate].
  destruct (parse_octet g2) eqn:E2; [|discriminate].
  destruct (parse_octet g3) eqn:E3; [|discriminate].
  destruct (parse_octet g4) eqn:E4; [|discriminate].
  inversion H; subst. apply of_be32_lt; eapply parse_octet_lt; eassumption.
Qed.

Lemma parse_ids_map : forall nums, Forall u32_ok nums ->
  parse_ids (map ip4_to_string nums) = Some (flat_map be32 nums).
Proof.
  intros nums H. induction H as [|v nums Hv _ IH]; [reflexivity|].
  cbn [map parse_ids flat_map]. rewrite ip4_roundtrip by exact Hv. rewrite IH. reflexivity.
Qed.

Lemma parse_ids_len : forall ids b, parse_ids ids = Some b ->
  bytes_ok b /\ Nat.modulo (length b) 4 = 0%nat.
Proof.
  induction ids as [|s ids IH]; intros b H; cbn [parse_ids] in H.
  - inversion H; subst. split; [constructor|reflexivity].
  - destruct (ip4_of_string s) as [n|]; [|discriminate]. destruct (parse_ids ids) as [bs|]; [|discriminate].
    assert (Hb : b = be32 n ++ bs) by congruence. subst b. clear H.
    destruct (IH bs eq_refl) as [Hok Hm]. split.
    + apply bytes_ok_app; [apply bytes_ok_be32|exact Hok].
    + rewrite app_length, length_be32.
      replace (4 + length bs)%nat with (length bs + 1 * 4)%nat by lia.
      rewrite Nat.mod_add by lia. exact Hm.
Qed.
