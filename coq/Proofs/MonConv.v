(* C19, daemon side: the converters of Model/MonConv.v build well-typed headers
   that never claim the V bit, carry the monitored data unchanged, and
   dump_table's peer indexes designate rows of the peer index table it writes. *)
From Coq Require Import List ZArith NArith Bool Arith Lia ZifyBool ZifyNat ZifyN.
From RB Require Import Base.Val Base.BytesBuf Model.Bmp Model.Mrt Model.MonConv
     Spec.BmpRead Spec.MrtRead Proofs.Bmp.
Import ListNotations.
Open Scope N_scope.

(* typing of a table::Source *)
Definition wf_source (s : source) : Prop :=
  wf_ip (s_raddr s) /\ wf_ip (s_laddr s) /\ s_rasn s < 2 ^ 32 /\ s_lasn s < 2 ^ 32
  /\ length (s_rid s) = 4%nat.

(* ---- adj_rib_in_to_bmp_update / adj_rib_in_to_mrt: the update says what the change says *)

Theorem C19_conv_update_faithful : forall c,
  match c_attrs c with
  | Some a => adj_rib_in_to_update c = UReach (c_family c) (c_nlris c) (c_nexthop c) a
  | None => adj_rib_in_to_update c = UUnreach (c_family c) (c_nlris c)
  end.
Proof. intro c. unfold adj_rib_in_to_update. destruct (c_attrs c); reflexivity. Qed.

(* the BGP4MP header built from a change is the one mrt_readback needs, as soon as
   the two ends of the session are of one family; add-path and body follow the change *)
Theorem C19_conv_mrt_header_wf : forall c,
  wf_source (c_source c) -> same_family (s_raddr (c_source c)) (s_laddr (c_source c)) ->
  let '(h, u, ap) := adj_rib_in_to_mrt c in
  wf_mph h /\ u = adj_rib_in_to_update c /\ ap = c_addpath c
  /\ m_raddr h = s_raddr (c_source c) /\ m_laddr h = s_laddr (c_source c).
Proof.
  intros c (Hr & Hl & Hra & Hla & _) Hsame. cbn.
  repeat split; try assumption; cbv; reflexivity.
Qed.

(* ---- loc_rib_to_bmp: RFC 9069 header, never the V bit, single NLRI with path id 0 *)

Theorem C19_loc_rib_header_wf : forall family net attr nexthop ts rid asn,
  ts < 2 ^ 32 -> asn < 2 ^ 32 -> length rid = 4%nat ->
  let m := loc_rib_to_bmp family net attr nexthop ts rid asn in
  wf_pph (rm_hdr m) /\ flags_no_v (rm_hdr m) /\ p_type (rm_hdr m) = 3
  /\ is_v6 (p_addr (rm_hdr m)) = false /\ rm_addpath m = false
  /\ rm_update m = match attr with
                   | Some a => UReach family [VL [VN 0; net]] nexthop a
                   | None => UUnreach family [VL [VN 0; net]]
                   end.
Proof.
  intros family net attr nexthop ts rid asn Hts Hasn Hrid. cbn.
  repeat split; try assumption; try (cbv; reflexivity).
Qed.

(* ---- flush_peer_snapshot: headers of the route messages *)

Theorem C19_flush_headers_wf : forall s addr h flags s' ms,
  flush_peer_snapshot s addr h flags = (s', ms) ->
  flags < 128 -> wf_pph h -> flags_no_v h ->
  (forall a m k c, In (a, m) s -> In (k, c) m -> wf_source (c_source c) /\ c_ts c < 2 ^ 32) ->
  Forall (fun m => wf_pph (rm_hdr m) /\ flags_no_v (rm_hdr m)) ms.
Proof.
  intros s addr h flags s' ms Hf Hfl Hh Hnv Hsrc. unfold flush_peer_snapshot in Hf.
  destruct (snap_get addr s) as [m|] eqn:E.
  - inversion Hf; subst; clear Hf.
    assert (Hin : exists a, In (a, m) s).
    { clear -E. induction s as [|[a' m'] s IH]; [discriminate|]. cbn [snap_get] in E.
      destruct (ip_eqb addr a').
      - inversion E; subst. exists a'. left. reflexivity.
      - destruct (IH E) as [a Ha]. exists a. right. exact Ha. }
    destruct Hin as [a Hin].
    apply Forall_app. split.
    + apply Forall_map. apply Forall_forall. intros [k c] Hkc.
      destruct (Hsrc a m k c Hin Hkc) as [(Hr & Hl & Hra & Hla & Hrid) Hts].
      cbn [rm_hdr snd fst]. unfold pph_new.
      split.
      * unfold wf_pph. cbn [p_type p_flags p_asn p_id p_dist p_addr p_ts].
        repeat split; try assumption; try lia; reflexivity.
      * unfold flags_no_v. cbn [p_flags]. apply N.bits_above_log2.
        destruct (N.eq_dec flags 0) as [->|Hz]; [cbv; reflexivity|].
        apply N.log2_lt_pow2; [lia|]. change (2 ^ 7) with 128. exact Hfl.
    + apply Forall_map. apply Forall_forall. intros f _. cbn. split; assumption.
  - inversion Hf; subst. constructor.
Qed.

(* ---- session_down_to_bmp: the reason code table and a readable Peer Down *)

Theorem C19_session_down_reason : forall r h,
  wf_pph h ->
  (forall b, r = Some (SDRemoteNotification b) \/ r = Some (SDLocalNotification b) ->
             frame_ok BGP_NOTIFICATION b) ->
  wf_msg (PeerDown h (session_down_to_bmp r))
  /\ reason_code (session_down_to_bmp r) =
     match r with
     | None | Some SDIoError => 4
     | Some (SDLocalNotification _) => 1
     | Some (SDRemoteNotification _) => 3
     | Some SDHoldTimerExpired | Some SDFsmError | Some SDAdminShutdown => 2
     end.
Proof.
  intros r h Hh Hb. split.
  - cbn [wf_msg]. split; [exact Hh|].
    destruct r as [[| b | b | | | ]|]; cbn [session_down_to_bmp]; try exact I; try (cbv; reflexivity).
    + apply Hb. left. reflexivity.
    + apply Hb. right. reflexivity.
  - destruct r as [[| b | b | | | ]|]; reflexivity.
Qed.

(* ---- loc_rib_peer_up: a readable Peer Up of the RFC 9069 virtual peer whose OPEN states
   the local AS in the 4-octet capability *)

Theorem C19_loc_rib_peer_up_wf : forall rid asn blob,
  asn < 2 ^ 32 -> length rid = 4%nat -> frame_ok BGP_OPEN blob ->
  wf_msg (loc_rib_peer_up rid asn blob)
  /\ (exists h, loc_rib_peer_up rid asn blob = PeerUp h (IP4 [0;0;0;0]) 0 0 blob blob
                /\ p_type h = 3 /\ flags_no_v h /\ p_addr h = IP4 [0;0;0;0] /\ p_asn h = asn /\ p_id h = rid)
  /\ In (VL [VN 65; VN asn]) (o_caps (loc_rib_open rid asn))
  /\ o_asn (loc_rib_open rid asn) = asn /\ o_rid (loc_rib_open rid asn) = be_dec rid.
Proof.
  intros rid asn blob Hasn Hrid Hb. split; [|split; [|split; [|split]]].
  - cbn. repeat split; try assumption; try (cbv; reflexivity).
  - eexists. split; [reflexivity|]. cbn. repeat split; reflexivity.
  - left. reflexivity.
  - reflexivity.
  - reflexivity.
Qed.

Theorem C19_adj_rib_out_update_faithful : forall family nlri attrs nexthop,
  adj_rib_out_to_update family nlri attrs nexthop =
  match attrs with
  | Some a => UReach family [nlri] nexthop a
  | None => UUnreach family [nlri]
  end.
Proof. reflexivity. Qed.

(* ---- the codec configuration for one monitored update *)

(* Whatever the BGP encoder does: no panic; the RFC 8950 form is requested exactly for an
   IPv4-unicast announcement with an IPv6 next hop; the extended limit is used only when the
   4096-octet attempt failed; an error only when both failed. *)
Theorem C19_embed_total : forall enc ap u,
  embed enc ap u <> EncoderPanic
  /\ (forall b, embed enc ap u = Embedded b ->
        enc (needs_rfc8950 u) false ap u = Some b
        \/ (enc (needs_rfc8950 u) false ap u = None /\ enc (needs_rfc8950 u) true ap u = Some b))
  /\ (embed enc ap u = EncodeError ->
        enc (needs_rfc8950 u) false ap u = None /\ enc (needs_rfc8950 u) true ap u = None).
Proof.
  intros enc ap u. unfold embed.
  destruct (enc (needs_rfc8950 u) false ap u) as [b0|] eqn:E0.
  - split; [discriminate|]. split; [intros b H; inversion H; subst; left; reflexivity|discriminate].
  - destruct (enc (needs_rfc8950 u) true ap u) as [b1|] eqn:E1.
    + split; [discriminate|]. split; [intros b H; inversion H; subst; right; split; reflexivity|discriminate].
    + split; [discriminate|]. split; [discriminate|intros _; split; reflexivity].
Qed.

Theorem C19_needs_rfc8950_iff : forall u,
  needs_rfc8950 u = true <->
  exists es nh a, u = UReach 65537 es nh a /\ nh_is_v6 nh = true.
Proof.
  intro u. split.
  - destruct u as [f es nh a|f es|f]; cbn [needs_rfc8950]; try discriminate.
    intro H. apply andb_true_iff in H. destruct H as [Hf Hn]. apply N.eqb_eq in Hf. subst f.
    exists es, nh, a. split; [reflexivity|exact Hn].
  - intros (es & nh & a & -> & Hn). cbn [needs_rfc8950]. rewrite Hn. reflexivity.
Qed.

(* the record of the old behaviour (findings C19-3 and C19-4): for an encoder that has no
   classic form for an IPv4 route with an IPv6 next hop, resp. no room within 4096 octets,
   the old configuration loses the route's form / panics where the new one embeds it *)
Lemma C19_embed_before_fix_refuted :
  exists enc u b, embed_before_fix enc false u = EncoderPanic /\ embed enc false u = Embedded b.
Proof.
  exists (fun (_ ext_len _ : bool) (_ : update) => if ext_len then Some [1] else None), (UEor 65537), [1].
  split; reflexivity.
Qed.

(* ---- dump_table: the peer index *)

Lemma ip_eqb_eq : forall a b, ip_eqb a b = true <-> a = b.
Proof.
  intros [x|x] [y|y]; cbn [ip_eqb]; try (split; [discriminate|congruence]);
    destruct (list_eq_dec N.eq_dec x y) as [->|Hn]; split; try reflexivity; try discriminate;
    intro H; inversion H; congruence.
Qed.

Definition index_inv (ix : index) (peers : list peer_entry) : Prop :=
  forall a i, idx_get a ix = Some i ->
    N.of_nat (length peers) <= 65536 ->
    exists p, nth_error peers (N.to_nat i) = Some p /\ pe_addr p = a.

Lemma index_step_inv : forall ix peers p, index_inv ix peers ->
  index_inv (fst (index_step (ix, peers) p)) (snd (index_step (ix, peers) p)).
Proof.
  intros ix peers p Hinv. unfold index_step.
  destruct (idx_get (d_addr p) ix) as [i0|] eqn:E; [exact Hinv|].
  cbn [fst snd]. intros a i Hget Hbound. rewrite app_length in Hbound. cbn [length] in Hbound.
  cbn [idx_get] in Hget. destruct (ip_eqb a (d_addr p)) eqn:Ea.
  - inversion Hget; subst i. apply ip_eqb_eq in Ea. subst a.
    rewrite N.mod_small by lia. rewrite Nat2N.id.
    eexists. split; [rewrite nth_error_app2 by lia; rewrite Nat.sub_diag; reflexivity|reflexivity].
  - destruct (Hinv a i Hget ltac:(lia)) as [q [Hq Ha]].
    exists q. split; [|exact Ha].
    rewrite nth_error_app1; [exact Hq|]. apply nth_error_Some. congruence.
Qed.

Lemma build_index_inv : forall paths ix peers, index_inv ix peers ->
  index_inv (fst (fold_left index_step paths (ix, peers))) (snd (fold_left index_step paths (ix, peers))).
Proof.
  induction paths as [|p paths IH]; intros ix peers Hinv; [exact Hinv|].
  cbn [fold_left]. pose proof (index_step_inv ix peers p Hinv) as H.
  destruct (index_step (ix, peers) p) as [ix' peers']. apply IH. exact H.
Qed.

(* every path handed to the loop has an index afterwards: no entry is dropped *)
Lemma index_step_mono : forall st p a, idx_get a (fst st) <> None ->
  idx_get a (fst (index_step st p)) <> None.
Proof.
  intros [ix peers] p a H. unfold index_step. cbn [fst] in *.
  destruct (idx_get (d_addr p) ix); [exact H|]. cbn [fst idx_get].
  destruct (ip_eqb a (d_addr p)); [discriminate|exact H].
Qed.

Lemma build_index_covers : forall paths st p, In p paths ->
  idx_get (d_addr p) (fst (fold_left index_step paths st)) <> None.
Proof.
  induction paths as [|q paths IH]; intros st p Hin; [contradiction|].
  cbn [fold_left]. destruct Hin as [->|Hin]; [|apply IH; exact Hin].
  assert (H0 : idx_get (d_addr p) (fst (index_step st p)) <> None).
  { destruct st as [ix peers]. unfold index_step.
    destruct (idx_get (d_addr p) ix) eqn:E; cbn [fst]; [congruence|].
    cbn [idx_get]. replace (ip_eqb (d_addr p) (d_addr p)) with true; [discriminate|].
    symmetry. apply ip_eqb_eq. reflexivity. }
  clear IH. revert H0. generalize (index_step st p). clear st.
  induction paths as [|r paths IH]; intros st H0; [exact H0|].
  cbn [fold_left]. apply IH. apply index_step_mono. exact H0.
Qed.

Definition rec_entries (r : td_record) : option (list rib_entry) :=
  match r with
  | PeerIndexTable _ _ => None
  | RibIpv4Unicast _ _ es | RibIpv6Unicast _ _ es => Some es
  end.

Lemma rib_records_entries : forall v6 ix ts changes seq t r es,
  In (t, r) (rib_records v6 ix ts seq changes) -> rec_entries r = Some es ->
  es <> [] /\ exists prefix paths, In (prefix, paths) changes /\ es = rib_entries ix ts paths.
Proof.
  intros v6 ix ts changes. induction changes as [|[prefix paths] rest IH]; intros seq t r es Hin Hes;
    [contradiction|].
  cbn [rib_records] in Hin. destruct (rib_entries ix ts paths) as [|e0 es0] eqn:E.
  - destruct (IH seq t r es Hin Hes) as [Hne (pf & ps & Hp & He)].
    split; [exact Hne|]. exists pf, ps. split; [right; exact Hp|exact He].
  - destruct Hin as [Heq|Hin].
    + inversion Heq; subst. destruct v6; cbn [rec_entries] in Hes; inversion Hes; subst;
        (split; [discriminate|]); exists prefix, paths; (split; [left; reflexivity|symmetry; exact E]).
    + destruct (IH (seq + 1) t r es Hin Hes) as [Hne (pf & ps & Hp & He)].
      split; [exact Hne|]. exists pf, ps. split; [right; exact Hp|exact He].
Qed.

(* "TABLE_DUMP_V2 peer indexes ... are consistent with the records written":
   in a dump with at most 65536 distinct peers, the first record is the peer
   index table; every RIB record has at least one entry, exactly one entry per
   path of its prefix, and the peer index of each entry designates the row of
   the table that holds the address of the peer the path was learned from. *)
Theorem C19_dump_peer_indexes_consistent : forall rid ts v4 v6,
  let peers := snd (build_index (v4 ++ v6)) in
  N.of_nat (length peers) <= 65536 ->
  hd_error (dump_table rid ts v4 v6) = Some (ts, PeerIndexTable rid peers) /\
  forall t r es, In (t, r) (tl (dump_table rid ts v4 v6)) -> rec_entries r = Some es ->
    es <> [] /\
    exists prefix paths, In (prefix, paths) (v4 ++ v6)
      /\ Forall2 (fun (p : dpath) (e : rib_entry) =>
                    re_orig e = ts /\ re_nh e = d_nh p /\ re_attrs e = d_attrs p /\
                    exists row, nth_error peers (N.to_nat (re_idx e)) = Some row
                                /\ pe_addr row = d_addr p) paths es.
Proof.
  intros rid ts v4 v6 peers Hbound. unfold dump_table. unfold peers in *. clear peers.
  assert (H0 : index_inv [] []) by (intros a i H; discriminate).
  pose proof (build_index_inv (concat (map snd (v4 ++ v6))) [] [] H0) as Hinv.
  pose proof (fun p Hp => build_index_covers (concat (map snd (v4 ++ v6))) ([], []) p Hp) as Hcov.
  change (fold_left index_step (concat (map snd (v4 ++ v6))) ([], [])) with (build_index (v4 ++ v6)) in Hinv.
  change (fold_left index_step (concat (map snd (v4 ++ v6))) ([], [])) with (build_index (v4 ++ v6)) in Hcov.
  clear H0. revert Hinv Hcov Hbound.
  destruct (build_index (v4 ++ v6)) as [ix ps].
  cbn [fst snd]. intros Hinv Hcov Hbound. split; [reflexivity|].
  intros t r es Hin Hes. cbn [tl] in Hin.
  assert (Hrec : es <> [] /\ exists prefix paths, In (prefix, paths) (v4 ++ v6) /\ es = rib_entries ix ts paths).
  { apply in_app_or in Hin. destruct Hin as [Hin|Hin].
    - destruct (rib_records_entries _ _ _ _ _ _ _ _ Hin Hes) as [Hne (pf & pa & Hp & He)].
      split; [exact Hne|]. exists pf, pa. split; [apply in_or_app; left; exact Hp|exact He].
    - destruct (rib_records_entries _ _ _ _ _ _ _ _ Hin Hes) as [Hne (pf & pa & Hp & He)].
      split; [exact Hne|]. exists pf, pa. split; [apply in_or_app; right; exact Hp|exact He]. }
  destruct Hrec as [Hne (prefix & paths & Hp & He)]. split; [exact Hne|].
  exists prefix, paths. split; [exact Hp|]. subst es.
  assert (Hall : forall p, In p paths -> In p (concat (map snd (v4 ++ v6)))).
  { intros p Hpin. apply in_concat. exists paths. split; [|exact Hpin].
    apply in_map_iff. exists (prefix, paths). split; [reflexivity|exact Hp]. }
  clear Hp Hne Hin Hes. induction paths as [|p paths IH]; cbn [rib_entries flat_map]; [constructor|].
  destruct (idx_get (d_addr p) ix) as [i|] eqn:Ei.
  - cbn [app]. constructor.
    + cbn. repeat split. destruct (Hinv (d_addr p) i Ei Hbound) as [row [Hrow Ha]].
      exists row. split; assumption.
    + apply IH. intros q Hq. apply Hall. right. exact Hq.
  - exfalso. apply (Hcov p); [apply Hall; left; reflexivity|exact Ei].
Qed.

(* non-vacuity: a dump with two peers and three paths *)
Definition ex_paths : list dchange :=
  [([24; 10; 1; 1], [{| d_addr := IP4 [10;0;0;1]; d_rid := [10;0;0;1]; d_asn := 65001; d_nh := Some [10;0;0;1]; d_attrs := [] |};
                     {| d_addr := IP4 [10;0;0;2]; d_rid := [10;0;0;2]; d_asn := 65002; d_nh := Some [10;0;0;2]; d_attrs := [] |}]);
   ([8; 10], [{| d_addr := IP4 [10;0;0;2]; d_rid := [10;0;0;2]; d_asn := 65002; d_nh := None; d_attrs := [] |}])].

Example ex_dump :
  N.of_nat (length (snd (build_index (ex_paths ++ [])))) <= 65536 /\
  length (dump_table [1;1;1;1] 7 ex_paths []) = 3%nat /\
  map (fun tr => match rec_entries (snd tr) with Some es => map re_idx es | None => [] end)
      (dump_table [1;1;1;1] 7 ex_paths []) = [[]; [0; 1]; [1]].
Proof. vm_compute. repeat split; discriminate. Qed.

Example ex_flush_hyps :
  exists s' ms, flush_peer_snapshot
      (fold_left apply_snapshot
         [{| c_source := {| s_raddr := IP4 [10;0;0;1]; s_laddr := IP4 [10;0;0;9]; s_rasn := 65001; s_lasn := 65000; s_rid := [10;0;0;1] |};
             c_family := 65537; c_addpath := false; c_nlris := [VL [VN 0; VL [VN 0; VN 24; VNs [10;1;1;0]]]];
             c_attrs := Some (VL []); c_nexthop := VL []; c_ts := 5 |}] [])
      (IP4 [10;0;0;1]) hdr0 0 = (s', ms) /\ length ms = 2%nat.
Proof. eexists. eexists. vm_compute. split; reflexivity. Qed.
