(* Every export policy a peer's session can evaluate after any history of
   Global-level calls -- its own override or the global slot -- satisfies the
   well-formedness hypothesis of the refinement theorem (property C14). *)
From Coq Require Import List NArith ZArith Bool Lia.
From RB Require Import Base.Val Model.Policy Model.PolicyTable Model.PolicyGlobal Spec.PolicySpec
  Proofs.Policy Proofs.PolicyTable Proofs.PolicyWf Proofs.PolicyGlobal.
Import ListNotations.
Open Scope N_scope.

Lemma gstep_sets_wf g o g' code :
  sets_wf (t_sets (g_table g)) -> gstep g o = Ok (g', code) -> sets_wf (t_sets (g_table g')).
Proof.
  intros Hw H.
  assert (Hgen : forall o', on_table g (crud_step (g_table g) o') = Ok (g', code) -> sets_wf (t_sets (g_table g'))).
  { intros o' H'. unfold on_table in H'. destruct (crud_step (g_table g) o') as [[t c]|tag] eqn:E; [|discriminate].
    inversion H'; subst. cbn [with_table g_table]. apply (crud_step_sets_wf _ _ _ _ Hw E). }
  destruct o as [o'|p exp|p im d names|p im names all|p r| | |r|nl asn].
  - destruct o' as [rp nm c|al nm c|nm cs d0 a0|nm al cs d0 a0|nm ss|nm pr al ss|st im0 d0 ns|im0 ns al|im0 ro| | |nl asn];
      cbn [gstep] in H; try (apply (Hgen _ H)).
    + destruct (peers_ref g nm); [inversion H; subst; exact Hw|apply (Hgen _ H)].
    + destruct (peers_ref g nm); [inversion H; subst; exact Hw|apply (Hgen _ H)].
    + destruct st; apply (Hgen _ H).
  - cbn [gstep] in H. destruct (find_peer p (g_peers g)); [inversion H; subst; exact Hw|].
    destruct exp as [[d names]|]; [destruct (build_assignment (g_table g) None false d names)|]; inversion H; subst; exact Hw.
  - cbn [gstep] in H. destruct im; [inversion H; subst; exact Hw|].
    destruct (find_peer p (g_peers g)) as [ex0|]; [|inversion H; subst; exact Hw].
    destruct (build_assignment (g_table g) ex0 false (api_disp d) names); inversion H; subst; exact Hw.
  - cbn [gstep] in H. destruct im; [inversion H; subst; exact Hw|].
    destruct (find_peer p (g_peers g)) as [ex0|]; [|inversion H; subst; exact Hw].
    destruct all; [inversion H; subst; exact Hw|]. destruct ex0; inversion H; subst; exact Hw.
  - cbn [gstep] in H. inversion H; subst. exact Hw.
  - cbn [gstep] in H. inversion H; subst. exact Hw.
  - cbn [gstep] in H. inversion H; subst. exact Hw.
  - cbn [gstep] in H. inversion H; subst. exact Hw.
  - cbn [gstep] in H. inversion H; subst. exact Hw.
Qed.

Lemma ghistory_sets_wf l : forall g, sets_wf (t_sets (g_table g)) -> sets_wf (t_sets (g_table (grun_history g l))).
Proof.
  induction l as [|o l IH]; intros g Hw; cbn [grun_history]; [exact Hw|].
  destruct (gstep g o) as [[g' c]|tag] eqn:E; [|exact Hw].
  apply IH. apply (gstep_sets_wf g o g' c Hw E).
Qed.

(* an assignment all of whose policies are the table's entries is well formed
   when the stored sets are *)
Lemma held_assignment_wf t a :
  refs_ok t -> sets_wf (t_sets t) -> asg_ok (t_pols t) (Some a) -> wf_assignment a.
Proof.
  intros (_ & Hs & Hst & _ & _) Hw Ha. unfold wf_assignment. rewrite Forall_forall. intros p Hp.
  pose proof (Ha a p eq_refl Hp) as Lp. apply lookup_pol_name in Lp. destruct Lp as [_ Inp].
  rewrite Forall_forall. intros s Hsin.
  pose proof (Hst p s Inp Hsin) as Ls. apply lookup_stmt_name in Ls. destruct Ls as [_ Ins].
  unfold wf_stmt. rewrite Forall_forall. intros c Hc.
  destruct c as [n o sv| | | | | | | | |]; try exact I.
  pose proof (Hs s n o sv Ins Hc) as L. pose proof (Hw _ _ _ L) as W.
  destruct sv; try exact I. exact W.
Qed.

Lemma C14_peer_effective_export_wf :
  forall l peer a, effective_export (grun_history empty_global l) peer = Some a -> wf_assignment a.
Proof.
  intros l peer a H. set (g := grun_history empty_global l) in *.
  assert (Hok : grefs_ok g) by (apply ghistory_refs_ok, grefs_ok_empty).
  assert (Hw : sets_wf (t_sets (g_table g))).
  { apply ghistory_sets_wf. intros k n s L. discriminate. }
  destruct Hok as [Hr Hp]. unfold effective_export in H.
  destruct (find_peer peer (g_peers g)) as [[ov|]|] eqn:F.
  - inversion H; subst. apply (held_assignment_wf (g_table g) a Hr Hw). apply (Hp peer a). apply find_peer_in. exact F.
  - apply (live_assignment_wf (g_table g) a Hr Hw). right. exact H.
  - apply (live_assignment_wf (g_table g) a Hr Hw). right. exact H.
Qed.
