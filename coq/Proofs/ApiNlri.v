(* C17  NLRI conversion: round trip, invariant preservation, encoder safety. *)
From Coq Require Import List ZArith NArith Bool Lia ZifyBool ZifyNat ZifyN.
From RB Require Import Base.Val Model.Api Spec.ApiSpec Proofs.ApiBytes Proofs.ApiStr Proofs.ApiRt.
Import ListNotations.
Open Scope N_scope.

Local Ltac Zify.zify_post_hook ::= Z.div_mod_to_equations.

Lemma dec_octet_noslash : forall o, o < 256 -> existsb (fun c => c =? SLASH) (dec_octet o) = false.
Proof.
  assert (H : forallb (fun o => negb (existsb (fun c => c =? SLASH) (dec_octet o))) octets = true)
    by (vm_compute; reflexivity).
  intros o Ho. rewrite forallb_forall in H. specialize (H o (in_octets o Ho)).
  apply negb_true_iff in H. exact H.
Qed.

Lemma ip4_noslash : forall a, existsb (fun c => c =? SLASH) (ip4_to_string a) = false.
Proof.
  intros a. unfold ip4_to_string.
  repeat (rewrite existsb_app || (cbn [existsb]; change (DOT =? SLASH) with false; cbn [orb])).
  rewrite !dec_octet_noslash by lia. reflexivity.
Qed.

Lemma labels_in_range : forall ls, Forall (fun l => l < 1048576) ls -> existsb (fun l => 1048575 <? l) ls = false.
Proof.
  intros ls H. induction H as [|l ls Hl _ IH]; [reflexivity|]. cbn [existsb]. rewrite IH.
  destruct (N.ltb_spec 1048575 l); [lia|reflexivity].
Qed.

Lemma labels_mod_id : forall ls, Forall (fun l => l < 1048576) ls -> map (fun l => l mod 1048576) ls = ls.
Proof.
  intros ls H. induction H as [|l ls Hl _ IH]; [reflexivity|]. cbn [map]. rewrite IH. f_equal. lia.
Qed.

Lemma rd_roundtrip : forall d, wf_rd d -> rd_from_api (rd_to_api d) = Some d.
Proof.
  intros [a b|a b|a b] H; cbn [wf_rd rd_to_api rd_from_api] in *.
  - destruct (N.ltb_spec 65535 a); [lia|reflexivity].
  - rewrite ip4_roundtrip by lia. destruct (N.ltb_spec 65535 b); [lia|reflexivity].
  - destruct (N.ltb_spec 65535 b); [lia|reflexivity].
Qed.

Lemma rd_from_api_wf : forall x d, api_rd_in_range x -> rd_from_api x = Some d -> wf_rd d.
Proof.
  intros [|a b|s b|a b] d Hr H; cbn [rd_from_api api_rd_in_range] in *; try discriminate.
  - destruct (N.ltb_spec 65535 a); [discriminate|]. injection H as <-. cbn. unfold u32_ok in *. lia.
  - destruct (ip4_of_string s) as [a|] eqn:E; [|discriminate].
    destruct (N.ltb_spec 65535 b); [discriminate|]. injection H as <-. cbn.
    split; [eapply ip4_of_string_lt; eassumption|lia].
  - destruct (N.ltb_spec 65535 b); [discriminate|]. injection H as <-. cbn. unfold u32_ok in *. lia.
Qed.

Lemma octets_ok_true : forall w a m, wf_prefix w a m -> octets_ok w a m = true.
Proof. intros w a m [_ [_ H]]. unfold octets_ok. rewrite H. reflexivity. Qed.

Lemma wf_prefix_4 : forall a m, wf_prefix 4 a m -> a < 4294967296 /\ m <= 32.
Proof. intros a m [H1 [H2 _]]. change (256 ^ 4) with 4294967296 in H1. lia. Qed.
Lemma wf_prefix_16 : forall a m, wf_prefix 16 a m -> a < 2 ^ 128 /\ m <= 128.
Proof. intros a m [H1 [H2 _]]. change (256 ^ 16) with (2 ^ 128) in H1. lia. Qed.

Lemma labels_wf : forall ls m, existsb (fun l => 1048575 <? l) ls = false -> Nat.eqb (length ls) 0 = false ->
  (255 <? 24 * N.of_nat (length ls) + m) = false -> wf_labels ls m.
Proof.
  intros ls m Hr Hne Hb. repeat split.
  - destruct ls; [discriminate|]. discriminate.
  - apply Forall_forall. intros x Hx. destruct (N.ltb_spec 1048575 x) as [Hgt|]; [|lia].
    exfalso. assert (E : existsb (fun l => 1048575 <? l) ls = true).
    { apply existsb_exists. exists x. split; [exact Hx|]. lia. }
    rewrite E in Hr. discriminate.
  - lia.
Qed.

Lemma wf_prefix_intro : forall w a m, a < 256 ^ w -> m <= 8 * w -> octets_ok w a m = true -> wf_prefix w a m.
Proof. intros w a m Ha Hm Ho. unfold octets_ok in Ho. apply N.eqb_eq in Ho. repeat split; assumption. Qed.

(* the five guards of the labeled / VPN arms *)
Lemma guards_inv : forall (b1 b2 b3 b4 b5 : bool), b1 || b2 || b3 || b4 || negb b5 = false ->
  b1 = false /\ b2 = false /\ b3 = false /\ b4 = false /\ b5 = true.
Proof. intros [] [] [] [] []; cbn; intros H; try discriminate; repeat split; reflexivity. Qed.


Section NlriProofs.
  Variable v6p : N -> list N.
  Variable v6r : list N -> option N.

  (* assumed of the Ipv6Addr textual form, in addition to [v6_contract]: a printed
     address holds no '/', and a parsed address is a 128-bit value *)
  Definition v6_noslash : Prop := forall a, a < 2 ^ 128 -> existsb (fun c => c =? SLASH) (v6p a) = false.
  Definition v6_range : Prop := forall s a, v6r s = Some a -> a < 2 ^ 128.

  Theorem nlri_roundtrip : forall n, v6_contract v6p v6r -> v6_noslash -> wf_nlri n ->
    net_from_api v6r (nlri_to_api v6p n) = Some n.
  Proof.
    intros n [Hrt Hn4] Hns Hwf. destruct n as [a m|a m|ls a m|ls a m|ls d a m|ls d a m]; cbn [wf_nlri] in Hwf;
      cbn [nlri_to_api net_from_api].
    - pose proof (wf_prefix_4 a m Hwf) as [Ha Hm]. rewrite ip4_noslash, ip4_roundtrip by exact Ha.
      destruct (N.ltb_spec 255 m); [lia|]. destruct (N.ltb_spec 32 m); [lia|].
      rewrite (octets_ok_true 4 a m Hwf). reflexivity.
    - pose proof (wf_prefix_16 a m Hwf) as [Ha Hm]. rewrite Hns, Hn4, Hrt by exact Ha.
      destruct (N.ltb_spec 255 m); [lia|]. destruct (N.ltb_spec 128 m); [lia|].
      rewrite (octets_ok_true 16 a m Hwf). reflexivity.
    - destruct Hwf as [Hp [Hne [Hl Hb]]]. pose proof (wf_prefix_4 a m Hp) as [Ha Hm]. rewrite ip4_roundtrip by exact Ha.
      destruct (N.ltb_spec 32 m); [lia|]. rewrite (labels_in_range ls Hl), (octets_ok_true 4 a m Hp).
      destruct ls as [|l ls]; [contradiction|]. cbn [length Nat.eqb orb negb].
      destruct (N.ltb_spec 255 (24 * N.of_nat (S (length ls)) + m)); [cbn [length] in Hb; lia|]. reflexivity.
    - destruct Hwf as [Hp [Hne [Hl Hb]]]. pose proof (wf_prefix_16 a m Hp) as [Ha Hm]. rewrite Hn4, Hrt by exact Ha.
      destruct (N.ltb_spec 128 m); [lia|]. rewrite (labels_in_range ls Hl), (octets_ok_true 16 a m Hp).
      destruct ls as [|l ls]; [contradiction|]. cbn [length Nat.eqb orb negb].
      destruct (N.ltb_spec 255 (24 * N.of_nat (S (length ls)) + m)); [cbn [length] in Hb; lia|]. reflexivity.
    - destruct Hwf as [Hp [Hd [Hne [Hl Hb]]]]. pose proof (wf_prefix_4 a m Hp) as [Ha Hm].
      rewrite rd_roundtrip, ip4_roundtrip by assumption.
      destruct (N.ltb_spec 32 m); [lia|]. rewrite (labels_in_range ls Hl), (octets_ok_true 4 a m Hp).
      destruct ls as [|l ls]; [contradiction|]. cbn [length Nat.eqb orb negb].
      destruct (N.ltb_spec 255 (24 * N.of_nat (S (length ls)) + 64 + m)); [cbn [length] in Hb; lia|]. reflexivity.
    - destruct Hwf as [Hp [Hd [Hne [Hl Hb]]]]. pose proof (wf_prefix_16 a m Hp) as [Ha Hm].
      rewrite rd_roundtrip, Hn4, Hrt by assumption.
      destruct (N.ltb_spec 128 m); [lia|]. rewrite (labels_in_range ls Hl), (octets_ok_true 16 a m Hp).
      destruct ls as [|l ls]; [contradiction|]. cbn [length Nat.eqb orb negb].
      destruct (N.ltb_spec 255 (24 * N.of_nat (S (length ls)) + 64 + m)); [cbn [length] in Hb; lia|]. reflexivity.
  Qed.

  Theorem net_from_api_wf : forall x n, v6_range -> api_nlri_in_range x -> net_from_api v6r x = Some n -> wf_nlri n.
  Proof.
    intros x n Hrg Hin H. destruct x as [|s len|ls s len|ls d s len|]; cbn [net_from_api] in H; try discriminate.
    - destruct (existsb _ s); [discriminate|].
      destruct (ip4_of_string s) as [a|] eqn:E4.
      + destruct (N.ltb_spec 255 len); [discriminate|]. destruct (N.ltb_spec 32 len); [discriminate|].
        destruct (octets_ok 4 a len) eqn:Eo; [|discriminate]. injection H as <-.
        apply wf_prefix_intro; [change (256 ^ 4) with 4294967296; eapply ip4_of_string_lt; eassumption|lia|exact Eo].
      + destruct (v6r s) as [a|] eqn:E6; [|discriminate].
        destruct (N.ltb_spec 255 len); [discriminate|]. destruct (N.ltb_spec 128 len); [discriminate|].
        destruct (octets_ok 16 a len) eqn:Eo; [|discriminate]. injection H as <-.
        apply wf_prefix_intro; [change (256 ^ 16) with (2 ^ 128); eapply Hrg; eassumption|lia|exact Eo].
    - destruct (ip4_of_string s) as [a|] eqn:E4.
      + destruct (_ || _) eqn:Eg in H; [discriminate|]. injection H as <-.
        apply guards_inv in Eg. destruct Eg as [G1 [G2 [G3 [G4 G5]]]]. split.
        * apply wf_prefix_intro; [change (256 ^ 4) with 4294967296; eapply ip4_of_string_lt; eassumption|lia|exact G5].
        * apply labels_wf; assumption.
      + destruct (v6r s) as [a|] eqn:E6; [|discriminate].
        destruct (_ || _) eqn:Eg in H; [discriminate|]. injection H as <-.
        apply guards_inv in Eg. destruct Eg as [G1 [G2 [G3 [G4 G5]]]]. split.
        * apply wf_prefix_intro; [change (256 ^ 16) with (2 ^ 128); eapply Hrg; eassumption|lia|exact G5].
        * apply labels_wf; assumption.
    - cbn [api_nlri_in_range] in Hin.
      destruct (rd_from_api d) as [d'|] eqn:Ed; [|discriminate]. pose proof (rd_from_api_wf d d' Hin Ed) as Hd.
      destruct (ip4_of_string s) as [a|] eqn:E4.
      + destruct (_ || _) eqn:Eg in H; [discriminate|]. injection H as <-.
        apply guards_inv in Eg. destruct Eg as [G1 [G2 [G3 [G4 G5]]]]. split; [|split; [exact Hd|]].
        * apply wf_prefix_intro; [change (256 ^ 4) with 4294967296; eapply ip4_of_string_lt; eassumption|lia|exact G5].
        * apply labels_wf; [assumption|assumption|]. rewrite N.add_assoc. exact G4.
      + destruct (v6r s) as [a|] eqn:E6; [|discriminate].
        destruct (_ || _) eqn:Eg in H; [discriminate|]. injection H as <-.
        apply guards_inv in Eg. destruct Eg as [G1 [G2 [G3 [G4 G5]]]]. split; [|split; [exact Hd|]].
        * apply wf_prefix_intro; [change (256 ^ 16) with (2 ^ 128); eapply Hrg; eassumption|lia|exact G5].
        * apply labels_wf; [assumption|assumption|]. rewrite N.add_assoc. exact G4.
  Qed.
End NlriProofs.

(* the encoders cannot panic on a well-formed NLRI, in either build profile *)
Theorem encode_nlri_safe : forall p n, wf_nlri n -> exists b, encode_nlri p n = Ok b.
Proof.
  intros p n Hwf. destruct n as [a m|a m|ls a m|ls a m|ls d a m|ls d a m]; cbn [wf_nlri] in Hwf; unfold encode_nlri, addr_bytes.
  - destruct Hwf as [_ [Hm _]]. destruct (Nat.leb_spec (N.to_nat ((m + 7) / 8)) 4); [|lia]. eexists. reflexivity.
  - destruct Hwf as [_ [Hm _]]. destruct (Nat.leb_spec (N.to_nat ((m + 7) / 8)) 16); [|lia]. eexists. reflexivity.
  - destruct Hwf as [[_ [Hm _]] [_ [_ Hb]]].
    destruct (N.ltb_spec 255 ((24 * N.of_nat (length ls)) mod 256 + m)); [lia|]. cbn [andb].
    destruct (Nat.leb_spec (N.to_nat ((m + 7) / 8)) 4); [|lia]. eexists. reflexivity.
  - destruct Hwf as [[_ [Hm _]] [_ [_ Hb]]].
    destruct (N.ltb_spec 255 ((24 * N.of_nat (length ls)) mod 256 + m)); [lia|]. cbn [andb].
    destruct (Nat.leb_spec (N.to_nat ((m + 7) / 8)) 16); [|lia]. eexists. reflexivity.
  - destruct Hwf as [[_ [Hm _]] [_ [_ [_ Hb]]]].
    destruct (N.ltb_spec 255 ((24 * N.of_nat (length ls)) mod 256 + 64 + m)); [lia|]. cbn [andb].
    destruct (Nat.leb_spec (N.to_nat ((m + 7) / 8)) 4); [|lia]. eexists. reflexivity.
  - destruct Hwf as [[_ [Hm _]] [_ [_ [_ Hb]]]].
    destruct (N.ltb_spec 255 ((24 * N.of_nat (length ls)) mod 256 + 64 + m)); [lia|]. cbn [andb].
    destruct (Nat.leb_spec (N.to_nat ((m + 7) / 8)) 16); [|lia]. eexists. reflexivity.
Qed.

(* witnesses against the unchanged net_from_api (labeled prefixes) *)
Lemma C17_v0_net_from_api_preserves_wf_refuted :
  exists x n, net_from_api_v0 v6_parse x = Some n /\ ~ wf_nlri n /\ encode_nlri Debug n = Panic 5.
Proof.
  exists (PLabeled [100] [49; 48; 46; 48; 46; 48; 46; 48] 300), (NLab4 [100] 167772160 44).
  split; [vm_compute; reflexivity|]. split; [|vm_compute; reflexivity].
  intros [[_ [Hm _]] _]. lia.
Qed.

Example nlri_examples :
  wf_nlri (NLab4 [100; 3] 167772160 8) /\ wf_nlri (NV6 1 128)
  /\ net_from_api v6_parse (PLabeled [100] [49; 48; 46; 48; 46; 48; 46; 48] 300) = None
  /\ net_from_api v6_parse (nlri_to_api v6_print (NV6 1 128)) = Some (NV6 1 128).
Proof.
  repeat split; try (cbn; lia); try discriminate; try (repeat constructor; lia); vm_compute; reflexivity.
Qed.
