(* Proofs about the CRUD half of the policy table (property C14): the
   reference-integrity invariant

     every set held by a statement, every statement held by a policy and every
     policy held by a global assignment IS the table's entry of that name

   holds of the empty table and is preserved by every add / replace / delete
   call, whatever its arguments and whatever it returns -- hence along every
   history of calls.  Consequence: an object referenced by a user that survives
   a call is, after the call, exactly what it was before (it can be neither
   deleted nor changed underneath its user). *)
From Coq Require Import List NArith ZArith Bool Lia.
From RB Require Import Base.Val Model.Policy Model.PolicyTable.
Import ListNotations.
Open Scope N_scope.

(* ------------------------------------------------------------------ *)
(* the invariant                                                        *)

Definition sets_ok (sets : list (N * N * setv)) (stmts : list stmt) : Prop :=
  forall s n o sv, In s stmts -> In (CSet n o sv) (st_conds s) ->
                   lookup_set (set_kind sv) n sets = Some sv.

Definition stmts_ok (stmts : list stmt) (pols : list policy) : Prop :=
  forall p s, In p pols -> In s (p_stmts p) -> lookup_stmt (st_name s) stmts = Some s.

Definition asg_ok (pols : list policy) (a : option assignment) : Prop :=
  forall x p, a = Some x -> In p (as_pols x) -> lookup_pol (p_name p) pols = Some p.

(* a set stored under kind k is a set of kind k *)
Definition kinds_ok (sets : list (N * N * setv)) : Prop :=
  forall k n sv, lookup_set k n sets = Some sv -> set_kind sv = k.

Definition refs_ok (t : table) : Prop :=
  kinds_ok (t_sets t) /\
  sets_ok (t_sets t) (t_stmts t) /\ stmts_ok (t_stmts t) (t_pols t) /\
  asg_ok (t_pols t) (t_imp t) /\ asg_ok (t_pols t) (t_exp t).

(* ------------------------------------------------------------------ *)
(* find / filter / append                                               *)

Lemma find_app {A} (f : A -> bool) l1 l2 :
  find f (l1 ++ l2) = match find f l1 with Some x => Some x | None => find f l2 end.
Proof. induction l1 as [|a l1 IH]; [reflexivity|]. cbn [app find]. destruct (f a); [reflexivity|exact IH]. Qed.

Lemma find_filter_neg {A} (f g : A -> bool) l :
  (forall x, f x = true -> g x = true) -> find f (filter (fun x => negb (g x)) l) = None \/
  True.
Proof. auto. Qed.

Lemma find_filter_other {A} (f g : A -> bool) l :
  (forall x, f x = true -> g x = true) -> find f (filter g l) = find f l.
Proof.
  intros H. induction l as [|a l IH]; [reflexivity|]. cbn [filter find].
  destruct (g a) eqn:G; cbn [find].
  - destruct (f a); [reflexivity|exact IH].
  - destruct (f a) eqn:F; [apply H in F; congruence|exact IH].
Qed.

Lemma find_filter_none {A} (f g : A -> bool) l :
  (forall x, f x = true -> g x = false) -> find f (filter g l) = None.
Proof.
  intros H. induction l as [|a l IH]; [reflexivity|]. cbn [filter].
  destruct (g a) eqn:G; [|exact IH]. cbn [find]. destruct (f a) eqn:F; [apply H in F; congruence|exact IH].
Qed.

(* ---- sets *)
Definition same_key (k n k' n' : N) : bool := (k =? k') && (n =? n').

Lemma lookup_remove_set k n k' n' l :
  lookup_set k n (remove_set k' n' l) = if same_key k n k' n' then None else lookup_set k n l.
Proof.
  unfold lookup_set, remove_set, same_key. destruct ((k =? k') && (n =? n')) eqn:E.
  - apply andb_true_iff in E. destruct E as [E1 E2]. apply N.eqb_eq in E1, E2. subst.
    rewrite find_filter_none; [reflexivity|]. intros x Hx. rewrite Hx. reflexivity.
  - rewrite find_filter_other; [reflexivity|]. intros x Hx. unfold key_eqb in *.
    apply andb_true_iff in Hx. destruct Hx as [H1 H2]. apply N.eqb_eq in H1, H2. subst.
    rewrite E. reflexivity.
Qed.

Lemma lookup_put_set k n k' n' s l :
  lookup_set k n (put_set k' n' s l) = if same_key k n k' n' then Some s else lookup_set k n l.
Proof.
  unfold put_set, lookup_set at 1. rewrite find_app. fold (lookup_set k n (remove_set k' n' l)).
  pose proof (lookup_remove_set k n k' n' l) as H. unfold lookup_set at 1 in H.
  destruct (find (key_eqb k n) (remove_set k' n' l)) as [e|] eqn:F.
  - destruct (same_key k n k' n'); [discriminate|]. exact H.
  - cbn [find]. unfold key_eqb at 1. cbn [fst snd]. unfold same_key in *.
    rewrite (N.eqb_sym k' k), (N.eqb_sym n' n).
    destruct ((k =? k') && (n =? n')); [reflexivity|exact H].
Qed.

(* ---- statements *)
Lemma lookup_remove_stmt n n' l :
  lookup_stmt n (remove_stmt n' l) = if n =? n' then None else lookup_stmt n l.
Proof.
  unfold lookup_stmt, remove_stmt. destruct (n =? n') eqn:E.
  - apply N.eqb_eq in E. subst. rewrite find_filter_none; [reflexivity|]. intros x Hx. rewrite Hx. reflexivity.
  - rewrite find_filter_other; [reflexivity|]. intros x Hx. apply N.eqb_eq in Hx. subst. rewrite E. reflexivity.
Qed.

Lemma lookup_put_stmt n s l :
  lookup_stmt n (put_stmt s l) = if n =? st_name s then Some s else lookup_stmt n l.
Proof.
  unfold put_stmt, lookup_stmt at 1. rewrite find_app. fold (lookup_stmt n (remove_stmt (st_name s) l)).
  rewrite lookup_remove_stmt. cbn [find]. rewrite (N.eqb_sym (st_name s) n).
  destruct (n =? st_name s); [reflexivity|]. destruct (lookup_stmt n l); reflexivity.
Qed.

Lemma in_remove_stmt s n l : In s (remove_stmt n l) -> In s l /\ st_name s <> n.
Proof.
  unfold remove_stmt. intros H. apply filter_In in H. destruct H as [H1 H2].
  split; [exact H1|]. apply negb_true_iff, N.eqb_neq in H2. exact H2.
Qed.

Lemma in_put_stmt s x l : In s (put_stmt x l) -> s = x \/ (In s l /\ st_name s <> st_name x).
Proof.
  unfold put_stmt. intros H. apply in_app_iff in H. destruct H as [H|[H|[]]].
  - right. apply in_remove_stmt; exact H.
  - left. symmetry; exact H.
Qed.

(* ---- policies *)
Lemma lookup_remove_pol n n' l :
  lookup_pol n (remove_pol n' l) = if n =? n' then None else lookup_pol n l.
Proof.
  unfold lookup_pol, remove_pol. destruct (n =? n') eqn:E.
  - apply N.eqb_eq in E. subst. rewrite find_filter_none; [reflexivity|]. intros x Hx. rewrite Hx. reflexivity.
  - rewrite find_filter_other; [reflexivity|]. intros x Hx. apply N.eqb_eq in Hx. subst. rewrite E. reflexivity.
Qed.

Lemma lookup_put_pol n p l :
  lookup_pol n (put_pol p l) = if n =? p_name p then Some p else lookup_pol n l.
Proof.
  unfold put_pol, lookup_pol at 1. rewrite find_app. fold (lookup_pol n (remove_pol (p_name p) l)).
  rewrite lookup_remove_pol. cbn [find]. rewrite (N.eqb_sym (p_name p) n).
  destruct (n =? p_name p); [reflexivity|]. destruct (lookup_pol n l); reflexivity.
Qed.

Lemma in_remove_pol p n l : In p (remove_pol n l) -> In p l /\ p_name p <> n.
Proof.
  unfold remove_pol. intros H. apply filter_In in H. destruct H as [H1 H2].
  split; [exact H1|]. apply negb_true_iff, N.eqb_neq in H2. exact H2.
Qed.

Lemma in_put_pol p x l : In p (put_pol x l) -> p = x \/ (In p l /\ p_name p <> p_name x).
Proof.
  unfold put_pol. intros H. apply in_app_iff in H. destruct H as [H|[H|[]]].
  - right. apply in_remove_pol; exact H.
  - left. symmetry; exact H.
Qed.

Lemma lookup_stmt_name n l s : lookup_stmt n l = Some s -> st_name s = n /\ In s l.
Proof. unfold lookup_stmt. intros H. apply find_some in H. destruct H as [H1 H2]. apply N.eqb_eq in H2. auto. Qed.
Lemma lookup_pol_name n l p : lookup_pol n l = Some p -> p_name p = n /\ In p l.
Proof. unfold lookup_pol. intros H. apply find_some in H. destruct H as [H1 H2]. apply N.eqb_eq in H2. auto. Qed.

(* ------------------------------------------------------------------ *)
(* in-use checks vs the invariant                                       *)

Lemma not_in_use_no_ref t k n s n' o sv :
  set_in_use t k n = false -> In s (t_stmts t) -> In (CSet n' o sv) (st_conds s) ->
  same_key (set_kind sv) n' k n = false.
Proof.
  unfold set_in_use. intros H Hs Hc.
  destruct (same_key (set_kind sv) n' k n) eqn:E; [|reflexivity]. exfalso.
  rewrite <- not_true_iff_false in H. apply H. apply existsb_exists. exists s. split; [exact Hs|].
  apply existsb_exists. exists (CSet n' o sv). split; [exact Hc|]. exact E.
Qed.

(* a set that is not in the table is not referenced (by the invariant) *)
Lemma absent_not_in_use t k n :
  sets_ok (t_sets t) (t_stmts t) -> lookup_set k n (t_sets t) = None -> set_in_use t k n = false.
Proof.
  intros Hok Hl. unfold set_in_use. apply not_true_iff_false. intros H.
  apply existsb_exists in H. destruct H as (s & Hs & H). apply existsb_exists in H. destruct H as (c & Hc & H).
  destruct c as [n' o sv| | | | | | | | |]; cbn [cond_refs] in H; try discriminate.
  apply andb_true_iff in H. destruct H as [H1 H2]. apply N.eqb_eq in H1, H2. subst.
  rewrite (Hok s n o sv Hs Hc) in Hl. discriminate.
Qed.

Lemma sets_ok_put t k n sv0 :
  sets_ok (t_sets t) (t_stmts t) -> set_in_use t k n = false ->
  sets_ok (put_set k n sv0 (t_sets t)) (t_stmts t).
Proof.
  intros Hok Hu s n' o sv Hs Hc. rewrite lookup_put_set.
  rewrite (not_in_use_no_ref t k n s n' o sv Hu Hs Hc). apply (Hok s n' o sv Hs Hc).
Qed.

Lemma sets_ok_remove t k n :
  sets_ok (t_sets t) (t_stmts t) -> set_in_use t k n = false ->
  sets_ok (remove_set k n (t_sets t)) (t_stmts t).
Proof.
  intros Hok Hu s n' o sv Hs Hc. rewrite lookup_remove_set.
  rewrite (not_in_use_no_ref t k n s n' o sv Hu Hs Hc). apply (Hok s n' o sv Hs Hc).
Qed.

Lemma stmt_not_in_use pols n p s :
  stmt_in_use pols n = false -> In p pols -> In s (p_stmts p) -> (st_name s =? n) = false.
Proof.
  unfold stmt_in_use. intros H Hp Hs. destruct (st_name s =? n) eqn:E; [|reflexivity]. exfalso.
  rewrite <- not_true_iff_false in H. apply H. apply existsb_exists. exists p. split; [exact Hp|].
  apply existsb_exists. exists s. auto.
Qed.

Lemma absent_stmt_not_in_use stmts pols n :
  stmts_ok stmts pols -> lookup_stmt n stmts = None -> stmt_in_use pols n = false.
Proof.
  intros Hok Hl. unfold stmt_in_use. apply not_true_iff_false. intros H.
  apply existsb_exists in H. destruct H as (p & Hp & H). apply existsb_exists in H. destruct H as (s & Hs & H).
  apply N.eqb_eq in H. subst. rewrite (Hok p s Hp Hs) in Hl. discriminate.
Qed.

Lemma asg_not_has a n x p : asg_has a n = false -> a = Some x -> In p (as_pols x) -> (p_name p =? n) = false.
Proof.
  intros H -> Hp. cbn [asg_has] in H. destruct (p_name p =? n) eqn:E; [|reflexivity]. exfalso.
  rewrite <- not_true_iff_false in H. apply H. apply existsb_exists. exists p. auto.
Qed.

Lemma absent_pol_not_in_use t n :
  asg_ok (t_pols t) (t_imp t) -> asg_ok (t_pols t) (t_exp t) -> lookup_pol n (t_pols t) = None -> pol_in_use t n = false.
Proof.
  intros Hi He Hl. unfold pol_in_use. apply orb_false_iff.
  split; apply not_true_iff_false; intros H.
  - destruct (t_imp t) as [x|] eqn:E; [|discriminate]. cbn [asg_has] in H. apply existsb_exists in H.
    destruct H as (p & Hp & H). apply N.eqb_eq in H. subst. rewrite (Hi x p eq_refl Hp) in Hl. discriminate.
  - destruct (t_exp t) as [x|] eqn:E; [|discriminate]. cbn [asg_has] in H. apply existsb_exists in H.
    destruct H as (p & Hp & H). apply N.eqb_eq in H. subst. rewrite (He x p eq_refl Hp) in Hl. discriminate.
Qed.

(* ------------------------------------------------------------------ *)
(* defined sets                                                         *)

Lemma kinds_ok_put sets k n sv : kinds_ok sets -> set_kind sv = k -> kinds_ok (put_set k n sv sets).
Proof.
  intros H E k' n' sv' L. rewrite lookup_put_set in L. unfold same_key in L.
  destruct ((k' =? k) && (n' =? n)) eqn:B.
  - inversion L; subst. apply andb_true_iff in B. destruct B as [B _]. apply N.eqb_eq in B. congruence.
  - apply (H k' n' sv' L).
Qed.

Lemma kinds_ok_remove sets k n : kinds_ok sets -> kinds_ok (remove_set k n sets).
Proof.
  intros H k' n' sv' L. rewrite lookup_remove_set in L. destruct (same_key k' n' k n); [discriminate|].
  apply (H k' n' sv' L).
Qed.

Lemma build_set_kind ex c s : build_set ex c = Ok (inl s) -> set_kind s = cfg_kind c.
Proof.
  unfold build_set. destruct c as [l|l|l|l|l|l].
  - destruct (parse_all pfx_parse l) as [es|]; [|discriminate].
    destruct (split_pfx es) as [[[z z6] l4] l6].
    destruct ex as [[old| | | | |]|];
      try (destruct l4, l6, z, z6; try discriminate;
           repeat match goal with |- context [insert_all ?w ?l ?a] => destruct (insert_all w l a); cbn [bind]; try discriminate end;
           intros H; inversion H; reflexivity).
  - destruct (parse_all net_parse l) as [ns|]; [|discriminate].
    destruct ex as [[| | | | |]|]; try (destruct ns; try discriminate); intros H; inversion H; reflexivity.
  - destruct (parse_all ap_parse l) as [ps|]; [|discriminate].
    destruct ex as [[| | | | |]|]; try (destruct ps; try discriminate); intros H; inversion H; reflexivity.
  - destruct (parse_all cm_parse l) as [ps|]; [|discriminate].
    destruct ex as [[| | | | |]|]; try (destruct ps; try discriminate); intros H; inversion H; reflexivity.
  - destruct (parse_all rx_parse l) as [ps|]; [|discriminate].
    destruct ex as [[| | | | |]|]; try (destruct ps; try discriminate); intros H; inversion H; reflexivity.
  - destruct (parse_all rx_parse l) as [ps|]; [|discriminate].
    destruct ex as [[| | | | |]|]; try (destruct ps; try discriminate); intros H; inversion H; reflexivity.
Qed.

Lemma shrink_set_kind old c s : shrink_set old c = inl s -> set_kind s = cfg_kind c.
Proof.
  unfold shrink_set. destruct c as [l|l|l|l|l|l], old; try discriminate;
    match goal with |- context [parse_all ?f ?l] => destruct (parse_all f l) end; try discriminate;
    intros H; inversion H; reflexivity.
Qed.

Lemma add_defined_set_ok t n c t' code :
  refs_ok t -> add_defined_set t n c = Ok (t', code) -> refs_ok t'.
Proof.
  intros (Hk & Hs & Hst & Hi & He) H. unfold add_defined_set in H.
  destruct (negb (cfg_parses c)); [inversion H; subst; repeat split; assumption|].
  destruct (lookup_set (cfg_kind c) n (t_sets t)) as [old|] eqn:L.
  - destruct (set_in_use t (cfg_kind c) n) eqn:U; [inversion H; subst; repeat split; assumption|].
    destruct (build_set (Some old) c) as [[s|e]|tag] eqn:B; cbn [bind] in H; inversion H; subst;
      repeat split; try assumption; cbn [with_sets t_sets t_stmts].
    + apply kinds_ok_put; [assumption|]. apply (build_set_kind _ _ _ B).
    + apply sets_ok_put; assumption.
  - pose proof (absent_not_in_use t _ n Hs L) as U.
    destruct (build_set None c) as [[s|e]|tag] eqn:B; cbn [bind] in H; inversion H; subst;
      repeat split; try assumption; cbn [with_sets t_sets t_stmts].
    + apply kinds_ok_put; [assumption|]. apply (build_set_kind _ _ _ B).
    + apply sets_ok_put; assumption.
Qed.

Lemma replace_defined_set_ok t n c t' code :
  refs_ok t -> replace_defined_set t n c = Ok (t', code) -> refs_ok t'.
Proof.
  intros (Hk & Hs & Hst & Hi & He) H. unfold replace_defined_set in H.
  destruct (set_in_use t (cfg_kind c) n) eqn:U; [inversion H; subst; repeat split; assumption|].
  apply (add_defined_set_ok (with_sets t (remove_set (cfg_kind c) n (t_sets t))) n c t' code); [|exact H].
  repeat split; try assumption; cbn [with_sets t_sets t_stmts].
  - apply kinds_ok_remove; assumption.
  - apply sets_ok_remove; assumption.
Qed.

Lemma delete_defined_set_ok t n c all t' code :
  refs_ok t -> delete_defined_set t n c all = (t', code) -> refs_ok t'.
Proof.
  intros (Hk & Hs & Hst & Hi & He) H. unfold delete_defined_set in H.
  destruct (set_in_use t (cfg_kind c) n) eqn:U; [inversion H; subst; repeat split; assumption|].
  destruct (lookup_set (cfg_kind c) n (t_sets t)) as [old|]; [|inversion H; subst; repeat split; assumption].
  destruct all.
  - inversion H; subst. repeat split; try assumption; cbn [with_sets t_sets t_stmts].
    + apply kinds_ok_remove; assumption.
    + apply sets_ok_remove; assumption.
  - destruct (shrink_set old c) as [s|e] eqn:B; inversion H; subst; repeat split; try assumption;
      cbn [with_sets t_sets t_stmts].
    + apply kinds_ok_put; [assumption|]. apply (shrink_set_kind _ _ _ B).
    + apply sets_ok_put; assumption.
Qed.

(* ------------------------------------------------------------------ *)
(* statements                                                           *)

(* every set condition produced by the resolution loop holds the table's set *)
Lemma resolve_conds_ok t l v :
  kinds_ok (t_sets t) -> resolve_conds t l = Some v ->
  forall n o sv, In (CSet n o sv) v -> lookup_set (set_kind sv) n (t_sets t) = Some sv.
Proof.
  intros Hk. revert v. induction l as [|c l IH]; intros v H n o sv Hin; cbn [resolve_conds] in H.
  - inversion H; subst. destruct Hin.
  - destruct c as [k n0 o0|c0].
    + destruct (((k =? 0) || (k =? 1)) && match o0 with MAll => true | _ => false end); [discriminate|].
      destruct (lookup_set k n0 (t_sets t)) as [s|] eqn:L; [|discriminate].
      destruct (resolve_conds t l) as [vs|]; [|discriminate]. inversion H; subst.
      destruct Hin as [E|Hin].
      * inversion E; subst. rewrite (Hk k n sv L). exact L.
      * apply (IH vs eq_refl n o sv Hin).
    + destruct c0; try discriminate;
        (destruct (resolve_conds t l) as [vs|]; [|discriminate]; inversion H; subst;
         destruct Hin as [E|Hin]; [discriminate|apply (IH vs eq_refl n o sv Hin)]).
Qed.

Lemma merge_conds_in new : forall old v c, merge_conds old new = Some v -> In c v -> In c old \/ In c new.
Proof.
  induction new as [|x new IH]; intros old v c H Hin; cbn [merge_conds] in H.
  - inversion H; subst. left; exact Hin.
  - destruct (has_kind (cond_kind x) old); [discriminate|].
    destruct (IH _ _ c H Hin) as [Ho|Hn].
    + apply in_app_iff in Ho. destruct Ho as [Ho|[<-|[]]]; [left; exact Ho|right; left; reflexivity].
    + right; right; exact Hn.
Qed.

Lemma remove_kind_in k : forall l l' c, remove_kind k l = Some l' -> In c l' -> In c l.
Proof.
  induction l as [|x l IH]; intros l' c H Hin; cbn [remove_kind] in H; [discriminate|].
  destruct (cond_kind x =? k).
  - inversion H; subst. right; exact Hin.
  - destruct (remove_kind k l) as [r|]; [|discriminate]. inversion H; subst.
    destruct Hin as [<-|Hin]; [left; reflexivity|right; apply (IH r c eq_refl Hin)].
Qed.

Lemma remove_kinds_in ks : forall l l' c, remove_kinds ks l = Some l' -> In c l' -> In c l.
Proof.
  induction ks as [|k ks IH]; intros l l' c H Hin; cbn [remove_kinds] in H.
  - inversion H; subst. exact Hin.
  - destruct (remove_kind k l) as [l1|] eqn:E; [|discriminate].
    apply (remove_kind_in k l l1 c E). apply (IH l1 l' c H Hin).
Qed.

(* replacing / adding / removing a statement no policy lists keeps the
   policy -> statement references intact *)
Lemma stmts_ok_put stmts pols x :
  stmts_ok stmts pols -> stmt_in_use pols (st_name x) = false -> stmts_ok (put_stmt x stmts) pols.
Proof.
  intros Hok Hu p s Hp Hs. rewrite lookup_put_stmt. rewrite (stmt_not_in_use pols _ p s Hu Hp Hs).
  apply (Hok p s Hp Hs).
Qed.

Lemma stmts_ok_remove stmts pols n :
  stmts_ok stmts pols -> stmt_in_use pols n = false -> stmts_ok (remove_stmt n stmts) pols.
Proof.
  intros Hok Hu p s Hp Hs. rewrite lookup_remove_stmt. rewrite (stmt_not_in_use pols _ p s Hu Hp Hs).
  apply (Hok p s Hp Hs).
Qed.

Lemma sets_ok_put_stmt sets stmts x :
  sets_ok sets stmts ->
  (forall n o sv, In (CSet n o sv) (st_conds x) -> lookup_set (set_kind sv) n sets = Some sv) ->
  sets_ok sets (put_stmt x stmts).
Proof.
  intros Hok Hx s n o sv Hs Hc. apply in_put_stmt in Hs. destruct Hs as [->|[Hs _]].
  - apply (Hx n o sv Hc).
  - apply (Hok s n o sv Hs Hc).
Qed.

Lemma sets_ok_sub sets stmts stmts' :
  sets_ok sets stmts -> (forall s, In s stmts' -> In s stmts) -> sets_ok sets stmts'.
Proof. intros Hok Hsub s n o sv Hs Hc. apply (Hok s n o sv (Hsub s Hs) Hc). Qed.

Lemma add_statement_ok t n cs d a t' code :
  refs_ok t -> add_statement t n cs d a = (t', code) -> refs_ok t'.
Proof.
  intros (Hk & Hs & Hst & Hi & He) H. unfold add_statement in H.
  destruct (resolve_conds t cs) as [v|] eqn:R; [|inversion H; subst; repeat split; assumption].
  pose proof (resolve_conds_ok t cs v Hk R) as Hv.
  destruct (lookup_stmt n (t_stmts t)) as [old|] eqn:L.
  - destruct (stmt_in_use (t_pols t) n) eqn:U; [inversion H; subst; repeat split; assumption|].
    destruct (merge_conds (st_conds old) v) as [conds|] eqn:M; [|inversion H; subst; repeat split; assumption].
    destruct (merge_opt (st_disp old) d) as [dd|]; [|inversion H; subst; repeat split; assumption].
    destruct (merge_actions (st_act old) a) as [aa|]; [|inversion H; subst; repeat split; assumption].
    inversion H; subst; clear H. repeat split; try assumption; cbn [with_stmts t_sets t_stmts t_pols].
    + apply sets_ok_put_stmt; [assumption|]. cbn [st_conds]. intros n0 o sv Hin.
      destruct (merge_conds_in v _ _ _ M Hin) as [Ho|Hn].
      * apply lookup_stmt_name in L. destruct L as [_ Lin]. apply (Hs old n0 o sv Lin Ho).
      * apply (Hv n0 o sv Hn).
    + apply stmts_ok_put; [assumption|exact U].
  - pose proof (absent_stmt_not_in_use _ _ n Hst L) as U.
    inversion H; subst; clear H. repeat split; try assumption; cbn [with_stmts t_sets t_stmts t_pols].
    + apply sets_ok_put_stmt; [assumption|]. cbn [st_conds]. exact Hv.
    + apply stmts_ok_put; [assumption|exact U].
Qed.

Lemma delete_statement_ok t n all cs d a t' code :
  refs_ok t -> delete_statement t n all cs d a = (t', code) -> refs_ok t'.
Proof.
  intros (Hk & Hs & Hst & Hi & He) H. unfold delete_statement in H.
  destruct (stmt_in_use (t_pols t) n) eqn:U; [inversion H; subst; repeat split; assumption|].
  destruct (lookup_stmt n (t_stmts t)) as [old|] eqn:L; [|inversion H; subst; repeat split; assumption].
  destruct all.
  - inversion H; subst; clear H. repeat split; try assumption; cbn [with_stmts t_sets t_stmts t_pols].
    + apply (sets_ok_sub _ (t_stmts t)); [assumption|]. intros s Hin. apply in_remove_stmt in Hin. tauto.
    + apply stmts_ok_remove; assumption.
  - destruct (remove_kinds (map ccfg_kind cs) (st_conds old)) as [conds|] eqn:M; [|inversion H; subst; repeat split; assumption].
    destruct (unset_opt (st_disp old) d) as [dd|]; [|inversion H; subst; repeat split; assumption].
    destruct (unset_actions (st_act old) a) as [aa|]; [|inversion H; subst; repeat split; assumption].
    inversion H; subst; clear H. repeat split; try assumption; cbn [with_stmts t_sets t_stmts t_pols].
    + apply sets_ok_put_stmt; [assumption|]. cbn [st_conds]. intros n0 o sv Hin.
      apply lookup_stmt_name in L. destruct L as [_ Lin].
      apply (Hs old n0 o sv Lin). apply (remove_kinds_in _ _ _ _ M Hin).
    + apply stmts_ok_put; [assumption|exact U].
Qed.

(* ------------------------------------------------------------------ *)
(* policies                                                             *)

Lemma parse_all_in {A B} (f : A -> option B) : forall l v b,
  parse_all f l = Some v -> In b v -> exists a, In a l /\ f a = Some b.
Proof.
  induction l as [|a l IH]; intros v b H Hin; cbn [parse_all] in H.
  - inversion H; subst. destruct Hin.
  - destruct (f a) as [b0|] eqn:F; [|discriminate]. destruct (parse_all f l) as [bs|]; [|discriminate].
    inversion H; subst. destruct Hin as [<-|Hin].
    + exists a. split; [left; reflexivity|exact F].
    + destruct (IH bs b eq_refl Hin) as (a' & Ha & Fa). exists a'. split; [right; exact Ha|exact Fa].
Qed.

Lemma resolve_stmts_ok t l v s :
  resolve_stmts t l = Some v -> In s v -> lookup_stmt (st_name s) (t_stmts t) = Some s.
Proof.
  intros H Hin. destruct (parse_all_in _ l v s H Hin) as (n & _ & L).
  pose proof (lookup_stmt_name _ _ _ L) as [E _]. rewrite E. exact L.
Qed.

Lemma asg_ok_put pols a x :
  asg_ok pols a -> asg_has a (p_name x) = false -> asg_ok (put_pol x pols) a.
Proof.
  intros Hok Hu y p Ea Hp. rewrite lookup_put_pol. rewrite (asg_not_has a _ y p Hu Ea Hp).
  apply (Hok y p Ea Hp).
Qed.

Lemma asg_ok_remove pols a n :
  asg_ok pols a -> asg_has a n = false -> asg_ok (remove_pol n pols) a.
Proof.
  intros Hok Hu y p Ea Hp. rewrite lookup_remove_pol. rewrite (asg_not_has a _ y p Hu Ea Hp).
  apply (Hok y p Ea Hp).
Qed.

Lemma add_policy_ok t n ss t' code :
  refs_ok t -> add_policy t n ss = (t', code) -> refs_ok t'.
Proof.
  intros (Hk & Hs & Hst & Hi & He) H. unfold add_policy in H.
  destruct (resolve_stmts t ss) as [v|] eqn:R; [|inversion H; subst; repeat split; assumption].
  destruct (lookup_pol n (t_pols t)) as [old|] eqn:L.
  - destruct (pol_in_use t n) eqn:U; [inversion H; subst; repeat split; assumption|].
    unfold pol_in_use in U. apply orb_false_iff in U. destruct U as [U1 U2].
    inversion H; subst; clear H. repeat split; try assumption; cbn [with_pols t_sets t_stmts t_pols t_imp t_exp].
    + intros p s Hp Hin. apply in_put_pol in Hp. destruct Hp as [->|[Hp _]].
      * cbn [p_stmts] in Hin. apply in_app_iff in Hin. destruct Hin as [Hin|Hin].
        { apply lookup_pol_name in L. destruct L as [_ Lin]. apply (Hst old s Lin Hin). }
        { apply (resolve_stmts_ok t ss v s R Hin). }
      * apply (Hst p s Hp Hin).
    + apply asg_ok_put; assumption.
    + apply asg_ok_put; assumption.
  - pose proof (absent_pol_not_in_use t n Hi He L) as U.
    unfold pol_in_use in U. apply orb_false_iff in U. destruct U as [U1 U2].
    inversion H; subst; clear H. repeat split; try assumption; cbn [with_pols t_sets t_stmts t_pols t_imp t_exp].
    + intros p s Hp Hin. apply in_put_pol in Hp. destruct Hp as [->|[Hp _]].
      * cbn [p_stmts] in Hin. apply (resolve_stmts_ok t ss v s R Hin).
      * apply (Hst p s Hp Hin).
    + apply asg_ok_put; assumption.
    + apply asg_ok_put; assumption.
Qed.

(* drop_unused only removes statements no policy of [pols] lists *)
Lemma drop_unused_sub pols : forall cands ss s, In s (drop_unused pols cands ss) -> In s ss.
Proof.
  induction cands as [|c cands IH]; intros ss s H; cbn [drop_unused] in H; [exact H|].
  apply IH in H. destruct (stmt_in_use pols (st_name c)); [exact H|]. apply in_remove_stmt in H. tauto.
Qed.

Lemma drop_unused_lookup pols : forall cands ss n,
  stmt_in_use pols n = true -> lookup_stmt n (drop_unused pols cands ss) = lookup_stmt n ss.
Proof.
  induction cands as [|c cands IH]; intros ss n Hu; cbn [drop_unused]; [reflexivity|].
  rewrite (IH _ n Hu). destruct (stmt_in_use pols (st_name c)) eqn:E; [reflexivity|].
  rewrite lookup_remove_stmt. destruct (n =? st_name c) eqn:B; [|reflexivity].
  apply N.eqb_eq in B. subst. congruence.
Qed.

Lemma in_use_of_member pols p s : In p pols -> In s (p_stmts p) -> stmt_in_use pols (st_name s) = true.
Proof.
  intros Hp Hs. unfold stmt_in_use. apply existsb_exists. exists p. split; [exact Hp|].
  apply existsb_exists. exists s. split; [exact Hs|apply N.eqb_refl].
Qed.

Lemma stmts_ok_drop stmts pols cands :
  stmts_ok stmts pols -> stmts_ok (drop_unused pols cands stmts) pols.
Proof.
  intros Hok p s Hp Hs. rewrite drop_unused_lookup; [apply (Hok p s Hp Hs)|].
  apply (in_use_of_member pols p s Hp Hs).
Qed.

Lemma delete_policy_ok t n pr all ss t' code :
  refs_ok t -> delete_policy t n pr all ss = (t', code) -> refs_ok t'.
Proof.
  intros (Hk & Hs & Hst & Hi & He) H. unfold delete_policy in H.
  destruct (pol_in_use t n) eqn:U; [inversion H; subst; repeat split; assumption|].
  unfold pol_in_use in U. apply orb_false_iff in U. destruct U as [U1 U2].
  destruct (lookup_pol n (t_pols t)) as [old|] eqn:L; [|inversion H; subst; repeat split; assumption].
  pose proof (lookup_pol_name _ _ _ L) as [Ename Lin].
  assert (Hrem : stmts_ok (t_stmts t) (remove_pol n (t_pols t))).
  { intros p s Hp Hin. apply in_remove_pol in Hp. apply (Hst p s (proj1 Hp) Hin). }
  destruct all.
  - inversion H; subst; clear H. repeat split; try assumption; cbn [with_pols_stmts t_sets t_stmts t_pols t_imp t_exp].
    + destruct pr; [assumption|]. apply (sets_ok_sub _ (t_stmts t)); [assumption|]. apply drop_unused_sub.
    + destruct pr; [assumption|]. apply stmts_ok_drop; assumption.
    + apply asg_ok_remove; assumption.
    + apply asg_ok_remove; assumption.
  - set (named := fun s => existsb (N.eqb (st_name s)) ss) in *.
    set (newp := {| p_name := n; p_stmts := filter (fun s => negb (named s)) (p_stmts old) |}) in *.
    assert (Hput : stmts_ok (t_stmts t) (put_pol newp (t_pols t))).
    { intros p s Hp Hin. apply in_put_pol in Hp. destruct Hp as [->|[Hp _]].
      - cbn [p_stmts] in Hin. apply filter_In in Hin. apply (Hst old s Lin (proj1 Hin)).
      - apply (Hst p s Hp Hin). }
    inversion H; subst; clear H. repeat split; try assumption; cbn [with_pols_stmts t_sets t_stmts t_pols t_imp t_exp].
    + destruct pr; [assumption|]. apply (sets_ok_sub _ (t_stmts t)); [assumption|]. apply drop_unused_sub.
    + destruct pr; [assumption|]. apply stmts_ok_drop; assumption.
    + apply asg_ok_put; assumption.
    + apply asg_ok_put; assumption.
Qed.

(* ------------------------------------------------------------------ *)
(* assignments                                                          *)

Lemma build_assignment_ok t ex im d names a :
  asg_ok (t_pols t) ex -> build_assignment t ex im d names = Some a -> asg_ok (t_pols t) (Some a).
Proof.
  intros Hex H. unfold build_assignment in H.
  destruct (parse_all (fun n => lookup_pol n (t_pols t)) names) as [v|] eqn:R; [|discriminate].
  assert (Hv : forall p, In p v -> lookup_pol (p_name p) (t_pols t) = Some p).
  { intros p Hin. destruct (parse_all_in _ names v p R Hin) as (n & _ & L).
    pose proof (lookup_pol_name _ _ _ L) as [E _]. rewrite E. exact L. }
  destruct (im && existsb sets_nexthop v); [discriminate|].
  destruct ex as [old|].
  - destruct (existsb (fun p0 => existsb (fun p1 => p_name p0 =? p_name p1) v) (as_pols old)); [discriminate|].
    inversion H; subst. intros x p Ex Hp. inversion Ex; subst. cbn [as_pols] in Hp.
    apply in_app_iff in Hp. destruct Hp as [Hp|Hp]; [apply Hv; exact Hp|apply (Hex old p eq_refl Hp)].
  - inversion H; subst. intros x p Ex Hp. inversion Ex; subst. apply Hv; exact Hp.
Qed.

Lemma asg_ok_none pols : asg_ok pols None.
Proof. intros x p E. discriminate. Qed.

Lemma add_assignment_ok t st im d names t' code :
  refs_ok t -> add_assignment t st im d names = (t', code) -> refs_ok t'.
Proof.
  intros (Hk & Hs & Hst & Hi & He) H. unfold add_assignment in H.
  destruct (build_assignment t (if st then None else slot t im) im d names) as [a|] eqn:B;
    [|inversion H; subst; repeat split; assumption].
  assert (Ha : asg_ok (t_pols t) (Some a)).
  { apply (build_assignment_ok t (if st then None else slot t im) im d names a); [|exact B].
    destruct st; [apply asg_ok_none|]. unfold slot. destruct im; assumption. }
  inversion H; subst; clear H. unfold with_asg. destruct im; repeat split; assumption.
Qed.

Lemma delete_assignment_ok t im names all t' code :
  refs_ok t -> delete_assignment t im names all = (t', code) -> refs_ok t'.
Proof.
  intros (Hk & Hs & Hst & Hi & He) H. unfold delete_assignment in H.
  destruct all.
  - inversion H; subst; clear H. unfold with_asg. destruct im; repeat split; try assumption; apply asg_ok_none.
  - destruct (slot t im) as [old|] eqn:S; [|inversion H; subst; repeat split; assumption].
    assert (Ha : asg_ok (t_pols t)
                   (Some (without_policies old names))).
    { intros x p Ex Hp. inversion Ex; subst. cbn [as_pols] in Hp. apply filter_In in Hp.
      unfold slot in S. destruct im; [apply (Hi old p S (proj1 Hp))|apply (He old p S (proj1 Hp))]. }
    inversion H; subst; clear H. unfold with_asg. destruct im; repeat split; assumption.
Qed.

(* ------------------------------------------------------------------ *)
(* every call, every history                                            *)

Theorem crud_step_preserves t o t' code :
  refs_ok t -> crud_step t o = Ok (t', code) -> refs_ok t'.
Proof.
  intros Hok H. destruct o; cbn [crud_step lift] in H.
  - destruct replace.
    + eapply replace_defined_set_ok; eauto.
    + eapply add_defined_set_ok; eauto.
  - inversion H. eapply delete_defined_set_ok; eauto.
  - inversion H. eapply add_statement_ok; eauto.
  - inversion H. eapply delete_statement_ok; eauto.
  - inversion H. eapply add_policy_ok; eauto.
  - inversion H. eapply delete_policy_ok; eauto.
  - inversion H. eapply add_assignment_ok; eauto.
  - inversion H. eapply delete_assignment_ok; eauto.
  - inversion H; subst. exact Hok.
  - inversion H; subst. exact Hok.
  - inversion H; subst. exact Hok.
  - inversion H; subst. exact Hok.
Qed.

Lemma refs_ok_empty : refs_ok empty_table.
Proof.
  repeat split.
  - intros k n sv L. discriminate.
  - intros s n o sv [].
  - intros p s [].
  - apply asg_ok_none.
  - apply asg_ok_none.
Qed.

(* the table reached by a history of calls (a panicking call ends the history,
   as it ends the process) *)
Fixpoint run_history (t : table) (l : list op) : table :=
  match l with
  | [] => t
  | o :: r => match crud_step t o with
              | Ok (t', _) => run_history t' r
              | Panic _ => t
              end
  end.

Theorem history_refs_ok l : forall t, refs_ok t -> refs_ok (run_history t l).
Proof.
  induction l as [|o l IH]; intros t Hok; cbn [run_history]; [exact Hok|].
  destruct (crud_step t o) as [[t' c]|tag] eqn:E; [|exact Hok].
  apply IH. apply (crud_step_preserves t o t' c Hok E).
Qed.

(* A user that survives a call sees, after the call, exactly the object it saw
   before: the table's entry for every set a surviving statement references,
   every statement a surviving policy lists, every policy a surviving
   assignment lists, is unchanged (and equal to the user's own copy). *)
Theorem referenced_frozen t o t' code :
  refs_ok t -> crud_step t o = Ok (t', code) ->
  (forall s n op sv, In s (t_stmts t) -> In s (t_stmts t') -> In (CSet n op sv) (st_conds s) ->
      lookup_set (set_kind sv) n (t_sets t') = lookup_set (set_kind sv) n (t_sets t)
      /\ lookup_set (set_kind sv) n (t_sets t') = Some sv) /\
  (forall p s, In p (t_pols t) -> In p (t_pols t') -> In s (p_stmts p) ->
      lookup_stmt (st_name s) (t_stmts t') = lookup_stmt (st_name s) (t_stmts t)
      /\ lookup_stmt (st_name s) (t_stmts t') = Some s) /\
  (forall a p, (t_imp t = Some a /\ t_imp t' = Some a) \/ (t_exp t = Some a /\ t_exp t' = Some a) ->
      In p (as_pols a) ->
      lookup_pol (p_name p) (t_pols t') = lookup_pol (p_name p) (t_pols t)
      /\ lookup_pol (p_name p) (t_pols t') = Some p).
Proof.
  intros Hok H. pose proof (crud_step_preserves t o t' code Hok H) as Hok'.
  destruct Hok as (_ & Hs & Hst & Hi & He). destruct Hok' as (_ & Hs' & Hst' & Hi' & He').
  repeat split.
  - rewrite (Hs s n op sv H0 H2), (Hs' s n op sv H1 H2). reflexivity.
  - apply (Hs' s n op sv H1 H2).
  - rewrite (Hst p s H0 H2), (Hst' p s H1 H2). reflexivity.
  - apply (Hst' p s H1 H2).
  - destruct H0 as [[E E']|[E E']].
    + rewrite (Hi a p E H1), (Hi' a p E' H1). reflexivity.
    + rewrite (He a p E H1), (He' a p E' H1). reflexivity.
  - destruct H0 as [[E E']|[E E']]; [apply (Hi' a p E' H1)|apply (He' a p E' H1)].
Qed.

(* ------------------------------------------------------------------ *)
(* non-vacuity: a history that builds a live chain set -> statement ->
   policy -> assignment; every attempt to delete, replace or merge a link is
   refused with StillInUse and leaves the table as it was                  *)

Definition ex_no_act : actions :=
  {| ac_nexthop := None; ac_comm := None; ac_local_pref := None; ac_med := None;
     ac_prepend := None; ac_ext := None; ac_large := None; ac_origin := None |}.
Definition ex_build : list op :=
  [OAddSet false 1 (CfgPrefix [Pfx false 167772160 8 8 32; Pfx false 167837696 16 16 16]);
   OAddStmt 1 [KSet 0 1 MAny] (Some DReject) ex_no_act;
   OAddPol 1 [1];
   OAddAsg false false DAccept [1]].
Definition ex_table : table := run_history empty_table ex_build.

Example ex_table_live :
  refs_ok ex_table /\ length (t_sets ex_table) = 1%nat /\ length (t_stmts ex_table) = 1%nat /\
  length (t_pols ex_table) = 1%nat /\ t_exp ex_table <> None.
Proof.
  split; [apply history_refs_ok, refs_ok_empty|]. vm_compute. repeat split; congruence.
Qed.

Example ex_attacks_refused :
  forall o, In o [ODelSet true 1 (CfgPrefix []); OAddSet true 1 (CfgPrefix [Pfx false 0 0 0 32]);
                  OAddSet false 1 (CfgPrefix [Pfx false 0 0 0 32]);
                  ODelStmt 1 true [] None ex_no_act; OAddStmt 1 [] None ex_no_act;
                  ODelPol 1 false true []; OAddPol 1 [1]] ->
            crud_step ex_table o = Ok (ex_table, INUSE).
Proof.
  intros o Hin. repeat (destruct Hin as [<-|Hin]; [vm_compute; reflexivity|]). destruct Hin.
Qed.

Lemma C14_crud_preserves_references :
  (forall t o t' code, refs_ok t -> crud_step t o = Ok (t', code) -> refs_ok t') /\
  (forall l, refs_ok (run_history empty_table l)).
Proof. split; [exact crud_step_preserves|]. intros l. apply history_refs_ok, refs_ok_empty. Qed.
