(* Proofs for property C12 (RPKI origin validation = RFC 6811; the VRP table
   is a set keyed by (cache, prefix, max-length, AS)). *)
From Coq Require Import List NArith Bool Lia ZifyBool ZifyNat ZifyN Permutation.
From RB Require Import Base.Val Model.Rpki Model.RpkiPre Spec.Rfc6811.
Import ListNotations.
Open Scope N_scope.

(* ---- abstraction: from the model's table / route to the Spec's VRPs / route *)
Definition key_addr (k : key) : list N := removelast k.
Definition key_mask (k : key) : N := last k 0.

Definition vrp_of (k : key) (r : roa) : vrp :=
  {| vp_bits := prefix_bits (key_addr k) (key_mask k); vp_max := r_max r; vp_as := r_as r |}.

Definition vrps_of (m : trie) : list vrp :=
  flat_map (fun ke => map (vrp_of (fst ke)) (snd ke)) m.

Definition route_of (n : net) (origin : option N) : route :=
  {| rt_bits := prefix_bits (n_addr n) (n_mask n); rt_origin := origin |}.

Definition state_of (s : vstate) : state :=
  match s with NotFound => SNotFound | Valid => SValid | Invalid => SInvalid end.

Definition n4 (a b c d m : N) : net := {| n_fam := F4; n_addr := [a; b; c; d]; n_mask := m |}.
Definition seq_path (l : list N) : list (N * list N) :=
  [(2, 2 :: N.of_nat (length l) :: flat_map (fun a => [a / 16777216 mod 256; a / 65536 mod 256; a / 256 mod 256; a mod 256]) l)].

(* Before the fix: a covering VRP with a shorter prefix is not found ... *)
Lemma C12_validate_pre_refuted_covering :
  exists (t : rtab) (n : net) (attrs : list (N * list N)) (res : vres),
    validate_pre t 65000 n attrs = POk (Some res)
    /\ v_state res = NotFound
    /\ rfc6811 (vrps_of (sel (n_fam n) t)) (route_of n (Some 65001)) = SValid.
Proof.
  exists (insert (n4 10 0 0 0 8) (mk_roa 0 24 65001) rtab_new), (n4 10 1 0 0 16), (seq_path [65002; 65001]).
  eexists. split; [vm_compute; reflexivity|]. split; vm_compute; reflexivity.
Qed.

(* ... and a VRP for a more-specific prefix decides the state of a route it does not cover. *)
Lemma C12_validate_pre_refuted_more_specific :
  exists (t : rtab) (n : net) (attrs : list (N * list N)) (res : vres),
    validate_pre t 65000 n attrs = POk (Some res)
    /\ v_state res = Valid
    /\ rfc6811 (vrps_of (sel (n_fam n) t)) (route_of n (Some 65001)) = SNotFound.
Proof.
  exists (insert (n4 10 1 2 0 24) (mk_roa 0 24 65001) rtab_new), (n4 10 1 0 0 16), (seq_path [65001]).
  eexists. split; [vm_compute; reflexivity|]. split; vm_compute; reflexivity.
Qed.
