(* Proofs for property C12 (RPKI origin validation = RFC 6811; the VRP table
   is a set keyed by (cache, prefix, max-length, AS)). *)
From Coq Require Import List Arith NArith Bool Lia ZifyBool ZifyNat ZifyN Permutation.
From RB Require Import Base.Val Model.Rpki Model.RpkiPre Spec.Rfc6811 Proofs.RpkiBits Proofs.RpkiTrie Proofs.RpkiOrigin.
Import ListNotations.
Open Scope N_scope.

(* ---- abstraction: from the model's table / route to the Spec's VRPs / route *)
Definition key_addr (k : key) : list N := removelast k.
Definition key_mask (k : key) : N := last k 0.

Definition vrp_of (k : key) (r : roa) : vrp :=
  {| vp_bits := prefix_bits (key_addr k) (key_mask k); vp_max := r_max r; vp_as := r_as r |}.

Definition vrps_of (m : trie) : list vrp :=
  flat_map (fun ke => map (vrp_of (fst ke)) (snd ke)) m.

Definition route_of (n : net) (origin : option N) : route :=
  {| rt_bits := prefix_bits (n_addr n) (n_mask n); rt_origin := origin |}.

Definition state_of (s : vstate) : state :=
  match s with NotFound => SNotFound | Valid => SValid | Invalid => SInvalid end.

Definition n4 (a b c d m : N) : net := {| n_fam := F4; n_addr := [a; b; c; d]; n_mask := m |}.
Definition seq_path (l : list N) : list (N * list N) :=
  [(2, 2 :: N.of_nat (length l) :: flat_map (fun a => [a / 16777216 mod 256; a / 65536 mod 256; a / 256 mod 256; a mod 256]) l)].

(* Before the fix: a covering VRP with a shorter prefix is not found ... *)
Lemma C12_validate_pre_refuted_covering :
  exists (t : rtab) (n : net) (attrs : list (N * list N)) (res : vres),
    validate_pre t 65000 n attrs = POk (Some res)
    /\ v_state res = NotFound
    /\ rfc6811 (vrps_of (sel (n_fam n) t)) (route_of n (Some 65001)) = SValid.
Proof.
  exists (insert (n4 10 0 0 0 8) (mk_roa 0 24 65001) rtab_new), (n4 10 1 0 0 16), (seq_path [65002; 65001]).
  eexists. split; [vm_compute; reflexivity|]. split; vm_compute; reflexivity.
Qed.

(* ... and a VRP for a more-specific prefix decides the state of a route it does not cover. *)
Lemma C12_validate_pre_refuted_more_specific :
  exists (t : rtab) (n : net) (attrs : list (N * list N)) (res : vres),
    validate_pre t 65000 n attrs = POk (Some res)
    /\ v_state res = Valid
    /\ rfc6811 (vrps_of (sel (n_fam n) t)) (route_of n (Some 65001)) = SNotFound.
Proof.
  exists (insert (n4 10 1 2 0 24) (mk_roa 0 24 65001) rtab_new), (n4 10 1 0 0 16), (seq_path [65001]).
  eexists. split; [vm_compute; reflexivity|]. split; vm_compute; reflexivity.
Qed.

(* ======================================================================= *)
(* Spec: the computable definitions say what the propositional ones say     *)

Lemma bits_prefix_spec : forall p l, bits_prefix p l = true <-> exists rest, l = p ++ rest.
Proof.
  induction p as [|x p IH]; intros l; cbn.
  - split; [intros _; exists l; reflexivity|reflexivity].
  - destruct l as [|y l].
    + split; [discriminate|intros [rest H]; discriminate].
    + rewrite andb_true_iff, IH. split.
      * intros [H1 [rest H2]]. apply eqb_prop in H1. subst. exists rest. reflexivity.
      * intros [rest H]. inversion H; subst. split; [apply eqb_reflx|exists rest; reflexivity].
Qed.

Lemma covers_iff : forall v r, covers v r = true <-> Covers v r.
Proof. intros v r. unfold covers, Covers. apply bits_prefix_spec. Qed.

Lemma matches_iff : forall v r, matches v r = true <-> Matches v r.
Proof.
  intros v r. unfold matches, Matches. rewrite !andb_true_iff, covers_iff, N.leb_le.
  destruct (rt_origin r) as [a|].
  - rewrite andb_true_iff, negb_true_iff, N.eqb_eq, N.eqb_neq. split.
    + intros [[H1 H2] [H3 H4]]. subst. tauto.
    + intros [H1 [H2 [H3 H4]]]. inversion H3; subst. tauto.
  - split; [intros [_ H]; discriminate|intros [_ [_ [H _]]]; discriminate].
Qed.

Lemma rfc6811_correct : forall vs r s, rfc6811 vs r = s <-> StateIs vs r s.
Proof.
  intros vs r s. unfold rfc6811.
  assert (HM : existsb (fun v => matches v r) vs = true <-> exists v, In v vs /\ Matches v r).
  { rewrite existsb_exists. split; intros [v [H1 H2]]; exists v; (split; [exact H1|apply matches_iff; exact H2]). }
  assert (HC : existsb (fun v => covers v r) vs = true <-> exists v, In v vs /\ Covers v r).
  { rewrite existsb_exists. split; intros [v [H1 H2]]; exists v; (split; [exact H1|apply covers_iff; exact H2]). }
  assert (MC : (exists v, In v vs /\ Matches v r) -> exists v, In v vs /\ Covers v r).
  { intros [v [H1 [H2 _]]]. exists v. split; assumption. }
  destruct (existsb (fun v => matches v r) vs) eqn:EM; [|destruct (existsb (fun v => covers v r) vs) eqn:EC].
  - assert (M : exists v, In v vs /\ Matches v r) by (apply HM; reflexivity).
    destruct s; cbn; split; intro H; try discriminate; try reflexivity; try exact M.
    + exfalso. apply H. apply MC. exact M.
    + exfalso. destruct H as [_ H]. apply H. exact M.
  - assert (C : exists v, In v vs /\ Covers v r) by (apply HC; reflexivity).
    assert (NM : ~ exists v, In v vs /\ Matches v r) by (intro H; apply HM in H; discriminate).
    destruct s; cbn; split; intro H; try discriminate; try reflexivity; try (split; assumption).
    + exfalso. apply H. exact C.
    + exfalso. apply NM. exact H.
  - assert (NC : ~ exists v, In v vs /\ Covers v r) by (intro H; apply HC in H; discriminate).
    destruct s; cbn; split; intro H; try discriminate; try reflexivity; try exact NC.
    + exfalso. apply NC. apply MC. exact H.
    + exfalso. destruct H as [H _]. apply NC. exact H.
Qed.

(* ======================================================================= *)
(* Well-formedness of inputs and the invariants they establish             *)

Definition fam_len (f : fam) : nat := match f with F4 => 4 | F6 => 16 end.

(* an IpNet / Nlri value: the octets of its family, a mask within the address width *)
Definition net_ok (n : net) : Prop :=
  length (n_addr n) = fam_len (n_fam n) /\ wf_bytes (n_addr n)
  /\ n_mask n <= 8 * N.of_nat (fam_len (n_fam n)).

(* HYPOTHESIS of the validation theorems: a VRP prefix has zero host bits *)
Definition canonical (n : net) : Prop := mask_bytes (n_addr n) (n_mask n) = n_addr n.

Definition vrp_ok (n : net) : Prop := net_ok n /\ canonical n.

Definition key_ok (f : fam) (k : key) : Prop :=
  exists a mk, k = a ++ [mk] /\ length a = fam_len f /\ wf_bytes a
               /\ mk <= 8 * N.of_nat (fam_len f) /\ mask_bytes a mk = a.

Lemma key_of_ok : forall n, vrp_ok n -> key_ok (n_fam n) (key_of n).
Proof.
  intros n [[H1 [H2 H3]] H4]. exists (n_addr n), (n_mask n). unfold key_of. repeat split; assumption.
Qed.

Definition wf_tab (t : rtab) : Prop := wf_trie (t4 t) /\ wf_trie (t6 t).

Definition keys_ok (t : rtab) : Prop := forall f k r, mem (sel f t) k r -> key_ok f k.

Definition op_ok (o : op) : Prop :=
  match o with
  | OInsert _ n _ _ => vrp_ok n
  | OReset _ l => Forall (fun x => vrp_ok (fst (fst x))) l
  | _ => True
  end.

Lemma wf_sel : forall f t, wf_tab t -> wf_trie (sel f t).
Proof. intros [] t [H4 H6]; assumption. Qed.

Lemma sel_upd_same : forall f m t, sel f (upd f m t) = m.
Proof. intros [] m t; reflexivity. Qed.

Lemma sel_upd_other : forall f f' m t, f <> f' -> sel f' (upd f m t) = sel f' t.
Proof. intros [] [] m t H; try reflexivity; contradiction. Qed.

Lemma fam_eq_dec : forall a b : fam, {a = b} + {a <> b}.
Proof. decide equality. Qed.

Lemma wf_upd : forall f m t, wf_tab t -> wf_trie m -> wf_tab (upd f m t).
Proof. intros [] m t [H4 H6] Hm; split; cbn; assumption. Qed.

(* ======================================================================= *)
(* The table is a set keyed by (cache, prefix, max-length, AS)              *)

Definition elt : Type := fam * key * roa.
Definition cache_of (x : elt) : N := r_src (snd x).
Definition tmem (t : rtab) (x : elt) : Prop := mem (sel (fst (fst x)) t) (snd (fst x)) (snd x).

Definition elt_of (s : N) (x : net * N * N) : elt :=
  (n_fam (fst (fst x)), key_of (fst (fst x)), mk_roa s (snd (fst x)) (snd x)).

Definition sop_of (o : op) : option (sop (K := elt)) :=
  match o with
  | OInsert s n mx asn => Some (SAdd (elt_of s (n, mx, asn)))
  | ORemove s n mx asn => Some (SDel (elt_of s (n, mx, asn)))
  | ODrop s => Some (SDropCache s)
  | OReset s l => Some (SReset s (map (elt_of s) l))
  | OValidate _ _ _ | OValidateOther _ _ _ _ | OIter => None
  end.

Lemma insert_spec : forall n r t x,
  tmem (insert n r t) x <-> x = (n_fam n, key_of n, r) \/ tmem t x.
Proof.
  intros n r t [[f k] r']. unfold tmem, insert. cbn [fst snd].
  destruct (fam_eq_dec (n_fam n) f) as [E|E].
  - subst f. rewrite sel_upd_same, trie_insert_spec. split.
    + intros [[? ?]|H]; [left; congruence|right; exact H].
    + intros [H|H]; [left; inversion H; split; reflexivity|right; exact H].
  - rewrite sel_upd_other by exact E. split; [intro H; right; exact H|].
    intros [H|H]; [inversion H; congruence|exact H].
Qed.

Lemma insert_wf : forall n r t, wf_tab t -> wf_tab (insert n r t).
Proof. intros n r t W. unfold insert. apply wf_upd; [exact W|]. apply trie_insert_wf. apply wf_sel. exact W. Qed.

Lemma remove_spec : forall n r t x, wf_tab t ->
  (tmem (remove n r t) x <-> x <> (n_fam n, key_of n, r) /\ tmem t x).
Proof.
  intros n r t [[f k] r'] W. unfold tmem, remove. cbn [fst snd].
  destruct (fam_eq_dec (n_fam n) f) as [E|E].
  - subst f. rewrite sel_upd_same, trie_remove_spec by (apply (wf_sel _ _ W)). split.
    + intros [H1 H2]. split; [intro H; injection H as Hk Hr; apply H1; split; assumption|exact H2].
    + intros [H1 H2]. split; [intros [? ?]; apply H1; congruence|exact H2].
  - rewrite sel_upd_other by exact E. split; [intro H; split; [intro H'; inversion H'; congruence|exact H]|tauto].
Qed.

Lemma remove_wf : forall n r t, wf_tab t -> wf_tab (remove n r t).
Proof. intros n r t W. unfold remove. apply wf_upd; [exact W|]. apply trie_remove_wf. apply wf_sel. exact W. Qed.

Lemma drop_spec : forall s t x, wf_tab t -> (tmem (drop_source s t) x <-> cache_of x <> s /\ tmem t x).
Proof.
  intros s t [[f k] r] [W4 W6]. unfold tmem, drop_source, cache_of. cbn [fst snd].
  destruct f; cbn [sel t4 t6]; apply trie_drop_spec; [apply W4|apply W6].
Qed.

Lemma drop_wf : forall s t, wf_tab t -> wf_tab (drop_source s t).
Proof. intros s t [W4 W6]. split; cbn; apply trie_drop_wf; assumption. Qed.

Lemma fold_insert_spec : forall (l : list (net * roa)) t x,
  tmem (fold_left (fun t nr => insert (fst nr) (snd nr) t) l t) x
  <-> In x (map (fun nr => (n_fam (fst nr), key_of (fst nr), snd nr)) l) \/ tmem t x.
Proof.
  induction l as [|[n r] l IH]; intros t x; cbn [fold_left map In fst snd].
  - tauto.
  - rewrite IH, insert_spec. split; [intros [H|[H|H]]|intros [[H|H]|H]]; auto.
Qed.

Lemma fold_insert_wf : forall (l : list (net * roa)) t, wf_tab t ->
  wf_tab (fold_left (fun t nr => insert (fst nr) (snd nr) t) l t).
Proof. induction l as [|[n r] l IH]; intros t W; [exact W|]. cbn. apply IH. apply insert_wf. exact W. Qed.

(* C12, second sentence: every mutating operation acts on the installed VRPs as the
   corresponding operation on a set keyed by (cache, prefix, max-length, AS), and
   keeps the representation invariant (no duplicate keys, no duplicate or empty entries) *)
Theorem C12_vrp_table_refines_set : forall (t : rtab) (o : op),
  wf_tab t ->
  wf_tab (apply_op o t)
  /\ match sop_of o with
     | Some so => forall x, tmem (apply_op o t) x <-> after cache_of so (tmem t) x
     | None => apply_op o t = t
     end.
Proof.
  intros t o W. destruct o as [s n mx asn|s n mx asn|s|s l|n la attrs|kd n la attrs|]; cbn [apply_op sop_of].
  - split; [apply insert_wf; exact W|]. intro x. cbn [after]. apply insert_spec.
  - split; [apply remove_wf; exact W|]. intro x. cbn [after]. apply remove_spec. exact W.
  - split; [apply drop_wf; exact W|]. intro x. cbn [after]. apply drop_spec. exact W.
  - split; [apply fold_insert_wf, drop_wf; exact W|]. intro x. cbn [after]. unfold reset.
    rewrite fold_insert_spec, drop_spec by exact W. rewrite map_map. cbn [fst snd]. reflexivity.
  - split; [exact W|reflexivity].
  - split; [exact W|reflexivity].
  - split; [exact W|reflexivity].
Qed.

(* the same over whole histories, from the empty table *)
Fixpoint set_after (ops : list op) (before : elt -> Prop) : elt -> Prop :=
  match ops with
  | [] => before
  | o :: rest =>
      set_after rest (match sop_of o with Some so => after cache_of so before | None => before end)
  end.

Lemma wf_new : wf_tab rtab_new.
Proof. split; (split; [constructor|constructor]). Qed.

Lemma set_after_ext : forall ops P Q, (forall x, P x <-> Q x) -> forall x, set_after ops P x <-> set_after ops Q x.
Proof.
  induction ops as [|o ops IH]; intros P Q H x; [apply H|]. cbn. apply IH. intro y.
  destruct (sop_of o) as [[k|k|c|c ks]|]; cbn; rewrite ?H; tauto.
Qed.

Lemma run_ops_set : forall ops t, wf_tab t ->
  wf_tab (run_ops ops t) /\ forall x, tmem (run_ops ops t) x <-> set_after ops (tmem t) x.
Proof.
  induction ops as [|o ops IH]; intros t W; [split; [exact W|tauto]|].
  destruct (C12_vrp_table_refines_set t o W) as [W' S]. unfold run_ops in *. cbn [fold_left].
  destruct (IH (apply_op o t) W') as [W'' S'']. split; [exact W''|]. intro x. rewrite S''. cbn [set_after].
  apply set_after_ext. intro y. destruct (sop_of o) as [so|]; [apply S|rewrite S; tauto].
Qed.

Theorem C12_vrp_history_refines_set : forall (ops : list op),
  wf_tab (run_ops ops rtab_new)
  /\ forall x, tmem (run_ops ops rtab_new) x <-> set_after ops (fun _ => False) x.
Proof.
  intro ops. destruct (run_ops_set ops rtab_new wf_new) as [W S]. split; [exact W|]. intro x. rewrite S.
  apply set_after_ext. intro y. unfold tmem, mem. cbn. destruct (fst (fst y)); cbn; split; try tauto; intros [e [H _]]; discriminate.
Qed.

(* ======================================================================= *)
(* Keys of installed VRPs come from the inserted nets                       *)

Lemma keys_ok_new : keys_ok rtab_new.
Proof. intros f k r [e [H _]]. destruct f; discriminate. Qed.

Lemma keys_ok_insert : forall n r t, keys_ok t -> vrp_ok n -> keys_ok (insert n r t).
Proof.
  intros n r t K V f k r' H. change (tmem (insert n r t) (f, k, r')) in H.
  apply insert_spec in H. destruct H as [H|H].
  - inversion H; subst. apply key_of_ok. exact V.
  - apply (K f k r'). exact H.
Qed.

Lemma keys_ok_apply : forall o t, wf_tab t -> keys_ok t -> op_ok o -> keys_ok (apply_op o t).
Proof.
  intros o t W K OK. destruct o as [s n mx asn|s n mx asn|s|s l|n la attrs|kd n la attrs|]; cbn [apply_op op_ok] in *.
  - apply keys_ok_insert; assumption.
  - intros f k r H. change (tmem (remove n (mk_roa s mx asn) t) (f, k, r)) in H.
    apply remove_spec in H; [|exact W]. apply (K f k r). apply H.
  - intros f k r H. change (tmem (drop_source s t) (f, k, r)) in H.
    apply drop_spec in H; [|exact W]. apply (K f k r). apply H.
  - unfold reset. assert (K0 : keys_ok (drop_source s t)).
    { intros f k r H. change (tmem (drop_source s t) (f, k, r)) in H.
      apply drop_spec in H; [|exact W]. apply (K f k r). apply H. }
    revert K0. generalize (drop_source s t) as t0. clear K W.
    induction l as [|[[n mx] asn] l IH]; intros t0 K0; [exact K0|].
    inversion OK as [|? ? H1 H2]; subst. cbn. apply IH; [exact H2|]. apply keys_ok_insert; [exact K0|exact H1].
  - exact K.
  - exact K.
  - exact K.
Qed.

Lemma run_ops_inv : forall ops t, wf_tab t -> keys_ok t -> Forall op_ok ops ->
  wf_tab (run_ops ops t) /\ keys_ok (run_ops ops t).
Proof.
  induction ops as [|o ops IH]; intros t W K F; [split; assumption|].
  inversion F as [|? ? H1 H2]; subst. unfold run_ops in *. cbn [fold_left]. apply IH.
  - apply (C12_vrp_table_refines_set t o W).
  - apply keys_ok_apply; assumption.
  - exact H2.
Qed.

(* ======================================================================= *)
(* validate: what the scan computes                                         *)

Definition cm (mask asn : N) (r : roa) : bool :=
  (mask <=? r_max r) && (negb (r_as r =? 0) && (r_as r =? asn)).
Definition cua (mask asn : N) (r : roa) : bool :=
  (mask <=? r_max r) && negb (negb (r_as r =? 0) && (r_as r =? asn)).
Definition cul (mask : N) (r : roa) : bool := negb (mask <=? r_max r).

Lemma fold_classify : forall mask asn n e acc,
  let res := fold_left (fun a r => classify mask asn n r a) e acc in
  v_state res = v_state acc /\ v_reason res = v_reason acc
  /\ v_matched res = v_matched acc ++ map (pair n) (filter (cm mask asn) e)
  /\ v_unmatched_asn res = v_unmatched_asn acc ++ map (pair n) (filter (cua mask asn) e)
  /\ v_unmatched_length res = v_unmatched_length acc ++ map (pair n) (filter (cul mask) e).
Proof.
  induction e as [|r e IH]; intros acc; cbn zeta.
  - cbn. rewrite !app_nil_r. repeat split; reflexivity.
  - cbn [fold_left filter]. specialize (IH (classify mask asn n r acc)). cbn zeta in IH.
    destruct IH as [H1 [H2 [H3 [H4 H5]]]]. rewrite H1, H2, H3, H4, H5.
    unfold classify, cm, cua, cul.
    destruct (mask <=? r_max r); cbn [andb negb];
      [destruct (negb (r_as r =? 0) && (r_as r =? asn)); cbn [negb]|];
      cbn [v_state v_reason v_matched v_unmatched_asn v_unmatched_length map];
      rewrite <- ?app_assoc; cbn [app]; repeat split; reflexivity.
Qed.

Definition net_of_key (f : fam) (k : key) : net :=
  {| n_fam := f; n_addr := key_addr k; n_mask := key_mask k |}.

Definition tonet (f : fam) (kr : key * roa) : net * roa := (net_of_key f (fst kr), snd kr).

Lemma key_to_addr_ok : forall f k, key_ok f k -> key_to_addr k = POk (net_of_key f k).
Proof.
  intros f k [a [mk [E [L _]]]]. subst k. unfold key_to_addr, net_of_key, key_addr, key_mask.
  rewrite rev_app_distr. cbn [rev app]. rewrite rev_involutive, removelast_last, last_last.
  destruct f; cbn in L; rewrite L; reflexivity.
Qed.

Lemma map_filter_pair : forall f k (P : roa -> bool) e,
  map (tonet f) (filter (fun kr => P (snd kr)) (map (pair k) e)) = map (pair (net_of_key f k)) (filter P e).
Proof.
  induction e as [|r e IH]; [reflexivity|]. cbn. destruct (P r); cbn; rewrite IH; reflexivity.
Qed.

Lemma scan_spec : forall f mask asn cands acc,
  (forall k e, In (k, e) cands -> key_ok f k) ->
  exists res, scan mask asn cands acc = POk res
    /\ v_state res = v_state acc /\ v_reason res = v_reason acc
    /\ v_matched res = v_matched acc ++ map (tonet f) (filter (fun kr => cm mask asn (snd kr)) (aset cands))
    /\ v_unmatched_asn res = v_unmatched_asn acc ++ map (tonet f) (filter (fun kr => cua mask asn (snd kr)) (aset cands))
    /\ v_unmatched_length res = v_unmatched_length acc ++ map (tonet f) (filter (fun kr => cul mask (snd kr)) (aset cands)).
Proof.
  induction cands as [|[k e] cands IH]; intros acc K.
  - exists acc. cbn. rewrite !app_nil_r. repeat split; reflexivity.
  - cbn [scan]. rewrite (key_to_addr_ok f k) by (apply (K k e); left; reflexivity).
    destruct (IH (fold_left (fun a r => classify mask asn (net_of_key f k) r a) e acc)) as [res [R [H1 [H2 [H3 [H4 H5]]]]]].
    { intros k' e' H. apply (K k' e'). right. exact H. }
    exists res. split; [exact R|].
    destruct (fold_classify mask asn (net_of_key f k) e acc) as [G1 [G2 [G3 [G4 G5]]]].
    rewrite H1, H2, H3, H4, H5, G1, G2, G3, G4, G5.
    unfold aset. cbn [flat_map fst snd]. fold (aset cands).
    rewrite !filter_app, !map_app, !map_filter_pair, <- !app_assoc. repeat split; reflexivity.
Qed.

Lemma is_nil_filter_map {A B} : forall (g : A -> B) (P : A -> bool) l,
  is_nil (map g (filter P l)) = false <-> exists x, In x l /\ P x = true.
Proof.
  intros g P l. induction l as [|x l IH]; cbn.
  - split; [discriminate|intros [x [[] _]]].
  - destruct (P x) eqn:E; cbn.
    + split; [intros _; exists x; split; [left; reflexivity|exact E]|reflexivity].
    + rewrite IH. split; intros [y [H1 H2]]; [exists y; split; [right; exact H1|exact H2]|].
      destruct H1 as [H1|H1]; [subst; congruence|exists y; split; assumption].
Qed.

(* ---- which entries the covering lookup returns *)
Definition cover_list (addr : list N) (mask : N) (m : trie) : trie :=
  flat_map (fun len =>
              let k := mask_bytes addr len ++ [len] in
              match tget k m with Some e => [(k, e)] | None => [] end)
           (lens_upto mask).

Lemma cands_cover_eq : forall addr mask m, cands_cover addr mask m = POk (cover_list addr mask m).
Proof. reflexivity. Qed.

Lemma in_lens_upto : forall mask len, In len (lens_upto mask) <-> len <= mask.
Proof.
  intros mask len. unfold lens_upto. rewrite in_map_iff. split.
  - intros [x [H1 H2]]. apply in_seq in H2. lia.
  - intro H. exists (N.to_nat len). split; [lia|]. apply in_seq. lia.
Qed.

Lemma in_cover_list : forall addr mask m k e,
  In (k, e) (cover_list addr mask m)
  <-> exists len, len <= mask /\ k = mask_bytes addr len ++ [len] /\ tget k m = Some e.
Proof.
  intros addr mask m k e. unfold cover_list. rewrite in_flat_map. split.
  - intros [len [H1 H2]]. apply in_lens_upto in H1. cbn zeta in H2.
    destruct (tget (mask_bytes addr len ++ [len]) m) as [e'|] eqn:G; [|contradiction].
    destruct H2 as [H2|[]]. inversion H2; subst. exists len. repeat split; assumption.
  - intros [len [H1 [H2 H3]]]. exists len. split; [apply in_lens_upto; exact H1|]. cbn zeta. subst k.
    rewrite H3. left. reflexivity.
Qed.

(* ---- a key covers the route, in octets and in bits *)
Lemma prefix_bits_length : forall a m, m <= 8 * N.of_nat (length a) ->
  length (prefix_bits a m) = N.to_nat m.
Proof. intros a m H. unfold prefix_bits. rewrite firstn_length, addr_bits_length. lia. Qed.

Lemma covers_key : forall f a mk addr mask,
  length a = fam_len f -> wf_bytes a -> mk <= 8 * N.of_nat (fam_len f) -> mask_bytes a mk = a ->
  length addr = fam_len f -> wf_bytes addr -> mask <= 8 * N.of_nat (fam_len f) ->
  (bits_prefix (prefix_bits a mk) (prefix_bits addr mask) = true
   <-> mk <= mask /\ mask_bytes addr mk = a).
Proof.
  intros f a mk addr mask La Wa Hmk Ca Lr Wr Hmask.
  rewrite bits_prefix_spec.
  assert (LP : length (prefix_bits a mk) = N.to_nat mk) by (apply prefix_bits_length; lia).
  assert (LR : length (prefix_bits addr mask) = N.to_nat mask) by (apply prefix_bits_length; lia).
  pose proof (mask_bytes_eq_bits addr a mk ltac:(lia) Wr Wa) as B. rewrite Ca in B.
  split.
  - intros [rest H].
    assert (Hle : mk <= mask).
    { apply (f_equal (@length bool)) in H. rewrite app_length, LP, LR in H. lia. }
    split; [exact Hle|]. apply B.
    assert (F : firstn (N.to_nat mk) (prefix_bits addr mask) = prefix_bits a mk).
    { rewrite H. rewrite <- LP. rewrite firstn_app, Nat.sub_diag, firstn_all. cbn. apply app_nil_r. }
    unfold prefix_bits in F at 1. rewrite firstn_firstn in F. rewrite Nat.min_l in F by lia. exact F.
  - intros [Hle Hm]. apply B in Hm.
    exists (skipn (N.to_nat mk) (prefix_bits addr mask)).
    rewrite <- (firstn_skipn (N.to_nat mk) (prefix_bits addr mask)) at 1. f_equal.
    unfold prefix_bits at 1. rewrite firstn_firstn, Nat.min_l by lia. exact Hm.
Qed.

(* ======================================================================= *)
(* validate = RFC 6811                                                      *)

Definition pcond (mask asn mx a : N) : bool := (mask <=? mx) && (negb (a =? 0) && (a =? asn)).

Lemma in_vrps_of : forall m v, In v (vrps_of m) <-> exists k e r, In (k, e) m /\ In r e /\ v = vrp_of k r.
Proof.
  intros m v. unfold vrps_of. rewrite in_flat_map. split.
  - intros [[k e] [H1 H2]]. cbn in H2. apply in_map_iff in H2. destruct H2 as [r [H2 H3]].
    exists k, e, r. repeat split; auto.
  - intros [k [e [r [H1 [H2 H3]]]]]. exists (k, e). split; [exact H1|]. cbn. subst v. apply in_map. exact H2.
Qed.

Section Core.
  Variable f : fam.
  Variable m : trie.
  Variable addr : list N.
  Variable mask : N.
  Hypothesis Wm : wf_trie m.
  Hypothesis Km : forall k r, mem m k r -> key_ok f k.
  Hypothesis La : length addr = fam_len f.
  Hypothesis Wa : wf_bytes addr.
  Hypothesis Hmask : mask <= 8 * N.of_nat (fam_len f).

  Let rt (o : option N) : route := {| rt_bits := prefix_bits addr mask; rt_origin := o |}.

  Lemma spec_side : forall (P : N -> N -> bool) o,
    (exists v, In v (vrps_of m) /\ covers v (rt o) = true /\ P (vp_max v) (vp_as v) = true)
    <-> exists kr, In kr (aset (cover_list addr mask m)) /\ P (r_max (snd kr)) (r_as (snd kr)) = true.
  Proof.
    intros P o. destruct Wm as [ND _]. split.
    - intros [v [Hv [Hc HP]]]. apply in_vrps_of in Hv. destruct Hv as [k [e [r [H1 [H2 H3]]]]]. subst v.
      assert (G : tget k m = Some e) by (apply in_tget; assumption).
      destruct (Km k r (ex_intro _ e (conj G H2))) as [a [mk [Ek [Lk [Wk [Hmk Ck]]]]]].
      unfold covers, vrp_of in Hc. cbn [vp_bits rt rt_bits] in Hc.
      unfold key_addr, key_mask in Hc. subst k. rewrite removelast_last, last_last in Hc.
      apply (covers_key f a mk addr mask Lk Wk Hmk Ck La Wa Hmask) in Hc. destruct Hc as [Hle Hm].
      exists (a ++ [mk], r). split; [|exact HP].
      apply in_aset. exists e. split; [|exact H2]. apply in_cover_list. exists mk.
      split; [exact Hle|]. split; [rewrite Hm; reflexivity|exact G].
    - intros [[k r] [H HP]]. cbn [snd] in HP. apply in_aset in H. destruct H as [e [H1 H2]].
      apply in_cover_list in H1. destruct H1 as [len [Hle [Ek G]]].
      destruct (Km k r (ex_intro _ e (conj G H2))) as [a [mk [Ek' [Lk [Wk [Hmk Ck]]]]]].
      rewrite Ek' in Ek. apply app_inj_tail in Ek. destruct Ek as [Ea Emk]. subst len.
      exists (vrp_of k r). split; [|split; [|exact HP]].
      + apply in_vrps_of. exists k, e, r. split; [apply tget_in; exact G|]. split; [exact H2|reflexivity].
      + unfold covers, vrp_of. cbn [vp_bits rt rt_bits]. unfold key_addr, key_mask. rewrite Ek'.
        rewrite removelast_last, last_last.
        apply (covers_key f a mk addr mask Lk Wk Hmk Ck La Wa Hmask). split; [exact Hle|symmetry; exact Ea].
  Qed.

  Lemma rt_len : forall o, N.of_nat (length (rt_bits (rt o))) = mask.
  Proof. intro o. cbn. rewrite prefix_bits_length by lia. lia. Qed.

  Lemma matches_pcond : forall v asn,
    matches v (rt (Some asn)) = covers v (rt (Some asn)) && pcond mask asn (vp_max v) (vp_as v).
  Proof.
    intros v asn. unfold matches, pcond. rewrite rt_len. cbn [rt_origin rt].
    rewrite (N.eqb_sym asn (vp_as v)), (andb_comm (vp_as v =? asn)). rewrite <- !andb_assoc. reflexivity.
  Qed.

  Lemma validate_core : forall asn,
    exists res, scan mask asn (cover_list addr mask m) vres0 = POk res
      /\ state_of (v_state (finish res)) = rfc6811 (vrps_of m) (rt (Some asn))
      /\ (forall x, In x (v_matched (finish res))
                    <-> exists k r, mem m k r /\ x = (net_of_key f k, r)
                                    /\ matches (vrp_of k r) (rt (Some asn)) = true).
  Proof.
    intro asn.
    destruct (scan_spec f mask asn (cover_list addr mask m) vres0) as [res [R [H1 [H2 [H3 [H4 H5]]]]]].
    { intros k e H. apply in_cover_list in H. destruct H as [len [_ [_ G]]].
      destruct (wf_entry m k e Wm G) as [Hne _]. destruct e as [|r e]; [contradiction|].
      apply (Km k r). exists (r :: e). split; [exact G|left; reflexivity]. }
    exists res. split; [exact R|]. cbn [vres0 v_state v_reason v_matched v_unmatched_asn v_unmatched_length app] in *.
    (* emptiness of the three lists *)
    assert (EM : is_nil (v_matched res) = false <-> existsb (fun v => matches v (rt (Some asn))) (vrps_of m) = true).
    { rewrite H3, is_nil_filter_map, existsb_exists.
      rewrite <- (spec_side (pcond mask asn) (Some asn)). unfold cm, pcond.
      split; intros [v [Hv Hm]]; exists v; (split; [exact Hv|]).
      - rewrite matches_pcond. destruct Hm as [Hc Hp]. rewrite Hc. exact Hp.
      - rewrite matches_pcond in Hm. apply andb_true_iff in Hm. exact Hm. }
    assert (EC : (is_nil (v_matched res) = false \/ is_nil (v_unmatched_asn res) = false \/ is_nil (v_unmatched_length res) = false)
                 <-> existsb (fun v => covers v (rt (Some asn))) (vrps_of m) = true).
    { rewrite H3, H4, H5, !is_nil_filter_map, existsb_exists.
      pose proof (spec_side (fun _ _ => true) (Some asn)) as S.
      split.
      - intro H. assert (X : exists kr, In kr (aset (cover_list addr mask m)) /\ true = true).
        { destruct H as [[x [Hx _]]|[[x [Hx _]]|[x [Hx _]]]]; exists x; split; auto. }
        apply S in X. destruct X as [v [Hv [Hc _]]]. exists v. split; assumption.
      - intros [v [Hv Hc]]. assert (X : exists v, In v (vrps_of m) /\ covers v (rt (Some asn)) = true /\ true = true).
        { exists v. repeat split; assumption. }
        apply S in X. destruct X as [[k r] [Hx _]].
        unfold cm, cua, cul. cbn [snd].
        destruct (mask <=? r_max r) eqn:E1; [destruct (negb (r_as r =? 0) && (r_as r =? asn)) eqn:E2|].
        + left. exists (k, r). cbn [snd]. rewrite E1, E2. split; [exact Hx|reflexivity].
        + right. left. exists (k, r). cbn [snd]. rewrite E1, E2. split; [exact Hx|reflexivity].
        + right. right. exists (k, r). cbn [snd]. rewrite E1. split; [exact Hx|reflexivity]. }
    assert (BM : existsb (fun v => matches v (rt (Some asn))) (vrps_of m) = negb (is_nil (v_matched res))).
    { apply eq_iff_eq_true. rewrite negb_true_iff. symmetry. exact EM. }
    assert (BC : existsb (fun v => covers v (rt (Some asn))) (vrps_of m)
                 = negb (is_nil (v_matched res)) || negb (is_nil (v_unmatched_asn res)) || negb (is_nil (v_unmatched_length res))).
    { apply eq_iff_eq_true. rewrite !orb_true_iff, !negb_true_iff. rewrite <- EC. tauto. }
    split.
    - unfold rfc6811, finish. rewrite BM, BC.
      destruct (is_nil (v_matched res)); cbn [negb orb]; [|reflexivity].
      destruct (is_nil (v_unmatched_asn res)); cbn [negb orb]; [|reflexivity].
      destruct (is_nil (v_unmatched_length res)); cbn [negb orb]; [|reflexivity].
      rewrite H1. reflexivity.
    - intro x.
      assert (FM : v_matched (finish res) = v_matched res).
      { unfold finish. destruct (negb (is_nil (v_matched res))); [reflexivity|].
        destruct (negb (is_nil (v_unmatched_asn res))); [reflexivity|].
        destruct (negb (is_nil (v_unmatched_length res))); reflexivity. }
      rewrite FM, H3, in_map_iff. split.
      + intros [[k r] [Hx Hf]]. apply filter_In in Hf. destruct Hf as [Hin Hc]. cbn [snd] in Hc.
        pose proof Hin as Hin'. apply in_aset in Hin'. destruct Hin' as [e [Hc1 Hr]].
        apply in_cover_list in Hc1. destruct Hc1 as [len [_ [_ G]]].
        exists k, r. split; [exists e; split; assumption|]. split; [symmetry; exact Hx|].
        rewrite matches_pcond.
        assert (X : exists kr, In kr (aset (cover_list addr mask m)) /\ (fun mx a => (mx =? r_max r) && (a =? r_as r)) (r_max (snd kr)) (r_as (snd kr)) = true).
        { exists (k, r). cbn [snd]. rewrite !N.eqb_refl. split; [exact Hin|reflexivity]. }
        (* covering: by the same octet/bit argument as spec_side, directly *)
        clear X.
        assert (Cv : covers (vrp_of k r) (rt (Some asn)) = true).
        { apply in_aset in Hin. destruct Hin as [e' [Hc1 _]]. apply in_cover_list in Hc1.
          destruct Hc1 as [len' [Hle [Ek G']]].
          destruct (Km k r (ex_intro _ e (conj G Hr))) as [a [mk [Ek' [Lk [Wk [Hmk Ck]]]]]].
          rewrite Ek' in Ek. apply app_inj_tail in Ek. destruct Ek as [Ea Emk]. subst len'.
          unfold covers, vrp_of. cbn [vp_bits rt rt_bits]. unfold key_addr, key_mask. rewrite Ek'.
          rewrite removelast_last, last_last.
          apply (covers_key f a mk addr mask Lk Wk Hmk Ck La Wa Hmask). split; [exact Hle|symmetry; exact Ea]. }
        rewrite Cv. cbn [andb vrp_of vp_max vp_as]. exact Hc.
      + intros [k [r [[e [G Hr]] [Hx Hm]]]]. exists (k, r). split; [symmetry; exact Hx|].
        rewrite matches_pcond in Hm. apply andb_true_iff in Hm. destruct Hm as [Hc Hp].
        apply filter_In. cbn [snd]. split; [|exact Hp].
        destruct (Km k r (ex_intro _ e (conj G Hr))) as [a [mk [Ek' [Lk [Wk [Hmk Ck]]]]]].
        unfold covers, vrp_of in Hc. cbn [vp_bits rt rt_bits] in Hc. unfold key_addr, key_mask in Hc.
        rewrite Ek' in Hc. rewrite removelast_last, last_last in Hc.
        apply (covers_key f a mk addr mask Lk Wk Hmk Ck La Wa Hmask) in Hc. destruct Hc as [Hle Hma].
        apply in_aset. exists e. split; [|exact Hr]. apply in_cover_list. exists mk.
        split; [exact Hle|]. split; [rewrite Hma; exact Ek'|exact G].
  Qed.
End Core.

(* ======================================================================= *)
(* Top-level statements                                                     *)

(* open finding C12-3: no VRP of the route's address family is installed *)
Definition Known_C12_3 (t : rtab) (n : net) : Prop := sel (n_fam n) t = [].

Lemma existsb_ext' {A} : forall (f g : A -> bool) l, (forall x, f x = g x) -> existsb f l = existsb g l.
Proof. intros f g l H. induction l as [|x l IH]; [reflexivity|]. cbn. rewrite H, IH. reflexivity. Qed.

Lemma rfc6811_origin : forall vs bs asn o, origin_agrees asn o ->
  rfc6811 vs {| rt_bits := bs; rt_origin := Some asn |} = rfc6811 vs {| rt_bits := bs; rt_origin := o |}.
Proof.
  intros vs bs asn o [H|[H1 H2]]; subst; [reflexivity|].
  unfold rfc6811. 
  rewrite (existsb_ext' (fun v => matches v {| rt_bits := bs; rt_origin := Some 0 |})
                        (fun v => matches v {| rt_bits := bs; rt_origin := None |})).
  - reflexivity.
  - intro v. unfold matches, covers. cbn [rt_bits rt_origin].
    destruct (vp_as v =? 0) eqn:E.
    + rewrite (N.eqb_sym 0 (vp_as v)), E. cbn. rewrite !andb_false_r. reflexivity.
    + rewrite (N.eqb_sym 0 (vp_as v)), E. cbn. rewrite !andb_false_r. reflexivity.
Qed.

Lemma is_nil_false : forall {A} (l : list A), l <> [] -> is_nil l = false.
Proof. intros A [|x l] H; [contradiction|reflexivity]. Qed.

(* validate on any table with the invariants, given the origin the code derived *)
Lemma validate_inv : forall t local n attrs asn o,
  wf_tab t -> keys_ok t -> net_ok n -> ~ Known_C12_3 t n ->
  origin_asn local attrs = POk asn -> origin_agrees asn o ->
  exists res, validate t local n attrs = POk (Some res)
    /\ state_of (v_state res) = rfc6811 (vrps_of (sel (n_fam n) t)) (route_of n o)
    /\ (forall x, In x (v_matched res)
                  <-> exists k r, tmem t (n_fam n, k, r) /\ x = (net_of_key (n_fam n) k, r)
                                  /\ matches (vrp_of k r) (route_of n (Some asn)) = true).
Proof.
  intros t local n attrs asn o W K [La [Wa Hm]] NK Ho Ag.
  destruct (validate_core (n_fam n) (sel (n_fam n) t) (n_addr n) (n_mask n)
              (wf_sel _ _ W) (K (n_fam n)) La Wa Hm asn) as [res [R [S L]]].
  exists (finish res). unfold validate, validate_with.
  rewrite (is_nil_false _ NK), Ho, cands_cover_eq, R. split; [reflexivity|].
  split; [|exact L].
  rewrite S. unfold route_of. apply rfc6811_origin. exact Ag.
Qed.

(* C12, first sentence, outside the open finding C12-3: for every history of VRP
   operations from the empty table (inserted VRPs canonical), every IPv4/IPv6 route
   and every attribute list whose first AS_PATH (if any) is well formed, validate
   returns a result whose state is the RFC 6811 state of the route against the
   installed VRPs of its family, with the RFC 6811 route origin. *)
Theorem C12_validate_code_eq_rfc6811_outside_known :
  forall (ops : list op) (local : N) (n : net) (attrs : list (N * list N))
         (segs : option (list (N * list N))),
    Forall op_ok ops -> net_ok n -> attrs_decode attrs segs ->
    let t := run_ops ops rtab_new in
    ~ Known_C12_3 t n ->
    exists res, validate t local n attrs = POk (Some res)
      /\ state_of (v_state res)
         = rfc6811 (vrps_of (sel (n_fam n) t)) (route_of n (origin_spec local segs)).
Proof.
  intros ops local n attrs segs F Hn D t NK.
  destruct (run_ops_inv ops rtab_new wf_new keys_ok_new F) as [W K].
  destruct (origin_code_eq_rfc6811 local attrs segs D) as [asn [Ho Ag]].
  destruct (validate_inv t local n attrs asn (origin_spec local segs) W K Hn NK Ho Ag) as [res [H1 [H2 _]]].
  exists res. split; assumption.
Qed.

(* the matched list is exactly the set of installed VRPs that match the route *)
Theorem C12_validate_matched_exact :
  forall (ops : list op) (local : N) (n : net) (attrs : list (N * list N))
         (segs : option (list (N * list N))) (res : vres),
    Forall op_ok ops -> net_ok n -> attrs_decode attrs segs ->
    let t := run_ops ops rtab_new in
    validate t local n attrs = POk (Some res) ->
    forall x, In x (v_matched res)
              <-> exists k r, tmem t (n_fam n, k, r) /\ x = (net_of_key (n_fam n) k, r)
                              /\ Matches (vrp_of k r) (route_of n (origin_spec local segs)).
Proof.
  intros ops local n attrs segs res F Hn D t V x.
  destruct (run_ops_inv ops rtab_new wf_new keys_ok_new F) as [W K].
  destruct (origin_code_eq_rfc6811 local attrs segs D) as [asn [Ho Ag]].
  assert (NK : ~ Known_C12_3 t n).
  { intro H. unfold Known_C12_3 in H. unfold validate, validate_with in V. fold t in V. rewrite H in V. discriminate. }
  destruct (validate_inv t local n attrs asn (origin_spec local segs) W K Hn NK Ho Ag) as [res' [H1 [_ H3]]].
  fold t in H1. rewrite H1 in V. inversion V; subst res'. rewrite H3.
  split; intros [k [r [Hm [Hx HM]]]]; exists k, r; (split; [exact Hm|split; [exact Hx|]]).
  - apply matches_iff. destruct Ag as [Ag|[A0 AN]].
    + rewrite Ag. exact HM.
    + exfalso. subst asn. unfold matches in HM. cbn [route_of rt_origin] in HM.
      destruct (vp_as (vrp_of k r) =? 0) eqn:E; rewrite (N.eqb_sym 0), E in HM; cbn in HM; rewrite ?andb_false_r in HM; discriminate.
  - apply matches_iff in HM. destruct Ag as [Ag|[A0 AN]].
    + rewrite Ag in HM. exact HM.
    + exfalso. rewrite AN in HM. unfold matches in HM. cbn [route_of rt_origin] in HM. rewrite andb_false_r in HM. discriminate.
Qed.

(* validate yields no result exactly in the class of the open finding *)
Theorem C12_validate_none_iff_known : forall (t : rtab) (local : N) (n : net) (attrs : list (N * list N)),
  validate t local n attrs = POk None <-> Known_C12_3 t n.
Proof.
  intros t local n attrs. unfold validate, validate_with, Known_C12_3.
  destruct (sel (n_fam n) t) as [|x l]; cbn [is_nil].
  - tauto.
  - split; [|discriminate]. intro H. exfalso.
    destruct (origin_asn local attrs) as [a|]; [|discriminate].
    destruct (cands_cover (n_addr n) (n_mask n) (x :: l)) as [cs|]; [|discriminate].
    destruct (scan (n_mask n) a cs vres0); discriminate.
Qed.

(* ... so the statement without the exclusion is false of the code: with only an IPv4
   VRP installed an IPv6 route gets no state, where RFC 6811 says NotFound *)
Definition n6 (a : list N) (m : N) : net := {| n_fam := F6; n_addr := a; n_mask := m |}.

Lemma C12_validate_code_eq_rfc6811_refuted :
  exists (ops : list op) (local : N) (n : net) (attrs : list (N * list N)) (segs : option (list (N * list N))),
    Forall op_ok ops /\ net_ok n /\ attrs_decode attrs segs
    /\ Known_C12_3 (run_ops ops rtab_new) n
    /\ rfc6811 (vrps_of (sel (n_fam n) (run_ops ops rtab_new))) (route_of n (origin_spec local segs)) = SNotFound
    /\ ~ exists res, validate (run_ops ops rtab_new) local n attrs = POk (Some res).
Proof.
  exists [OInsert 0 (n4 10 0 0 0 8) 24 65001], 65000,
         (n6 [32; 1; 13; 184; 0; 0; 0; 0; 0; 0; 0; 0; 0; 0; 0; 0] 32), [], None.
  split.
  { constructor; [|constructor]. cbn. split; [|reflexivity].
    split; [reflexivity|]. split; [repeat constructor|cbn; lia]. }
  split.
  { split; [reflexivity|]. split; [repeat constructor|cbn; lia]. }
  split; [reflexivity|]. split; [reflexivity|]. split; [reflexivity|].
  intros [res H]. vm_compute in H. discriminate.
Qed.

(* VRPs that do not cover the route never influence the result (more-specific and
   sibling prefixes in particular): the RFC 6811 state only depends on the covering VRPs *)
Lemma rfc6811_covering_only : forall vs r,
  rfc6811 vs r = rfc6811 (filter (fun v => covers v r) vs) r.
Proof.
  intros vs r. unfold rfc6811.
  assert (HM : existsb (fun v => matches v r) (filter (fun v => covers v r) vs) = existsb (fun v => matches v r) vs).
  { induction vs as [|v vs IH]; [reflexivity|]. cbn [filter existsb].
    destruct (covers v r) eqn:E; cbn [existsb]; rewrite IH; [reflexivity|].
    unfold matches. rewrite E. reflexivity. }
  assert (HC : existsb (fun v => covers v r) (filter (fun v => covers v r) vs) = existsb (fun v => covers v r) vs).
  { clear HM. induction vs as [|v vs IH]; [reflexivity|]. cbn [filter existsb].
    destruct (covers v r) eqn:E; cbn [existsb]; rewrite IH, ?E; reflexivity. }
  rewrite HM, HC. reflexivity.
Qed.

Theorem C12_noncovering_vrps_irrelevant :
  forall (ops : list op) (local : N) (n : net) (attrs : list (N * list N))
         (segs : option (list (N * list N))),
    Forall op_ok ops -> net_ok n -> attrs_decode attrs segs ->
    let t := run_ops ops rtab_new in
    ~ Known_C12_3 t n ->
    exists res, validate t local n attrs = POk (Some res)
      /\ state_of (v_state res)
         = rfc6811 (filter (fun v => covers v (route_of n (origin_spec local segs))) (vrps_of (sel (n_fam n) t)))
                   (route_of n (origin_spec local segs)).
Proof.
  intros ops local n attrs segs F Hn D t NK.
  destruct (C12_validate_code_eq_rfc6811_outside_known ops local n attrs segs F Hn D NK) as [res [H1 H2]].
  exists res. split; [exact H1|]. rewrite H2. apply rfc6811_covering_only.
Qed.

(* iter lists exactly the installed VRPs, each once *)
Lemma trie_iter_spec : forall f m, wf_trie m -> (forall k r, mem m k r -> key_ok f k) ->
  trie_iter m = POk (map (tonet f) (aset m)).
Proof.
  induction m as [|[k e] m IH]; intros W K; [reflexivity|].
  destruct W as [ND W]. cbn in ND. inversion ND as [|? ? Hn ND']; subst. inversion W as [|? ? [He Hd] W']; subst.
  cbn [snd] in He. cbn [trie_iter].
  assert (Kk : key_ok f k).
  { destruct e as [|r e]; [contradiction|]. apply (K k r). exists (r :: e). cbn [tget]. rewrite key_eqb_refl.
    split; [reflexivity|left; reflexivity]. }
  rewrite (key_to_addr_ok f k Kk). rewrite IH.
  - unfold aset. cbn [flat_map fst snd]. rewrite map_app, map_map. reflexivity.
  - split; assumption.
  - intros k' r' [e' [G Hr]]. apply (K k' r'). exists e'. split; [|exact Hr]. cbn [tget].
    destruct (key_eqb k' k) eqn:E; [|exact G]. apply key_eqb_eq in E. subst k'.
    exfalso. apply Hn. apply tget_in in G. apply in_map_iff. exists (k, e'). split; [reflexivity|exact G].
Qed.

Lemma net_of_key_of : forall n, net_of_key (n_fam n) (key_of n) = n.
Proof. intros [f a m]. unfold net_of_key, key_of, key_addr, key_mask. cbn. rewrite removelast_last, last_last. reflexivity. Qed.

Theorem C12_iter_lists_installed : forall (ops : list op) (f : fam),
  Forall op_ok ops ->
  let t := run_ops ops rtab_new in
  exists l, iter f t = POk l /\ NoDup l
            /\ forall n r, In (n, r) l <-> n_fam n = f /\ tmem t (f, key_of n, r).
Proof.
  intros ops f F t. destruct (run_ops_inv ops rtab_new wf_new keys_ok_new F) as [W K]. fold t in W, K.
  exists (map (tonet f) (aset (sel f t))). unfold iter.
  rewrite (trie_iter_spec f (sel f t) (wf_sel f t W) (K f)). split; [reflexivity|].
  assert (KeyOf : forall k r, In (k, r) (aset (sel f t)) -> key_of (net_of_key f k) = k).
  { intros k r H. apply in_aset_mem in H; [|apply (wf_sel f t W)].
    destruct (K f k r H) as [a1 [m1 [E1 _]]]. subst k. unfold key_of, net_of_key, key_addr, key_mask. cbn.
    rewrite removelast_last, last_last. reflexivity. }
  assert (Inj : forall a b, In a (aset (sel f t)) -> In b (aset (sel f t)) -> tonet f a = tonet f b -> a = b).
  { intros [k1 r1] [k2 r2] H1 H2 E. unfold tonet in E. cbn [fst snd] in E.
    assert (E1 : net_of_key f k1 = net_of_key f k2) by (exact (f_equal fst E)).
    assert (E2 : r1 = r2) by (exact (f_equal snd E)). subst r2.
    f_equal. transitivity (key_of (net_of_key f k1)); [symmetry; apply (KeyOf k1 r1 H1)|]. rewrite E1. apply (KeyOf k2 r1 H2). }
  split.
  - pose proof (nodup_aset (sel f t) (wf_sel f t W)) as ND. revert Inj ND. generalize (aset (sel f t)) as l.
    induction l as [|x l IH]; intros Inj ND; [constructor|]. inversion ND as [|? ? Hx ND']; subst. cbn. constructor.
    + intro H. apply in_map_iff in H. destruct H as [y [Hy1 Hy2]].
      assert (y = x) by (apply Inj; [right; exact Hy2|left; reflexivity|exact Hy1]). subst. contradiction.
    + apply IH; [|exact ND']. intros a b Ha Hb. apply Inj; right; assumption.
  - intros n r. unfold tmem. cbn [fst snd]. rewrite <- in_aset_mem by apply (wf_sel f t W).
    rewrite in_map_iff. split.
    + intros [[k' r'] [E H]]. unfold tonet in E. cbn [fst snd] in E. injection E as E1 E2. subst r' n.
      split; [reflexivity|]. rewrite (KeyOf k' r H). exact H.
    + intros [Hf H]. exists (key_of n, r). split; [|exact H]. unfold tonet. cbn [fst snd]. subst f.
      rewrite net_of_key_of. reflexivity.
Qed.

(* Before the second fix: AS_SET tail validated with the local AS *)
Lemma C12_validate_pre_refuted_as_set :
  exists (t : rtab) (n : net) (attrs : list (N * list N)) (segs : list (N * list N)) (res : vres),
    attrs_decode attrs (Some segs)
    /\ validate_pre2 t 65000 n attrs = POk (Some res)
    /\ v_state res = Valid
    /\ rfc6811 (vrps_of (sel (n_fam n) t)) (route_of n (origin_spec 65000 (Some segs))) = SInvalid.
Proof.
  exists (insert (n4 10 1 0 0 16) (mk_roa 0 24 65000) rtab_new), (n4 10 1 0 0 16),
         [(2, encode_segs [(2, [65001]); (1, [65005; 65006])])], [(2, [65001]); (1, [65005; 65006])].
  eexists. split.
  { split; [repeat constructor; cbn; try discriminate; lia|exists 2; reflexivity]. }
  split; [vm_compute; reflexivity|]. split; vm_compute; reflexivity.
Qed.

(* ======================================================================= *)
(* Non-vacuity: the hypotheses of the theorems above are met by non-trivial states *)

(* the canonical-form hypothesis is satisfiable off an octet boundary, and excludes host bits *)
Example vrp_ok_example : vrp_ok (n4 10 1 128 0 17) /\ ~ canonical (n4 10 1 192 0 17).
Proof.
  split.
  - split; [split; [reflexivity|split; [repeat constructor|cbn; lia]]|reflexivity].
  - intro H. vm_compute in H. discriminate.
Qed.

Definition example_ops : list op :=
  [OInsert 0 (n4 10 0 0 0 8) 24 65001; OInsert 1 (n4 10 1 2 0 24) 24 65002;
   OInsert 0 (n4 10 1 128 0 17) 17 65003; ORemove 1 (n4 10 9 0 0 16) 16 1;
   OReset 2 [(n4 10 1 0 0 16, 16, 0)]; ODrop 1].

Example validate_hypotheses_met :
  Forall op_ok example_ops
  /\ net_ok (n4 10 1 0 0 16)
  /\ attrs_decode [(2, encode_segs [(2, [65002; 65001])])] (Some [(2, [65002; 65001])])
  /\ ~ Known_C12_3 (run_ops example_ops rtab_new) (n4 10 1 0 0 16)
  /\ rfc6811 (vrps_of (sel F4 (run_ops example_ops rtab_new)))
             (route_of (n4 10 1 0 0 16) (origin_spec 65000 (Some [(2, [65002; 65001])]))) = SValid
  /\ rfc6811 (vrps_of (sel F4 (run_ops example_ops rtab_new)))
             (route_of (n4 10 1 0 0 16) (origin_spec 65000 (Some [(2, [65002])]))) = SInvalid
  /\ rfc6811 (vrps_of (sel F4 (run_ops example_ops rtab_new)))
             (route_of (n4 11 1 0 0 16) (origin_spec 65000 None)) = SNotFound.
Proof.
  split.
  { unfold example_ops. repeat constructor; cbn; try lia; try reflexivity. }
  split; [split; [reflexivity|split; [repeat constructor|cbn; lia]]|].
  split; [split; [repeat constructor; cbn; try discriminate; lia|exists 2; reflexivity]|].
  split; [intro H; vm_compute in H; discriminate|].
  repeat split; vm_compute; reflexivity.
Qed.

Example set_hypotheses_met :
  wf_tab (run_ops example_ops rtab_new)
  /\ tmem (run_ops example_ops rtab_new) (F4, key_of (n4 10 0 0 0 8), mk_roa 0 24 65001)
  /\ ~ tmem (run_ops example_ops rtab_new) (F4, key_of (n4 10 1 2 0 24), mk_roa 1 24 65002).
Proof.
  split; [apply C12_vrp_history_refines_set|].
  split.
  - exists [mk_roa 0 24 65001]. split; [vm_compute; reflexivity|left; reflexivity].
  - intros [e [H _]]. vm_compute in H. discriminate.
Qed.

(* ======================================================================= *)
(* The policy consumer (Condition::Rpki) and non-IP routes                  *)

Lemma vstate_eqb_eq : forall a b, vstate_eqb a b = true <-> a = b.
Proof. intros [] []; cbn; split; intro H; try reflexivity; try discriminate. Qed.

Lemma state_of_inj : forall a b, state_of a = state_of b -> a = b.
Proof. intros [] [] H; try reflexivity; discriminate. Qed.

(* "the validation state used by policy": outside C12-3 the condition `rpki expected`
   holds of a route exactly when RFC 6811 gives it that state, so exactly one of the
   three conditions holds *)
Theorem C12_policy_condition_eq_rfc6811_outside_known :
  forall (ops : list op) (local : N) (n : net) (attrs : list (N * list N))
         (segs : option (list (N * list N))) (expected : vstate),
    Forall op_ok ops -> net_ok n -> attrs_decode attrs segs ->
    let t := run_ops ops rtab_new in
    ~ Known_C12_3 t n ->
    exists b, cond_rpki t local n attrs expected = POk b
      /\ (b = true <-> rfc6811 (vrps_of (sel (n_fam n) t)) (route_of n (origin_spec local segs)) = state_of expected).
Proof.
  intros ops local n attrs segs expected F Hn D t NK.
  destruct (C12_validate_code_eq_rfc6811_outside_known ops local n attrs segs F Hn D NK) as [res [H1 H2]].
  fold t in H1, H2. unfold cond_rpki. rewrite H1. eexists. split; [reflexivity|].
  cbn [cond_of]. rewrite vstate_eqb_eq, <- H2. split; [intro E; rewrite E; reflexivity|apply state_of_inj].
Qed.

(* in the class of C12-3 no condition holds, NotFound included (the refutation witness of
   validate_code_eq_rfc6811_refuted seen from the policy side) *)
Theorem C12_policy_condition_known : forall (t : rtab) (local : N) (n : net) (attrs : list (N * list N)) (expected : vstate),
  Known_C12_3 t n -> cond_rpki t local n attrs expected = POk false.
Proof.
  intros t local n attrs expected K. unfold cond_rpki.
  rewrite (proj2 (C12_validate_none_iff_known t local n attrs) K). reflexivity.
Qed.

(* ======================================================================= *)
(* The hand-over of the table to policy evaluation over assignment histories *)

(* the table is handed over iff some policy of the assignment has an rpki condition,
   whatever history of add / set / delete calls produced the assignment *)
Theorem C12_handover_iff_rpki_policy : forall (l : list N),
  needs_rpki l = true <-> exists p k, In p l /\ pol_state p = Some k.
Proof.
  intro l. unfold needs_rpki. rewrite existsb_exists. split.
  - intros [p [H1 H2]]. unfold pol_has_rpki in H2. destruct (pol_state p) as [k|] eqn:E; [|discriminate].
    exists p, k. split; assumption.
  - intros [p [k [H1 H2]]]. exists p. split; [exact H1|]. unfold pol_has_rpki. rewrite H2. reflexivity.
Qed.

(* "the validation state used by policy", through the gated hand-over: an assignment (import,
   global export, per-peer export) built by ANY history of assignment operations accepts a
   route - outside C12-3 - exactly when it contains a policy `rpki k -> accept` for the RFC 6811
   state k of the route *)
Theorem C12_assignment_accepts_iff_state_outside_known :
  forall (ops : list op) (local : N) (n : net) (attrs : list (N * list N))
         (segs : option (list (N * list N))) (l : list N),
    Forall op_ok ops -> net_ok n -> attrs_decode attrs segs ->
    let t := run_ops ops rtab_new in
    ~ Known_C12_3 t n ->
    exists b, asg_accepts t local n attrs (Some l) = POk b
      /\ (b = true <-> exists p k, In p l /\ pol_state p = Some k
                                  /\ rfc6811 (vrps_of (sel (n_fam n) t)) (route_of n (origin_spec local segs)) = state_of k).
Proof.
  intros ops local n attrs segs l F Hn D t NK.
  destruct (C12_validate_code_eq_rfc6811_outside_known ops local n attrs segs F Hn D NK) as [res [H1 H2]].
  fold t in H1, H2. unfold asg_accepts.
  destruct (needs_rpki l) eqn:NR.
  - rewrite H1. eexists. split; [reflexivity|]. rewrite existsb_exists. split.
    + intros [p [Hin Hc]]. destruct (pol_state p) as [k|] eqn:E; [|discriminate]. exists p, k.
      split; [exact Hin|]. split; [exact E|]. cbn [cond_of] in Hc. apply vstate_eqb_eq in Hc. rewrite <- H2, Hc. reflexivity.
    + intros [p [k [Hin [E Hs]]]]. exists p. split; [exact Hin|]. rewrite E. cbn [cond_of]. apply vstate_eqb_eq.
      apply state_of_inj. rewrite H2. exact Hs.
  - exists false. split; [reflexivity|]. split; [discriminate|].
    intros [p [k [Hin [E _]]]]. exfalso.
    assert (needs_rpki l = true) by (apply C12_handover_iff_rpki_policy; exists p, k; split; assumption). congruence.
Qed.

(* the slots after any history carry the flag computed from their final list: what
   run_policy_case prints for a slot is (needs_rpki l, l) *)
Theorem C12_history_flag_is_final_list : forall (sts : list (N * N * list N)) (s0 : slots),
  let s := fst (slots_run s0 sts) in
  forall a, In a [sl_import s; sl_export s; sl_peer s] ->
  forall l, a = Some l -> v_slot a = VL [VL [VB (needs_rpki l); VNs l]].
Proof. intros sts s0 s a _ l E. subst a. reflexivity. Qed.

Example assignment_history_example :
  let s := fst (slots_run {| sl_import := None; sl_export := None; sl_peer := None |}
                          [(0, 0, [2]); (0, 0, [3]); (2, 0, [3]); (2, 0, [1]); (2, 2, [1]); (1, 0, [0]); (1, 0, [0])]) in
  sl_import s = Some [3; 2] /\ sl_peer s = Some [3] /\ sl_export s = Some [0]
  /\ needs_rpki [3; 2] = true /\ needs_rpki [3] = false.
Proof. repeat split; reflexivity. Qed.

(* ======================================================================= *)
(* The API annotation is per path                                           *)

(* "the validation state shown by the API": whatever other paths the destination holds and in
   whatever order, the state shown for a path is - outside C12-3 - the RFC 6811 state of the
   prefix with THAT path's origin (its own AS_PATH, its own source's local AS) *)
Theorem C12_api_annotation_per_path_outside_known :
  forall (ops : list op) (n : net) (paths : list (N * list (N * list N)))
         (i : nat) (local : N) (attrs : list (N * list N)) (segs : option (list (N * list N))),
    Forall op_ok ops -> net_ok n ->
    let t := run_ops ops rtab_new in
    ~ Known_C12_3 t n ->
    nth_error paths i = Some (local, attrs) -> attrs_decode attrs segs ->
    exists res, nth_error (annotate t n paths) i = Some (POk (Some res))
      /\ state_of (v_state res)
         = rfc6811 (vrps_of (sel (n_fam n) t)) (route_of n (origin_spec local segs)).
Proof.
  intros ops n paths i local attrs segs F Hn t NK Hi D.
  destruct (C12_validate_code_eq_rfc6811_outside_known ops local n attrs segs F Hn D NK) as [res [H1 H2]].
  exists res. split; [|exact H2].
  unfold annotate. rewrite nth_error_map, Hi. cbn [option_map fst snd]. fold t in H1. rewrite H1. reflexivity.
Qed.
