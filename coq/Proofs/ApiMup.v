(* C17  BGP-MUP NLRI: round trip through the API form, invariant preservation, the one-octet
   length of the encoding. *)
From Coq Require Import List ZArith NArith Bool Lia ZifyBool ZifyNat ZifyN.
From RB Require Import Base.Val Model.Api Spec.ApiSpec Proofs.ApiBytes Proofs.ApiStr Proofs.ApiRt Proofs.ApiNlri Proofs.ApiEvpn.
Import ListNotations.
Open Scope N_scope.

Local Ltac Zify.zify_post_hook ::= Z.div_mod_to_equations.
Arguments ip4_to_string : simpl never.
Arguments ip4_of_string : simpl never.
Arguments to_bytes : simpl never.
Arguments be32 : simpl never.
Arguments be16 : simpl never.
Arguments dec_octet : simpl never.

Lemma u8_of_dec_octet : forall o, o < 256 -> u8_of_string (dec_octet o) = Some o.
Proof.
  assert (H : forallb (fun o => match u8_of_string (dec_octet o) with Some v => v =? o | None => false end) octets = true)
    by (vm_compute; reflexivity).
  intros o Ho. rewrite forallb_forall in H. specialize (H o (in_octets o Ho)).
  destruct (u8_of_string (dec_octet o)) as [v|]; [|discriminate]. apply N.eqb_eq in H. subst. reflexivity.
Qed.

Lemma take_until_app : forall sep a b acc, existsb (fun c => c =? sep) a = false ->
  take_until sep (a ++ sep :: b) acc = Some (rev a ++ acc, b).
Proof.
  intros sep. induction a as [|c r IH]; intros b acc H; cbn [app take_until rev].
  - rewrite N.eqb_refl. reflexivity.
  - cbn [existsb] in H. apply orb_false_iff in H. destruct H as [H1 H2]. rewrite H1.
    rewrite IH by exact H2. rewrite <- app_assoc. reflexivity.
Qed.

Lemma existsb_rev : forall {A} (f : A -> bool) l, existsb f (rev l) = existsb f l.
Proof.
  intros A f. induction l as [|x r IH]; [reflexivity|]. cbn [rev existsb]. rewrite existsb_app, IH. cbn [existsb].
  destruct (f x), (existsb f r); reflexivity.
Qed.

Lemma rsplit_text : forall s o, o < 256 -> rsplit_slash (s ++ 47 :: dec_octet o) = Some (s, dec_octet o).
Proof.
  intros s o Ho. unfold rsplit_slash. rewrite rev_app_distr. cbn [rev]. rewrite <- app_assoc. cbn [app].
  rewrite take_until_app.
  - rewrite !rev_involutive, app_nil_r. reflexivity.
  - rewrite existsb_rev. exact (dec_octet_noslash o Ho).
Qed.

Lemma u8_of_string_le : forall s v, u8_of_string s = Some v -> v <= 255.
Proof.
  intros s v H. unfold u8_of_string in H.
  destruct (match s with 43 :: r => r | _ => s end) as [|c r]; [discriminate|].
  destruct (dec_digits (c :: r) 0) as [w|]; [|discriminate]. destruct (N.leb_spec w 255); [|discriminate].
  injection H as <-. assumption.
Qed.

Section MupProofs.
  Variable v6p : N -> list N.
  Variable v6r : list N -> option N.

  Lemma wf_prefix_ip : forall a len, wf_prefix (ip_w a) (ip_value a) len -> wf_ip a /\ len <= ip_width a.
  Proof.
    intros [a|a] len H; unfold ip_w in H; cbn [ip_is_v4 ip_value] in H.
    - destruct (wf_prefix_4 a len H). cbn. split; lia.
    - destruct (wf_prefix_16 a len H). cbn. split; lia.
  Qed.

  Lemma parse_prefix_text : forall a len, v6_contract v6p v6r -> wf_prefix (ip_w a) (ip_value a) len ->
    parse_prefix v6r (prefix_text v6p a len) = Some (a, len).
  Proof.
    intros a len Hc H. destruct (wf_prefix_ip a len H) as [Hw Hl].
    assert (Hlen : len < 256) by (destruct a; cbn in Hl; lia).
    unfold parse_prefix, prefix_text. rewrite rsplit_text by exact Hlen.
    rewrite (ip_roundtrip v6p v6r a Hc Hw). rewrite u8_of_dec_octet by exact Hlen.
    destruct (N.ltb_spec (ip_width a) len); [lia|].
    fold (ip_w a). rewrite (octets_ok_true _ _ _ H). reflexivity.
  Qed.

  Theorem mup_roundtrip : forall n, v6_contract v6p v6r -> v6_nonempty v6p -> wf_mup n ->
    mup_from_api v6r (mup_to_api v6p n) = Some n.
  Proof.
    intros n Hc Hne H. destruct n as [d a len|d a|d a len teid qfi ep src|d ealen ep teid]; cbn [wf_mup] in H;
      cbn [mup_to_api mup_from_api].
    - destruct H as [Hd Hp]. rewrite (rd_roundtrip d Hd), (parse_prefix_text a len Hc Hp). reflexivity.
    - destruct H as [Hd Ha]. rewrite (rd_roundtrip d Hd), (ip_roundtrip v6p v6r a Hc Ha). reflexivity.
    - destruct H as [Hd [Hp [Ht [Hq [He Hs]]]]].
      rewrite (rd_roundtrip d Hd), (parse_prefix_text a len Hc Hp), (ip_roundtrip v6p v6r ep Hc He).
      destruct (N.ltb_spec 255 qfi); [lia|].
      destruct src as [s|]; cbn [wf_opt] in Hs.
      + assert (E1 : (ip_width s =? 0) = false) by (destruct s; reflexivity). rewrite E1.
        pose proof (ip_nonempty v6p s Hne Hs) as Hn.
        destruct (ip_to_string v6p s) as [|c r] eqn:Es; [contradiction|]. cbn [length Nat.eqb orb].
        rewrite <- Es. rewrite (ip_roundtrip v6p v6r s Hc Hs). reflexivity.
      + reflexivity.
    - destruct H as [Hd [He [H1 [H2 [Ht Hk]]]]].
      rewrite (rd_roundtrip d Hd), (ip_roundtrip v6p v6r ep Hc He).
      destruct (N.ltb_spec ealen (ip_width ep)); [lia|]. destruct (N.ltb_spec (ip_width ep + 32) ealen); [lia|].
      cbn [orb]. destruct (N.ltb_spec ((ealen - ip_width ep + 7) / 8) 4); cbn [andb]; [|reflexivity].
      rewrite (Hk H3). reflexivity.
  Qed.

  Lemma parse_prefix_wf : forall s a len, v6_range v6r -> parse_prefix v6r s = Some (a, len) ->
    wf_prefix (ip_w a) (ip_value a) len.
  Proof.
    intros s a len Hr H. unfold parse_prefix in H. destruct (rsplit_slash s) as [[t l]|]; [|discriminate].
    destruct (ip_of_string v6r t) as [i|] eqn:Ei; [|discriminate].
    destruct (u8_of_string l) as [v|] eqn:Eu; [|discriminate].
    destruct (N.ltb_spec (ip_width i) v); [discriminate|].
    destruct (octets_ok (if ip_is_v4 i then 4 else 16) (ip_value i) v) eqn:Eo; [|discriminate].
    injection H as <- <-. pose proof (ip_of_string_wf v6r t i Hr Ei) as Hw.
    apply wf_prefix_intro; [destruct i; cbn in *; lia|destruct i; cbn in *; lia|exact Eo].
  Qed.

  Theorem mup_from_api_wf : forall x n, v6_range v6r -> api_mup_in_range x -> mup_from_api v6r x = Some n -> wf_mup n.
  Proof.
    intros x n Hr Hx H. destruct x as [d p|d s|d p teid qfi el ep sl src|d el ep teid]; cbn [mup_from_api api_mup_in_range] in *.
    - destruct (rd_from_api d) as [d'|] eqn:Ed; [|discriminate].
      destruct (parse_prefix v6r p) as [[a len]|] eqn:Ep; [|discriminate]. injection H as <-. cbn.
      split; [eapply rd_from_api_wf; eassumption|eapply parse_prefix_wf; eassumption].
    - destruct (rd_from_api d) as [d'|] eqn:Ed; [|discriminate].
      destruct (ip_of_string v6r s) as [a|] eqn:Ea; [|discriminate]. injection H as <-. cbn.
      split; [eapply rd_from_api_wf; eassumption|eapply ip_of_string_wf; eassumption].
    - destruct Hx as [Hd Ht]. destruct (rd_from_api d) as [d'|] eqn:Ed; [|discriminate].
      destruct (parse_prefix v6r p) as [[a len]|] eqn:Ep; [|discriminate].
      destruct (ip_of_string v6r ep) as [e|] eqn:Ee; [|discriminate].
      destruct ((sl =? 0) || Nat.eqb (length src) 0) eqn:Es.
      + destruct (N.ltb_spec 255 qfi); [discriminate|]. injection H as <-. cbn.
        split; [eapply rd_from_api_wf; eassumption|]. split; [eapply parse_prefix_wf; eassumption|].
        split; [lia|]. split; [lia|]. split; [eapply ip_of_string_wf; eassumption|exact I].
      + destruct (ip_of_string v6r src) as [s|] eqn:Ess; [|discriminate].
        destruct (N.ltb_spec 255 qfi); [discriminate|]. injection H as <-. cbn.
        split; [eapply rd_from_api_wf; eassumption|]. split; [eapply parse_prefix_wf; eassumption|].
        split; [lia|]. split; [lia|]. split; eapply ip_of_string_wf; eassumption.
    - destruct Hx as [Hd Ht]. destruct (rd_from_api d) as [d'|] eqn:Ed; [|discriminate].
      destruct (ip_of_string v6r ep) as [e|] eqn:Ee; [|discriminate].
      destruct (N.ltb_spec el (ip_width e)); [discriminate|]. destruct (N.ltb_spec (ip_width e + 32) el); [discriminate|].
      cbn [orb] in H.
      destruct (((el - ip_width e + 7) / 8 <? 4) && negb ((teid * 256 ^ ((el - ip_width e + 7) / 8)) mod 4294967296 =? 0)) eqn:Ek; [discriminate|].
      injection H as <-. cbn.
      split; [eapply rd_from_api_wf; eassumption|]. split; [eapply ip_of_string_wf; eassumption|].
      split; [lia|]. split; [lia|]. split; [lia|].
      intros Hk. apply andb_false_iff in Ek. destruct Ek as [Ek|Ek].
      + apply N.ltb_ge in Ek. lia.
      + apply negb_false_iff in Ek. apply N.eqb_eq in Ek. exact Ek.
  Qed.
End MupProofs.

Lemma length_rd_bytes_mup : forall d, length (rd_bytes d) = 8%nat.
Proof. intros [a b|a b|a b]; reflexivity. Qed.

Lemma length_ip_octets : forall i, (length (ip_octets i) <= 16)%nat.
Proof. intros [a|a]; cbn [ip_octets]; [rewrite length_be32|rewrite length_to_bytes]; lia. Qed.

Lemma length_prefix_octets : forall a len, (length (prefix_octets a len) <= 16)%nat.
Proof. intros. unfold prefix_octets. rewrite firstn_length. pose proof (length_ip_octets a). lia. Qed.

(* the one-octet length of MupNlri::encode does not wrap (no route body exceeds 64 octets) *)
Theorem mup_body_fits : forall n, N.of_nat (length (mup_body n)) < 256.
Proof.
  intros [d a len|d a|d a len teid qfi ep src|d ealen ep teid]; cbn [mup_body];
    repeat (rewrite app_length || cbn [length]); rewrite ?length_rd_bytes_mup, ?length_be32.
  - pose proof (length_prefix_octets a len). lia.
  - pose proof (length_ip_octets a). lia.
  - pose proof (length_prefix_octets a len). pose proof (length_ip_octets ep).
    destruct src as [s|]; cbn [length]; [pose proof (length_ip_octets s)|]; lia.
  - pose proof (length_ip_octets ep). rewrite firstn_length, length_be32. lia.
Qed.
