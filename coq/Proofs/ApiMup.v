(* C17  BGP-MUP NLRI: round trip through the API form, invariant preservation, the one-octet
   length of the encoding. *)
From Coq Require Import List ZArith NArith Bool Lia ZifyBool ZifyNat ZifyN.
From RB Require Import Base.Val Model.Api Spec.ApiSpec Proofs.ApiBytes Proofs.ApiStr Proofs.ApiRt Proofs.ApiNlri Proofs.ApiEvpn.
Import ListNotations.
Open Scope N_scope.

Local Ltac Zify.zify_post_hook ::= Z.div_mod_to_equations.
Arguments ip4_to_string : simpl never.
Arguments ip4_of_string : simpl never.
Arguments to_bytes : simpl never.
Arguments be32 : simpl never.
Arguments be16 : simpl never.
Arguments dec_octet : simpl never.

Lemma u8_of_dec_octet : forall o, o < 256 -> u8_of_string (dec_octet o) = Some o.
Proof.
  assert (H : forallb (fun o => match u8_of_string (dec_octet o) with Some v => v =? o | None => false end) octets = true)
    by (vm_compute; reflexivity).
  intros o Ho. rewrite forallb_forall in H. specialize (H o (in_octets o Ho)).
  destruct (u8_of_string (dec_octet o)) as [v|]; [|discriminate]. apply N.eqb_eq in H. subst. reflexivity.
Qed.

Lemma take_until_app : forall sep a b acc, existsb (fun c => c =? sep) a = false ->
  take_until sep (a ++ sep :: b) acc = Some (rev a ++ acc, b).
Proof.
  intros sep. induction a as [|c r IH]; intros b acc H; cbn [app take_until rev].
  - rewrite N.eqb_refl. reflexivity.
  - cbn [existsb] in H. apply orb_false_iff in H. destruct H as [H1 H2]. rewrite H1.
    rewrite IH by exact H2. rewrite <- app_assoc. reflexivity.
Qed.

Lemma existsb_rev : forall {A} (f : A -> bool) l, existsb f (rev l) = existsb f l.
Proof.
  intros A f. induction l as [|x r IH]; [reflexivity|]. cbn [rev existsb]. rewrite existsb_app, IH. cbn [existsb].
  destruct (f x), (existsb f r); reflexivity.
Qed.

Lemma rsplit_text : forall s o, o < 256 -> rsplit_slash (s ++ 47 :: dec_octet o) = Some (s, dec_octet o).
Proof.
  intros s o Ho. unfold rsplit_slash. rewrite rev_app_distr. cbn [rev]. rewrite <- app_assoc. cbn [app].
  rewrite take_until_app.
  - rewrite !rev_involutive, app_nil_r. reflexivity.
  - rewrite existsb_rev. exact (dec_octet_noslash o Ho).
Qed.

Lemma u8_of_string_le : forall s v, u8_of_string s = Some v -> v <= 255.
Proof.
  intros s v H. unfold u8_of_string in H.
  destruct (match s with 43 :: r => r | _ => s end) as [|c r]; [discriminate|].
  destruct (dec_digits (c :: r) 0) as [w|]; [|discriminate]. destruct (N.leb_spec w 255); [|discriminate].
  injection H as <-. assumption.
Qed.

Section MupProofs.
  Variable v6p : N -> list N.
  Variable v6r : list N -> option N.

  Lemma wf_prefix_ip : forall a len, wf_prefix (ip_w a) (ip_value a) len -> wf_ip a /\ len <= ip_width a.
  Proof.
    intros [a|a] len H; unfold ip_w in H; cbn [ip_is_v4 ip_value] in H.
    - destruct (wf_prefix_4 a len H). cbn. split; lia.
    - destruct (wf_prefix_16 a len H). cbn. split; lia.
  Qed.

  Lemma parse_prefix_text : forall a len, v6_contract v6p v6r -> wf_prefix (ip_w a) (ip_value a) len ->
    parse_prefix v6r (prefix_text v6p a len) = Some (a, len).
  Proof.
    intros a len Hc H. destruct (wf_prefix_ip a len H) as [Hw Hl].
    assert (Hlen : len < 256) by (destruct a; cbn in Hl; lia).
    unfold parse_prefix, prefix_text. rewrite rsplit_text by exact Hlen.
    rewrite (ip_roundtrip v6p v6r a Hc Hw). rewrite u8_of_dec_octet by exact Hlen.
    destruct (N.ltb_spec (ip_width a) len); [lia|].
    fold (ip_w a). rewrite (octets_ok_true _ _ _ H). reflexivity.
  Qed.

  Theorem mup_roundtrip : forall n, v6_contract v6p v6r -> v6_nonempty v6p -> wf_mup n ->
    mup_from_api v6r (mup_to_api v6p n) = Some n.
  Proof.
    intros n Hc Hne H. destruct n as [d a len|d a|d a len teid qfi ep src|d ealen ep teid]; cbn [wf_mup] in H;
      cbn [mup_to_api mup_from_api].
    - destruct H as [Hd Hp]. rewrite (rd_roundtrip d Hd), (parse_prefix_text a len Hc Hp). reflexivity.
    - destruct H as [Hd Ha]. rewrite (rd_roundtrip d Hd), (ip_roundtrip v6p v6r a Hc Ha). reflexivity.
    - destruct H as [Hd [Hp [Ht [Hq [He Hs]]]]].
      rewrite (rd_roundtrip d Hd), (parse_prefix_text a len Hc Hp), (ip_roundtrip v6p v6r ep Hc He).
      destruct (N.ltb_spec 255 qfi); [lia|].
      destruct src as [s|]; cbn [wf_opt] in Hs.
      + assert (E1 : (ip_width s =? 0) = false) by (destruct s; reflexivity). rewrite E1.
        pose proof (ip_nonempty v6p s Hne Hs) as Hn.
        destruct (ip_to_string v6p s) as [|c r] eqn:Es; [contradiction|]. cbn [length Nat.eqb orb].
        rewrite <- Es. rewrite (ip_roundtrip v6p v6r s Hc Hs). reflexivity.
      + reflexivity.
    - destruct H as [Hd [He [H1 [H2 [Ht Hk]]]]].
      rewrite (rd_roundtrip d Hd), (ip_roundtrip v6p v6r ep Hc He).
      destruct (N.ltb_spec ealen (ip_width ep)); [lia|]. destruct (N.ltb_spec (ip_width ep + 32) ealen); [lia|].
      cbn [orb]. destruct (N.ltb_spec ((ealen - ip_width ep + 7) / 8) 4); cbn [andb]; [|reflexivity].
      rewrite (Hk H3). reflexivity.
  Qed.

  Lemma parse_prefix_wf : forall s a len, v6_range v6r -> parse_prefix v6r s = Some (a, len) ->
    wf_prefix (ip_w a) (ip_value a) len.
  Proof.
    intros s a len Hr H. unfold parse_prefix in H. destruct (rsplit_slash s) as [[t l]|]; [|discriminate].
    destruct (ip_of_string v6r t) as [i|] eqn:Ei; [|discriminate].
    destruct (u8_of_string l) as [v|] eqn:Eu; [|discriminate].
    destruct (N.ltb_spec (ip_width i) v); [discriminate|].
    destruct (octets_ok (if ip_is_v4 i then 4 else 16) (ip_value i) v) eqn:Eo; [|discriminate].
    injection H as <- <-. pose proof (ip_of_string_wf v6r t i Hr Ei) as Hw.
    apply wf_prefix_intro; [destruct i; cbn in *; lia|destruct i; cbn in *; lia|exact Eo].
  Qed.

  Theorem mup_from_api_wf : forall x n, v6_range v6r -> api_mup_in_range x -> mup_from_api v6r x = Some n -> wf_mup n.
  Proof.
    intros x n Hr Hx H. destruct x as [d p|d s|d p teid qfi el ep sl src|d el ep teid]; cbn [mup_from_api api_mup_in_range] in *.
    - destruct (rd_from_api d) as [d'|] eqn:Ed; [|discriminate].
      destruct (parse_prefix v6r p) as [[a len]|] eqn:Ep; [|discriminate]. injection H as <-. cbn.
      split; [eapply rd_from_api_wf; eassumption|eapply parse_prefix_wf; eassumption].
    - destruct (rd_from_api d) as [d'|] eqn:Ed; [|discriminate].
      destruct (ip_of_string v6r s) as [a|] eqn:Ea; [|discriminate]. injection H as <-. cbn.
      split; [eapply rd_from_api_wf; eassumption|eapply ip_of_string_wf; eassumption].
    - destruct Hx as [Hd Ht]. destruct (rd_from_api d) as [d'|] eqn:Ed; [|discriminate].
      destruct (parse_prefix v6r p) as [[a len]|] eqn:Ep; [|discriminate].
      destruct (ip_of_string v6r ep) as [e|] eqn:Ee; [|discriminate].
      destruct ((sl =? 0) || Nat.eqb (length src) 0) eqn:Es.
      + destruct (N.ltb_spec 255 qfi); [discriminate|]. injection H as <-. cbn.
        split; [eapply rd_from_api_wf; eassumption|]. split; [eapply parse_prefix_wf; eassumption|].
        split; [lia|]. split; [lia|]. split; [eapply ip_of_string_wf; eassumption|exact I].
      + destruct (ip_of_string v6r src) as [s|] eqn:Ess; [|discriminate].
        destruct (N.ltb_spec 255 qfi); [discriminate|]. injection H as <-. cbn.
        split; [eapply rd_from_api_wf; eassumption|]. split; [eapply parse_prefix_wf; eassumption|].
        split; [lia|]. split; [lia|]. split; eapply ip_of_string_wf; eassumption.
    - destruct Hx as [Hd Ht]. destruct (rd_from_api d) as [d'|] eqn:Ed; [|discriminate].
      destruct (ip_of_string v6r ep) as [e|] eqn:Ee; [|discriminate].
      destruct (N.ltb_spec el (ip_width e)); [discriminate|]. destruct (N.ltb_spec (ip_width e + 32) el); [discriminate|].
      cbn [orb] in H.
      destruct (((el - ip_width e + 7) / 8 <? 4) && negb ((teid * 256 ^ ((el - ip_width e + 7) / 8)) mod 4294967296 =? 0)) eqn:Ek; [discriminate|].
      injection H as <-. cbn.
      split; [eapply rd_from_api_wf; eassumption|]. split; [eapply ip_of_string_wf; eassumption|].
      split; [lia|]. split; [lia|]. split; [lia|].
      intros Hk. apply andb_false_iff in Ek. destruct Ek as [Ek|Ek].
      + apply N.ltb_ge in Ek. lia.
      + apply negb_false_iff in Ek. apply N.eqb_eq in Ek. exact Ek.
  Qed.
End MupProofs.

Lemma length_rd_bytes_mup : forall d, length (rd_bytes d) = 8%nat.
Proof. intros [a b|a b|a b]; reflexivity. Qed.

Lemma length_ip_octets : forall i, (length (ip_octets i) <= 16)%nat.
Proof. intros [a|a]; cbn [ip_octets]; [rewrite length_be32|rewrite length_to_bytes]; lia. Qed.

Lemma length_prefix_octets : forall a len, (length (prefix_octets a len) <= 16)%nat.
Proof. intros. unfold prefix_octets. rewrite firstn_length. pose proof (length_ip_octets a). lia. Qed.

(* the one-octet length of MupNlri::encode does not wrap (no route body exceeds 64 octets) *)
Theorem mup_body_fits : forall n, N.of_nat (length (mup_body n)) < 256.
Proof.
  intros [d a len|d a|d a len teid qfi ep src|d ealen ep teid]; cbn [mup_body];
    repeat (rewrite app_length || cbn [length]); rewrite ?length_rd_bytes_mup, ?length_be32.
  - pose proof (length_prefix_octets a len). lia.
  - pose proof (length_ip_octets a). lia.
  - pose proof (length_prefix_octets a len). pose proof (length_ip_octets ep).
    destruct src as [s|]; cbn [length]; [pose proof (length_ip_octets s)|]; lia.
  - pose proof (length_ip_octets ep). rewrite firstn_length, length_be32. lia.
Qed.

(* ------------------------------------------------------------------ *)
(* held values: what the MUP decoder produces is well-formed, so the round trip holds for every
   route a session can hold (not only for API-originated ones) *)
Lemma bytes_ok_firstn : forall n l, bytes_ok l -> bytes_ok (firstn n l).
Proof. intros n l H. rewrite <- (firstn_skipn n l) in H. apply bytes_ok_app_inv in H. exact (proj1 H). Qed.

Lemma bytes_ok_skipn : forall n l, bytes_ok l -> bytes_ok (skipn n l).
Proof. intros n l H. rewrite <- (firstn_skipn n l) in H. apply bytes_ok_app_inv in H. exact (proj2 H). Qed.

Lemma bytes_ok_slice : forall a n l, bytes_ok l -> bytes_ok (slice a n l).
Proof. intros. unfold slice. apply bytes_ok_firstn, bytes_ok_skipn. assumption. Qed.

Lemma of_bytes_app_zeros : forall n l, of_bytes (l ++ zeros n) = of_bytes l * 256 ^ N.of_nat n.
Proof.
  induction n as [|n IH]; intros l.
  - cbn [zeros repeat]. rewrite app_nil_r. cbn. lia.
  - cbn [zeros repeat]. change (0 :: repeat 0 n) with ([0] ++ zeros n). rewrite app_assoc, IH, of_bytes_snoc.
    rewrite Nat2N.inj_succ, N.pow_succ_r'. lia.
Qed.

Lemma rd_decode_wf : forall b d, bytes_ok b -> rd_decode b = Some d -> wf_rd d.
Proof.
  intros b d Hb H. unfold rd_decode in H.
  destruct b as [|t1 [|t2 [|a [|b2 [|c [|d0 [|e [|f [|? ?]]]]]]]]]; try discriminate.
  unfold bytes_ok in Hb. repeat match goal with H : Forall _ (_ :: _) |- _ => inversion H; clear H; subst end.
  pose proof (of_be16_lt a b2 ltac:(assumption) ltac:(assumption)).
  pose proof (of_be16_lt e f ltac:(assumption) ltac:(assumption)).
  pose proof (of_be32_lt c d0 e f ltac:(assumption) ltac:(assumption) ltac:(assumption) ltac:(assumption)).
  pose proof (of_be32_lt a b2 c d0 ltac:(assumption) ltac:(assumption) ltac:(assumption) ltac:(assumption)).
  destruct (of_be16 t1 t2 =? 0); [injection H as <-; cbn; split; assumption|].
  destruct (of_be16 t1 t2 =? 1); [injection H as <-; cbn; split; assumption|].
  destruct (of_be16 t1 t2 =? 2); [injection H as <-; cbn; split; assumption|discriminate].
Qed.

Lemma decode_ip_wf : forall v6 b i, bytes_ok b -> decode_ip v6 b = Some i -> wf_ip i.
Proof.
  intros v6 b i Hb H. unfold decode_ip in H. destruct (Nat.eqb_spec (length b) (fam_octets v6)) as [E|]; [|discriminate].
  injection H as <-. pose proof (of_bytes_lt b Hb) as L. rewrite E in L. destruct v6; cbn in *; lia.
Qed.

Lemma decode_prefix_wf : forall v6 bits b a, bytes_ok b -> decode_prefix v6 bits b = Some a ->
  wf_prefix (ip_w a) (ip_value a) bits.
Proof.
  intros v6 bits b a Hb H. unfold decode_prefix in H.
  destruct (N.ltb_spec (fam_bits v6) bits) as [|Hle]; [discriminate|].
  destruct (Nat.ltb_spec (length b) (N.to_nat ((bits + 7) / 8))) as [|Hk]; [discriminate|]. injection H as <-.
  set (k := N.to_nat ((bits + 7) / 8)) in *.
  assert (Hkw : (k <= fam_octets v6)%nat) by (unfold k; destruct v6; cbn in *; lia).
  rewrite of_bytes_app_zeros.
  pose proof (of_bytes_lt (firstn k b) (bytes_ok_firstn k b Hb)) as L. rewrite firstn_length_le in L by exact Hk.
  assert (Ew : ip_w (mk_ip v6 (of_bytes (firstn k b) * 256 ^ N.of_nat (fam_octets v6 - k))) = N.of_nat (fam_octets v6))
    by (destruct v6; reflexivity).
  assert (Ev : ip_value (mk_ip v6 (of_bytes (firstn k b) * 256 ^ N.of_nat (fam_octets v6 - k)))
               = of_bytes (firstn k b) * 256 ^ N.of_nat (fam_octets v6 - k)) by (destruct v6; reflexivity).
  rewrite Ew, Ev. unfold wf_prefix.
  assert (Ek : N.of_nat (fam_octets v6) - (bits + 7) / 8 = N.of_nat (fam_octets v6 - k)) by (unfold k; lia).
  rewrite Ek. split; [|split].
  - replace (N.of_nat (fam_octets v6)) with (N.of_nat k + N.of_nat (fam_octets v6 - k)) by lia.
    rewrite N.pow_add_r. apply N.mul_lt_mono_pos_r; [apply N.neq_0_lt_0, N.pow_nonzero; lia|exact L].
  - destruct v6; cbn in *; lia.
  - apply N.mod_mul. apply N.pow_nonzero. lia.
Qed.

Lemma teid_octets_ok : forall x k, (k <= 4)%nat -> x < 256 ^ N.of_nat k ->
  x * 256 ^ N.of_nat (4 - k) < 4294967296 /\ (x * 256 ^ N.of_nat (4 - k) * 256 ^ N.of_nat k) mod 4294967296 = 0.
Proof.
  intros x k Hk Hx.
  assert (E : (k = 0 \/ k = 1 \/ k = 2 \/ k = 3 \/ k = 4)%nat) by lia.
  destruct E as [-> | [-> | [-> | [-> | ->]]]]; cbn in *; lia.
Qed.

Theorem mup_decode_body_wf : forall v6 rt data n, bytes_ok data -> mup_decode_body v6 rt data = Some n -> wf_mup n.
Proof.
  intros v6 rt data n Hb H. unfold mup_decode_body in H.
  destruct (Nat.ltb (length data) 8); [discriminate|].
  destruct (rd_decode (firstn 8 data)) as [d|] eqn:Ed; [|discriminate].
  pose proof (rd_decode_wf _ _ (bytes_ok_firstn 8 data Hb) Ed) as Wd.
  pose proof (bytes_ok_skipn 8 data Hb) as Hs.
  destruct (rt =? 1).
  { destruct (skipn 8 data) as [|plen rest]; [discriminate|]. inversion Hs; subst.
    destruct (decode_prefix v6 plen rest) as [a|] eqn:Ep; [|discriminate]. injection H as <-. cbn.
    split; [exact Wd|eapply decode_prefix_wf; eassumption]. }
  destruct (rt =? 2).
  { destruct (decode_ip v6 (skipn 8 data)) as [a|] eqn:Ea; [|discriminate]. injection H as <-. cbn.
    split; [exact Wd|eapply decode_ip_wf; eassumption]. }
  destruct (rt =? 3).
  { destruct (skipn 8 data) as [|plen rest]; [discriminate|]. inversion Hs as [|? ? Hpl Hr]; subst.
    destruct (Nat.ltb (length rest) _); [discriminate|].
    destruct (decode_prefix v6 plen rest) as [a|] eqn:Ep; [|discriminate].
    destruct (negb _); [discriminate|]. destruct (Nat.ltb (length rest) _); [discriminate|].
    destruct (decode_ip v6 (slice _ _ rest)) as [ep|] eqn:Ee; [|discriminate].
    set (pb := N.to_nat ((plen + 7) / 8)) in *.
    assert (Wt : of_bytes (slice pb 4 rest) < 4294967296).
    { pose proof (of_bytes_lt _ (bytes_ok_slice pb 4 rest Hr)) as L.
      assert (length (slice pb 4 rest) <= 4)%nat by (unfold slice; rewrite firstn_length; lia).
      eapply N.lt_le_trans; [exact L|]. change 4294967296 with (256 ^ 4). apply N.pow_le_mono_r; lia. }
    assert (Wq : nth (pb + 4) rest 0 < 256).
    { destruct (Nat.ltb_spec (pb + 4) (length rest)) as [Hlt|Hge].
      - exact (proj1 (Forall_forall _ _) Hr _ (nth_In rest 0 Hlt)).
      - rewrite nth_overflow by exact Hge. lia. }
    pose proof (decode_prefix_wf _ _ _ _ Hr Ep) as Wp.
    pose proof (decode_ip_wf _ _ _ (bytes_ok_slice _ _ rest Hr) Ee) as We.
    destruct (nth _ rest 0 =? 0).
    - injection H as <-. cbn [wf_mup wf_opt]. exact (conj Wd (conj Wp (conj Wt (conj Wq (conj We I))))).
    - destruct (negb _); [discriminate|]. destruct (Nat.ltb (length rest) _); [discriminate|].
      match type of H with context [decode_ip v6 (slice ?x ?y rest)] => destruct (decode_ip v6 (slice x y rest)) as [s|] eqn:Es end; [|discriminate].
      injection H as <-. cbn [wf_mup wf_opt].
      pose proof (decode_ip_wf _ _ _ (bytes_ok_slice _ _ rest Hr) Es) as Wsrc.
      exact (conj Wd (conj Wp (conj Wt (conj Wq (conj We Wsrc))))). }
  destruct (rt =? 4); [|discriminate].
  destruct (skipn 8 data) as [|ea rest]; [discriminate|]. inversion Hs as [|? ? Hea Hr]; subst.
  destruct ((ea <? fam_bits v6) || (fam_bits v6 + 32 <? ea)) eqn:Er; [discriminate|].
  apply orb_false_iff in Er. destruct Er as [E1 E2]. apply N.ltb_ge in E1. apply N.ltb_ge in E2.
  destruct (Nat.ltb (length rest) (fam_octets v6)); [discriminate|].
  destruct (decode_ip v6 (firstn (fam_octets v6) rest)) as [ep|] eqn:Ee; [|discriminate].
  set (k := N.to_nat ((ea - fam_bits v6 + 7) / 8)) in *.
  destruct (Nat.ltb_spec (length rest) (fam_octets v6 + k)) as [|Hlen]; [discriminate|]. injection H as <-.
  pose proof (decode_ip_wf _ _ _ (bytes_ok_firstn _ rest Hr) Ee) as We.
  assert (Hw : ip_width ep = fam_bits v6).
  { unfold decode_ip in Ee. destruct (Nat.eqb _ _); [|discriminate]. injection Ee as <-. destruct v6; reflexivity. }
  assert (Hk4 : (k <= 4)%nat) by (unfold k; lia).
  pose proof (of_bytes_lt _ (bytes_ok_slice (fam_octets v6) k rest Hr)) as L.
  assert (Hsl : length (slice (fam_octets v6) k rest) = k).
  { unfold slice. rewrite firstn_length, skipn_length. lia. }
  rewrite Hsl in L. rewrite of_bytes_app_zeros.
  destruct (teid_octets_ok _ k Hk4 L) as [T1 T2].
  cbn [wf_mup]. rewrite Hw.
  assert (Ek : (ea - fam_bits v6 + 7) / 8 = N.of_nat k) by (unfold k; lia).
  rewrite Ek.
  split; [exact Wd|]. split; [exact We|]. split; [exact E1|]. split; [exact E2|]. split; [exact T1|]. intros _. exact T2.
Qed.

Section MupHeld.
  Variable v6p : N -> list N.
  Variable v6r : list N -> option N.

  (* every MUP route a session can hold is listed and accepted again as the same route *)
  Theorem mup_held_roundtrip : forall v6 rt data n, v6_contract v6p v6r -> v6_nonempty v6p -> bytes_ok data ->
    mup_decode_body v6 rt data = Some n -> mup_from_api v6r (mup_to_api v6p n) = Some n.
  Proof.
    intros v6 rt data n Hc Hne Hb H. apply mup_roundtrip; [exact Hc|exact Hne|].
    eapply mup_decode_body_wf; eassumption.
  Qed.
End MupHeld.
