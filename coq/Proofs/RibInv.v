(* Reachable-state invariants of Model/Rib.v: every destination stays ranked
   by the decision order through every operation. *)
From Coq Require Import List NArith ZArith Bool Lia Sorting.Permutation Sorting.Sorted.
From RB Require Import Base.Val Model.Rib Spec.BestPath Proofs.RibOrder.
Import ListNotations.
Open Scope N_scope.

(* ------------------------------------------------------- association lists *)

Lemma alookup_aset {A} k k' (v : A) m :
  alookup k' (aset k v m) = if k' =? k then Some v else alookup k' m.
Proof.
  induction m as [|[k0 v0] r IH]; cbn.
  - destruct (k' =? k); reflexivity.
  - destruct (k =? k0) eqn:E; cbn.
    + apply N.eqb_eq in E. subst k0. destruct (k' =? k); reflexivity.
    + destruct (k' =? k0) eqn:E'.
      * apply N.eqb_eq in E'. subst k0. destruct (k' =? k) eqn:E2; [|reflexivity].
        apply N.eqb_eq in E2. subst. rewrite N.eqb_refl in E. discriminate.
      * exact IH.
Qed.

(* membership in [aset] under unique keys *)
Lemma in_aset {A} k (v : A) m k' v' :
  NoDup (map fst m) ->
  In (k', v') (aset k v m) -> (k' = k /\ v' = v) \/ (k' <> k /\ In (k', v') m).
Proof.
  induction m as [|[k0 v0] r IH]; cbn; intro Hnd.
  - intros [H|[]]. injection H as <- <-. left. split; reflexivity.
  - apply NoDup_cons_iff in Hnd as [Hnin Hnd].
    destruct (k =? k0) eqn:E; cbn.
    + apply N.eqb_eq in E. subst k0. intros [H|H].
      * injection H as <- <-. left. split; reflexivity.
      * right. split; [|right; exact H]. intros ->. apply Hnin.
        change k with (fst (k, v')). apply in_map, H.
    + apply N.eqb_neq in E. intros [H|H].
      * injection H as <- <-. right. split; [congruence|left; reflexivity].
      * destruct (IH Hnd H) as [?|[? ?]]; [left; assumption|right; split; [assumption|right; assumption]].
Qed.

Lemma keys_aset {A} k (v : A) m :
  map fst (aset k v m) = if existsb (N.eqb k) (map fst m) then map fst m else map fst m ++ [k].
Proof.
  induction m as [|[k0 v0] r IH]; cbn; [reflexivity|].
  destruct (k =? k0) eqn:E; cbn.
  - apply N.eqb_eq in E. subst. reflexivity.
  - rewrite IH. destruct (existsb (N.eqb k) (map fst r)); reflexivity.
Qed.

Lemma nodup_snoc {A} (l : list A) x : NoDup l -> ~ In x l -> NoDup (l ++ [x]).
Proof.
  induction l as [|a r IH]; cbn; intros Hnd Hx.
  - constructor; [intros []|constructor].
  - apply NoDup_cons_iff in Hnd as [Ha Hr]. constructor.
    + rewrite in_app_iff. intros [H|[H|[]]]; [apply Ha, H|]. apply Hx. left. symmetry. exact H.
    + apply IH; [exact Hr|]. intro H. apply Hx. right. exact H.
Qed.

Lemma nodup_aset {A} k (v : A) m : NoDup (map fst m) -> NoDup (map fst (aset k v m)).
Proof.
  intro H. rewrite keys_aset. destruct (existsb (N.eqb k) (map fst m)) eqn:E; [exact H|].
  apply nodup_snoc; [exact H|]. intro Hin.
  assert (existsb (N.eqb k) (map fst m) = true); [|congruence].
  apply existsb_exists. exists k. split; [exact Hin|apply N.eqb_refl].
Qed.

Lemma in_aremove {A} k (m : list (N * A)) k' v' :
  In (k', v') (aremove k m) -> k' <> k /\ In (k', v') m.
Proof.
  induction m as [|[k0 v0] r IH]; cbn; [intros []|].
  destruct (k =? k0) eqn:E.
  - intro H. destruct (IH H). split; [assumption|right; assumption].
  - apply N.eqb_neq in E. intros [H|H].
    + injection H as <- <-. split; [congruence|left; reflexivity].
    + destruct (IH H). split; [assumption|right; assumption].
Qed.

Lemma keys_aremove_sub {A} k (m : list (N * A)) x : In x (map fst (aremove k m)) -> In x (map fst m).
Proof.
  induction m as [|[k0 v0] r IH]; cbn; [intros []|].
  destruct (k =? k0); cbn; [intro H; right; apply IH, H|].
  intros [H|H]; [left; exact H|right; apply IH, H].
Qed.

Lemma nodup_aremove {A} k (m : list (N * A)) : NoDup (map fst m) -> NoDup (map fst (aremove k m)).
Proof.
  induction m as [|[k0 v0] r IH]; cbn; intro H; [constructor|].
  apply NoDup_cons_iff in H as [Hn Hr]. destruct (k =? k0); cbn; [apply IH, Hr|].
  constructor; [|apply IH, Hr]. intro Hin. apply Hn, (keys_aremove_sub k r), Hin.
Qed.

Lemma alookup_in {A} k (v : A) m : alookup k m = Some v -> In (k, v) m.
Proof.
  induction m as [|[k0 v0] r IH]; cbn; [discriminate|].
  destruct (k =? k0) eqn:E.
  - apply N.eqb_eq in E. subst. intro H. injection H as <-. left. reflexivity.
  - intro H. right. apply IH, H.
Qed.

Lemma in_alookup {A} k (v : A) m : NoDup (map fst m) -> In (k, v) m -> alookup k m = Some v.
Proof.
  induction m as [|[k0 v0] r IH]; cbn; intros Hnd; [intros []|].
  apply NoDup_cons_iff in Hnd as [Hn Hr]. intros [H|H].
  - injection H as <- <-. rewrite N.eqb_refl. reflexivity.
  - destruct (k =? k0) eqn:E; [|apply IH; assumption].
    apply N.eqb_eq in E. subst. exfalso. apply Hn. change k0 with (fst (k0, v)). apply in_map, H.
Qed.

(* ----------------------------------------------------------- the invariant *)

Section Inv.
(* the remote address of the Source behind each allocation token *)
Variable f : N -> N.

Definition wf_entry (e : entry) : Prop := s_addr (e_src e) = f (s_tok (e_src e)).

Record inv1 (t : table) : Prop := {
  i_keys : NoDup (map fst (t_dests t));
  i_ranked : forall net d, In (net, d) (t_dests t) -> ranked (t_flags t) net (d_entries d);
  i_tok : forall net d e, In (net, d) (t_dests t) -> In e (d_entries d) -> wf_entry e
}.

Definition op_wf (o : op) : Prop :=
  match o with
  | Insert s _ _ _ _ _ _ _ => s_addr s = f (s_tok s)
  | _ => True
  end.

Lemma inv1_empty shard : inv1 (empty_table shard).
Proof. split; cbn; [constructor|intros ? ? []|intros ? ? ? []]. Qed.

Lemma ranked_nil fl net : ranked fl net [].
Proof. constructor. Qed.

Lemma in_ins_sorted cmp e l x : In x (ins_sorted cmp e l) -> x = e \/ In x l.
Proof.
  intro H. apply (Permutation_in x (Permutation_sym (ins_sorted_perm cmp e l))) in H.
  destruct H as [->|H]; auto.
Qed.

Lemma ins_lookup_ok t net :
  inv1 t ->
  ranked (t_flags t) net (d_entries (fst (ins_lookup t net)))
  /\ forall e, In e (d_entries (fst (ins_lookup t net))) -> wf_entry e.
Proof.
  intros [Hk Hr Ht]. unfold ins_lookup. destruct (alookup net (t_dests t)) as [d|] eqn:Hd; cbn [fst d_entries].
  - apply alookup_in in Hd. split; [apply (Hr _ _ Hd)|intros e He; apply (Ht _ _ _ Hd He)].
  - split; [constructor|intros ? []].
Qed.

Lemma inv1_insert t s net rpid nh a filt nhinv lim :
  inv1 t -> s_addr s = f (s_tok s) ->
  inv1 (fst (insert t s net rpid nh a filt nhinv lim)).
Proof.
  intros Hinv Hs. destruct (ins_lookup_ok t net Hinv) as [Hdr Hdt]. destruct Hinv as [Hk Hr Ht].
  unfold insert. cbv zeta.
  destruct (ins_over t lim _); [split; assumption|].
  destruct (ins_pid _ _ _) as [pn|]; [|split; assumption].
  cbn [fst]. split; cbn [t_dests t_flags].
  - apply nodup_aset, Hk.
  - intros n d1 Hin. apply (in_aset _ _ _ _ _ Hk) in Hin as [[-> ->]|[_ Hin]]; [|apply (Hr _ _ Hin)].
    cbn [d_entries with_entries]. apply ins_sorted_ranked, ranked_filter, Hdr.
  - intros n d1 e0 Hin He. apply (in_aset _ _ _ _ _ Hk) in Hin as [[-> ->]|[_ Hin]]; [|apply (Ht _ _ _ Hin He)].
    cbn [d_entries with_entries] in He. apply in_ins_sorted in He as [->|He]; [exact Hs|].
    apply filter_In in He as [He _]. apply Hdt, He.
Qed.

Lemma remove_first_sub g l x : In x (remove_first g l) -> In x l.
Proof.
  induction l as [|a r IH]; cbn; [intros []|]. destruct (g a); [intro; right; assumption|].
  intros [H|H]; [left; exact H|right; apply IH, H].
Qed.

Lemma ranked_remove_first fl net g l : ranked fl net l -> ranked fl net (remove_first g l).
Proof.
  unfold ranked. induction l as [|a r IH]; intro Hs; cbn; [constructor|].
  apply StronglySorted_inv in Hs as [Hr Ha]. destruct (g a); [exact Hr|].
  constructor; [apply IH, Hr|]. rewrite Forall_forall in *. intros x Hx. apply Ha, (remove_first_sub g), Hx.
Qed.

Lemma inv1_remove t s net rpid ctr :
  inv1 t -> inv1 (fst (remove t s net rpid ctr)).
Proof.
  intros [Hk Hr Ht]. unfold remove.
  destruct (alookup net (t_dests t)) as [d|] eqn:Hd; [|split; assumption].
  destruct (find _ _) as [removed|]; [|split; assumption]. cbv zeta.
  apply alookup_in in Hd.
  destruct (remove_first (same_key s rpid) (d_entries d)) as [|x xs] eqn:Hrest; cbn [fst]; split; cbn [t_dests t_flags].
  - apply nodup_aremove, Hk.
  - intros n d1 Hin. apply in_aremove in Hin as [_ Hin]. apply (Hr _ _ Hin).
  - intros n d1 e0 Hin He. apply in_aremove in Hin as [_ Hin]. apply (Ht _ _ _ Hin He).
  - apply nodup_aset, Hk.
  - intros n d1 Hin. apply (in_aset _ _ _ _ _ Hk) in Hin as [[-> ->]|[_ Hin]]; [|apply (Hr _ _ Hin)].
    cbn [d_entries with_entries]. rewrite <- Hrest. apply ranked_remove_first, (Hr _ _ Hd).
  - intros n d1 e0 Hin He. apply (in_aset _ _ _ _ _ Hk) in Hin as [[-> ->]|[_ Hin]]; [|apply (Ht _ _ _ Hin He)].
    cbn [d_entries with_entries] in He. rewrite <- Hrest in He. apply remove_first_sub in He. apply (Ht _ _ _ Hd He).
Qed.

(* ---- filter-map and map over the destination list keep the keys *)

Definition fm (g : N -> dest -> option dest) (ds : list (N * dest)) : list (N * dest) :=
  flat_map (fun nd => match g (fst nd) (snd nd) with Some d' => [(fst nd, d')] | None => [] end) ds.

Lemma in_fm g ds n d' :
  In (n, d') (fm g ds) <-> exists d, In (n, d) ds /\ g n d = Some d'.
Proof.
  unfold fm. rewrite in_flat_map. split.
  - intros ([n0 d] & Hin & H). cbn [fst snd] in H. destruct (g n0 d) as [d1|] eqn:E; [|destruct H].
    destruct H as [H|[]]. injection H as <- <-. exists d. split; assumption.
  - intros (d & Hin & E). exists (n, d). split; [exact Hin|]. cbn [fst snd]. rewrite E. left. reflexivity.
Qed.

Lemma keys_fm_sub g ds x : In x (map fst (fm g ds)) -> In x (map fst ds).
Proof.
  intro H. apply in_map_iff in H as ([n d'] & <- & Hin). apply in_fm in Hin as (d & Hin & _).
  apply in_map_iff. exists (n, d). split; [reflexivity|exact Hin].
Qed.

Lemma nodup_fm g ds : NoDup (map fst ds) -> NoDup (map fst (fm g ds)).
Proof.
  induction ds as [|[n d] r IH]; cbn; intro H; [constructor|].
  apply NoDup_cons_iff in H as [Hn Hr].
  change (fm g ((n, d) :: r)) with ((match g n d with Some d' => [(n, d')] | None => [] end) ++ fm g r).
  destruct (g n d); cbn; [|apply IH, Hr].
  constructor; [|apply IH, Hr]. intro Hin. apply Hn, (keys_fm_sub g), Hin.
Qed.

Lemma flat_map_map {A B C} (h : B -> list C) (g : A -> B) l :
  flat_map h (map g l) = flat_map (fun x => h (g x)) l.
Proof. induction l as [|a r IH]; cbn; [reflexivity|]. rewrite IH. reflexivity. Qed.

Definition mp (g : N -> dest -> dest) (ds : list (N * dest)) : list (N * dest) :=
  map (fun nd => (fst nd, g (fst nd) (snd nd))) ds.

Lemma in_mp g ds n d' : In (n, d') (mp g ds) <-> exists d, In (n, d) ds /\ d' = g n d.
Proof.
  unfold mp. rewrite in_map_iff. split.
  - intros ([n0 d] & H & Hin). cbn [fst snd] in H. injection H as <- <-. exists d. split; [assumption|reflexivity].
  - intros (d & Hin & ->). exists (n, d). split; [reflexivity|exact Hin].
Qed.

Lemma keys_mp g ds : map fst (mp g ds) = map fst ds.
Proof. unfold mp. rewrite map_map. reflexivity. Qed.

(* ---- drop / purge *)

Lemma drop_dest_shape fl k addr net d od oc gone :
  drop_dest fl k addr net d = (od, oc, gone) ->
  match od with
  | Some d' => d' = d \/ d_entries d' = filter (fun e => negb (drop_sel fl k addr e)) (d_entries d)
  | None => True
  end.
Proof.
  unfold drop_dest. destruct (negb (existsb _ _)); [intro H; injection H as <- _ _; left; reflexivity|].
  destruct (negb (existsb (fun e => drop_sel fl k addr e && eligible e) (d_entries d)));
    destruct (filter (fun e => negb (drop_sel fl k addr e)) (d_entries d)) eqn:E;
    intro H; injection H as <- _ _; try exact Logic.I; right; cbn [d_entries with_entries]; reflexivity.
Qed.

Lemma drop_op_dests t k addr ctr :
  t_dests (fst (drop_op t k addr ctr))
  = fm (fun n d => fst (fst (drop_dest (t_flags t) k addr n d))) (t_dests t)
  /\ t_flags (fst (drop_op t k addr ctr)) = t_flags t.
Proof.
  unfold drop_op. cbv zeta. destruct (stats_of t addr) as [rcv acc].
  destruct (fold_left _ _ _) as [[rcv' acc'] bad']. cbn [fst t_dests t_flags].
  split; [|reflexivity]. rewrite flat_map_map. reflexivity.
Qed.

Lemma inv1_drop t k addr ctr : inv1 t -> inv1 (fst (drop_op t k addr ctr)).
Proof.
  intros [Hk Hr Ht]. destruct (drop_op_dests t k addr ctr) as [Hd Hf].
  split; rewrite ?Hd, ?Hf.
  - apply nodup_fm, Hk.
  - intros n d' Hin. apply in_fm in Hin as (d & Hin & E).
    destruct (drop_dest (t_flags t) k addr n d) as [[od oc] gone] eqn:Edd. cbn [fst] in E. subst od.
    apply drop_dest_shape in Edd as [->|Edd]; [apply (Hr _ _ Hin)|]. rewrite Edd. apply ranked_filter, (Hr _ _ Hin).
  - intros n d' e0 Hin He. apply in_fm in Hin as (d & Hin & E).
    destruct (drop_dest (t_flags t) k addr n d) as [[od oc] gone] eqn:Edd. cbn [fst] in E. subst od.
    apply drop_dest_shape in Edd as [->|Edd]; [apply (Ht _ _ _ Hin He)|]. rewrite Edd in He.
    apply filter_In in He as [He _]. apply (Ht _ _ _ Hin He).
Qed.

(* ---- next-hop validity *)

Lemma key_for_nhinv fl net e b :
  key_for fl net {| e_lpid := e_lpid e; e_rpid := e_rpid e; e_src := e_src e; e_nh := e_nh e;
                    e_attr := e_attr e; e_filtered := e_filtered e; e_nhinv := b |} = key_for fl net e.
Proof. reflexivity. Qed.

Lemma ranked_map_same_keys fl net (g : entry -> entry) l :
  (forall e, key_for fl net (g e) = key_for fl net e) ->
  ranked fl net l -> ranked fl net (map g l).
Proof.
  intros Hg. unfold ranked. induction l as [|a r IH]; intro Hs; cbn; [constructor|].
  apply StronglySorted_inv in Hs as [Hr Ha]. constructor; [apply IH, Hr|].
  rewrite Forall_forall in *. intros x Hx. apply in_map_iff in Hx as (y & <- & Hy).
  unfold not_worse, cmp_spec. rewrite !Hg. apply (Ha y Hy).
Qed.

Lemma nhv_op_dests t nh r :
  t_dests (fst (nhv_op t nh r)) = mp (fun n d => fst (nhv_dest nh r n d)) (t_dests t)
  /\ t_flags (fst (nhv_op t nh r)) = t_flags t.
Proof.
  unfold nhv_op. cbn [fst set_dests t_dests t_flags]. split; [|reflexivity].
  unfold mp. rewrite map_map. reflexivity.
Qed.

Lemma nhv_dest_entries nh r n d :
  fst (nhv_dest nh r n d) = d \/
  exists g, (forall e, e_src (g e) = e_src e /\ forall fl net, key_for fl net (g e) = key_for fl net e)
            /\ d_entries (fst (nhv_dest nh r n d)) = map g (d_entries d).
Proof.
  unfold nhv_dest. destruct (negb (existsb _ _)); [left; reflexivity|]. right. cbn [fst d_entries with_entries].
  eexists. split; [|reflexivity]. intro e. cbv beta.
  destruct (match e_nh e with Some x => x =? nh | None => false end); split; try reflexivity; intros; reflexivity.
Qed.

Lemma inv1_nhv t nh r : inv1 t -> inv1 (fst (nhv_op t nh r)).
Proof.
  intros [Hk Hr Ht]. destruct (nhv_op_dests t nh r) as [Hd Hf].
  split; rewrite ?Hd, ?Hf.
  - rewrite keys_mp. exact Hk.
  - intros n d' Hin. apply in_mp in Hin as (d & Hin & ->).
    destruct (nhv_dest_entries nh r n d) as [->|(g & Hg & ->)]; [apply (Hr _ _ Hin)|].
    apply ranked_map_same_keys; [intro e; apply Hg|apply (Hr _ _ Hin)].
  - intros n d' e0 Hin He. apply in_mp in Hin as (d & Hin & ->).
    destruct (nhv_dest_entries nh r n d) as [E|(g & Hg & E)]; rewrite E in He; [apply (Ht _ _ _ Hin He)|].
    apply in_map_iff in He as (y & <- & Hy). unfold wf_entry. rewrite (proj1 (Hg y)). apply (Ht _ _ _ Hin Hy).
Qed.

(* ---- stale marking *)

Lemma flags_of_aset fl k v tok : flags_of (aset k v fl) tok = if tok =? k then v else flags_of fl tok.
Proof. unfold flags_of. rewrite alookup_aset. destruct (tok =? k); reflexivity. Qed.

Lemma flags_mark_other llgr fl tok' tok : tok <> tok' -> flags_of (mark llgr fl tok') tok = flags_of fl tok.
Proof.
  intro Hn. unfold mark. destruct (flags_of fl tok') as [s0 l0]. rewrite flags_of_aset.
  apply N.eqb_neq in Hn. rewrite Hn. reflexivity.
Qed.

Lemma flags_mark_dest_other llgr addr fl d tok :
  (forall e, In e (d_entries d) -> from_addr addr e = true -> s_tok (e_src e) <> tok) ->
  flags_of (mark_dest llgr addr fl d) tok = flags_of fl tok.
Proof.
  unfold mark_dest. generalize (d_entries d). intro l. revert fl.
  induction l as [|e r IH]; intros fl H; cbn [fold_left]; [reflexivity|].
  rewrite IH; [|intros e0 He0; apply H; right; exact He0].
  destruct (from_addr addr e) eqn:E; [|reflexivity].
  apply flags_mark_other. intro Heq. apply (H e (or_introl eq_refl) E). symmetry. exact Heq.
Qed.

Lemma flags_restale_other llgr addr ds fl tok :
  (forall n d e, In (n, d) ds -> In e (d_entries d) -> from_addr addr e = true -> s_tok (e_src e) <> tok) ->
  flags_of (restale_flags llgr addr ds fl) tok = flags_of fl tok.
Proof.
  unfold restale_flags. revert fl. induction ds as [|[n d] r IH]; intros fl H; cbn [fold_left]; [reflexivity|].
  rewrite IH; [|intros n0 d0 e0 Hin; apply (H n0 d0 e0); right; exact Hin].
  apply flags_mark_dest_other. intros e He. apply (H n d e); [left; reflexivity|exact He].
Qed.

Lemma key_for_flags fl1 fl2 net e :
  flags_of fl1 (s_tok (e_src e)) = flags_of fl2 (s_tok (e_src e)) ->
  key_for fl1 net e = key_for fl2 net e.
Proof.
  intro H. unfold key_for, evpn_key, spec_key, is_llgr_stale, src_llgr, is_stale. rewrite H. reflexivity.
Qed.

Lemma ranked_ext fl1 fl2 net l :
  (forall e, In e l -> key_for fl2 net e = key_for fl1 net e) ->
  ranked fl1 net l -> ranked fl2 net l.
Proof.
  unfold ranked. induction l as [|a r IH]; intros Hk Hs; [constructor|].
  apply StronglySorted_inv in Hs as [Hr Ha]. constructor.
  - apply IH; [intros e He; apply Hk; right; exact He|exact Hr].
  - rewrite Forall_forall in *. intros x Hx. unfold not_worse, cmp_spec.
    rewrite (Hk a (or_introl eq_refl)), (Hk x (or_intror Hx)). apply (Ha x Hx).
Qed.

Lemma restale_op_dests t llgr addr :
  let fl' := restale_flags llgr addr (t_dests t) (t_flags t) in
  t_dests (fst (restale_op t llgr addr)) = mp (fun n d => fst (restale_dest fl' llgr addr n d)) (t_dests t)
  /\ t_flags (fst (restale_op t llgr addr)) = fl'.
Proof.
  unfold restale_op. cbv zeta. cbn [fst t_dests t_flags]. split; [|reflexivity].
  unfold mp. rewrite map_map. reflexivity.
Qed.

Lemma from_addr_eq addr e : from_addr addr e = true <-> s_addr (e_src e) = addr.
Proof. unfold from_addr. apply N.eqb_eq. Qed.

Lemma inv1_restale t llgr addr : inv1 t -> inv1 (fst (restale_op t llgr addr)).
Proof.
  intros [Hk Hr Ht]. destruct (restale_op_dests t llgr addr) as [Hd Hf]. cbv zeta in Hd, Hf.
  set (fl' := restale_flags llgr addr (t_dests t) (t_flags t)) in *.
  split; rewrite ?Hd, ?Hf.
  - rewrite keys_mp. exact Hk.
  - intros n d' Hin. apply in_mp in Hin as (d & Hin & ->). unfold restale_dest.
    destruct (existsb (from_addr addr) (d_entries d)) eqn:Ex; cbn [negb fst].
    + cbn [d_entries with_entries]. apply isort_ranked.
    + (* no entry of this destination had its source marked *)
      apply (ranked_ext (t_flags t)); [|apply (Hr _ _ Hin)].
      intros e He. apply key_for_flags. unfold fl'. apply flags_restale_other.
      intros n0 d0 e0 Hin0 He0 Hfrom Htok.
      assert (Hne : from_addr addr e = false).
      { destruct (from_addr addr e) eqn:E; [|reflexivity].
        assert (existsb (from_addr addr) (d_entries d) = true); [|congruence].
        apply existsb_exists. exists e. split; assumption. }
      apply from_addr_eq in Hfrom.
      pose proof (Ht _ _ _ Hin0 He0) as W0. pose proof (Ht _ _ _ Hin He) as W.
      unfold wf_entry in *. rewrite Htok in W0.
      assert (s_addr (e_src e) = addr) by congruence.
      apply from_addr_eq in H. congruence.
  - intros n d' e0 Hin He. apply in_mp in Hin as (d & Hin & ->). unfold restale_dest in He.
    destruct (negb (existsb (from_addr addr) (d_entries d))); cbn [fst d_entries with_entries] in He;
      [apply (Ht _ _ _ Hin He)|].
    apply (Permutation_in e0 (Permutation_sym (isort_perm _ _))) in He. apply (Ht _ _ _ Hin He).
Qed.

Lemma inv1_set_deferring t b : inv1 t -> inv1 (set_deferring t b).
Proof. intros [Hk Hr Ht]. split; assumption. Qed.

Lemma inv1_step t o : inv1 t -> op_wf o -> inv1 (fst (fst (step t o))).
Proof.
  intros Hi Hw. destruct o as [s net rpid nh a filt nhinv lim|s net rpid ctr|k addr ctr|llgr addr|nh r| |];
    cbn [step op_wf] in *.
  - pose proof (inv1_insert t s net rpid nh a filt nhinv lim Hi Hw) as H.
    destruct (insert t s net rpid nh a filt nhinv lim) as [t' [| |c]]; exact H.
  - pose proof (inv1_remove t s net rpid ctr Hi) as H.
    destruct (remove t s net rpid ctr) as [t' [c|]]; exact H.
  - pose proof (inv1_drop t k addr ctr Hi) as H. destruct (drop_op t k addr ctr) as [t' cs]. exact H.
  - pose proof (inv1_restale t llgr addr Hi) as H. destruct (restale_op t llgr addr) as [t' cs]. exact H.
  - pose proof (inv1_nhv t nh r Hi) as H. destruct (nhv_op t nh r) as [t' cs]. exact H.
  - apply inv1_set_deferring, Hi.
  - apply inv1_set_deferring, Hi.
Qed.

Lemma inv1_run t ops : inv1 t -> Forall op_wf ops -> inv1 (run t ops).
Proof.
  revert t. induction ops as [|o r IH]; intros t Hi Hw; cbn; [exact Hi|].
  apply Forall_cons_iff in Hw as [Ho Hr]. apply IH; [apply inv1_step; assumption|exact Hr].
Qed.

End Inv.
