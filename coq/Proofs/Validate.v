(* C05: what validate_update does with a parsed UPDATE whose error list is not
   empty, for every parsed UPDATE value (hence for every byte string that parses). *)
From Coq Require Import List NArith ZArith Bool Lia ZifyBool ZifyNat ZifyN.
From RB Require Import Base.Val Base.Bytes Model.Wire Model.WireNlri Model.WireUpdate Model.WireMsg
     Spec.Rfc7606 Model.Validate.
Import ListNotations.
Open Scope N_scope.

(* the condition under which the code treats the announcements as withdrawals *)
Definition mandatory_missing (reach mp_reach : option (N * list (N * nlri) * option (list N))) (attrs : list attr) : bool :=
  (match reach, mp_reach with None, None => false | _, _ => true end) &&
  (negb (has_code 1 attrs) || negb (has_code 2 attrs)
   || (match reach with Some (_, _, None) => true | _ => false end)
   || (match mp_reach with Some (f, _, None) => negb (is_flowspec f) | _ => false end)).

Definition is_reach (m : vmsg) : bool := match m with VReach _ _ _ _ => true | _ => false end.

Lemma validate_routes reach mp_reach unreach mp_unreach attrs errs e :
  existsb err_fatal errs = true \/ mandatory_missing reach mp_reach attrs = true ->
  validate_update (URoutes reach mp_reach unreach mp_unreach attrs errs) e =
  map (fun r => match r with (f, en, _) => VUnreach f en end) (opt_list reach ++ opt_list mp_reach)
  ++ map (fun r => VUnreach (fst r) (snd r)) (opt_list unreach ++ opt_list mp_unreach).
Proof.
  intro H. unfold validate_update.
  match goal with |- (if ?c then _ else _) = _ => assert (Hc : c = true) end.
  { unfold mandatory_missing in H.
    destruct H as [H|H]; [rewrite H; apply orb_true_r|].
    apply orb_true_iff. left.
    destruct reach as [[[? ?] [?|]]|], mp_reach as [[[? ?] [?|]]|]; cbn in *; exact H. }
  rewrite Hc. reflexivity.
Qed.

(* (1) nothing announced by a faulty UPDATE is delivered as an announcement, and
   every prefix it announced is delivered as a withdrawal *)
Theorem C05_bad_update_installs_nothing reach mp_reach unreach mp_unreach attrs errs e :
  existsb err_fatal errs = true \/ mandatory_missing reach mp_reach attrs = true ->
  let out := validate_update (URoutes reach mp_reach unreach mp_unreach attrs errs) e in
  (forall m, In m out -> is_reach m = false) /\
  (forall f en nh, In (f, en, nh) (opt_list reach ++ opt_list mp_reach) -> In (VUnreach f en) out).
Proof.
  intro H. cbv zeta. rewrite (validate_routes _ _ _ _ _ _ _ H). split.
  - intros m Hin. apply in_app_or in Hin. destruct Hin as [Hin|Hin]; apply in_map_iff in Hin;
      destruct Hin as (x & <- & _); [destruct x as [[? ?] ?]|]; reflexivity.
  - intros f en nh Hin. apply in_or_app. left. apply in_map_iff. exists (f, en, nh). split; [reflexivity|exact Hin].
Qed.

(* (2) withdrawals carried by the UPDATE are delivered whatever is wrong with its attributes *)
Theorem C05_withdrawals_survive_errors reach mp_reach unreach mp_unreach attrs errs e :
  forall f en, In (f, en) (opt_list unreach ++ opt_list mp_unreach) ->
  In (VUnreach f en) (validate_update (URoutes reach mp_reach unreach mp_unreach attrs errs) e).
Proof.
  intros f en Hin. unfold validate_update.
  match goal with |- In _ (if ?c then _ else _) => destruct c end.
  - apply in_or_app. right. apply in_map_iff. exists (f, en). split; [reflexivity|exact Hin].
  - apply in_app_or in Hin. destruct Hin as [Hin|Hin].
    + apply in_or_app. right. apply in_or_app. left. apply in_map_iff. exists (f, en). split; [reflexivity|exact Hin].
    + apply in_or_app. right. apply in_or_app. right. apply in_or_app. right.
      apply in_map_iff. exists (f, en). split; [reflexivity|exact Hin].
Qed.

(* (3) the RIB effect: after a faulty UPDATE none of its announced prefixes is in the
   Adj-RIB-In, whatever was there before *)
Definition has_key (r : rib) (k : key) : bool := existsb (fun e => key_eqb (fst e) k) r.

Lemma leqb_refl x : leqb x x = true.
Proof. unfold leqb. destruct (list_eq_dec N.eq_dec x x); congruence. Qed.
Lemma fcomp_eqb_refl c : fcomp_eqb c c = true.
Proof. destruct c; cbn; rewrite ?N.eqb_refl, ?leqb_refl; reflexivity. Qed.
Lemma combine_self_forallb (l : list fcomp) : forallb (fun p => fcomp_eqb (fst p) (snd p)) (combine l l) = true.
Proof. induction l as [|x l IH]; [reflexivity|]. cbn. rewrite fcomp_eqb_refl, IH. reflexivity. Qed.
Lemma nlri_eqb_refl x : nlri_eqb x x = true.
Proof.
  destruct x; cbn; rewrite ?N.eqb_refl, ?leqb_refl, ?PeanoNat.Nat.eqb_refl, ?combine_self_forallb; reflexivity.
Qed.
Lemma key_eqb_refl k : key_eqb k k = true.
Proof. destruct k as [[f p] x]. cbn. rewrite !N.eqb_refl, nlri_eqb_refl. reflexivity. Qed.

Lemma has_key_remove r k k' : has_key r k = false -> has_key (rib_remove r k') k = false.
Proof.
  unfold has_key, rib_remove. induction r as [|x r IH]; [reflexivity|]. cbn [existsb filter].
  intro H. apply orb_false_iff in H. destruct H as [H1 H2].
  destruct (negb (key_eqb (fst x) k')); [cbn [existsb]; rewrite H1; exact (IH H2)|exact (IH H2)].
Qed.

Lemma has_key_remove_same r k : has_key (rib_remove r k) k = false.
Proof.
  unfold has_key, rib_remove. induction r as [|x r IH]; [reflexivity|]. cbn [filter].
  destruct (key_eqb (fst x) k) eqn:E; cbn [negb]; [exact IH|]. cbn [existsb]. rewrite E. exact IH.
Qed.

Lemma remove_fold_keeps_absent f es : forall r k, has_key r k = false ->
  has_key (fold_left (fun r e => rib_remove r (f, fst e, snd e)) es r) k = false.
Proof. induction es as [|e es IH]; intros r k H; [exact H|]. cbn [fold_left]. apply IH. apply has_key_remove. exact H. Qed.

Lemma remove_fold_removes f es : forall r e, In e es ->
  has_key (fold_left (fun r e => rib_remove r (f, fst e, snd e)) es r) (f, fst e, snd e) = false.
Proof.
  induction es as [|x es IH]; intros r e Hin; [destruct Hin|]. cbn [fold_left].
  destruct Hin as [->|Hin]; [apply remove_fold_keeps_absent; apply has_key_remove_same|apply IH; exact Hin].
Qed.

Lemma apply_no_reach_keeps_absent ms : (forall m, In m ms -> is_reach m = false) ->
  forall r k, has_key r k = false -> has_key (apply_all r ms) k = false.
Proof.
  unfold apply_all. induction ms as [|m ms IH]; intros Hn r k H; [exact H|]. cbn [fold_left].
  apply IH; [intros m' Hm; apply Hn; right; exact Hm|].
  specialize (Hn m (or_introl eq_refl)). destruct m; cbn [apply_vmsg]; [exact H|discriminate|].
  apply remove_fold_keeps_absent. exact H.
Qed.

Lemma apply_no_reach_removes ms : (forall m, In m ms -> is_reach m = false) ->
  forall f es e r, In (VUnreach f es) ms -> In e es -> has_key (apply_all r ms) (f, fst e, snd e) = false.
Proof.
  unfold apply_all. induction ms as [|m ms IH]; intros Hn f es e r Hin He; [destruct Hin|]. cbn [fold_left].
  destruct Hin as [->|Hin].
  - cbn [apply_vmsg]. apply (apply_no_reach_keeps_absent ms); [intros m' Hm; apply Hn; right; exact Hm|].
    apply remove_fold_removes. exact He.
  - apply IH with (es := es); try assumption. intros m' Hm; apply Hn; right; exact Hm.
Qed.

Theorem C05_bad_update_leaves_no_route reach mp_reach unreach mp_unreach attrs errs e (r : rib) :
  existsb err_fatal errs = true \/ mandatory_missing reach mp_reach attrs = true ->
  forall f en nh x, In (f, en, nh) (opt_list reach ++ opt_list mp_reach) -> In x en ->
  has_key (apply_all r (validate_update (URoutes reach mp_reach unreach mp_unreach attrs errs) e)) (f, fst x, snd x) = false.
Proof.
  intros H f en nh x Hin Hx.
  destruct (C05_bad_update_installs_nothing reach mp_reach unreach mp_unreach attrs errs e H) as [Hn Hu].
  eapply apply_no_reach_removes; [exact Hn|eapply Hu; exact Hin|exact Hx].
Qed.

(* (4) LOCAL_PREF, ORIGINATOR_ID and CLUSTER_LIST never reach the RIB from an external peer *)
Theorem C05_ibgp_only_attrs_dropped_from_external u role :
  external role = true ->
  forall f en nh attrs a, In (VReach f en nh attrs) (validate_update u (is_ebgp_of_role role)) -> In a attrs ->
  a_code a <> 5 /\ a_code a <> 9 /\ a_code a <> 10.
Proof.
  intros Hext f en nh attrs a Hin Ha.
  assert (He : is_ebgp_of_role role = true) by (destruct role; cbn in *; congruence).
  rewrite He in Hin. unfold validate_update in Hin.
  destruct u as [fam|reach mp_reach unreach mp_unreach attrs0 errs]; [destruct Hin as [H|[]]; discriminate|].
  match type of Hin with In _ (if ?c then _ else _) => destruct c end.
  - apply in_app_or in Hin. destruct Hin as [Hin|Hin]; apply in_map_iff in Hin;
      destruct Hin as (x & Hx & _); [destruct x as [[? ?] ?]|]; discriminate.
  - assert (Hattrs : attrs = filter (fun a => negb ((a_code a =? 5) || (a_code a =? 9) || (a_code a =? 10))) attrs0).
    { repeat (apply in_app_or in Hin; destruct Hin as [Hin|Hin]);
        apply in_map_iff in Hin; destruct Hin as (x & Hx & _);
        try (destruct x as [[? ?] ?]); try discriminate; injection Hx as _ _ _ <-; reflexivity. }
    subst attrs. apply filter_In in Ha. destruct Ha as [_ Ha].
    apply negb_true_iff in Ha. apply orb_false_iff in Ha. destruct Ha as [Ha H10].
    apply orb_false_iff in Ha. destruct Ha as [H5 H9]. lia.
Qed.

(* before the repair run_select passed matches!(role, Ebgp): a route-server client,
   an external peer, had its LOCAL_PREF believed *)
Lemma C05_ibgp_only_attrs_v0_refuted :
  exists u role f en nh attrs a,
    external role = true /\
    In (VReach f en nh attrs) (validate_update u (is_ebgp_of_role_v0 role)) /\ In a attrs /\ a_code a = 5.
Proof.
  set (lp := {| a_code := 5; a_flags := 64; a_data := AVal 200 |}).
  set (o := {| a_code := 1; a_flags := 64; a_data := AVal 0 |}).
  set (p := {| a_code := 2; a_flags := 64; a_data := ABin [] |}).
  exists (URoutes (Some (F_IPV4, [(0, NV4 8 [10; 0; 0; 0])], Some [192; 0; 2; 1])) None None None [o; p; lp] []),
         RRsClient, F_IPV4, [(0, NV4 8 [10; 0; 0; 0])], (Some [192; 0; 2; 1]), [o; p; lp], lp.
  repeat split; cbn; auto.
Qed.

(* Non-vacuity of the hypotheses of (1)-(3): a parsed UPDATE with a fatal error entry *)
Example bad_update_example :
  existsb err_fatal [(1, 64)] = true /\
  mandatory_missing (Some (F_IPV4, [(0, NV4 8 [10; 0; 0; 0])], None)) None [] = true.
Proof. split; reflexivity. Qed.
