(* Every prefix set the CRUD calls can store is well formed (each treebitmap
   key is its entry's address masked to the entry's length, lengths within the
   family's width), so the hypothesis [wf_assignment] of the refinement theorem
   holds of every assignment reachable through the API (property C14). *)
From Coq Require Import List NArith ZArith Bool Lia.
From RB Require Import Base.Val Model.Policy Model.PolicyTable Spec.PolicySpec Proofs.Policy Proofs.PolicyTable.
Import ListNotations.
Open Scope N_scope.

Definition set_wf (s : setv) : Prop := match s with SPrefix p => wf_pset p | _ => True end.
Definition sets_wf (sets : list (N * N * setv)) : Prop :=
  forall k n s, lookup_set k n sets = Some s -> set_wf s.

Lemma pent_insert_wf w e l : wf_pent w e -> Forall (wf_pent w) l -> Forall (wf_pent w) (pent_insert e l).
Proof.
  intros He. induction l as [|f r IH]; intros Hl; cbn [pent_insert]; [constructor; [exact He|constructor]|].
  inversion Hl as [|? ? Hf Hr]; subst. destruct (pent_same_key e f).
  - constructor; assumption.
  - constructor; [assumption|apply IH; assumption].
Qed.

Lemma insert_all_wf w : forall new acc out,
  Forall (fun x => snd (fst (fst x)) <= w) new -> Forall (wf_pent w) acc ->
  insert_all w new acc = Ok out -> Forall (wf_pent w) out.
Proof.
  induction new as [|[[[a m] lo] hi] r IH]; intros acc out Hn Ha H; cbn [insert_all] in H.
  - inversion H; subst. exact Ha.
  - inversion Hn as [|? ? Hm Hr]; subst. cbn [fst snd] in Hm.
    destruct (insert_panics w a m); [discriminate|].
    apply (IH _ _ Hr) in H; [exact H|]. apply pent_insert_wf; [|exact Ha].
    split; [exact Hm|reflexivity].
Qed.

Lemma parse_pfx_bound l es :
  parse_all pfx_parse l = Some es ->
  Forall (fun x => match x with (v6, _, m, _, _) => m <= width v6 end) es.
Proof.
  revert es. induction l as [|c l IH]; intros es H; cbn [parse_all] in H.
  - inversion H; subst. constructor.
  - destruct (pfx_parse c) as [[[[[v6 a] m] lo] hi]|] eqn:P; [|discriminate].
    destruct (parse_all pfx_parse l) as [bs|]; [|discriminate]. inversion H; subst.
    constructor; [|apply IH; reflexivity].
    unfold pfx_parse in P. destruct c as [|v a0 m0 lo0 hi0]; [discriminate|].
    destruct (m0 <=? width v) eqn:E; [|discriminate]. inversion P; subst. apply N.leb_le; exact E.
Qed.

Lemma split_pfx_bound es z z6 l4 l6 :
  Forall (fun x => match x with (v6, _, m, _, _) => m <= width v6 end) es ->
  split_pfx es = (z, z6, l4, l6) ->
  Forall (fun x => snd (fst (fst x)) <= 32) l4 /\ Forall (fun x => snd (fst (fst x)) <= 128) l6.
Proof.
  revert z z6 l4 l6. induction es as [|[[[[v6 a] m] lo] hi] r IH]; intros z z6 l4 l6 Hb H; cbn [split_pfx] in H.
  - inversion H; subst. split; constructor.
  - inversion Hb as [|? ? Hm Hr]; subst.
    destruct (split_pfx r) as [[[z0 z60] l40] l60] eqn:S.
    destruct (IH z0 z60 l40 l60 Hr eq_refl) as [H4 H6].
    destruct (is_zero_pfx a m).
    + destruct v6; inversion H; subst; split; assumption.
    + destruct v6; inversion H; subst; (split; [|]); try assumption; constructor; try assumption; exact Hm.
Qed.

Lemma build_set_wf ex c s :
  (forall o, ex = Some o -> set_wf o) -> build_set ex c = Ok (inl s) -> set_wf s.
Proof.
  intros Hex H. destruct c as [l|l|l|l|l|l]; cbn [build_set] in H;
    try (match type of H with context [parse_all ?f ?l] => destruct (parse_all f l) as [ps|] end; [|discriminate];
         destruct ex as [[| | | | |]|]; try (destruct ps; try discriminate); inversion H; exact I).
  destruct (parse_all pfx_parse l) as [es|] eqn:P; [|discriminate].
  pose proof (parse_pfx_bound l es P) as Hb.
  destruct (split_pfx es) as [[[z z6] l4] l6] eqn:S.
  destruct (split_pfx_bound es z z6 l4 l6 Hb S) as [B4 B6].
  assert (Hnew : forall v4 v6 a4 a6 zz zz6,
             Forall (wf_pent 32) a4 -> Forall (wf_pent 128) a6 ->
             insert_all 32 l4 a4 = Ok v4 -> insert_all 128 l6 a6 = Ok v6 ->
             set_wf (SPrefix {| ps_v4 := v4; ps_v6 := v6; ps_zero := zz; ps_zero6 := zz6 |})).
  { intros v4 v6 a4 a6 zz zz6 W4 W6 I4 I6. split; cbn [ps_v4 ps_v6].
    - apply (insert_all_wf 32 l4 a4 v4 B4 W4 I4).
    - apply (insert_all_wf 128 l6 a6 v6 B6 W6 I6). }
  destruct ex as [[old|o|o|o|o|o]|].
  - destruct (Hex _ eq_refl) as [W4 W6].
    destruct (insert_all 32 l4 (ps_v4 old)) as [v4|] eqn:I4; cbn [bind] in H; [|discriminate].
    destruct (insert_all 128 l6 (ps_v6 old)) as [v6|] eqn:I6; cbn [bind] in H; [|discriminate].
    inversion H; subst. apply (Hnew v4 v6 _ _ _ _ W4 W6 I4 I6).
  - destruct l4, l6, z, z6; try discriminate;
      (destruct (insert_all 32 _ []) as [v4|] eqn:I4; cbn [bind] in H; [|discriminate];
       destruct (insert_all 128 _ []) as [v6|] eqn:I6; cbn [bind] in H; [|discriminate];
       inversion H; subst; apply (Hnew v4 v6 [] [] _ _ (Forall_nil _) (Forall_nil _) I4 I6)).
  - destruct l4, l6, z, z6; try discriminate;
      (destruct (insert_all 32 _ []) as [v4|] eqn:I4; cbn [bind] in H; [|discriminate];
       destruct (insert_all 128 _ []) as [v6|] eqn:I6; cbn [bind] in H; [|discriminate];
       inversion H; subst; apply (Hnew v4 v6 [] [] _ _ (Forall_nil _) (Forall_nil _) I4 I6)).
  - destruct l4, l6, z, z6; try discriminate;
      (destruct (insert_all 32 _ []) as [v4|] eqn:I4; cbn [bind] in H; [|discriminate];
       destruct (insert_all 128 _ []) as [v6|] eqn:I6; cbn [bind] in H; [|discriminate];
       inversion H; subst; apply (Hnew v4 v6 [] [] _ _ (Forall_nil _) (Forall_nil _) I4 I6)).
  - destruct l4, l6, z, z6; try discriminate;
      (destruct (insert_all 32 _ []) as [v4|] eqn:I4; cbn [bind] in H; [|discriminate];
       destruct (insert_all 128 _ []) as [v6|] eqn:I6; cbn [bind] in H; [|discriminate];
       inversion H; subst; apply (Hnew v4 v6 [] [] _ _ (Forall_nil _) (Forall_nil _) I4 I6)).
  - destruct l4, l6, z, z6; try discriminate;
      (destruct (insert_all 32 _ []) as [v4|] eqn:I4; cbn [bind] in H; [|discriminate];
       destruct (insert_all 128 _ []) as [v6|] eqn:I6; cbn [bind] in H; [|discriminate];
       inversion H; subst; apply (Hnew v4 v6 [] [] _ _ (Forall_nil _) (Forall_nil _) I4 I6)).
  - destruct l4, l6, z, z6; try discriminate;
      (destruct (insert_all 32 _ []) as [v4|] eqn:I4; cbn [bind] in H; [|discriminate];
       destruct (insert_all 128 _ []) as [v6|] eqn:I6; cbn [bind] in H; [|discriminate];
       inversion H; subst; apply (Hnew v4 v6 [] [] _ _ (Forall_nil _) (Forall_nil _) I4 I6)).
Qed.

Lemma filter_Forall {A} (P : A -> Prop) f l : Forall P l -> Forall P (filter f l).
Proof. rewrite !Forall_forall. intros H x Hx. apply filter_In in Hx. apply H. tauto. Qed.

Lemma pset_remove_wf es : forall p, wf_pset p -> wf_pset (pset_remove es p).
Proof.
  induction es as [|[[[[v6 a] m] lo] hi] r IH]; intros p Hp; cbn [pset_remove]; [exact Hp|].
  apply IH. destruct Hp as [H4 H6].
  destruct (is_zero_pfx a m); destruct v6; split; cbn [ps_v4 ps_v6]; try assumption;
    unfold pent_remove; apply filter_Forall; assumption.
Qed.

Lemma shrink_set_wf old c s : set_wf old -> shrink_set old c = inl s -> set_wf s.
Proof.
  intros Ho H. destruct c as [l|l|l|l|l|l], old; cbn [shrink_set] in H; try discriminate;
    match type of H with context [parse_all ?f ?l] => destruct (parse_all f l) as [ps|] end; try discriminate;
    inversion H; subst; try exact I.
  apply pset_remove_wf. exact Ho.
Qed.

Lemma sets_wf_put sets k n s : sets_wf sets -> set_wf s -> sets_wf (put_set k n s sets).
Proof.
  intros H Hs k' n' s' L. rewrite lookup_put_set in L. destruct (same_key k' n' k n).
  - inversion L; subst. exact Hs.
  - apply (H k' n' s' L).
Qed.

Lemma sets_wf_remove sets k n : sets_wf sets -> sets_wf (remove_set k n sets).
Proof.
  intros H k' n' s' L. rewrite lookup_remove_set in L. destruct (same_key k' n' k n); [discriminate|].
  apply (H k' n' s' L).
Qed.

Lemma add_defined_set_wf t n c t' code :
  sets_wf (t_sets t) -> add_defined_set t n c = Ok (t', code) -> sets_wf (t_sets t').
Proof.
  intros Hw H. unfold add_defined_set in H.
  destruct (negb (cfg_parses c)); [inversion H; subst; exact Hw|].
  destruct (lookup_set (cfg_kind c) n (t_sets t)) as [old|] eqn:L.
  - destruct (set_in_use t (cfg_kind c) n); [inversion H; subst; exact Hw|].
    destruct (build_set (Some old) c) as [[s|e]|tag] eqn:B; cbn [bind] in H; inversion H; subst; [|exact Hw].
    cbn [with_sets t_sets]. apply sets_wf_put; [exact Hw|].
    apply (build_set_wf (Some old) c s); [|exact B]. intros o E. inversion E; subst. apply (Hw _ _ _ L).
  - destruct (build_set None c) as [[s|e]|tag] eqn:B; cbn [bind] in H; inversion H; subst; [|exact Hw].
    cbn [with_sets t_sets]. apply sets_wf_put; [exact Hw|].
    apply (build_set_wf None c s); [|exact B]. intros o E. discriminate.
Qed.

Lemma crud_step_sets_wf t o t' code :
  sets_wf (t_sets t) -> crud_step t o = Ok (t', code) -> sets_wf (t_sets t').
Proof.
  intros Hw H. destruct o; cbn [crud_step lift] in H.
  - destruct replace.
    + unfold replace_defined_set in H. destruct (set_in_use t (cfg_kind c) name); [inversion H; subst; exact Hw|].
      apply (add_defined_set_wf _ name c t' code) in H; [exact H|]. cbn [with_sets t_sets]. apply sets_wf_remove; exact Hw.
    + apply (add_defined_set_wf t name c t' code Hw H).
  - inversion H as [E]. unfold delete_defined_set in E.
    destruct (set_in_use t (cfg_kind c) name); [inversion E; subst; exact Hw|].
    destruct (lookup_set (cfg_kind c) name (t_sets t)) as [old|] eqn:L; [|inversion E; subst; exact Hw].
    destruct all.
    + inversion E; subst. cbn [with_sets t_sets]. apply sets_wf_remove; exact Hw.
    + destruct (shrink_set old c) as [s|e] eqn:B; inversion E; subst; [|exact Hw].
      cbn [with_sets t_sets]. apply sets_wf_put; [exact Hw|]. apply (shrink_set_wf old c s (Hw _ _ _ L) B).
  - inversion H as [E]. unfold add_statement in E.
    repeat match type of E with context [match ?x with _ => _ end] => destruct x end; inversion E; subst; exact Hw.
  - inversion H as [E]. unfold delete_statement in E.
    repeat match type of E with context [match ?x with _ => _ end] => destruct x end; inversion E; subst; exact Hw.
  - inversion H as [E]. unfold add_policy in E.
    repeat match type of E with context [match ?x with _ => _ end] => destruct x end; inversion E; subst; exact Hw.
  - inversion H as [E]. unfold delete_policy in E.
    repeat match type of E with context [match ?x with _ => _ end] => destruct x end; inversion E; subst; exact Hw.
  - inversion H as [E]. unfold add_assignment in E.
    destruct (build_assignment t _ import d names); inversion E; subst; [|exact Hw].
    unfold with_asg. destruct import; exact Hw.
  - inversion H as [E]. unfold delete_assignment in E. destruct all.
    + inversion E; subst. unfold with_asg. destruct import; exact Hw.
    + destruct (slot t import); inversion E; subst; [|exact Hw]. unfold with_asg. destruct import; exact Hw.
  - inversion H; subst. exact Hw.
  - inversion H; subst. exact Hw.
  - inversion H; subst. exact Hw.
  - inversion H; subst. exact Hw.
Qed.

Lemma history_sets_wf l : forall t, sets_wf (t_sets t) -> sets_wf (t_sets (run_history t l)).
Proof.
  induction l as [|o l IH]; intros t Hw; cbn [run_history]; [exact Hw|].
  destruct (crud_step t o) as [[t' c]|tag] eqn:E; [|exact Hw].
  apply IH. apply (crud_step_sets_wf t o t' c Hw E).
Qed.

(* with the reference invariant, well-formed stored sets make every live
   assignment well formed *)
Lemma live_assignment_wf t a :
  refs_ok t -> sets_wf (t_sets t) -> (t_imp t = Some a \/ t_exp t = Some a) -> wf_assignment a.
Proof.
  intros (_ & Hs & Hst & Hi & He) Hw Ha. unfold wf_assignment. rewrite Forall_forall. intros p Hp.
  assert (Lp : lookup_pol (p_name p) (t_pols t) = Some p) by (destruct Ha as [E|E]; [apply (Hi a p E Hp)|apply (He a p E Hp)]).
  apply lookup_pol_name in Lp. destruct Lp as [_ Inp].
  rewrite Forall_forall. intros s Hsin.
  pose proof (Hst p s Inp Hsin) as Ls. apply lookup_stmt_name in Ls. destruct Ls as [_ Ins].
  unfold wf_stmt. rewrite Forall_forall. intros c Hc.
  destruct c as [n o sv| | | | | | | | |]; try exact I.
  pose proof (Hs s n o sv Ins Hc) as L. pose proof (Hw _ _ _ L) as W.
  destruct sv; try exact I. exact W.
Qed.

(* every assignment in force after any history of API calls satisfies the
   refinement theorem's well-formedness hypothesis *)
Lemma C14_api_built_assignments_wf :
  forall l a, let t := run_history empty_table l in
              (t_imp t = Some a \/ t_exp t = Some a) -> wf_assignment a.
Proof.
  intros l a t Ha. apply (live_assignment_wf t a).
  - apply history_refs_ok, refs_ok_empty.
  - apply history_sets_wf. intros k n s L. discriminate.
  - exact Ha.
Qed.
