(* C17  The lossless-or-raw wrapper of attr_to_api makes the round trip of
   TUNNEL_ENCAP / PREFIX_SID / BGP-LS attributes hold whatever the typed converters do. *)
From Coq Require Import List ZArith NArith Bool Lia ZifyBool ZifyNat ZifyN.
From RB Require Import Base.Val Model.Api Spec.ApiSpec Proofs.ApiBytes Proofs.ApiRt Proofs.ApiWf.
Import ListNotations.
Open Scope N_scope.

Lemma list_eqb_eq : forall a b, list_eqb a b = true -> a = b.
Proof.
  induction a as [|x a IH]; intros [|y b] H; cbn [list_eqb] in H; try discriminate; [reflexivity|].
  apply andb_prop in H. destruct H as [Hx Hr]. apply N.eqb_eq in Hx. subst. rewrite (IH b Hr). reflexivity.
Qed.

Lemma noncore_codes : forall c, core_code c = false -> c = TUNNEL_ENCAP \/ c = LS \/ c = PREFIX_SID.
Proof.
  intros c H. unfold core_code in H. apply negb_false_iff in H.
  apply orb_prop in H. destruct H as [H|H]; [apply orb_prop in H; destruct H as [H|H]|]; apply N.eqb_eq in H; tauto.
Qed.

Lemma len_check_bin : forall c f b, len_ok b ->
  len_check (Some (mkAttr c f (DBin b))) = Ok (Some (mkAttr c f (DBin b))).
Proof.
  intros c f b H. unfold len_check, len_ok in *. cbn [a_data].
  destruct (N.ltb_spec 65535 (N.of_nat (length b))); [lia|reflexivity].
Qed.

Section GuardProofs.
  Variable typed_of_bytes : N -> list N -> res (option (list N)).
  Variable bytes_of_typed : N -> list N -> res (option (list N)).

  Lemma unknown_form_back : forall c f b, c = TUNNEL_ENCAP \/ c = LS \/ c = PREFIX_SID ->
    bytes_ok b -> len_ok b ->
    from_api_nc bytes_of_typed (NcUnknown f c b)
    = Ok (Some (mkAttr c (match canonical_flags c with Some g => g | None => f end) (DBin b))).
  Proof.
    intros c f b Hc Hok Hlen. cbn [from_api_nc]. unfold from_api. unfold len_ok in Hlen.
    destruct Hc as [ -> | [ -> | -> ] ]; cbn [from_api_unchecked];
      (destruct (N.ltb_spec 65535 (N.of_nat (length b))); [lia|]); cbn;
      apply len_check_bin; exact Hlen.
  Qed.

  (* whatever attr_to_api shows for such an attribute, attr_from_api turns it back into
     the same type and bytes (with the canonical flags of the type) *)
  Theorem guarded_roundtrip : forall a x, wf_attr a -> core_code (a_code a) = false ->
    to_api_nc typed_of_bytes bytes_of_typed a = Ok x ->
    from_api_nc bytes_of_typed x = Ok (Some (canon_of a)).
  Proof.
    intros [c f d] x [Hc [Hf [Hcb Hd]]] Hcore H. cbn [a_code a_flags a_data] in *.
    pose proof (noncore_codes c Hcore) as Hcodes.
    assert (Hb : exists b, d = DBin b /\ bytes_ok b /\ len_ok b).
    { unfold wf_data in Hd. destruct Hcodes as [ -> | [ -> | -> ] ]; cbn in Hd;
        destruct d as [|b|]; try contradiction; exists b; tauto. }
    destruct Hb as [b [-> [Hok Hlen]]].
    unfold canon_of. cbn [a_code a_flags a_data].
    unfold to_api_nc in H. cbn [binary_unwrap a_data a_code a_flags bind] in H.
    destruct (typed_of_bytes c b) as [[t|]|] eqn:Et; cbn [bind] in H; try discriminate.
    - destruct (from_api_nc bytes_of_typed (NcTyped c t)) as [[a'|]|] eqn:Er; cbn [bind] in H; try discriminate.
      + destruct (a_data a') as [v|b'|b'] eqn:Ed.
        * injection H as <-. apply unknown_form_back; assumption.
        * destruct (list_eqb b' b) eqn:Eq; injection H as <-; [|apply unknown_form_back; assumption].
          apply list_eqb_eq in Eq. subst b'. rewrite Er. f_equal. f_equal.
          (* a' is new_with_bin c b *)
          cbn [from_api_nc] in Er. destruct (bytes_of_typed c t) as [[b0|]|]; cbn [bind] in Er; try discriminate.
          apply ApiWf.len_check_inv in Er. destruct Er as [Er _].
          unfold new_with_bin in Er. destruct (canonical_flags c) as [g|]; [|discriminate].
          injection Er as <-. cbn [a_data] in Ed. injection Ed as ->. reflexivity.
        * destruct (list_eqb b' b) eqn:Eq; injection H as <-; [|apply unknown_form_back; assumption].
          exfalso. cbn [from_api_nc] in Er. destruct (bytes_of_typed c t) as [[b0|]|]; cbn [bind] in Er; try discriminate.
          apply ApiWf.len_check_inv in Er. destruct Er as [Er _].
          unfold new_with_bin in Er. destruct (canonical_flags c) as [g|]; [|discriminate].
          injection Er as <-. cbn [a_data] in Ed. discriminate Ed.
      + injection H as <-. apply unknown_form_back; assumption.
    - injection H as <-. apply unknown_form_back; assumption.
  Qed.

  (* a typed TunnelEncap / PrefixSid / Ls message that attr_from_api accepts gives a
     well-formed attribute, provided the converter's output is a byte string *)
  Theorem from_api_nc_typed_wf : forall c t a, c = TUNNEL_ENCAP \/ c = LS \/ c = PREFIX_SID ->
    (forall b, bytes_of_typed c t = Ok (Some b) -> bytes_ok b) ->
    from_api_nc bytes_of_typed (NcTyped c t) = Ok (Some a) -> wf_attr a.
  Proof.
    intros c t a Hc Hbytes H. cbn [from_api_nc] in H.
    destruct (bytes_of_typed c t) as [[b|]|] eqn:Eb; cbn [bind] in H; try discriminate.
    apply ApiWf.len_check_inv in H. destruct H as [Hn Hl]. specialize (Hbytes b eq_refl).
    destruct Hc as [ -> | [ -> | -> ] ]; cbn in Hn; injection Hn as <-; unfold ApiWf.data_len_ok in Hl; cbn [a_data] in Hl;
      repeat split; cbn; try lia; assumption.
  Qed.
End GuardProofs.
