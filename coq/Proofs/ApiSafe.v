(* C17  Well-formed values cannot panic the consumers: listing (attr_to_api),
   encoding, as_path_length, the best-path comparator. *)
From Coq Require Import List ZArith NArith Bool Lia ZifyBool ZifyNat ZifyN.
From RB Require Import Base.Val Model.Api Spec.ApiSpec Proofs.ApiBytes Proofs.ApiStr Proofs.ApiSeg Proofs.ApiRt Proofs.ApiWf Proofs.ApiNlri.
Import ListNotations.
Open Scope N_scope.

Lemma wf_val_code : forall a, wf_attr a ->
  a_code a = ORIGIN \/ a_code a = MULTI_EXIT_DESC \/ a_code a = LOCAL_PREF \/ a_code a = ORIGINATOR_ID ->
  exists v, a_data a = DVal v.
Proof.
  intros [c f d] [_ [_ [_ Hd]]] Hc. cbn [a_code a_data] in *. unfold wf_data in Hd.
  destruct Hc as [ -> | [ -> | [ -> | -> ] ] ]; cbn in Hd; destruct d as [v| |]; try contradiction; exists v; reflexivity.
Qed.

Lemma wf_bin_code : forall a, wf_attr a ->
  a_code a <> ORIGIN -> a_code a <> MULTI_EXIT_DESC -> a_code a <> LOCAL_PREF -> a_code a <> ORIGINATOR_ID ->
  exists b, binary_unwrap a = Ok b.
Proof.
  intros [c f d] [_ [_ [_ Hd]]] H1 H4 H5 H9. cbn [a_code a_data] in *. unfold wf_data in Hd.
  unfold binary_unwrap. cbn [a_data].
  destruct (canonical_flags c) as [f'|] eqn:E.
  - apply assoc_in in E. cbn [canon_table In] in E.
    repeat destruct E as [E|E]; try contradiction; injection E as <- <-;
      try (exfalso; first [apply H1; reflexivity|apply H4; reflexivity|apply H5; reflexivity|apply H9; reflexivity]);
      cbn in Hd; destruct d as [|b|]; try contradiction; exists b; reflexivity.
  - destruct d as [| |b]; try contradiction. exists b. reflexivity.
Qed.

Theorem encode_safe : forall a, wf_attr a -> exists b, encode_attr a = Ok b.
Proof.
  intros a Hwf. unfold encode_attr.
  destruct (N.eqb_spec (a_code a) ORIGIN) as [E1|E1].
  { destruct (wf_val_code a Hwf) as [v Hv]; [tauto|]. unfold value_unwrap. rewrite Hv. eexists. reflexivity. }
  destruct (N.eqb_spec (a_code a) MULTI_EXIT_DESC) as [E4|E4].
  { destruct (wf_val_code a Hwf) as [v Hv]; [tauto|]. unfold value_unwrap. rewrite Hv. eexists. reflexivity. }
  destruct (N.eqb_spec (a_code a) LOCAL_PREF) as [E5|E5].
  { destruct (wf_val_code a Hwf) as [v Hv]; [tauto|]. unfold value_unwrap. rewrite Hv. eexists. reflexivity. }
  destruct (N.eqb_spec (a_code a) ORIGINATOR_ID) as [E9|E9].
  { destruct (wf_val_code a Hwf) as [v Hv]; [tauto|]. unfold value_unwrap. rewrite Hv. eexists. reflexivity. }
  destruct (wf_bin_code a Hwf E1 E4 E5 E9) as [b ->]. cbn [orb bind].
  destruct (negb _); eexists; reflexivity.
Qed.

Theorem as_path_length_safe : forall a, wf_attr a -> a_code a = AS_PATH -> exists n, as_path_length a = Ok n.
Proof.
  intros [c f d] [_ [_ [_ Hd]]] Hc. cbn [a_code a_data] in *. subst c. unfold wf_data in Hd. cbn in Hd.
  destruct d as [|b|]; try contradiction. destruct Hd as [_ [_ Hw]].
  unfold as_path_length. cbn [a_code a_data binary_unwrap bind N.eqb Pos.eqb AS_PATH].
  destruct (aspl_wf b Hw (S (length b)) 0) as [v Hv]; [lia|]. exists v. exact Hv.
Qed.

(* the accessors of table::PathAttribute *)
Lemma find_code_spec : forall c l a, find_code c l = Some a -> In a l /\ a_code a = c.
Proof.
  intros c l a H. unfold find_code in H. apply find_some in H. destruct H as [Hin He].
  apply N.eqb_eq in He. split; assumption.
Qed.

Lemma find_val : forall c l, Forall wf_attr l ->
  c = ORIGIN \/ c = MULTI_EXIT_DESC \/ c = LOCAL_PREF \/ c = ORIGINATOR_ID ->
  forall a, find_code c l = Some a -> exists v, value_unwrap a = Ok v.
Proof.
  intros c l Hl Hc a H. apply find_code_spec in H. destruct H as [Hin He].
  rewrite Forall_forall in Hl. destruct (wf_val_code a (Hl a Hin)) as [v Hv]; [rewrite He; exact Hc|].
  exists v. unfold value_unwrap. rewrite Hv. reflexivity.
Qed.

Lemma local_preference_safe : forall l, Forall wf_attr l -> exists v, attr_local_preference l = Ok v.
Proof.
  intros l Hl. unfold attr_local_preference. destruct (find_code LOCAL_PREF l) as [a|] eqn:E; [|eexists; reflexivity].
  eapply find_val; [exact Hl| |exact E]. tauto.
Qed.

Lemma origin_safe : forall l, Forall wf_attr l -> exists v, attr_origin l = Ok v.
Proof.
  intros l Hl. unfold attr_origin. destruct (find_code ORIGIN l) as [a|] eqn:E; [|eexists; reflexivity].
  destruct (find_val ORIGIN l Hl (or_introl eq_refl) a E) as [v ->]. eexists. reflexivity.
Qed.

Lemma originator_id_safe : forall l, Forall wf_attr l -> exists v, attr_originator_id l = Ok v.
Proof.
  intros l Hl. unfold attr_originator_id. destruct (find_code ORIGINATOR_ID l) as [a|] eqn:E; [|eexists; reflexivity].
  destruct (find_val ORIGINATOR_ID l Hl) with (a := a) as [v ->]; [tauto|exact E|]. eexists. reflexivity.
Qed.

Lemma as_path_length_list_safe : forall l, Forall wf_attr l -> exists v, attr_as_path_length l = Ok v.
Proof.
  intros l Hl. unfold attr_as_path_length. destruct (find_code AS_PATH l) as [a|] eqn:E; [|eexists; reflexivity].
  apply find_code_spec in E. destruct E as [Hin He]. rewrite Forall_forall in Hl.
  apply as_path_length_safe; [apply Hl; exact Hin|exact He].
Qed.

(* one comparison of impl Ord for RibEntry never panics on well-formed attribute lists *)
Theorem rib_cmp_safe : forall sa ra sb rb, Forall wf_attr sa -> Forall wf_attr sb ->
  exists z, rib_cmp sa ra sb rb = Ok z.
Proof.
  intros sa ra sb rb Ha Hb. unfold rib_cmp.
  destruct (local_preference_safe sa Ha) as [la ->]. destruct (local_preference_safe sb Hb) as [lb ->].
  destruct (as_path_length_list_safe sa Ha) as [pa ->]. destruct (as_path_length_list_safe sb Hb) as [pb ->].
  destruct (origin_safe sa Ha) as [oa ->]. destruct (origin_safe sb Hb) as [ob ->].
  destruct (originator_id_safe sa Ha) as [ia ->]. destruct (originator_id_safe sb Hb) as [ib ->].
  cbn [bind].
  repeat match goal with |- context [if ?c then _ else _] => destruct c end; eexists; reflexivity.
Qed.

(* GrpcService::local_path hands the table a list of well-formed attributes *)
Theorem local_path_attrs_wf : forall l, Forall wf_attr l -> Forall wf_attr (local_path_attrs l).
Proof.
  intros l Hl. unfold local_path_attrs.
  assert (Hk : Forall wf_attr (filter local_path_keep l)).
  { rewrite Forall_forall in *. intros a Ha. apply filter_In in Ha. apply Hl. tauto. }
  assert (Ho : wf_attr (mkAttr ORIGIN 64 (DVal 0))) by (repeat split; cbn; lia).
  assert (Hp : wf_attr (mkAttr AS_PATH 64 (DBin []))).
  { repeat split; cbn; try lia; constructor. }
  destruct (existsb _ (filter local_path_keep l)).
  - destruct (existsb _ _); [exact Hk|]. apply Forall_app. split; [exact Hk|]. constructor; [exact Hp|constructor].
  - destruct (existsb _ _).
    + apply Forall_app. split; [exact Hk|]. constructor; [exact Ho|constructor].
    + apply Forall_app. split; [apply Forall_app; split; [exact Hk|constructor; [exact Ho|constructor]]|].
      constructor; [exact Hp|constructor].
Qed.

(* ------------------------------------------------------------------ *)
(* GrpcService::local_path                                               *)
Lemma with_defaults_wf : forall k, Forall wf_attr k -> Forall wf_attr (with_defaults k).
Proof.
  intros k Hk. unfold with_defaults.
  assert (Ho : wf_attr (mkAttr ORIGIN 64 (DVal 0))) by (repeat split; cbn; lia).
  assert (Hp : wf_attr (mkAttr AS_PATH 64 (DBin []))).
  { repeat split; cbn; try lia; constructor. }
  destruct (existsb _ k).
  - destruct (existsb _ _); [exact Hk|]. apply Forall_app. split; [exact Hk|]. constructor; [exact Hp|constructor].
  - destruct (existsb _ _).
    + apply Forall_app. split; [exact Hk|]. constructor; [exact Ho|constructor].
    + apply Forall_app. split; [apply Forall_app; split; [exact Hk|constructor; [exact Ho|constructor]]|].
      constructor; [exact Hp|constructor].
Qed.

Lemma with_defaults_has : forall k,
  existsb (fun a => a_code a =? ORIGIN) (with_defaults k) = true
  /\ existsb (fun a => a_code a =? AS_PATH) (with_defaults k) = true.
Proof.
  intros k. unfold with_defaults.
  set (k1 := if existsb (fun a => a_code a =? ORIGIN) k then k else k ++ [mkAttr ORIGIN 64 (DVal 0)]).
  assert (H1 : existsb (fun a => a_code a =? ORIGIN) k1 = true).
  { subst k1. destruct (existsb (fun a => a_code a =? ORIGIN) k) eqn:E; [exact E|].
    rewrite existsb_app. cbn. apply orb_true_r. }
  destruct (existsb (fun a => a_code a =? AS_PATH) k1) eqn:E2.
  - split; assumption.
  - rewrite !existsb_app, H1, E2. cbn. split; reflexivity.
Qed.

Lemma lp_loop_wf : forall v6r fam xs acc nh acc' nh',
  Forall api_in_range xs -> Forall wf_attr acc ->
  lp_loop v6r fam xs acc nh = Some (acc', nh') -> Forall wf_attr acc'.
Proof.
  intros v6r fam xs. induction xs as [|x r IH]; intros acc nh acc' nh' Hr Hacc H; cbn [lp_loop] in H.
  - injection H as <- _. exact Hacc.
  - pose proof (Forall_inv Hr) as Hx. pose proof (Forall_inv_tail Hr) as Hrr.
    destruct (from_api v6r x) as [[a|]|] eqn:Ef; try discriminate.
    pose proof (from_api_wf v6r x a Hx Ef) as Hwa.
    destruct (a_code a =? MP_REACH).
    { cbv zeta in H.
      assert (G : forall o, match o with
                            | Some _ => lp_loop v6r fam r acc o
                            | None => if (nth 3 match a_data a with DVal _ => [] | DBin b | DOpaque b => b end 1 =? 0) && is_flowspec fam
                                      then lp_loop v6r fam r acc None else None
                            end = Some (acc', nh') -> Forall wf_attr acc').
      { intros [l|] Ho; [eapply IH; eassumption|]. destruct (_ && _); [eapply IH; eassumption|discriminate]. }
      destruct (a_data a) as [|b|b]; [discriminate| |]; cbn iota in G; eapply G; exact H. }
    destruct (a_code a =? NEXTHOP); [eapply IH; eassumption|].
    destruct (_ || _); [eapply IH; eassumption|].
    eapply IH; [exact Hrr| |exact H]. apply Forall_app. split; [exact Hacc|]. constructor; [exact Hwa|constructor].
Qed.

(* a path accepted by local_path carries a well-formed NLRI and well-formed
   attributes including ORIGIN and AS_PATH *)
Theorem local_path_wf : forall v6r fam n xs family net attrs nh,
  (forall s a, v6r s = Some a -> a < 2 ^ 128) ->
  api_nlri_in_range n -> Forall api_in_range xs ->
  local_path v6r fam n xs = Some (family, net, attrs, nh) ->
  wf_nlri net /\ Forall wf_attr attrs
  /\ existsb (fun a => a_code a =? ORIGIN) attrs = true
  /\ existsb (fun a => a_code a =? AS_PATH) attrs = true.
Proof.
  intros v6r fam n xs family net attrs nh Hrg Hn Hr H. unfold local_path in H.
  destruct (_ || _); [discriminate|].
  destruct (net_from_api v6r n) as [net0|] eqn:En; [|discriminate].
  destruct (negb _); [discriminate|].
  destruct (lp_loop v6r _ xs [] None) as [[acc nh0]|] eqn:El; [|discriminate].
  injection H as _ <- <- _.
  split; [eapply (ApiNlri.net_from_api_wf (fun _ => []) v6r); eassumption|].
  split; [apply with_defaults_wf; eapply lp_loop_wf; [exact Hr|constructor|exact El]|].
  apply with_defaults_has.
Qed.
