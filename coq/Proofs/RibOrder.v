(* The comparator of Model/Rib.v is the decision order of Spec/BestPath.v,
   which is a total preorder; sorted insertion and the re-sort keep every
   destination ranked. *)
From Coq Require Import List NArith ZArith Bool Lia Sorting.Permutation Sorting.Sorted.
From RB Require Import Base.Val Model.Rib Spec.BestPath.
Import ListNotations.

(* ------------------------------------------------------------------- lexc *)

Lemma lexc_refl a : lexc a a = Eq.
Proof. induction a as [|x xs IH]; cbn; [reflexivity|]. rewrite Z.compare_refl. exact IH. Qed.

Lemma lexc_antisym a b : lexc b a = CompOpp (lexc a b).
Proof.
  revert b. induction a as [|x xs IH]; intros [|y ys]; cbn; try reflexivity.
  rewrite (Z.compare_antisym x y). destruct (Z.compare x y); cbn; auto.
Qed.

Lemma lexc_eq a b : lexc a b = Eq -> a = b.
Proof.
  revert b. induction a as [|x xs IH]; intros [|y ys]; cbn; try discriminate; [reflexivity|].
  destruct (Z.compare x y) eqn:E; try discriminate.
  apply Z.compare_eq in E. intro H. rewrite (IH _ H), E. reflexivity.
Qed.

Lemma lexc_trans a b c : lexc a b <> Gt -> lexc b c <> Gt -> lexc a c <> Gt.
Proof.
  revert b c. induction a as [|x xs IH]; intros [|y ys] [|z zs]; cbn; try congruence.
  destruct (Z.compare_spec x y) as [E1|L1|G1]; destruct (Z.compare_spec y z) as [E2|L2|G2];
    try congruence; intros H1 H2.
  - subst. rewrite Z.compare_refl. eapply IH; eauto.
  - subst. apply Z.compare_lt_iff in L2. rewrite L2. congruence.
  - subst. apply Z.compare_lt_iff in L1. rewrite L1. congruence.
  - assert (L : (x < z)%Z) by lia. apply Z.compare_lt_iff in L. rewrite L. congruence.
Qed.

(* ------------------------------------------------ the code's chain is the key *)

Lemma bool_cmp_z a b : bool_cmp a b = Z.compare (b2z a) (b2z b).
Proof. destruct a, b; reflexivity. Qed.

Lemma ncmp_z a b : N.compare a b = Z.compare (Z.of_N a) (Z.of_N b).
Proof. symmetry. apply N2Z.inj_compare. Qed.

Lemma ncmp_opp_z a b : CompOpp (N.compare a b) = Z.compare (- Z.of_N a) (- Z.of_N b).
Proof.
  rewrite ncmp_z, <- Z.compare_antisym. rewrite Z.compare_opp. reflexivity.
Qed.

Lemma thenc_lexc x y xs ys :
  thenc (Z.compare x y) (lexc xs ys) = lexc (x :: xs) (y :: ys).
Proof. cbn. destruct (Z.compare x y); reflexivity. Qed.

Lemma hops_of_spec a :
  Z.of_N (hops_of a) = match a_segs a with Some s => hops_spec s | None => 0%Z end.
Proof.
  unfold hops_of. destruct (a_segs a) as [segs|]; [|reflexivity].
  induction segs as [|[t n] r IH]; [reflexivity|].
  cbn [fold_right hops_spec]. rewrite N2Z.inj_add, IH. unfold seg_hops. cbn [fst snd].
  destruct t as [|p]; [reflexivity|].
  destruct p as [p|p|]; try reflexivity; destruct p; reflexivity.
Qed.

Lemma bool_cmp_swap_neg a b : bool_cmp b a = Z.compare (b2z (negb a)) (b2z (negb b)).
Proof. destruct a, b; reflexivity. Qed.

Lemma chain8 c1 c2 c3 c4 c5 c6 c7 c8 x1 y1 x2 y2 x3 y3 x4 y4 x5 y5 x6 y6 x7 y7 x8 y8 :
  c1 = Z.compare x1 y1 -> c2 = Z.compare x2 y2 -> c3 = Z.compare x3 y3 -> c4 = Z.compare x4 y4 ->
  c5 = Z.compare x5 y5 -> c6 = Z.compare x6 y6 -> c7 = Z.compare x7 y7 -> c8 = Z.compare x8 y8 ->
  thenc c1 (thenc c2 (thenc c3 (thenc c4 (thenc c5 (thenc c6 (thenc c7 c8))))))
  = lexc [x1; x2; x3; x4; x5; x6; x7; x8] [y1; y2; y3; y4; y5; y6; y7; y8].
Proof.
  intros -> -> -> -> -> -> -> ->. cbn [lexc]. unfold thenc.
  destruct (Z.compare x1 y1); try reflexivity.
  destruct (Z.compare x2 y2); try reflexivity.
  destruct (Z.compare x3 y3); try reflexivity.
  destruct (Z.compare x4 y4); try reflexivity.
  destruct (Z.compare x5 y5); try reflexivity.
  destruct (Z.compare x6 y6); try reflexivity.
  destruct (Z.compare x7 y7); try reflexivity.
  destruct (Z.compare x8 y8); reflexivity.
Qed.

Lemma cmp_code_is_spec fl a b : cmp_code fl a b = lexc (spec_key fl a) (spec_key fl b).
Proof.
  unfold cmp_code, spec_key. apply chain8.
  - apply bool_cmp_z.
  - unfold lp_of. apply ncmp_opp_z.
  - rewrite ncmp_z, !hops_of_spec. reflexivity.
  - unfold origin_of. apply ncmp_z.
  - apply bool_cmp_swap_neg.
  - apply bool_cmp_z.
  - unfold clen_of. apply ncmp_z.
  - unfold oid_of. apply ncmp_z.
Qed.

Lemma cmp_for_is_spec fl net a b : cmp_for fl net a b = cmp_spec fl net a b.
Proof.
  unfold cmp_for, cmp_spec, key_for. destruct (is_type2 net); [|apply cmp_code_is_spec].
  unfold evpn_cmp, evpn_key.
  destruct (a_mm (e_attr a)) as [sa|], (a_mm (e_attr b)) as [sb|]; try reflexivity.
  - rewrite ncmp_opp_z, cmp_code_is_spec. cbn [lexc Z.compare].
    destruct (Z.compare (- Z.of_N sa) (- Z.of_N sb)); reflexivity.
  - rewrite cmp_code_is_spec. cbn [lexc]. reflexivity.
Qed.

(* ---------------------------------------------------- total preorder facts *)

Lemma cmp_spec_refl fl net a : cmp_spec fl net a a = Eq.
Proof. apply lexc_refl. Qed.

Lemma cmp_spec_antisym fl net a b : cmp_spec fl net b a = CompOpp (cmp_spec fl net a b).
Proof. apply lexc_antisym. Qed.

Lemma not_worse_trans fl net a b c :
  not_worse fl net a b -> not_worse fl net b c -> not_worse fl net a c.
Proof. apply lexc_trans. Qed.

Lemma not_worse_total fl net a b : not_worse fl net a b \/ not_worse fl net b a.
Proof.
  unfold not_worse. rewrite (cmp_spec_antisym fl net a b).
  destruct (cmp_spec fl net a b); cbn; [left|left|right]; congruence.
Qed.

Lemma not_worse_refl fl net a : not_worse fl net a a.
Proof. unfold not_worse. rewrite cmp_spec_refl. congruence. Qed.

(* ----------------------------------------------------------- sorted insertion *)

Lemma ins_sorted_perm cmp e l : Permutation (e :: l) (ins_sorted cmp e l).
Proof.
  induction l as [|a r IH]; cbn; [reflexivity|].
  destruct (is_ge (cmp e a)); [|reflexivity].
  rewrite perm_swap. constructor. exact IH.
Qed.

Lemma ins_sorted_ranked fl net e l :
  ranked fl net l -> ranked fl net (ins_sorted (cmp_for fl net) e l).
Proof.
  unfold ranked. induction l as [|a r IH]; intro Hs; cbn [ins_sorted].
  - constructor; constructor.
  - apply StronglySorted_inv in Hs as [Hr Ha].
    destruct (is_ge (cmp_for fl net e a)) eqn:Hge.
    + constructor; [apply IH, Hr|].
      assert (Hae : not_worse fl net a e).
      { unfold not_worse. rewrite cmp_for_is_spec in Hge.
        rewrite (cmp_spec_antisym fl net e a). destruct (cmp_spec fl net e a); cbn in *; congruence. }
      apply Forall_forall. intros x Hx.
      apply (Permutation_in x (Permutation_sym (ins_sorted_perm _ e r))) in Hx.
      destruct Hx as [->|Hx]; [exact Hae|]. rewrite Forall_forall in Ha. apply Ha, Hx.
    + assert (Hea : not_worse fl net e a).
      { unfold not_worse. rewrite cmp_for_is_spec in Hge. destruct (cmp_spec fl net e a); cbn in *; congruence. }
      constructor; [constructor; assumption|].
      constructor; [exact Hea|].
      rewrite Forall_forall in *. intros x Hx. eapply not_worse_trans; [exact Hea|apply Ha, Hx].
Qed.

Lemma isort_acc_perm cmp l acc :
  Permutation (l ++ acc) (fold_left (fun a e => ins_sorted cmp e a) l acc).
Proof.
  revert acc. induction l as [|x xs IH]; intro acc; cbn; [reflexivity|].
  rewrite <- IH. rewrite <- ins_sorted_perm. apply Permutation_middle.
Qed.

Lemma isort_perm cmp l : Permutation l (isort cmp l).
Proof. unfold isort. rewrite <- isort_acc_perm, app_nil_r. reflexivity. Qed.

Lemma isort_ranked fl net l : ranked fl net (isort (cmp_for fl net) l).
Proof.
  unfold isort.
  assert (H : forall acc, ranked fl net acc ->
                          ranked fl net (fold_left (fun a e => ins_sorted (cmp_for fl net) e a) l acc)).
  { induction l as [|x xs IH]; intros acc Ha; cbn; [exact Ha|]. apply IH, ins_sorted_ranked, Ha. }
  apply H. constructor.
Qed.

Lemma ranked_filter fl net f l : ranked fl net l -> ranked fl net (filter f l).
Proof.
  unfold ranked. induction l as [|a r IH]; intro Hs; cbn; [constructor|].
  apply StronglySorted_inv in Hs as [Hr Ha].
  destruct (f a); [|apply IH, Hr].
  constructor; [apply IH, Hr|].
  rewrite Forall_forall in *. intros x Hx. apply filter_In in Hx as [Hx _]. apply Ha, Hx.
Qed.

(* the head of a ranked list is not worse than any member *)
Lemma ranked_head_best fl net a l x :
  ranked fl net (a :: l) -> In x (a :: l) -> not_worse fl net a x.
Proof.
  intros Hs [->|Hx]; [apply not_worse_refl|].
  apply StronglySorted_inv in Hs as [_ Ha]. rewrite Forall_forall in Ha. apply Ha, Hx.
Qed.

(* two rankings of the same set of paths agree position by position up to ties *)
Lemma sorted_keys_unique (l1 l2 : list (list Z)) :
  StronglySorted (fun a b => lexc a b <> Gt) l1 ->
  StronglySorted (fun a b => lexc a b <> Gt) l2 ->
  Permutation l1 l2 -> l1 = l2.
Proof.
  revert l2. induction l1 as [|a r IH]; intros l2 H1 H2 Hp.
  - apply Permutation_nil in Hp. subst. reflexivity.
  - destruct l2 as [|b s]; [apply Permutation_sym, Permutation_nil in Hp; discriminate|].
    assert (Hab : a = b).
    { apply StronglySorted_inv in H1 as [_ Ha]. apply StronglySorted_inv in H2 as [_ Hb].
      rewrite Forall_forall in Ha, Hb.
      assert (Hle1 : lexc a b <> Gt).
      { assert (Hin : In b (a :: r)) by (apply (Permutation_in b (Permutation_sym Hp)); left; reflexivity).
        destruct Hin as [->|Hin]; [rewrite lexc_refl; congruence|apply Ha, Hin]. }
      assert (Hle2 : lexc b a <> Gt).
      { assert (Hin : In a (b :: s)) by (apply (Permutation_in a Hp); left; reflexivity).
        destruct Hin as [->|Hin]; [rewrite lexc_refl; congruence|apply Hb, Hin]. }
      rewrite (lexc_antisym a b) in Hle2.
      destruct (lexc a b) eqn:E; cbn in Hle2; try congruence. apply lexc_eq, E. }
    subst b. f_equal. apply IH.
    + apply StronglySorted_inv in H1. tauto.
    + apply StronglySorted_inv in H2. tauto.
    + eapply Permutation_cons_inv, Hp.
Qed.

Lemma ranked_map_keys fl net l :
  ranked fl net l -> StronglySorted (fun a b => lexc a b <> Gt) (map (key_for fl net) l).
Proof.
  unfold ranked. induction l as [|a r IH]; intro Hs; cbn; [constructor|].
  apply StronglySorted_inv in Hs as [Hr Ha]. constructor; [apply IH, Hr|].
  rewrite Forall_forall in *. intros k Hk. apply in_map_iff in Hk as (x & <- & Hx). apply (Ha x Hx).
Qed.

Lemma ranking_unique_up_to_ties fl net l1 l2 :
  ranked fl net l1 -> ranked fl net l2 -> Permutation l1 l2 ->
  Forall2 (tied fl net) l1 l2.
Proof.
  intros H1 H2 Hp.
  assert (Hk : map (key_for fl net) l1 = map (key_for fl net) l2).
  { apply sorted_keys_unique; try apply ranked_map_keys; auto. apply Permutation_map, Hp. }
  clear H1 H2 Hp. revert l2 Hk. induction l1 as [|a r IH]; intros [|b s] Hk; try discriminate; constructor.
  - unfold tied, cmp_spec. injection Hk as E _. rewrite E. apply lexc_refl.
  - apply IH. injection Hk as _ E. exact E.
Qed.
