(* The byte level of property C13.  The codec is the C03 model Model/Rtr.v; its
   theorems (Proofs/Rtr.v: no panic, consumes input, complete frames are decided,
   "need more" only when the frame is incomplete, fragmentation invariance) are
   used here for the client: when the client goes idle nothing complete is left
   in its buffer, and what it processed does not depend on the TCP segmentation. *)
From Coq Require Import List Arith NArith Bool Lia ZifyBool ZifyNat ZifyN.
From RB Require Import Base.Val Base.Bytes Model.Rpki Model.RtrClient Spec.WireSpec Proofs.Rtr.
From RB Require Model.Stream Model.Rtr.
Import ListNotations.
Open Scope N_scope.

(* whatever Stream.drain leaves pending was left by a decoder call that asked for more bytes *)
Lemma drain_pending_need : forall {M E : Type} (dec : list N -> Stream.dres M E) fuel buf evs rest,
  Stream.drain dec fuel buf = Some (evs, Stream.Pending rest) -> exists b, dec b = Stream.DNeed rest.
Proof.
  intros M E dec. induction fuel as [|fuel IH]; intros buf evs rest H; [discriminate|].
  cbn [Stream.drain] in H. destruct (dec buf) as [m r|r|e r|] eqn:D; try discriminate.
  - destruct (Nat.eqb (length r) (length buf)); [discriminate|].
    destruct (Stream.drain dec fuel r) as [[evs' st']|] eqn:D2; [|discriminate].
    inversion H; subst. eapply IH. exact D2.
  - inversion H; subst. exists buf. exact D.
Qed.

(* C13 "the client makes progress on every well-formed PDU stream, including PDU types it
   does not use": with the current codec, whenever the Framed loop stops and waits for more
   bytes, what is left in the buffer does not start with a complete PDU - every complete PDU
   (of a used type or not) has been consumed *)
Theorem rtr_idle_buffer_incomplete : forall fuel buf evs rest,
  Stream.drain Rtr.rtr_decode fuel buf = Some (evs, Stream.Pending rest) -> ~ rtr_complete rest.
Proof.
  intros fuel buf evs rest H. destruct (drain_pending_need Rtr.rtr_decode fuel buf evs rest H) as [b D].
  apply (C03_rtr_need_only_if_incomplete b rest D).
Qed.

(* the same at the level of the client: after a TCP segment, a live client's buffer holds no complete PDU *)
Theorem client_idle_buffer_incomplete : forall c st t bytes st' t' out,
  c_done st = false -> c_open st = true ->
  client_event fixed c st t (EFeed c bytes) = (st', t', out) ->
  c_done st' = true \/ ~ rtr_complete (c_buf st').
Proof.
  intros c st t bytes st' t' out Hd Ho H. unfold client_event in H. rewrite Hd, Ho in H.
  cbn [codec fixed fx_skip] in H.
  destruct (Stream.drain Rtr.rtr_decode (S (length (c_buf st ++ bytes))) (c_buf st ++ bytes)) as [[evs ds]|] eqn:D.
  - destruct (apply_evs fixed c evs st t []) as [[[st2 t2] sent] ended].
    destruct ended.
    + left. unfold finish_session in H. inversion H; subst. reflexivity.
    + right. destruct ds as [rest|].
      * pose proof (rtr_idle_buffer_incomplete _ _ _ _ D) as NC.
        unfold fire_permit in H. destruct (c_permit (with_buf st2 rest) && c_eod (with_buf st2 rest)); inversion H; subst; exact NC.
      * unfold fire_permit in H. destruct (c_permit (with_buf st2 []) && c_eod (with_buf st2 [])); inversion H; subst;
          cbn [c_buf with_buf with_permit]; intros [l [Hl _]]; discriminate.
  - left. unfold finish_session in H. inversion H; subst. reflexivity.
Qed.

(* before the repairs (Rtr.rtr_decode_v0) a complete Router Key PDU stayed in the buffer for ever *)
Lemma rtr_progress_pre_refuted :
  exists pdu, rtr_complete pdu
    /\ forall more, Rtr.rtr_decode_v0 (pdu ++ more) = Stream.DNeed (pdu ++ more).
Proof.
  exists ([1; 9; 0; 0; 0; 0; 0; 32] ++ repeat 0 24). split.
  - exists 32. split; vm_compute; [reflexivity|discriminate].
  - intro more. lazy beta iota zeta delta [Rtr.rtr_decode_v0 Rtr.rtr_from_bytes Rtr.rd8 Rtr.rd16 Rtr.rd32 app repeat].
    match goal with |- context [if ?b then _ else _] => destruct b end; reflexivity.
Qed.
