(* The byte level of property C13: RtrCodec::decode is monotone in the buffer
   (bytes arriving later never change what an earlier complete PDU decodes to),
   hence the PDUs delivered by the Framed loop do not depend on TCP
   fragmentation; every well-framed PDU is consumed (progress). *)
From Coq Require Import List Arith NArith Bool Lia ZifyBool ZifyNat ZifyN.
From RB Require Import Base.Val Model.Rpki Model.RtrClient.
Import ListNotations.
Open Scope N_scope.

Lemma firstn_app_le {A} : forall n (l m : list A), (n <= length l)%nat -> firstn n (l ++ m) = firstn n l.
Proof. intros n l m H. rewrite firstn_app. replace (n - length l)%nat with 0%nat by lia. cbn. apply app_nil_r. Qed.

Lemma skipn_app_le {A} : forall n (l m : list A), (n <= length l)%nat -> skipn n (l ++ m) = skipn n l ++ m.
Proof. intros n l m H. rewrite skipn_app. replace (n - length l)%nat with 0%nat by lia. reflexivity. Qed.

Ltac dbody b :=
  destruct b as [|?a [|?b [|?c [|?d ?rest]]]]; try discriminate.

Lemma from_bytes_mono : forall buf more m len,
  from_bytes buf = Some (m, len) ->
  from_bytes (buf ++ more) = Some (m, len) /\ len <= N.of_nat (length buf).
Proof.
  intros buf more m len H.
  destruct buf as [|ver [|ty [|s1 [|s2 [|l1 [|l2 [|l3 [|l4 body]]]]]]]]; try discriminate.
  cbn [app]. unfold from_bytes in *.
  set (L := be32 [l1; l2; l3; l4]) in *.
  destruct (N.of_nat (length (ver :: ty :: s1 :: s2 :: l1 :: l2 :: l3 :: l4 :: body)) <? L) eqn:EL; [discriminate|].
  assert (EL' : (N.of_nat (length (ver :: ty :: s1 :: s2 :: l1 :: l2 :: l3 :: l4 :: body ++ more)) <? L) = false).
  { cbn [length] in *. rewrite app_length. lia. }
  rewrite EL'.
  assert (HL : forall x, Some (x, L) = Some (m, len) -> len <= N.of_nat (length (ver :: ty :: s1 :: s2 :: l1 :: l2 :: l3 :: l4 :: body))).
  { intros x E. inversion E; subst. lia. }
  destruct (ty =? 0).
  { dbody body. cbn [app]. split; [exact H|eapply HL; exact H]. }
  destruct (ty =? 1).
  { dbody body. cbn [app]. split; [exact H|eapply HL; exact H]. }
  destruct (ty =? 2); [split; [exact H|eapply HL; exact H]|].
  destruct (ty =? 3); [split; [exact H|eapply HL; exact H]|].
  destruct (ty =? 4).
  { dbody body. cbn [app]. destruct ((length rest <? 8)%nat) eqn:E8; [discriminate|].
    apply Nat.ltb_ge in E8.
    replace ((length (rest ++ more) <? 8)%nat) with false by (symmetry; apply Nat.ltb_ge; rewrite app_length; lia).
    rewrite !skipn_app_le, !firstn_app_le by (rewrite ?skipn_length; lia).
    split; [exact H|eapply HL; exact H]. }
  destruct (ty =? 6).
  { dbody body. cbn [app]. destruct ((length rest <? 20)%nat) eqn:E8; [discriminate|].
    apply Nat.ltb_ge in E8.
    replace ((length (rest ++ more) <? 20)%nat) with false by (symmetry; apply Nat.ltb_ge; rewrite app_length; lia).
    rewrite !skipn_app_le, !firstn_app_le by (rewrite ?skipn_length; lia).
    split; [exact H|eapply HL; exact H]. }
  destruct (ty =? 7).
  { dbody body. cbn [app]. destruct (1 <=? ver).
    - destruct ((length rest <? 12)%nat) eqn:E8; [discriminate|].
      apply Nat.ltb_ge in E8.
      replace ((length (rest ++ more) <? 12)%nat) with false by (symmetry; apply Nat.ltb_ge; rewrite app_length; lia).
      rewrite !skipn_app_le, !firstn_app_le by (rewrite ?skipn_length; lia).
      split; [exact H|eapply HL; exact H].
    - split; [exact H|eapply HL; exact H]. }
  destruct (ty =? 8); [split; [exact H|eapply HL; exact H]|].
  destruct (ty =? 10); [split; [exact H|eapply HL; exact H]|].
  discriminate.
Qed.

Lemma from_bytes_unknown : forall ver ty s1 s2 l1 l2 l3 l4 body,
  known_type ty = false -> from_bytes (ver :: ty :: s1 :: s2 :: l1 :: l2 :: l3 :: l4 :: body) = None.
Proof.
  intros ver ty s1 s2 l1 l2 l3 l4 body K. unfold known_type in K. cbn [existsb] in K.
  repeat (apply orb_false_iff in K; destruct K as [?E K]).
  unfold from_bytes. destruct (_ <? _); [reflexivity|].
  rewrite E, E0, E1, E2, E3, E4, E5, E6, E7. reflexivity.
Qed.

Lemma skippable_mono : forall buf more len,
  skippable buf = Some len ->
  skippable (buf ++ more) = Some len /\ from_bytes (buf ++ more) = None /\ from_bytes buf = None
  /\ 8 <= len /\ len <= N.of_nat (length buf).
Proof.
  intros buf more len H.
  destruct buf as [|ver [|ty [|s1 [|s2 [|l1 [|l2 [|l3 [|l4 body]]]]]]]]; try discriminate.
  cbn [app]. unfold skippable in *.
  set (L := be32 [l1; l2; l3; l4]) in *.
  destruct (known_type ty) eqn:K; [discriminate|]. cbn [negb andb] in *.
  destruct (8 <=? L) eqn:E8; [|discriminate]. cbn [andb] in *.
  destruct (L <=? N.of_nat (length (ver :: ty :: s1 :: s2 :: l1 :: l2 :: l3 :: l4 :: body))) eqn:EL; [|discriminate].
  inversion H; subst len.
  replace (L <=? N.of_nat (length (ver :: ty :: s1 :: s2 :: l1 :: l2 :: l3 :: l4 :: body ++ more))) with true
    by (cbn [length] in *; rewrite app_length; lia).
  split; [reflexivity|]. split; [apply from_bytes_unknown; exact K|]. split; [apply from_bytes_unknown; exact K|]. lia.
Qed.

(* enough fuel: the result does not depend on it *)
Lemma decode_fuel : forall fx f1 f2 buf, (length buf <= f1)%nat -> (length buf <= f2)%nat ->
  decode fx f1 buf = decode fx f2 buf.
Proof.
  induction f1 as [|f1 IH]; intros f2 buf H1 H2.
  - destruct buf; [|cbn in H1; lia]. destruct f2; cbn; destruct (fx_skip fx); reflexivity.
  - destruct f2 as [|f2].
    + destruct buf; [cbn; destruct (fx_skip fx); reflexivity|cbn in H2; lia].
    + cbn [decode]. destruct (from_bytes buf) as [[m len]|]; [reflexivity|].
      destruct (fx_skip fx); [|reflexivity].
      destruct (skippable buf) as [len|] eqn:S; [|reflexivity].
      destruct (skippable_mono buf [] len S) as [_ [_ [_ [L8 LL]]]].
      apply IH; rewrite skipn_length; lia.
Qed.

(* bytes arriving later do not change a decoded PDU ... *)
Lemma decode_some_mono : forall fx f buf more m rest, (length buf <= f)%nat ->
  decode fx f buf = (Some m, rest) ->
  decode fx (f + length more) (buf ++ more) = (Some m, rest ++ more).
Proof.
  induction f as [|f IH]; intros buf more m rest Hf H.
  - destruct buf; [|cbn in Hf; lia]. cbn in H. destruct (fx_skip fx); discriminate.
  - cbn [decode plus] in *. destruct (from_bytes buf) as [[m' len]|] eqn:FB.
    + inversion H; subst. destruct (from_bytes_mono buf more m len FB) as [FB' Hl]. rewrite FB'.
      rewrite skipn_app_le by lia. reflexivity.
    + destruct (fx_skip fx); [|discriminate].
      destruct (skippable buf) as [len|] eqn:S; [|discriminate].
      destruct (skippable_mono buf more len S) as [S' [FB' [_ [L8 LL]]]].
      rewrite FB', S'. rewrite skipn_app_le by lia. apply IH; [rewrite skipn_length; lia|exact H].
Qed.

Lemma decode_skip_step : forall fx f b len, from_bytes b = None -> fx_skip fx = true -> skippable b = Some len ->
  decode fx (S f) b = decode fx f (skipn (N.to_nat len) b).
Proof. intros fx f b len FB SK S. cbn [decode]. rewrite FB, SK, S. reflexivity. Qed.

(* ... and do not un-skip a skipped one: with the unconsumed rest in front of them they decode the same *)
Lemma decode_none_mono : forall fx f buf more rest, (length buf <= f)%nat ->
  decode fx f buf = (None, rest) ->
  decode fx (f + length more) (buf ++ more) = decode fx (f + length more) (rest ++ more).
Proof.
  induction f as [|f IH]; intros buf more rest Hf H.
  - destruct buf; [|cbn in Hf; lia]. cbn in H. destruct (fx_skip fx); inversion H; reflexivity.
  - cbn [decode] in H. destruct (from_bytes buf) as [[m' len]|] eqn:FB; [discriminate|].
    destruct (fx_skip fx) eqn:SK.
    + destruct (skippable buf) as [len|] eqn:S.
      * destruct (skippable_mono buf more len S) as [S' [FB' [_ [L8 LL]]]].
        cbn [plus]. rewrite (decode_skip_step fx (f + length more) (buf ++ more) len FB' SK S'). rewrite skipn_app_le by lia.
        rewrite (IH (skipn (N.to_nat len) buf) more rest); [|rewrite skipn_length; lia|exact H].
        assert (LR : (length rest <= length (skipn (N.to_nat len) buf))%nat).
        { clear -H. revert H. generalize (skipn (N.to_nat len) buf) as b. induction f as [|f IHf]; intros b H.
          - cbn in H. destruct (from_bytes b) as [[? ?]|]; [discriminate|]. destruct (fx_skip fx); [destruct (skippable b)|]; inversion H; lia.
          - cbn [decode] in H. destruct (from_bytes b) as [[? ?]|]; [discriminate|].
            destruct (fx_skip fx); [|inversion H; lia]. destruct (skippable b) as [l|]; [|inversion H; lia].
            apply IHf in H. rewrite skipn_length in H. lia. }
        apply decode_fuel; rewrite app_length; rewrite skipn_length in LR; lia.
      * inversion H; subst. reflexivity.
    + inversion H; subst. reflexivity.
Qed.

(* ---- the PDUs a buffer delivers (the Framed loop), as a relation *)
Inductive parses (fx : fixes) : list N -> list msg -> list N -> Prop :=
| P_done : forall buf rest, decode fx (length buf) buf = (None, rest) -> parses fx buf [] rest
| P_step : forall buf m rest ms r,
    decode fx (length buf) buf = (Some m, rest) -> parses fx rest ms r -> parses fx buf (m :: ms) r.

Lemma parses_det : forall fx buf ms r, parses fx buf ms r -> forall ms' r', parses fx buf ms' r' -> ms = ms' /\ r = r'.
Proof.
  intros fx buf ms r P. induction P as [buf rest D|buf m rest ms r D P IH]; intros ms' r' P'.
  - inversion P'; subst; rewrite D in *; [split; congruence|discriminate].
  - inversion P' as [? ? D'|? ? ? ? ? D' P'']; subst; rewrite D in D'; [discriminate|].
    inversion D'; subst. destruct (IH _ _ P'') as [E1 E2]. subst. split; reflexivity.
Qed.

(* C13 "arbitrary TCP fragmentation": what a buffer delivers when a second segment is
   appended is what it delivered before followed by what the unconsumed rest plus the
   new segment deliver.  Hence cutting a byte stream anywhere changes neither the PDU
   sequence nor the final remainder. *)
Theorem parses_app : forall fx b1 ms r b2 ms' r',
  parses fx b1 ms r -> parses fx (r ++ b2) ms' r' -> parses fx (b1 ++ b2) (ms ++ ms') r'.
Proof.
  intros fx b1 ms r b2 ms' r' P. revert ms' r'. induction P as [buf rest D|buf m rest ms r D P IH]; intros ms' r' P2.
  - cbn [app].
    pose proof (decode_none_mono fx (length buf) buf b2 rest (le_n _) D) as M.
    rewrite <- app_length in M.
    inversion P2 as [? ? D2|? ? ? ? ? D2 P2']; subst.
    + apply P_done. rewrite M. rewrite <- D2. apply decode_fuel; rewrite !app_length; try lia.
      assert (length rest <= length buf)%nat; [|lia].
      clear -D. revert D. generalize (length buf) at 1 as f. intro f. revert buf. induction f as [|f IHf]; intros b H.
      * cbn in H. destruct (from_bytes b) as [[? ?]|]; [discriminate|]. destruct (fx_skip fx); [destruct (skippable b)|]; inversion H; lia.
      * cbn [decode] in H. destruct (from_bytes b) as [[? ?]|]; [discriminate|].
        destruct (fx_skip fx); [|inversion H; lia]. destruct (skippable b) as [l|]; [|inversion H; lia].
        apply IHf in H. rewrite skipn_length in H. lia.
    + eapply P_step; [|exact P2']. rewrite M. rewrite <- D2. apply decode_fuel; rewrite !app_length; try lia.
      assert (length rest <= length buf)%nat; [|lia].
      clear -D. revert D. generalize (length buf) at 1 as f. intro f. revert buf. induction f as [|f IHf]; intros b H.
      * cbn in H. destruct (from_bytes b) as [[? ?]|]; [discriminate|]. destruct (fx_skip fx); [destruct (skippable b)|]; inversion H; lia.
      * cbn [decode] in H. destruct (from_bytes b) as [[? ?]|]; [discriminate|].
        destruct (fx_skip fx); [|inversion H; lia]. destruct (skippable b) as [l|]; [|inversion H; lia].
        apply IHf in H. rewrite skipn_length in H. lia.
  - cbn [app]. eapply P_step; [|apply IH; exact P2].
    pose proof (decode_some_mono fx (length buf) buf b2 m rest (le_n _) D) as M.
    rewrite <- app_length in M. exact M.
Qed.

(* ---- progress: a complete, well-framed PDU is never left in the buffer *)
Definition min_size (ver ty : N) : N :=
  if (ty =? 0) || (ty =? 1) then 12
  else if ty =? 4 then 20
  else if ty =? 6 then 32
  else if ty =? 7 then (if 1 <=? ver then 24 else 12)
  else 8.

(* a PDU as RFC 6810/8210 frame it: 8-byte header whose length field is the PDU's
   size, which is at least the fixed size of its type (any type, used or not) *)
Definition wellframed (pdu : list N) (ty : N) : Prop :=
  exists ver s1 s2 l1 l2 l3 l4 body,
    pdu = ver :: ty :: s1 :: s2 :: l1 :: l2 :: l3 :: l4 :: body
    /\ be32 [l1; l2; l3; l4] = N.of_nat (length pdu)
    /\ min_size ver ty <= N.of_nat (length pdu).

Lemma from_bytes_wellframed : forall pdu ty, wellframed pdu ty -> known_type ty = true ->
  exists m, from_bytes pdu = Some (m, N.of_nat (length pdu)).
Proof.
  intros pdu ty [ver [s1 [s2 [l1 [l2 [l3 [l4 [body [E [HL HM]]]]]]]]]] K. subst pdu.
  unfold from_bytes. rewrite HL. rewrite N.ltb_irrefl. unfold min_size in HM. cbn [length] in HM.
  destruct (ty =? 0) eqn:T0.
  { cbn [orb] in HM. destruct body as [|a [|b [|c [|d r]]]]; cbn [length] in HM; try lia. eexists; reflexivity. }
  destruct (ty =? 1) eqn:T1.
  { cbn [orb] in HM. destruct body as [|a [|b [|c [|d r]]]]; cbn [length] in HM; try lia. eexists; reflexivity. }
  cbn [orb] in HM.
  destruct (ty =? 2) eqn:T2; [eexists; reflexivity|].
  destruct (ty =? 3) eqn:T3; [eexists; reflexivity|].
  destruct (ty =? 4) eqn:T4.
  { destruct body as [|a [|b [|c [|d r]]]]; cbn [length] in HM; try lia.
    replace ((length r <? 8)%nat) with false by (symmetry; apply Nat.ltb_ge; lia). eexists; reflexivity. }
  destruct (ty =? 6) eqn:T6.
  { destruct body as [|a [|b [|c [|d r]]]]; cbn [length] in HM; try lia.
    replace ((length r <? 20)%nat) with false by (symmetry; apply Nat.ltb_ge; lia). eexists; reflexivity. }
  destruct (ty =? 7) eqn:T7.
  { destruct (1 <=? ver) eqn:V.
    - destruct body as [|a [|b [|c [|d r]]]]; cbn [length] in HM; try lia.
      replace ((length r <? 12)%nat) with false by (symmetry; apply Nat.ltb_ge; lia). eexists; reflexivity.
    - destruct body as [|a [|b [|c [|d r]]]]; cbn [length] in HM; try lia. eexists; reflexivity. }
  destruct (ty =? 8) eqn:T8; [eexists; reflexivity|].
  destruct (ty =? 10) eqn:T10; [eexists; reflexivity|].
  exfalso. unfold known_type in K. cbn [existsb] in K. rewrite T0, T1, T2, T3, T4, T6, T7, T8, T10 in K.
  cbn in K. discriminate.
Qed.

Lemma skipn_exact {A} : forall (a b : list A), skipn (length a) (a ++ b) = b.
Proof. intros a b. rewrite skipn_app, skipn_all, Nat.sub_diag. reflexivity. Qed.

(* C13 "makes progress ... including PDU types it does not use": with the fixed codec a
   complete well-framed PDU at the head of the buffer is always consumed, whatever
   follows it: a PDU of a used type is delivered and exactly its bytes are removed; a
   PDU of any other type (Router Key, ...) is dropped and decoding goes on behind it *)
Theorem decode_wellframed_progress : forall pdu ty more f,
  wellframed pdu ty -> (length (pdu ++ more) <= f)%nat ->
  (known_type ty = true /\ exists m, decode fixed f (pdu ++ more) = (Some m, more))
  \/ (known_type ty = false /\ exists f', f = S f' /\ decode fixed f (pdu ++ more) = decode fixed f' more).
Proof.
  intros pdu ty more f WF Hf. destruct (known_type ty) eqn:K.
  - left. split; [reflexivity|]. destruct (from_bytes_wellframed pdu ty WF K) as [m FB].
    destruct (from_bytes_mono pdu more m _ FB) as [FB' _]. exists m.
    destruct f; cbn [decode]; rewrite FB'; rewrite Nat2N.id, skipn_exact; reflexivity.
  - right. split; [reflexivity|].
    destruct WF as [ver [s1 [s2 [l1 [l2 [l3 [l4 [body [E [HL HM]]]]]]]]]].
    destruct f as [|f']; [subst pdu; cbn in Hf; lia|]. exists f'. split; [reflexivity|].
    assert (S : skippable pdu = Some (N.of_nat (length pdu))).
    { subst pdu. unfold skippable. rewrite HL, K. cbn [negb andb].
      replace (8 <=? N.of_nat (length (ver :: ty :: s1 :: s2 :: l1 :: l2 :: l3 :: l4 :: body))) with true by (cbn [length]; lia).
      rewrite N.leb_refl. reflexivity. }
    destruct (skippable_mono pdu more _ S) as [S' [FB' _]].
    rewrite (decode_skip_step fixed f' (pdu ++ more) _ FB' eq_refl S'). rewrite Nat2N.id, skipn_exact. reflexivity.
Qed.

(* before fix da26e94 (no skipping) a complete Router Key PDU blocks the stream for ever *)
Lemma decode_pre_refuted_router_key :
  exists pdu, wellframed pdu 9 /\ forall more f, decode prefix_code f (pdu ++ more) = (None, pdu ++ more).
Proof.
  exists ([1; 9; 0; 0; 0; 0; 0; 32] ++ repeat 0 24). split.
  - exists 1, 0, 0, 0, 0, 0, 32, (repeat 0 24). split; [reflexivity|]. split; vm_compute; [reflexivity|discriminate].
  - intros more f. cbn [app repeat]. destruct f; cbn [decode prefix_code fx_skip]; rewrite from_bytes_unknown by reflexivity; reflexivity.
Qed.

Example wellframed_example :
  wellframed [1; 4; 0; 0; 0; 0; 0; 20; 1; 16; 24; 0; 10; 1; 0; 0; 0; 0; 253; 233] 4
  /\ wellframed ([1; 9; 1; 0; 0; 0; 0; 32] ++ repeat 7 24) 9.
Proof.
  split.
  - exists 1, 0, 0, 0, 0, 0, 20, [1; 16; 24; 0; 10; 1; 0; 0; 0; 0; 253; 233]. split; [reflexivity|]. split; vm_compute; [reflexivity|discriminate].
  - exists 1, 1, 0, 0, 0, 0, 32, (repeat 7 24). split; [reflexivity|]. split; vm_compute; [reflexivity|discriminate].
Qed.
