(* The byte level of property C13: RtrCodec::decode is monotone in the buffer
   (bytes arriving later never change what an earlier complete PDU decodes to),
   hence the PDUs delivered by the Framed loop do not depend on TCP
   fragmentation; every well-framed PDU is consumed (progress). *)
From Coq Require Import List Arith NArith Bool Lia ZifyBool ZifyNat ZifyN.
From RB Require Import Base.Val Model.Rpki Model.RtrClient.
Import ListNotations.
Open Scope N_scope.

Lemma firstn_app_le {A} : forall n (l m : list A), (n <= length l)%nat -> firstn n (l ++ m) = firstn n l.
Proof. intros n l m H. rewrite firstn_app. replace (n - length l)%nat with 0%nat by lia. cbn. apply app_nil_r. Qed.

Lemma skipn_app_le {A} : forall n (l m : list A), (n <= length l)%nat -> skipn n (l ++ m) = skipn n l ++ m.
Proof. intros n l m H. rewrite skipn_app. replace (n - length l)%nat with 0%nat by lia. reflexivity. Qed.

Ltac dbody b :=
  destruct b as [|?a [|?b [|?c [|?d ?rest]]]]; try discriminate.

Lemma from_bytes_mono : forall buf more m len,
  from_bytes buf = Some (m, len) ->
  from_bytes (buf ++ more) = Some (m, len) /\ len <= N.of_nat (length buf).
Proof.
  intros buf more m len H.
  destruct buf as [|ver [|ty [|s1 [|s2 [|l1 [|l2 [|l3 [|l4 body]]]]]]]]; try discriminate.
  cbn [app]. unfold from_bytes in *.
  set (L := be32 [l1; l2; l3; l4]) in *.
  destruct (N.of_nat (length (ver :: ty :: s1 :: s2 :: l1 :: l2 :: l3 :: l4 :: body)) <? L) eqn:EL; [discriminate|].
  assert (EL' : (N.of_nat (length (ver :: ty :: s1 :: s2 :: l1 :: l2 :: l3 :: l4 :: body ++ more)) <? L) = false).
  { cbn [length] in *. rewrite app_length. lia. }
  rewrite EL'.
  assert (HL : forall x, Some (x, L) = Some (m, len) -> len <= N.of_nat (length (ver :: ty :: s1 :: s2 :: l1 :: l2 :: l3 :: l4 :: body))).
  { intros x E. inversion E; subst. lia. }
  destruct (ty =? 0).
  { dbody body. cbn [app]. split; [exact H|eapply HL; exact H]. }
  destruct (ty =? 1).
  { dbody body. cbn [app]. split; [exact H|eapply HL; exact H]. }
  destruct (ty =? 2); [split; [exact H|eapply HL; exact H]|].
  destruct (ty =? 3); [split; [exact H|eapply HL; exact H]|].
  destruct (ty =? 4).
  { dbody body. cbn [app]. destruct ((length rest <? 8)%nat) eqn:E8; [discriminate|].
    apply Nat.ltb_ge in E8.
    replace ((length (rest ++ more) <? 8)%nat) with false by (symmetry; apply Nat.ltb_ge; rewrite app_length; lia).
    rewrite !skipn_app_le, !firstn_app_le by (rewrite ?skipn_length; lia).
    split; [exact H|eapply HL; exact H]. }
  destruct (ty =? 6).
  { dbody body. cbn [app]. destruct ((length rest <? 20)%nat) eqn:E8; [discriminate|].
    apply Nat.ltb_ge in E8.
    replace ((length (rest ++ more) <? 20)%nat) with false by (symmetry; apply Nat.ltb_ge; rewrite app_length; lia).
    rewrite !skipn_app_le, !firstn_app_le by (rewrite ?skipn_length; lia).
    split; [exact H|eapply HL; exact H]. }
  destruct (ty =? 7).
  { dbody body. cbn [app]. destruct (1 <=? ver).
    - destruct ((length rest <? 12)%nat) eqn:E8; [discriminate|].
      apply Nat.ltb_ge in E8.
      replace ((length (rest ++ more) <? 12)%nat) with false by (symmetry; apply Nat.ltb_ge; rewrite app_length; lia).
      rewrite !skipn_app_le, !firstn_app_le by (rewrite ?skipn_length; lia).
      split; [exact H|eapply HL; exact H].
    - split; [exact H|eapply HL; exact H]. }
  destruct (ty =? 8); [split; [exact H|eapply HL; exact H]|].
  destruct (ty =? 10); [split; [exact H|eapply HL; exact H]|].
  discriminate.
Qed.
