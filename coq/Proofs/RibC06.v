(* Property C06: the RIB's change stream reproduces the RIB. *)
From Coq Require Import List NArith ZArith Bool Lia Sorting.Permutation Sorting.Sorted.
From RB Require Import Base.Val Model.Rib Spec.BestPath Spec.RibSpec
     Proofs.RibOrder Proofs.RibInv Proofs.RibAux Proofs.RibInv2 Proofs.RibC02.
Import ListNotations.
Open Scope N_scope.

(* ================================================ destination identifiers *)

Lemma C06_dest_ids_unique :
  forall shard ops,
    bounded (empty_table shard) ops ->
    let t := run (empty_table shard) ops in
    NoDup (map (fun nd => d_id (snd nd)) (t_dests t))
    /\ NoDup (t_used t)
    /\ (forall l, In l (t_used t) <->
                  l < 16777216 /\ exists net d, In (net, d) (t_dests t) /\ d_id d = dest_id shard l).
Proof.
  intros shard ops Hb t.
  pose proof (invI_run _ ops (invE_empty shard) (invI_empty shard) Hb) as Hi. fold t in Hi.
  pose proof (invE_run _ ops (invE_empty shard)) as He. fold t in He.
  pose proof (run_shard (empty_table shard) ops) as Hs. fold t in Hs. cbn in Hs.
  destruct Hi as [Hl Hu Hf Hn]. rewrite Hs in Hf.
  assert (Hlt : forall net d, In (net, d) (t_dests t) -> lid d < 16777216).
  { intros net d Hin. unfold lid, local_of. change 16777215 with (N.ones 24).
    rewrite N.land_ones. apply N.mod_lt. discriminate. }
  split; [|split; [exact Hn|]].
  - (* equal ids have equal local ids *)
    assert (Hm : map (fun nd => lid (snd nd)) (t_dests t)
                 = map local_of (map (fun nd => d_id (snd nd)) (t_dests t))).
    { rewrite map_map. reflexivity. }
    rewrite Hm in Hl. revert Hl. generalize (map (fun nd => d_id (snd nd)) (t_dests t)).
    intros l. induction l as [|a r IH]; cbn; intro H; [constructor|].
    apply NoDup_cons_iff in H as [Hn1 Hr]. constructor; [|apply IH, Hr].
    intro Hin. apply Hn1. apply in_map, Hin.
  - intro l. rewrite Hu. split.
    + intros (net & d & Hin & E). split; [rewrite <- E; apply (Hlt _ _ Hin)|].
      exists net, d. split; [exact Hin|]. rewrite <- E. apply (Hf _ _ Hin).
    + intros (Hsmall & net & d & Hin & E). exists net, d. split; [exact Hin|].
      unfold lid. rewrite E. apply local_of_dest_id, Hsmall.
Qed.

(* ============================================== one step, prefix by prefix *)

Definition oel (o : option dest) : list entry := match o with Some d => elig_list d | None => [] end.
Definition oid (o : option dest) : option N := match o with Some d => Some (d_id d) | None => None end.

Lemma elig_of_oel t net : elig_of t net = oel (alookup net (t_dests t)).
Proof. reflexivity. Qed.

(* what one notification must satisfy, given the destination before and after *)
Definition chg_ok (net : N) (od od' : option dest) (c : change) : Prop :=
  c_net c = net
  /\ c_paths c = oel od'
  /\ Some (c_dest_id c) = match oid od' with Some i => Some i | None => oid od end
  /\ (c_best_changed c = false -> head_content (oel od) = head_content (oel od'))
  /\ (c_any_changed c = false -> oel od = oel od').

Lemma best_key_head d : best_key d = head_content (elig_list d).
Proof. unfold best_key, best_of, head_content, content. destruct (elig_list d); reflexivity. Qed.

Lemma oN_eqb_eq a b : oN_eqb a b = true -> a = b.
Proof.
  destruct a, b; cbn; try discriminate; try reflexivity. intro H. apply N.eqb_eq in H. congruence.
Qed.

Lemma key_eqb_eq a b : key_eqb a b = true -> a = b.
Proof.
  destruct a as [[[s1 t1] n1]|], b as [[[s2 t2] n2]|]; cbn; try discriminate; try reflexivity.
  rewrite !andb_true_iff, !N.eqb_eq. intros [[-> ->] H]. apply oN_eqb_eq in H. subst. reflexivity.
Qed.

Lemma best_lpid_head d : best_lpid d = option_map e_lpid (hd_error (elig_list d)).
Proof. unfold best_lpid, best_of. destruct (elig_list d); reflexivity. Qed.

(* two sub-lists of one list with pairwise distinct local path ids: equal head
   ids mean equal heads *)
Lemma head_by_lpid l l1 l2 :
  NoDup (map e_lpid l) -> incl l1 l -> incl l2 l ->
  option_map e_lpid (hd_error l1) = option_map e_lpid (hd_error l2) ->
  head_content l1 = head_content l2.
Proof.
  intros Hnd H1 H2. destruct l1 as [|a r1], l2 as [|b r2]; cbn; try discriminate; [reflexivity|].
  intro H. injection H as H.
  assert (a = b); [|subst; reflexivity].
  apply (nodup_map_inj e_lpid l); try assumption; [apply H1|apply H2]; left; reflexivity.
Qed.

Lemma incl_filter {A} (p : A -> bool) l : incl (filter p l) l.
Proof. intros x Hx. apply filter_In in Hx. tauto. Qed.

Lemma filter_filter_neg {A} (p q : A -> bool) l :
  (forall x, In x l -> q x = true -> p x = false) ->
  filter p (filter (fun x => negb (q x)) l) = filter p l.
Proof.
  induction l as [|a r IH]; cbn; intro H; [reflexivity|].
  destruct (q a) eqn:Qa; cbn.
  - rewrite (H a (or_introl eq_refl) Qa). apply IH. intros x Hx. apply H. right. exact Hx.
  - rewrite IH; [reflexivity|]. intros x Hx. apply H. right. exact Hx.
Qed.

Lemma filter_ins_sorted_out cmp p e l : p e = false -> filter p (ins_sorted cmp e l) = filter p l.
Proof.
  intro Pe. induction l as [|a r IH]; cbn; [rewrite Pe; reflexivity|].
  destruct (is_ge (cmp e a)); cbn; [rewrite IH; reflexivity|rewrite Pe; reflexivity].
Qed.

Lemma filter_remove_first_out p g l r :
  find g l = Some r -> p r = false -> filter p (remove_first g l) = filter p l.
Proof.
  induction l as [|a l' IH]; cbn; [discriminate|].
  destruct (g a); [intro H; injection H as ->; intro Pr; rewrite Pr; reflexivity|].
  intros H Pr. cbn. rewrite (IH H Pr). reflexivity.
Qed.

Lemma remove_first_nil g l r : find g l = Some r -> remove_first g l = [] -> l = [r].
Proof.
  destruct l as [|a l']; cbn; [discriminate|]. destruct (g a); [|discriminate].
  intros H ->. injection H as ->. reflexivity.
Qed.

(* ------------------------------------------------------------------- drop *)

Lemma drop_dest_sound fl k addr net d :
  okd d ->
  (forall c, snd (fst (drop_dest fl k addr net d)) = Some c ->
             chg_ok net (Some d) (fst (fst (drop_dest fl k addr net d))) c)
  /\ (snd (fst (drop_dest fl k addr net d)) = None ->
      elig_list d = oel (fst (fst (drop_dest fl k addr net d)))).
Proof.
  intros (Hne & Hl & _).
  destruct (drop_dest_cases fl k addr net d) as [[_ E]|(Hex & E1 & _ & E2)]; cbv zeta in *.
  - rewrite E. cbn. split; [discriminate|reflexivity].
  - rewrite E1, E2. set (sel := drop_sel fl k addr) in *.
    set (rest := filter (fun e => negb (sel e)) (d_entries d)) in *.
    assert (Hel : forall np, elig_list (with_entries d rest np) = filter eligible rest) by reflexivity.
    destruct (existsb (fun e => sel e && eligible e) (d_entries d)) eqn:Exe.
    + split; [|discriminate]. intros c Hc. injection Hc as <-. unfold chg_ok. cbn [c_net c_paths c_dest_id c_best_changed c_any_changed].
      split; [reflexivity|]. destruct rest as [|x xs] eqn:Er.
      * cbn. repeat split; try reflexivity; discriminate.
      * cbn [oel oid d_id with_entries]. repeat split; try reflexivity; [|discriminate].
        intro Hb. apply negb_false_iff in Hb. apply oN_eqb_eq in Hb. rewrite !best_lpid_head in Hb.
        apply (head_by_lpid (d_entries d)); try assumption.
        -- apply incl_filter.
        -- rewrite Hel. intros y Hy. apply filter_In in Hy as [Hy _]. rewrite <- Er in Hy.
           apply filter_In in Hy. tauto.
    + split; [discriminate|]. intros _.
      assert (Hsame : filter eligible rest = filter eligible (d_entries d)).
      { apply filter_filter_neg. intros x Hx Sx. destruct (eligible x) eqn:Ee; [|reflexivity].
        assert (existsb (fun e => sel e && eligible e) (d_entries d) = true); [|congruence].
        apply existsb_exists. exists x. split; [exact Hx|]. rewrite Sx, Ee. reflexivity. }
      destruct rest as [|x xs] eqn:Er; cbn [oel].
      * unfold elig_list. rewrite <- Hsame. reflexivity.
      * rewrite Hel. symmetry. exact Hsame.
Qed.

(* ----------------------------------------------------------------- restale *)

Section Restale.
Variable f : N -> N.

Lemma indexed_from_fst {A} k (l : list A) x xs : l = x :: xs -> In (k, x) (indexed_from k l).
Proof. intros ->. left. reflexivity. Qed.

(* one destination: every notification carries the new list; if all of them say
   "best unchanged" the best path's content did not move, if all of them say
   "nothing changed" the list did not move *)
Lemma restale_dest_sound t llgr addr net d :
  inv1 f t -> In (net, d) (t_dests t) -> NoDup (map e_lpid (d_entries d)) ->
  let fl' := restale_flags llgr addr (t_dests t) (t_flags t) in
  let d' := fst (restale_dest fl' llgr addr net d) in
  let cs := snd (restale_dest fl' llgr addr net d) in
  (forall c, In c cs -> c_net c = net /\ c_paths c = elig_list d' /\ c_dest_id c = d_id d')
  /\ ((forall c, In c cs -> c_best_changed c = false) -> head_content (elig_list d) = head_content (elig_list d'))
  /\ ((forall c, In c cs -> c_any_changed c = false) -> elig_list d = elig_list d').
Proof.
  intros [Hk Hr Ht] Hin Hl fl'. unfold restale_dest.
  destruct (existsb (from_addr addr) (d_entries d)) eqn:Ex; cbn [negb fst snd];
    [|split; [intros c []|split; intros _; reflexivity]].
  set (d' := with_entries d (isort (cmp_for fl' net) (d_entries d)) (d_next_pid d)).
  assert (Hel : elig_list d' = isort (cmp_for fl' net) (elig_list d)).
  { unfold elig_list, d'. cbn [d_entries with_entries]. apply filter_isort. }
  assert (Hstay : existsb (fun e => from_addr addr e && negb (e_filtered e)) (d_entries d) = false ->
                  elig_list d = elig_list d').
  { intro Hnu. rewrite Hel. symmetry. apply isort_sorted_id.
    apply (ranked_ext (t_flags t)); [|apply ranked_filter, (Hr _ _ Hin)].
    intros e He. apply filter_In in He as [He Hee]. apply key_for_flags. unfold fl'.
    apply flags_restale_other. intros n0 d0 e0 Hin0 He0 Hfrom Htok.
    assert (Hne : from_addr addr e = false).
    { destruct (from_addr addr e) eqn:E; [|reflexivity].
      assert (existsb (fun e => from_addr addr e && negb (e_filtered e)) (d_entries d) = true); [|congruence].
      apply existsb_exists. exists e. split; [exact He|]. rewrite E. unfold eligible in Hee.
      apply andb_true_iff in Hee as [Hee _]. rewrite Hee. reflexivity. }
    apply from_addr_eq in Hfrom.
    pose proof (Ht _ _ _ Hin0 He0) as W0. pose proof (Ht _ _ _ Hin He) as W.
    unfold wf_entry in *. rewrite Htok in W0.
    assert (Ha : s_addr (e_src e) = addr) by congruence.
    apply from_addr_eq in Ha. congruence. }
  assert (Hhead : negb (oNeqb (best_lpid d) (best_lpid d')) = false ->
                  head_content (elig_list d) = head_content (elig_list d')).
  { intro Hb. apply negb_false_iff, oN_eqb_eq in Hb. rewrite !best_lpid_head in Hb.
    apply (head_by_lpid (d_entries d)); try assumption; [apply incl_filter|].
    intros y Hy. apply filter_In in Hy as [Hy _]. unfold d' in Hy. cbn [d_entries with_entries] in Hy.
    apply (Permutation_in y (Permutation_sym (isort_perm (cmp_for fl' net) (d_entries d)))), Hy. }
  fold d'.
  set (moved := negb (oNeqb (best_lpid d) (best_lpid d'))) in *.
  set (marked := if llgr then map e_lpid (filter (from_addr addr) (elig_list d')) else []).
  set (bm := match best_lpid d', marked with Some b, m :: _ => m =? b | _, _ => false end).
  set (any_unf := existsb (fun e => from_addr addr e && negb (e_filtered e)) (d_entries d)) in *.
  destruct ((moved || bm) || any_unf) eqn:Hem.
  - destruct marked as [|m ms] eqn:Em.
    + split; [intros c [<-|[]]; repeat split; reflexivity|]. split.
      * intro H. specialize (H _ (or_introl eq_refl)). cbn [c_best_changed] in H.
        apply orb_false_iff in H as [H _]. apply Hhead. exact H.
      * intro H. specialize (H _ (or_introl eq_refl)). cbn [c_any_changed] in H. apply Hstay, H.
    + split; [|split].
      * intros c Hc. apply in_map_iff in Hc as (kp & <- & _). repeat split; reflexivity.
      * intro H. apply Hhead.
        set (g := fun kp : nat * N => {| c_net := net; c_dest_id := d_id d;
                                         c_best_changed := (moved || bm) && Nat.eqb (fst kp) 0;
                                         c_any_changed := true; c_replaced := Some (snd kp);
                                         c_paths := elig_list d' |}) in *.
        assert (Hfirst : In (g (0%nat, m)) (map g (indexed_from 0 (m :: ms)))) by (apply in_map; left; reflexivity).
        specialize (H _ Hfirst). unfold g in H. cbn [c_best_changed fst Nat.eqb] in H. rewrite andb_true_r in H.
        apply orb_false_iff in H as [H _]. exact H.
      * intro H. exfalso.
        set (g := fun kp : nat * N => {| c_net := net; c_dest_id := d_id d;
                                         c_best_changed := (moved || bm) && Nat.eqb (fst kp) 0;
                                         c_any_changed := true; c_replaced := Some (snd kp);
                                         c_paths := elig_list d' |}) in *.
        assert (Hfirst : In (g (0%nat, m)) (map g (indexed_from 0 (m :: ms)))) by (apply in_map; left; reflexivity).
        specialize (H _ Hfirst). discriminate H.
  - apply orb_false_iff in Hem as [Hb Hu]. apply orb_false_iff in Hb as [Hm _].
    split; [intros c []|]. split; intros _; [apply Hhead; exact Hm|apply Hstay; exact Hu].
Qed.

End Restale.

(* ------------------------------------------------------ next-hop validity *)

Lemma nhv_dest_sound nh r net d :
  (forall c, snd (nhv_dest nh r net d) = Some c -> chg_ok net (Some d) (Some (fst (nhv_dest nh r net d))) c)
  /\ (snd (nhv_dest nh r net d) = None -> elig_list d = elig_list (fst (nhv_dest nh r net d))).
Proof.
  destruct (nhv_dest_cases nh r net d) as [[_ E]|[_ E]]; cbv zeta in E; rewrite E; cbn [fst snd].
  - split; [discriminate|reflexivity].
  - split; [|discriminate]. intros c Hc. injection Hc as <-. unfold chg_ok.
    cbn [c_net c_paths c_dest_id c_best_changed c_any_changed oel oid d_id with_entries].
    repeat split; try reflexivity; [|discriminate].
    intro Hb. apply negb_false_iff, key_eqb_eq in Hb. rewrite !best_key_head in Hb. exact Hb.
Qed.

(* ------------------------------------------- lifting to the whole table *)

Definition net_ok1 (t t' : table) (cs : list change) (net : N) : Prop :=
  (forall c, In c cs -> c_net c = net ->
             chg_ok net (alookup net (t_dests t)) (alookup net (t_dests t')) c)
  /\ ((forall c, In c cs -> c_net c <> net) ->
      t_deferring t = true \/ elig_of t net = elig_of t' net).

Lemma net_ok1_refl t net : net_ok1 t t [] net.
Proof. split; [intros c []|intros _; right; reflexivity]. Qed.

Definition ochs (h : N -> dest -> option change) (ds : list (N * dest)) : list change :=
  flat_map (fun nd => match h (fst nd) (snd nd) with Some c => [c] | None => [] end) ds.

Lemma in_ochs h ds c : In c (ochs h ds) <-> exists n d, In (n, d) ds /\ h n d = Some c.
Proof.
  unfold ochs. rewrite in_flat_map. split.
  - intros ([n d] & Hin & H). cbn [fst snd] in H. destruct (h n d) as [c0|] eqn:E; [|destruct H].
    destruct H as [<-|[]]. exists n, d. split; assumption.
  - intros (n & d & Hin & E). exists (n, d). split; [exact Hin|]. cbn [fst snd]. rewrite E. left. reflexivity.
Qed.

Lemma net_ok1_fm t t' cs g h net :
  NoDup (map fst (t_dests t)) ->
  t_dests t' = fm g (t_dests t) -> cs = ochs h (t_dests t) ->
  (forall n d, In (n, d) (t_dests t) ->
               (forall c, h n d = Some c -> chg_ok n (Some d) (g n d) c)
               /\ (h n d = None -> elig_list d = oel (g n d))) ->
  net_ok1 t t' cs net.
Proof.
  intros Hk Ed -> Hs. unfold net_ok1, elig_of. rewrite Ed, (alookup_fm g _ net Hk). split.
  - intros c Hc Hn. apply in_ochs in Hc as (n & d & Hin & E).
    destruct (Hs _ _ Hin) as [H1 _]. specialize (H1 _ E).
    assert (n = net) by (destruct H1 as [H1 _]; congruence). subst n.
    rewrite (in_alookup _ _ _ Hk Hin). exact H1.
  - intro Hno. right. destruct (alookup net (t_dests t)) as [d|] eqn:Hd; [|reflexivity].
    apply alookup_in in Hd. destruct (Hs _ _ Hd) as [H1 H2].
    destruct (h net d) as [c|] eqn:E; [|apply H2; reflexivity].
    exfalso. apply (Hno c); [apply in_ochs; exists net, d; split; assumption|].
    destruct (H1 c eq_refl) as [H _]. exact H.
Qed.

Lemma mp_as_fm g ds : mp g ds = fm (fun n d => Some (g n d)) ds.
Proof. unfold mp, fm. induction ds as [|[n d] r IH]; cbn; [reflexivity|]. rewrite IH. reflexivity. Qed.

Lemma drop_op_changes t k addr ctr :
  snd (drop_op t k addr ctr) = ochs (fun n d => snd (fst (drop_dest (t_flags t) k addr n d))) (t_dests t).
Proof.
  unfold drop_op. cbv zeta. destruct (stats_of t addr) as [rcv acc].
  destruct (fold_left _ _ _) as [[rcv' acc'] bad']. cbn [snd]. unfold ochs. rewrite flat_map_map. reflexivity.
Qed.

Lemma nhv_op_changes t nh r :
  snd (nhv_op t nh r) = ochs (fun n d => snd (nhv_dest nh r n d)) (t_dests t).
Proof. unfold nhv_op. cbn [snd]. unfold ochs. rewrite flat_map_map. reflexivity. Qed.

Lemma net_ok1_drop t k addr ctr net :
  invE t -> net_ok1 t (fst (drop_op t k addr ctr)) (snd (drop_op t k addr ctr)) net.
Proof.
  intros [Hk Hok]. destruct (drop_op_dests t k addr ctr) as [Ed _].
  apply (net_ok1_fm t _ _ _ _ net Hk Ed (drop_op_changes t k addr ctr)).
  intros n d Hin. apply drop_dest_sound, (Hok _ _ Hin).
Qed.

Lemma net_ok1_nhv t nh r net :
  invE t -> net_ok1 t (fst (nhv_op t nh r)) (snd (nhv_op t nh r)) net.
Proof.
  intros [Hk Hok]. destruct (nhv_op_dests t nh r) as [Ed _]. rewrite mp_as_fm in Ed.
  apply (net_ok1_fm t _ _ _ _ net Hk Ed (nhv_op_changes t nh r)).
  intros n d Hin. apply nhv_dest_sound.
Qed.

(* ------------------------------------------------------------------ insert *)

Lemma ins_out_sound t d0 d2 n0 replaced filt :
  (filt = true -> match replaced with Some r => e_filtered r = true | None => True end ->
   elig_list d0 = elig_list d2) ->
  match ins_out t d0 d2 n0 replaced filt with
  | OChanged c =>
      c_net c = n0 /\ c_paths c = elig_list d2 /\ c_dest_id c = d_id d2
      /\ (c_best_changed c = false -> head_content (elig_list d0) = head_content (elig_list d2))
      /\ (c_any_changed c = false -> elig_list d0 = elig_list d2)
  | _ => t_deferring t = true \/ elig_list d0 = elig_list d2
  end.
Proof.
  intro Hsame. unfold ins_out.
  assert (Hany : (negb filt || match replaced with Some r => negb (e_filtered r) | None => false end) = false ->
                 elig_list d0 = elig_list d2).
  { intro H. apply orb_false_iff in H as [Hf Hr]. apply negb_false_iff in Hf. apply Hsame; [exact Hf|].
    destruct replaced as [r|]; [|exact Logic.I]. apply negb_false_iff in Hr. exact Hr. }
  destruct (t_deferring t) eqn:Hd; [left; reflexivity|].
  destruct (negb (negb (key_eqb (best_key d0) (best_key d2))) && _) eqn:Hq.
  - apply andb_true_iff in Hq as [_ Hq]. apply negb_true_iff in Hq. right. apply Hany, Hq.
  - cbn [c_net c_paths c_dest_id c_best_changed c_any_changed]. repeat split; try reflexivity.
    + intro Hb. apply negb_false_iff, key_eqb_eq in Hb. rewrite !best_key_head in Hb. exact Hb.
    + exact Hany.
Qed.

Lemma elig_of_ins_lookup t net : elig_of t net = elig_list (fst (ins_lookup t net)).
Proof. unfold elig_of, ins_lookup. destruct (alookup net (t_dests t)); reflexivity. Qed.

Lemma oid_ins_lookup t net d2 :
  d_id d2 = d_id (fst (ins_lookup t net)) ->
  Some (d_id d2) = match oid (Some d2) with Some i => Some i | None => oid (alookup net (t_dests t)) end.
Proof. reflexivity. Qed.

Lemma net_ok1_insert t s n0 rpid nh a filt nhinv lim net :
  invE t ->
  net_ok1 t (fst (insert t s n0 rpid nh a filt nhinv lim))
         (match snd (insert t s n0 rpid nh a filt nhinv lim) with OChanged c => [c] | _ => [] end) net.
Proof.
  intros Hinv. destruct (ins_lookup_entries t n0 Hinv) as [Hl Hkk]. destruct Hinv as [Hk Hok].
  unfold insert. cbv zeta.
  destruct (ins_over t lim _); [apply net_ok1_refl|].
  destruct (ins_pid _ _ _) as [pn|] eqn:Hp; [|apply net_ok1_refl].
  cbn [fst snd].
  set (d0 := fst (ins_lookup t n0)) in *.
  set (rest := filter (fun e => negb (same_key s rpid e)) (d_entries d0)) in *.
  set (e := {| e_lpid := fst pn; e_rpid := rpid; e_src := s; e_nh := nh; e_attr := a;
               e_filtered := filt; e_nhinv := nhinv |}).
  set (d2 := with_entries d0 (ins_sorted (cmp_for (t_flags t) n0) e rest) (snd pn)).
  set (replaced := find (same_key s rpid) (d_entries d0)) in *.
  assert (Hsame : filt = true -> match replaced with Some r => e_filtered r = true | None => True end ->
                  elig_list d0 = elig_list d2).
  { intros Hf Hr. unfold elig_list, d2. cbn [d_entries with_entries].
    rewrite filter_ins_sorted_out by (unfold eligible, e; cbn; rewrite Hf; reflexivity).
    symmetry. apply filter_filter_neg. intros x Hx Kx. unfold replaced in Hr.
    destruct (find (same_key s rpid) (d_entries d0)) as [r|] eqn:Ef.
    - apply find_some in Ef as [Hrin Kr].
      assert (x = r).
      { apply (nodup_map_inj ekey (d_entries d0)); try assumption.
        apply same_key_ekey in Kx, Kr. congruence. }
      subst x. unfold eligible. rewrite Hr. reflexivity.
    - pose proof (find_none _ _ Ef x Hx) as Hn. congruence. }
  pose proof (ins_out_sound t d0 d2 n0 replaced filt Hsame) as Ho.
  unfold net_ok1, elig_of. cbn [t_dests t_deferring]. rewrite alookup_aset.
  destruct (net =? n0) eqn:En.
  - apply N.eqb_eq in En. subst net. fold (elig_of t n0). rewrite (elig_of_ins_lookup t n0). fold d0.
    destruct (ins_out t d0 d2 n0 replaced filt) as [| |c].
    + split; [intros c []|]. intros _. exact Ho.
    + split; [intros c []|]. intros _. exact Ho.
    + destruct Ho as (H1 & H2 & H3 & H4 & H5). split.
      * intros c0 [<-|[]] _. unfold chg_ok. cbn [oel oid]. split; [exact H1|]. split; [exact H2|].
        split; [rewrite H3; reflexivity|].
        change (oel (alookup n0 (t_dests t))) with (elig_of t n0). rewrite (elig_of_ins_lookup t n0). fold d0.
        split; assumption.
      * intro Hno. exfalso. apply (Hno c (or_introl eq_refl) H1).
  - apply N.eqb_neq in En. split.
    + intros c Hc Hn. exfalso. destruct (ins_out t d0 d2 n0 replaced filt) as [| |c0];
        [destruct Hc|destruct Hc|]. destruct Hc as [<-|[]]. destruct Ho as (H1 & _). congruence.
    + intros _. right. reflexivity.
Qed.

(* ------------------------------------------------------------------ remove *)

Lemma net_ok1_remove t s n0 rpid ctr net :
  invE t ->
  net_ok1 t (fst (remove t s n0 rpid ctr))
         (match snd (remove t s n0 rpid ctr) with Some c => [c] | None => [] end) net.
Proof.
  intros [Hk Hok]. unfold remove.
  destruct (alookup n0 (t_dests t)) as [d|] eqn:Hd; [|apply net_ok1_refl].
  destruct (find (same_key s rpid) (d_entries d)) as [removed|] eqn:Ef; [|apply net_ok1_refl]. cbv zeta.
  assert (Hout : eligible removed = false ->
                 filter eligible (remove_first (same_key s rpid) (d_entries d)) = elig_list d).
  { intro He. apply (filter_remove_first_out eligible _ _ removed Ef He). }
  assert (Hfe : e_filtered removed = true -> eligible removed = false).
  { intro H. unfold eligible. rewrite H. reflexivity. }
  destruct (remove_first (same_key s rpid) (d_entries d)) as [|x xs] eqn:Hrest; cbn [fst snd];
    unfold net_ok1, elig_of; cbn [t_dests t_deferring].
  - rewrite alookup_aremove. destruct (net =? n0) eqn:En.
    + apply N.eqb_eq in En. subst net. rewrite Hd.
      pose proof (remove_first_nil _ _ _ Ef Hrest) as El.
      destruct (negb (e_filtered removed)) eqn:Hu.
      * split; [|intro Hno; exfalso; apply (Hno _ (or_introl eq_refl)); reflexivity].
        intros c [<-|[]] _. unfold chg_ok. cbn. repeat split; try reflexivity; discriminate.
      * split; [intros c []|]. intros _. right. apply negb_false_iff in Hu.
        unfold elig_list. rewrite El. cbn. rewrite (Hfe Hu). reflexivity.
    + apply N.eqb_neq in En. split; [|intros _; right; reflexivity].
      intros c Hc Hn. exfalso. destruct (negb (e_filtered removed)); [|destruct Hc].
      destruct Hc as [<-|[]]. cbn in Hn. congruence.
  - rewrite alookup_aset. destruct (net =? n0) eqn:En.
    + apply N.eqb_eq in En. subst net. rewrite Hd.
      set (d' := with_entries d (x :: xs) (d_next_pid d)).
      assert (Hel : elig_list d' = filter eligible (x :: xs)) by reflexivity.
      destruct (negb (negb (key_eqb (best_key d) (best_key d'))) && negb (negb (e_filtered removed))) eqn:Hq.
      * split; [intros c []|]. intros _. right. apply andb_true_iff in Hq as [_ Hq].
        rewrite negb_involutive in Hq. cbn [oel]. rewrite Hel. symmetry. apply Hout, Hfe, Hq.
      * split; [|intro Hno; exfalso; apply (Hno _ (or_introl eq_refl)); reflexivity].
        intros c [<-|[]] _. unfold chg_ok.
        cbn [c_net c_paths c_dest_id c_best_changed c_any_changed oel oid d_id with_entries].
        repeat split; try reflexivity.
        -- intro Hb. apply negb_false_iff, key_eqb_eq in Hb. rewrite !best_key_head in Hb. exact Hb.
        -- intro Hu. apply negb_false_iff in Hu. fold d'. rewrite Hel. symmetry. apply Hout, Hfe, Hu.
    + apply N.eqb_neq in En. split; [|intros _; right; reflexivity].
      intros c Hc Hn. exfalso.
      destruct (negb (negb (key_eqb _ _)) && _); [destruct Hc|]. destruct Hc as [<-|[]]. cbn in Hn. congruence.
Qed.

(* ----------------------------- the per-prefix contract of one operation *)

(* several notifications may concern one prefix in one operation (restale_llgr
   names every marked path); each carries the new list, and the flags are sound
   for skipping when taken together *)
Definition net_ok (t t' : table) (cs : list change) (net : N) : Prop :=
  (forall c, In c cs -> c_net c = net ->
             c_paths c = elig_of t' net
             /\ Some (c_dest_id c) = match id_of t' net with Some i => Some i | None => id_of t net end)
  /\ ((forall c, In c cs -> c_net c = net -> c_best_changed c = false) ->
      t_deferring t = true \/ head_content (elig_of t net) = head_content (elig_of t' net))
  /\ ((forall c, In c cs -> c_net c = net -> c_any_changed c = false) ->
      t_deferring t = true \/ elig_of t net = elig_of t' net).

Lemma net_ok1_ok t t' cs net : net_ok1 t t' cs net -> net_ok t t' cs net.
Proof.
  intros [H1 H2].
  assert (Hcase : (exists c, In c cs /\ c_net c = net) \/ (forall c, In c cs -> c_net c <> net)).
  { destruct (existsb (fun c => c_net c =? net) cs) eqn:Ex.
    - left. apply existsb_exists in Ex as (c & Hin & En). exists c. split; [exact Hin|apply N.eqb_eq, En].
    - right. intros c Hin En.
      assert (existsb (fun c => c_net c =? net) cs = true); [|congruence].
      apply existsb_exists. exists c. split; [exact Hin|apply N.eqb_eq, En]. }
  split; [|split].
  - intros c Hin Hn. destruct (H1 c Hin Hn) as (_ & Hp & Hi & _). split; [exact Hp|exact Hi].
  - intro Hall. destruct Hcase as [(c & Hin & Hn)|Hno].
    + destruct (H1 c Hin Hn) as (_ & _ & _ & Hb & _). right. apply Hb, (Hall c Hin Hn).
    + destruct (H2 Hno) as [Hd|He]; [left; exact Hd|right; rewrite He; reflexivity].
  - intro Hall. destruct Hcase as [(c & Hin & Hn)|Hno].
    + destruct (H1 c Hin Hn) as (_ & _ & _ & _ & Ha). right. apply Ha, (Hall c Hin Hn).
    + apply H2, Hno.
Qed.

(* ---- stale marking: possibly several notifications per destination *)

Lemma restale_op_changes t llgr addr :
  snd (restale_op t llgr addr)
  = flat_map (fun nd => snd (restale_dest (restale_flags llgr addr (t_dests t) (t_flags t)) llgr addr (fst nd) (snd nd)))
             (t_dests t).
Proof. unfold restale_op. cbv zeta. cbn [snd]. rewrite flat_map_map. reflexivity. Qed.

Lemma net_ok_restale f t llgr addr net :
  inv1 f t -> invE t -> net_ok t (fst (restale_op t llgr addr)) (snd (restale_op t llgr addr)) net.
Proof.
  intros H1 [Hk Hok]. destruct (restale_op_dests t llgr addr) as [Ed _]. cbv zeta in Ed.
  rewrite restale_op_changes.
  set (fl' := restale_flags llgr addr (t_dests t) (t_flags t)) in *.
  assert (Hdest : forall n d, In (n, d) (t_dests t) ->
            (forall c, In c (snd (restale_dest fl' llgr addr n d)) ->
                       c_net c = n /\ c_paths c = elig_list (fst (restale_dest fl' llgr addr n d))
                       /\ c_dest_id c = d_id (fst (restale_dest fl' llgr addr n d)))
            /\ ((forall c, In c (snd (restale_dest fl' llgr addr n d)) -> c_best_changed c = false) ->
                head_content (elig_list d) = head_content (elig_list (fst (restale_dest fl' llgr addr n d))))
            /\ ((forall c, In c (snd (restale_dest fl' llgr addr n d)) -> c_any_changed c = false) ->
                elig_list d = elig_list (fst (restale_dest fl' llgr addr n d)))).
  { intros n d Hin. destruct (Hok _ _ Hin) as (_ & Hl & _). apply (restale_dest_sound f t llgr addr n d H1 Hin Hl). }
  assert (Hmem : forall c, In c (flat_map (fun nd => snd (restale_dest fl' llgr addr (fst nd) (snd nd))) (t_dests t)) ->
                           c_net c = net ->
                           exists d, alookup net (t_dests t) = Some d /\ In c (snd (restale_dest fl' llgr addr net d))).
  { intros c Hc Hn. apply in_flat_map in Hc as ([n d] & Hin & Hc). cbn [fst snd] in Hc.
    destruct (Hdest n d Hin) as (Hp & _). destruct (Hp c Hc) as (Hcn & _).
    rewrite Hn in Hcn. subst n. exists d. split; [apply (in_alookup _ _ _ Hk Hin)|exact Hc]. }
  unfold net_ok, elig_of, id_of. rewrite Ed, alookup_mp.
  split; [|split].
  - intros c Hc Hn. destruct (Hmem c Hc Hn) as (d & Hd & Hcd). rewrite Hd.
    apply alookup_in in Hd. destruct (Hdest net d Hd) as (Hp & _). destruct (Hp c Hcd) as (_ & H2 & H3).
    split; [exact H2|rewrite H3; reflexivity].
  - intro Hall. right. destruct (alookup net (t_dests t)) as [d|] eqn:Hd; [|reflexivity].
    pose proof (alookup_in _ _ _ Hd) as Hin. destruct (Hdest net d Hin) as (Hp & Hb & _). apply Hb.
    intros c Hc. destruct (Hp c Hc) as (Hcn & _). apply (Hall c); [|exact Hcn].
    apply in_flat_map. exists (net, d). split; [exact Hin|exact Hc].
  - intro Hall. right. destruct (alookup net (t_dests t)) as [d|] eqn:Hd; [|reflexivity].
    pose proof (alookup_in _ _ _ Hd) as Hin. destruct (Hdest net d Hin) as (Hp & _ & Ha). apply Ha.
    intros c Hc. destruct (Hp c Hc) as (Hcn & _). apply (Hall c); [|exact Hcn].
    apply in_flat_map. exists (net, d). split; [exact Hin|exact Hc].
Qed.

(* -------------------------------------------------------------- deferral *)

Lemma net_ok_quiet t t' cs net : net_ok t t' cs net -> net_ok t t' (quiet t cs) net.
Proof.
  intros H. unfold quiet. destruct (t_deferring t) eqn:Hd; [|exact H].
  split; [intros c []|split; intros _; left; exact Hd].
Qed.

Lemma in_all_dests t c :
  In c (all_dests t) <->
  exists n d, In (n, d) (t_dests t)
              /\ c = {| c_net := n; c_dest_id := d_id d; c_best_changed := true; c_any_changed := true;
                        c_replaced := None; c_paths := elig_list d |}.
Proof.
  unfold all_dests. rewrite in_map_iff. split.
  - intros ([n d] & <- & Hin). exists n, d. split; [exact Hin|reflexivity].
  - intros (n & d & Hin & ->). exists (n, d). split; [reflexivity|exact Hin].
Qed.

Lemma elig_of_set_deferring t b net : elig_of (set_deferring t b) net = elig_of t net.
Proof. reflexivity. Qed.

Lemma net_ok_end_deferral t net :
  NoDup (map fst (t_dests t)) -> net_ok t (set_deferring t false) (all_dests t) net.
Proof.
  intro Hk. split; [|split; intros _; right; reflexivity].
  intros c Hc Hn. apply in_all_dests in Hc as (n & d & Hin & ->). cbn [c_net] in Hn. subst n.
  unfold elig_of, id_of. cbn [set_deferring t_dests c_paths c_dest_id]. rewrite (in_alookup _ _ _ Hk Hin).
  split; reflexivity.
Qed.

(* ------------------------------------------------------------- every step *)

Lemma net_ok_step f t o net :
  inv1 f t -> invE t -> op_wf f o -> net_ok t (step_t t o) (step_cs t o) net.
Proof.
  intros H1 He Hw. unfold step_t, step_cs.
  destruct o as [s n0 rpid nh a filt nhinv lim|s n0 rpid ctr|k addr ctr|llgr addr|nh r| |]; cbn [step].
  - pose proof (net_ok1_ok _ _ _ _ (net_ok1_insert t s n0 rpid nh a filt nhinv lim net He)) as H.
    destruct (insert t s n0 rpid nh a filt nhinv lim) as [t' [| |c]]; exact H.
  - pose proof (net_ok1_ok _ _ _ _ (net_ok1_remove t s n0 rpid ctr net He)) as H.
    destruct (remove t s n0 rpid ctr) as [t' [c|]]; cbn [fst snd] in *; [apply net_ok_quiet, H|exact H].
  - pose proof (net_ok1_ok _ _ _ _ (net_ok1_drop t k addr ctr net He)) as H. destruct (drop_op t k addr ctr) as [t' cs].
    cbn [fst snd] in *. apply net_ok_quiet, H.
  - pose proof (net_ok_restale f t llgr addr net H1 He) as H. destruct (restale_op t llgr addr) as [t' cs].
    cbn [fst snd] in *. apply net_ok_quiet, H.
  - pose proof (net_ok1_ok _ _ _ _ (net_ok1_nhv t nh r net He)) as H. destruct (nhv_op t nh r) as [t' cs].
    cbn [fst snd] in *. apply net_ok_quiet, H.
  - cbn [fst snd]. split; [intros c []|split; intros _; right; reflexivity].
  - cbn [fst snd]. apply net_ok_end_deferral, He.
Qed.

(* only start_deferral / end_deferral touch the flag *)
Lemma step_deferring_same t o :
  o <> StartDeferral -> o <> EndDeferral -> t_deferring (step_t t o) = t_deferring t.
Proof.
  intros Hs Hne. unfold step_t.
  destruct o as [s n0 rpid nh a filt nhinv lim|s n0 rpid ctr|k addr ctr|llgr addr|nh r| |]; cbn [step].
  - pose proof (insert_shape t s n0 rpid nh a filt nhinv lim) as H. cbv zeta in H.
    destruct (insert t s n0 rpid nh a filt nhinv lim) as [t' [| |c]]; cbn [fst] in *;
      (destruct H as [->|(d2 & _ & _ & _ & _ & _ & E)]; [reflexivity|exact E]).
  - pose proof (remove_shape t s n0 rpid ctr) as H. cbv zeta in H.
    destruct (remove t s n0 rpid ctr) as [t' [c|]]; cbn [fst] in *;
      (destruct H as [->|(d & _ & _ & _ & E & _)]; [reflexivity|exact E]).
  - pose proof (drop_op_used t k addr ctr) as (_ & _ & H). destruct (drop_op t k addr ctr) as [t' cs]. exact H.
  - pose proof (restale_op_rest t llgr addr) as (_ & _ & H). destruct (restale_op t llgr addr) as [t' cs]. exact H.
  - pose proof (nhv_op_rest t nh r) as (_ & _ & H). destruct (nhv_op t nh r) as [t' cs]. exact H.
  - contradiction.
  - contradiction.
Qed.

(* while the family is deferring no mutator reports anything *)
Lemma quiet_while_deferring t o :
  t_deferring t = true -> o <> EndDeferral -> step_cs t o = [].
Proof.
  intros Hd Hne. unfold step_cs.
  destruct o as [s n0 rpid nh a filt nhinv lim|s n0 rpid ctr|k addr ctr|llgr addr|nh r| |]; cbn [step].
  - unfold insert. cbv zeta. destruct (ins_over t lim _); [reflexivity|].
    destruct (ins_pid _ _ _) as [pn|]; [|reflexivity]. unfold ins_out. rewrite Hd. reflexivity.
  - destruct (remove t s n0 rpid ctr) as [t' [c|]]; cbn [fst snd]; [unfold quiet; rewrite Hd|]; reflexivity.
  - destruct (drop_op t k addr ctr) as [t' cs]. cbn [fst snd]. unfold quiet. rewrite Hd. reflexivity.
  - destruct (restale_op t llgr addr) as [t' cs]. cbn [fst snd]. unfold quiet. rewrite Hd. reflexivity.
  - destruct (nhv_op t nh r) as [t' cs]. cbn [fst snd]. unfold quiet. rewrite Hd. reflexivity.
  - reflexivity.
  - contradiction.
Qed.

(* ===================================================== consumers, generically *)

Section Consumer.
Variable X : Type.
Variable relevant : change -> bool.
Variable proj : list entry -> X.

Definition gen_apply (v : N -> X) (c : change) : N -> X :=
  if relevant c then upd v (c_net c) (proj (c_paths c)) else v.

(* when every notification of one operation for a prefix is skipped, nothing
   this consumer can see has changed *)
Hypothesis Hsound : forall (cs : list change) (net : N) old new,
    (forall c, In c cs -> c_net c = net -> relevant c = false) ->
    ((forall c, In c cs -> c_net c = net -> c_best_changed c = false) -> head_content old = head_content new) ->
    ((forall c, In c cs -> c_net c = net -> c_any_changed c = false) -> old = new) ->
    proj old = proj new.
(* notifications with both flags set are never skipped *)
Hypothesis Hloc : forall c, c_best_changed c = true -> c_any_changed c = true -> relevant c = true.

(* while deferring (which starts on an empty family) the consumer knows nothing;
   otherwise it knows the RIB *)
Definition G (t : table) (v : N -> X) : Prop :=
  forall net, v net = proj (if t_deferring t then [] else elig_of t net).

Lemma fold_net cs v net P :
  (forall c, In c cs -> c_net c = net -> c_paths c = P) ->
  fold_left gen_apply cs v net = proj P
  \/ (fold_left gen_apply cs v net = v net /\ forall c, In c cs -> c_net c = net -> relevant c = false).
Proof.
  revert v. induction cs as [|c r IH]; intros v HP; cbn [fold_left].
  - right. split; [reflexivity|intros c []].
  - assert (Hstep : gen_apply v c net = proj P
                    \/ (gen_apply v c net = v net /\ (c_net c = net -> relevant c = false))).
    { unfold gen_apply. destruct (relevant c) eqn:Rc.
      - unfold upd. destruct (net =? c_net c) eqn:En.
        + left. f_equal. apply HP; [left; reflexivity|]. apply N.eqb_eq in En. congruence.
        + right. split; [reflexivity|]. intro Hn. apply N.eqb_neq in En. congruence.
      - right. split; [reflexivity|]. intros _. reflexivity. }
    destruct (IH (gen_apply v c) (fun c0 H0 => HP c0 (or_intror H0))) as [H|[H Hr]]; [left; exact H|].
    destruct Hstep as [Hs|[Hs Hc]]; [left; rewrite H; exact Hs|].
    right. split; [rewrite H; exact Hs|]. intros c0 [<-|H0] Hn; [apply Hc, Hn|apply Hr; assumption].
Qed.

Lemma G_step f t o v :
  inv1 f t -> invE t -> op_wf f o -> (o = StartDeferral -> t_dests t = []) ->
  G t v -> G (step_t t o) (fold_left gen_apply (step_cs t o) v).
Proof.
  intros H1 He Hw Hstart HG net. specialize (HG net).
  destruct (net_ok_step f t o net H1 He Hw) as (Hc & Hb & Ha).
  assert (HP : forall c, In c (step_cs t o) -> c_net c = net -> c_paths c = elig_of (step_t t o) net).
  { intros c Hin Hn. destruct (Hc c Hin Hn) as (Hp & _). exact Hp. }
  destruct o as [s n0 rpid nh a filt nhinv lim|s n0 rpid ctr|k addr ctr|llgr addr|nh r| |] eqn:Eo.
  6: { (* StartDeferral on an empty family *)
    unfold step_t, step_cs in *. cbn [step fst snd set_deferring t_deferring fold_left] in *.
    rewrite HG. unfold elig_of. rewrite (Hstart eq_refl). destruct (t_deferring t); reflexivity. }
  6: { (* EndDeferral: every destination is reported *)
    destruct (fold_net (step_cs t EndDeferral) v net _ HP) as [Hf|[Hf Hirr]];
      unfold step_t, step_cs in *; cbn [step fst snd set_deferring t_deferring] in *; [exact Hf|].
    rewrite Hf, HG. rewrite elig_of_set_deferring.
    unfold elig_of. destruct (alookup net (t_dests t)) as [d|] eqn:Hd; [|destruct (t_deferring t); reflexivity].
    exfalso. apply alookup_in in Hd.
    assert (Hin0 : In {| c_net := net; c_dest_id := d_id d; c_best_changed := true; c_any_changed := true;
                         c_replaced := None; c_paths := elig_list d |} (all_dests t)).
    { apply in_all_dests. exists net, d. split; [exact Hd|reflexivity]. }
    pose proof (Hirr _ Hin0 eq_refl) as Hrel.
    rewrite Hloc in Hrel; [discriminate|reflexivity|reflexivity]. }
  all: rewrite <- Eo in *;
    assert (Hsame : t_deferring (step_t t o) = t_deferring t)
      by (apply step_deferring_same; rewrite Eo; discriminate);
    rewrite Hsame; destruct (t_deferring t) eqn:Hd;
    [ rewrite (quiet_while_deferring t o Hd) by (rewrite Eo; discriminate); cbn [fold_left]; exact HG
    | destruct (fold_net (step_cs t o) v net _ HP) as [Hf|[Hf Hirr]]; [exact Hf|]; rewrite Hf, HG;
      apply (Hsound (step_cs t o) net _ _ Hirr);
      [ intro Hall; destruct (Hb Hall) as [Hx|Hx]; [discriminate Hx|exact Hx]
      | intro Hall; destruct (Ha Hall) as [Hx|Hx]; [discriminate Hx|exact Hx] ] ].
Qed.

Lemma consume_fst {S} (app : S -> change -> S) t s ops : fst (consume app t s ops) = run t ops.
Proof.
  revert t s. induction ops as [|o r IH]; intros t s; [reflexivity|].
  cbn [consume]. rewrite IH. reflexivity.
Qed.

Lemma consume_G f ops t v :
  inv1 f t -> invE t -> Forall (op_wf f) ops -> startup_deferral t ops -> G t v ->
  G (fst (consume gen_apply t v ops)) (snd (consume gen_apply t v ops)).
Proof.
  revert t v. induction ops as [|o r IH]; intros t v H1 He Hw Hsd HG; [exact HG|].
  apply Forall_cons_iff in Hw as [Ho Hr]. destruct Hsd as [Hs0 Hsr]. cbn [consume]. apply IH.
  - apply inv1_step; assumption.
  - apply invE_step, He.
  - exact Hr.
  - exact Hsr.
  - apply (G_step f t o v H1 He Ho Hs0 HG).
Qed.

Lemma consume_correct shard ops :
  consistent ops -> startup_deferral (empty_table shard) ops ->
  t_deferring (run (empty_table shard) ops) = false ->
  forall net, snd (consume gen_apply (empty_table shard) (fun _ => proj []) ops) net
              = proj (elig_of (run (empty_table shard) ops) net).
Proof.
  intros [f Hf] Hsd Hd net.
  assert (HG0 : G (empty_table shard) (fun _ => proj [])) by (intro n; reflexivity).
  pose proof (consume_G f ops _ _ (inv1_empty f shard) (invE_empty shard) Hf Hsd HG0 net) as H.
  rewrite consume_fst in H. rewrite Hd in H. exact H.
Qed.

End Consumer.

(* ========================================================= final statements *)

Lemma reach_inv shard ops o :
  consistent (ops ++ [o]) ->
  exists f, inv1 f (run (empty_table shard) ops) /\ invE (run (empty_table shard) ops) /\ op_wf f o.
Proof.
  intros [f Hf]. apply Forall_app in Hf as [Hf Ho]. exists f. split; [|split].
  - apply inv1_run; [apply inv1_empty|exact Hf].
  - apply invE_run, invE_empty.
  - apply Forall_inv in Ho. exact Ho.
Qed.

(* every notification carries the prefix's new ranked eligible list ([] when
   the prefix is gone) and its destination id *)
Lemma C06_change_carries_current_list :
  forall shard ops o c,
    consistent (ops ++ [o]) ->
    let t := run (empty_table shard) ops in
    In c (step_cs t o) ->
    c_paths c = elig_of (step_t t o) (c_net c)
    /\ Some (c_dest_id c) = match id_of (step_t t o) (c_net c) with
                            | Some i => Some i
                            | None => id_of t (c_net c)
                            end.
Proof.
  intros shard ops o c Hc t Hin. destruct (reach_inv shard ops o Hc) as (f & H1 & He & Hw). fold t in H1, He.
  destruct (net_ok_step f t o (c_net c) H1 He Hw) as (H & _ & _). apply (H c Hin eq_refl).
Qed.

(* the two flags are sound for skipping: if every notification an operation
   emits for a prefix says "best unchanged" (in particular if there is none), the
   content of the prefix's best path did not change; if every one says "nothing
   changed", the eligible list did not change *)
Lemma C06_skip_flags_sound :
  forall shard ops o net,
    consistent (ops ++ [o]) ->
    let t := run (empty_table shard) ops in
    t_deferring t = false ->
    ((forall c, In c (step_cs t o) -> c_net c = net -> c_best_changed c = false) ->
     head_content (elig_of t net) = head_content (elig_of (step_t t o) net))
    /\ ((forall c, In c (step_cs t o) -> c_net c = net -> c_any_changed c = false) ->
        elig_of t net = elig_of (step_t t o) net).
Proof.
  intros shard ops o net Hc t Hd. destruct (reach_inv shard ops o Hc) as (f & H1 & He & Hw). fold t in H1, He.
  destruct (net_ok_step f t o net H1 He Hw) as (_ & Hb & Ha). split; intro Hall.
  - destruct (Hb Hall) as [H|H]; [congruence|exact H].
  - destruct (Ha Hall) as [H|H]; [congruence|exact H].
Qed.

(* a prefix that gets no notification keeps its eligible list *)
Lemma C06_silent_prefix_unchanged :
  forall shard ops o net,
    consistent (ops ++ [o]) ->
    let t := run (empty_table shard) ops in
    t_deferring t = false ->
    (forall c, In c (step_cs t o) -> c_net c <> net) ->
    elig_of t net = elig_of (step_t t o) net.
Proof.
  intros shard ops o net Hc t Hd Hno. apply (C06_skip_flags_sound shard ops o net Hc Hd).
  intros c Hin Hn. exfalso. apply (Hno c Hin Hn).
Qed.

Lemma find_loc_none net ds :
  ~ In net (map fst ds) ->
  find (fun c => c_net c =? net)
       (flat_map (fun nd => match elig_list (snd nd) with
                            | [] => []
                            | _ => [{| c_net := fst nd; c_dest_id := d_id (snd nd); c_best_changed := true;
                                       c_any_changed := true; c_replaced := None; c_paths := elig_list (snd nd) |}]
                            end) ds) = None.
Proof.
  induction ds as [|[n d] r IH]; cbn [flat_map map fst snd]; intro Hn; [reflexivity|].
  assert (Hne : (n =? net) = false) by (apply N.eqb_neq; intro; apply Hn; left; assumption).
  assert (Hr : ~ In net (map fst r)) by (intro; apply Hn; right; assumption).
  destruct (elig_list d); cbn [app find c_net]; [|rewrite Hne]; apply IH, Hr.
Qed.

Lemma locrib_view_elig t net : NoDup (map fst (t_dests t)) -> locrib_view t net = elig_of t net.
Proof.
  unfold locrib_view, elig_of, loc_rib. generalize (t_dests t). intro ds.
  induction ds as [|[n d] r IH]; cbn [flat_map map fst snd alookup]; intro Hk; [reflexivity|].
  apply NoDup_cons_iff in Hk as [Hn Hr].
  destruct (net =? n) eqn:En.
  - apply N.eqb_eq in En. subst n. destruct (elig_list d) as [|x xs] eqn:E; cbn [app find c_net].
    + rewrite (find_loc_none net r Hn). reflexivity.
    + rewrite N.eqb_refl. reflexivity.
  - rewrite N.eqb_sym in En. destruct (elig_list d) as [|x xs] eqn:E; cbn [app find c_net]; [|rewrite En]; apply IH, Hr.
Qed.

(* the full consumer *)
Lemma C06_fold_all_changes_eq_locrib :
  forall shard ops,
    consistent ops -> startup_deferral (empty_table shard) ops ->
    let t := run (empty_table shard) ops in
    t_deferring t = false ->
    forall net, snd (consume full_apply (empty_table shard) (fun _ => []) ops) net = locrib_view t net.
Proof.
  intros shard ops Hc Hs t Hd net.
  rewrite locrib_view_elig by (apply invE_run, invE_empty).
  change full_apply with (gen_apply (list entry) (fun _ => true) (fun l => l)).
  apply (consume_correct (list entry) (fun _ => true) (fun l => l)); try assumption.
  - intros cs n old new Hirr _ Ha. apply Ha. intros c Hin Hn. discriminate (Hirr c Hin Hn).
  - reflexivity.
Qed.

(* a consumer that skips best_changed = false still holds the best path *)
Lemma C06_best_only_consumer_correct :
  forall shard ops,
    consistent ops -> startup_deferral (empty_table shard) ops ->
    let t := run (empty_table shard) ops in
    t_deferring t = false ->
    forall net, snd (consume best_apply (empty_table shard) (fun _ => None) ops) net
                = head_content (locrib_view t net).
Proof.
  intros shard ops Hc Hs t Hd net.
  rewrite locrib_view_elig by (apply invE_run, invE_empty).
  change best_apply with (gen_apply _ c_best_changed head_content).
  apply (consume_correct _ c_best_changed head_content); try assumption.
  - intros cs n old new Hirr Hb _. exact (Hb Hirr).
  - intros c Hb _. exact Hb.
Qed.

(* an add-path consumer with any window that skips any_changed = false *)
Lemma C06_addpath_consumer_correct :
  forall shard ops n,
    consistent ops -> startup_deferral (empty_table shard) ops ->
    let t := run (empty_table shard) ops in
    t_deferring t = false ->
    forall net, snd (consume (addpath_apply n) (empty_table shard) (fun _ => limit n []) ops) net
                = limit n (locrib_view t net).
Proof.
  intros shard ops n Hc Hs t Hd net.
  rewrite locrib_view_elig by (apply invE_run, invE_empty).
  change (addpath_apply n) with (gen_apply _ c_any_changed (limit n)).
  apply (consume_correct _ c_any_changed (limit n)); try assumption.
  - intros cs n0 old new Hirr _ Ha. rewrite (Ha Hirr). reflexivity.
  - intros c _ Ha. exact Ha.
Qed.

(* end_deferral clears the flag and reports every destination once, with its
   eligible list (an empty list is a withdrawal), its id and both flags set;
   afterwards the consumer of these reports alone knows the whole Loc-RIB *)
Lemma C06_end_deferral_emits_all :
  forall shard ops,
    let t := run (empty_table shard) ops in
    let t' := step_t t EndDeferral in
    let cs := step_cs t EndDeferral in
    t_deferring t' = false
    /\ NoDup (map c_net cs)
    /\ (forall net, (exists c, In c cs /\ c_net c = net) <-> id_of t' net <> None)
    /\ (forall c, In c cs -> c_paths c = elig_of t' (c_net c) /\ id_of t' (c_net c) = Some (c_dest_id c)
                             /\ c_best_changed c = true /\ c_any_changed c = true)
    /\ (forall net, fold_left full_apply cs (fun _ => []) net = locrib_view t' net).
Proof.
  intros shard ops t t' cs.
  assert (Hk : NoDup (map fst (t_dests t))) by (apply invE_run, invE_empty).
  split; [reflexivity|]. unfold cs, t', step_cs, step_t. cbn [step fst snd].
  assert (Hall : forall c, In c (all_dests t) ->
                           c_paths c = elig_of (set_deferring t false) (c_net c)
                           /\ id_of (set_deferring t false) (c_net c) = Some (c_dest_id c)
                           /\ c_best_changed c = true /\ c_any_changed c = true).
  { intros c Hin. apply in_all_dests in Hin as (n & d & Hin & ->).
    cbn [c_net c_paths c_dest_id c_best_changed c_any_changed]. unfold elig_of, id_of. cbn [set_deferring t_dests].
    rewrite (in_alookup _ _ _ Hk Hin). repeat split; reflexivity. }
  split; [|split; [|split; [exact Hall|]]].
  - unfold all_dests. rewrite map_map. cbn [c_net]. exact Hk.
  - intro net. unfold id_of. cbn [set_deferring t_dests]. split.
    + intros (c & Hin & Hn). apply in_all_dests in Hin as (n & d & Hin & ->). cbn [c_net] in Hn. subst n.
      rewrite (in_alookup _ _ _ Hk Hin). discriminate.
    + intro Hne. destruct (alookup net (t_dests t)) as [d|] eqn:Hd; [|contradiction].
      apply alookup_in in Hd. eexists. split; [apply in_all_dests; exists net, d; split; [exact Hd|reflexivity]|reflexivity].
  - intro net. rewrite locrib_view_elig by exact Hk.
    change full_apply with (gen_apply (list entry) (fun _ => true) (fun l => l)).
    destruct (fold_net (list entry) (fun _ => true) (fun l => l) (all_dests t) (fun _ => []) net
                       (elig_of (set_deferring t false) net)) as [H|[H Hirr]].
    + intros c Hin Hn. destruct (Hall c Hin) as [Hp _]. rewrite Hp, Hn. reflexivity.
    + exact H.
    + rewrite H. unfold elig_of. cbn [set_deferring t_dests].
      destruct (alookup net (t_dests t)) as [d|] eqn:Hd; [|reflexivity]. exfalso. apply alookup_in in Hd.
      assert (Hin0 : In {| c_net := net; c_dest_id := d_id d; c_best_changed := true; c_any_changed := true;
                           c_replaced := None; c_paths := elig_list d |} (all_dests t)).
      { apply in_all_dests. exists net, d. split; [exact Hd|reflexivity]. }
      pose proof (Hirr _ Hin0 eq_refl) as Hf. cbv beta in Hf.
      discriminate.
Qed.

(* while the family is deferring no mutator reports anything *)
Lemma C06_quiet_while_deferring :
  forall shard ops o,
    let t := run (empty_table shard) ops in
    t_deferring t = true -> o <> EndDeferral -> step_cs t o = [].
Proof. intros shard ops o t. apply quiet_while_deferring. Qed.

(* ------------------------------------------------------------ non-vacuity *)

Definition ex6_ops : list op :=
  [ StartDeferral;
    Insert (ex_src 3 3 7 0) 2 0 (Some 3) (ex_attr 102 100) false false None;
    NhValidity 3 false;
    Insert (ex_src 3 3 7 0) 3 0 (Some 3) (ex_attr 102 100) true false None;
    EndDeferral;
    Insert (ex_src 1 1 9 0) 1 0 (Some 1) (ex_attr 100 200) false false None;
    Insert (ex_src 2 2 5 2) 1 0 (Some 2) (ex_attr 101 100) false false None;
    NhValidity 3 true;
    Insert (ex_src 2 2 5 2) 1 1 (Some 2) (ex_attr 103 100) false false None;
    Restale false 2;
    Remove (ex_src 2 2 5 2) 1 1 None;
    Insert (ex_src 3 3 7 0) 3 0 (Some 3) (ex_attr 102 100) true false None ].

Example ex6_consistent : consistent ex6_ops.
Proof. exists (fun tok => tok). repeat constructor. Qed.

Example ex6_startup : startup_deferral (empty_table 0) ex6_ops.
Proof. vm_compute. repeat split; intro H; try discriminate H; reflexivity. Qed.

Example ex6_bounded : bounded (empty_table 0) ex6_ops.
Proof. vm_compute. repeat split. Qed.

Example ex6_not_deferring : t_deferring (run (empty_table 0) ex6_ops) = false.
Proof. reflexivity. Qed.

(* nothing is reported while deferring; end_deferral reports both prefixes, one
   of them with an empty list; later notifications include ones a best-path
   consumer skips; the last insert (filtered replaces filtered) is silent *)
Example ex6_flags :
  map (fun c => (c_net c, c_best_changed c, c_any_changed c, length (c_paths c)))
      (flat_map (fun k => step_cs (run (empty_table 0) (firstn k ex6_ops)) (nth k ex6_ops StartDeferral))
                [0; 1; 2; 3; 4; 5; 6; 7; 8; 9; 10; 11]%nat)
  = [(2, true, true, 0%nat); (3, true, true, 0%nat);
     (1, true, true, 1%nat); (1, false, true, 2%nat); (2, true, true, 1%nat);
     (1, false, true, 3%nat); (1, false, true, 3%nat); (1, false, true, 2%nat)].
Proof. vm_compute. reflexivity. Qed.
