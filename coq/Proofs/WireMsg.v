(* C03, BGP part: PeerCodec::parse_message and PeerCodec::try_parse. *)
From Coq Require Import List NArith ZArith Bool Lia ZifyBool ZifyNat ZifyN.
From RB Require Import Base.Val Base.Bytes Model.Caps Model.Stream Model.Wire Model.WireNlri Model.WireUpdate
     Model.WireMsg Spec.WireSpec Proofs.Stream Proofs.Wire Proofs.WireNlri Proofs.WireUpdate Proofs.WireOpen.
Import ListNotations.
Open Scope N_scope.

Ltac Zify.zify_post_hook ::= Z.to_euclidean_division_equations.

Lemma nth_error_some (l : list N) (k : nat) : N.of_nat k < len l -> exists x, nth_error l k = Some x.
Proof.
  intro H. destruct (nth_error l k) as [x|] eqn:E; [eauto|].
  apply nth_error_None in E. unfold len in H. lia.
Qed.

Lemma skipn_cons_ex (l : list N) (k : nat) : N.of_nat k < len l -> exists x r, skipn k l = x :: r.
Proof.
  intro H. destruct (skipn k l) as [|x r] eqn:E; [|eauto].
  pose proof (len_skipn k l) as Hs. rewrite E, len_nil in Hs. lia.
Qed.

Section MsgFacts.
  Variable other_nlri : N -> bool -> list N -> option (list N).
  Hypothesis other_consumes : forall f r c c', other_nlri f r c = Some c' -> len c' < len c.

  Lemma parse_message_nopanic p cd frame : nopanic (parse_message other_nlri p cd frame).
  Proof.
    unfold parse_message.
    destruct (len frame <? 19) eqn:E19; [exact I|].
    destruct (nth_error_some frame 18 ltac:(lia)) as (code & ->).
    destruct (nth_error_some frame 16 ltac:(lia)) as (b16 & ->).
    destruct (nth_error_some frame 17 ltac:(lia)) as (b17 & ->).
    cbn [must bind].
    destruct (N.eq_dec code 1) as [->|N1]; [apply parse_open_nopanic|].
    destruct (N.eq_dec code 2) as [->|N2].
    { apply np_bind; [apply parse_update_nopanic; exact other_consumes|]. intros; exact I. }
    destruct (N.eq_dec code 3) as [->|N3].
    { destruct (len frame <? 21) eqn:E21; [exact I|].
      pose proof (len_skipn 19 frame) as Hs.
      destruct (skipn 19 frame) as [|c [|s d]]; rewrite ?len_cons, ?len_nil in Hs; try lia. exact I. }
    destruct (N.eq_dec code 4) as [->|N4]; [destruct (negb _); exact I|].
    destruct (N.eq_dec code 5) as [->|N5].
    { destruct (len frame <? 23) eqn:E23; [exact I|]. destruct (23 <? len frame) eqn:E23'; [exact I|].
      pose proof (len_skipn 19 frame) as Hs.
      destruct (skipn 19 frame) as [|a [|b [|c [|d r]]]]; rewrite ?len_cons, ?len_nil in Hs; try lia. exact I. }
    destruct code as [|q]; [exact I|].
    do 3 (destruct q as [q|q|]; try exact I; try congruence).
  Qed.

  Lemma try_parse_header src :
    (len src <? 19) = false -> exists l, bgp_length_field src = Some l.
  Proof.
    intro H. unfold bgp_length_field.
    destruct (nth_error_some src 16 ltac:(lia)) as (a & ->).
    destruct (nth_error_some src 17 ltac:(lia)) as (b & ->). eauto.
  Qed.

  Definition tp_body (p : profile) (cd : codec) (src : list N) (b16 b17 : N) : dres pmsg notif :=
    let mlen := be16 b16 b17 in
    if (mlen <? 19) || (max_len cd <? mlen) then DErr (mkn 1 2 [b16; b17]) src else
    if len src <? mlen then DNeed src else
    match parse_message other_nlri p cd (firstn (nat_of mlen) src) with
    | Ok m => DMsg m (skipn (nat_of mlen) src)
    | Fail e => DErr e (skipn (nat_of mlen) src)
    | Panic _ => DPanic
    end.

  Lemma try_parse_unfold p cd src :
    (len src <? 19) = false ->
    exists b16 b17, nth_error src 16 = Some b16 /\ nth_error src 17 = Some b17 /\
                    try_parse other_nlri p cd src = tp_body p cd src b16 b17.
  Proof.
    intro H. unfold try_parse. rewrite H.
    destruct (nth_error_some src 16 ltac:(lia)) as (a & Ha).
    destruct (nth_error_some src 17 ltac:(lia)) as (b & Hb).
    exists a, b. rewrite Ha, Hb. repeat split.
  Qed.

  Theorem C03_bgp_parse_no_panic p cd : never_panics (try_parse other_nlri p cd).
  Proof.
    intros src. destruct (len src <? 19) eqn:H; [unfold try_parse; rewrite H; discriminate|].
    destruct (try_parse_unfold p cd src H) as (a & b & _ & _ & ->). unfold tp_body; cbv zeta.
    destruct (_ || _); [discriminate|]. destruct (len src <? be16 a b); [discriminate|].
    pose proof (parse_message_nopanic p cd (firstn (nat_of (be16 a b)) src)) as Np.
    destruct (parse_message _ _ _ _); [discriminate|discriminate|destruct Np].
  Qed.

  Theorem C03_bgp_parse_consumes p cd : consumes_input (try_parse other_nlri p cd).
  Proof.
    intros src m rest. destruct (len src <? 19) eqn:H; [unfold try_parse; rewrite H; discriminate|].
    destruct (try_parse_unfold p cd src H) as (a & b & _ & _ & ->). unfold tp_body; cbv zeta.
    destruct (_ || _) eqn:E1; [discriminate|]. destruct (len src <? be16 a b) eqn:E2; [discriminate|].
    destruct (parse_message _ _ _ _); try discriminate.
    intro Hm. injection Hm as _ <-. split.
    - rewrite skipn_length. pose proof (len_length src). unfold nat_of. lia.
    - exists (firstn (nat_of (be16 a b)) src). symmetry. apply firstn_skipn.
  Qed.

  Lemma try_parse_need p cd src rest : try_parse other_nlri p cd src = DNeed rest -> rest = src.
  Proof.
    unfold try_parse. intro H.
    destruct (len src <? 19); [injection H as <-; reflexivity|].
    destruct (nth_error src 16); [|discriminate]. destruct (nth_error src 17); [|discriminate].
    destruct (_ || _); [discriminate|]. destruct (len src <? _); [injection H as <-; reflexivity|].
    destruct (parse_message _ _ _ _); discriminate.
  Qed.

  Lemma try_parse_complete_not_need p cd src rest :
    bgp_complete (max_len cd) src -> try_parse other_nlri p cd src <> DNeed rest.
  Proof.
    intros (H19 & l & Hl & Hc).
    assert (H : (len src <? 19) = false) by lia.
    destruct (try_parse_unfold p cd src H) as (a & b & Ha & Hb & ->).
    unfold bgp_length_field in Hl. rewrite Ha, Hb in Hl. injection Hl as <-.
    unfold tp_body; cbv zeta.
    destruct (_ || _) eqn:E1; [discriminate|]. destruct (len src <? be16 a b) eqn:E2; [lia|].
    destruct (parse_message _ _ _ _); discriminate.
  Qed.

  Theorem C03_bgp_complete_frame_decided p cd :
    complete_frame_decided (try_parse other_nlri p cd) (bgp_complete (max_len cd)).
  Proof. intros src rest Hc H. exfalso. exact (try_parse_complete_not_need p cd src rest Hc H). Qed.

  Theorem C03_bgp_need_only_if_incomplete p cd :
    need_only_if_incomplete (try_parse other_nlri p cd) (bgp_complete (max_len cd)).
  Proof.
    intros src rest H. pose proof (try_parse_need _ _ _ _ H) as ->. split.
    - intro Hc. exact (try_parse_complete_not_need p cd src src Hc H).
    - exists []. reflexivity.
  Qed.

  Lemma firstn_app_le {A} n (a b : list A) : (n <= length a)%nat -> firstn n (a ++ b) = firstn n a.
  Proof. intro H. rewrite firstn_app. replace (n - length a)%nat with 0%nat by lia. cbn [firstn]. apply app_nil_r. Qed.
  Lemma skipn_app_le {A} n (a b : list A) : (n <= length a)%nat -> skipn n (a ++ b) = skipn n a ++ b.
  Proof. intro H. rewrite skipn_app. replace (n - length a)%nat with 0%nat by lia. reflexivity. Qed.

  (* one call only looks at its own frame *)
  Lemma try_parse_ext p cd src ext :
    (forall m rest, try_parse other_nlri p cd src = DMsg m rest ->
                    try_parse other_nlri p cd (src ++ ext) = DMsg m (rest ++ ext)) /\
    (forall e rest, try_parse other_nlri p cd src = DErr e rest ->
                    try_parse other_nlri p cd (src ++ ext) = DErr e (rest ++ ext)).
  Proof.
    destruct (len src <? 19) eqn:H. { unfold try_parse. rewrite H. split; intros; discriminate. }
    assert (H' : (len (src ++ ext) <? 19) = false) by (rewrite len_app; lia).
    destruct (try_parse_unfold p cd src H) as (a & b & Ha & Hb & ->).
    destruct (try_parse_unfold p cd (src ++ ext) H') as (a' & b' & Ha' & Hb' & ->).
    rewrite nth_error_app1 in Ha' by (pose proof (len_length src); lia).
    rewrite nth_error_app1 in Hb' by (pose proof (len_length src); lia).
    rewrite Ha in Ha'. rewrite Hb in Hb'. injection Ha' as <-. injection Hb' as <-.
    unfold tp_body; cbv zeta.
    destruct (_ || _) eqn:E1.
    { split; [intros; discriminate|]. intros e rest Hx. injection Hx as <- <-. reflexivity. }
    destruct (len src <? be16 a b) eqn:E2; [split; intros; discriminate|].
    assert (E2' : (len (src ++ ext) <? be16 a b) = false) by (rewrite len_app; lia).
    rewrite E2'.
    assert (Hn : (nat_of (be16 a b) <= length src)%nat) by (pose proof (len_length src); unfold nat_of; lia).
    rewrite (firstn_app_le _ _ _ Hn), (skipn_app_le _ _ _ Hn).
    destruct (parse_message _ _ _ _); split; intros ? ? Hx; try discriminate; injection Hx as <- <-; reflexivity.
  Qed.

  Theorem C03_bgp_fragmentation_invariant p cd : fragmentation_invariant (try_parse other_nlri p cd).
  Proof.
    refine (stream_fragmentation_invariant (try_parse other_nlri p cd) _ _ _ _ _).
    - exact (C03_bgp_parse_no_panic p cd).
    - intros buf m rest H. exact (proj1 (C03_bgp_parse_consumes p cd buf m rest H)).
    - intros buf m rest ext. exact (proj1 (try_parse_ext p cd buf ext) m rest).
    - intros buf e rest ext. exact (proj2 (try_parse_ext p cd buf ext) e rest).
    - intros buf rest ext H. rewrite (try_parse_need _ _ _ _ H). reflexivity.
  Qed.
End MsgFacts.

(* ---- Non-vacuity *)
Definition codec_v4 : codec := mk_codec false false [(F_IPV4, false)].

Example bgp_keepalive_split :
  run_stream (try_parse no_other Debug codec_v4)
    [[255;255;255;255;255;255;255;255;255;255;255;255;255;255;255;255;0;19;4;255;255];
     [255;255;255;255;255;255;255;255;255;255;255;255;255;255;0;19;4]]
  = Some [EvMsg PKeepalive 2; EvNeed 2; EvMsg PKeepalive 0; EvNeed 0].
Proof. vm_compute. reflexivity. Qed.

(* a complete frame whose UPDATE length fields overflow 16 bits is rejected with
   UPDATE Message Error / Malformed Attribute List (the repaired behaviour) *)
Example bgp_update_attrlen_ffff :
  try_parse no_other Debug codec_v4
    [255;255;255;255;255;255;255;255;255;255;255;255;255;255;255;255;0;23;2;0;0;255;255]
  = DErr (mkn 3 1 []) [] /\
  bgp_complete 4096 [255;255;255;255;255;255;255;255;255;255;255;255;255;255;255;255;0;23;2;0;0;255;255].
Proof.
  split; [vm_compute; reflexivity|].
  split; [vm_compute; congruence|]. exists 23. split; [reflexivity|]. right. right. vm_compute. congruence.
Qed.

(* the contract assumed of the decoders that are not modelled is satisfiable *)
Example no_other_consumes : forall f r c c', no_other f r c = Some c' -> len c' < len c.
Proof. intros; discriminate. Qed.

(* ---- every family the crate can negotiate is modelled: the decoder of "other" families is
   never called, so try_parse does not depend on it *)
Lemma nlri_decode_other o1 o2 fam r c n : nlri_decode o1 fam r c n = nlri_decode o2 fam r c n.
Proof. unfold nlri_decode, is_other_family. cbn [andb]. reflexivity. Qed.

Lemma path_nlri_decode_other o1 o2 fam ap r c : path_nlri_decode o1 fam ap r c = path_nlri_decode o2 fam ap r c.
Proof. unfold path_nlri_decode. rewrite !(nlri_decode_other o1 o2). reflexivity. Qed.

Lemma nlri_list_fuel_other o1 o2 : forall fuel fam ap r c acc,
  nlri_list_fuel o1 fuel fam ap r c acc = nlri_list_fuel o2 fuel fam ap r c acc.
Proof.
  induction fuel as [|f IH]; intros; destruct c as [|b c]; cbn [nlri_list_fuel]; try reflexivity.
Qed.

Lemma nlri_list_other o1 o2 fam ap r c : nlri_list o1 fam ap r c = nlri_list o2 fam ap r c.
Proof. unfold nlri_list. apply nlri_list_fuel_other. Qed.

Lemma parse_update_other o1 o2 cd hdr frame : parse_update o1 cd hdr frame = parse_update o2 cd hdr frame.
Proof.
  unfold parse_update, upd_mp_reach, upd_mp_unreach.
  repeat (rewrite !(nlri_list_other o1 o2)). reflexivity.
Qed.

Lemma try_parse_other o1 o2 p cd src : try_parse o1 p cd src = try_parse o2 p cd src.
Proof. reflexivity. Qed.

Section AllFamilies.
  Variable other : N -> bool -> list N -> option (list N).
  Let noc := no_other_consumes.

  Theorem C03_bgp_all_no_panic p cd : never_panics (try_parse other p cd).
  Proof. intros src. rewrite (try_parse_other other no_other). apply (C03_bgp_parse_no_panic no_other noc). Qed.

  Theorem C03_bgp_all_consumes p cd : consumes_input (try_parse other p cd).
  Proof. intros src m rest. rewrite (try_parse_other other no_other). apply (C03_bgp_parse_consumes no_other noc). Qed.

  Theorem C03_bgp_all_complete_frame_decided p cd :
    complete_frame_decided (try_parse other p cd) (bgp_complete (max_len cd)).
  Proof. intros src rest. rewrite (try_parse_other other no_other). apply (C03_bgp_complete_frame_decided no_other noc). Qed.

  Theorem C03_bgp_all_need_only_if_incomplete p cd :
    need_only_if_incomplete (try_parse other p cd) (bgp_complete (max_len cd)).
  Proof. intros src rest. rewrite (try_parse_other other no_other). apply (C03_bgp_need_only_if_incomplete no_other noc). Qed.

  Theorem C03_bgp_all_fragmentation_invariant p cd : fragmentation_invariant (try_parse other p cd).
  Proof.
    refine (stream_fragmentation_invariant (try_parse other p cd) _ _ _ _ _).
    - exact (C03_bgp_all_no_panic p cd).
    - intros buf m rest H. exact (proj1 (C03_bgp_all_consumes p cd buf m rest H)).
    - intros buf m rest ext. rewrite !(try_parse_other other no_other). exact (proj1 (try_parse_ext no_other noc p cd buf ext) m rest).
    - intros buf e rest ext. rewrite !(try_parse_other other no_other). exact (proj2 (try_parse_ext no_other noc p cd buf ext) e rest).
    - intros buf rest ext. rewrite !(try_parse_other other no_other). intro H. rewrite (try_parse_need _ _ _ _ _ H). reflexivity.
  Qed.
End AllFamilies.
