(* Auxiliary lemmas for the C06 / C15 proofs about Model/Rib.v: association
   lists as split lists, look-ups through the [fm] / [mp] combinators, sums over
   destinations, and stability of the insertion sort. *)
From Coq Require Import List NArith ZArith Bool Lia Sorting.Permutation Sorting.Sorted.
From RB Require Import Base.Val Model.Rib Spec.BestPath Proofs.RibOrder Proofs.RibInv.
Import ListNotations.
Open Scope N_scope.

(* ------------------------------------------------------- association lists *)

Lemma aset_some {A} k (v v0 : A) m :
  alookup k m = Some v0 ->
  exists m1 m2, m = m1 ++ (k, v0) :: m2 /\ aset k v m = m1 ++ (k, v) :: m2.
Proof.
  induction m as [|[k0 x] r IH]; cbn; [discriminate|].
  destruct (k =? k0) eqn:E.
  - apply N.eqb_eq in E. subst k0. intro H. injection H as ->. exists [], r. split; reflexivity.
  - intro H. destruct (IH H) as (m1 & m2 & -> & E2). exists ((k0, x) :: m1), m2. cbn. rewrite E2.
    split; reflexivity.
Qed.

Lemma aset_none {A} k (v : A) m : alookup k m = None -> aset k v m = m ++ [(k, v)].
Proof.
  induction m as [|[k0 x] r IH]; cbn; [reflexivity|].
  destruct (k =? k0); [discriminate|]. intro H. rewrite (IH H). reflexivity.
Qed.

Lemma alookup_none_notin {A} k (m : list (N * A)) : alookup k m = None -> ~ In k (map fst m).
Proof.
  induction m as [|[k0 x] r IH]; cbn; [intros _ []|].
  destruct (k =? k0) eqn:E; [discriminate|]. apply N.eqb_neq in E.
  intros H [H1|H1]; [congruence|apply (IH H H1)].
Qed.

Lemma notin_alookup_none {A} k (m : list (N * A)) : ~ In k (map fst m) -> alookup k m = None.
Proof.
  induction m as [|[k0 x] r IH]; cbn; [reflexivity|]. intro H.
  destruct (k =? k0) eqn:E.
  - apply N.eqb_eq in E. exfalso. apply H. left. symmetry. exact E.
  - apply IH. intro H1. apply H. right. exact H1.
Qed.

Lemma aremove_notin {A} k (m : list (N * A)) : ~ In k (map fst m) -> aremove k m = m.
Proof.
  induction m as [|[k0 x] r IH]; cbn; [reflexivity|]. intro H.
  destruct (k =? k0) eqn:E.
  - apply N.eqb_eq in E. exfalso. apply H. left. symmetry. exact E.
  - rewrite IH; [reflexivity|]. intro H1. apply H. right. exact H1.
Qed.

Lemma aremove_some {A} k (v0 : A) m :
  NoDup (map fst m) -> alookup k m = Some v0 ->
  exists m1 m2, m = m1 ++ (k, v0) :: m2 /\ aremove k m = m1 ++ m2.
Proof.
  induction m as [|[k0 x] r IH]; cbn; intro Hnd; [discriminate|].
  apply NoDup_cons_iff in Hnd as [Hn Hr].
  destruct (k =? k0) eqn:E.
  - apply N.eqb_eq in E. subst k0. intro H. injection H as ->. exists [], r. split; [reflexivity|].
    cbn. apply aremove_notin, Hn.
  - intro H. destruct (IH Hr H) as (m1 & m2 & -> & E2). exists ((k0, x) :: m1), m2. cbn. rewrite E2.
    split; reflexivity.
Qed.

Lemma alookup_aremove {A} k k' (m : list (N * A)) :
  alookup k' (aremove k m) = if k' =? k then None else alookup k' m.
Proof.
  induction m as [|[k0 x] r IH]; cbn.
  - destruct (k' =? k); reflexivity.
  - destruct (k =? k0) eqn:E.
    + rewrite IH. apply N.eqb_eq in E. subst k0. destruct (k' =? k); reflexivity.
    + cbn. rewrite IH. destruct (k' =? k0) eqn:E1; [|reflexivity].
      apply N.eqb_eq in E1. subst k0. rewrite N.eqb_sym, E. reflexivity.
Qed.

Lemma alookup_fm g ds k :
  NoDup (map fst ds) ->
  alookup k (fm g ds) = match alookup k ds with Some d => g k d | None => None end.
Proof.
  induction ds as [|[n d] r IH]; cbn; intro Hnd; [reflexivity|].
  apply NoDup_cons_iff in Hnd as [Hn Hr].
  change (fm g ((n, d) :: r)) with ((match g n d with Some d' => [(n, d')] | None => [] end) ++ fm g r).
  destruct (k =? n) eqn:E.
  - apply N.eqb_eq in E. subst n. destruct (g k d) as [d'|]; cbn.
    + rewrite N.eqb_refl. reflexivity.
    + apply notin_alookup_none. intro H. apply Hn, (keys_fm_sub g), H.
  - destruct (g n d) as [d'|]; cbn; [rewrite E|]; apply IH, Hr.
Qed.

Lemma alookup_mp g ds k :
  alookup k (mp g ds) = match alookup k ds with Some d => Some (g k d) | None => None end.
Proof.
  induction ds as [|[n d] r IH]; cbn; [reflexivity|].
  destruct (k =? n) eqn:E; [|exact IH]. apply N.eqb_eq in E. subst n. reflexivity.
Qed.

Lemma nodup_map_inj {A B} (h : A -> B) l x y :
  NoDup (map h l) -> In x l -> In y l -> h x = h y -> x = y.
Proof.
  induction l as [|a r IH]; cbn; intro Hnd; [intros []|].
  apply NoDup_cons_iff in Hnd as [Hn Hr].
  intros [->|Hx] [->|Hy] E; try reflexivity.
  - exfalso. apply Hn. rewrite E. apply in_map, Hy.
  - exfalso. apply Hn. rewrite <- E. apply in_map, Hx.
  - apply IH; assumption.
Qed.

Lemma nodup_map_fm {B} (h : dest -> B) g ds :
  (forall n d d', g n d = Some d' -> h d' = h d) ->
  NoDup (map (fun nd => h (snd nd)) ds) -> NoDup (map (fun nd => h (snd nd)) (fm g ds)).
Proof.
  intro Hg. induction ds as [|[n d] r IH]; cbn; intro H; [constructor|].
  apply NoDup_cons_iff in H as [Hn Hr].
  change (fm g ((n, d) :: r)) with ((match g n d with Some d' => [(n, d')] | None => [] end) ++ fm g r).
  destruct (g n d) as [d'|] eqn:E; cbn; [|apply IH, Hr].
  constructor; [|apply IH, Hr]. rewrite (Hg _ _ _ E). intro Hin. apply Hn.
  apply in_map_iff in Hin as ([n1 d1] & E1 & Hin). cbn [snd] in E1.
  apply in_fm in Hin as (d2 & Hin & E2). apply in_map_iff. exists (n1, d2). cbn [snd].
  split; [|exact Hin]. rewrite <- (Hg _ _ _ E2). exact E1.
Qed.

Lemma map_mp_same {B} (h : dest -> B) g ds :
  (forall n d, h (g n d) = h d) ->
  map (fun nd => h (snd nd)) (mp g ds) = map (fun nd => h (snd nd)) ds.
Proof. intro Hg. unfold mp. rewrite map_map. apply map_ext. intros [n d]. cbn. apply Hg. Qed.

(* ------------------------------------------------------ sums over lists *)

Fixpoint sumN {A} (g : A -> N) (l : list A) : N :=
  match l with [] => 0 | x :: r => g x + sumN g r end.

Lemma sumN_app {A} (g : A -> N) l1 l2 : sumN g (l1 ++ l2) = sumN g l1 + sumN g l2.
Proof. induction l1 as [|a r IH]; cbn; [reflexivity|]. rewrite IH. lia. Qed.

Lemma sumN_ext {A} (g h : A -> N) l : (forall x, In x l -> g x = h x) -> sumN g l = sumN h l.
Proof.
  induction l as [|a r IH]; cbn; intro H; [reflexivity|].
  rewrite (H a (or_introl eq_refl)), IH; [reflexivity|]. intros x Hx. apply H. right. exact Hx.
Qed.

Lemma sumN_count {A} (p : A -> bool) l :
  sumN (fun x => if p x then 1 else 0) l = N.of_nat (length (filter p l)).
Proof.
  induction l as [|a r IH]; cbn [sumN filter]; [reflexivity|]. rewrite IH.
  destruct (p a); cbn [length]; lia.
Qed.

Lemma sumN_flat {A B} (h : A -> list B) (p : B -> bool) l :
  sumN (fun x => N.of_nat (length (filter p (h x)))) l = N.of_nat (length (filter p (flat_map h l))).
Proof.
  induction l as [|a r IH]; cbn [sumN flat_map]; [reflexivity|].
  rewrite IH, filter_app, app_length. lia.
Qed.

Definition sumd (g : dest -> N) (ds : list (N * dest)) : N := sumN (fun nd => g (snd nd)) ds.

Definition gopt (g : dest -> N) (o : option dest) : N := match o with Some d => g d | None => 0 end.

Lemma sumd_aset g k v m :
  sumd g (aset k v m) + gopt g (alookup k m) = sumd g m + g v.
Proof.
  unfold sumd. destruct (alookup k m) as [v0|] eqn:E.
  - destruct (aset_some k v v0 m E) as (m1 & m2 & -> & ->). rewrite !sumN_app. cbn. lia.
  - rewrite (aset_none k v m E), sumN_app. cbn. lia.
Qed.

Lemma sumd_aremove g k m :
  NoDup (map fst m) -> sumd g (aremove k m) + gopt g (alookup k m) = sumd g m.
Proof.
  intro Hnd. unfold sumd. destruct (alookup k m) as [v0|] eqn:E.
  - destruct (aremove_some k v0 m Hnd E) as (m1 & m2 & -> & ->). rewrite !sumN_app. cbn. lia.
  - rewrite (aremove_notin k m (alookup_none_notin k m E)). cbn. lia.
Qed.

Lemma sumd_fm g h ds :
  sumd g (fm h ds) = sumN (fun nd => gopt g (h (fst nd) (snd nd))) ds.
Proof.
  unfold sumd. induction ds as [|[n d] r IH]; [reflexivity|].
  change (fm h ((n, d) :: r)) with ((match h n d with Some d' => [(n, d')] | None => [] end) ++ fm h r).
  rewrite sumN_app, IH. cbn [sumN fst snd]. destruct (h n d); cbn; lia.
Qed.

Lemma sumd_mp g h ds :
  sumd g (mp h ds) = sumN (fun nd => g (h (fst nd) (snd nd))) ds.
Proof. unfold sumd, mp. induction ds as [|[n d] r IH]; cbn; [reflexivity|]. rewrite IH. reflexivity. Qed.

(* --------------------------------------------------- insertion sort is stable *)

Lemma is_ge_not_worse fl net e a :
  is_ge (cmp_for fl net e a) = true <-> not_worse fl net a e.
Proof.
  rewrite cmp_for_is_spec. unfold not_worse. rewrite (cmp_spec_antisym fl net e a).
  destruct (cmp_spec fl net e a); cbn; split; congruence.
Qed.

Lemma ins_sorted_last fl net e l :
  (forall a, In a l -> not_worse fl net a e) -> ins_sorted (cmp_for fl net) e l = l ++ [e].
Proof.
  induction l as [|a r IH]; cbn; intro H; [reflexivity|].
  rewrite (proj2 (is_ge_not_worse fl net e a) (H a (or_introl eq_refl))).
  rewrite IH; [reflexivity|]. intros x Hx. apply H. right. exact Hx.
Qed.

Lemma sorted_app_mid {A} (R : A -> A -> Prop) l1 x l2 :
  StronglySorted R (l1 ++ x :: l2) -> Forall (fun a => R a x) l1.
Proof.
  induction l1 as [|a r IH]; cbn; intro H; [constructor|].
  apply StronglySorted_inv in H as [Hr Ha]. constructor; [|apply IH, Hr].
  rewrite Forall_forall in Ha. apply Ha. rewrite in_app_iff. right. left. reflexivity.
Qed.

Lemma isort_acc_sorted_id fl net l acc :
  ranked fl net (acc ++ l) ->
  fold_left (fun a e => ins_sorted (cmp_for fl net) e a) l acc = acc ++ l.
Proof.
  revert acc. induction l as [|x r IH]; intros acc H; cbn [fold_left]; [rewrite app_nil_r; reflexivity|].
  rewrite ins_sorted_last.
  - rewrite IH; rewrite <- app_assoc; cbn; [reflexivity|exact H].
  - pose proof (sorted_app_mid _ _ _ _ H) as Hf. rewrite Forall_forall in Hf. exact Hf.
Qed.

Lemma isort_sorted_id fl net l : ranked fl net l -> isort (cmp_for fl net) l = l.
Proof. intro H. unfold isort. apply (isort_acc_sorted_id fl net l []). exact H. Qed.

Lemma cmp_lt_trans fl net e a b :
  cmp_for fl net e a = Lt -> not_worse fl net a b -> cmp_for fl net e b = Lt.
Proof.
  rewrite !cmp_for_is_spec. intros H1 H2.
  destruct (cmp_spec fl net e b) eqn:E; [| reflexivity |].
  - exfalso. assert (Hbe : not_worse fl net b e).
    { unfold not_worse. rewrite (cmp_spec_antisym fl net e b), E. cbn. congruence. }
    pose proof (not_worse_trans _ _ _ _ _ H2 Hbe) as Hae. unfold not_worse in Hae.
    rewrite (cmp_spec_antisym fl net e a), H1 in Hae. cbn in Hae. congruence.
  - exfalso. assert (Hbe : not_worse fl net b e).
    { unfold not_worse. rewrite (cmp_spec_antisym fl net e b), E. cbn. congruence. }
    pose proof (not_worse_trans _ _ _ _ _ H2 Hbe) as Hae. unfold not_worse in Hae.
    rewrite (cmp_spec_antisym fl net e a), H1 in Hae. cbn in Hae. congruence.
Qed.

Lemma ins_sorted_first cmp e l :
  (forall b, In b l -> cmp e b = Lt) -> ins_sorted cmp e l = e :: l.
Proof.
  destruct l as [|a r]; cbn; intro H; [reflexivity|].
  rewrite (H a (or_introl eq_refl)). reflexivity.
Qed.

Lemma filter_ins_sorted fl net P e l :
  ranked fl net l ->
  filter P (ins_sorted (cmp_for fl net) e l)
  = if P e then ins_sorted (cmp_for fl net) e (filter P l) else filter P l.
Proof.
  induction l as [|a r IH]; intro Hs.
  - cbn. destruct (P e); reflexivity.
  - apply StronglySorted_inv in Hs as [Hr Ha]. cbn [ins_sorted].
    destruct (is_ge (cmp_for fl net e a)) eqn:Hge.
    + cbn [filter]. rewrite (IH Hr). destruct (P a) eqn:Pa; [|reflexivity].
      destruct (P e); [|reflexivity]. cbn [ins_sorted]. rewrite Hge. reflexivity.
    + cbn [filter]. destruct (P e) eqn:Pe; [|reflexivity].
      assert (Hlt : cmp_for fl net e a = Lt) by (destruct (cmp_for fl net e a); cbn in Hge; congruence).
      symmetry. change (if P a then a :: filter P r else filter P r) with (filter P (a :: r)).
      apply ins_sorted_first. intros b Hb. apply filter_In in Hb as [Hb _].
      destruct Hb as [<-|Hb]; [exact Hlt|].
      rewrite Forall_forall in Ha. apply (cmp_lt_trans fl net e a b Hlt (Ha b Hb)).
Qed.

Lemma filter_isort_acc fl net P l acc :
  ranked fl net acc ->
  filter P (fold_left (fun a e => ins_sorted (cmp_for fl net) e a) l acc)
  = fold_left (fun a e => ins_sorted (cmp_for fl net) e a) (filter P l) (filter P acc).
Proof.
  revert acc. induction l as [|x r IH]; intros acc Ha; cbn [fold_left filter]; [reflexivity|].
  rewrite IH; [|apply ins_sorted_ranked, Ha]. rewrite (filter_ins_sorted fl net P x acc Ha).
  destruct (P x); reflexivity.
Qed.

Lemma filter_isort fl net P l :
  filter P (isort (cmp_for fl net) l) = isort (cmp_for fl net) (filter P l).
Proof. unfold isort. apply (filter_isort_acc fl net P l []). constructor. Qed.
