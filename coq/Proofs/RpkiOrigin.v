(* Attribute::as_path_origin / as_path_ends_with_set over the attribute's
   bytes (Model.Rpki) against the RFC 6811 route-origin rule over parsed
   segments (Spec.Rfc6811.origin_of), for every well-formed AS_PATH. *)
From Coq Require Import List Arith NArith ZArith Bool Lia ZifyBool ZifyNat ZifyN.
From RB Require Import Model.Rpki Spec.Rfc6811.
Import ListNotations.
Open Scope N_scope.

Definition be32_bytes (a : N) : list N :=
  [a / 16777216 mod 256; a / 65536 mod 256; a / 256 mod 256; a mod 256].

Definition encode_seg (s : N * list N) : list N :=
  fst s :: N.of_nat (length (snd s)) :: flat_map be32_bytes (snd s).

Definition encode_segs (segs : list (N * list N)) : list N := flat_map encode_seg segs.

(* a segment as the UPDATE parser accepts it: 1..255 four-octet AS numbers *)
Definition seg_ok (s : N * list N) : Prop :=
  snd s <> [] /\ (length (snd s) < 256)%nat /\ Forall (fun a => a < 4294967296) (snd s).

Lemma be32_roundtrip : forall a, a < 4294967296 -> be32 (be32_bytes a) = a.
Proof.
  intros a H. unfold be32, be32_bytes. cbn [fold_left].
  Ltac Zify.zify_post_hook ::= Z.div_mod_to_equations.
  lia.
Qed.
Ltac Zify.zify_post_hook ::= idtac.

Lemma flat_be32_length : forall l, length (flat_map be32_bytes l) = (4 * length l)%nat.
Proof. induction l as [|a l IH]; [reflexivity|]. cbn [flat_map]. rewrite app_length, IH. cbn [length be32_bytes]. lia. Qed.

Lemma skipn_app_exact {A} : forall (a b : list A) n, n = length a -> skipn n (a ++ b) = b.
Proof. intros a b n ->. rewrite skipn_app, skipn_all, Nat.sub_diag. reflexivity. Qed.

Lemma last_asn : forall l rest, l <> [] -> Forall (fun a => a < 4294967296) l ->
  be32 (firstn 4 (skipn (N.to_nat (4 * (N.of_nat (length l) - 1))) (flat_map be32_bytes l ++ rest))) = last l 0.
Proof.
  intros l rest Hne F. destruct (exists_last Hne) as [l' [z E]]. subst l.
  rewrite flat_map_app. cbn [flat_map]. rewrite app_nil_r, <- app_assoc.
  rewrite skipn_app_exact.
  2:{ rewrite flat_be32_length, app_length. cbn [length]. lia. }
  rewrite last_last. cbn [be32_bytes app firstn].
  apply Forall_app in F. destruct F as [_ F]. inversion F; subst.
  apply be32_roundtrip. assumption.
Qed.

Definition last_seg (segs : list (N * list N)) (d : N * N * N) : N * N * N :=
  match rev segs with
  | [] => d
  | (t, l) :: _ => (t, N.of_nat (length l), last l 0)
  end.

Lemma last_seg_cons : forall s segs d,
  last_seg (s :: segs) d = last_seg segs (fst s, N.of_nat (length (snd s)), last (snd s) 0).
Proof.
  intros [t l] segs d. unfold last_seg. cbn [rev fst snd].
  destruct (rev segs) as [|[t' l'] r]; reflexivity.
Qed.

Lemma apo_loop_encode : forall segs fuel t num asn,
  Forall seg_ok segs -> (length (encode_segs segs) <= fuel)%nat ->
  apo_loop fuel (encode_segs segs) t num asn = POk (last_seg segs (t, num, asn)).
Proof.
  induction segs as [|[t' l] segs IH]; intros fuel t num asn F Hf.
  - destruct fuel; reflexivity.
  - inversion F as [|? ? [Hne [Hlen Hasn]] F']; subst. cbn [fst snd] in *.
    unfold encode_segs in *. cbn [flat_map encode_seg fst snd app] in *.
    destruct fuel as [|fuel]; [cbn in Hf; lia|].
    cbn [apo_loop].
    match goal with |- context [N.of_nat (length ?x) <? ?y] =>
      replace (N.of_nat (length x) <? y) with false by (rewrite app_length, flat_be32_length; lia) end.
    replace (N.of_nat (length l) =? 0) with false by (destruct l; [contradiction|cbn [length]; lia]).
    rewrite last_asn by assumption.
    rewrite skipn_app_exact by (rewrite flat_be32_length; lia).
    rewrite IH; [|exact F'|cbn [length] in Hf; rewrite app_length, flat_be32_length in Hf; lia].
    rewrite last_seg_cons. reflexivity.
Qed.

Lemma encode_segs_short : forall segs, Forall seg_ok segs ->
  ((length (encode_segs segs) <? 2)%nat = true <-> segs = []).
Proof.
  intros segs F. destruct segs as [|[t l] segs]; [cbn; tauto|].
  split; [|discriminate]. intro H. exfalso.
  unfold encode_segs in H. cbn [flat_map encode_seg fst snd app length] in H.
  apply Nat.ltb_lt in H. lia.
Qed.

Lemma as_path_last_segment_encode : forall segs, Forall seg_ok segs ->
  as_path_last_segment (encode_segs segs)
  = POk (match segs with [] => None | _ => Some (last_seg segs (0, 0, 0)) end).
Proof.
  intros segs F. unfold as_path_last_segment.
  destruct ((length (encode_segs segs) <? 2)%nat) eqn:E.
  - apply (encode_segs_short segs F) in E. subst. reflexivity.
  - rewrite apo_loop_encode by (auto; lia). destruct segs; [discriminate|reflexivity].
Qed.

(* model origin (an AS number, 0 for NONE) and Spec origin (option) say the same thing *)
Definition origin_agrees (asn : N) (o : option N) : Prop := o = Some asn \/ (asn = 0 /\ o = None).

Lemma last_default : forall (l : list N) d d', l <> [] -> last l d = last l d'.
Proof.
  induction l as [|x l IH]; intros d d' H; [contradiction|]. destruct l as [|y l]; [reflexivity|].
  cbn [last]. apply IH. discriminate.
Qed.

Lemma origin_of_last_seg : forall local segs, Forall seg_ok segs -> segs <> [] ->
  let '(t, num, asn) := last_seg segs (0, 0, 0) in
  0 < num /\
  origin_of local segs = (if t =? SEG_SEQ then Some asn else if t =? SEG_SET then None else Some local).
Proof.
  intros local segs F Hne. unfold last_seg, origin_of.
  destruct (exists_last Hne) as [segs' [[t l] E]]. subst segs.
  rewrite rev_app_distr. cbn [rev app].
  apply Forall_app in F. destruct F as [_ F]. inversion F as [|? ? [Hl _] _]; subst. cbn [snd] in Hl.
  split; [destruct l; [contradiction|cbn [length]; lia]|].
  destruct (t =? SEG_SEQ); [|reflexivity]. f_equal. apply last_default. exact Hl.
Qed.

(* what the attribute list looks like to validate: no AS_PATH attribute, or a
   first AS_PATH attribute carrying well-formed segments *)
Definition attrs_decode (attrs : list (N * list N)) (segs : option (list (N * list N))) : Prop :=
  match segs with
  | None => find (fun a => fst a =? AS_PATH) attrs = None
  | Some sg => Forall seg_ok sg
               /\ exists c, find (fun a => fst a =? AS_PATH) attrs = Some (c, encode_segs sg)
  end.

Definition origin_spec (local : N) (segs : option (list (N * list N))) : option N :=
  match segs with None => Some local | Some sg => origin_of local sg end.

Theorem origin_code_eq_rfc6811 : forall local attrs segs,
  attrs_decode attrs segs ->
  exists asn, origin_asn local attrs = POk asn /\ origin_agrees asn (origin_spec local segs).
Proof.
  intros local attrs [sg|] D; cbn [attrs_decode origin_spec] in *.
  - destruct D as [F [c Hf]]. unfold origin_asn. rewrite Hf. cbn [snd].
    unfold as_path_origin, as_path_ends_with_set. rewrite as_path_last_segment_encode by exact F.
    destruct sg as [|s sg'] eqn:Esg.
    + exists local. split; [reflexivity|left; reflexivity].
    + rewrite <- Esg in *. assert (Hne : sg <> []) by (rewrite Esg; discriminate).
      pose proof (origin_of_last_seg local sg F Hne) as H.
      destruct (last_seg sg (0, 0, 0)) as [[t num] asn]. destruct H as [Hnum Ho].
      rewrite Ho. unfold AS_PATH_TYPE_SEQ, AS_PATH_TYPE_SET, SEG_SEQ, SEG_SET in *.
      replace (0 <? num) with true by lia.
      destruct (t =? 2) eqn:E2; cbn [andb].
      * exists asn. split; [reflexivity|left; reflexivity].
      * destruct (t =? 1) eqn:E1.
        -- exists 0. split; [reflexivity|right; split; reflexivity].
        -- exists local. split; [reflexivity|left; reflexivity].
  - unfold origin_asn. rewrite D. exists local. split; [reflexivity|left; reflexivity].
Qed.

(* non-vacuity: an AS_PATH whose last segment is an AS_SET, and one ending in a sequence *)
Example attrs_decode_example :
  attrs_decode [(1, []); (2, encode_segs [(2, [65001; 65002]); (1, [65005])])] (Some [(2, [65001; 65002]); (1, [65005])])
  /\ origin_spec 65000 (Some [(2, [65001; 65002]); (1, [65005])]) = None
  /\ origin_spec 65000 (Some [(1, [65005]); (2, [65001; 65002])]) = Some 65002
  /\ origin_spec 65000 (Some [(2, [65001]); (3, [65002])]) = Some 65000.
Proof.
  split; [|repeat split; reflexivity].
  split.
  - repeat constructor; cbn; try discriminate; try lia.
  - exists 2. reflexivity.
Qed.
