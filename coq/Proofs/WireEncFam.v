(* C04: the structurally modelled families (Flowspec x4, RTC, EVPN 1-5, SR Policy) read back
   as the NLRI value that was written. *)
From Coq Require Import List ZArith NArith Bool Lia.
From RB Require Import Base.Val Model.Caps Model.WireEnc Spec.WireRead Spec.WireEncSpec Spec.WireReadFam
     Spec.WireFamSpec Proofs.WireEnc.
Import ListNotations.
Open Scope N_scope.

(* ------------------------------------------------------------------ numbers *)
Lemma rdn_1 x : rdn [x] 0 = x.
Proof. cbn [rdn]. lia. Qed.

Lemma rdn_be16 n : n < 65536 -> rdn (be16 n) 0 = n.
Proof. intros H. unfold be16. cbn [rdn]. rewrite <- (be16_rd16 n H) at 3. lia. Qed.

Lemma rdn_be24 n : n < 16777216 -> rdn (be24 n) 0 = n.
Proof. intros H. unfold be24. cbn [rdn]. rewrite <- (be24_rd24 n H) at 4. lia. Qed.

Lemma rdn_be32 n : n < 4294967296 -> rdn (be32 n) 0 = n.
Proof. intros H. unfold be32. cbn [rdn]. rewrite <- (be32_rd32 n H) at 5. lia. Qed.

Lemma rdn_app a : forall b acc, rdn (a ++ b) acc = rdn b (rdn a acc).
Proof. induction a as [|x a IH]; intros b acc; [reflexivity|]. cbn [app rdn]. apply IH. Qed.

Lemma rdn_be32_acc n acc : n < 4294967296 -> rdn (be32 n) acc = acc * 4294967296 + n.
Proof. intros H. unfold be32. cbn [rdn]. rewrite <- (be32_rd32 n H) at 5. lia. Qed.

Lemma rdn_be64 n : n < 18446744073709551616 -> rdn (be64 n) 0 = n.
Proof.
  intros H. unfold be64. rewrite rdn_app.
  assert (Hhi : n / 4294967296 < 4294967296) by (apply N.div_lt_upper_bound; lia).
  rewrite (N.mod_small (n / 4294967296)) by exact Hhi.
  rewrite (rdn_be32 _ Hhi). rewrite rdn_be32_acc by (apply N.mod_lt; lia).
  rewrite N.mul_comm. symmetry. apply N.div_mod. lia.
Qed.

Lemma blen_be24 n : blen (be24 n) = 3. Proof. reflexivity. Qed.
Lemma blen_be32 n : blen (be32 n) = 4. Proof. reflexivity. Qed.
Lemma blen_be16 n : blen (be16 n) = 2. Proof. reflexivity. Qed.
Lemma blen_be64 n : blen (be64 n) = 8. Proof. reflexivity. Qed.

(* ------------------------------------------------------------------ fixed-width fields *)
Lemma takes_app fs : forall rest, takes (map blen fs) (concat fs ++ rest) = Some (fs, rest).
Proof.
  induction fs as [|f fs IH]; intros rest; [reflexivity|].
  cbn [map concat takes]. rewrite <- app_assoc, take_app, IH. reflexivity.
Qed.

Lemma takes_fields sizes fs rest b :
  sizes = map blen fs -> b = concat fs ++ rest -> takes sizes b = Some (fs, rest).
Proof. intros -> ->. apply takes_app. Qed.

(* ------------------------------------------------------------------ RTC *)
Lemma read_rtc_enc r rest :
  match r with RtcAll => True | RtcAs a => a < 4294967296 | RtcExact a rt => a < 4294967296 /\ blen rt = 8 end ->
  read_rtc (enc_rtc r ++ rest) = Some (NRtc r, rest).
Proof.
  destruct r as [|a|a rt]; intros H; unfold read_rtc, enc_rtc; cbn [app].
  - reflexivity.
  - cbn [N.eqb Pos.eqb]. change 4 with (blen (be32 a)). rewrite take_app, rdn_be32 by exact H. reflexivity.
  - destruct H as [Ha Hrt]. cbn [N.eqb Pos.eqb].
    rewrite (takes_fields [4; 8] [be32 a; rt] rest).
    + rewrite rdn_be32 by exact Ha. reflexivity.
    + cbn [map]. rewrite Hrt. reflexivity.
    + cbn [concat]. rewrite app_nil_r, <- app_assoc. reflexivity.
Qed.

(* ------------------------------------------------------------------ SR Policy *)
Lemma read_srp_enc d c ep rest :
  d < 4294967296 -> c < 4294967296 -> (blen ep = 4 \/ blen ep = 16) ->
  read_srp (([if len ep =? 4 then 96 else 192] ++ be32 d ++ be32 c ++ ep) ++ rest) = Some (NSrp d c ep, rest).
Proof.
  intros Hd Hc Hep. unfold read_srp. change (len ep) with (blen ep). cbn [app].
  assert (Hl : (if blen ep =? 4 then 96 else 192) = 96 /\ blen ep = 4 \/ (if blen ep =? 4 then 96 else 192) = 192 /\ blen ep = 16).
  { destruct Hep as [-> | ->]; [left | right]; split; reflexivity. }
  destruct Hl as [[-> He] | [-> He]]; cbn [N.eqb Pos.eqb orb].
  - rewrite (takes_fields _ [be32 d; be32 c; ep] rest).
    + rewrite !rdn_be32 by assumption. reflexivity.
    + cbn [map]. rewrite He. reflexivity.
    + cbn [concat]. rewrite app_nil_r, <- !app_assoc. reflexivity.
  - rewrite (takes_fields _ [be32 d; be32 c; ep] rest).
    + rewrite !rdn_be32 by assumption. reflexivity.
    + cbn [map]. rewrite He. reflexivity.
    + cbn [concat]. rewrite app_nil_r, <- !app_assoc. reflexivity.
Qed.

(* ------------------------------------------------------------------ EVPN *)
Lemma evpn_frame ty data rest :
  blen data < 256 ->
  forall K : list N -> option evpn,
  (match ([ty; trunc8 (len data)] ++ data) ++ rest with
   | t :: n :: r => match take n r with Some (d, rest') => Some (t, d, rest') | None => None end
   | _ => None end) = Some (ty, data, rest).
Proof.
  intros H _. cbn [app]. change (len data) with (blen data). rewrite trunc8_small by exact H.
  rewrite take_app. reflexivity.
Qed.

Ltac ev_fields fs rest :=
  rewrite (takes_fields _ fs rest);
  [ | cbn [map]; repeat match goal with H : blen _ = _ |- _ => rewrite H end; reflexivity
    | cbn [concat]; rewrite ?app_nil_r, <- ?app_assoc; reflexivity ].

Lemma read_evpn_enc e rest :
  evpn_wf e -> read_evpn (enc_evpn e ++ rest) = Some (NEvpn e, rest).
Proof.
  intros Hwf. unfold read_evpn, enc_evpn.
  destruct e as [rd esi et l | rd esi et mac ip l1 l2 | rd et ip | rd esi ip | rd esi et pl ip gw l]; cbn [evpn_wf] in Hwf.
  - destruct Hwf as [Hrd [Hesi [Het Hl]]].
    set (data := rd ++ esi ++ be32 et ++ be24 l).
    assert (Hd : blen data = 25) by (subst data; rewrite !blen_app, Hrd, Hesi; reflexivity).
    cbn [app]. change (len data) with (blen data). rewrite trunc8_small by lia. rewrite take_app.
    cbn [N.eqb Pos.eqb]. subst data.
    ev_fields [rd; esi; be32 et; be24 l] (@nil N).
    rewrite rdn_be32, rdn_be24 by assumption. reflexivity.
  - destruct Hwf as [Hrd [Hesi [Het [Hmac [Hip [Hl1 Hl2]]]]]].
    set (tail := be24 l1 ++ match l2 with Some l => be24 l | None => [] end).
    set (data := rd ++ esi ++ be32 et ++ [48] ++ mac ++ [ip_bits ip] ++ ip ++ tail).
    assert (Htl : blen tail <= 6) by (subst tail; destruct l2; rewrite blen_app; cbn; lia).
    assert (Hd : blen data < 256).
    { subst data. rewrite !blen_app, Hrd, Hesi, Hmac. change (blen (be32 et)) with 4. change (blen [48]) with 1.
      change (blen [ip_bits ip]) with 1. destruct Hip as [-> | [-> | ->]]; lia. }
    cbn [app]. change (len (rd ++ esi ++ be32 et ++ 48 :: mac ++ ip_bits ip :: ip ++ be24 l1 ++ match l2 with Some l => be24 l | None => [] end)) with (blen data).
    rewrite trunc8_small by exact Hd.
    change (rd ++ esi ++ be32 et ++ 48 :: mac ++ ip_bits ip :: ip ++ be24 l1 ++ match l2 with Some l => be24 l | None => [] end) with data.
    rewrite take_app. cbn [N.eqb Pos.eqb]. subst data.
    ev_fields [rd; esi; be32 et; [48]; mac; [ip_bits ip]] (ip ++ tail).
    cbn [N.eqb Pos.eqb andb].
    assert (Hbits : ip_len_ok (ip_bits ip) true = true /\ ip_bits ip / 8 = blen ip).
    { unfold ip_bits, ip_len_ok. change (len ip) with (blen ip). destruct Hip as [-> | [-> | ->]]; split; reflexivity. }
    destruct Hbits as [-> Hi8]. rewrite Hi8. subst tail.
    destruct l2 as [l2|].
    + rewrite (takes_fields _ [ip; be24 l1] (be24 l2)); [| reflexivity | cbn [concat]; rewrite ?app_nil_r, <- ?app_assoc; reflexivity].
      change (take 3 (be24 l2)) with (take (blen (be24 l2)) (be24 l2)). rewrite take_all.
      rewrite !rdn_be32, !rdn_be24 by assumption. reflexivity.
    + rewrite (takes_fields _ [ip; be24 l1] (@nil N)); [| reflexivity | cbn [concat]; rewrite ?app_nil_r, <- ?app_assoc; reflexivity].
      rewrite !rdn_be32, !rdn_be24 by assumption. reflexivity.
  - destruct Hwf as [Hrd [Het Hip]].
    set (data := rd ++ be32 et ++ [ip_bits ip] ++ ip).
    assert (Hd : blen data < 256).
    { subst data. rewrite !blen_app, Hrd. change (blen (be32 et)) with 4. change (blen [ip_bits ip]) with 1. destruct Hip as [-> | ->]; lia. }
    cbn [app]. change (len (rd ++ be32 et ++ ip_bits ip :: ip)) with (blen data). rewrite trunc8_small by exact Hd.
    change (rd ++ be32 et ++ ip_bits ip :: ip) with data. rewrite take_app. cbn [N.eqb Pos.eqb]. subst data.
    ev_fields [rd; be32 et; [ip_bits ip]] ip.
    assert (Hbits : ip_len_ok (ip_bits ip) false = true /\ (blen ip =? ip_bits ip / 8) = true).
    { unfold ip_bits, ip_len_ok. change (len ip) with (blen ip). destruct Hip as [-> | ->]; split; reflexivity. }
    destruct Hbits as [-> ->]. cbn [andb]. rewrite rdn_be32 by assumption. reflexivity.
  - destruct Hwf as [Hrd [Hesi Hip]].
    set (data := rd ++ esi ++ [ip_bits ip] ++ ip).
    assert (Hd : blen data < 256).
    { subst data. rewrite !blen_app, Hrd, Hesi. change (blen [ip_bits ip]) with 1. destruct Hip as [-> | ->]; lia. }
    cbn [app]. change (len (rd ++ esi ++ ip_bits ip :: ip)) with (blen data). rewrite trunc8_small by exact Hd.
    change (rd ++ esi ++ ip_bits ip :: ip) with data. rewrite take_app. cbn [N.eqb Pos.eqb]. subst data.
    ev_fields [rd; esi; [ip_bits ip]] ip.
    assert (Hbits : ip_len_ok (ip_bits ip) false = true /\ (blen ip =? ip_bits ip / 8) = true).
    { unfold ip_bits, ip_len_ok. change (len ip) with (blen ip). destruct Hip as [-> | ->]; split; reflexivity. }
    destruct Hbits as [-> ->]. reflexivity.
  - destruct Hwf as [Hrd [Hesi [Het [Hip [Hgw [Hpl Hl]]]]]].
    change (len gw) with (blen gw). change (len ip) with (blen ip). rewrite Hgw, N.eqb_refl.
    set (data := rd ++ esi ++ be32 et ++ [pl] ++ ip ++ gw ++ be24 l).
    assert (Hd : blen data < 256).
    { subst data. rewrite !blen_app, Hrd, Hesi, Hgw. change (blen (be32 et)) with 4. change (blen [pl]) with 1.
      change (blen (be24 l)) with 3. destruct Hip as [-> | ->]; lia. }
    cbn [app]. change (len (rd ++ esi ++ be32 et ++ pl :: ip ++ gw ++ be24 l)) with (blen data). rewrite trunc8_small by exact Hd.
    change (rd ++ esi ++ be32 et ++ pl :: ip ++ gw ++ be24 l) with data. rewrite take_app. cbn [N.eqb Pos.eqb]. subst data.
    ev_fields [rd; esi; be32 et; [pl]] (ip ++ gw ++ be24 l).
    assert (Hw : (blen (ip ++ gw ++ be24 l) - 3) / 2 = blen ip /\ blen (ip ++ gw ++ be24 l) = 2 * blen ip + 3).
    { rewrite !blen_app, Hgw. change (blen (be24 l)) with 3. split; [|lia].
      replace (blen ip + (blen ip + 3) - 3) with (blen ip * 2) by lia. apply N.div_mul. lia. }
    destruct Hw as [Hw1 Hw2]. rewrite Hw1, Hw2.
    assert (Hc : ((blen ip =? 4) || (blen ip =? 16)) && (2 * blen ip + 3 =? 2 * blen ip + 3) && (pl <=? 8 * blen ip) = true).
    { rewrite N.eqb_refl. replace (pl <=? 8 * blen ip) with true by (symmetry; apply N.leb_le; exact Hpl).
      destruct Hip as [-> | ->]; reflexivity. }
    rewrite Hc.
    rewrite (takes_fields _ [ip; gw; be24 l] (@nil N)); [| cbn [map]; rewrite Hgw; reflexivity | cbn [concat]; rewrite ?app_nil_r, <- ?app_assoc; reflexivity].
    rewrite rdn_be32, rdn_be24 by assumption. reflexivity.
Qed.

(* ------------------------------------------------------------------ Flowspec: operator octets *)
Definition opbyte_ok (b ord : N) : bool :=
  let o := N.lor b (ord * 16) in
  ((o / 16) mod 4 =? ord) && (N.land o 207 =? b) && Bool.eqb (128 <=? o) (128 <=? b).

Lemma opbyte_all :
  forallb (fun b => if (b / 16) mod 4 =? 0 then forallb (opbyte_ok b) [0; 1; 2; 3] else true)
          (map N.of_nat (seq 0 256)) = true.
Proof. vm_compute. reflexivity. Qed.

Lemma opbyte b ord :
  b < 256 -> ord < 4 -> (b / 16) mod 4 = 0 ->
  let o := N.lor b (ord * 16) in
  (o / 16) mod 4 = ord /\ N.land o 207 = b /\ (128 <=? o) = (128 <=? b).
Proof.
  intros Hb Hord Hz.
  pose proof opbyte_all as H. rewrite forallb_forall in H.
  assert (Hin : In b (map N.of_nat (seq 0 256))).
  { apply in_map_iff. exists (N.to_nat b). split; [apply Nnat.N2Nat.id | apply in_seq; lia]. }
  specialize (H b Hin). rewrite Hz in H. cbn [N.eqb] in H. rewrite forallb_forall in H.
  assert (Ho : In ord [0; 1; 2; 3]).
  { assert (ord = 0 \/ ord = 1 \/ ord = 2 \/ ord = 3) as [-> | [-> | [-> | ->]]] by lia; cbn; tauto. }
  specialize (H ord Ho). unfold opbyte_ok in H.
  apply andb_prop in H as [H H3]. apply andb_prop in H as [H1 H2].
  apply N.eqb_eq in H1, H2. apply Bool.eqb_prop in H3. cbv zeta. auto.
Qed.

Lemma op_order_cases v :
  v < 18446744073709551616 ->
  (op_order v = 0 /\ v <= 255) \/ (op_order v = 1 /\ 255 < v <= 65535) \/
  (op_order v = 2 /\ 65535 < v <= 4294967295) \/ (op_order v = 3 /\ 4294967295 < v).
Proof.
  intros _. unfold op_order.
  destruct (v <=? 255) eqn:E1; [apply N.leb_le in E1; left; auto|]. apply N.leb_gt in E1.
  destruct (v <=? 65535) eqn:E2; [apply N.leb_le in E2; right; left; split; [reflexivity | lia]|]. apply N.leb_gt in E2.
  destruct (v <=? 4294967295) eqn:E3; [apply N.leb_le in E3; right; right; left; split; [reflexivity | lia]|]. apply N.leb_gt in E3.
  right; right; right. split; [reflexivity | lia].
Qed.

(* one <operator, value> pair read back *)
Lemma enc_op_read b v rest :
  b < 256 -> (b / 16) mod 4 = 0 -> v < 18446744073709551616 ->
  exists o vb, enc_op (b, v) ++ rest = o :: vb ++ rest /\
    take (2 ^ ((o / 16) mod 4)) (vb ++ rest) = Some (vb, rest) /\
    N.land o 207 = b /\ rdn vb 0 = v /\ (128 <=? o) = (128 <=? b) /\ (1 <= length vb)%nat.
Proof.
  intros Hb Hz Hv. unfold enc_op. cbn [fst snd].
  destruct (op_order_cases v Hv) as [[-> Hr] | [[-> Hr] | [[-> Hr] | [-> Hr]]]]; cbn [N.eqb Pos.eqb].
  - destruct (opbyte b 0 Hb ltac:(lia) Hz) as [H1 [H2 H3]].
    eexists. exists [v mod 256]. split; [reflexivity|]. rewrite H1.
    split; [apply (take_app [v mod 256])|]. split; [exact H2|]. split; [rewrite rdn_1; apply N.mod_small; lia|].
    split; [exact H3 | cbn; lia].
  - destruct (opbyte b 1 Hb ltac:(lia) Hz) as [H1 [H2 H3]].
    eexists. exists (be16 v). split; [reflexivity|]. rewrite H1.
    split; [apply (take_app (be16 v))|]. split; [exact H2|]. split; [apply rdn_be16; lia|].
    split; [exact H3 | cbn; lia].
  - destruct (opbyte b 2 Hb ltac:(lia) Hz) as [H1 [H2 H3]].
    eexists. exists (be32 v). split; [reflexivity|]. rewrite H1.
    split; [apply (take_app (be32 v))|]. split; [exact H2|]. split; [apply rdn_be32; lia|].
    split; [exact H3 | cbn; lia].
  - destruct (opbyte b 3 Hb ltac:(lia) Hz) as [H1 [H2 H3]].
    eexists. exists (be64 v). split; [reflexivity|]. rewrite H1.
    split; [apply (take_app (be64 v))|]. split; [exact H2|]. split; [apply rdn_be64; exact Hv|].
    split; [exact H3 | cbn; lia].
Qed.

Lemma read_fs_ops_enc ops : forall rest fuel,
  ops_wf ops -> (length ops <= fuel)%nat ->
  read_fs_ops fuel (flat_map enc_op ops ++ rest) = Some (ops, rest).
Proof.
  induction ops as [|[b v] ops IH]; intros rest fuel Hwf Hfuel; [destruct Hwf|].
  destruct fuel as [|k]; [cbn in Hfuel; lia|].
  cbn [flat_map]. rewrite <- app_assoc.
  destruct ops as [|[b' v'] t].
  - destruct Hwf as [Hb [Hz [He Hv]]].
    destruct (enc_op_read b v (flat_map enc_op [] ++ rest) Hb Hz Hv) as [o [vb [Heq [Htk [Hland [Hrd [Hend _]]]]]]].
    rewrite Heq. cbn [read_fs_ops]. rewrite Htk, Hland, Hrd, Hend.
    replace (128 <=? b) with true by (symmetry; apply N.leb_le; exact He). reflexivity.
  - destruct Hwf as [Hb [Hz [Hv Hrest]]].
    destruct (enc_op_read b v (flat_map enc_op ((b', v') :: t) ++ rest) ltac:(lia) Hz Hv) as [o [vb [Heq [Htk [Hland [Hrd [Hend _]]]]]]].
    rewrite Heq. cbn [read_fs_ops]. rewrite Htk, Hland, Hrd, Hend.
    replace (128 <=? b) with false by (symmetry; apply N.leb_gt; exact Hb).
    rewrite IH; [reflexivity | exact Hrest | cbn [length] in *; lia].
Qed.

Lemma enc_op_length o : (2 <= length (enc_op o))%nat.
Proof.
  unfold enc_op. destruct (op_order (snd o) =? 0); [cbn; lia|].
  destruct (op_order (snd o) =? 1); [cbn; lia|]. destruct (op_order (snd o) =? 2); cbn; lia.
Qed.

Lemma flat_map_enc_op_length ops : (length ops <= length (flat_map enc_op ops))%nat.
Proof.
  induction ops as [|o ops IH]; [cbn; lia|]. cbn [flat_map length]. rewrite app_length.
  pose proof (enc_op_length o). lia.
Qed.

(* ------------------------------------------------------------------ Flowspec: components *)
Lemma read_fs_comps_nil fuel v6 : read_fs_comps fuel v6 [] = Some [].
Proof. destruct fuel; reflexivity. Qed.

Lemma enc_fcomp_read v6 c b rest fuel :
  enc_fcomp v6 c = Ok b -> fcomp_wf v6 c -> (length (b ++ rest) <= fuel)%nat ->
  read_fs_comps fuel v6 (b ++ rest) =
  match read_fs_comps (pred fuel) v6 rest with Some l => Some (canon_fcomp c :: l) | None => None end.
Proof.
  intros He Hwf Hfuel. destruct c as [ty m off a | ty ops]; cbn [enc_fcomp fcomp_wf canon_fcomp] in *.
  - destruct Hwf as [Hty [Ha Hoff]]. change (len a) with (blen a) in He.
    replace ((m + 7) / 8 <=? blen a) with true in He by (symmetry; apply N.leb_le; exact Ha).
    apply Ok_inj in He. subst b.
    destruct fuel as [|k]; [cbn in Hfuel; lia|]. cbn [pred].
    assert (Ht : (ty =? 1) || (ty =? 2) = true) by (destruct Hty as [-> | ->]; reflexivity).
    assert (Hsig : blen (firstn (N.to_nat ((m + 7) / 8)) a) = (m + 7) / 8) by (apply sig_octets_blen; exact Ha).
    destruct v6.
    + cbn [app read_fs_comps]. rewrite Ht. rewrite <- Hsig at 1. rewrite take_app. reflexivity.
    + rewrite (Hoff eq_refl). cbn [app read_fs_comps]. rewrite Ht. rewrite <- Hsig at 1. rewrite take_app. reflexivity.
  - destruct Hwf as [H1 [H2 Hops]]. apply Ok_inj in He. subst b.
    destruct fuel as [|k]; [cbn in Hfuel; lia|]. cbn [pred].
    cbn [app read_fs_comps].
    replace ((ty =? 1) || (ty =? 2)) with false
      by (symmetry; apply orb_false_iff; split; apply N.eqb_neq; assumption).
    rewrite read_fs_ops_enc; [reflexivity | exact Hops |].
    rewrite app_length. pose proof (flat_map_enc_op_length ops). lia.
Qed.

Lemma enc_fcomp_length v6 c b : enc_fcomp v6 c = Ok b -> (1 <= length b)%nat.
Proof.
  destruct c; cbn [enc_fcomp]; intros H.
  - destruct ((mask + 7) / 8 <=? len addr); [|discriminate]. apply Ok_inj in H. subst b. cbn [app length]. lia.
  - apply Ok_inj in H. subst b. cbn [length]. lia.
Qed.

Lemma enc_fcomps_read v6 comps : forall body fuel,
  enc_fcomps v6 comps = Ok body -> Forall (fcomp_wf v6) comps -> (length body <= fuel)%nat ->
  read_fs_comps fuel v6 body = Some (map canon_fcomp comps).
Proof.
  induction comps as [|c comps IH]; intros body fuel He Hwf Hfuel; cbn [enc_fcomps] in He.
  - apply Ok_inj in He. subst body. apply read_fs_comps_nil.
  - apply bind_ok in He as [b [Hb He]]. apply bind_ok in He as [r [Hr He]]. apply Ok_inj in He. subst body.
    inversion Hwf as [|? ? Hc Hcs]; subst.
    rewrite (enc_fcomp_read _ _ _ _ _ Hb Hc Hfuel).
    rewrite (IH r); [reflexivity | exact Hr | exact Hcs |].
    rewrite app_length in Hfuel. pose proof (enc_fcomp_length _ _ _ Hb). lia.
Qed.

(* ------------------------------------------------------------------ Flowspec: the length prefix and the rule *)
Lemma lor240 :
  forallb (fun h => (N.lor 240 h mod 16 =? h) && negb (N.lor 240 h <? 240)) (map N.of_nat (seq 0 16)) = true.
Proof. vm_compute. reflexivity. Qed.

Lemma read_fs_len_enc n r : n < 4096 -> read_fs_len (fs_len n ++ r) = Some (n, r).
Proof.
  intros Hn. unfold fs_len, read_fs_len.
  destruct (n <? 240) eqn:E; cbn [app]; [rewrite E; reflexivity|].
  assert (Hh : n / 256 < 16) by (apply N.div_lt_upper_bound; lia).
  rewrite (N.mod_small (n / 256)) by lia.
  pose proof lor240 as H. rewrite forallb_forall in H.
  assert (Hin : In (n / 256) (map N.of_nat (seq 0 16))).
  { apply in_map_iff. exists (N.to_nat (n / 256)). split; [apply Nnat.N2Nat.id|]. apply in_seq.
    generalize dependent (n / 256). intros h Hh. lia. }
  specialize (H _ Hin). apply andb_prop in H as [H1 H2]. apply N.eqb_eq in H1. apply negb_true_iff in H2.
  rewrite H2, H1. f_equal. f_equal. rewrite N.mul_comm. symmetry. apply N.div_mod. lia.
Qed.

Lemma read_flow_enc p v6 vpn rd comps enc rest :
  enc_nlri p (NFlow v6 rd comps) = Ok enc ->
  match rd with Some r => vpn = true /\ blen r = 8 | None => vpn = false end ->
  Forall (fcomp_wf v6) comps ->
  match enc_fcomps v6 comps with
  | Ok body => blen (match rd with Some r => r | None => [] end) + blen body < 4096
  | _ => True
  end ->
  read_flow v6 vpn (enc ++ rest) = Some (NFlow v6 rd (map canon_fcomp comps), rest).
Proof.
  intros He Hrd Hwf Hsz. cbn [enc_nlri] in He. apply bind_ok in He as [body [Hb He]]. apply Ok_inj in He. subst enc.
  rewrite Hb in Hsz. unfold read_flow.
  set (full := match rd with Some r => r | None => [] end ++ body) in *.
  assert (Hfull : blen full < 4096) by (subst full; rewrite blen_app; exact Hsz).
  rewrite <- app_assoc. change (len full) with (blen full).
  rewrite read_fs_len_enc by exact Hfull. rewrite take_app.
  destruct rd as [r|].
  - destruct Hrd as [-> Hr8]. subst full. rewrite <- Hr8, take_app.
    rewrite (enc_fcomps_read _ _ _ _ Hb Hwf (le_n _)). reflexivity.
  - subst vpn. subst full. cbn [app].
    rewrite (enc_fcomps_read _ _ _ _ Hb Hwf (le_n _)). reflexivity.
Qed.

(* ------------------------------------------------------------------ MUP *)
Lemma teid_prefix_read teid (k : nat) :
  teid < 4294967296 -> (k <= 4)%nat -> teid mod 256 ^ (4 - N.of_nat k) = 0 ->
  rdn (firstn k (be32 teid) ++ zeros (4 - k)) 0 = teid.
Proof.
  intros Ht Hk Hm. unfold be32.
  destruct k as [|[|[|[|[|k]]]]]; try lia; cbn [firstn app zeros repeat Nat.sub rdn N.of_nat Pos.of_succ_nat Pos.succ] in *.
  - change (256 ^ (4 - 0)) with 4294967296 in Hm. rewrite N.mod_small in Hm by exact Ht. lia.
  - change (256 ^ (4 - 1)) with 16777216 in Hm.
    pose proof (N.div_mod teid 16777216 ltac:(lia)) as Hd. rewrite Hm in Hd.
    rewrite (N.mod_small (teid / 16777216)) by (apply N.div_lt_upper_bound; lia). lia.
  - change (256 ^ (4 - 2)) with 65536 in Hm.
    pose proof (N.div_mod teid 65536 ltac:(lia)) as Hd. rewrite Hm in Hd.
    assert (Hq : teid / 65536 < 65536) by (apply N.div_lt_upper_bound; lia).
    pose proof (be16_rd16 (teid / 65536) Hq) as Hb. rewrite N.div_div in Hb by lia. change (65536 * 256) with 16777216 in Hb. lia.
  - change (256 ^ (4 - 3)) with 256 in Hm.
    pose proof (N.div_mod teid 256 ltac:(lia)) as Hd. rewrite Hm in Hd.
    assert (Hq : teid / 256 < 16777216) by (apply N.div_lt_upper_bound; lia).
    pose proof (be24_rd24 (teid / 256) Hq) as Hb. rewrite !N.div_div in Hb by lia.
    change (256 * 65536) with 16777216 in Hb. change (256 * 256) with 65536 in Hb. lia.
  - pose proof (be32_rd32 teid Ht). lia.
Qed.

Lemma mup_prefix_sig pl a : (pl + 7) / 8 <= blen a -> mup_prefix pl a = sig_octets pl a /\ blen (sig_octets pl a) = (pl + 7) / 8.
Proof.
  intros Hle. unfold mup_prefix, sig_octets. change (len a) with (blen a).
  rewrite N.min_l by exact Hle. split; [reflexivity | apply sig_octets_blen; exact Hle].
Qed.

Ltac blen_norm := repeat (rewrite blen_app || rewrite blen_cons); change (blen (@nil N)) with 0.

Ltac mup_frame body Hlen :=
  unfold read_mup, be16; cbn [app]; change (len body) with (blen body);
  rewrite (trunc8_small _ Hlen), take_app, be16_rd16 by lia; cbn [N.eqb Pos.eqb].

Lemma read_mup_enc v6 m enc rest :
  enc_mup m = Ok enc -> mup_wf v6 m ->
  read_mup v6 (enc ++ rest) = Some (canon_struct (NMup m), rest).
Proof.
  intros He Hwf. unfold enc_mup in He. apply bind_ok in He as [[ty body] [Hb He]]. cbn [fst snd] in He.
  apply Ok_inj in He. subst enc. unfold mup_wf in Hwf.
  set (w := if v6 then 16 else 4) in *.
  assert (Hw : w = 4 \/ w = 16) by (subst w; destruct v6; auto).
  destruct m as [rd pl a | rd a | rd pl a teid qfi ep src | rd el ep teid]; cbn [canon_struct].
  - destruct Hwf as [Hrd [Hpl [Ha Haw]]]. apply Ok_inj in Hb. apply pair_equal_spec in Hb as [Hty Hbody]. subst ty.
    destruct (mup_prefix_sig pl a Ha) as [Hp Hps]. rewrite Hp in Hbody.
    assert (Hlen : blen body < 256).
    { subst body. blen_norm. rewrite Hrd, Hps.
      assert ((pl + 7) / 8 < 17) by (apply N.div_lt_upper_bound; lia). lia. }
    mup_frame body Hlen. fold w. subst body.
    ev_fields [rd; [pl]] (sig_octets pl a).
    replace (pl <=? 8 * w) with true by (symmetry; apply N.leb_le; exact Hpl).
    rewrite Hps, N.eqb_refl. reflexivity.
  - destruct Hwf as [Hrd Ha]. apply Ok_inj in Hb. apply pair_equal_spec in Hb as [Hty Hbody]. subst ty.
    assert (Hlen : blen body < 256) by (subst body; blen_norm; rewrite Hrd, Ha; lia).
    mup_frame body Hlen. fold w. subst body.
    rewrite (takes_fields _ [rd; a] (@nil N)); [reflexivity | cbn [map]; rewrite Hrd, Ha; reflexivity | cbn [concat]; rewrite ?app_nil_r; reflexivity].
  - destruct Hwf as [Hrd [Hpl [Ha [Haw [Ht [Hep Hsrc]]]]]]. apply Ok_inj in Hb. apply pair_equal_spec in Hb as [Hty Hbody]. subst ty.
    destruct (mup_prefix_sig pl a Ha) as [Hp Hps]. rewrite Hp in Hbody.
    set (tail := match src with None => [0] | Some s => [8 * len s] ++ s end) in *.
    assert (Htl : blen tail <= 17).
    { subst tail. destruct src as [s|]; [rewrite blen_app, Hsrc; change (blen [8 * len s]) with 1; lia | cbn; lia]. }
    assert (Hlen : blen body < 256).
    { subst body. unfold be32. blen_norm. rewrite Hrd, Hps, Hep.
      assert ((pl + 7) / 8 < 17) by (apply N.div_lt_upper_bound; lia). lia. }
    mup_frame body Hlen. fold w. subst body.
    ev_fields [rd; [pl]] (sig_octets pl a ++ be32 teid ++ [qfi] ++ [8 * len ep] ++ ep ++ tail).
    replace (pl <=? 8 * w) with true by (symmetry; apply N.leb_le; exact Hpl).
    rewrite (takes_fields _ [sig_octets pl a; be32 teid; [qfi]; [8 * len ep]] (ep ++ tail));
      [| cbn [map]; rewrite Hps; reflexivity | cbn [concat]; rewrite ?app_nil_r, <- ?app_assoc; reflexivity].
    change (len ep) with (blen ep). rewrite Hep, N.eqb_refl.
    subst tail. destruct src as [s|].
    + change (len s) with (blen s). rewrite Hsrc.
      rewrite (takes_fields _ [ep; [8 * w]] s); [| cbn [map]; rewrite Hep; reflexivity | cbn [concat]; rewrite ?app_nil_r, <- ?app_assoc; reflexivity].
      replace (8 * w =? 0) with false by (symmetry; apply N.eqb_neq; lia).
      rewrite N.eqb_refl, Hsrc, N.eqb_refl. cbn [andb]. rewrite rdn_be32 by exact Ht. reflexivity.
    + rewrite (takes_fields _ [ep; [0]] (@nil N)); [| cbn [map]; rewrite Hep; reflexivity | cbn [concat]; rewrite ?app_nil_r, <- ?app_assoc; reflexivity].
      cbn [N.eqb]. rewrite rdn_be32 by exact Ht. reflexivity.
  - destruct Hwf as [Hrd [Hep [Hlo [Hhi [Ht Hz]]]]]. change (len ep) with (blen ep) in Hb. rewrite Hep in Hb.
    set (tb := (el - 8 * w + 7) / 8) in *.
    assert (Htb : tb <= 4).
    { subst tb. assert ((el - 8 * w + 7) / 8 < 5) by (apply N.div_lt_upper_bound; lia). lia. }
    replace (tb <=? 4) with true in Hb by (symmetry; apply N.leb_le; exact Htb).
    apply Ok_inj in Hb. apply pair_equal_spec in Hb as [Hty Hbody]. subst ty.
    set (tbytes := firstn (N.to_nat tb) (be32 teid)) in *.
    assert (Hl : length tbytes = N.to_nat tb) by (subst tbytes; rewrite firstn_length; cbn [be32 length]; lia).
    assert (Hbl : blen tbytes = tb) by (unfold blen; rewrite Hl; lia).
    assert (Hlen : blen body < 256).
    { subst body. blen_norm. rewrite Hrd, Hep, Hbl. lia. }
    mup_frame body Hlen. fold w. subst body.
    ev_fields [rd; [el]] (ep ++ tbytes).
    replace ((8 * w <=? el) && (el <=? 8 * w + 32)) with true
      by (symmetry; apply andb_true_intro; split; apply N.leb_le; assumption).
    rewrite (takes_fields _ [ep] tbytes); [| cbn [map]; rewrite Hep; reflexivity | cbn [concat]; rewrite ?app_nil_r; reflexivity].
    fold tb. rewrite Hbl, N.eqb_refl. rewrite Hl. subst tbytes.
    rewrite teid_prefix_read; [reflexivity | exact Ht | lia |]. rewrite Nnat.N2Nat.id. exact Hz.
Qed.

(* ------------------------------------------------------------------ BGP-LS *)
Lemma read_tlv16s_nil fuel : read_tlv16s fuel [] = Some [].
Proof. destruct fuel; reflexivity. Qed.

Lemma enc_tlv16_small t : fst t < 65536 -> blen (snd t) < 65536 ->
  enc_tlv16 t = [fst t / 256; fst t mod 256; blen (snd t) / 256; blen (snd t) mod 256] ++ snd t.
Proof.
  intros Ht Hv. unfold enc_tlv16. change (len (snd t)) with (blen (snd t)). rewrite trunc16_small by exact Hv.
  rewrite !be16_small_parts by assumption. reflexivity.
Qed.

Lemma read_tlv16s_concat ts : forall fuel,
  Forall (fun t => fst t < 65536 /\ blen (snd t) < 65536) ts ->
  (length (flat_map enc_tlv16 ts) <= fuel)%nat ->
  read_tlv16s fuel (flat_map enc_tlv16 ts) = Some ts.
Proof.
  induction ts as [|[t v] ts IH]; intros fuel Hok Hfuel; cbn [flat_map].
  - apply read_tlv16s_nil.
  - inversion Hok as [|? ? [Ht Hv] Hts]; subst. cbn [fst snd] in *.
    cbn [flat_map] in Hfuel. rewrite (enc_tlv16_small (t, v) Ht Hv) in *. cbn [fst snd app] in *.
    destruct fuel as [|k]; [cbn in Hfuel; lia|].
    cbn [read_tlv16s].
    replace (blen v / 256 * 256 + blen v mod 256) with (blen v) by (rewrite N.mul_comm; apply N.div_mod; lia).
    rewrite take_app. rewrite IH; [| assumption | cbn [length] in Hfuel; rewrite app_length in Hfuel; lia].
    replace (t / 256 * 256 + t mod 256) with t by (rewrite N.mul_comm; apply N.div_mod; lia). reflexivity.
Qed.

Lemma flat_map_tlv_bound (ts : list (N * list N)) n :
  blen (flat_map enc_tlv16 ts) <= n -> Forall (fun t => blen (snd t) <= n) ts.
Proof.
  induction ts as [|t ts IH]; intros H; [constructor|]. cbn [flat_map] in H. rewrite blen_app in H.
  unfold enc_tlv16 in H at 1. rewrite !blen_app in H. constructor; [lia | apply IH; lia].
Qed.

Lemma tlvs_ok ts n : tlv_types_ok ts -> blen (flat_map enc_tlv16 ts) <= n -> n < 65536 ->
  Forall (fun t => fst t < 65536 /\ blen (snd t) < 65536) ts.
Proof.
  intros Ht Hb Hn. pose proof (flat_map_tlv_bound ts n Hb) as Hv. unfold tlv_types_ok in Ht.
  rewrite Forall_forall in *. intros t Hin. split; [apply Ht; exact Hin | specialize (Hv t Hin); lia].
Qed.

Lemma read_container c l rest :
  c < 65536 -> tlv_types_ok l -> blen (flat_map enc_tlv16 l) < 65536 ->
  enc_tlv16 (c, flat_map enc_tlv16 l) ++ rest =
    [c / 256; c mod 256; blen (flat_map enc_tlv16 l) / 256; blen (flat_map enc_tlv16 l) mod 256] ++ flat_map enc_tlv16 l ++ rest /\
  read_tlv16s (length (flat_map enc_tlv16 l)) (flat_map enc_tlv16 l) = Some l.
Proof.
  intros Hc Ht Hb. split.
  - rewrite (enc_tlv16_small (c, flat_map enc_tlv16 l)); cbn [fst snd]; [rewrite <- app_assoc; reflexivity | exact Hc | exact Hb].
  - apply read_tlv16s_concat; [eapply tlvs_ok; [exact Ht | apply N.le_refl | exact Hb] | lia].
Qed.

Lemma container_ge c l : blen (flat_map enc_tlv16 l) <= blen (ls_container c l).
Proof.
  unfold ls_container. generalize (flat_map enc_tlv16 l) as v. intros v.
  unfold enc_tlv16. cbn [fst snd]. rewrite !blen_app. lia.
Qed.

Lemma ls_frame ty body rest :
  ty < 65536 -> blen body < 65536 ->
  (be16 ty ++ be16 (trunc16 (len body)) ++ body) ++ rest =
  ty / 256 :: ty mod 256 :: blen body / 256 :: blen body mod 256 :: body ++ rest.
Proof.
  intros Ht Hb. change (len body) with (blen body). rewrite trunc16_small by exact Hb.
  rewrite !be16_small_parts by assumption. cbn [app]. reflexivity.
Qed.

Lemma rd16_parts n : n / 256 * 256 + n mod 256 = n.
Proof. rewrite N.mul_comm. symmetry. apply N.div_mod. lia. Qed.

Lemma read_sids_enc s :
  Forall (fun x => fst x < 65536 /\ blen (snd x) = 16) s ->
  read_sids (map (fun x => (518, be16 (fst x) ++ [0; 0] ++ snd x)) s) = Some s.
Proof.
  induction s as [|[mt sid] s IH]; intros H; [reflexivity|]. inversion H as [|? ? [Hm Hs] Hr]; subst. cbn [fst snd] in *.
  cbn [map read_sids fst snd N.eqb Pos.eqb].
  rewrite (takes_fields [2; 2; 16] [be16 mt; [0; 0]; sid] (@nil N));
    [| cbn [map]; rewrite Hs; reflexivity | cbn [concat]; rewrite ?app_nil_r, <- ?app_assoc; reflexivity].
  rewrite IH by exact Hr. rewrite rdn_be16 by exact Hm. reflexivity.
Qed.

Lemma flat_map_map {A} (g : A -> N * list N) (l : list A) :
  flat_map (fun x => enc_tlv16 (g x)) l = flat_map enc_tlv16 (map g l).
Proof. induction l as [|x l IH]; [reflexivity|]. cbn [flat_map map]. rewrite IH. reflexivity. Qed.

Lemma read_ls_enc n rest : ls_wf n -> read_ls (enc_ls n ++ rest) = Some (NLs n, rest).
Proof.
  intros [Hsz Hwf].
  (* a descriptor NLRI: type [ty], protocol [p], identifier [i], local descriptors [l], then the TLV list [tl] *)
  assert (Hdesc : forall ty p i l tl (K : N -> N -> list (N * list N) -> list (N * list N) -> option (nlri * list N)),
            ty < 65536 -> ls_known ty = true -> p < 256 -> i < 18446744073709551616 -> tlv_types_ok l -> tlv_types_ok tl ->
            blen (p :: be64 i ++ ls_container 256 l ++ flat_map enc_tlv16 tl) < 65536 ->
            (forall d, d = ls_container 256 l ++ flat_map enc_tlv16 tl ->
               match read_tlv16s (length d) d with
               | Some ((256, lv) :: tl') =>
                   match read_tlv16s (length lv) lv with Some local => K p i local tl' | None => None end
               | _ => None end = K p i l tl) /\ True).
  { intros ty p i l tl K Hty Hk Hp Hi Hl Htl Hb. split; [|exact I]. intros d ->.
    assert (Hd : blen (ls_container 256 l ++ flat_map enc_tlv16 tl) < 65536).
    { rewrite blen_cons, blen_app in Hb. lia. }
    assert (Hc : blen (flat_map enc_tlv16 l) < 65536).
    { rewrite blen_app in Hd. unfold ls_container in Hd. unfold enc_tlv16 at 1 in Hd. cbn [fst snd] in Hd. rewrite !blen_app in Hd. lia. }
    change (ls_container 256 l ++ flat_map enc_tlv16 tl) with (flat_map enc_tlv16 ((256, flat_map enc_tlv16 l) :: tl)).
    rewrite read_tlv16s_concat; [| | lia].
    - rewrite read_tlv16s_concat; [reflexivity | eapply tlvs_ok; [exact Hl | apply N.le_refl | exact Hc] | lia].
    - eapply (tlvs_ok _ (blen (flat_map enc_tlv16 ((256, flat_map enc_tlv16 l) :: tl)))); [| apply N.le_refl | exact Hd].
      constructor; [cbn; lia | exact Htl]. }
  unfold enc_ls in *.
  destruct n as [p i l | p i l r k | v6 p i l k | p i l s | ty b].
  - destruct Hwf as [Hp [Hi Hl]].
    set (body := p :: be64 i ++ ls_container 256 l) in *.
    assert (Hb : blen body < 65536) by (rewrite !blen_app in Hsz; change (blen (be16 1)) with 2 in Hsz; change (blen (be16 (trunc16 (len body)))) with 2 in Hsz; lia).
    rewrite ls_frame by (lia || exact Hb). unfold read_ls. rewrite !rd16_parts, take_app.
    change (ls_known 1) with true. replace (9 <=? blen body) with true
      by (symmetry; apply N.leb_le; subst body; rewrite blen_cons, blen_app; change (blen (be64 i)) with 8; lia).
    cbn [andb]. subst body. cbv beta iota. rewrite (take_app' 8 (be64 i)) by reflexivity. rewrite rdn_be64 by exact Hi.
    destruct (Hdesc 1 p i l [] (fun p i local tl' => if 1 =? 1 then match tl' with [] => Some (NLs (LsNode p i local), rest) | _ => None end else None)
                ltac:(lia) eq_refl Hp Hi Hl ltac:(constructor) ltac:(cbn [flat_map]; rewrite app_nil_r; exact Hb)) as [Hd _].
    specialize (Hd (ls_container 256 l) ltac:(cbn [flat_map]; rewrite app_nil_r; reflexivity)).
    cbn [N.eqb Pos.eqb] in Hd |- *. exact Hd.
  - destruct Hwf as [Hp [Hi [Hl [Hr Hk]]]].
    set (body := p :: be64 i ++ ls_container 256 l ++ ls_container 257 r ++ flat_map enc_tlv16 k) in *.
    assert (Hb : blen body < 65536) by (rewrite !blen_app in Hsz; change (blen (be16 2)) with 2 in Hsz; change (blen (be16 (trunc16 (len body)))) with 2 in Hsz; lia).
    assert (Hrc : blen (flat_map enc_tlv16 r) < 65536).
    { assert (Hbb : blen body = 9 + blen (ls_container 256 l) + blen (ls_container 257 r) + blen (flat_map enc_tlv16 k))
        by (unfold body; rewrite blen_cons, !blen_app; change (blen (be64 i)) with 8; lia).
      pose proof (container_ge 257 r) as Hcc.
      lia. }
    rewrite ls_frame by (lia || exact Hb). unfold read_ls. rewrite !rd16_parts, take_app.
    change (ls_known 2) with true. replace (9 <=? blen body) with true
      by (symmetry; apply N.leb_le; subst body; rewrite blen_cons, blen_app; change (blen (be64 i)) with 8; lia).
    cbn [andb]. subst body. cbv beta iota. rewrite (take_app' 8 (be64 i)) by reflexivity. rewrite rdn_be64 by exact Hi.
    destruct (Hdesc 2 p i l ((257, flat_map enc_tlv16 r) :: k)
                (fun p i local tl' => match tl' with
                   | (257, rv) :: k' => match read_tlv16s (length rv) rv with Some remote => Some (NLs (LsLink p i local remote k'), rest) | None => None end
                   | _ => None end)
                ltac:(lia) eq_refl Hp Hi Hl ltac:(constructor; [cbn; lia | exact Hk]) Hb) as [Hd _].
    specialize (Hd _ eq_refl). cbn [N.eqb Pos.eqb]. cbn [flat_map] in Hd. fold (ls_container 257 r) in Hd.
    rewrite Hd. rewrite read_tlv16s_concat; [reflexivity | eapply tlvs_ok; [exact Hr | apply N.le_refl | exact Hrc] | lia].
  - destruct Hwf as [Hp [Hi [Hl Hk]]].
    set (ty := if v6 then 4 else 3) in *.
    assert (Hty : ty = 3 \/ ty = 4) by (subst ty; destruct v6; auto).
    set (body := p :: be64 i ++ ls_container 256 l ++ flat_map enc_tlv16 k) in *.
    assert (Hb : blen body < 65536).
    { rewrite !blen_app in Hsz. change (blen (be16 ty)) with 2 in Hsz. change (blen (be16 (trunc16 (len body)))) with 2 in Hsz. lia. }
    rewrite ls_frame by (lia || exact Hb). unfold read_ls. rewrite !rd16_parts, take_app.
    replace (ls_known ty) with true by (destruct Hty as [-> | ->]; reflexivity).
    replace (9 <=? blen body) with true
      by (symmetry; apply N.leb_le; subst body; rewrite blen_cons, blen_app; change (blen (be64 i)) with 8; lia).
    cbn [andb]. subst body. cbv beta iota. rewrite (take_app' 8 (be64 i)) by reflexivity. rewrite rdn_be64 by exact Hi.
    destruct (Hdesc ty p i l k (fun p i local tl' => Some (NLs (LsPfx v6 p i local tl'), rest))
                ltac:(lia) ltac:(destruct Hty as [-> | ->]; reflexivity) Hp Hi Hl Hk Hb) as [Hd _].
    specialize (Hd _ eq_refl).
    replace (ty =? 1) with false by (destruct Hty as [-> | ->]; reflexivity).
    replace (ty =? 2) with false by (destruct Hty as [-> | ->]; reflexivity).
    replace (ty =? 6) with false by (destruct Hty as [-> | ->]; reflexivity).
    replace (ty =? 4) with v6 by (subst ty; destruct v6; reflexivity).
    exact Hd.
  - destruct Hwf as [Hp [Hi [Hl Hs]]].
    rewrite (flat_map_map (fun x => (518, be16 (fst x) ++ [0; 0] ++ snd x)) s) in *.
    set (tl := map (fun x : N * list N => (518, be16 (fst x) ++ [0; 0] ++ snd x)) s) in *.
    set (body := p :: be64 i ++ ls_container 256 l ++ flat_map enc_tlv16 tl) in *.
    assert (Hb : blen body < 65536).
    { rewrite !blen_app in Hsz. change (blen (be16 6)) with 2 in Hsz. change (blen (be16 (trunc16 (len body)))) with 2 in Hsz. lia. }
    rewrite ls_frame by (lia || exact Hb). unfold read_ls. rewrite !rd16_parts, take_app.
    change (ls_known 6) with true. replace (9 <=? blen body) with true
      by (symmetry; apply N.leb_le; subst body; rewrite blen_cons, blen_app; change (blen (be64 i)) with 8; lia).
    cbn [andb]. subst body. cbv beta iota. rewrite (take_app' 8 (be64 i)) by reflexivity. rewrite rdn_be64 by exact Hi.
    assert (Htl : tlv_types_ok tl).
    { subst tl. unfold tlv_types_ok. apply Forall_forall. intros t Hin. apply in_map_iff in Hin as [x [<- _]]. cbn. lia. }
    destruct (Hdesc 6 p i l tl (fun p i local tl' => match read_sids tl' with Some s' => Some (NLs (LsSrv6 p i local s'), rest) | None => None end)
                ltac:(lia) eq_refl Hp Hi Hl Htl Hb) as [Hd _].
    specialize (Hd _ eq_refl). cbn [N.eqb Pos.eqb]. rewrite Hd. subst tl. rewrite read_sids_enc by exact Hs. reflexivity.
  - destruct Hwf as [Hty Hun].
    assert (Hb : blen b < 65536).
    { rewrite !blen_app in Hsz. change (blen (be16 ty)) with 2 in Hsz. change (blen (be16 (trunc16 (len b)))) with 2 in Hsz. lia. }
    rewrite ls_frame by assumption. unfold read_ls. rewrite !rd16_parts, take_app, Hun. reflexivity.
Qed.

(* ------------------------------------------------------------------ one entry, any structured kind *)
Lemma read_struct_enc p k n (wd : bool) (nb rest : list N) pid :
  structured k (pid, n) ->
  (if wd then enc_nlri_withdraw p n else enc_nlri p n) = Ok nb ->
  read_struct k (nb ++ rest) = Some (canon_struct n, rest) /\ (1 <= length nb)%nat.
Proof.
  intros [_ Hs] He. cbn [snd] in Hs.
  assert (He' : enc_nlri p n = Ok nb).
  { destruct wd; [|exact He]. destruct n; try exact He; destruct k; contradiction. }
  clear He.
  destruct k as [v6 vpn | | | | v6m | ]; destruct n; try contradiction; cbn [read_struct].
  - destruct Hs as [-> [Hrd [Hwf Hsz]]].
    split; [eapply read_flow_enc; eassumption|].
    cbn [enc_nlri] in He'. apply bind_ok in He' as [body [_ He']]. apply Ok_inj in He'. subst nb.
    unfold fs_len. destruct (_ <? 240); cbn [app length]; lia.
  - cbn [enc_nlri] in He'. apply Ok_inj in He'. subst nb.
    split; [apply read_rtc_enc; destruct r; exact Hs | destruct r; cbn; lia].
  - cbn [enc_nlri] in He'. apply Ok_inj in He'. subst nb.
    split; [apply read_evpn_enc; exact Hs | unfold enc_evpn; destruct e; cbn [app length]; lia].
  - cbn [enc_nlri] in He'. apply Ok_inj in He'. subst nb. destruct Hs as [Hd [Hc Hep]].
    split; [apply read_srp_enc; assumption | cbn [app length]; lia].
  - cbn [enc_nlri] in He'. split; [eapply read_mup_enc; eassumption|].
    unfold enc_mup in He'. apply bind_ok in He' as [r [_ He']]. apply Ok_inj in He'. subst nb. cbn [app length]. lia.
  - cbn [enc_nlri] in He'. apply Ok_inj in He'. subst nb.
    split; [apply read_ls_enc; exact Hs|]. unfold enc_ls.
    match goal with |- context [match ?x with LsNode _ _ _ => _ | _ => _ end] => destruct x end; cbn [be16 app length]; lia.
Qed.

Lemma read_items_nil k fuel ap : read_items k fuel ap [] = Some [].
Proof. destruct fuel; reflexivity. Qed.

Lemma read_items_all p k ap wd es : forall bs fuel,
  Forall (structured k) es ->
  Forall2 (fun e b => enc_pnlri p ap wd e = Ok b) es bs ->
  (length (concat bs) <= fuel)%nat ->
  read_items k fuel ap (concat bs) = Some (map (canon_item ap) es).
Proof.
  induction es as [|[pid n] es IH]; intros bs fuel Hs HF Hfuel; inversion HF as [|? b ? bs' He Hes]; subst.
  - apply read_items_nil.
  - inversion Hs as [|? ? Hse Hses]; subst. cbn [concat map] in *.
    unfold enc_pnlri in He. cbn [fst snd] in He. apply bind_ok in He as [nb [Hnb He]]. apply Ok_inj in He. subst b.
    destruct (read_struct_enc p k n wd nb (concat bs') pid Hse Hnb) as [Hread Hlen].
    rewrite app_length in Hfuel.
    destruct fuel as [|f]; [destruct ap; rewrite app_length in Hfuel; cbn in Hfuel; lia|].
    assert (Hpid : pid < 4294967296) by (destruct Hse as [H _]; exact H).
    assert (Hrest : (length (concat bs') <= f)%nat) by (rewrite app_length in Hfuel; lia).
    unfold canon_item at 1. cbn [fst snd].
    destruct ap.
    + unfold be32. cbn [app read_items]. rewrite be32_rd32 by exact Hpid.
      rewrite Hread. rewrite (IH _ _ Hses Hes Hrest). reflexivity.
    + cbn [app]. destruct (nb ++ concat bs') as [|x l] eqn:E.
      * destruct nb; [cbn in Hlen; lia | discriminate].
      * cbn [read_items]. rewrite Hread. rewrite (IH _ _ Hses Hes Hrest). reflexivity.
Qed.

(* ------------------------------------------------------------------ C04: the structured families *)
Theorem C04_decode_encode_routes_structured :
  forall (p : profile) (c : codec) (f : N) (k : skind) (nh : option (list N)) (attrs : list attr)
         (es : list pnlri) (frames : list (list N)),
    encode_to p c (MReach f nh attrs es) = Ok frames ->
    Forall attr_wf attrs -> code_not 3 attrs -> code_not 14 attrs -> fam_ok f ->
    match nh with Some b => blen b < 248 | None => True end ->
    Forall (structured k) es ->
    exists ws chunks,
      wire_attrs (two_byte c) attrs = Ok ws /\
      concat chunks = es /\
      Forall2 (reach_frame_struct_ok c f k nh ws (es <> [])) frames chunks.
Proof.
  intros p c f k nh attrs es frames H Hwf H3 H14 Hfam Hnh Hst.
  destruct (C04_reach_frames _ _ _ _ _ _ _ H Hwf H3 H14 Hfam Hnh) as [ws [chunks [Hws [Hc HF]]]].
  exists ws, chunks. split; [exact Hws|]. split; [exact Hc|].
  rewrite <- Hc in Hst. apply Forall_concat_inv in Hst.
  eapply Forall2_impl_with; [| exact Hst | exact HF].
  intros fr chunk Hpl [v [Hread [Hfam' [Hat [Hnhv [bs [Hbs Hnl]]]]]]].
  exists v. repeat (split; [assumption|]).
  rewrite Hnl. eapply read_items_all; [exact Hpl | exact Hbs | lia].
Qed.

Theorem C04_split_preserves_multiset_structured :
  forall (p : profile) (c : codec) (f : N) (k : skind) (es : list pnlri) (frames : list (list N)),
    encode_to p c (MUnreach f es) = Ok frames ->
    fam_ok f -> Forall (structured k) es ->
    exists chunks, concat chunks = es /\ Forall2 (unreach_frame_struct_ok c f k) frames chunks.
Proof.
  intros p c f k es frames H Hfam Hst.
  destruct (C04_unreach_frames _ _ _ _ _ H Hfam) as [chunks [Hc HF]].
  exists chunks. split; [exact Hc|].
  rewrite <- Hc in Hst. apply Forall_concat_inv in Hst.
  eapply Forall2_impl_with; [| exact Hst | exact HF].
  intros fr chunk Hpl [wd [Hread [bs [Hbs Hwd]]]].
  exists wd. split; [exact Hread|].
  rewrite Hwd. eapply read_items_all; [exact Hpl | exact Hbs | lia].
Qed.

(* ------------------------------------------------------------------ non-vacuity *)
Definition ex_rd : list N := [0; 0; 253; 232; 0; 0; 0; 100].
Definition ex_fs : pnlri :=
  (7, NFlow true (Some ex_rd) [FPrefix 1 64 0 ([32; 1; 13; 184] ++ repeat 0 12); FOps 3 [(129, 6)];
                                  FOps 5 [(3, 80); (69, 65536); (129, 18446744073709551615)]]).
Definition ex_ev2 : pnlri := (1, NEvpn (Ev2 ex_rd (repeat 9 10) 5 [2; 0; 0; 0; 0; 1] [10; 0; 0; 1] 100 (Some 200))).
Definition ex_ev5 : pnlri := (2, NEvpn (Ev5 ex_rd (repeat 0 10) 0 64 (pat_bytes 16 1) (pat_bytes 16 2) 16777215)).
Definition ex_rtc : pnlri := (3, NRtc (RtcExact 65001 [0; 2; 253; 232; 0; 0; 0; 1])).
Definition ex_srp : pnlri := (4, NSrp 1 100 [192; 0; 2; 1]).
Definition ex_mup3 : pnlri := (5, NMup (Mup3 ex_rd 24 [10; 1; 2; 0] 4096 9 [192; 0; 2; 1] (Some [198; 51; 100; 7]))).
Definition ex_mup4 : pnlri := (6, NMup (Mup4 ex_rd 48 [192; 0; 2; 1] 16908288)).

Ltac num_goal :=
  first [ reflexivity | exact I | discriminate | (intros Hx; discriminate Hx)
        | (left; reflexivity) | (right; left; reflexivity) | (right; right; reflexivity) | (right; reflexivity) ].

Example ex_structured :
  structured (SFlow true true) ex_fs /\ structured SEvpn ex_ev2 /\ structured SEvpn ex_ev5 /\
  structured SRtc ex_rtc /\ structured SSrp ex_srp /\ structured (SMup false) ex_mup3 /\ structured (SMup false) ex_mup4.
Proof.
  split.
  { split; [reflexivity|]. cbn [snd ex_fs structured]. split; [reflexivity|]. split; [split; reflexivity|]. split.
    - constructor; [vm_compute; repeat split; num_goal|].
      constructor; [vm_compute; repeat split; num_goal|].
      constructor; [vm_compute; repeat split; num_goal | constructor].
    - vm_compute. reflexivity. }
  split; [split; [reflexivity | vm_compute; repeat split; num_goal]|].
  split; [split; [reflexivity | vm_compute; repeat split; num_goal]|].
  split; [split; [reflexivity | vm_compute; repeat split; num_goal]|].
  split; [split; [reflexivity | vm_compute; repeat split; num_goal]|].
  split; [split; [reflexivity | vm_compute; repeat split; num_goal]|].
  split; [reflexivity | vm_compute; repeat split; num_goal].
Qed.

Example ex_structured_frames :
  exists frames, encode_to Debug (negotiate [CMultiProtocol F_EVPN] [CMultiProtocol F_EVPN])
                   (MUnreach F_EVPN (bulk 9 400 7)) = Ok frames /\ (2 <= length frames)%nat.
Proof. eexists. split; [vm_compute; reflexivity | cbn; lia]. Qed.

Example ex_fs_len_switch :
  fs_len 239 = [239] /\ fs_len 240 = [240; 240] /\ fs_len 4095 = [255; 255] /\
  read_fs_len (fs_len 240 ++ [1]) = Some (240, [1]).
Proof. vm_compute. repeat split; reflexivity. Qed.
