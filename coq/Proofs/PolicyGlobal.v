(* Reference integrity at the level of the daemon's Global (property C14, last
   sentence): per-peer export-policy overrides are users too.  The invariant

     the table's reference invariant holds, and every policy held by a peer's
     override IS the table's entry of that name

   holds of the empty Global and is preserved by every modelled call --
   Global::{add_peer, add_policy, delete_policy, add_policy_assignment,
   delete_policy_assignment} and the table calls grpc.rs makes directly --
   hence along every history; and what a surviving override references is
   neither deleted nor changed by a call. *)
From Coq Require Import List NArith ZArith Bool Lia.
From RB Require Import Base.Val Model.Policy Model.PolicyTable Model.PolicyGlobal Proofs.PolicyTable.
Import ListNotations.
Open Scope N_scope.

Definition peers_ok (g : global) : Prop :=
  forall p a, In (p, Some a) (g_peers g) -> asg_ok (t_pols (g_table g)) (Some a).

Definition grefs_ok (g : global) : Prop := refs_ok (g_table g) /\ peers_ok g.

(* ------------------------------------------------------------------ *)
(* calls that do not touch the policy map                               *)

Lemma add_defined_set_pols t n c t' code :
  add_defined_set t n c = Ok (t', code) -> t_pols t' = t_pols t.
Proof.
  unfold add_defined_set. intros H.
  destruct (negb (cfg_parses c)); [inversion H; reflexivity|].
  destruct (lookup_set (cfg_kind c) n (t_sets t)).
  - destruct (set_in_use t (cfg_kind c) n); [inversion H; reflexivity|].
    destruct (build_set _ c) as [[sv|e]|tag]; cbn [bind] in H; inversion H; reflexivity.
  - destruct (build_set None c) as [[sv|e]|tag]; cbn [bind] in H; inversion H; reflexivity.
Qed.

Definition policy_op (o : op) : bool :=
  match o with OAddPol _ _ | ODelPol _ _ _ _ => true | _ => false end.

Lemma crud_step_pols t o t' code :
  policy_op o = false -> crud_step t o = Ok (t', code) -> t_pols t' = t_pols t.
Proof.
  intros Hp H. destruct o; cbn [policy_op] in Hp; try discriminate; cbn [crud_step lift] in H.
  - destruct replace.
    + unfold replace_defined_set in H. destruct (set_in_use t (cfg_kind c) name); [inversion H; reflexivity|].
      apply add_defined_set_pols in H. exact H.
    + apply add_defined_set_pols in H. exact H.
  - inversion H as [E]. unfold delete_defined_set in E.
    repeat match type of E with context [match ?x with _ => _ end] => destruct x end; inversion E; reflexivity.
  - inversion H as [E]. unfold add_statement in E.
    repeat match type of E with context [match ?x with _ => _ end] => destruct x end; inversion E; reflexivity.
  - inversion H as [E]. unfold delete_statement in E.
    repeat match type of E with context [match ?x with _ => _ end] => destruct x end; inversion E; reflexivity.
  - inversion H as [E]. unfold add_assignment in E.
    destruct (build_assignment t _ import d names); inversion E; [|reflexivity].
    unfold with_asg. destruct import; reflexivity.
  - inversion H as [E]. unfold delete_assignment in E. destruct all.
    + inversion E. unfold with_asg. destruct import; reflexivity.
    + destruct (slot t import); inversion E; [|reflexivity]. unfold with_asg. destruct import; reflexivity.
  - inversion H; reflexivity.
  - inversion H; reflexivity.
  - inversion H; reflexivity.
  - inversion H; reflexivity.
Qed.

(* ------------------------------------------------------------------ *)
(* policy calls keep an assignment that does not list the policy intact  *)

Lemma add_policy_asg t n ss t' code a :
  add_policy t n ss = (t', code) -> asg_has a n = false ->
  asg_ok (t_pols t) a -> asg_ok (t_pols t') a.
Proof.
  intros H Hu Hok. unfold add_policy in H.
  destruct (resolve_stmts t ss); [|inversion H; subst; exact Hok].
  destruct (lookup_pol n (t_pols t)).
  - destruct (pol_in_use t n); inversion H; subst; [exact Hok|].
    cbn [with_pols t_pols]. apply asg_ok_put; assumption.
  - inversion H; subst. cbn [with_pols t_pols]. apply asg_ok_put; assumption.
Qed.

Lemma delete_policy_asg t n pr all ss t' code a :
  delete_policy t n pr all ss = (t', code) -> asg_has a n = false ->
  asg_ok (t_pols t) a -> asg_ok (t_pols t') a.
Proof.
  intros H Hu Hok. unfold delete_policy in H.
  destruct (pol_in_use t n); [inversion H; subst; exact Hok|].
  destruct (lookup_pol n (t_pols t)) as [old|] eqn:L; [|inversion H; subst; exact Hok].
  pose proof (lookup_pol_name _ _ _ L) as [En _].
  destruct all; inversion H; subst; cbn [with_pols_stmts t_pols].
  - apply asg_ok_remove; assumption.
  - apply asg_ok_put; [exact Hok|]. cbn [p_name]. exact Hu.
Qed.

Lemma peers_ref_false g n p a :
  peers_ref g n = false -> In (p, Some a) (g_peers g) -> asg_has (Some a) n = false.
Proof.
  unfold peers_ref. intros H Hin. destruct (asg_has (Some a) n) eqn:E; [|reflexivity]. exfalso.
  rewrite <- not_true_iff_false in H. apply H. apply existsb_exists. exists (p, Some a). auto.
Qed.

Lemma in_set_peer p a q x l :
  In (p, Some a) (set_peer q x l) -> (p = q /\ x = Some a) \/ In (p, Some a) l.
Proof.
  unfold set_peer. intros H. apply in_map_iff in H. destruct H as ([p0 a0] & E & Hin). cbn [fst] in E.
  destruct (p0 =? q) eqn:B.
  - inversion E; subst. left. auto.
  - inversion E; subst. right. exact Hin.
Qed.

Lemma find_peer_in p l x : find_peer p l = Some x -> In (p, x) l.
Proof.
  unfold find_peer. destruct (find (fun e => fst e =? p) l) as [[p0 a0]|] eqn:F; [|discriminate].
  intros H. inversion H; subst. apply find_some in F. destruct F as [Hin E]. cbn [fst] in E.
  apply N.eqb_eq in E. subst. exact Hin.
Qed.

(* ------------------------------------------------------------------ *)
(* every call                                                           *)

Theorem gstep_preserves g o g' code :
  grefs_ok g -> gstep g o = Ok (g', code) -> grefs_ok g'.
Proof.
  intros [Hr Hp] H.
  assert (Hgen : forall o', policy_op o' = false ->
                 on_table g (crud_step (g_table g) o') = Ok (g', code) -> grefs_ok g').
  { intros o' Hpo H'. unfold on_table in H'.
    destruct (crud_step (g_table g) o') as [[t c]|tag] eqn:E; [|discriminate]. inversion H'; subst. split.
    - apply (crud_step_preserves _ _ _ _ Hr E).
    - intros p a Hin. cbn [with_table g_peers g_table] in *. rewrite (crud_step_pols _ _ _ _ Hpo E).
      apply (Hp p a Hin). }
  destruct o as [o'|p exp|p im d names|p im names all|p r| | |r|nl asn].
  - destruct o' as [rp nm c|al nm c|nm cs d0 a0|nm al cs d0 a0|nm ss|nm pr al ss|st im0 d0 ns|im0 ns al|im0 ro| | |nl asn];
      cbn [gstep] in H;
      try (match type of H with on_table g (crud_step _ ?ox) = _ => apply (Hgen ox eq_refl H) end).
    + (* add_policy *)
      destruct (peers_ref g nm) eqn:U; [inversion H; subst; split; assumption|].
      unfold on_table in H. cbn [crud_step lift] in H.
      destruct (add_policy (g_table g) nm ss) as [t c] eqn:E. inversion H; subst. split.
      * cbn [with_table g_table]. apply (add_policy_ok _ _ _ _ _ Hr E).
      * intros p a Hin. cbn [with_table g_peers g_table] in *.
        apply (add_policy_asg _ _ _ _ _ _ E (peers_ref_false g nm p a U Hin) (Hp p a Hin)).
    + (* delete_policy *)
      destruct (peers_ref g nm) eqn:U; [inversion H; subst; split; assumption|].
      unfold on_table in H. cbn [crud_step lift] in H.
      destruct (delete_policy (g_table g) nm pr al ss) as [t c] eqn:E. inversion H; subst. split.
      * cbn [with_table g_table]. apply (delete_policy_ok _ _ _ _ _ _ _ Hr E).
      * intros p a Hin. cbn [with_table g_peers g_table] in *.
        apply (delete_policy_asg _ _ _ _ _ _ _ _ E (peers_ref_false g nm p a U Hin) (Hp p a Hin)).
    + (* add / set global assignment *)
      destruct st; match type of H with on_table g (crud_step _ ?ox) = _ => apply (Hgen ox eq_refl H) end.
  - (* add_peer *)
    cbn [gstep] in H.
    destruct (find_peer p (g_peers g)); [inversion H; subst; split; assumption|].
    destruct exp as [[d names]|].
    + destruct (build_assignment (g_table g) None false d names) as [a|] eqn:B;
        inversion H; subst; [|split; assumption]. split; [exact Hr|].
      intros q a' Hin. cbn [with_peers g_peers g_table] in *. apply in_app_iff in Hin.
      destruct Hin as [Hin|[E|[]]]; [apply (Hp q a' Hin)|]. inversion E; subst.
      apply (build_assignment_ok _ None false d names a' (asg_ok_none _) B).
    + inversion H; subst. split; [exact Hr|].
      intros q a' Hin. cbn [with_peers g_peers g_table] in *. apply in_app_iff in Hin.
      destruct Hin as [Hin|[E|[]]]; [apply (Hp q a' Hin)|discriminate].
  - (* per-peer add *)
    cbn [gstep] in H.
    destruct im; [inversion H; subst; split; assumption|].
    destruct (find_peer p (g_peers g)) as [existing|] eqn:F; [|inversion H; subst; split; assumption].
    destruct (build_assignment (g_table g) existing false (api_disp d) names) as [a|] eqn:B;
      inversion H; subst; [|split; assumption]. split; [exact Hr|].
    intros q a' Hin. cbn [with_peers g_peers g_table] in *. apply in_set_peer in Hin.
    destruct Hin as [[-> E]|Hin]; [|apply (Hp q a' Hin)]. inversion E; subst.
    apply (build_assignment_ok _ existing false (api_disp d) names a'); [|exact B].
    destruct existing as [old|]; [|apply asg_ok_none]. apply (Hp p old). apply find_peer_in; exact F.
  - (* per-peer delete *)
    cbn [gstep] in H.
    destruct im; [inversion H; subst; split; assumption|].
    destruct (find_peer p (g_peers g)) as [existing|] eqn:F; [|inversion H; subst; split; assumption].
    destruct all.
    + inversion H; subst. split; [exact Hr|].
      intros q a' Hin. cbn [with_peers g_peers g_table] in *. apply in_set_peer in Hin.
      destruct Hin as [[_ E]|Hin]; [discriminate|apply (Hp q a' Hin)].
    + destruct existing as [old|]; inversion H; subst; [|split; assumption]. split; [exact Hr|].
      intros q a' Hin. cbn [with_peers g_peers g_table] in *. apply in_set_peer in Hin.
      destruct Hin as [[-> E]|Hin]; [|apply (Hp q a' Hin)]. inversion E; subst.
      intros x pp Ex Hpp. inversion Ex; subst. cbn [as_pols] in Hpp. apply filter_In in Hpp.
      apply (Hp p old (find_peer_in _ _ _ F) old pp eq_refl (proj1 Hpp)).
  - cbn [gstep] in H. inversion H; subst. split; assumption.
  - cbn [gstep] in H. inversion H; subst. split; assumption.
  - cbn [gstep] in H. inversion H; subst. split; assumption.
  - cbn [gstep] in H. inversion H; subst. split; assumption.
  - cbn [gstep] in H. inversion H; subst. split; assumption.
Qed.

Lemma grefs_ok_empty : grefs_ok empty_global.
Proof. split; [apply refs_ok_empty|]. intros p a []. Qed.

Fixpoint grun_history (g : global) (l : list gop) : global :=
  match l with
  | [] => g
  | o :: r => match gstep g o with
              | Ok (g', _) => grun_history g' r
              | Panic _ => g
              end
  end.

Theorem ghistory_refs_ok l : forall g, grefs_ok g -> grefs_ok (grun_history g l).
Proof.
  induction l as [|o l IH]; intros g Hok; cbn [grun_history]; [exact Hok|].
  destruct (gstep g o) as [[g' c]|tag] eqn:E; [|exact Hok].
  apply IH. apply (gstep_preserves g o g' c Hok E).
Qed.

Lemma C14_global_preserves_references :
  (forall g o g' code, grefs_ok g -> gstep g o = Ok (g', code) -> grefs_ok g') /\
  (forall l, grefs_ok (grun_history empty_global l)).
Proof. split; [exact gstep_preserves|]. intros l. apply ghistory_refs_ok, grefs_ok_empty. Qed.

(* a peer override that survives a call sees exactly the policies it saw *)
Lemma C14_global_referenced_frozen :
  forall g o g' code, grefs_ok g -> gstep g o = Ok (g', code) ->
  forall peer a p, In (peer, Some a) (g_peers g) -> In (peer, Some a) (g_peers g') -> In p (as_pols a) ->
    lookup_pol (p_name p) (t_pols (g_table g')) = lookup_pol (p_name p) (t_pols (g_table g))
    /\ lookup_pol (p_name p) (t_pols (g_table g')) = Some p.
Proof.
  intros g o g' code Hok H peer a p Hin Hin' Hp.
  pose proof (gstep_preserves g o g' code Hok H) as Hok'.
  destruct Hok as [_ Hpe]. destruct Hok' as [_ Hpe'].
  rewrite (Hpe peer a Hin a p eq_refl Hp), (Hpe' peer a Hin' a p eq_refl Hp). auto.
Qed.

(* non-vacuity: a policy referenced only by a peer's override is protected, and
   with it the statement and the set below it *)
Definition gx_no_act : actions :=
  {| ac_nexthop := None; ac_comm := None; ac_local_pref := None; ac_med := None;
     ac_prepend := None; ac_ext := None; ac_large := None; ac_origin := None |}.
Definition gx_build : list gop :=
  [GOp (OAddSet false 1 (CfgPrefix [Pfx false 167772160 8 8 32]));
   GOp (OAddStmt 1 [KSet 0 1 MAny] (Some DReject) gx_no_act);
   GOp (OAddPol 1 [1]);
   GAddPeer 4 None;
   GPeerAddAsg 4 false DAccept [1]].
Definition gx : global := grun_history empty_global gx_build.

Example gx_live :
  grefs_ok gx /\ (exists a, In (4, Some a) (g_peers gx) /\ length (as_pols a) = 1%nat) /\
  t_imp (g_table gx) = None /\ t_exp (g_table gx) = None.
Proof.
  split; [apply ghistory_refs_ok, grefs_ok_empty|]. split; [|split; reflexivity].
  eexists. split; [left; reflexivity|reflexivity].
Qed.

Example gx_attacks_refused :
  forall o, In o [GOp (ODelPol 1 false true []); GOp (OAddPol 1 [1]); GOp (ODelPol 1 true false [1]);
                  GOp (ODelStmt 1 true [] None gx_no_act); GOp (ODelSet true 1 (CfgPrefix []));
                  GOp (OAddSet true 1 (CfgPrefix [Pfx false 0 0 0 32]))] ->
            gstep gx o = Ok (gx, INUSE).
Proof.
  intros o Hin. repeat (destruct Hin as [<-|Hin]; [vm_compute; reflexivity|]). destruct Hin.
Qed.
