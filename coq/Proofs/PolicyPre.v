(* The findings of property C14, machine-checked against the model of the
   code as it stood before each repair (Model/PolicyPre.v): for every one a
   concrete input on which the old code departs from the reference semantics
   or panics.  The same inputs were replayed on the real code through
   harness/hx-policy before the repairs (corpus/C14/fixed-*.json keep them as
   regression cases). *)
From Coq Require Import List NArith ZArith Bool Lia.
From RB Require Import Base.Val Model.Policy Model.PolicyPre Spec.PolicySpec Proofs.Policy.
Import ListNotations.
Open Scope N_scope.

Definition ip4 (a b c d : N) : N := ((a * 256 + b) * 256 + c) * 256 + d.
Definition ent (a m lo hi : N) : pent :=
  {| pe_key := mask_to 32 a m; pe_mask := m; pe_raw := a; pe_min := lo; pe_max := hi |}.
Definition pset4 (l : list pent) : pset := {| ps_v4 := l; ps_v6 := []; ps_zero := None; ps_zero6 := None |}.

(* C14-2a: {10.0.0.0/8 [8..32], 10.1.0.0/16 [16..16]} does not match 10.1.2.0/24
   although the /8 entry covers it and 24 lies in [8..32] *)
Definition nested := pset4 [ent (ip4 10 0 0 0) 8 8 32; ent (ip4 10 1 0 0) 16 16 16].

Lemma prefix_longest_match_refuted :
  exists p n, wf_pset p /\ pset_matches p n /\ pset_matched_pre p n = false.
Proof.
  exists nested, (NV4 (ip4 10 1 2 0) 24). split; [|split].
  - split; repeat constructor; vm_compute; congruence.
  - right. exists (ent (ip4 10 0 0 0) 8 8 32). split; [left; reflexivity|].
    unfold entry_matches, covers, same_bits. vm_compute. repeat split; congruence.
  - vm_compute. reflexivity.
Qed.

(* C14-2b: {10.0.0.0/24 [8..24]} matches the route 10.0.0.0/8, which no entry covers *)
Lemma prefix_more_specific_refuted :
  exists p n, wf_pset p /\ ~ pset_matches p n /\ pset_matched_pre p n = true.
Proof.
  exists (pset4 [ent (ip4 10 0 0 0) 24 8 24]), (NV4 (ip4 10 0 0 0) 8). split; [|split].
  - split; repeat constructor; vm_compute; congruence.
  - intros [(lo & hi & E & _)|(e & [<-|[]] & [[Hle _] _])]; [discriminate|].
    vm_compute in Hle. apply Hle. reflexivity.
  - vm_compute. reflexivity.
Qed.

(* the repaired code agrees with the reference on both *)
Example prefix_fixed_nested : pset_matched nested (NV4 (ip4 10 1 2 0) 24) = true.
Proof. vm_compute. reflexivity. Qed.
Example prefix_fixed_specific :
  pset_matched (pset4 [ent (ip4 10 0 0 0) 24 8 24]) (NV4 (ip4 10 0 0 0) 8) = false.
Proof. vm_compute. reflexivity. Qed.

(* C14-3: _65001$ on an AS_PATH whose last segment is empty panics *)
Lemma origin_empty_segment_refuted :
  exists s segs, single_match_pre s segs = Panic P_OVERFLOW /\
                 single_says s (concat segs).
Proof.
  exists {| sg_kind := 2; sg_a := 65001; sg_b := 0 |}, [[65001]; []]. split.
  - vm_compute. reflexivity.
  - exists []. reflexivity.
Qed.

(* C14-4: ALL on an as-path set behaved as INVERT *)
Lemma aspath_all_refuted :
  exists s segs,
    cond_aspath_pre MAll s segs = Ok false /\
    (forall m, In m (ap_single s) -> single_says m (concat segs)).
Proof.
  exists {| ap_single := [{| sg_kind := 0; sg_a := 65001; sg_b := 0 |}; {| sg_kind := 0; sg_a := 65002; sg_b := 0 |}];
            ap_regex := [] |}, [[65001; 65002]]. split.
  - vm_compute. reflexivity.
  - intros m [<-|[<-|[]]]; cbn; auto.
Qed.

(* C14-5: "no-export" meant 0:5 *)
Lemma well_known_refuted : exists i, well_known_pre i <> well_known_value i.
Proof. exists 5. vm_compute. congruence. Qed.

(* C14-6: med mod with a delta of i64::MAX: panic in debug, MED 0 in release,
   where the clamped sum is u32::MAX *)
Lemma med_mod_refuted :
  med_mod_pre Debug 5 (2 ^ 63 - 1) = Panic P_OVERFLOW /\
  med_mod_pre Release 5 (2 ^ 63 - 1) = Ok 0 /\
  clamp_u32 (Z.of_N 5 + (2 ^ 63 - 1)) = 4294967295.
Proof. repeat split; vm_compute; reflexivity. Qed.

(* C14-7: attribute contents the API can produce *)
Lemma api_aspath_refuted :
  aslen_loop_pre 2 [9; 0] 0 = Panic P_UNREACHABLE /\
  aslen_loop_pre 1 [2] 0 = Panic P_READ_U8 /\
  prepend_pre 2 [2] 65000 = Panic P_INDEX.
Proof. repeat split; vm_compute; reflexivity. Qed.

(* C14-hops: 256 hops *)
Lemma hops_u8_refuted :
  let b := 2 :: 255 :: repeat 0 1020 ++ [2; 1; 0; 0; 0; 1] in
  aslen_u8_pre Debug (length b) b 0 = Panic P_OVERFLOW /\
  aslen_u8_pre Release (length b) b 0 = Ok 0 /\
  aslen_loop (length b) b 0 = 256.
Proof. repeat split; vm_compute; reflexivity. Qed.

(* C14-1: the set {general pattern 1} with ANY on the path 65001: the old code
   said "no match" whatever the pattern; the reference says the condition holds
   when the pattern matches the rendered path *)
Lemma aspath_regex_ignored_refuted :
  exists s x r,
    cond_aspath_noregex_pre MAny s (aspath_segs 6 [2; 1; 0; 0; 253; 233]) = false /\
    forall rc re rl rp,
      cond_holds rc re rl (fun _ _ => true) rp x r (CSet 1 MAny (SAsPath s)).
Proof.
  exists {| ap_single := []; ap_regex := [1] |}, w_ctx, w_route. split; [vm_compute; reflexivity|].
  intros rc re rl rp. cbn [cond_holds opt_holds]. exists (inr 1). split; [left; reflexivity|].
  cbn [aspath_pat_holds]. eexists. split; reflexivity.
Qed.
