(* C03, BFD part: bfd::Message::decode is total and accepts exactly the
   well-formed control packets. *)
From Coq Require Import List NArith Bool Lia ZifyBool ZifyNat ZifyN.
From RB Require Import Base.Val Base.Bytes Model.Bfd Spec.WireSpec.
Import ListNotations.
Open Scope N_scope.

Lemma len_cons a l : len (a :: l) = len l + 1.
Proof. unfold len. cbn [length]. lia. Qed.

Lemma len_nil : len [] = 0.
Proof. reflexivity. Qed.

Lemma land31_le b : N.land b 31 <= 31.
Proof.
  destruct (N.land b 31) as [|p] eqn:E; [lia|].
  assert (H : N.log2 (N.land b 31) <= N.min (N.log2 b) (N.log2 31)) by apply N.log2_land.
  rewrite E in H. change (N.log2 31) with 4 in H.
  assert (H2 : N.log2 (N.pos p) <= 4) by lia.
  destruct (N.lt_ge_cases (N.pos p) 32) as [L|L]; [lia|].
  apply N.log2_le_mono in L. change (N.log2 32) with 5 in L. lia.
Qed.

(* A buffer of at least 24 bytes is a0 :: ... :: a23 :: rest. *)
Ltac peel buf H :=
  destruct buf as [|?a buf]; [exfalso; rewrite ?len_cons, ?len_nil in H; lia|].

Lemma C03_bfd_decode_total : forall buf, bfd_outcome_ok (bfd_decode buf).
Proof.
  intro buf. unfold bfd_decode.
  destruct (len buf <? 24) eqn:Hn; [cbn; lia|].
  assert (H : 24 <= len buf) by lia.
  do 24 (peel buf H).
  cbn [nth_error].
  destruct (negb _) eqn:E1; [cbn; lia|].
  destruct (negb (a / 32 =? 1)) eqn:E2; [cbn; lia|].
  destruct (31 <? N.land a 31) eqn:E3; [cbn; lia|].
  destruct (3 <? a0 / 64) eqn:E4; [cbn; lia|].
  match goal with |- context [if ?c then BfdPanic else _] => destruct c eqn:E5 end.
  - exfalso. rewrite !len_cons in E5. lia.
  - cbn [skipn rd32]. exact I.
Qed.

Lemma C03_bfd_accepts_iff_wellformed :
  forall buf, (exists m, bfd_decode buf = BfdOk m) <-> bfd_wellformed buf.
Proof.
  intro buf. unfold bfd_decode, bfd_wellformed.
  destruct (len buf <? 24) eqn:Hn.
  { split; [intros [m Hm]; discriminate|intros [H _]; lia]. }
  assert (H : 24 <= len buf) by lia.
  do 24 (peel buf H).
  cbn [nth_error].
  set (L := len _) in *.
  destruct (negb (L =? a2)) eqn:E1.
  { split; [intros [m Hm]; discriminate|].
    intros (_ & Hl & _). injection Hl as Hl. lia. }
  destruct (negb (a / 32 =? 1)) eqn:E2.
  { split; [intros [m Hm]; discriminate|].
    intros (_ & _ & (b0 & Hb & Hv) & _). injection Hb as Hb. subst b0. lia. }
  destruct (31 <? N.land a 31) eqn:E3.
  { pose proof (land31_le a). lia. }
  destruct (3 <? a0 / 64) eqn:E4.
  { split; [intros [m Hm]; discriminate|].
    intros (_ & _ & _ & (b1 & Hb & Hv)). injection Hb as Hb. subst b1. lia. }
  match goal with |- context [if ?c then BfdPanic else _] => destruct c eqn:E5 end.
  { exfalso. subst L. rewrite !len_cons in E5. lia. }
  cbn [skipn rd32]. split.
  - intros _. split; [lia|]. split; [f_equal; lia|].
    split; [exists a; split; [reflexivity|lia]|exists a0; split; [reflexivity|lia]].
  - intros _. eexists. reflexivity.
Qed.

(* Non-vacuity: the GoBGP test vector of bfd.rs decodes, and is well-formed. *)
Example bfd_vector :
  let v := [0x21; 0xc0; 3; 0x18; 0x12; 0x34; 0x56; 0x78; 0xab; 0xcd; 0xef; 0x12;
            0; 1; 0x86; 0xa0; 0; 3; 0x0d; 0x40; 0; 0; 0; 0] in
  (exists m, bfd_decode v = BfdOk m /\ b_my m = 0x12345678 /\ b_state m = 3) /\ bfd_wellformed v.
Proof.
  cbv zeta. split.
  - eexists. split; [vm_compute; reflexivity|split; reflexivity].
  - repeat split; try (vm_compute; congruence).
    + eexists; split; [reflexivity|reflexivity].
    + eexists; split; [reflexivity|]. vm_compute. congruence.
Qed.
