(* Proofs about Model/Deferral.v against Spec/DeferralSpec.v (property C11). *)
From Coq Require Import List NArith Bool Lia ZifyBool ZifyNat ZifyN.
From RB Require Import Base.Val Model.Deferral Spec.DeferralSpec.
Import ListNotations.
Open Scope N_scope.

Definition pending_of (s : rdstate) : pmap :=
  match s with AwaitingStart m _ => m | Deferring m => m | Completed => [] end.

(* ------------------------------------------------------------------ basics *)

Lemma mem_In : forall x l, mem x l = true <-> In x l.
Proof.
  intros x l; unfold mem; rewrite existsb_exists; split.
  - intros [y [Hy He]]. apply N.eqb_eq in He. subst; assumption.
  - intros H; exists x; split; [assumption | apply N.eqb_refl].
Qed.

Lemma mem_false_In : forall x l, mem x l = false <-> ~ In x l.
Proof.
  intros x l; rewrite <- mem_In. destruct (mem x l); split; congruence.
Qed.

Lemma dedup_In : forall l x, In x (dedup l) <-> In x l.
Proof.
  induction l as [|a r IH]; intros x; cbn [dedup]; [tauto|].
  destruct (mem a r) eqn:Hm.
  - rewrite IH. apply mem_In in Hm. cbn [In]. split; [tauto|]. intros [->|H]; assumption.
  - cbn [In]. rewrite IH. tauto.
Qed.

Lemma dedup_NoDup : forall l, NoDup (dedup l).
Proof.
  induction l as [|a r IH]; cbn [dedup]; [constructor|].
  destruct (mem a r) eqn:Hm; [assumption|].
  constructor; [|assumption]. rewrite dedup_In. apply mem_false_In; assumption.
Qed.

Lemma mem_dedup : forall l x, mem x (dedup l) = mem x l.
Proof.
  intros l x. destruct (mem x l) eqn:H.
  - apply mem_In. apply dedup_In. apply mem_In; assumption.
  - apply mem_false_In. rewrite dedup_In. apply mem_false_In; assumption.
Qed.

Lemma dedup_nonempty : forall l, l <> [] -> dedup l <> [].
Proof.
  intros l Hl Hd. destruct l as [|a r]; [congruence|].
  assert (In a (dedup (a :: r))) as H by (apply dedup_In; left; reflexivity).
  rewrite Hd in H; inversion H.
Qed.

(* ------------------------------------------- T1: deferring <-> pending peers *)

Definition wf_pending (m : pmap) : Prop := m <> [] /\ Forall (fun e => snd e <> []) m.

Definition wf_state (s : rdstate) : Prop :=
  match s with Completed => True | _ => wf_pending (pending_of s) end.

Lemma Forall_p_remove : forall (P : peer * fset -> Prop) m a, Forall P m -> Forall P (p_remove m a).
Proof.
  intros P m a H. unfold p_remove. rewrite Forall_forall in *. intros x Hx.
  apply filter_In in Hx. apply H; tauto.
Qed.

Lemma Forall_p_set : forall (P : peer * fset -> Prop) m a s,
    Forall P m -> (forall k, P (k, s)) -> Forall P (p_set m a s).
Proof.
  intros P m a s H Hs. induction m as [|[k v] r IH]; cbn [p_set].
  - constructor; [apply Hs | constructor].
  - inversion H as [|x l Hx Hl]; subst. destruct (k =? a).
    + constructor; [apply Hs | assumption].
    + constructor; [assumption | apply IH; assumption].
Qed.

Lemma p_set_nonempty : forall m a s, p_set m a s <> [].
Proof. intros [|[k v] r] a s; cbn [p_set]; [|destruct (k =? a)]; discriminate. Qed.

Lemma finish_awaiting_wf : forall m d out,
    Forall (fun e => snd e <> []) m -> wf_state (fst (finish_awaiting m d out)).
Proof.
  intros m d out H. destruct m as [|e r]; cbn; [exact I|]. split; [discriminate | assumption].
Qed.

Lemma finish_deferring_wf : forall m out,
    Forall (fun e => snd e <> []) m -> wf_state (fst (finish_deferring m out)).
Proof.
  intros m out H. destruct m as [|e r]; cbn; [exact I|]. split; [discriminate | assumption].
Qed.

Lemma remove_peer_Forall : forall m a,
    Forall (fun e => snd e <> []) m -> Forall (fun e => snd e <> []) (fst (remove_peer m a)).
Proof.
  intros m a H. unfold remove_peer. destruct (p_get m a); cbn [fst]; [apply Forall_p_remove|]; assumption.
Qed.

Lemma reestablish_wf : forall m a old fams,
    fams <> [] -> Forall (fun e => snd e <> []) m ->
    wf_pending (fst (reestablish m a old fams)).
Proof.
  intros m a old fams Hf H. unfold reestablish; cbn [fst]. split.
  - apply p_set_nonempty.
  - apply Forall_p_set; [assumption|]. intros k; cbn [snd]. apply dedup_nonempty; assumption.
Qed.

Lemma rd_step_wf : forall s i, wf_state s -> wf_state (fst (rd_step s i)).
Proof.
  intros s i Hs. destruct s as [m d|m|]; [| |destruct i; exact I].
  - destruct Hs as [Hne HF].
    destruct i as [a fams|a f|a|]; cbn [rd_step].
    + destruct fams as [|f0 fr].
      * destruct (remove_peer m a) as [m' out] eqn:E.
        apply finish_awaiting_wf. change m' with (fst (m', out)). rewrite <- E.
        apply remove_peer_Forall; assumption.
      * destruct (p_get m a) as [old|].
        -- destruct (reestablish m a old (f0 :: fr)) as [m' out] eqn:E. cbn [fst wf_state pending_of].
           change m' with (fst (m', out)). rewrite <- E. apply reestablish_wf; [discriminate | assumption].
        -- cbn. split; assumption.
    + cbn. split; assumption.
    + destruct (remove_peer m a) as [m' out] eqn:E.
      apply finish_awaiting_wf. change m' with (fst (m', out)). rewrite <- E.
      apply remove_peer_Forall; assumption.
    + cbn. split; assumption.
  - destruct Hs as [Hne HF].
    destruct i as [a fams|a f|a|]; cbn [rd_step].
    + destruct fams as [|f0 fr].
      * destruct (remove_peer m a) as [m' out] eqn:E.
        apply finish_deferring_wf. change m' with (fst (m', out)). rewrite <- E.
        apply remove_peer_Forall; assumption.
      * destruct (p_get m a) as [old|].
        -- destruct (reestablish m a old (f0 :: fr)) as [m' out] eqn:E. cbn [fst wf_state pending_of].
           change m' with (fst (m', out)). rewrite <- E. apply reestablish_wf; [discriminate | assumption].
        -- cbn. split; assumption.
    + destruct (p_get m a) as [ps|].
      * destruct (fremove f ps) as [|g gr] eqn:Ef.
        -- destruct (p_remove m a) as [|e r] eqn:Er; cbn [fst]; [exact I|].
           cbn. split; [discriminate|]. rewrite <- Er. apply Forall_p_remove; assumption.
        -- destruct (p_set m a (g :: gr)) as [|e r] eqn:Es; cbn [fst]; [exact I|].
           cbn. split; [discriminate|]. rewrite <- Es. apply Forall_p_set; [assumption|].
           intros k; cbn; discriminate.
      * destruct m as [|e r]; cbn [fst]; [exact I|]. cbn. split; assumption.
    + destruct (remove_peer m a) as [m' out] eqn:E.
      apply finish_deferring_wf. change m' with (fst (m', out)). rewrite <- E.
      apply remove_peer_Forall; assumption.
    + exact I.
Qed.

Lemma rd_new_wf : forall gr_peers d, wf_state (fst (rd_new gr_peers d)).
Proof.
  intros gr_peers d. unfold rd_new.
  assert (Forall (fun e : peer * fset => snd e <> []) (initial_pending gr_peers)) as HF.
  { unfold initial_pending. induction gr_peers as [|[k v] r IH]; cbn [flat_map]; [constructor|].
    destruct v as [|f fr]; cbn [snd fst app]; [assumption|].
    constructor; [|assumption]. cbn [snd]. apply dedup_nonempty; discriminate. }
  destruct (initial_pending gr_peers) as [|e r]; cbn [fst]; [exact I|]. cbn. split; [discriminate | assumption].
Qed.

Lemma rd_run_wf : forall ins s, wf_state s -> wf_state (rd_run s ins).
Proof.
  induction ins as [|i r IH]; intros s Hs; cbn [rd_run]; [assumption|].
  apply IH. apply rd_step_wf; assumption.
Qed.

Theorem C11_deferring_implies_pending :
  forall (gr_peers : list (peer * list fam)) (d : option N) (ins : list rdinput),
    let s := rd_run (fst (rd_new gr_peers d)) ins in
    (is_completed s = false ->
       pending_of s <> [] /\
       forall p fs, In (p, fs) (pending_of s) -> exists f, In f fs)
    /\ (is_completed s = true -> pending_of s = []).
Proof.
  intros gr_peers d ins s.
  assert (wf_state s) as Hwf by (apply rd_run_wf; apply rd_new_wf).
  split.
  - intros Hc. destruct s as [m d'|m|]; cbn in Hc; try discriminate;
      destruct Hwf as [Hne HF]; (split; [assumption|]);
      intros p fs Hin; rewrite Forall_forall in HF; specialize (HF _ Hin); cbn in HF;
      destruct fs as [|f fr]; [congruence | exists f; left; reflexivity
                               | congruence | exists f; left; reflexivity].
  - intros Hc. destruct s; cbn in Hc; try discriminate. reflexivity.
Qed.

(* non-vacuity: a run that is still deferring, and one that has completed *)
Example deferring_example :
  let s := rd_run (fst (rd_new [(1, [65537; 131073]); (2, [131073])] (Some 360)))
                  [PeerEstablished 1 [65537; 131073]; EorReceived 1 65537] in
  is_completed s = false /\ pending_of s = [(1, [131073]); (2, [131073])].
Proof. vm_compute. split; reflexivity. Qed.

Example completed_example :
  let s := rd_run (fst (rd_new [(1, [65537; 131073]); (2, [131073])] (Some 360)))
                  [PeerEstablished 1 [65537; 131073]; EorReceived 1 65537;
                   PeerWithdrawn 2; EorReceived 1 131073] in
  is_completed s = true.
Proof. vm_compute. reflexivity. Qed.

(* ---------------------------------------------------------------- finding C11-1
   (repaired in the repository by a `fix:` commit; Model/Deferral.v rd_step is
   the repaired behaviour).  The model of the code as it was released a family
   twice on a disciplined history: peer 2 (GR for IPv6 only) sends End-of-RIB
   for IPv4 after IPv4 was already released when peer 1 came up without GR. *)
Lemma C11_unfixed_released_twice :
  exists (c : config) (ins : list rdinput) (f : fam),
    disciplined c ins = true /\ deferred c f = true /\
    (releases f (rd_trace_unfixed (fst (rd_new c (Some 360%N))) ins) > 1)%nat.
Proof.
  exists [(1, [65537; 131073]); (2, [131073])],
         [PeerEstablished 1 []; PeerEstablished 2 [131073]; EorReceived 2 65537], 65537.
  vm_compute. repeat split; lia.
Qed.

(* ======================================================================
   T3: refinement of the Spec's per-peer blocking relation, release counts
   ====================================================================== *)

Definition get_or_nil (m : pmap) (p : peer) : fset :=
  match p_get m p with Some s => s | None => [] end.

Definition upd (m : pmap) (a : peer) (new : fset) : pmap :=
  match new with [] => p_remove m a | _ => p_set m a new end.

Lemma p_get_p_remove : forall m a q,
    p_get (p_remove m a) q = if q =? a then None else p_get m q.
Proof.
  induction m as [|[k v] r IH]; intros a q; cbn [p_remove filter p_get fst].
  - destruct (q =? a); reflexivity.
  - fold (p_remove r a). destruct (k =? a) eqn:Eka; cbn [negb].
    + rewrite IH. destruct (q =? a) eqn:Eqa; [reflexivity|].
      destruct (k =? q) eqn:Ekq; [|reflexivity]. lia.
    + cbn [p_get]. rewrite IH. destruct (k =? q) eqn:Ekq.
      * destruct (q =? a) eqn:Eqa; [lia | reflexivity].
      * reflexivity.
Qed.

Lemma p_get_p_set : forall m a s q,
    p_get (p_set m a s) q = if q =? a then Some s else p_get m q.
Proof.
  induction m as [|[k v] r IH]; intros a s q; cbn [p_set p_get].
  - rewrite (N.eqb_sym a q). destruct (q =? a); reflexivity.
  - destruct (k =? a) eqn:Eka; cbn [p_get].
    + destruct (k =? q) eqn:Ekq.
      * assert (q =? a = true) as -> by lia. reflexivity.
      * assert (q =? a = false) as -> by lia. reflexivity.
    + rewrite IH. destruct (k =? q) eqn:Ekq; [|reflexivity].
      assert (q =? a = false) as -> by lia. reflexivity.
Qed.

Lemma get_upd : forall m a new q,
    get_or_nil (upd m a new) q = if q =? a then new else get_or_nil m q.
Proof.
  intros m a new q. unfold get_or_nil, upd. destruct new as [|x r].
  - rewrite p_get_p_remove. destruct (q =? a); reflexivity.
  - rewrite p_get_p_set. destruct (q =? a); reflexivity.
Qed.

Lemma keys_p_set : forall m a s,
    map fst (p_set m a s) = if mem a (map fst m) then map fst m else map fst m ++ [a].
Proof.
  induction m as [|[k v] r IH]; intros a s; cbn [p_set map fst mem existsb app]; [reflexivity|].
  fold (mem a (map fst r)). rewrite (N.eqb_sym a k).
  destruct (k =? a) eqn:E; cbn [orb map fst]; [reflexivity|].
  rewrite IH. destruct (mem a (map fst r)); reflexivity.
Qed.

Lemma NoDup_snoc : forall (l : list N) a, NoDup l -> ~ In a l -> NoDup (l ++ [a]).
Proof.
  induction l as [|x l IH]; intros a H Hn; cbn [app].
  - constructor; [intros []|constructor].
  - inversion H as [|y l' Hy Hl]; subst. constructor.
    + rewrite in_app_iff. intros [Hi|[Hi|[]]]; [contradiction|]. subst. apply Hn. left; reflexivity.
    + apply IH; [assumption|]. intros Hi. apply Hn. right; assumption.
Qed.

Lemma keys_nodup_p_set : forall m a s, NoDup (map fst m) -> NoDup (map fst (p_set m a s)).
Proof.
  intros m a s H. rewrite keys_p_set. destruct (mem a (map fst m)) eqn:E; [assumption|].
  apply mem_false_In in E. apply NoDup_snoc; assumption.
Qed.

Lemma keys_nodup_p_remove : forall m a, NoDup (map fst m) -> NoDup (map fst (p_remove m a)).
Proof.
  induction m as [|[k v] r IH]; intros a H; cbn [p_remove filter fst map]; [constructor|].
  fold (p_remove r a). inversion H as [|x l Hx Hl]; subst.
  destruct (negb (k =? a)); [|apply IH; assumption].
  cbn [map fst]. constructor; [|apply IH; assumption].
  intros Hi. apply Hx. apply in_map_iff in Hi. destruct Hi as [[k' v'] [Hk Hin]].
  apply filter_In in Hin. apply in_map_iff. exists (k', v'). tauto.
Qed.

Lemma keys_nodup_upd : forall m a new, NoDup (map fst m) -> NoDup (map fst (upd m a new)).
Proof.
  intros m a [|x r] H; cbn [upd]; [apply keys_nodup_p_remove | apply keys_nodup_p_set]; assumption.
Qed.

Definition val_ok (e : peer * fset) : Prop := NoDup (snd e) /\ snd e <> [].

Lemma vals_upd : forall m a new, Forall val_ok m -> NoDup new -> Forall val_ok (upd m a new).
Proof.
  intros m a [|x r] H Hn; cbn [upd].
  - apply Forall_p_remove; assumption.
  - apply Forall_p_set; [assumption|]. intros k; split; cbn [snd]; [assumption | discriminate].
Qed.

Lemma p_get_In : forall m k v, p_get m k = Some v -> In (k, v) m.
Proof.
  induction m as [|[k' v'] r IH]; intros k v H; cbn [p_get] in H; [discriminate|].
  destruct (k' =? k) eqn:E.
  - inversion H; subst. apply N.eqb_eq in E; subst. left; reflexivity.
  - right; apply IH; assumption.
Qed.

Lemma In_p_get : forall m k v, NoDup (map fst m) -> In (k, v) m -> p_get m k = Some v.
Proof.
  induction m as [|[k' v'] r IH]; intros k v Hn Hin; [inversion Hin|].
  cbn [map fst] in Hn. inversion Hn as [|x l Hx Hl]; subst. cbn [p_get].
  destruct Hin as [He|Hin].
  - inversion He; subst. rewrite N.eqb_refl. reflexivity.
  - destruct (k' =? k) eqn:E.
    + apply N.eqb_eq in E; subst. exfalso. apply Hx. apply in_map_iff. exists (k, v). tauto.
    + apply IH; assumption.
Qed.

Lemma any_has_spec : forall m f, NoDup (map fst m) ->
    (any_has m f = true <-> exists p, mem f (get_or_nil m p) = true).
Proof.
  intros m f Hn. unfold any_has. rewrite existsb_exists. split.
  - intros [[k v] [Hin Hm]]. exists k. unfold get_or_nil. rewrite (In_p_get _ _ _ Hn Hin). assumption.
  - intros [p Hp]. unfold get_or_nil in Hp. destruct (p_get m p) as [s|] eqn:E; [|discriminate].
    exists (p, s). split; [apply p_get_In; assumption | assumption].
Qed.

Lemma mem_fremove : forall f s g, mem g (fremove f s) = mem g s && negb (g =? f).
Proof.
  intros f s g. unfold fremove. destruct (mem g (filter (fun x => negb (x =? f)) s)) eqn:E.
  - apply mem_In in E. apply filter_In in E. destruct E as [Hi Hn].
    apply mem_In in Hi. rewrite Hi, Hn. reflexivity.
  - apply mem_false_In in E. destruct (mem g s) eqn:Hs; [|reflexivity].
    destruct (g =? f) eqn:Hg; [reflexivity|]. exfalso. apply E. apply filter_In.
    split; [apply mem_In; assumption | rewrite Hg; reflexivity].
Qed.

Lemma NoDup_filter : forall (A : Type) (p : A -> bool) l, NoDup l -> NoDup (filter p l).
Proof.
  intros A p l H. induction H as [|x l Hx Hl IH]; cbn [filter]; [constructor|].
  destruct (p x); [|assumption]. constructor; [|assumption].
  intros Hi. apply filter_In in Hi. tauto.
Qed.

(* release counting *)
Lemma releases_in_app : forall f a b,
    releases_in f (a ++ b) = (releases_in f a + releases_in f b)%nat.
Proof. intros f a b. induction a as [|o r IH]; cbn [app releases_in fold_right]; [reflexivity|]. fold (releases_in f (r ++ b)). fold (releases_in f r). lia. Qed.

Lemma releases_in_fdc : forall f l, NoDup l ->
    releases_in f (map FamilyDeferralComplete l) = if mem f l then 1%nat else 0%nat.
Proof.
  intros f l H. induction H as [|x l Hx Hl IH]; cbn [map releases_in fold_right released_by]; [reflexivity|].
  fold (releases_in f (map FamilyDeferralComplete l)). rewrite IH.
  unfold mem at 2. cbn [existsb]. fold (mem f l). rewrite (N.eqb_sym f x).
  destruct (x =? f) eqn:E; cbn [orb].
  - apply N.eqb_eq in E; subst. apply mem_false_In in Hx. rewrite Hx. reflexivity.
  - reflexivity.
Qed.

Lemma releases_in_complete_for : forall m cands f, NoDup cands ->
    releases_in f (complete_for m cands) = if mem f cands && negb (any_has m f) then 1%nat else 0%nat.
Proof.
  intros m cands f H. unfold complete_for. rewrite releases_in_fdc by (apply NoDup_filter; assumption).
  destruct (mem f (filter (fun f0 => negb (any_has m f0)) cands)) eqn:E.
  - apply mem_In in E. apply filter_In in E. destruct E as [Hi Hn]. apply mem_In in Hi. rewrite Hi, Hn. reflexivity.
  - apply mem_false_In in E. destruct (mem f cands) eqn:Hc; [|reflexivity].
    destruct (any_has m f) eqn:Ha; [reflexivity|]. exfalso. apply E. apply filter_In.
    split; [apply mem_In; assumption | rewrite Ha; reflexivity].
Qed.

(* Spec side *)
Lemma spec_blocks_snoc : forall c h e p f,
    spec_blocks c (h ++ [e]) p f = spec_blocks c h p f && negb (unblocks e p f).
Proof.
  intros c h e p f. unfold spec_blocks. rewrite forallb_app. cbn [forallb]. rewrite andb_true_r.
  rewrite andb_assoc. reflexivity.
Qed.

Lemma cfg_fams_In : forall c p f, mem f (cfg_fams c p) = true -> deferred c f = true.
Proof.
  induction c as [|[k v] r IH]; intros p f H; cbn [cfg_fams] in H; [discriminate|].
  unfold deferred. cbn [existsb snd]. destruct (k =? p).
  - rewrite H. reflexivity.
  - apply IH in H. unfold deferred in H. rewrite H. apply orb_true_r.
Qed.

Lemma cfg_fams_key : forall c p, cfg_fams c p <> [] -> In p (map fst c).
Proof.
  induction c as [|[k v] r IH]; intros p H; cbn [cfg_fams] in H; [congruence|].
  cbn [map fst]. destruct (k =? p) eqn:E; [left; lia | right; apply IH; assumption].
Qed.

Lemma spec_blocked_iff : forall c h f,
    spec_blocked c h f = true <-> exists p, spec_blocks c h p f = true.
Proof.
  intros c h f. unfold spec_blocked. rewrite existsb_exists. split.
  - intros [e [_ H]]. exists (fst e). assumption.
  - intros [p H]. assert (In p (map fst c)) as Hk.
    { apply cfg_fams_key. unfold spec_blocks in H. apply andb_true_iff in H. destruct H as [H _].
      intros Hn. rewrite Hn in H. discriminate. }
    apply in_map_iff in Hk. destruct Hk as [e [He Hin]]. exists e. subst. split; assumption.
Qed.

Lemma spec_blocks_deferred : forall c h p f, spec_blocks c h p f = true -> deferred c f = true.
Proof.
  intros c h p f H. unfold spec_blocks in H. apply andb_true_iff in H. destruct H as [H _].
  apply cfg_fams_In with p; assumption.
Qed.

Section Refine.
Variable c : config.

Definition b2n (b : bool) : nat := if b then 1%nat else 0%nat.

(* the part of the invariant that relates the pending map and the number of
   releases so far to the Spec's reading of the history *)
Record core (h : list rdinput) (m : pmap) (cnt : fam -> nat) : Prop := {
  co_keys : NoDup (map fst m);
  co_vals : Forall val_ok m;
  co_ref : forall p g, mem g (get_or_nil m p) = spec_blocks c h p g;
  co_cnt : forall g, cnt g = b2n (deferred c g && negb (spec_blocked c h g))
}.

Lemma blocked_any_has : forall h m cnt g, core h m cnt -> spec_blocked c h g = any_has m g.
Proof.
  intros h m cnt g H. destruct (any_has m g) eqn:E.
  - apply spec_blocked_iff. apply any_has_spec in E; [|apply (co_keys _ _ _ H)].
    destruct E as [p Hp]. exists p. rewrite <- (co_ref _ _ _ H). assumption.
  - destruct (spec_blocked c h g) eqn:B; [|reflexivity].
    apply spec_blocked_iff in B. destruct B as [p Hp]. rewrite <- (co_ref _ _ _ H) in Hp.
    assert (any_has m g = true) as Ha by (apply any_has_spec; [apply (co_keys _ _ _ H) | exists p; assumption]).
    congruence.
Qed.

Lemma upd_core : forall h m cnt a old new e out,
    core h m cnt ->
    p_get m a = Some old ->
    NoDup new ->
    (forall g, mem g new = mem g old && negb (unblocks e a g)) ->
    (forall q g, q <> a -> unblocks e q g = false) ->
    (forall g, releases_in g out =
               b2n (mem g old && negb (mem g new) && negb (any_has (upd m a new) g))) ->
    core (h ++ [e]) (upd m a new) (fun g => (cnt g + releases_in g out)%nat).
Proof.
  intros h m cnt a old new e out H Hget Hnd Hnew Hoth Hout.
  assert (forall p g, mem g (get_or_nil (upd m a new) p) = spec_blocks c (h ++ [e]) p g) as Href.
  { intros p g. rewrite get_upd, spec_blocks_snoc, <- (co_ref _ _ _ H).
    destruct (p =? a) eqn:E.
    - apply N.eqb_eq in E; subst p. rewrite Hnew. unfold get_or_nil. rewrite Hget. reflexivity.
    - rewrite Hoth by lia. rewrite andb_true_r. reflexivity. }
  assert (core (h ++ [e]) (upd m a new) (fun g => b2n (deferred c g && negb (spec_blocked c (h ++ [e]) g)))) as Hc'.
  { constructor; [apply keys_nodup_upd; apply (co_keys _ _ _ H)
                 | apply vals_upd; [apply (co_vals _ _ _ H) | assumption]
                 | exact Href | reflexivity]. }
  constructor; try apply Hc'.
  intros g. rewrite (co_cnt _ _ _ H), Hout.
  rewrite (blocked_any_has _ _ _ g Hc'). rewrite (blocked_any_has _ _ _ g H).
  (* who blocks g before / after *)
  destruct (any_has (upd m a new) g) eqn:Anew.
  - (* still blocked: was blocked before as well *)
    assert (any_has m g = true) as Aold.
    { apply any_has_spec; [apply (co_keys _ _ _ H)|].
      apply any_has_spec in Anew; [|apply (co_keys _ _ _ Hc')]. destruct Anew as [p Hp].
      rewrite get_upd in Hp. destruct (p =? a) eqn:E.
      - exists a. unfold get_or_nil. rewrite Hget. rewrite Hnew in Hp. apply andb_true_iff in Hp. tauto.
      - exists p; assumption. }
    rewrite Aold. rewrite !andb_false_r. reflexivity.
  - destruct (any_has m g) eqn:Aold.
    + (* blocked before, not after: only a can have dropped it *)
      assert (mem g old = true /\ mem g new = false) as [Ho Hn].
      { apply any_has_spec in Aold; [|apply (co_keys _ _ _ H)]. destruct Aold as [p Hp].
        assert (forall q, mem g (get_or_nil (upd m a new) q) = false) as Hnone.
        { intros q. destruct (mem g (get_or_nil (upd m a new) q)) eqn:Eq; [|reflexivity].
          assert (any_has (upd m a new) g = true)
            by (apply any_has_spec; [apply (co_keys _ _ _ Hc') | exists q; assumption]). congruence. }
        destruct (p =? a) eqn:E.
        - apply N.eqb_eq in E; subst p. unfold get_or_nil in Hp. rewrite Hget in Hp.
          specialize (Hnone a). rewrite get_upd, N.eqb_refl in Hnone. tauto.
        - specialize (Hnone p). rewrite get_upd, E in Hnone. congruence. }
      rewrite Ho, Hn. cbn [negb andb].
      assert (deferred c g = true) as ->.
      { apply spec_blocks_deferred with h a. rewrite <- (co_ref _ _ _ H). unfold get_or_nil. rewrite Hget. assumption. }
      reflexivity.
    + (* not blocked before: nothing to release *)
      assert (mem g old = false) as ->.
      { destruct (mem g old) eqn:Ho; [|reflexivity].
        assert (any_has m g = true)
          by (apply any_has_spec; [apply (co_keys _ _ _ H) | exists a; unfold get_or_nil; rewrite Hget; assumption]).
        congruence. }
      cbn [andb negb b2n]. lia.
Qed.

Lemma noop_core : forall h m cnt e,
    core h m cnt ->
    (forall p g, spec_blocks c h p g = true -> unblocks e p g = false) ->
    core (h ++ [e]) m (fun g => (cnt g + 0)%nat).
Proof.
  intros h m cnt e H Hno.
  assert (forall p g, spec_blocks c (h ++ [e]) p g = spec_blocks c h p g) as Heq.
  { intros p g. rewrite spec_blocks_snoc. destruct (spec_blocks c h p g) eqn:B; [|reflexivity].
    rewrite (Hno _ _ B). reflexivity. }
  assert (core (h ++ [e]) m (fun g => b2n (deferred c g && negb (spec_blocked c (h ++ [e]) g)))) as Hc'.
  { constructor; [apply (co_keys _ _ _ H) | apply (co_vals _ _ _ H) | | reflexivity].
    intros p g. rewrite Heq. apply (co_ref _ _ _ H). }
  constructor; try apply Hc'.
  intros g. rewrite (co_cnt _ _ _ H), (blocked_any_has _ _ _ g Hc'), (blocked_any_has _ _ _ g H). lia.
Qed.

Lemma core_empty_done : forall h cnt g, core h [] cnt -> cnt g = b2n (deferred c g).
Proof.
  intros h cnt g H. rewrite (co_cnt _ _ _ H), (blocked_any_has _ _ _ g H). cbn. rewrite andb_true_r. reflexivity.
Qed.

Lemma mem_all_fams : forall m g, mem g (all_fams m) = any_has m g.
Proof.
  intros m g. unfold all_fams. rewrite mem_dedup. unfold any_has.
  induction m as [|[k v] r IH]; cbn [flat_map existsb snd]; [reflexivity|].
  rewrite <- IH. unfold mem. rewrite existsb_app. reflexivity.
Qed.

Lemma timer_done : forall h m cnt g,
    core h m cnt ->
    (cnt g + releases_in g [EndDeferral (all_fams m)])%nat = b2n (deferred c g).
Proof.
  intros h m cnt g H. rewrite (co_cnt _ _ _ H), (blocked_any_has _ _ _ g H).
  cbn [releases_in fold_right released_by]. rewrite mem_all_fams.
  destruct (any_has m g) eqn:A.
  - assert (deferred c g = true) as ->.
    { apply any_has_spec in A; [|apply (co_keys _ _ _ H)]. destruct A as [p Hp].
      rewrite (co_ref _ _ _ H) in Hp. apply spec_blocks_deferred in Hp. assumption. }
    reflexivity.
  - rewrite andb_true_r. destruct (deferred c g); reflexivity.
Qed.

Lemma core_release_justified : forall h m cnt g,
    core h m cnt -> (cnt g > 0)%nat -> spec_blocked c h g = false.
Proof.
  intros h m cnt g H Hpos. rewrite (co_cnt _ _ _ H) in Hpos.
  destruct (spec_blocked c h g); [|reflexivity]. rewrite andb_false_r in Hpos. cbn in Hpos. lia.
Qed.

End Refine.

Section Step.
Variable c : config.

Definition down_ok (h : list rdinput) (up : list peer) : Prop :=
  forall p, ~ In p up ->
            (forall g, spec_blocks c h p g = false) \/
            (forall g, spec_blocks c h p g = mem g (cfg_fams c p)).

Definition aw_ok (s : rdstate) (up : list peer) : Prop :=
  match s with
  | AwaitingStart m _ => forall p, In p up -> p_get m p = None
  | _ => True
  end.

Definition inv (h : list rdinput) (up : list peer) (s : rdstate) (cnt : fam -> nat) : Prop :=
  match s with
  | Completed => forall g, cnt g = b2n (deferred c g)
  | _ => core c h (pending_of s) cnt /\ pending_of s <> [] /\ down_ok h up /\ aw_ok s up
  end.

Lemma core_ext : forall h m cnt cnt', (forall g, cnt g = cnt' g) -> core c h m cnt -> core c h m cnt'.
Proof.
  intros h m cnt cnt' He H. constructor; try apply H. intros g. rewrite <- He. apply (co_cnt _ _ _ _ H).
Qed.

Definition up_after (up : list peer) (e : rdinput) : list peer :=
  match e with
  | PeerEstablished a _ => a :: up
  | PeerWithdrawn a => filter (fun x => negb (x =? a)) up
  | _ => up
  end.

Lemma down_step : forall h up e,
    down_ok h up ->
    (forall a f, e = EorReceived a f -> In a up) ->
    down_ok (h ++ [e]) (up_after up e).
Proof.
  intros h up e H He p Hp.
  assert (forall g, unblocks e p g = false -> spec_blocks c (h ++ [e]) p g = spec_blocks c h p g) as Hsame.
  { intros g Hu. rewrite spec_blocks_snoc, Hu. apply andb_true_r. }
  destruct e as [a fams|a f|a|]; cbn [up_after] in Hp.
  - assert (p <> a /\ ~ In p up) as [Hpa Hpu] by (cbn [In] in Hp; split; [intros ->|]; tauto).
    destruct (H p Hpu) as [Hl|Hr]; [left|right]; intros g; rewrite Hsame; auto;
      cbn [unblocks]; assert (a =? p = false) as -> by lia; reflexivity.
  - assert (p <> a) as Hpa by (intros ->; apply Hp; apply (He a f); reflexivity).
    destruct (H p Hp) as [Hl|Hr]; [left|right]; intros g; rewrite Hsame; auto;
      cbn [unblocks]; assert (a =? p = false) as -> by lia; reflexivity.
  - destruct (N.eq_dec p a) as [->|Hpa].
    + left. intros g. rewrite spec_blocks_snoc. cbn [unblocks]. rewrite N.eqb_refl. apply andb_false_r.
    + assert (~ In p up) as Hpu.
      { intros Hi. apply Hp. apply filter_In. split; [assumption|]. assert (p =? a = false) as -> by lia. reflexivity. }
      destruct (H p Hpu) as [Hl|Hr]; [left|right]; intros g; rewrite Hsame; auto;
        cbn [unblocks]; lia.
  - destruct (H p Hp) as [Hl|Hr]; [left|right]; intros g; rewrite Hsame; auto.
Qed.

Lemma old_nodup : forall h m cnt a old, core c h m cnt -> p_get m a = Some old -> NoDup old /\ old <> [].
Proof.
  intros h m cnt a old H Hg. apply p_get_In in Hg. pose proof (co_vals _ _ _ _ H) as Hv.
  rewrite Forall_forall in Hv. apply (Hv _ Hg).
Qed.

(* Est(a, []) and PeerWithdrawn(a) : remove_peer *)
Lemma remove_peer_core : forall h m cnt a e,
    core c h m cnt ->
    (e = PeerEstablished a [] \/ e = PeerWithdrawn a) ->
    core c (h ++ [e]) (fst (remove_peer m a))
         (fun g => (cnt g + releases_in g (snd (remove_peer m a)))%nat).
Proof.
  intros h m cnt a e H He. unfold remove_peer. destruct (p_get m a) as [old|] eqn:Hg; cbn [fst snd].
  - destruct (old_nodup _ _ _ _ _ H Hg) as [Hnd Hne].
    change (p_remove m a) with (upd m a []).
    apply upd_core with (old := old); try assumption.
    + constructor.
    + intros g. destruct He as [-> | ->]; cbn [unblocks mem existsb]; rewrite N.eqb_refl;
        cbn [negb andb]; rewrite andb_false_r; reflexivity.
    + intros q g Hq. destruct He as [-> | ->]; cbn [unblocks]; assert (a =? q = false) as -> by lia; reflexivity.
    + intros g. rewrite releases_in_complete_for by assumption. cbn [mem existsb negb]. rewrite andb_true_r. reflexivity.
  - apply core_ext with (cnt := fun g => (cnt g + 0)%nat); [intros g; reflexivity|].
    apply noop_core; [assumption|]. intros p g Hb.
    destruct (N.eq_dec p a) as [->|Hpa].
    + rewrite <- (co_ref _ _ _ _ H) in Hb. unfold get_or_nil in Hb. rewrite Hg in Hb. discriminate.
    + destruct He as [-> | ->]; cbn [unblocks]; assert (a =? p = false) as -> by lia; reflexivity.
Qed.

Lemma reestablish_core : forall h up m cnt a old (f0 : fam) (fr : list fam),
    core c h m cnt -> down_ok h up ->
    p_get m a = Some old -> ~ In a up -> subset (f0 :: fr) (cfg_fams c a) = true ->
    let e := PeerEstablished a (f0 :: fr) in
    core c (h ++ [e]) (fst (reestablish m a old (f0 :: fr)))
         (fun g => (cnt g + releases_in g (snd (reestablish m a old (f0 :: fr))))%nat).
Proof.
  intros h up m cnt a old f0 fr H Hd Hg Hup Hsub e. unfold reestablish; cbn [fst snd].
  destruct (old_nodup _ _ _ _ _ H Hg) as [Hnd Hne].
  set (new := dedup (f0 :: fr)).
  assert (new <> []) as Hnew_ne by (apply dedup_nonempty; discriminate).
  assert (p_set m a new = upd m a new) as Hupd by (unfold upd; destruct new; [congruence | reflexivity]).
  rewrite Hupd.
  (* the families a may list are the ones it still blocks *)
  assert (forall g, mem g (f0 :: fr) = true -> mem g old = true) as Hin.
  { intros g Hm. destruct (Hd a Hup) as [Hl|Hr].
    - exfalso. destruct old as [|x xs]; [congruence|].
      specialize (Hl x). rewrite <- (co_ref _ _ _ _ H) in Hl. unfold get_or_nil in Hl. rewrite Hg in Hl.
      unfold mem in Hl. cbn [existsb] in Hl. rewrite N.eqb_refl in Hl. discriminate.
    - specialize (Hr g). rewrite <- (co_ref _ _ _ _ H) in Hr. unfold get_or_nil in Hr. rewrite Hg in Hr.
      rewrite Hr. unfold subset in Hsub. rewrite forallb_forall in Hsub. apply Hsub. apply mem_In. assumption. }
  apply upd_core with (old := old); try assumption.
  - apply dedup_NoDup.
  - intros g. subst new. rewrite mem_dedup. subst e. cbn [unblocks]. rewrite N.eqb_refl. cbn [andb]. rewrite negb_involutive.
    destruct (mem g (f0 :: fr)) eqn:Em; [rewrite (Hin g Em); reflexivity | rewrite andb_false_r; reflexivity].
  - intros q g Hq. subst e. cbn [unblocks]. assert (a =? q = false) as -> by lia. reflexivity.
  - intros g. rewrite releases_in_complete_for by (apply NoDup_filter; assumption).
    f_equal. f_equal.
    destruct (mem g (filter (fun f => negb (mem f new)) old)) eqn:E.
    + apply mem_In in E. apply filter_In in E. destruct E as [Hi Hn]. apply mem_In in Hi. rewrite Hi, Hn. reflexivity.
    + apply mem_false_In in E. destruct (mem g old) eqn:Ho; [|reflexivity].
      destruct (mem g new) eqn:Hn; [reflexivity|]. exfalso. apply E. apply filter_In.
      split; [apply mem_In; assumption | rewrite Hn; reflexivity].
Qed.

End Step.

Section StepMain.
Variable c : config.

Lemma remove_peer_get : forall m a q,
    p_get (fst (remove_peer m a)) q = if q =? a then None else p_get m q.
Proof.
  intros m a q. unfold remove_peer. destruct (p_get m a) eqn:E; cbn [fst].
  - apply p_get_p_remove.
  - destruct (q =? a) eqn:Eq; [|reflexivity]. apply N.eqb_eq in Eq; subst; assumption.
Qed.

Lemma disciplined_tail : forall up i rest,
    disciplined_from c up (i :: rest) = true -> disciplined_from c (up_after up i) rest = true.
Proof.
  intros up i rest H. destruct i as [a fams|a f|a|]; cbn [disciplined_from up_after] in *;
    repeat (apply andb_true_iff in H; destruct H as [H ?]); assumption.
Qed.

Lemma justified_by_core : forall h m cnt cnt0 r g,
    core c h m cnt -> cnt g = (cnt0 + r)%nat -> (r > 0)%nat -> spec_blocked c h g = false.
Proof.
  intros h m cnt cnt0 r g H He Hr. apply (core_release_justified c h m cnt g H). lia.
Qed.

Lemma releases_in_snoc0 : forall g out o, released_by g o = 0%nat -> releases_in g (out ++ [o]) = releases_in g out.
Proof. intros g out o H. rewrite releases_in_app. cbn [releases_in fold_right]. lia. Qed.

(* the state reached through finish_awaiting / finish_deferring / the EOR arm:
   Completed when the new pending map is empty, otherwise still live *)
Lemma conclude : forall h up m cnt (s : rdstate),
    core c h m cnt -> down_ok c h up ->
    (m = [] -> s = Completed) ->
    (m <> [] -> s <> Completed /\ pending_of s = m /\ aw_ok s up) ->
    inv c h up s cnt.
Proof.
  intros h up m cnt s H Hd He Hne. destruct m as [|e0 r0].
  - rewrite (He eq_refl). cbn [inv]. intros g. apply (core_empty_done c h cnt g H).
  - destruct (Hne ltac:(discriminate)) as [Hs [Hp Ha]].
    destruct s as [m0 d0|m0|]; [| |congruence]; cbn [inv pending_of] in *; subst m0;
      (split; [assumption | split; [discriminate | split; assumption]]).
Qed.

Lemma inv_step : forall h up s cnt i rest,
    inv c h up s cnt -> disciplined_from c up (i :: rest) = true ->
    disciplined_from c (up_after up i) rest = true /\
    inv c (h ++ [i]) (up_after up i) (fst (rd_step s i))
        (fun g => (cnt g + releases_in g (snd (rd_step s i)))%nat) /\
    (forall g, (releases_in g (snd (rd_step s i)) > 0)%nat ->
               spec_blocked c (h ++ [i]) g = false \/ i = TimerExpired).
Proof.
  intros h up s cnt i rest Hinv Hdisc.
  split; [apply disciplined_tail; assumption|].
  destruct s as [m d|m|].
  - (* ---------------- AwaitingStart *)
    destruct Hinv as [Hcore [Hne [Hdown Haw]]]. cbn [pending_of] in *. cbn [aw_ok] in Haw.
    destruct i as [a fams|a f|a|].
    + destruct fams as [|f0 fr].
      * (* established without GR: remove_peer *)
        cbn [rd_step].
        pose proof (remove_peer_core c h m cnt a (PeerEstablished a []) Hcore (or_introl eq_refl)) as Hc'.
        pose proof (remove_peer_get m a) as Hget'.
        destruct (remove_peer m a) as [m' out]; cbn [fst snd] in Hc', Hget'.
        assert (down_ok c (h ++ [PeerEstablished a []]) (a :: up)) as Hd'
            by (apply (down_step c h up (PeerEstablished a [])); [assumption | intros ? ? X; discriminate X]).
        destruct m' as [|e0 r0]; cbn [finish_awaiting fst snd up_after].
        -- split.
           ++ cbn [inv]. intros g. rewrite releases_in_snoc0 by reflexivity.
              apply (core_empty_done c _ _ g Hc').
           ++ intros g Hr. left. rewrite releases_in_snoc0 in Hr by reflexivity.
              eapply justified_by_core; [exact Hc' | reflexivity | exact Hr].
        -- split.
           ++ cbn [inv pending_of]. split; [exact Hc' | split; [discriminate | split; [exact Hd'|]]].
              cbn [aw_ok]. intros p [<-|Hp]; rewrite Hget'; [rewrite N.eqb_refl; reflexivity|].
              destruct (p =? a); [reflexivity | apply Haw; assumption].
           ++ intros g Hr. left. eapply justified_by_core; [exact Hc' | reflexivity | exact Hr].
      * cbn [rd_step]. cbn [disciplined_from] in Hdisc.
        apply andb_true_iff in Hdisc. destruct Hdisc as [Hdisc _].
        apply andb_true_iff in Hdisc. destruct Hdisc as [Hnup Hsub].
        assert (~ In a up) as Hnotup by (apply mem_false_In; destruct (mem a up); [discriminate | reflexivity]).
        assert (down_ok c (h ++ [PeerEstablished a (f0 :: fr)]) (a :: up)) as Hd'
            by (apply (down_step c h up (PeerEstablished a (f0 :: fr))); [assumption | intros ? ? X; discriminate X]).
        destruct (p_get m a) as [old|] eqn:Hg.
        -- pose proof (reestablish_core c h up m cnt a old f0 fr Hcore Hdown Hg Hnotup Hsub) as Hc'.
           cbn zeta in Hc'.
           pose proof (reestablish_wf m a old (f0 :: fr) ltac:(discriminate)) as Hwf.
           destruct (reestablish m a old (f0 :: fr)) as [m' out]; cbn [fst snd] in Hc', Hwf |- *.
           cbn [up_after]. split.
           ++ cbn [inv pending_of aw_ok]. split; [|split; [|split; [exact Hd' | exact I]]].
              ** eapply core_ext; [|exact Hc']. intros g. cbn beta. rewrite releases_in_snoc0 by reflexivity. reflexivity.
              ** apply Hwf. pose proof (co_vals _ _ _ _ Hcore) as Hv. rewrite Forall_forall in *. intros x Hx. apply (Hv x Hx).
           ++ intros g Hr. left. rewrite releases_in_snoc0 in Hr by reflexivity.
              eapply justified_by_core; [exact Hc' | reflexivity | exact Hr].
        -- cbn [fst snd up_after]. split.
           ++ cbn [inv pending_of]. split; [|split; [assumption | split; [exact Hd'|]]].
              ** apply noop_core; [assumption|]. intros p g Hb. cbn [unblocks].
                 destruct (a =? p) eqn:E; [|reflexivity]. apply N.eqb_eq in E; subst p.
                 rewrite <- (co_ref _ _ _ _ Hcore) in Hb. unfold get_or_nil in Hb. rewrite Hg in Hb. discriminate.
              ** cbn [aw_ok]. intros p [<-|Hp]; [assumption | apply Haw; assumption].
           ++ intros g Hr. cbn [releases_in fold_right] in Hr. lia.
    + (* EOR while awaiting start: ignored; the sender is up, hence not pending *)
      cbn [rd_step fst snd up_after]. cbn [disciplined_from] in Hdisc.
      apply andb_true_iff in Hdisc. destruct Hdisc as [Hup _]. apply mem_In in Hup.
      split.
      * cbn [inv pending_of]. split; [|split; [assumption | split; [|exact Haw]]].
        -- apply noop_core; [assumption|]. intros p g Hb. cbn [unblocks].
           destruct (a =? p) eqn:E; [|reflexivity]. apply N.eqb_eq in E; subst p.
           rewrite <- (co_ref _ _ _ _ Hcore) in Hb. unfold get_or_nil in Hb. rewrite (Haw a Hup) in Hb. discriminate.
        -- apply (down_step c h up (EorReceived a f)); [assumption|]. intros a' f' X; inversion X; subst; assumption.
      * intros g Hr. cbn [releases_in fold_right] in Hr. lia.
    + cbn [rd_step].
      pose proof (remove_peer_core c h m cnt a (PeerWithdrawn a) Hcore (or_intror eq_refl)) as Hc'.
      pose proof (remove_peer_get m a) as Hget'.
      destruct (remove_peer m a) as [m' out]; cbn [fst snd] in Hc', Hget'.
      assert (down_ok c (h ++ [PeerWithdrawn a]) (up_after up (PeerWithdrawn a))) as Hd'
          by (apply (down_step c h up (PeerWithdrawn a)); [assumption | intros ? ? X; discriminate X]).
      destruct m' as [|e0 r0]; cbn [finish_awaiting fst snd].
      * split.
        -- cbn [inv]. intros g. rewrite releases_in_snoc0 by reflexivity. apply (core_empty_done c _ _ g Hc').
        -- intros g Hr. left. rewrite releases_in_snoc0 in Hr by reflexivity.
           eapply justified_by_core; [exact Hc' | reflexivity | exact Hr].
      * split.
        -- cbn [inv pending_of]. split; [exact Hc' | split; [discriminate | split; [exact Hd'|]]].
           cbn [aw_ok up_after]. intros p Hp. apply filter_In in Hp. destruct Hp as [Hp _].
           rewrite Hget'. destruct (p =? a); [reflexivity | apply Haw; assumption].
        -- intros g Hr. left. eapply justified_by_core; [exact Hc' | reflexivity | exact Hr].
    + cbn [rd_step fst snd up_after]. split.
      * cbn [inv pending_of]. split; [|split; [assumption | split; [|exact Haw]]].
        -- apply noop_core; [assumption|]. intros; reflexivity.
        -- apply (down_step c h up TimerExpired); [assumption | intros ? ? X; discriminate X].
      * intros g Hr. right; reflexivity.
  - (* ---------------- Deferring *)
    destruct Hinv as [Hcore [Hne [Hdown _]]]. cbn [pending_of] in *.
    destruct i as [a fams|a f|a|].
    + destruct fams as [|f0 fr].
      * cbn [rd_step].
        pose proof (remove_peer_core c h m cnt a (PeerEstablished a []) Hcore (or_introl eq_refl)) as Hc'.
        destruct (remove_peer m a) as [m' out]; cbn [fst snd] in Hc'.
        assert (down_ok c (h ++ [PeerEstablished a []]) (a :: up)) as Hd'
            by (apply (down_step c h up (PeerEstablished a [])); [assumption | intros ? ? X; discriminate X]).
        destruct m' as [|e0 r0]; cbn [finish_deferring fst snd up_after].
        -- split.
           ++ cbn [inv]. intros g. rewrite releases_in_snoc0 by reflexivity. apply (core_empty_done c _ _ g Hc').
           ++ intros g Hr. left. rewrite releases_in_snoc0 in Hr by reflexivity.
              eapply justified_by_core; [exact Hc' | reflexivity | exact Hr].
        -- split.
           ++ cbn [inv pending_of aw_ok]. split; [exact Hc' | split; [discriminate | split; [exact Hd' | exact I]]].
           ++ intros g Hr. left. eapply justified_by_core; [exact Hc' | reflexivity | exact Hr].
      * cbn [rd_step]. cbn [disciplined_from] in Hdisc.
        apply andb_true_iff in Hdisc. destruct Hdisc as [Hdisc _].
        apply andb_true_iff in Hdisc. destruct Hdisc as [Hnup Hsub].
        assert (~ In a up) as Hnotup by (apply mem_false_In; destruct (mem a up); [discriminate | reflexivity]).
        assert (down_ok c (h ++ [PeerEstablished a (f0 :: fr)]) (a :: up)) as Hd'
            by (apply (down_step c h up (PeerEstablished a (f0 :: fr))); [assumption | intros ? ? X; discriminate X]).
        destruct (p_get m a) as [old|] eqn:Hg.
        -- pose proof (reestablish_core c h up m cnt a old f0 fr Hcore Hdown Hg Hnotup Hsub) as Hc'.
           cbn zeta in Hc'.
           pose proof (reestablish_wf m a old (f0 :: fr) ltac:(discriminate)) as Hwf.
           destruct (reestablish m a old (f0 :: fr)) as [m' out]; cbn [fst snd] in Hc', Hwf |- *.
           cbn [up_after]. split.
           ++ cbn [inv pending_of aw_ok]. split; [exact Hc' | split; [|split; [exact Hd' | exact I]]].
              apply Hwf. pose proof (co_vals _ _ _ _ Hcore) as Hv. rewrite Forall_forall in *. intros x Hx. apply (Hv x Hx).
           ++ intros g Hr. left. eapply justified_by_core; [exact Hc' | reflexivity | exact Hr].
        -- cbn [fst snd up_after]. split.
           ++ cbn [inv pending_of aw_ok]. split; [|split; [assumption | split; [exact Hd' | exact I]]].
              apply noop_core; [assumption|]. intros p g Hb. cbn [unblocks].
              destruct (a =? p) eqn:E; [|reflexivity]. apply N.eqb_eq in E; subst p.
              rewrite <- (co_ref _ _ _ _ Hcore) in Hb. unfold get_or_nil in Hb. rewrite Hg in Hb. discriminate.
           ++ intros g Hr. cbn [releases_in fold_right] in Hr. lia.
    + (* End-of-RIB *)
      cbn [rd_step]. cbn [disciplined_from] in Hdisc.
      apply andb_true_iff in Hdisc. destruct Hdisc as [Hup _]. apply mem_In in Hup.
      assert (down_ok c (h ++ [EorReceived a f]) up) as Hd'
          by (apply (down_step c h up (EorReceived a f)); [assumption | intros a' f' X; inversion X; subst; assumption]).
      destruct (p_get m a) as [ps|] eqn:Hg.
      * destruct (old_nodup c _ _ _ _ _ Hcore Hg) as [Hnd Hpsne].
        set (ps' := fremove f ps).
        set (out := if mem f ps && negb (any_has (match ps' with [] => p_remove m a | _ :: _ => p_set m a ps' end) f)
                    then [FamilyDeferralComplete f] else []).
        assert (core c (h ++ [EorReceived a f]) (upd m a ps') (fun g => (cnt g + releases_in g out)%nat)) as Hc'.
        { apply upd_core with (old := ps); try assumption.
          - apply NoDup_filter; assumption.
          - intros g. subst ps'. rewrite mem_fremove. cbn [unblocks]. rewrite N.eqb_refl. cbn [andb].
            rewrite (N.eqb_sym f g). reflexivity.
          - intros q g Hq. cbn [unblocks]. assert (a =? q = false) as -> by lia. reflexivity.
          - intros g. subst out. fold (upd m a ps').
            destruct (g =? f) eqn:Egf.
            + apply N.eqb_eq in Egf; subst g. subst ps'. rewrite mem_fremove, N.eqb_refl, andb_false_r. cbn [negb].
              rewrite andb_true_r.
              destruct (mem f ps && negb (any_has (upd m a (fremove f ps)) f)); cbn [releases_in fold_right released_by];
                [rewrite N.eqb_refl|]; reflexivity.
            + assert (mem g ps && negb (mem g ps') = false) as ->.
              { subst ps'. rewrite mem_fremove, Egf. cbn [negb]. rewrite andb_true_r. destruct (mem g ps); reflexivity. }
              cbn [andb b2n].
              destruct (mem f ps && negb (any_has (upd m a ps') f)); cbn [releases_in fold_right released_by];
                [rewrite (N.eqb_sym f g), Egf|]; reflexivity. }
        fold (upd m a ps'). fold out.
        destruct (upd m a ps') as [|e0 r0] eqn:Eupd; cbn [fst snd up_after].
        -- split.
           ++ cbn [inv]. intros g. rewrite releases_in_snoc0 by reflexivity. apply (core_empty_done c _ _ g Hc').
           ++ intros g Hr. left. rewrite releases_in_snoc0 in Hr by reflexivity.
              eapply justified_by_core; [exact Hc' | reflexivity | exact Hr].
        -- split.
           ++ cbn [inv pending_of aw_ok]. split; [exact Hc' | split; [discriminate | split; [exact Hd' | exact I]]].
           ++ intros g Hr. left. eapply justified_by_core; [exact Hc' | reflexivity | exact Hr].
      * destruct m as [|e0 r0]; [congruence|]. cbn [fst snd up_after]. split.
        -- cbn [inv pending_of aw_ok]. split; [|split; [discriminate | split; [exact Hd' | exact I]]].
           apply noop_core; [assumption|]. intros p g Hb. cbn [unblocks].
           destruct (a =? p) eqn:E; [|reflexivity]. apply N.eqb_eq in E; subst p.
           rewrite <- (co_ref _ _ _ _ Hcore) in Hb. unfold get_or_nil in Hb. rewrite Hg in Hb. discriminate.
        -- intros g Hr. cbn [releases_in fold_right] in Hr. lia.
    + cbn [rd_step].
      pose proof (remove_peer_core c h m cnt a (PeerWithdrawn a) Hcore (or_intror eq_refl)) as Hc'.
      destruct (remove_peer m a) as [m' out]; cbn [fst snd] in Hc'.
      assert (down_ok c (h ++ [PeerWithdrawn a]) (up_after up (PeerWithdrawn a))) as Hd'
          by (apply (down_step c h up (PeerWithdrawn a)); [assumption | intros ? ? X; discriminate X]).
      destruct m' as [|e0 r0]; cbn [finish_deferring fst snd].
      * split.
        -- cbn [inv]. intros g. rewrite releases_in_snoc0 by reflexivity. apply (core_empty_done c _ _ g Hc').
        -- intros g Hr. left. rewrite releases_in_snoc0 in Hr by reflexivity.
           eapply justified_by_core; [exact Hc' | reflexivity | exact Hr].
      * split.
        -- cbn [inv pending_of aw_ok]. split; [exact Hc' | split; [discriminate | split; [exact Hd' | exact I]]].
        -- intros g Hr. left. eapply justified_by_core; [exact Hc' | reflexivity | exact Hr].
    + cbn [rd_step fst snd up_after]. split.
      * cbn [inv]. intros g. apply (timer_done c h m cnt g Hcore).
      * intros g Hr. right; reflexivity.
  - (* ---------------- Completed *)
    cbn [inv] in Hinv. assert (rd_step Completed i = (Completed, [])) as -> by (destruct i; reflexivity).
    cbn [fst snd]. split.
    + cbn [inv]. intros g. cbn [releases_in fold_right]. rewrite <- plus_n_O. apply Hinv.
    + intros g Hr. cbn [releases_in fold_right] in Hr. lia.
Qed.

End StepMain.

(* ------------------------------------------------------------ initial state *)
Section Run.
Variable c : config.
Hypothesis Hc : NoDup (map fst c).

Lemma initial_keys : forall (l : config) p, p_get (initial_pending l) p <> None -> In p (map fst l).
Proof.
  induction l as [|[k v] r IH]; intros p H; cbn in H; [congruence|].
  cbn [map fst]. destruct v as [|x xs]; cbn [app] in H.
  - right. apply IH. exact H.
  - cbn [p_get] in H. destruct (k =? p) eqn:E; [left; lia | right; apply IH; exact H].
Qed.

Lemma initial_get : forall (l : config) p g, NoDup (map fst l) ->
    mem g (get_or_nil (initial_pending l) p) = mem g (cfg_fams l p).
Proof.
  induction l as [|[k v] r IH]; intros p g Hn; [reflexivity|].
  cbn [map fst] in Hn. inversion Hn as [|x l' Hx Hl]; subst.
  unfold initial_pending. cbn [flat_map snd fst cfg_fams]. fold (initial_pending r).
  destruct (k =? p) eqn:E.
  - apply N.eqb_eq in E; subst p. destruct v as [|x xs]; cbn [app].
    + unfold get_or_nil. destruct (p_get (initial_pending r) k) eqn:G; [|reflexivity].
      exfalso. apply Hx. apply initial_keys. congruence.
    + unfold get_or_nil. cbn [p_get]. rewrite N.eqb_refl. apply mem_dedup.
  - destruct v as [|x xs]; cbn [app].
    + apply IH; assumption.
    + unfold get_or_nil. cbn [p_get]. rewrite E. apply IH; assumption.
Qed.

Lemma initial_keys_nodup : forall (l : config), NoDup (map fst l) -> NoDup (map fst (initial_pending l)).
Proof.
  induction l as [|[k v] r IH]; intros Hn; [constructor|].
  cbn [map fst] in Hn. inversion Hn as [|x l' Hx Hl]; subst.
  unfold initial_pending. cbn [flat_map snd fst]. fold (initial_pending r).
  destruct v as [|x xs]; cbn [app]; [apply IH; assumption|].
  cbn [map fst]. constructor; [|apply IH; assumption].
  intros Hi. apply Hx. apply in_map_iff in Hi. destruct Hi as [[k' v'] [Hk Hin]]. cbn [fst] in Hk; subst k'.
  apply initial_keys. rewrite (In_p_get _ _ _ (IH Hl) Hin). discriminate.
Qed.

Lemma initial_vals : forall (l : config), Forall val_ok (initial_pending l).
Proof.
  induction l as [|[k v] r IH]; [constructor|].
  unfold initial_pending. cbn [flat_map snd fst]. fold (initial_pending r).
  destruct v as [|x xs]; cbn [app]; [assumption|].
  constructor; [|assumption]. split; cbn [snd]; [apply dedup_NoDup | apply dedup_nonempty; discriminate].
Qed.

Lemma cfg_fams_entry : forall (l : config) k v, NoDup (map fst l) -> In (k, v) l -> cfg_fams l k = v.
Proof.
  induction l as [|[k' v'] r IH]; intros k v Hn Hin; [inversion Hin|].
  cbn [map fst] in Hn. inversion Hn as [|x l' Hx Hl]; subst. cbn [cfg_fams].
  destruct Hin as [He|Hin].
  - inversion He; subst. rewrite N.eqb_refl. reflexivity.
  - destruct (k' =? k) eqn:E; [|apply IH; assumption].
    apply N.eqb_eq in E; subst. exfalso. apply Hx. apply in_map_iff. exists (k, v). tauto.
Qed.

Lemma deferred_blocked0 : forall g, deferred c g = true -> spec_blocked c [] g = true.
Proof.
  intros g H. unfold deferred in H. apply existsb_exists in H. destruct H as [[k v] [Hin Hm]].
  apply spec_blocked_iff. exists k. unfold spec_blocks. cbn [forallb]. rewrite andb_true_r.
  rewrite (cfg_fams_entry c k v Hc Hin). exact Hm.
Qed.

Lemma inv_init : forall d, inv c [] [] (fst (rd_new c d)) (fun _ => 0%nat).
Proof.
  intros d. unfold rd_new.
  assert (core c [] (initial_pending c) (fun _ => 0%nat)) as Hcore.
  { constructor.
    - apply initial_keys_nodup; assumption.
    - apply initial_vals.
    - intros p g. rewrite initial_get by assumption. unfold spec_blocks. cbn [forallb]. rewrite andb_true_r. reflexivity.
    - intros g. destruct (deferred c g) eqn:D; [|reflexivity]. rewrite (deferred_blocked0 g D). reflexivity. }
  destruct (initial_pending c) as [|e0 r0] eqn:E; cbn [fst].
  - cbn [inv]. intros g. apply (core_empty_done c [] (fun _ => 0%nat) g Hcore).
  - cbn [inv pending_of aw_ok]. split; [exact Hcore | split; [discriminate | split]].
    + intros p _. right. intros g. unfold spec_blocks. cbn [forallb]. apply andb_true_r.
    + intros p [].
Qed.

Lemma inv_ext : forall h up s cnt cnt', (forall g, cnt g = cnt' g) -> inv c h up s cnt -> inv c h up s cnt'.
Proof.
  intros h up s cnt cnt' He H. destruct s as [m d|m|]; cbn [inv] in *.
  - destruct H as [H1 H2]. split; [eapply core_ext; eassumption | assumption].
  - destruct H as [H1 H2]. split; [eapply core_ext; eassumption | assumption].
  - intros g. rewrite <- He. apply H.
Qed.

Lemma inv_run : forall ins rest h up s cnt,
    inv c h up s cnt -> disciplined_from c up (ins ++ rest) = true ->
    exists up', disciplined_from c up' rest = true /\
                inv c (h ++ ins) up' (rd_run s ins) (fun g => (cnt g + releases g (rd_trace s ins))%nat).
Proof.
  induction ins as [|i r IH]; intros rest h up s cnt Hinv Hd; cbn [app rd_run rd_trace releases fold_right] in *.
  - exists up. split; [assumption|]. rewrite app_nil_r. eapply inv_ext; [|exact Hinv]. intros g; lia.
  - destruct (inv_step c h up s cnt i (r ++ rest) Hinv Hd) as [Hd' [Hinv' _]].
    destruct (IH rest _ _ _ _ Hinv' Hd') as [up' [Hd'' Hinv'']].
    exists up'. split; [assumption|]. rewrite <- app_assoc in Hinv''. cbn [app] in Hinv''.
    eapply inv_ext; [|exact Hinv'']. intros g. cbn beta.
    fold (releases g (rd_trace (fst (rd_step s i)) r)). lia.
Qed.

End Run.

(* ------------------------------------------------------------ final statements *)

Theorem C11_pending_refines_spec :
  forall (c : config) (d : option N) (ins : list rdinput) (p : peer) (f : fam),
    NoDup (map fst c) -> disciplined c ins = true ->
    let s := rd_run (fst (rd_new c d)) ins in
    is_completed s = false ->
    mem f (get_or_nil (pending_of s) p) = spec_blocks c ins p f.
Proof.
  intros c d ins p f Hc Hd s Hs.
  destruct (inv_run c ins [] [] [] _ _ (inv_init c Hc d)) as [up' [_ Hinv]]; [rewrite app_nil_r; exact Hd|].
  cbn [app] in Hinv. fold s in Hinv.
  destruct s as [m d'|m|]; cbn in Hs; try discriminate; destruct Hinv as [Hcore _]; apply (co_ref _ _ _ _ Hcore).
Qed.

Theorem C11_family_released_exactly_once :
  forall (c : config) (d : option N) (ins : list rdinput) (f : fam),
    NoDup (map fst c) -> disciplined c ins = true ->
    let s := rd_run (fst (rd_new c d)) ins in
    let n := releases f (rd_trace (fst (rd_new c d)) ins) in
    releases_in f (snd (rd_new c d)) = 0%nat
    /\ (n <= 1)%nat
    /\ (deferred c f = false -> n = 0%nat)
    /\ (is_completed s = true -> deferred c f = true -> n = 1%nat)
    /\ (is_completed s = false ->
        n = if deferred c f && negb (spec_blocked c ins f) then 1%nat else 0%nat).
Proof.
  intros c d ins f Hc Hd s n.
  destruct (inv_run c ins [] [] [] _ _ (inv_init c Hc d)) as [up' [_ Hinv]]; [rewrite app_nil_r; exact Hd|].
  cbn [app] in Hinv. fold s in Hinv.
  assert (releases_in f (snd (rd_new c d)) = 0%nat) as H0.
  { unfold rd_new. destruct (initial_pending c); reflexivity. }
  split; [exact H0|].
  destruct s as [m d'|m|] eqn:Es; cbn [inv is_completed] in *.
  - destruct Hinv as [Hcore _]. pose proof (co_cnt _ _ _ _ Hcore f) as Hn. cbn beta in Hn.
    fold n in Hn. cbn [plus] in Hn. unfold b2n in Hn.
    repeat split; try (intros; discriminate).
    + rewrite Hn. destruct (deferred c f && negb (spec_blocked c ins f)); lia.
    + intros Hdf. rewrite Hn, Hdf. reflexivity.
    + intros _. exact Hn.
  - destruct Hinv as [Hcore _]. pose proof (co_cnt _ _ _ _ Hcore f) as Hn. cbn beta in Hn.
    fold n in Hn. cbn [plus] in Hn. unfold b2n in Hn.
    repeat split; try (intros; discriminate).
    + rewrite Hn. destruct (deferred c f && negb (spec_blocked c ins f)); lia.
    + intros Hdf. rewrite Hn, Hdf. reflexivity.
    + intros _. exact Hn.
  - pose proof (Hinv f) as Hn. cbn beta in Hn. fold n in Hn. cbn [plus] in Hn. unfold b2n in Hn.
    repeat split; try (intros; discriminate).
    + rewrite Hn. destruct (deferred c f); lia.
    + intros Hdf. rewrite Hn, Hdf. reflexivity.
    + intros _ Hdf. rewrite Hn, Hdf. reflexivity.
Qed.

(* every single release is justified at the moment it happens *)
Theorem C11_release_only_when_unblocked_or_timer :
  forall (c : config) (d : option N) (h : list rdinput) (i : rdinput) (rest : list rdinput) (f : fam),
    NoDup (map fst c) -> disciplined c (h ++ i :: rest) = true ->
    let s := rd_run (fst (rd_new c d)) h in
    (releases_in f (snd (rd_step s i)) > 0)%nat ->
    spec_blocked c (h ++ [i]) f = false \/ i = TimerExpired.
Proof.
  intros c d h i rest f Hc Hd s Hr.
  destruct (inv_run c h (i :: rest) [] [] _ _ (inv_init c Hc d) Hd) as [up' [Hd' Hinv]].
  cbn [app] in Hinv. fold s in Hinv.
  destruct (inv_step c h up' s _ i rest Hinv Hd') as [_ [_ Hj]]. apply Hj. exact Hr.
Qed.

Example released_once_example :
  let c := [(1, [65537; 131073]); (2, [131073])] in
  let ins := [PeerEstablished 1 [65537; 131073]; PeerEstablished 2 [131073];
              EorReceived 1 65537; EorReceived 2 65537; EorReceived 2 131073; EorReceived 1 131073] in
  NoDup (map fst c) /\ disciplined c ins = true
  /\ is_completed (rd_run (fst (rd_new c (Some 360))) ins) = true
  /\ releases 65537 (rd_trace (fst (rd_new c (Some 360))) ins) = 1%nat
  /\ releases 131073 (rd_trace (fst (rd_new c (Some 360))) ins) = 1%nat.
Proof.
  cbv zeta. split; [repeat constructor; cbn; intuition congruence|]. vm_compute. repeat split; reflexivity.
Qed.

(* ------------------------------------------------ T2: peers without GR *)

Lemma finish_awaiting_get : forall m d out q,
    p_get (pending_of (fst (finish_awaiting m d out))) q = p_get m q.
Proof. intros [|e r] d out q; reflexivity. Qed.

Lemma finish_deferring_get : forall m out q,
    p_get (pending_of (fst (finish_deferring m out))) q = p_get m q.
Proof. intros [|e r] out q; reflexivity. Qed.

Lemma step_keys : forall s i q,
    p_get (pending_of (fst (rd_step s i))) q <> None -> p_get (pending_of s) q <> None.
Proof.
  intros s i q H. destruct s as [m d|m|]; [| |destruct i; cbn in H; congruence]; cbn [pending_of].
  - destruct i as [a fams|a f|a|]; cbn [rd_step] in H; try exact H.
    + destruct fams as [|f0 fr].
      * destruct (remove_peer m a) as [m' out] eqn:E. rewrite finish_awaiting_get in H.
        change m' with (fst (m', out)) in H. rewrite <- E, remove_peer_get in H. destruct (q =? a); congruence.
      * destruct (p_get m a) as [old|] eqn:G; [|exact H].
        unfold reestablish in H. cbn [fst pending_of] in H. rewrite p_get_p_set in H.
        destruct (q =? a) eqn:Eq; [|exact H]. apply N.eqb_eq in Eq; subst. congruence.
    + destruct (remove_peer m a) as [m' out] eqn:E. rewrite finish_awaiting_get in H.
      change m' with (fst (m', out)) in H. rewrite <- E, remove_peer_get in H. destruct (q =? a); congruence.
  - destruct i as [a fams|a f|a|]; cbn [rd_step] in H.
    + destruct fams as [|f0 fr].
      * destruct (remove_peer m a) as [m' out] eqn:E. rewrite finish_deferring_get in H.
        change m' with (fst (m', out)) in H. rewrite <- E, remove_peer_get in H. destruct (q =? a); congruence.
      * destruct (p_get m a) as [old|] eqn:G; [|exact H].
        unfold reestablish in H. cbn [fst pending_of] in H. rewrite p_get_p_set in H.
        destruct (q =? a) eqn:Eq; [|exact H]. apply N.eqb_eq in Eq; subst. congruence.
    + destruct (p_get m a) as [ps|] eqn:G.
      * fold (upd m a (fremove f ps)) in H.
        assert (p_get (upd m a (fremove f ps)) q <> None) as H'.
        { destruct (upd m a (fremove f ps)) as [|e0 r0]; cbn [fst pending_of] in H; [cbn in H; congruence | exact H]. }
        unfold upd in H'. destruct (fremove f ps).
        -- rewrite p_get_p_remove in H'. destruct (q =? a); congruence.
        -- rewrite p_get_p_set in H'. destruct (q =? a) eqn:Eq; [|exact H']. apply N.eqb_eq in Eq; subst. congruence.
      * destruct m as [|e0 r0]; cbn in H; [congruence | exact H].
    + destruct (remove_peer m a) as [m' out] eqn:E. rewrite finish_deferring_get in H.
      change m' with (fst (m', out)) in H. rewrite <- E, remove_peer_get in H. destruct (q =? a); congruence.
    + cbn in H. congruence.
Qed.

Lemma run_keys : forall ins s q,
    p_get (pending_of (rd_run s ins)) q <> None -> p_get (pending_of s) q <> None.
Proof.
  induction ins as [|i r IH]; intros s q H; cbn [rd_run] in H; [exact H|].
  apply step_keys with i. apply IH. exact H.
Qed.

Lemma initial_get_none : forall (l : config) p, NoDup (map fst l) -> cfg_fams l p = [] ->
    p_get (initial_pending l) p = None.
Proof.
  intros l p Hn He. pose proof (initial_vals l) as Hv.
  destruct (p_get (initial_pending l) p) as [s|] eqn:G; [|reflexivity]. exfalso.
  pose proof (p_get_In _ _ _ G) as Hin. rewrite Forall_forall in Hv. destruct (Hv _ Hin) as [_ Hne]. cbn [snd] in Hne.
  destruct s as [|x xs]; [congruence|].
  pose proof (initial_get l p x Hn) as Hm. unfold get_or_nil in Hm. rewrite G, He in Hm.
  unfold mem in Hm. cbn [existsb] in Hm. rewrite N.eqb_refl in Hm. discriminate.
Qed.

Theorem C11_non_gr_peer_never_blocks :
  forall (c : config) (d : option N) (ins : list rdinput) (p : peer),
    let s := rd_run (fst (rd_new c d)) ins in
    let s' := fst (rd_step s (PeerEstablished p [])) in
    (NoDup (map fst c) -> cfg_fams c p = [] -> p_get (pending_of s) p = None)
    /\ p_get (pending_of s') p = None
    /\ (forall q, q <> p -> p_get (pending_of s') q = p_get (pending_of s) q)
    /\ ((forall q, q <> p -> p_get (pending_of s) q = None) -> is_completed s' = true).
Proof.
  intros c d ins p s s'. split; [|split; [|split]].
  - intros Hn He. destruct (p_get (pending_of s) p) eqn:G; [|reflexivity]. exfalso.
    assert (p_get (pending_of (fst (rd_new c d))) p <> None) as H0 by (apply run_keys with ins; fold s; congruence).
    apply H0. unfold rd_new. pose proof (initial_get_none c p Hn He) as Hi.
    destruct (initial_pending c); cbn [fst pending_of]; [reflexivity | exact Hi].
  - subst s'. destruct s as [m d'|m|]; cbn [rd_step]; [| |reflexivity].
    + destruct (remove_peer m p) as [m' out] eqn:E. rewrite finish_awaiting_get.
      change m' with (fst (m', out)). rewrite <- E, remove_peer_get, N.eqb_refl. reflexivity.
    + destruct (remove_peer m p) as [m' out] eqn:E. rewrite finish_deferring_get.
      change m' with (fst (m', out)). rewrite <- E, remove_peer_get, N.eqb_refl. reflexivity.
  - intros q Hq. subst s'. destruct s as [m d'|m|]; cbn [rd_step]; [| |reflexivity].
    + destruct (remove_peer m p) as [m' out] eqn:E. rewrite finish_awaiting_get.
      change m' with (fst (m', out)). rewrite <- E, remove_peer_get.
      assert (q =? p = false) as -> by lia. reflexivity.
    + destruct (remove_peer m p) as [m' out] eqn:E. rewrite finish_deferring_get.
      change m' with (fst (m', out)). rewrite <- E, remove_peer_get.
      assert (q =? p = false) as -> by lia. reflexivity.
  - intros Hall. subst s'.
    assert (forall m, (forall q, q <> p -> p_get m q = None) -> fst (remove_peer m p) = []) as Hrm.
    { intros m Hm. destruct (fst (remove_peer m p)) as [|[k v] r] eqn:E; [reflexivity|]. exfalso.
      pose proof (remove_peer_get m p k) as G. rewrite E in G. cbn [p_get] in G. rewrite N.eqb_refl in G.
      destruct (k =? p) eqn:Ek; [discriminate|]. rewrite Hm in G by lia. discriminate. }
    destruct s as [m d'|m|]; cbn [rd_step pending_of] in *; [| |reflexivity].
    + specialize (Hrm m Hall). destruct (remove_peer m p) as [m' out]. cbn [fst] in Hrm. subst m'. reflexivity.
    + specialize (Hrm m Hall). destruct (remove_peer m p) as [m' out]. cbn [fst] in Hrm. subst m'. reflexivity.
Qed.

Example non_gr_example :
  let s := rd_run (fst (rd_new [(1, [65537]); (2, [])] None)) [] in
  p_get (pending_of s) 2 = None /\ p_get (pending_of s) 1 = Some [65537]
  /\ is_completed (fst (rd_step s (PeerEstablished 1 []))) = true.
Proof. vm_compute. repeat split; reflexivity. Qed.
