(* Proofs about Model/Deferral.v against Spec/DeferralSpec.v (property C11). *)
From Coq Require Import List NArith Bool Lia ZifyBool ZifyNat ZifyN.
From RB Require Import Base.Val Model.Deferral Spec.DeferralSpec.
Import ListNotations.
Open Scope N_scope.

Definition pending_of (s : rdstate) : pmap :=
  match s with AwaitingStart m _ => m | Deferring m => m | Completed => [] end.

(* ------------------------------------------------------------------ basics *)

Lemma mem_In : forall x l, mem x l = true <-> In x l.
Proof.
  intros x l; unfold mem; rewrite existsb_exists; split.
  - intros [y [Hy He]]. apply N.eqb_eq in He. subst; assumption.
  - intros H; exists x; split; [assumption | apply N.eqb_refl].
Qed.

Lemma mem_false_In : forall x l, mem x l = false <-> ~ In x l.
Proof.
  intros x l; rewrite <- mem_In. destruct (mem x l); split; congruence.
Qed.

Lemma dedup_In : forall l x, In x (dedup l) <-> In x l.
Proof.
  induction l as [|a r IH]; intros x; cbn [dedup]; [tauto|].
  destruct (mem a r) eqn:Hm.
  - rewrite IH. apply mem_In in Hm. cbn [In]. split; [tauto|]. intros [->|H]; assumption.
  - cbn [In]. rewrite IH. tauto.
Qed.

Lemma dedup_NoDup : forall l, NoDup (dedup l).
Proof.
  induction l as [|a r IH]; cbn [dedup]; [constructor|].
  destruct (mem a r) eqn:Hm; [assumption|].
  constructor; [|assumption]. rewrite dedup_In. apply mem_false_In; assumption.
Qed.

Lemma mem_dedup : forall l x, mem x (dedup l) = mem x l.
Proof.
  intros l x. destruct (mem x l) eqn:H.
  - apply mem_In. apply dedup_In. apply mem_In; assumption.
  - apply mem_false_In. rewrite dedup_In. apply mem_false_In; assumption.
Qed.

Lemma dedup_nonempty : forall l, l <> [] -> dedup l <> [].
Proof.
  intros l Hl Hd. destruct l as [|a r]; [congruence|].
  assert (In a (dedup (a :: r))) as H by (apply dedup_In; left; reflexivity).
  rewrite Hd in H; inversion H.
Qed.

(* ------------------------------------------- T1: deferring <-> pending peers *)

Definition wf_pending (m : pmap) : Prop := m <> [] /\ Forall (fun e => snd e <> []) m.

Definition wf_state (s : rdstate) : Prop :=
  match s with Completed => True | _ => wf_pending (pending_of s) end.

Lemma Forall_p_remove : forall (P : peer * fset -> Prop) m a, Forall P m -> Forall P (p_remove m a).
Proof.
  intros P m a H. unfold p_remove. rewrite Forall_forall in *. intros x Hx.
  apply filter_In in Hx. apply H; tauto.
Qed.

Lemma Forall_p_set : forall (P : peer * fset -> Prop) m a s,
    Forall P m -> (forall k, P (k, s)) -> Forall P (p_set m a s).
Proof.
  intros P m a s H Hs. induction m as [|[k v] r IH]; cbn [p_set].
  - constructor; [apply Hs | constructor].
  - inversion H as [|x l Hx Hl]; subst. destruct (k =? a).
    + constructor; [apply Hs | assumption].
    + constructor; [assumption | apply IH; assumption].
Qed.

Lemma p_set_nonempty : forall m a s, p_set m a s <> [].
Proof. intros [|[k v] r] a s; cbn [p_set]; [|destruct (k =? a)]; discriminate. Qed.

Lemma finish_awaiting_wf : forall m d out,
    Forall (fun e => snd e <> []) m -> wf_state (fst (finish_awaiting m d out)).
Proof.
  intros m d out H. destruct m as [|e r]; cbn; [exact I|]. split; [discriminate | assumption].
Qed.

Lemma finish_deferring_wf : forall m out,
    Forall (fun e => snd e <> []) m -> wf_state (fst (finish_deferring m out)).
Proof.
  intros m out H. destruct m as [|e r]; cbn; [exact I|]. split; [discriminate | assumption].
Qed.

Lemma remove_peer_Forall : forall m a,
    Forall (fun e => snd e <> []) m -> Forall (fun e => snd e <> []) (fst (remove_peer m a)).
Proof.
  intros m a H. unfold remove_peer. destruct (p_get m a); cbn [fst]; [apply Forall_p_remove|]; assumption.
Qed.

Lemma reestablish_wf : forall m a old fams,
    fams <> [] -> Forall (fun e => snd e <> []) m ->
    wf_pending (fst (reestablish m a old fams)).
Proof.
  intros m a old fams Hf H. unfold reestablish; cbn [fst]. split.
  - apply p_set_nonempty.
  - apply Forall_p_set; [assumption|]. intros k; cbn [snd]. apply dedup_nonempty; assumption.
Qed.

Lemma rd_step_wf : forall s i, wf_state s -> wf_state (fst (rd_step s i)).
Proof.
  intros s i Hs. destruct s as [m d|m|]; [| |destruct i; exact I].
  - destruct Hs as [Hne HF].
    destruct i as [a fams|a f|a|]; cbn [rd_step].
    + destruct fams as [|f0 fr].
      * destruct (remove_peer m a) as [m' out] eqn:E.
        apply finish_awaiting_wf. change m' with (fst (m', out)). rewrite <- E.
        apply remove_peer_Forall; assumption.
      * destruct (p_get m a) as [old|].
        -- destruct (reestablish m a old (f0 :: fr)) as [m' out] eqn:E. cbn [fst wf_state pending_of].
           change m' with (fst (m', out)). rewrite <- E. apply reestablish_wf; [discriminate | assumption].
        -- cbn. split; assumption.
    + cbn. split; assumption.
    + destruct (remove_peer m a) as [m' out] eqn:E.
      apply finish_awaiting_wf. change m' with (fst (m', out)). rewrite <- E.
      apply remove_peer_Forall; assumption.
    + cbn. split; assumption.
  - destruct Hs as [Hne HF].
    destruct i as [a fams|a f|a|]; cbn [rd_step].
    + destruct fams as [|f0 fr].
      * destruct (remove_peer m a) as [m' out] eqn:E.
        apply finish_deferring_wf. change m' with (fst (m', out)). rewrite <- E.
        apply remove_peer_Forall; assumption.
      * destruct (p_get m a) as [old|].
        -- destruct (reestablish m a old (f0 :: fr)) as [m' out] eqn:E. cbn [fst wf_state pending_of].
           change m' with (fst (m', out)). rewrite <- E. apply reestablish_wf; [discriminate | assumption].
        -- cbn. split; assumption.
    + destruct (p_get m a) as [ps|].
      * destruct (fremove f ps) as [|g gr] eqn:Ef.
        -- destruct (p_remove m a) as [|e r] eqn:Er; cbn [fst]; [exact I|].
           cbn. split; [discriminate|]. rewrite <- Er. apply Forall_p_remove; assumption.
        -- destruct (p_set m a (g :: gr)) as [|e r] eqn:Es; cbn [fst]; [exact I|].
           cbn. split; [discriminate|]. rewrite <- Es. apply Forall_p_set; [assumption|].
           intros k; cbn; discriminate.
      * destruct m as [|e r]; cbn [fst]; [exact I|]. cbn. split; assumption.
    + destruct (remove_peer m a) as [m' out] eqn:E.
      apply finish_deferring_wf. change m' with (fst (m', out)). rewrite <- E.
      apply remove_peer_Forall; assumption.
    + exact I.
Qed.

Lemma rd_new_wf : forall gr_peers d, wf_state (fst (rd_new gr_peers d)).
Proof.
  intros gr_peers d. unfold rd_new.
  assert (Forall (fun e : peer * fset => snd e <> []) (initial_pending gr_peers)) as HF.
  { unfold initial_pending. induction gr_peers as [|[k v] r IH]; cbn [flat_map]; [constructor|].
    destruct v as [|f fr]; cbn [snd fst app]; [assumption|].
    constructor; [|assumption]. cbn [snd]. apply dedup_nonempty; discriminate. }
  destruct (initial_pending gr_peers) as [|e r]; cbn [fst]; [exact I|]. cbn. split; [discriminate | assumption].
Qed.

Lemma rd_run_wf : forall ins s, wf_state s -> wf_state (rd_run s ins).
Proof.
  induction ins as [|i r IH]; intros s Hs; cbn [rd_run]; [assumption|].
  apply IH. apply rd_step_wf; assumption.
Qed.

Theorem C11_deferring_implies_pending :
  forall (gr_peers : list (peer * list fam)) (d : option N) (ins : list rdinput),
    let s := rd_run (fst (rd_new gr_peers d)) ins in
    (is_completed s = false ->
       pending_of s <> [] /\
       forall p fs, In (p, fs) (pending_of s) -> exists f, In f fs)
    /\ (is_completed s = true -> pending_of s = []).
Proof.
  intros gr_peers d ins s.
  assert (wf_state s) as Hwf by (apply rd_run_wf; apply rd_new_wf).
  split.
  - intros Hc. destruct s as [m d'|m|]; cbn in Hc; try discriminate;
      destruct Hwf as [Hne HF]; (split; [assumption|]);
      intros p fs Hin; rewrite Forall_forall in HF; specialize (HF _ Hin); cbn in HF;
      destruct fs as [|f fr]; [congruence | exists f; left; reflexivity
                               | congruence | exists f; left; reflexivity].
  - intros Hc. destruct s; cbn in Hc; try discriminate. reflexivity.
Qed.

(* non-vacuity: a run that is still deferring, and one that has completed *)
Example deferring_example :
  let s := rd_run (fst (rd_new [(1, [65537; 131073]); (2, [131073])] (Some 360)))
                  [PeerEstablished 1 [65537; 131073]; EorReceived 1 65537] in
  is_completed s = false /\ pending_of s = [(1, [131073]); (2, [131073])].
Proof. vm_compute. split; reflexivity. Qed.

Example completed_example :
  let s := rd_run (fst (rd_new [(1, [65537; 131073]); (2, [131073])] (Some 360)))
                  [PeerEstablished 1 [65537; 131073]; EorReceived 1 65537;
                   PeerWithdrawn 2; EorReceived 1 131073] in
  is_completed s = true.
Proof. vm_compute. reflexivity. Qed.

(* ---------------------------------------------------------------- finding C11-1
   (repaired in the repository by a `fix:` commit; Model/Deferral.v rd_step is
   the repaired behaviour).  The model of the code as it was released a family
   twice on a disciplined history: peer 2 (GR for IPv6 only) sends End-of-RIB
   for IPv4 after IPv4 was already released when peer 1 came up without GR. *)
Lemma C11_unfixed_released_twice :
  exists (c : config) (ins : list rdinput) (f : fam),
    disciplined c ins = true /\ deferred c f = true /\
    (releases f (rd_trace_unfixed (fst (rd_new c (Some 360%N))) ins) > 1)%nat.
Proof.
  exists [(1, [65537; 131073]); (2, [131073])],
         [PeerEstablished 1 []; PeerEstablished 2 [131073]; EorReceived 2 65537], 65537.
  vm_compute. repeat split; lia.
Qed.
