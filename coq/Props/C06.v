(* placeholder *)
