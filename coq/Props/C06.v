(* C06  The RIB's change stream reproduces the RIB.  Statements only: each
   theorem is closed by [exact], pinned by [Check] and followed by
   [Print Assumptions].

   Vocabulary (Spec/RibSpec.v): [elig_of t net] is the ranked list of eligible
   paths of a prefix ([] when the prefix is absent), [locrib_view t net] the same
   read off collect_loc_rib_paths, [id_of t net] the destination id of a live
   prefix, [step_t t o] / [step_cs t o] the table and the notifications produced
   by one operation, [consume app t s ops] runs a history and folds every
   notification into a consumer, [startup_deferral t ops] (start_deferral is issued
   only while the family holds no route), [consistent ops] (a Source token always denotes
   the same remote address) and [bounded t ops] (fewer than 2^24 destinations in
   the shard whenever an operation starts: the allocator's own debug_assert). *)
From Coq Require Import List NArith ZArith Bool.
From RB Require Import Base.Val Model.Rib Spec.RibSpec Proofs.RibInv2 Proofs.RibC02 Proofs.RibC06 Proofs.RibC06b.
Import ListNotations.
Open Scope N_scope.

(* After any history the destination ids of the live prefixes are pairwise distinct,
   and the allocator's used set is exactly the set of their local ids (no freed id
   is live, no live id is free). *)
Theorem dest_ids_unique :
  forall shard ops,
    bounded (empty_table shard) ops ->
    let t := run (empty_table shard) ops in
    NoDup (map (fun nd => d_id (snd nd)) (t_dests t))
    /\ NoDup (t_used t)
    /\ (forall l, In l (t_used t) <->
                  l < 16777216 /\ exists net d, In (net, d) (t_dests t) /\ d_id d = dest_id shard l).
Proof. exact C06_dest_ids_unique. Qed.
Check dest_ids_unique :
  forall shard ops,
    bounded (empty_table shard) ops ->
    let t := run (empty_table shard) ops in
    NoDup (map (fun nd => d_id (snd nd)) (t_dests t))
    /\ NoDup (t_used t)
    /\ (forall l, In l (t_used t) <->
                  l < 16777216 /\ exists net d, In (net, d) (t_dests t) /\ d_id d = dest_id shard l).
Print Assumptions dest_ids_unique.

(* Every notification of every operation (insert, replace, remove, drop, purges,
   stale / LLGR marking, next-hop flips, end of deferral) carries the prefix's new
   ranked eligible list ([] when the prefix is gone) and the prefix's destination id. *)
Theorem change_carries_current_list :
  forall shard ops o c,
    consistent (ops ++ [o]) ->
    let t := run (empty_table shard) ops in
    In c (step_cs t o) ->
    c_paths c = elig_of (step_t t o) (c_net c)
    /\ Some (c_dest_id c) = match id_of (step_t t o) (c_net c) with
                            | Some i => Some i
                            | None => id_of t (c_net c)
                            end.
Proof. exact C06_change_carries_current_list. Qed.
Check change_carries_current_list :
  forall shard ops o c,
    consistent (ops ++ [o]) ->
    let t := run (empty_table shard) ops in
    In c (step_cs t o) ->
    c_paths c = elig_of (step_t t o) (c_net c)
    /\ Some (c_dest_id c) = match id_of (step_t t o) (c_net c) with
                            | Some i => Some i
                            | None => id_of t (c_net c)
                            end.
Print Assumptions change_carries_current_list.

(* The flags are sound for skipping.  If every notification an operation emits for a
   prefix says best_changed = false (in particular if there is none), the content
   (source, attribute block, next hop) of the prefix's best path did not change; if
   every one says any_changed = false, the eligible list did not change.  (One
   operation may emit several notifications for a prefix: restale_llgr names every
   marked path; they all carry the same list.) *)
Theorem skip_flags_sound :
  forall shard ops o net,
    consistent (ops ++ [o]) ->
    let t := run (empty_table shard) ops in
    t_deferring t = false ->
    ((forall c, In c (step_cs t o) -> c_net c = net -> c_best_changed c = false) ->
     head_content (elig_of t net) = head_content (elig_of (step_t t o) net))
    /\ ((forall c, In c (step_cs t o) -> c_net c = net -> c_any_changed c = false) ->
        elig_of t net = elig_of (step_t t o) net).
Proof. exact C06_skip_flags_sound. Qed.
Check skip_flags_sound :
  forall shard ops o net,
    consistent (ops ++ [o]) ->
    let t := run (empty_table shard) ops in
    t_deferring t = false ->
    ((forall c, In c (step_cs t o) -> c_net c = net -> c_best_changed c = false) ->
     head_content (elig_of t net) = head_content (elig_of (step_t t o) net))
    /\ ((forall c, In c (step_cs t o) -> c_net c = net -> c_any_changed c = false) ->
        elig_of t net = elig_of (step_t t o) net).
Print Assumptions skip_flags_sound.

(* When the family is not deferring, a prefix for which an operation emits no
   notification keeps its eligible list. *)
Theorem silent_prefix_unchanged :
  forall shard ops o net,
    consistent (ops ++ [o]) ->
    let t := run (empty_table shard) ops in
    t_deferring t = false ->
    (forall c, In c (step_cs t o) -> c_net c <> net) ->
    elig_of t net = elig_of (step_t t o) net.
Proof. exact C06_silent_prefix_unchanged. Qed.
Check silent_prefix_unchanged :
  forall shard ops o net,
    consistent (ops ++ [o]) ->
    let t := run (empty_table shard) ops in
    t_deferring t = false ->
    (forall c, In c (step_cs t o) -> c_net c <> net) ->
    elig_of t net = elig_of (step_t t o) net.
Print Assumptions silent_prefix_unchanged.

(* Folding every notification of any history in which start_deferral is issued only
   on an empty family gives exactly collect_loc_rib_paths whenever the family is not
   deferring (in particular right after end_deferral). *)
Theorem fold_all_changes_eq_locrib :
  forall shard ops,
    consistent ops -> startup_deferral (empty_table shard) ops ->
    let t := run (empty_table shard) ops in
    t_deferring t = false ->
    forall net, snd (consume full_apply (empty_table shard) (fun _ => []) ops) net = locrib_view t net.
Proof. exact C06_fold_all_changes_eq_locrib. Qed.
Check fold_all_changes_eq_locrib :
  forall shard ops,
    consistent ops -> startup_deferral (empty_table shard) ops ->
    let t := run (empty_table shard) ops in
    t_deferring t = false ->
    forall net, snd (consume full_apply (empty_table shard) (fun _ => []) ops) net = locrib_view t net.
Print Assumptions fold_all_changes_eq_locrib.

(* A consumer that skips notifications flagged best_changed = false still holds
   the content of every prefix's best path. *)
Theorem best_only_consumer_correct :
  forall shard ops,
    consistent ops -> startup_deferral (empty_table shard) ops ->
    let t := run (empty_table shard) ops in
    t_deferring t = false ->
    forall net, snd (consume best_apply (empty_table shard) (fun _ => None) ops) net
                = head_content (locrib_view t net).
Proof. exact C06_best_only_consumer_correct. Qed.
Check best_only_consumer_correct :
  forall shard ops,
    consistent ops -> startup_deferral (empty_table shard) ops ->
    let t := run (empty_table shard) ops in
    t_deferring t = false ->
    forall net, snd (consume best_apply (empty_table shard) (fun _ => None) ops) net
                = head_content (locrib_view t net).
Print Assumptions best_only_consumer_correct.

(* An add-path consumer with a window of n paths (None: all) that skips
   notifications flagged any_changed = false still holds the first n eligible paths. *)
Theorem addpath_consumer_correct :
  forall shard ops n,
    consistent ops -> startup_deferral (empty_table shard) ops ->
    let t := run (empty_table shard) ops in
    t_deferring t = false ->
    forall net, snd (consume (addpath_apply n) (empty_table shard) (fun _ => limit n []) ops) net
                = limit n (locrib_view t net).
Proof. exact C06_addpath_consumer_correct. Qed.
Check addpath_consumer_correct :
  forall shard ops n,
    consistent ops -> startup_deferral (empty_table shard) ops ->
    let t := run (empty_table shard) ops in
    t_deferring t = false ->
    forall net, snd (consume (addpath_apply n) (empty_table shard) (fun _ => limit n []) ops) net
                = limit n (locrib_view t net).
Print Assumptions addpath_consumer_correct.

(* end_deferral clears the flag and reports every destination exactly once, with its
   eligible list (an empty list is a withdrawal), its id and both flags set; folding
   these reports alone gives the whole Loc-RIB. *)
Theorem end_deferral_emits_all :
  forall shard ops,
    let t := run (empty_table shard) ops in
    let t' := step_t t EndDeferral in
    let cs := step_cs t EndDeferral in
    t_deferring t' = false
    /\ NoDup (map c_net cs)
    /\ (forall net, (exists c, In c cs /\ c_net c = net) <-> id_of t' net <> None)
    /\ (forall c, In c cs -> c_paths c = elig_of t' (c_net c) /\ id_of t' (c_net c) = Some (c_dest_id c)
                             /\ c_best_changed c = true /\ c_any_changed c = true)
    /\ (forall net, fold_left full_apply cs (fun _ => []) net = locrib_view t' net).
Proof. exact C06_end_deferral_emits_all. Qed.
Check end_deferral_emits_all :
  forall shard ops,
    let t := run (empty_table shard) ops in
    let t' := step_t t EndDeferral in
    let cs := step_cs t EndDeferral in
    t_deferring t' = false
    /\ NoDup (map c_net cs)
    /\ (forall net, (exists c, In c cs /\ c_net c = net) <-> id_of t' net <> None)
    /\ (forall c, In c cs -> c_paths c = elig_of t' (c_net c) /\ id_of t' (c_net c) = Some (c_dest_id c)
                             /\ c_best_changed c = true /\ c_any_changed c = true)
    /\ (forall net, fold_left full_apply cs (fun _ => []) net = locrib_view t' net).
Print Assumptions end_deferral_emits_all.

(* While the family is deferring no mutator (insert, remove, drop, purges, stale
   marking, next-hop flips) reports anything. *)
Theorem quiet_while_deferring :
  forall shard ops o,
    let t := run (empty_table shard) ops in
    t_deferring t = true -> o <> EndDeferral -> step_cs t o = [].
Proof. exact C06_quiet_while_deferring. Qed.
Check quiet_while_deferring :
  forall shard ops o,
    let t := run (empty_table shard) ops in
    t_deferring t = true -> o <> EndDeferral -> step_cs t o = [].
Print Assumptions quiet_while_deferring.

(* The add-path consumer with a window of m paths holds exactly what
   collect_loc_rib_paths_limited(m) returns. *)
Theorem addpath_window_eq_limited :
  forall shard ops m,
    consistent ops -> startup_deferral (empty_table shard) ops ->
    let t := run (empty_table shard) ops in
    t_deferring t = false ->
    forall net, snd (consume (addpath_apply (Some (N.to_nat m))) (empty_table shard) (fun _ => []) ops) net
                = locrib_view_limited t m net.
Proof. exact C06_addpath_window_eq_limited. Qed.
Check addpath_window_eq_limited :
  forall shard ops m,
    consistent ops -> startup_deferral (empty_table shard) ops ->
    let t := run (empty_table shard) ops in
    t_deferring t = false ->
    forall net, snd (consume (addpath_apply (Some (N.to_nat m))) (empty_table shard) (fun _ => []) ops) net
                = locrib_view_limited t m net.
Print Assumptions addpath_window_eq_limited.

(* replaced_path_id of an insert names the path with the same (peer address, remote
   path id) that was replaced; the new path takes over that local path id and no
   other path of the prefix has it; None means the peer had no such path. *)
Theorem replaced_path_id_sound :
  forall shard ops s net rpid nh a filt nhinv lim c,
    let t := run (empty_table shard) ops in
    let o := Insert s net rpid nh a filt nhinv lim in
    In c (step_cs t o) ->
    match c_replaced c with
    | Some p =>
        (exists old, In old (entries_of t net) /\ ekey old = (s_addr s, rpid) /\ e_lpid old = p)
        /\ (forall e, In e (entries_of (step_t t o) net) -> e_lpid e = p -> ekey e = (s_addr s, rpid))
    | None =>
        forall old, In old (entries_of t net) -> ekey old <> (s_addr s, rpid)
    end.
Proof. exact C06_replaced_path_id. Qed.
Check replaced_path_id_sound :
  forall shard ops s net rpid nh a filt nhinv lim c,
    let t := run (empty_table shard) ops in
    let o := Insert s net rpid nh a filt nhinv lim in
    In c (step_cs t o) ->
    match c_replaced c with
    | Some p =>
        (exists old, In old (entries_of t net) /\ ekey old = (s_addr s, rpid) /\ e_lpid old = p)
        /\ (forall e, In e (entries_of (step_t t o) net) -> e_lpid e = p -> ekey e = (s_addr s, rpid))
    | None =>
        forall old, In old (entries_of t net) -> ekey old <> (s_addr s, rpid)
    end.
Print Assumptions replaced_path_id_sound.

(* Local path ids are pairwise distinct inside every destination. *)
Theorem lpids_unique :
  forall shard ops net, NoDup (map e_lpid (entries_of (run (empty_table shard) ops) net)).
Proof. exact C06_lpids_unique. Qed.
Check lpids_unique :
  forall shard ops net, NoDup (map e_lpid (entries_of (run (empty_table shard) ops) net)).
Print Assumptions lpids_unique.

(* A path that stays in a prefix's list under the same local path id keeps its
   content unless the notification names that id in replaced_path_id: an exporter
   that re-sends only ids new to it and the named one stays in step with the RIB. *)
Theorem delta_exporter_sound :
  forall shard ops o c e e',
    consistent (ops ++ [o]) ->
    let t := run (empty_table shard) ops in
    In c (step_cs t o) ->
    In e (elig_of t (c_net c)) -> In e' (c_paths c) ->
    e_lpid e = e_lpid e' -> c_replaced c <> Some (e_lpid e') ->
    content e = content e'.
Proof. exact C06_delta_exporter_sound. Qed.
Check delta_exporter_sound :
  forall shard ops o c e e',
    consistent (ops ++ [o]) ->
    let t := run (empty_table shard) ops in
    In c (step_cs t o) ->
    In e (elig_of t (c_net c)) -> In e' (c_paths c) ->
    e_lpid e = e_lpid e' -> c_replaced c <> Some (e_lpid e') ->
    content e = content e'.
Print Assumptions delta_exporter_sound.

(* IdAllocator::alloc returns the lowest local id that is not in use. *)
Theorem alloc_lowest_free :
  forall used, ~ In (alloc_id used) used /\ forall j, j < alloc_id used -> In j used.
Proof. exact C06_alloc_lowest_free. Qed.
Check alloc_lowest_free :
  forall used, ~ In (alloc_id used) used /\ forall j, j < alloc_id used -> In j used.
Print Assumptions alloc_lowest_free.
