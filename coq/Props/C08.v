(* C08  Hold and keepalive timing follows the negotiated value, and zero
   disables it.  Statements only: each theorem is closed by [exact], pinned by
   [Check] and followed by [Print Assumptions]. *)
From Coq Require Import List NArith Bool.
From RB Require Import Base.Val Model.Caps Model.Fsm Model.Timers Spec.TimersSpec Proofs.Timers.
Import ListNotations.
Open Scope N_scope.

(* (1) An OPEN accepted in OpenSent fixes the hold time in force at the
   smaller of the configured and the received value and the keepalive
   interval at a third of it, and asks the driver for exactly these timers. *)
Theorem negotiated_is_min :
  forall (c : conn) (asn id hold : N) (caps : list cap),
    c_state c = OpenSent ->
    (c_expected_asn c = 0 \/ c_expected_asn c = asn) ->
    let c' := fst (on_open c asn id hold caps) in
    let outs := snd (on_open c asn id hold caps) in
    let h := hold_in_force (c_local_hold c) hold in
    c_state c' = OpenConfirm
    /\ c_neg_hold c' = h
    /\ (h <> 0 -> c_ka c' = keepalive_of h /\ In (SetKa (keepalive_of h)) outs /\ In (SetHold h) outs).
Proof. exact C08_negotiated_is_min. Qed.
Check negotiated_is_min :
  forall (c : conn) (asn id hold : N) (caps : list cap),
    c_state c = OpenSent ->
    (c_expected_asn c = 0 \/ c_expected_asn c = asn) ->
    let c' := fst (on_open c asn id hold caps) in
    let outs := snd (on_open c asn id hold caps) in
    let h := hold_in_force (c_local_hold c) hold in
    c_state c' = OpenConfirm
    /\ c_neg_hold c' = h
    /\ (h <> 0 -> c_ka c' = keepalive_of h /\ In (SetKa (keepalive_of h)) outs /\ In (SetHold h) outs).
Print Assumptions negotiated_is_min.
