(* C08  Hold and keepalive timing follows the negotiated value, and zero
   disables it.  Statements only: each theorem is closed by [exact], pinned by
   [Check] and followed by [Print Assumptions].

   [task cur p r t0 b evs] is a connection task (PeerSession for role r) created
   at time t0 on a peer whose slot r is free, after session_loop's prologue and
   the timed events evs; [cur] is the driver of the tree under verification. *)
From Coq Require Import List NArith Bool.
From RB Require Import Base.Val Model.Caps Model.Fsm Model.Timers Spec.TimersSpec Proofs.Timers.
Import ListNotations.
Open Scope N_scope.

(* (1) An OPEN accepted in OpenSent fixes the hold time in force at the
   smaller of the configured and the received value and the keepalive
   interval at a third of it, and asks the driver for exactly these timers. *)
Theorem negotiated_is_min :
  forall (c : conn) (asn id hold : N) (caps : list cap),
    c_state c = OpenSent ->
    (c_expected_asn c = 0 \/ c_expected_asn c = asn) ->
    let c' := fst (on_open c asn id hold caps) in
    let outs := snd (on_open c asn id hold caps) in
    let h := hold_in_force (open_hold (c_local_hold c)) hold in
    c_state c' = OpenConfirm
    /\ c_neg_hold c' = h
    /\ (h <> 0 -> c_ka c' = keepalive_of h /\ In (SetKa (keepalive_of h)) outs /\ In (SetHold h) outs).
Proof. exact C08_negotiated_is_min. Qed.
Check negotiated_is_min :
  forall (c : conn) (asn id hold : N) (caps : list cap),
    c_state c = OpenSent ->
    (c_expected_asn c = 0 \/ c_expected_asn c = asn) ->
    let c' := fst (on_open c asn id hold caps) in
    let outs := snd (on_open c asn id hold caps) in
    let h := hold_in_force (open_hold (c_local_hold c)) hold in
    c_state c' = OpenConfirm
    /\ c_neg_hold c' = h
    /\ (h <> 0 -> c_ka c' = keepalive_of h /\ In (SetKa (keepalive_of h)) outs /\ In (SetHold h) outs).
Print Assumptions negotiated_is_min.

(* (2) Zero disables it: in every state a connection task can reach, by any
   timed sequence of arrivals, closes, pending updates, select iterations and
   steps of the other connection, once the OPEN exchange has negotiated hold
   time 0 neither the hold nor the keepalive timer is running. *)
Theorem zero_hold_disables_timers :
  forall (p : pfsm) (r : role) (t0 : N) (b : bool) (evs : list ev),
    slot p r = None -> zero_disables (fst (task cur p r t0 b evs)).
Proof. exact C08_zero_disables. Qed.
Check zero_hold_disables_timers :
  forall (p : pfsm) (r : role) (t0 : N) (b : bool) (evs : list ev),
    slot p r = None -> zero_disables (fst (task cur p r t0 b evs)).
Print Assumptions zero_hold_disables_timers.

(* (3) ... and such a session never dies of timer expiry: no event can make
   the task end with SessionDown(HoldTimerExpired). *)
Theorem zero_never_expires :
  forall (p : pfsm) (r : role) (t0 : N) (b : bool) (evs : list ev) (cn : conn) (e : ev),
    slot p r = None ->
    let d := fst (task cur p r t0 b evs) in
    my_conn d = Some cn -> after_open cn = true -> c_neg_hold cn = 0 ->
    existsb timer_down (snd (step cur d e)) = false.
Proof. exact C08_zero_never_expires. Qed.
Check zero_never_expires :
  forall (p : pfsm) (r : role) (t0 : N) (b : bool) (evs : list ev) (cn : conn) (e : ev),
    slot p r = None ->
    let d := fst (task cur p r t0 b evs) in
    my_conn d = Some cn -> after_open cn = true -> c_neg_hold cn = 0 ->
    existsb timer_down (snd (step cur d e)) = false.
Print Assumptions zero_never_expires.

(* (4) The hold timer is re-armed by every KEEPALIVE or UPDATE received and by
   nothing else: with hold time h > 0 in force, in every reachable state the
   hold deadline is exactly (time of the last KEEPALIVE/UPDATE/OPEN reception) + h. *)
Theorem hold_deadline_follows_reception :
  forall (p : pfsm) (r : role) (t0 : N) (b : bool) (evs : list ev),
    slot p r = None ->
    hold_follows_rx (fst (task cur p r t0 b evs)) (snd (task cur p r t0 b evs)).
Proof. exact C08_hold_follows_rx. Qed.
Check hold_deadline_follows_reception :
  forall (p : pfsm) (r : role) (t0 : N) (b : bool) (evs : list ev),
    slot p r = None ->
    hold_follows_rx (fst (task cur p r t0 b evs)) (snd (task cur p r t0 b evs)).
Print Assumptions hold_deadline_follows_reception.

(* (5) A session is torn down for hold-timer expiry only when nothing was
   received for the negotiated hold time. *)
Theorem expiry_only_after_silence :
  forall (p : pfsm) (r : role) (t0 : N) (b : bool) (evs : list ev) (cn : conn) (e : ev),
    slot p r = None ->
    let d := fst (task cur p r t0 b evs) in
    let tr := snd (task cur p r t0 b evs) in
    my_conn d = Some cn -> after_open cn = true -> c_neg_hold cn <> 0 ->
    existsb timer_down (snd (step cur d e)) = true ->
    exists t, last_rx None tr = Some t /\ t + c_neg_hold cn <= d_now d.
Proof. exact C08_expiry_only_after_silence. Qed.
Check expiry_only_after_silence :
  forall (p : pfsm) (r : role) (t0 : N) (b : bool) (evs : list ev) (cn : conn) (e : ev),
    slot p r = None ->
    let d := fst (task cur p r t0 b evs) in
    let tr := snd (task cur p r t0 b evs) in
    my_conn d = Some cn -> after_open cn = true -> c_neg_hold cn <> 0 ->
    existsb timer_down (snd (step cur d e)) = true ->
    exists t, last_rx None tr = Some t /\ t + c_neg_hold cn <= d_now d.
Print Assumptions expiry_only_after_silence.

(* (6) ... and then it is: once nothing was received for the hold time, the
   next iteration of the select loop ends the session with HoldTimerExpired
   and NOTIFICATION 4/0, whatever else is ready (short of a close request). *)
Theorem expiry_when_silent :
  forall (p : pfsm) (r : role) (t0 : N) (b : bool) (evs : list ev) (cn : conn) (t : N),
    slot p r = None ->
    let d := fst (task cur p r t0 b evs) in
    let tr := snd (task cur p r t0 b evs) in
    d_live d = true -> my_conn d = Some cn -> after_open cn = true -> c_neg_hold cn <> 0 ->
    last_rx None tr = Some t -> t + c_neg_hold cn <= d_now d -> d_close d = None ->
    exists l, snd (step cur d ESelect) = [l] /\ l_act l = AHoldFired
              /\ l_res l = Term RHoldExpired (Some (4, 0))
              /\ d_live (fst (step cur d ESelect)) = false.
Proof. exact C08_expiry_when_silent. Qed.
Check expiry_when_silent :
  forall (p : pfsm) (r : role) (t0 : N) (b : bool) (evs : list ev) (cn : conn) (t : N),
    slot p r = None ->
    let d := fst (task cur p r t0 b evs) in
    let tr := snd (task cur p r t0 b evs) in
    d_live d = true -> my_conn d = Some cn -> after_open cn = true -> c_neg_hold cn <> 0 ->
    last_rx None tr = Some t -> t + c_neg_hold cn <= d_now d -> d_close d = None ->
    exists l, snd (step cur d ESelect) = [l] /\ l_act l = AHoldFired
              /\ l_res l = Term RHoldExpired (Some (4, 0))
              /\ d_live (fst (step cur d ESelect)) = false.
Print Assumptions expiry_when_silent.

(* (7) The keepalive timer: when it fires (and the hold timer does not) a
   KEEPALIVE is queued, the session goes on, the hold deadline is untouched and
   the timer is re-armed with a third of the hold time. *)
Theorem keepalive_every_third :
  forall (p : pfsm) (r : role) (t0 : N) (b : bool) (evs : list ev) (cn : conn),
    slot p r = None ->
    let d := fst (task cur p r t0 b evs) in
    d_live d = true -> my_conn d = Some cn -> after_open cn = true -> 3 <= c_neg_hold cn ->
    d_close d = None -> enabled (d_now d) (d_hold d) = false -> enabled (d_now d) (d_ka d) = true ->
    let d' := fst (step cur d ESelect) in
    d_live d' = true /\ d_hold d' = d_hold d
    /\ d_ka d' = TAt (d_now d + keepalive_of (c_neg_hold cn))
    /\ exists l, snd (step cur d ESelect) = [l] /\ In (PConn (d_role d) (Send MKeepalive)) (l_outs l).
Proof. exact C08_keepalive_every_third. Qed.
Check keepalive_every_third :
  forall (p : pfsm) (r : role) (t0 : N) (b : bool) (evs : list ev) (cn : conn),
    slot p r = None ->
    let d := fst (task cur p r t0 b evs) in
    d_live d = true -> my_conn d = Some cn -> after_open cn = true -> 3 <= c_neg_hold cn ->
    d_close d = None -> enabled (d_now d) (d_hold d) = false -> enabled (d_now d) (d_ka d) = true ->
    let d' := fst (step cur d ESelect) in
    d_live d' = true /\ d_hold d' = d_hold d
    /\ d_ka d' = TAt (d_now d + keepalive_of (c_neg_hold cn))
    /\ exists l, snd (step cur d ESelect) = [l] /\ In (PConn (d_role d) (Send MKeepalive)) (l_outs l).
Print Assumptions keepalive_every_third.

(* (8) Record of finding C08-1 (repaired in the tree): with a driver that turns
   Set*Timer(0) into sleep(0 s), "zero disables it" is false - the hold slot
   is due at once and the next select tears the session down. *)
Theorem sleep0_driver_refuted :
  exists p r t0 b evs,
    slot p r = None /\
    (let d := fst (task pre_fix p r t0 b evs) in
     exists cn, d_live d = true /\ my_conn d = Some cn /\ after_open cn = true /\ c_neg_hold cn = 0
                /\ d_hold d = TAt (d_now d))
    /\ existsb timer_down (snd (task pre_fix p r t0 b (evs ++ [ESelect]))) = true.
Proof. exact C08_zero_hold_dies_with_sleep0_driver. Qed.
Check sleep0_driver_refuted :
  exists p r t0 b evs,
    slot p r = None /\
    (let d := fst (task pre_fix p r t0 b evs) in
     exists cn, d_live d = true /\ my_conn d = Some cn /\ after_open cn = true /\ c_neg_hold cn = 0
                /\ d_hold d = TAt (d_now d))
    /\ existsb timer_down (snd (task pre_fix p r t0 b (evs ++ [ESelect]))) = true.
Print Assumptions sleep0_driver_refuted.

(* (9) Record of finding C08-2 (repaired in the tree): with run_select dropping
   an AS-loop UPDATE before the FSM, the hold deadline does not follow the
   last reception and the session is torn down 25 s after an UPDATE with hold time 30. *)
Theorem as_loop_drop_refuted :
  exists p r t0 b evs,
    slot p r = None /\
    ~ hold_follows_rx (fst (task pre_fix p r t0 b evs)) (snd (task pre_fix p r t0 b evs))
    /\ existsb timer_down (snd (task pre_fix p r t0 b (evs ++ [ETick 25; ESelect]))) = true.
Proof. exact C08_as_loop_update_does_not_rearm_before_fix. Qed.
Check as_loop_drop_refuted :
  exists p r t0 b evs,
    slot p r = None /\
    ~ hold_follows_rx (fst (task pre_fix p r t0 b evs)) (snd (task pre_fix p r t0 b evs))
    /\ existsb timer_down (snd (task pre_fix p r t0 b (evs ++ [ETick 25; ESelect]))) = true.
Print Assumptions as_loop_drop_refuted.

(* (10) Record of finding C08-3 (repaired in the tree): a configured hold time of
   1 (or 2, or 65536) is advertised as 0; negotiating with the configured
   number instead of the advertised one puts hold time 1 (resp. the peer's
   value) in force where the two advertised values give 0. *)
Theorem raw_local_hold_refuted :
  exists (local remote : N),
    open_hold local = 0 /\ hold_in_force (open_hold local) remote = 0 /\ N.min local remote = 1
    /\ open_hold 65536 = 0 /\ N.min 65536 remote = remote /\ remote <> 0.
Proof. exact C08_raw_local_hold_refuted. Qed.
Check raw_local_hold_refuted :
  exists (local remote : N),
    open_hold local = 0 /\ hold_in_force (open_hold local) remote = 0 /\ N.min local remote = 1
    /\ open_hold 65536 = 0 /\ N.min 65536 remote = remote /\ remote <> 0.
Print Assumptions raw_local_hold_refuted.
