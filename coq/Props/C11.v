(* C11  Restarting speaker selects nothing until all helpers sent EOR or the
   timer fires.  Statements only: each theorem is closed by [exact], pinned by
   [Check] and followed by [Print Assumptions]. *)
From Coq Require Import List NArith Bool.
From RB Require Import Base.Val Model.Deferral Spec.DeferralSpec Proofs.Deferral.
Import ListNotations.
Open Scope N_scope.

(* (1) Over every input sequence the machine is not Completed exactly while its
   pending map is non-empty, and every pending peer still awaits at least one
   family: it cannot stay deferring once no peer is pending, and a pending
   entry with nothing to wait for does not exist. *)
Theorem deferring_implies_pending :
  forall (gr_peers : list (peer * list fam)) (d : option N) (ins : list rdinput),
    let s := rd_run (fst (rd_new gr_peers d)) ins in
    (is_completed s = false ->
       pending_of s <> [] /\
       forall p fs, In (p, fs) (pending_of s) -> exists f, In f fs)
    /\ (is_completed s = true -> pending_of s = []).
Proof. exact C11_deferring_implies_pending. Qed.
Check deferring_implies_pending :
  forall (gr_peers : list (peer * list fam)) (d : option N) (ins : list rdinput),
    let s := rd_run (fst (rd_new gr_peers d)) ins in
    (is_completed s = false ->
       pending_of s <> [] /\
       forall p fs, In (p, fs) (pending_of s) -> exists f, In f fs)
    /\ (is_completed s = true -> pending_of s = []).
Print Assumptions deferring_implies_pending.
