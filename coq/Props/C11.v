(* C11  Restarting speaker selects nothing until all helpers sent EOR or the
   timer fires.  Statements only: each theorem is closed by [exact], pinned by
   [Check] and followed by [Print Assumptions]. *)
From Coq Require Import List NArith Bool.
From RB Require Import Base.Val Model.Deferral Model.DeferralRib Spec.DeferralSpec Spec.DeferralRibSpec
     Proofs.Deferral Proofs.DeferralRib.
Import ListNotations.
Open Scope N_scope.

(* (1) Over every input sequence the machine is not Completed exactly while its
   pending map is non-empty, and every pending peer still awaits at least one
   family: it cannot stay deferring once no peer is pending, and a pending
   entry with nothing to wait for does not exist. *)
Theorem deferring_implies_pending :
  forall (gr_peers : list (peer * list fam)) (d : option N) (ins : list rdinput),
    let s := rd_run (fst (rd_new gr_peers d)) ins in
    (is_completed s = false ->
       pending_of s <> [] /\
       forall p fs, In (p, fs) (pending_of s) -> exists f, In f fs)
    /\ (is_completed s = true -> pending_of s = []).
Proof. exact C11_deferring_implies_pending. Qed.
Check deferring_implies_pending :
  forall (gr_peers : list (peer * list fam)) (d : option N) (ins : list rdinput),
    let s := rd_run (fst (rd_new gr_peers d)) ins in
    (is_completed s = false ->
       pending_of s <> [] /\
       forall p fs, In (p, fs) (pending_of s) -> exists f, In f fs)
    /\ (is_completed s = true -> pending_of s = []).
Print Assumptions deferring_implies_pending.

(* (2) Refinement of the Spec: on every history that respects the driver's
   session discipline, while the machine has not completed, peer p is recorded
   as awaiting family f exactly when the Spec (Spec/DeferralSpec.v spec_blocks:
   configured for f and since then no End-of-RIB for f, no drop, no
   establishment without f) says p still holds f back. *)
Theorem pending_refines_spec :
  forall (c : config) (d : option N) (ins : list rdinput) (p : peer) (f : fam),
    NoDup (map fst c) -> disciplined c ins = true ->
    let s := rd_run (fst (rd_new c d)) ins in
    is_completed s = false ->
    mem f (get_or_nil (pending_of s) p) = spec_blocks c ins p f.
Proof. exact C11_pending_refines_spec. Qed.
Check pending_refines_spec :
  forall (c : config) (d : option N) (ins : list rdinput) (p : peer) (f : fam),
    NoDup (map fst c) -> disciplined c ins = true ->
    let s := rd_run (fst (rd_new c d)) ins in
    is_completed s = false ->
    mem f (get_or_nil (pending_of s) p) = spec_blocks c ins p f.
Print Assumptions pending_refines_spec.

(* (3) Release counts, for every disciplined history: new() releases nothing; a
   family is released (FamilyDeferralComplete f, or EndDeferral listing f) at
   most once; a family that was not deferred never; once the machine is
   Completed every deferred family has been released exactly once; and while it
   is not Completed a family has been released iff it was deferred and no
   helper peer holds it back any more (so it is neither early nor late). *)
Theorem family_released_exactly_once :
  forall (c : config) (d : option N) (ins : list rdinput) (f : fam),
    NoDup (map fst c) -> disciplined c ins = true ->
    let s := rd_run (fst (rd_new c d)) ins in
    let n := releases f (rd_trace (fst (rd_new c d)) ins) in
    releases_in f (snd (rd_new c d)) = 0%nat
    /\ (n <= 1)%nat
    /\ (deferred c f = false -> n = 0%nat)
    /\ (is_completed s = true -> deferred c f = true -> n = 1%nat)
    /\ (is_completed s = false ->
        n = if deferred c f && negb (spec_blocked c ins f) then 1%nat else 0%nat).
Proof. exact C11_family_released_exactly_once. Qed.
Check family_released_exactly_once :
  forall (c : config) (d : option N) (ins : list rdinput) (f : fam),
    NoDup (map fst c) -> disciplined c ins = true ->
    let s := rd_run (fst (rd_new c d)) ins in
    let n := releases f (rd_trace (fst (rd_new c d)) ins) in
    releases_in f (snd (rd_new c d)) = 0%nat
    /\ (n <= 1)%nat
    /\ (deferred c f = false -> n = 0%nat)
    /\ (is_completed s = true -> deferred c f = true -> n = 1%nat)
    /\ (is_completed s = false ->
        n = if deferred c f && negb (spec_blocked c ins f) then 1%nat else 0%nat).
Print Assumptions family_released_exactly_once.

(* (4) Every single release is justified when it happens: the step that
   releases f either leaves no helper peer holding f back, or is the expiry of
   the selection-deferral timer. *)
Theorem release_only_when_unblocked_or_timer :
  forall (c : config) (d : option N) (h : list rdinput) (i : rdinput) (rest : list rdinput) (f : fam),
    NoDup (map fst c) -> disciplined c (h ++ i :: rest) = true ->
    let s := rd_run (fst (rd_new c d)) h in
    (releases_in f (snd (rd_step s i)) > 0)%nat ->
    spec_blocked c (h ++ [i]) f = false \/ i = TimerExpired.
Proof. exact C11_release_only_when_unblocked_or_timer. Qed.
Check release_only_when_unblocked_or_timer :
  forall (c : config) (d : option N) (h : list rdinput) (i : rdinput) (rest : list rdinput) (f : fam),
    NoDup (map fst c) -> disciplined c (h ++ i :: rest) = true ->
    let s := rd_run (fst (rd_new c d)) h in
    (releases_in f (snd (rd_step s i)) > 0)%nat ->
    spec_blocked c (h ++ [i]) f = false \/ i = TimerExpired.
Print Assumptions release_only_when_unblocked_or_timer.

(* (5) A peer without graceful restart never blocks: a peer configured with no
   GR family is never pending; whatever the state, a peer that establishes
   without GR is no longer pending afterwards, the other peers' entries are
   untouched, and if it was the last pending peer the machine is Completed. *)
Theorem non_gr_peer_never_blocks :
  forall (c : config) (d : option N) (ins : list rdinput) (p : peer),
    let s := rd_run (fst (rd_new c d)) ins in
    let s' := fst (rd_step s (PeerEstablished p [])) in
    (NoDup (map fst c) -> cfg_fams c p = [] -> p_get (pending_of s) p = None)
    /\ p_get (pending_of s') p = None
    /\ (forall q, q <> p -> p_get (pending_of s') q = p_get (pending_of s) q)
    /\ ((forall q, q <> p -> p_get (pending_of s) q = None) -> is_completed s' = true).
Proof. exact C11_non_gr_peer_never_blocks. Qed.
Check non_gr_peer_never_blocks :
  forall (c : config) (d : option N) (ins : list rdinput) (p : peer),
    let s := rd_run (fst (rd_new c d)) ins in
    let s' := fst (rd_step s (PeerEstablished p [])) in
    (NoDup (map fst c) -> cfg_fams c p = [] -> p_get (pending_of s) p = None)
    /\ p_get (pending_of s') p = None
    /\ (forall q, q <> p -> p_get (pending_of s') q = p_get (pending_of s) q)
    /\ ((forall q, q <> p -> p_get (pending_of s) q = None) -> is_completed s' = true).
Print Assumptions non_gr_peer_never_blocks.

(* (6) The composed system (machine + driver glue + deferral slice of the RIB),
   for every disciplined history interleaved with route insertions: a deferred
   family is handed to end_deferral at most once; while its table flag is set
   nothing of it has been distributed and it has not been released; once the
   restarting state is cleared (selection_deferral = None) no table flag is set
   and every deferred family was released exactly once; before that a family has
   been released iff no helper holds it back any more.
   [partial] the per-prefix statement is split: this theorem is per family,
   (7) and (8) are per end_deferral call / per insert; not proved as one
   statement: persistence of a stored path from its insertion to the release. *)
Theorem held_prefixes_announced_once_partial :
  forall (c : config) (d : option N) (evs : list sysev) (f : fam) (x : N),
    NoDup (map fst c) -> disciplined c (proj evs) = true ->
    let st := sys_run (sys_init c d) evs in
    (release_entries f (sys_log st) <= 1)%nat
    /\ (t_deferring (sys_tab st) f = true ->
        ann_count f x (sys_log st) = 0%nat /\ deferred c f = true /\ release_entries f (sys_log st) = 0%nat)
    /\ (sys_rd st = None ->
        t_deferring (sys_tab st) f = false /\
        (deferred c f = true -> release_entries f (sys_log st) = 1%nat))
    /\ (sys_rd st <> None ->
        release_entries f (sys_log st) =
        if deferred c f && negb (spec_blocked c (proj evs) f) then 1%nat else 0%nat).
Proof. exact C11_held_prefixes_announced_once_partial. Qed.
Check held_prefixes_announced_once_partial :
  forall (c : config) (d : option N) (evs : list sysev) (f : fam) (x : N),
    NoDup (map fst c) -> disciplined c (proj evs) = true ->
    let st := sys_run (sys_init c d) evs in
    (release_entries f (sys_log st) <= 1)%nat
    /\ (t_deferring (sys_tab st) f = true ->
        ann_count f x (sys_log st) = 0%nat /\ deferred c f = true /\ release_entries f (sys_log st) = 0%nat)
    /\ (sys_rd st = None ->
        t_deferring (sys_tab st) f = false /\
        (deferred c f = true -> release_entries f (sys_log st) = 1%nat))
    /\ (sys_rd st <> None ->
        release_entries f (sys_log st) =
        if deferred c f && negb (spec_blocked c (proj evs) f) then 1%nat else 0%nat).
Print Assumptions held_prefixes_announced_once_partial.

(* (7) One end_deferral(f) call on a well-formed table distributes exactly the
   prefixes of f that have an unfiltered path, each once, and clears the flag. *)
Theorem end_deferral_emits_held_once :
  forall (t : table) (f : fam),
    twf t ->
    let l := snd (t_end t f) in
    NoDup (map fst l)
    /\ (forall x k, In (x, k) l -> (k <> 0 <-> holds_prefix t f x = true))
    /\ (forall x, holds_prefix t f x = true -> In x (map fst l))
    /\ t_deferring (fst (t_end t f)) f = false.
Proof. exact C11_end_deferral_emits_held_once. Qed.
Check end_deferral_emits_held_once :
  forall (t : table) (f : fam),
    twf t ->
    let l := snd (t_end t f) in
    NoDup (map fst l)
    /\ (forall x k, In (x, k) l -> (k <> 0 <-> holds_prefix t f x = true))
    /\ (forall x, holds_prefix t f x = true -> In x (map fst l))
    /\ t_deferring (fst (t_end t f)) f = false.
Print Assumptions end_deferral_emits_held_once.

(* (8) Every table reachable by start_deferral / insert / end_deferral is well
   formed, and an insert into a family whose flag is set returns NoChange, leaves
   the flag set and stores the path (the prefix is held when it is unfiltered). *)
Theorem insert_while_deferring_is_held :
  forall (ops : list tabop) (f : fam) (x p i : N) (b : bool) (nh : N) (nv : bool),
    let t := fold_left (fun t o => fst (t_step t o)) ops [] in
    twf t
    /\ (t_deferring t f = true ->
        snd (t_insert t f x p i b nh nv) = RNoChange
        /\ t_deferring (fst (t_insert t f x p i b nh nv)) f = true
        /\ (b = false -> nv = false -> holds_prefix (fst (t_insert t f x p i b nh nv)) f x = true)).
Proof. exact C11_insert_while_deferring_is_held. Qed.
Check insert_while_deferring_is_held :
  forall (ops : list tabop) (f : fam) (x p i : N) (b : bool) (nh : N) (nv : bool),
    let t := fold_left (fun t o => fst (t_step t o)) ops [] in
    twf t
    /\ (t_deferring t f = true ->
        snd (t_insert t f x p i b nh nv) = RNoChange
        /\ t_deferring (fst (t_insert t f x p i b nh nv)) f = true
        /\ (b = false -> nv = false -> holds_prefix (fst (t_insert t f x p i b nh nv)) f x = true)).
Print Assumptions insert_while_deferring_is_held.

(* (9) Finding C11-2 (repaired): while a family is deferring, a withdrawal and a
   peer drop change the table but hand nothing to the distribution layer, and
   leave the flag set. *)
Theorem mutators_quiet_while_deferring :
  forall (t : table) (f : fam) (x p i : N),
    t_deferring t f = true ->
    snd (t_remove t f x p i) = RNoChange
    /\ snd (t_drop t f p) = RChanges []
    /\ t_deferring (fst (t_remove t f x p i)) f = true
    /\ t_deferring (fst (t_drop t f p)) f = true.
Proof. exact C11_mutators_quiet_while_deferring. Qed.
Check mutators_quiet_while_deferring :
  forall (t : table) (f : fam) (x p i : N),
    t_deferring t f = true ->
    snd (t_remove t f x p i) = RNoChange
    /\ snd (t_drop t f p) = RChanges []
    /\ t_deferring (fst (t_remove t f x p i)) f = true
    /\ t_deferring (fst (t_drop t f p)) f = true.
Print Assumptions mutators_quiet_while_deferring.

Theorem marking_and_nexthop_quiet_while_deferring :
  forall (t : table) (f : fam) (p nh : N) (rc : bool),
    t_deferring t f = true ->
    snd (t_restale t f p) = RChanges []
    /\ snd (t_drop_stale t f p) = RChanges []
    /\ t_deferring (fst (t_restale t f p)) f = true
    /\ t_deferring (fst (t_drop_stale t f p)) f = true
    /\ (NoDup (map fst t) ->
        forall l, snd (t_nhvalid t nh rc) = RChangesF l -> forall x k, ~ In (f, x, k) l).
Proof. exact C11_marking_and_nexthop_quiet_while_deferring. Qed.
Check marking_and_nexthop_quiet_while_deferring :
  forall (t : table) (f : fam) (p nh : N) (rc : bool),
    t_deferring t f = true ->
    snd (t_restale t f p) = RChanges []
    /\ snd (t_drop_stale t f p) = RChanges []
    /\ t_deferring (fst (t_restale t f p)) f = true
    /\ t_deferring (fst (t_drop_stale t f p)) f = true
    /\ (NoDup (map fst t) ->
        forall l, snd (t_nhvalid t nh rc) = RChangesF l -> forall x k, ~ In (f, x, k) l).
Print Assumptions marking_and_nexthop_quiet_while_deferring.
