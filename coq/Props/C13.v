(* C13 stub *)
From Coq Require Import List NArith Bool.
From RB Require Import Base.Val Model.Rpki Model.RtrClient Proofs.RtrClient.
Import ListNotations.
Open Scope N_scope.
