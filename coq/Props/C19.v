(* C19  Every emitted BMP/MRT record is well-formed and carries the intended BGP
   data.  Statements only: each theorem is closed by [exact], pinned by [Check]
   and followed by [Print Assumptions]. *)
From Coq Require Import List NArith Bool.
From RB Require Import Base.Val Base.BytesBuf Model.Bmp Model.Mrt Model.MonConv Spec.BmpRead Spec.MrtRead
     Proofs.Bmp Proofs.Mrt Proofs.MonConv.
Import ListNotations.
Open Scope N_scope.

(* (1) Whatever the item and the earlier buffer content: the earlier bytes are
   untouched and the appended bytes are a non-empty sequence of messages each of
   whose back-patched Message Length equals its own size (common header
   included), as long as the item fits the 32-bit field. *)
Theorem bmp_length_exact :
  forall (c : bytes) (m : bmp_msg), msg_len_ok m ->
    firstn (length c) (bmp_encode c m) = c /\
    exists parts, skipn (length c) (bmp_encode c m) = concat parts
                  /\ parts <> []
                  /\ Forall common_length_exact parts.
Proof. exact C19_bmp_length_exact. Qed.
Check bmp_length_exact :
  forall (c : bytes) (m : bmp_msg), msg_len_ok m ->
    firstn (length c) (bmp_encode c m) = c /\
    exists parts, skipn (length c) (bmp_encode c m) = concat parts
                  /\ parts <> []
                  /\ Forall common_length_exact parts.
Print Assumptions bmp_length_exact.

(* (2) The RFC 7854 reader applied to what one call appended returns exactly the
   intended views: one message per item, one Route Monitoring message per BGP
   frame of a monitored UPDATE (however many frames the BGP encoder produced),
   each frame intact under the same per-peer header; nothing is left over. *)
Theorem bmp_readback :
  forall (m : bmp_msg) (vs : list bmp_view), wf_msg m -> msg_len_ok m -> views m vs ->
    forall fuel : nat, (length (bmp_encode [] m) <= fuel)%nat ->
    read_bmp_stream fuel (bmp_encode [] m) = Some vs.
Proof. exact C19_bmp_readback. Qed.
Check bmp_readback :
  forall (m : bmp_msg) (vs : list bmp_view), wf_msg m -> msg_len_ok m -> views m vs ->
    forall fuel : nat, (length (bmp_encode [] m) <= fuel)%nat ->
    read_bmp_stream fuel (bmp_encode [] m) = Some vs.
Print Assumptions bmp_readback.

(* (3) The same for a whole session pushed through one codec into one buffer. *)
Theorem bmp_stream_readback :
  forall (ms : list bmp_msg) (vss : list (list bmp_view)),
    Forall (fun m => wf_msg m /\ msg_len_ok m) ms -> Forall2 views ms vss ->
    forall fuel : nat, (length (bmp_encode_all [] ms) <= fuel)%nat ->
    read_bmp_stream fuel (bmp_encode_all [] ms) = Some (concat vss).
Proof. exact C19_bmp_stream_readback. Qed.
Check bmp_stream_readback :
  forall (ms : list bmp_msg) (vss : list (list bmp_view)),
    Forall (fun m => wf_msg m /\ msg_len_ok m) ms -> Forall2 views ms vss ->
    forall fuel : nat, (length (bmp_encode_all [] ms) <= fuel)%nat ->
    read_bmp_stream fuel (bmp_encode_all [] ms) = Some (concat vss).
Print Assumptions bmp_stream_readback.

(* (4) V flag <=> IPv6 peer address; with V clear the address field is an IPv4
   address behind twelve zero octets; the header denotes the monitored address.
   ([view_pph h] is what the reader returns for the header, by (2).) *)
Theorem bmp_vflag_iff_v6 :
  forall h : pph, wf_pph h -> flags_no_v h ->
    let pv := view_pph h in
    v_flag pv = is_v6 (p_addr h)
    /\ peer_addr_consistent pv
    /\ peer_addr_denoted pv = (is_v6 (p_addr h), ip_octets (p_addr h)).
Proof. exact C19_bmp_vflag_iff_v6. Qed.
Check bmp_vflag_iff_v6 :
  forall h : pph, wf_pph h -> flags_no_v h ->
    let pv := view_pph h in
    v_flag pv = is_v6 (p_addr h)
    /\ peer_addr_consistent pv
    /\ peer_addr_denoted pv = (is_v6 (p_addr h), ip_octets (p_addr h)).
Print Assumptions bmp_vflag_iff_v6.

(* (4') [flags_no_v] cannot be dropped at the API: PerPeerHeader::new(0x80, .., IPv4 address)
   yields a V flag on an IPv4 peer.  daemon/src/bmp.rs never passes that bit. *)
Theorem bmp_vflag_caller_flags_refuted :
  exists h : pph, wf_pph h /\ is_v6 (p_addr h) = false /\ v_flag (view_pph h) = true.
Proof. exact C19_bmp_vflag_caller_flags_refuted. Qed.
Check bmp_vflag_caller_flags_refuted :
  exists h : pph, wf_pph h /\ is_v6 (p_addr h) = false /\ v_flag (view_pph h) = true.
Print Assumptions bmp_vflag_caller_flags_refuted.

(* (2') [wf_tlv] cannot be dropped at the API: `bin.len() as u16` announces a 65536-byte
   value with length 0.  The daemon's TLVs are a version string and the host name. *)
Theorem bmp_tlv_truncation_refuted :
  exists tlvs : list (N * bytes), read_bmp_stream 1 (bmp_encode [] (Initiation tlvs)) = None.
Proof. exact C19_bmp_tlv_truncation_refuted. Qed.
Check bmp_tlv_truncation_refuted :
  exists tlvs : list (N * bytes), read_bmp_stream 1 (bmp_encode [] (Initiation tlvs)) = None.
Print Assumptions bmp_tlv_truncation_refuted.

(* (5) The RFC 6396 reader applied to what MrtCodec::encode appended returns one
   BGP4MP_MESSAGE_AS4[_ADDPATH] record per BGP message of the monitored item
   (however many the BGP encoder produced), each message whole; the subtype
   states the ADD-PATH setting; the AFI is that of the peer address and both
   addresses are carried with that size (mp_view). *)
Theorem mrt_readback :
  forall (ts : N) (m : mp_msg) (ty : N) (fs : list bytes),
    ts < 2 ^ 32 -> wf_mph (mp_hdr m) -> mp_len_ok m -> fs <> [] -> frames_ok ty fs (mp_blob m) ->
    forall fuel : nat, (length (mrt_encode ts [] m) <= fuel)%nat ->
    read_mrt_stream fuel (mrt_encode ts [] m) = Some (map (mp_view ts m) fs).
Proof. exact C19_mrt_readback. Qed.
Check mrt_readback :
  forall (ts : N) (m : mp_msg) (ty : N) (fs : list bytes),
    ts < 2 ^ 32 -> wf_mph (mp_hdr m) -> mp_len_ok m -> fs <> [] -> frames_ok ty fs (mp_blob m) ->
    forall fuel : nat, (length (mrt_encode ts [] m) <= fuel)%nat ->
    read_mrt_stream fuel (mrt_encode ts [] m) = Some (map (mp_view ts m) fs).
Print Assumptions mrt_readback.

(* (6) Whatever the header and the blob: earlier bytes are untouched and every
   record appended has a back-patched Length equal to the bytes after its header. *)
Theorem mrt_length_exact :
  forall (ts : N) (dst : bytes) (m : mp_msg), ts < 2 ^ 32 -> mp_len_ok m ->
    firstn (length dst) (mrt_encode ts dst m) = dst /\
    exists recs, skipn (length dst) (mrt_encode ts dst m) = concat recs /\ recs <> []
                 /\ Forall record_length_exact recs.
Proof. exact C19_mrt_length_exact. Qed.
Check mrt_length_exact :
  forall (ts : N) (dst : bytes) (m : mp_msg), ts < 2 ^ 32 -> mp_len_ok m ->
    firstn (length dst) (mrt_encode ts dst m) = dst /\
    exists recs, skipn (length dst) (mrt_encode ts dst m) = concat recs /\ recs <> []
                 /\ Forall record_length_exact recs.
Print Assumptions mrt_length_exact.

(* (5') [same_family] cannot be dropped at the API: MpHeader::encode leaves out a local
   address whose family differs from the peer's and the record does not read back.
   The daemon passes the two ends of one TCP session. *)
Theorem mrt_local_family_refuted :
  exists m : mp_msg, frames_ok BGP_UPDATE [mp_blob m] (mp_blob m) /\ m_asn4 (mp_hdr m) = true /\
    read_mrt_stream 10 (mrt_encode 0 [] m) = None.
Proof. exact C19_mrt_local_family_refuted. Qed.
Check mrt_local_family_refuted :
  exists m : mp_msg, frames_ok BGP_UPDATE [mp_blob m] (mp_blob m) /\ m_asn4 (mp_hdr m) = true /\
    read_mrt_stream 10 (mrt_encode 0 [] m) = None.
Print Assumptions mrt_local_family_refuted.

(* (5'') [m_asn4 = true] cannot be dropped at the API: with is_asn4 = false two-octet AS
   numbers are written under the four-octet subtype.  The daemon always passes true. *)
Theorem mrt_asn2_refuted :
  exists m : mp_msg, frames_ok BGP_UPDATE [mp_blob m] (mp_blob m) /\
    same_family (m_raddr (mp_hdr m)) (m_laddr (mp_hdr m)) /\
    read_mrt_stream 10 (mrt_encode 0 [] m) = None.
Proof. exact C19_mrt_asn2_refuted. Qed.
Check mrt_asn2_refuted :
  exists m : mp_msg, frames_ok BGP_UPDATE [mp_blob m] (mp_blob m) /\
    same_family (m_raddr (mp_hdr m)) (m_laddr (mp_hdr m)) /\
    read_mrt_stream 10 (mrt_encode 0 [] m) = None.
Print Assumptions mrt_asn2_refuted.

(* (7) A TABLE_DUMP_V2 record reads back to exactly what was written: Length = body
   size; Peer Count / Entry Count = the number of peers / entries written, the
   reader finds that many and nothing is left; peer types match address sizes;
   every entry carries its attribute block and next hop (td_view). *)
Theorem table_dump_counts_consistent :
  forall (ts : N) (r : td_record), ts < 2 ^ 32 -> wf_td r -> td_len_ok r ->
    read_mrt (encode_table_dump ts [] r) = Some (N.of_nat (length (td_body r)), td_view ts r, []).
Proof. exact C19_table_dump_counts_consistent. Qed.
Check table_dump_counts_consistent :
  forall (ts : N) (r : td_record), ts < 2 ^ 32 -> wf_td r -> td_len_ok r ->
    read_mrt (encode_table_dump ts [] r) = Some (N.of_nat (length (td_body r)), td_view ts r, []).
Print Assumptions table_dump_counts_consistent.

(* (7') the bound on the number of peers cannot be dropped: `peers.len() as u16` with 65536 peers. *)
Theorem td_peer_count_refuted :
  exists peers : list peer_entry, Forall wf_peer peers /\
    read_mrt (encode_table_dump 0 [] (PeerIndexTable [1;1;1;1] peers)) = None.
Proof. exact C19_td_peer_count_refuted. Qed.
Check td_peer_count_refuted :
  exists peers : list peer_entry, Forall wf_peer peers /\
    read_mrt (encode_table_dump 0 [] (PeerIndexTable [1;1;1;1] peers)) = None.
Print Assumptions td_peer_count_refuted.

(* (7'') nor the bound on the number of entries: `entries.len() as u16` with 65536 paths of one prefix. *)
Theorem td_entry_count_refuted :
  exists es : list rib_entry, Forall (wf_entry false) es /\
    read_mrt (encode_table_dump 0 [] (RibIpv4Unicast 0 [8; 10] es)) = None.
Proof. exact C19_td_entry_count_refuted. Qed.
Check td_entry_count_refuted :
  exists es : list rib_entry, Forall (wf_entry false) es /\
    read_mrt (encode_table_dump 0 [] (RibIpv4Unicast 0 [8; 10] es)) = None.
Print Assumptions td_entry_count_refuted.

(* (8) daemon: the UPDATE built from an Adj-RIB-In change (for BMP and for MRT) is an
   announcement exactly when the change has attributes and carries its family,
   NLRI, next hop and attributes unchanged. *)
Theorem conv_update_faithful :
  forall c : change,
    match c_attrs c with
    | Some a => adj_rib_in_to_update c = UReach (c_family c) (c_nlris c) (c_nexthop c) a
    | None => adj_rib_in_to_update c = UUnreach (c_family c) (c_nlris c)
    end.
Proof. exact C19_conv_update_faithful. Qed.
Check conv_update_faithful :
  forall c : change,
    match c_attrs c with
    | Some a => adj_rib_in_to_update c = UReach (c_family c) (c_nlris c) (c_nexthop c) a
    | None => adj_rib_in_to_update c = UUnreach (c_family c) (c_nlris c)
    end.
Print Assumptions conv_update_faithful.

(* (9) daemon: adj_rib_in_to_mrt builds a header that meets the hypotheses of (5)
   (4-octet AS form, both session addresses) and states the change's add-path. *)
Theorem conv_mrt_header_wf :
  forall c : change,
    wf_source (c_source c) -> same_family (s_raddr (c_source c)) (s_laddr (c_source c)) ->
    let '(h, u, ap) := adj_rib_in_to_mrt c in
    wf_mph h /\ u = adj_rib_in_to_update c /\ ap = c_addpath c
    /\ m_raddr h = s_raddr (c_source c) /\ m_laddr h = s_laddr (c_source c).
Proof. exact C19_conv_mrt_header_wf. Qed.
Check conv_mrt_header_wf :
  forall c : change,
    wf_source (c_source c) -> same_family (s_raddr (c_source c)) (s_laddr (c_source c)) ->
    let '(h, u, ap) := adj_rib_in_to_mrt c in
    wf_mph h /\ u = adj_rib_in_to_update c /\ ap = c_addpath c
    /\ m_raddr h = s_raddr (c_source c) /\ m_laddr h = s_laddr (c_source c).
Print Assumptions conv_mrt_header_wf.

(* (10) daemon: loc_rib_to_bmp builds a well-typed RFC 9069 header (peer type 3, IPv4
   zero address, no V bit: hypotheses of (2) and (4)) around the single prefix. *)
Theorem loc_rib_header_wf :
  forall (family : N) (net : val) (attr : option val) (nexthop : val) (ts : N) (rid : bytes) (asn : N),
    ts < 2 ^ 32 -> asn < 2 ^ 32 -> length rid = 4%nat ->
    let m := loc_rib_to_bmp family net attr nexthop ts rid asn in
    wf_pph (rm_hdr m) /\ flags_no_v (rm_hdr m) /\ p_type (rm_hdr m) = 3
    /\ is_v6 (p_addr (rm_hdr m)) = false /\ rm_addpath m = false
    /\ rm_update m = match attr with
                     | Some a => UReach family [VL [VN 0; net]] nexthop a
                     | None => UUnreach family [VL [VN 0; net]]
                     end.
Proof. exact C19_loc_rib_header_wf. Qed.
Check loc_rib_header_wf :
  forall (family : N) (net : val) (attr : option val) (nexthop : val) (ts : N) (rid : bytes) (asn : N),
    ts < 2 ^ 32 -> asn < 2 ^ 32 -> length rid = 4%nat ->
    let m := loc_rib_to_bmp family net attr nexthop ts rid asn in
    wf_pph (rm_hdr m) /\ flags_no_v (rm_hdr m) /\ p_type (rm_hdr m) = 3
    /\ is_v6 (p_addr (rm_hdr m)) = false /\ rm_addpath m = false
    /\ rm_update m = match attr with
                     | Some a => UReach family [VL [VN 0; net]] nexthop a
                     | None => UUnreach family [VL [VN 0; net]]
                     end.
Print Assumptions loc_rib_header_wf.

(* (11) daemon: every message flush_peer_snapshot builds has a well-typed header
   without the V bit (hypotheses of (2) and (4)), for any snapshot contents. *)
Theorem flush_headers_wf :
  forall (s : snapshot) (addr : ip) (h : pph) (flags : N) (s' : snapshot) (ms : list rm),
    flush_peer_snapshot s addr h flags = (s', ms) ->
    flags < 128 -> wf_pph h -> flags_no_v h ->
    (forall a m k c, In (a, m) s -> In (k, c) m -> wf_source (c_source c) /\ c_ts c < 2 ^ 32) ->
    Forall (fun m => wf_pph (rm_hdr m) /\ flags_no_v (rm_hdr m)) ms.
Proof. exact C19_flush_headers_wf. Qed.
Check flush_headers_wf :
  forall (s : snapshot) (addr : ip) (h : pph) (flags : N) (s' : snapshot) (ms : list rm),
    flush_peer_snapshot s addr h flags = (s', ms) ->
    flags < 128 -> wf_pph h -> flags_no_v h ->
    (forall a m k c, In (a, m) s -> In (k, c) m -> wf_source (c_source c) /\ c_ts c < 2 ^ 32) ->
    Forall (fun m => wf_pph (rm_hdr m) /\ flags_no_v (rm_hdr m)) ms.
Print Assumptions flush_headers_wf.

(* (12) daemon: for ALL Loc-RIB contents with at most 65536 distinct peers, dump_table
   writes the peer index table first; every RIB record has one entry per path of
   its prefix (none dropped, never zero), and each entry's peer index designates
   the row of that table holding the address of the peer the path came from. *)
Theorem dump_peer_indexes_consistent :
  forall (rid : bytes) (ts : N) (v4 v6 : list dchange),
    let peers := snd (build_index (v4 ++ v6)) in
    N.of_nat (length peers) <= 65536 ->
    hd_error (dump_table rid ts v4 v6) = Some (ts, PeerIndexTable rid peers) /\
    forall t r es, In (t, r) (tl (dump_table rid ts v4 v6)) -> rec_entries r = Some es ->
      es <> [] /\
      exists prefix paths, In (prefix, paths) (v4 ++ v6)
        /\ Forall2 (fun (p : dpath) (e : rib_entry) =>
                      re_orig e = ts /\ re_nh e = d_nh p /\ re_attrs e = d_attrs p /\
                      exists row, nth_error peers (N.to_nat (re_idx e)) = Some row
                                  /\ pe_addr row = d_addr p) paths es.
Proof. exact C19_dump_peer_indexes_consistent. Qed.
Check dump_peer_indexes_consistent :
  forall (rid : bytes) (ts : N) (v4 v6 : list dchange),
    let peers := snd (build_index (v4 ++ v6)) in
    N.of_nat (length peers) <= 65536 ->
    hd_error (dump_table rid ts v4 v6) = Some (ts, PeerIndexTable rid peers) /\
    forall t r es, In (t, r) (tl (dump_table rid ts v4 v6)) -> rec_entries r = Some es ->
      es <> [] /\
      exists prefix paths, In (prefix, paths) (v4 ++ v6)
        /\ Forall2 (fun (p : dpath) (e : rib_entry) =>
                      re_orig e = ts /\ re_nh e = d_nh p /\ re_attrs e = d_attrs p /\
                      exists row, nth_error peers (N.to_nat (re_idx e)) = Some row
                                  /\ pe_addr row = d_addr p) paths es.
Print Assumptions dump_peer_indexes_consistent.

(* (2'') [wf_msg] excludes Statistics Report, Termination and Route Mirroring: BmpCodec writes
   them as a bare common header, which is not a well-formed message of those types
   (RFC 7854 4.8 / 4.5 / 4.7).  daemon/src/bmp.rs never sends them. *)
Theorem bmp_unused_kinds_refuted :
  read_bmp_stream 1 (bmp_encode [] StatsReports) = None
  /\ read_bmp_stream 1 (bmp_encode [] Termination) = None
  /\ read_bmp_stream 1 (bmp_encode [] RouteMirroring) = None.
Proof. exact C19_bmp_unused_kinds_refuted. Qed.
Check bmp_unused_kinds_refuted :
  read_bmp_stream 1 (bmp_encode [] StatsReports) = None
  /\ read_bmp_stream 1 (bmp_encode [] Termination) = None
  /\ read_bmp_stream 1 (bmp_encode [] RouteMirroring) = None.
Print Assumptions bmp_unused_kinds_refuted.

(* (13) daemon: session_down_to_bmp yields a Peer Down that meets the hypotheses of (2) for
   every cause, with the RFC 7854 4.9 reason code: 1 / 3 around the local / remote
   NOTIFICATION, 2 (FSM event 0) for locally decided closes, 4 when the peer vanished. *)
Theorem session_down_reason :
  forall (r : option session_down) (h : pph),
    wf_pph h ->
    (forall b, r = Some (SDRemoteNotification b) \/ r = Some (SDLocalNotification b) ->
               frame_ok BGP_NOTIFICATION b) ->
    wf_msg (PeerDown h (session_down_to_bmp r))
    /\ reason_code (session_down_to_bmp r) =
       match r with
       | None | Some SDIoError => 4
       | Some (SDLocalNotification _) => 1
       | Some (SDRemoteNotification _) => 3
       | Some SDHoldTimerExpired | Some SDFsmError | Some SDAdminShutdown => 2
       end.
Proof. exact C19_session_down_reason. Qed.
Check session_down_reason :
  forall (r : option session_down) (h : pph),
    wf_pph h ->
    (forall b, r = Some (SDRemoteNotification b) \/ r = Some (SDLocalNotification b) ->
               frame_ok BGP_NOTIFICATION b) ->
    wf_msg (PeerDown h (session_down_to_bmp r))
    /\ reason_code (session_down_to_bmp r) =
       match r with
       | None | Some SDIoError => 4
       | Some (SDLocalNotification _) => 1
       | Some (SDRemoteNotification _) => 3
       | Some SDHoldTimerExpired | Some SDFsmError | Some SDAdminShutdown => 2
       end.
Print Assumptions session_down_reason.

(* (14) daemon: the Peer Up of the Loc-RIB virtual peer meets the hypotheses of (2) (peer type
   3, zero IPv4 address, no V bit) and its fabricated OPEN states the local AS in the
   4-octet AS capability (RFC 9069 4.4; finding C19-5) and the router id. *)
Theorem loc_rib_peer_up_wf :
  forall (rid : bytes) (asn : N) (blob : bytes),
    asn < 2 ^ 32 -> length rid = 4%nat -> frame_ok BGP_OPEN blob ->
    wf_msg (loc_rib_peer_up rid asn blob)
    /\ (exists h, loc_rib_peer_up rid asn blob = PeerUp h (IP4 [0;0;0;0]) 0 0 blob blob
                  /\ p_type h = 3 /\ flags_no_v h /\ p_addr h = IP4 [0;0;0;0] /\ p_asn h = asn /\ p_id h = rid)
    /\ In (VL [VN 65; VN asn]) (o_caps (loc_rib_open rid asn))
    /\ o_asn (loc_rib_open rid asn) = asn /\ o_rid (loc_rib_open rid asn) = be_dec rid.
Proof. exact C19_loc_rib_peer_up_wf. Qed.
Check loc_rib_peer_up_wf :
  forall (rid : bytes) (asn : N) (blob : bytes),
    asn < 2 ^ 32 -> length rid = 4%nat -> frame_ok BGP_OPEN blob ->
    wf_msg (loc_rib_peer_up rid asn blob)
    /\ (exists h, loc_rib_peer_up rid asn blob = PeerUp h (IP4 [0;0;0;0]) 0 0 blob blob
                  /\ p_type h = 3 /\ flags_no_v h /\ p_addr h = IP4 [0;0;0;0] /\ p_asn h = asn /\ p_id h = rid)
    /\ In (VL [VN 65; VN asn]) (o_caps (loc_rib_open rid asn))
    /\ o_asn (loc_rib_open rid asn) = asn /\ o_rid (loc_rib_open rid asn) = be_dec rid.
Print Assumptions loc_rib_peer_up_wf.

(* (15) daemon: the UPDATE built from an Adj-RIB-Out change carries its single NLRI, next hop
   and attributes unchanged; an announcement exactly when it has attributes. *)
Theorem adj_rib_out_update_faithful :
  forall (family : N) (nlri : val) (attrs : option val) (nexthop : val),
    adj_rib_out_to_update family nlri attrs nexthop =
    match attrs with
    | Some a => UReach family [nlri] nexthop a
    | None => UUnreach family [nlri]
    end.
Proof. exact C19_adj_rib_out_update_faithful. Qed.
Check adj_rib_out_update_faithful :
  forall (family : N) (nlri : val) (attrs : option val) (nexthop : val),
    adj_rib_out_to_update family nlri attrs nexthop =
    match attrs with
    | Some a => UReach family [nlri] nexthop a
    | None => UUnreach family [nlri]
    end.
Print Assumptions adj_rib_out_update_faithful.

(* (16) For EVERY behaviour of the BGP encoder: embedding a monitored update never panics; the
   codec is asked for the RFC 8950 form according to [needs_rfc8950] only; the RFC 8654 limit
   is used only after the 4096-octet attempt failed; an error only when both failed. *)
Theorem embed_total :
  forall (enc : bool -> bool -> bool -> update -> option bytes) (ap : bool) (u : update),
    embed enc ap u <> EncoderPanic
    /\ (forall b, embed enc ap u = Embedded b ->
          enc (needs_rfc8950 u) false ap u = Some b
          \/ (enc (needs_rfc8950 u) false ap u = None /\ enc (needs_rfc8950 u) true ap u = Some b))
    /\ (embed enc ap u = EncodeError ->
          enc (needs_rfc8950 u) false ap u = None /\ enc (needs_rfc8950 u) true ap u = None).
Proof. exact C19_embed_total. Qed.
Check embed_total :
  forall (enc : bool -> bool -> bool -> update -> option bytes) (ap : bool) (u : update),
    embed enc ap u <> EncoderPanic
    /\ (forall b, embed enc ap u = Embedded b ->
          enc (needs_rfc8950 u) false ap u = Some b
          \/ (enc (needs_rfc8950 u) false ap u = None /\ enc (needs_rfc8950 u) true ap u = Some b))
    /\ (embed enc ap u = EncodeError ->
          enc (needs_rfc8950 u) false ap u = None /\ enc (needs_rfc8950 u) true ap u = None).
Print Assumptions embed_total.

(* (17) ... and that form is requested exactly for an IPv4-unicast announcement whose next hop is
   a 16- or 32-octet (IPv6) one: findings C19-3 / C19-4 as repaired. *)
Theorem needs_rfc8950_iff :
  forall u : update,
    needs_rfc8950 u = true <->
    exists es nh a, u = UReach 65537 es nh a /\ nh_is_v6 nh = true.
Proof. exact C19_needs_rfc8950_iff. Qed.
Check needs_rfc8950_iff :
  forall u : update,
    needs_rfc8950 u = true <->
    exists es nh a, u = UReach 65537 es nh a /\ nh_is_v6 nh = true.
Print Assumptions needs_rfc8950_iff.

(* (16') record of the behaviour before the repairs: an encoder that has no room within 4096
   octets made the old configuration panic where the new one embeds the update. *)
Theorem embed_before_fix_refuted :
  exists (enc : bool -> bool -> bool -> update -> option bytes) (u : update) (b : bytes),
    embed_before_fix enc false u = EncoderPanic /\ embed enc false u = Embedded b.
Proof. exact C19_embed_before_fix_refuted. Qed.
Check embed_before_fix_refuted :
  exists (enc : bool -> bool -> bool -> update -> option bytes) (u : update) (b : bytes),
    embed_before_fix enc false u = EncoderPanic /\ embed enc false u = Embedded b.
Print Assumptions embed_before_fix_refuted.

