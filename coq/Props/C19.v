(* C19  Every emitted BMP/MRT record is well-formed and carries the intended BGP
   data.  Statements only: each theorem is closed by [exact], pinned by [Check]
   and followed by [Print Assumptions]. *)
From Coq Require Import List NArith Bool.
From RB Require Import Base.Val Base.Bytes Model.Bmp Spec.BmpRead Proofs.Bmp.
Import ListNotations.
Open Scope N_scope.

(* (1) The Message Length written by the back-patch equals the number of bytes
   the call appended (common header included), for every message and every
   earlier buffer content, which is left untouched. *)
Theorem bmp_length_exact :
  forall (c : bytes) (m : bmp_msg), msg_len_ok m ->
    firstn (length c) (bmp_encode c m) = c /\
    common_length_exact (skipn (length c) (bmp_encode c m)).
Proof. exact C19_bmp_length_exact. Qed.
Check bmp_length_exact :
  forall (c : bytes) (m : bmp_msg), msg_len_ok m ->
    firstn (length c) (bmp_encode c m) = c /\
    common_length_exact (skipn (length c) (bmp_encode c m)).
Print Assumptions bmp_length_exact.

(* (2) The RFC 7854 reader applied to an encoded message returns the intended
   view, with the length field equal to the message size and nothing left. *)
Theorem bmp_readback :
  forall (m : bmp_msg) (v : bmp_view), wf_msg m -> msg_len_ok m -> view_of m = Some v ->
    read_bmp (bmp_encode [] m) = Some (N.of_nat (length (bmp_encode [] m)), v, []).
Proof. exact C19_bmp_readback. Qed.
Check bmp_readback :
  forall (m : bmp_msg) (v : bmp_view), wf_msg m -> msg_len_ok m -> view_of m = Some v ->
    read_bmp (bmp_encode [] m) = Some (N.of_nat (length (bmp_encode [] m)), v, []).
Print Assumptions bmp_readback.

(* (2') wf_msg demands that the embedded UPDATE is ONE frame.  Without that the
   statement is false of the code: two frames end up in one Route Monitoring
   message, which RFC 7854 §4.6 does not allow. *)
Theorem bmp_readback_refuted :
  exists (h : pph) (blob : bytes),
    wf_pph h /\ frames_ok BGP_UPDATE [firstn 23 blob; skipn 23 blob] blob /\
    read_bmp (bmp_encode [] (RouteMonitoring h blob)) = None.
Proof. exact C19_bmp_readback_refuted. Qed.
Check bmp_readback_refuted :
  exists (h : pph) (blob : bytes),
    wf_pph h /\ frames_ok BGP_UPDATE [firstn 23 blob; skipn 23 blob] blob /\
    read_bmp (bmp_encode [] (RouteMonitoring h blob)) = None.
Print Assumptions bmp_readback_refuted.

(* (3) A whole session through one codec into one buffer reads back message by
   message. *)
Theorem bmp_stream_readback :
  forall ms : list bmp_msg,
    Forall (fun m => wf_msg m /\ msg_len_ok m) ms ->
    forall fuel : nat, (length (bmp_encode_all [] ms) <= fuel)%nat ->
    exists vs, Forall2 (fun m v => view_of m = Some v) ms vs /\
               read_bmp_stream fuel (bmp_encode_all [] ms) = Some vs.
Proof. exact C19_bmp_stream_readback. Qed.
Check bmp_stream_readback :
  forall ms : list bmp_msg,
    Forall (fun m => wf_msg m /\ msg_len_ok m) ms ->
    forall fuel : nat, (length (bmp_encode_all [] ms) <= fuel)%nat ->
    exists vs, Forall2 (fun m v => view_of m = Some v) ms vs /\
               read_bmp_stream fuel (bmp_encode_all [] ms) = Some vs.
Print Assumptions bmp_stream_readback.

(* (4) V flag <=> IPv6 peer address; with V clear the address field is an IPv4
   address behind twelve zero octets; the header denotes the monitored address. *)
Theorem bmp_vflag_iff_v6 :
  forall h : pph, wf_pph h -> flags_no_v h ->
    let pv := view_pph h in
    v_flag pv = is_v6 (p_addr h)
    /\ peer_addr_consistent pv
    /\ peer_addr_denoted pv = (is_v6 (p_addr h), ip_octets (p_addr h)).
Proof. exact C19_bmp_vflag_iff_v6. Qed.
Check bmp_vflag_iff_v6 :
  forall h : pph, wf_pph h -> flags_no_v h ->
    let pv := view_pph h in
    v_flag pv = is_v6 (p_addr h)
    /\ peer_addr_consistent pv
    /\ peer_addr_denoted pv = (is_v6 (p_addr h), ip_octets (p_addr h)).
Print Assumptions bmp_vflag_iff_v6.
