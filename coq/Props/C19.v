(* C19  Every emitted BMP/MRT record is well-formed and carries the intended BGP
   data.  Statements only: each theorem is closed by [exact], pinned by [Check]
   and followed by [Print Assumptions]. *)
From Coq Require Import List NArith Bool.
From RB Require Import Base.Val Base.Bytes Model.Bmp Spec.BmpRead Proofs.Bmp.
Import ListNotations.
Open Scope N_scope.

(* (1) Whatever the item and the earlier buffer content: the earlier bytes are
   untouched and the appended bytes are a non-empty sequence of messages each of
   whose back-patched Message Length equals its own size (common header
   included), as long as the item fits the 32-bit field. *)
Theorem bmp_length_exact :
  forall (c : bytes) (m : bmp_msg), msg_len_ok m ->
    firstn (length c) (bmp_encode c m) = c /\
    exists parts, skipn (length c) (bmp_encode c m) = concat parts
                  /\ parts <> []
                  /\ Forall common_length_exact parts.
Proof. exact C19_bmp_length_exact. Qed.
Check bmp_length_exact :
  forall (c : bytes) (m : bmp_msg), msg_len_ok m ->
    firstn (length c) (bmp_encode c m) = c /\
    exists parts, skipn (length c) (bmp_encode c m) = concat parts
                  /\ parts <> []
                  /\ Forall common_length_exact parts.
Print Assumptions bmp_length_exact.

(* (2) The RFC 7854 reader applied to what one call appended returns exactly the
   intended views: one message per item, one Route Monitoring message per BGP
   frame of a monitored UPDATE (however many frames the BGP encoder produced),
   each frame intact under the same per-peer header; nothing is left over. *)
Theorem bmp_readback :
  forall (m : bmp_msg) (vs : list bmp_view), wf_msg m -> msg_len_ok m -> views m vs ->
    forall fuel : nat, (length (bmp_encode [] m) <= fuel)%nat ->
    read_bmp_stream fuel (bmp_encode [] m) = Some vs.
Proof. exact C19_bmp_readback. Qed.
Check bmp_readback :
  forall (m : bmp_msg) (vs : list bmp_view), wf_msg m -> msg_len_ok m -> views m vs ->
    forall fuel : nat, (length (bmp_encode [] m) <= fuel)%nat ->
    read_bmp_stream fuel (bmp_encode [] m) = Some vs.
Print Assumptions bmp_readback.

(* (3) The same for a whole session pushed through one codec into one buffer. *)
Theorem bmp_stream_readback :
  forall (ms : list bmp_msg) (vss : list (list bmp_view)),
    Forall (fun m => wf_msg m /\ msg_len_ok m) ms -> Forall2 views ms vss ->
    forall fuel : nat, (length (bmp_encode_all [] ms) <= fuel)%nat ->
    read_bmp_stream fuel (bmp_encode_all [] ms) = Some (concat vss).
Proof. exact C19_bmp_stream_readback. Qed.
Check bmp_stream_readback :
  forall (ms : list bmp_msg) (vss : list (list bmp_view)),
    Forall (fun m => wf_msg m /\ msg_len_ok m) ms -> Forall2 views ms vss ->
    forall fuel : nat, (length (bmp_encode_all [] ms) <= fuel)%nat ->
    read_bmp_stream fuel (bmp_encode_all [] ms) = Some (concat vss).
Print Assumptions bmp_stream_readback.

(* (4) V flag <=> IPv6 peer address; with V clear the address field is an IPv4
   address behind twelve zero octets; the header denotes the monitored address.
   ([view_pph h] is what the reader returns for the header, by (2).) *)
Theorem bmp_vflag_iff_v6 :
  forall h : pph, wf_pph h -> flags_no_v h ->
    let pv := view_pph h in
    v_flag pv = is_v6 (p_addr h)
    /\ peer_addr_consistent pv
    /\ peer_addr_denoted pv = (is_v6 (p_addr h), ip_octets (p_addr h)).
Proof. exact C19_bmp_vflag_iff_v6. Qed.
Check bmp_vflag_iff_v6 :
  forall h : pph, wf_pph h -> flags_no_v h ->
    let pv := view_pph h in
    v_flag pv = is_v6 (p_addr h)
    /\ peer_addr_consistent pv
    /\ peer_addr_denoted pv = (is_v6 (p_addr h), ip_octets (p_addr h)).
Print Assumptions bmp_vflag_iff_v6.

(* (4') [flags_no_v] cannot be dropped at the API: PerPeerHeader::new(0x80, .., IPv4 address)
   yields a V flag on an IPv4 peer.  daemon/src/bmp.rs never passes that bit. *)
Theorem bmp_vflag_caller_flags_refuted :
  exists h : pph, wf_pph h /\ is_v6 (p_addr h) = false /\ v_flag (view_pph h) = true.
Proof. exact C19_bmp_vflag_caller_flags_refuted. Qed.
Check bmp_vflag_caller_flags_refuted :
  exists h : pph, wf_pph h /\ is_v6 (p_addr h) = false /\ v_flag (view_pph h) = true.
Print Assumptions bmp_vflag_caller_flags_refuted.

(* (2') [wf_tlv] cannot be dropped at the API: `bin.len() as u16` announces a 65536-byte
   value with length 0.  The daemon's TLVs are a version string and the host name. *)
Theorem bmp_tlv_truncation_refuted :
  exists tlvs : list (N * bytes), read_bmp_stream 1 (bmp_encode [] (Initiation tlvs)) = None.
Proof. exact C19_bmp_tlv_truncation_refuted. Qed.
Check bmp_tlv_truncation_refuted :
  exists tlvs : list (N * bytes), read_bmp_stream 1 (bmp_encode [] (Initiation tlvs)) = None.
Print Assumptions bmp_tlv_truncation_refuted.

