(* Property C14: routing policy evaluates as specified and can never crash on a
   route.  Statements only; proofs are in Proofs/Policy.v, Proofs/PolicyTable.v
   and Proofs/PolicyPre.v. *)
From Coq Require Import List NArith ZArith Bool.
From RB Require Import Base.Val Model.Policy Model.PolicyTable Model.PolicyPre Spec.PolicySpec
  Model.PolicyGlobal Proofs.Policy Proofs.PolicyTable Proofs.PolicyPre Proofs.PolicyWire Proofs.PolicyWf Proofs.PolicyGlobal Proofs.PolicyContent Proofs.PolicyGlobalWf Proofs.PolicyFlag.
Import ListNotations.
Open Scope N_scope.

(* 1. whatever the code returns is what the reference semantics prescribes,
      for every well-formed assignment (every assignment the API can build is
      well formed: theorem 10), every route, every regex / validation oracle *)
Theorem eval_code_eq_spec :
  forall (rc re rl : N -> N -> bool) (rxa : N -> list N -> bool) (rp : option (nlri -> N -> option N)) a x r d r',
    wf_assignment a ->
    eval_code rc re rl rxa rp a x r = Ok (d, r') -> eval_spec rc re rl rxa rp a x r d r'.
Proof. exact eval_code_sound. Qed.
Check eval_code_eq_spec :
  forall (rc re rl : N -> N -> bool) (rxa : N -> list N -> bool) (rp : option (nlri -> N -> option N)) a x r d r',
    wf_assignment a ->
    eval_code rc re rl rxa rp a x r = Ok (d, r') -> eval_spec rc re rl rxa rp a x r d r'.
Print Assumptions eval_code_eq_spec.

(* 2. the reference semantics determines verdict and route *)
Theorem eval_spec_is_functional :
  forall (rc re rl : N -> N -> bool) (rxa : N -> list N -> bool) (rp : option (nlri -> N -> option N))
         x dflt l r d1 r1 d2 r2,
    runs rc re rl rxa rp x dflt l r d1 r1 -> runs rc re rl rxa rp x dflt l r d2 r2 -> d1 = d2 /\ r1 = r2.
Proof. exact eval_spec_functional. Qed.
Check eval_spec_is_functional :
  forall (rc re rl : N -> N -> bool) (rxa : N -> list N -> bool) (rp : option (nlri -> N -> option N))
         x dflt l r d1 r1 d2 r2,
    runs rc re rl rxa rp x dflt l r d1 r1 -> runs rc re rl rxa rp x dflt l r d2 r2 -> d1 = d2 /\ r1 = r2.
Print Assumptions eval_spec_is_functional.

(* 3. finding C14-1 against the code before its repair: a general as-path
      pattern was never evaluated *)
Theorem aspath_regex_ignored_pre_fix_refuted :
  exists s x r,
    cond_aspath_noregex_pre MAny s (aspath_segs 6 [2; 1; 0; 0; 253; 233]) = false /\
    forall rc re rl rp,
      cond_holds rc re rl (fun _ _ => true) rp x r (CSet 1 MAny (SAsPath s)).
Proof. exact aspath_regex_ignored_refuted. Qed.
Check aspath_regex_ignored_pre_fix_refuted :
  exists s x r,
    cond_aspath_noregex_pre MAny s (aspath_segs 6 [2; 1; 0; 0; 253; 233]) = false /\
    forall rc re rl rp,
      cond_holds rc re rl (fun _ _ => true) rp x r (CSet 1 MAny (SAsPath s)).
Print Assumptions aspath_regex_ignored_pre_fix_refuted.

(* 4. evaluation never panics on attribute lists the API can produce *)
Theorem eval_never_panics_api :
  forall (rc re rl : N -> N -> bool) (rxa : N -> list N -> bool) (rp : option (nlri -> N -> option N)) a x r,
    api_attrs (r_attrs r) -> exists d r', eval_code rc re rl rxa rp a x r = Ok (d, r').
Proof. exact C14_eval_never_panics_api. Qed.
Check eval_never_panics_api :
  forall (rc re rl : N -> N -> bool) (rxa : N -> list N -> bool) (rp : option (nlri -> N -> option N)) a x r,
    api_attrs (r_attrs r) -> exists d r', eval_code rc re rl rxa rp a x r = Ok (d, r').
Print Assumptions eval_never_panics_api.

(* 5. ... nor on attribute lists satisfying the wire decoder's invariants *)
Theorem eval_never_panics_wire :
  forall (rc re rl : N -> N -> bool) (rxa : N -> list N -> bool) (rp : option (nlri -> N -> option N)) a x r,
    wire_attrs (r_attrs r) -> exists d r', eval_code rc re rl rxa rp a x r = Ok (d, r').
Proof. exact C14_eval_never_panics_wire. Qed.
Check eval_never_panics_wire :
  forall (rc re rl : N -> N -> bool) (rxa : N -> list N -> bool) (rp : option (nlri -> N -> option N)) a x r,
    wire_attrs (r_attrs r) -> exists d r', eval_code rc re rl rxa rp a x r = Ok (d, r').
Print Assumptions eval_never_panics_wire.

(* 6. every CRUD call preserves the reference invariant; it holds along every
      history of calls from the empty table *)
Theorem crud_preserves_references :
  (forall t o t' code, refs_ok t -> crud_step t o = Ok (t', code) -> refs_ok t') /\
  (forall l, refs_ok (run_history empty_table l)).
Proof. exact C14_crud_preserves_references. Qed.
Check crud_preserves_references :
  (forall t o t' code, refs_ok t -> crud_step t o = Ok (t', code) -> refs_ok t') /\
  (forall l, refs_ok (run_history empty_table l)).
Print Assumptions crud_preserves_references.

(* 7. what a surviving user references is neither deleted nor changed by a call *)
Theorem crud_referenced_frozen :
  forall t o t' code,
  refs_ok t -> crud_step t o = Ok (t', code) ->
  (forall s n op sv, In s (t_stmts t) -> In s (t_stmts t') -> In (CSet n op sv) (st_conds s) ->
      lookup_set (set_kind sv) n (t_sets t') = lookup_set (set_kind sv) n (t_sets t)
      /\ lookup_set (set_kind sv) n (t_sets t') = Some sv) /\
  (forall p s, In p (t_pols t) -> In p (t_pols t') -> In s (p_stmts p) ->
      lookup_stmt (st_name s) (t_stmts t') = lookup_stmt (st_name s) (t_stmts t)
      /\ lookup_stmt (st_name s) (t_stmts t') = Some s) /\
  (forall a p, (t_imp t = Some a /\ t_imp t' = Some a) \/ (t_exp t = Some a /\ t_exp t' = Some a) ->
      In p (as_pols a) ->
      lookup_pol (p_name p) (t_pols t') = lookup_pol (p_name p) (t_pols t)
      /\ lookup_pol (p_name p) (t_pols t') = Some p).
Proof. exact referenced_frozen. Qed.
Check crud_referenced_frozen :
  forall t o t' code,
  refs_ok t -> crud_step t o = Ok (t', code) ->
  (forall s n op sv, In s (t_stmts t) -> In s (t_stmts t') -> In (CSet n op sv) (st_conds s) ->
      lookup_set (set_kind sv) n (t_sets t') = lookup_set (set_kind sv) n (t_sets t)
      /\ lookup_set (set_kind sv) n (t_sets t') = Some sv) /\
  (forall p s, In p (t_pols t) -> In p (t_pols t') -> In s (p_stmts p) ->
      lookup_stmt (st_name s) (t_stmts t') = lookup_stmt (st_name s) (t_stmts t)
      /\ lookup_stmt (st_name s) (t_stmts t') = Some s) /\
  (forall a p, (t_imp t = Some a /\ t_imp t' = Some a) \/ (t_exp t = Some a /\ t_exp t' = Some a) ->
      In p (as_pols a) ->
      lookup_pol (p_name p) (t_pols t') = lookup_pol (p_name p) (t_pols t)
      /\ lookup_pol (p_name p) (t_pols t') = Some p).
Print Assumptions crud_referenced_frozen.

(* 7b. the same at the level of the daemon's Global: per-peer export-policy
       overrides are users too.  The invariant (table invariant + every policy
       held by a peer's override is the table's entry of that name) is preserved
       by every modelled call and holds along every history *)
Theorem global_preserves_references :
  (forall g o g' code, grefs_ok g -> gstep g o = Ok (g', code) -> grefs_ok g') /\
  (forall l, grefs_ok (grun_history empty_global l)).
Proof. exact C14_global_preserves_references. Qed.
Check global_preserves_references :
  (forall g o g' code, grefs_ok g -> gstep g o = Ok (g', code) -> grefs_ok g') /\
  (forall l, grefs_ok (grun_history empty_global l)).
Print Assumptions global_preserves_references.

(* 7c. what a surviving per-peer override references is neither deleted nor changed *)
Theorem global_referenced_frozen :
  forall g o g' code, grefs_ok g -> gstep g o = Ok (g', code) ->
  forall peer a p, In (peer, Some a) (g_peers g) -> In (peer, Some a) (g_peers g') -> In p (as_pols a) ->
    lookup_pol (p_name p) (t_pols (g_table g')) = lookup_pol (p_name p) (t_pols (g_table g))
    /\ lookup_pol (p_name p) (t_pols (g_table g')) = Some p.
Proof. exact C14_global_referenced_frozen. Qed.
Check global_referenced_frozen :
  forall g o g' code, grefs_ok g -> gstep g o = Ok (g', code) ->
  forall peer a p, In (peer, Some a) (g_peers g) -> In (peer, Some a) (g_peers g') -> In p (as_pols a) ->
    lookup_pol (p_name p) (t_pols (g_table g')) = lookup_pol (p_name p) (t_pols (g_table g))
    /\ lookup_pol (p_name p) (t_pols (g_table g')) = Some p.
Print Assumptions global_referenced_frozen.

(* 9. on an AS_PATH the wire decoder accepts, the byte-level iterator yields
      exactly the segments and as_path_length is the unbounded hop count *)
Theorem wire_aspath_decoded :
  forall segs a, wire_path segs -> a_data a = DBin (enc_path segs) ->
    aspath_iter a = Ok (map snd segs) /\ as_path_length a = Ok (hops segs).
Proof. exact C14_wire_aspath_decoded. Qed.
Check wire_aspath_decoded :
  forall segs a, wire_path segs -> a_data a = DBin (enc_path segs) ->
    aspath_iter a = Ok (map snd segs) /\ as_path_length a = Ok (hops segs).
Print Assumptions wire_aspath_decoded.

(* 9b. on such an AS_PATH the text general patterns are matched against is the
       segments printed GoBGP style, and the origin AS is the last AS of a
       final non-empty AS_SEQUENCE *)
Theorem wire_aspath_rendered :
  forall segs a, wire_path segs -> a_data a = DBin (enc_path segs) ->
    render_path (enc_path segs) = join [32] (map (fun s => seg_string (fst s) (snd s)) segs) /\
    as_path_origin a = Ok (let '(t, v) := last segs (0, []) in
                           if t =? 2 then match rev v with x :: _ => Some x | [] => None end else None).
Proof. exact C14_wire_aspath_rendered. Qed.
Check wire_aspath_rendered :
  forall segs a, wire_path segs -> a_data a = DBin (enc_path segs) ->
    render_path (enc_path segs) = join [32] (map (fun s => seg_string (fst s) (snd s)) segs) /\
    as_path_origin a = Ok (let '(t, v) := last segs (0, []) in
                           if t =? 2 then match rev v with x :: _ => Some x | [] => None end else None).
Print Assumptions wire_aspath_rendered.

(* 10. every assignment in force after any history of API calls satisfies the
       well-formedness hypothesis of theorem 1 *)
Theorem api_built_assignments_wf :
  forall l a, let t := run_history empty_table l in
              (t_imp t = Some a \/ t_exp t = Some a) -> wf_assignment a.
Proof. exact C14_api_built_assignments_wf. Qed.
Check api_built_assignments_wf :
  forall l a, let t := run_history empty_table l in
              (t_imp t = Some a \/ t_exp t = Some a) -> wf_assignment a.
Print Assumptions api_built_assignments_wf.

(* 10b. what a merged prefix set contains: of the entries given in the call the
        last per (masked address, length), plus the old entries whose key the
        call does not restate; 0.0.0.0/0 and ::/0 keep the new range if given,
        else the old one -- per family *)
Theorem prefix_merge_content :
  forall old l es z z6 l4 l6 s,
    set_ku (SPrefix old) ->
    parse_all pfx_parse l = Some es -> split_pfx es = (z, z6, l4, l6) ->
    build_set (Some (SPrefix old)) (CfgPrefix l) = Ok (inl s) ->
    exists p, s = SPrefix p /\
      ps_zero p = or_else z (ps_zero old) /\ ps_zero6 p = or_else z6 (ps_zero6 old) /\
      (forall f, In f (ps_v4 p) <->
         In f (last_per_key (map (mk4 32) l4)) \/ (In f (ps_v4 old) /\ existsb (pent_same_key f) (map (mk4 32) l4) = false)) /\
      (forall f, In f (ps_v6 p) <->
         In f (last_per_key (map (mk4 128) l6)) \/ (In f (ps_v6 old) /\ existsb (pent_same_key f) (map (mk4 128) l6) = false)).
Proof. exact C14_prefix_merge_content. Qed.
Check prefix_merge_content :
  forall old l es z z6 l4 l6 s,
    set_ku (SPrefix old) ->
    parse_all pfx_parse l = Some es -> split_pfx es = (z, z6, l4, l6) ->
    build_set (Some (SPrefix old)) (CfgPrefix l) = Ok (inl s) ->
    exists p, s = SPrefix p /\
      ps_zero p = or_else z (ps_zero old) /\ ps_zero6 p = or_else z6 (ps_zero6 old) /\
      (forall f, In f (ps_v4 p) <->
         In f (last_per_key (map (mk4 32) l4)) \/ (In f (ps_v4 old) /\ existsb (pent_same_key f) (map (mk4 32) l4) = false)) /\
      (forall f, In f (ps_v6 p) <->
         In f (last_per_key (map (mk4 128) l6)) \/ (In f (ps_v6 old) /\ existsb (pent_same_key f) (map (mk4 128) l6) = false)).
Print Assumptions prefix_merge_content.

(* 10c. keys are unique in every prefix set stored after any history of calls
        (the hypothesis of 10b holds of every stored set) *)
Theorem stored_sets_keys_unique :
  forall l k n s, lookup_set k n (t_sets (run_history empty_table l)) = Some s -> set_ku s.
Proof. exact C14_history_keys_unique. Qed.
Check stored_sets_keys_unique :
  forall l k n s, lookup_set k n (t_sets (run_history empty_table l)) = Some s -> set_ku s.
Print Assumptions stored_sets_keys_unique.

(* 10d. no CRUD call panics unless a prefix-set entry has host bits inside the
        nibble that holds its mask boundary (the treebitmap panic recorded as out
        of scope is exactly the complement: Proofs/PolicyContent.v hostbits_panic) *)
Theorem crud_total_on_canonical_prefixes :
  forall t o, op_canonical o -> exists t' code, crud_step t o = Ok (t', code).
Proof. exact C14_crud_total_canonical. Qed.
Check crud_total_on_canonical_prefixes :
  forall t o, op_canonical o -> exists t' code, crud_step t o = Ok (t', code).
Print Assumptions crud_total_on_canonical_prefixes.

(* 10e. the export policy a peer's session evaluates after any history of
        Global-level calls (its override, else the global slot) satisfies the
        well-formedness hypothesis of theorem 1 *)
Theorem peer_effective_export_wf :
  forall l peer a, effective_export (grun_history empty_global l) peer = Some a -> wf_assignment a.
Proof. exact C14_peer_effective_export_wf. Qed.
Check peer_effective_export_wf :
  forall l peer a, effective_export (grun_history empty_global l) peer = Some a -> wf_assignment a.
Print Assumptions peer_effective_export_wf.

(* 10f. the cached needs_rpki flag of every assignment in force -- the two global
        slots, and the export policy every peer evaluates -- equals "some statement
        of some of its policies has an rpki condition", after any history of table
        calls and of Global-level calls (however the assignment was accumulated) *)
Theorem needs_rpki_cached_correctly :
  (forall l a, let t := run_history empty_table l in
               (t_imp t = Some a \/ t_exp t = Some a) -> as_needs_rpki a = compute_needs_rpki (as_pols a)) /\
  (forall l peer a, let g := grun_history empty_global l in
               (effective_export g peer = Some a \/ t_imp (g_table g) = Some a) ->
               as_needs_rpki a = compute_needs_rpki (as_pols a)).
Proof. exact C14_needs_rpki_cached_correctly. Qed.
Check needs_rpki_cached_correctly :
  (forall l a, let t := run_history empty_table l in
               (t_imp t = Some a \/ t_exp t = Some a) -> as_needs_rpki a = compute_needs_rpki (as_pols a)) /\
  (forall l peer a, let g := grun_history empty_global l in
               (effective_export g peer = Some a \/ t_imp (g_table g) = Some a) ->
               as_needs_rpki a = compute_needs_rpki (as_pols a)).
Print Assumptions needs_rpki_cached_correctly.

(* 10g. hence the daemon's gate (the RPKI table is handed to evaluation only when
        the flag is set) never changes a result: the verdict does not depend on
        the history of assignment operations *)
Theorem gated_evaluation_history_independent :
  forall (rc re rl : N -> N -> bool) (rxa : N -> list N -> bool) (validate : nlri -> N -> option N) l peer a x r,
    let g := grun_history empty_global l in
    (effective_export g peer = Some a \/ t_imp (g_table g) = Some a) ->
    eval_code rc re rl rxa (if as_needs_rpki a then Some validate else None) a x r =
    eval_code rc re rl rxa (Some validate) a x r.
Proof. exact C14_gated_evaluation_history_independent. Qed.
Check gated_evaluation_history_independent :
  forall (rc re rl : N -> N -> bool) (rxa : N -> list N -> bool) (validate : nlri -> N -> option N) l peer a x r,
    let g := grun_history empty_global l in
    (effective_export g peer = Some a \/ t_imp (g_table g) = Some a) ->
    eval_code rc re rl rxa (if as_needs_rpki a then Some validate else None) a x r =
    eval_code rc re rl rxa (Some validate) a x r.
Print Assumptions gated_evaluation_history_independent.

(* 11. the repaired findings, against the model of the code before each repair *)
Theorem prefix_set_longest_match_refuted :
  (exists p n, wf_pset p /\ pset_matches p n /\ pset_matched_pre p n = false) /\
  (exists p n, wf_pset p /\ ~ pset_matches p n /\ pset_matched_pre p n = true).
Proof. exact (conj prefix_longest_match_refuted prefix_more_specific_refuted). Qed.
Check prefix_set_longest_match_refuted :
  (exists p n, wf_pset p /\ pset_matches p n /\ pset_matched_pre p n = false) /\
  (exists p n, wf_pset p /\ ~ pset_matches p n /\ pset_matched_pre p n = true).
Print Assumptions prefix_set_longest_match_refuted.

Theorem aspath_patterns_refuted :
  (exists s segs, single_match_pre s segs = Panic P_OVERFLOW /\ single_says s (concat segs)) /\
  (exists s segs, cond_aspath_pre MAll s segs = Ok false /\
                  forall m, In m (ap_single s) -> single_says m (concat segs)).
Proof. exact (conj origin_empty_segment_refuted aspath_all_refuted). Qed.
Check aspath_patterns_refuted :
  (exists s segs, single_match_pre s segs = Panic P_OVERFLOW /\ single_says s (concat segs)) /\
  (exists s segs, cond_aspath_pre MAll s segs = Ok false /\
                  forall m, In m (ap_single s) -> single_says m (concat segs)).
Print Assumptions aspath_patterns_refuted.

Theorem arithmetic_and_api_refuted :
  (exists i, well_known_pre i <> well_known_value i) /\
  (med_mod_pre Debug 5 (2 ^ 63 - 1) = Panic P_OVERFLOW /\ med_mod_pre Release 5 (2 ^ 63 - 1) = Ok 0 /\
   clamp_u32 (Z.of_N 5 + (2 ^ 63 - 1)) = 4294967295) /\
  (aslen_loop_pre 2 [9; 0] 0 = Panic P_UNREACHABLE /\ aslen_loop_pre 1 [2] 0 = Panic P_READ_U8 /\
   prepend_pre 2 [2] 65000 = Panic P_INDEX).
Proof. exact (conj well_known_refuted (conj med_mod_refuted api_aspath_refuted)). Qed.
Check arithmetic_and_api_refuted :
  (exists i, well_known_pre i <> well_known_value i) /\
  (med_mod_pre Debug 5 (2 ^ 63 - 1) = Panic P_OVERFLOW /\ med_mod_pre Release 5 (2 ^ 63 - 1) = Ok 0 /\
   clamp_u32 (Z.of_N 5 + (2 ^ 63 - 1)) = 4294967295) /\
  (aslen_loop_pre 2 [9; 0] 0 = Panic P_UNREACHABLE /\ aslen_loop_pre 1 [2] 0 = Panic P_READ_U8 /\
   prepend_pre 2 [2] 65000 = Panic P_INDEX).
Print Assumptions arithmetic_and_api_refuted.
