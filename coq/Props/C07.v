(* C07  Established only after a valid OPEN exchange; a collision leaves one
   connection.  Statements only: each theorem is closed by [exact], pinned by
   [Check] and followed by [Print Assumptions]. *)
From Coq Require Import List NArith Bool.
From RB Require Import Base.Val Model.Caps Model.Fsm Spec.FsmSpec Proofs.Fsm.
Import ListNotations.
Open Scope N_scope.

(* (1) A connection is Established only if, reading the history backwards, its
   slot has been occupied continuously since a KEEPALIVE was received on it,
   before that continuously since an OPEN with an acceptable AS was received on
   it, and before that continuously since a Connected arrived on the empty slot
   (which is when the OPEN is sent).  No SessionDown can lie in between, because
   every SessionDown empties the slot. *)
Theorem established_only_via_open_exchange :
  forall (p0 : pfsm) (ins : list (role * input)) (r : role),
    fresh p0 -> pstate (run_from p0 ins) r = Established ->
    alive_since p0 r (ev_keepalive p0 r) (rev ins).
Proof. exact C07_established_only_via_open_exchange. Qed.
Check established_only_via_open_exchange :
  forall (p0 : pfsm) (ins : list (role * input)) (r : role),
    fresh p0 -> pstate (run_from p0 ins) r = Established ->
    alive_since p0 r (ev_keepalive p0 r) (rev ins).
Print Assumptions established_only_via_open_exchange.

(* (2) A message the state does not allow tears the connection down with an
   FSM-error NOTIFICATION carrying that state; the slot is freed,
   StateChanged(Idle) is emitted and the other connection is untouched. *)
Theorem unexpected_message_fsm_error :
  forall (p : pfsm) (r : role) (c : conn) (m : msg),
    slot p r = Some c -> allowed (c_state c) m = false ->
    let code := st_code (c_state c) in
    In (PConn r (SessDown (RLocalNotif 5 code) (Some (5, code)))) (snd (peer_step p r (Recv m)))
    /\ In (PConn r (StateChanged Idle)) (snd (peer_step p r (Recv m)))
    /\ slot (fst (peer_step p r (Recv m))) r = None
    /\ slot (fst (peer_step p r (Recv m))) (other r) = slot p (other r).
Proof. exact unexpected_message. Qed.
Check unexpected_message_fsm_error :
  forall (p : pfsm) (r : role) (c : conn) (m : msg),
    slot p r = Some c -> allowed (c_state c) m = false ->
    let code := st_code (c_state c) in
    In (PConn r (SessDown (RLocalNotif 5 code) (Some (5, code)))) (snd (peer_step p r (Recv m)))
    /\ In (PConn r (StateChanged Idle)) (snd (peer_step p r (Recv m)))
    /\ slot (fst (peer_step p r (Recv m))) r = None
    /\ slot (fst (peer_step p r (Recv m))) (other r) = slot p (other r).
Print Assumptions unexpected_message_fsm_error.

(* (3) NOTIFICATION, hold-timer expiry, disconnect and admin shutdown always
   return the connection to Idle (in every reachable state) and the freed slot
   accepts a new attempt. *)
Theorem down_inputs_free_slot :
  forall (p0 : pfsm) (ins : list (role * input)) (r : role) (i : input) (c : conn),
    fresh p0 -> slot (run_from p0 ins) r = Some c -> down_input i = true ->
    let p := run_from p0 ins in
    let p' := fst (peer_step p r i) in
    slot p' r = None
    /\ slot p' (other r) = slot p (other r)
    /\ In (PConn r (StateChanged Idle)) (snd (peer_step p r i))
    /\ (exists rs n, In (PConn r (SessDown rs n)) (snd (peer_step p r i)))
    /\ forall b, pstate (fst (peer_step p' r (Connected b))) r = OpenSent
                 /\ exists m, In (PConn r (Send m)) (snd (peer_step p' r (Connected b))).
Proof. exact C07_down_inputs_free_slot. Qed.
Check down_inputs_free_slot :
  forall (p0 : pfsm) (ins : list (role * input)) (r : role) (i : input) (c : conn),
    fresh p0 -> slot (run_from p0 ins) r = Some c -> down_input i = true ->
    let p := run_from p0 ins in
    let p' := fst (peer_step p r i) in
    slot p' r = None
    /\ slot p' (other r) = slot p (other r)
    /\ In (PConn r (StateChanged Idle)) (snd (peer_step p r i))
    /\ (exists rs n, In (PConn r (SessDown rs n)) (snd (peer_step p r i)))
    /\ forall b, pstate (fst (peer_step p' r (Connected b))) r = OpenSent
                 /\ exists m, In (PConn r (Send m)) (snd (peer_step p' r (Connected b))).
Print Assumptions down_inputs_free_slot.

(* (4) In every reachable state at most one of the two connections is in
   OpenConfirm or Established. *)
Theorem at_most_one_confirmed :
  forall (p0 : pfsm) (ins : list (role * input)),
    fresh p0 -> ~ both_confirmed (run_from p0 ins).
Proof. exact C07_at_most_one_confirmed. Qed.
Check at_most_one_confirmed :
  forall (p0 : pfsm) (ins : list (role * input)),
    fresh p0 -> ~ both_confirmed (run_from p0 ins).
Print Assumptions at_most_one_confirmed.

(* (5a) Nothing that happens on one connection takes an Established
   connection on the other slot down. *)
Theorem established_never_loses :
  forall (p0 : pfsm) (ins : list (role * input)) (r : role) (i : input),
    fresh p0 -> pstate (run_from p0 ins) (other r) = Established ->
    pstate (fst (peer_step (run_from p0 ins) r i)) (other r) = Established.
Proof. exact C07_established_never_loses. Qed.
Check established_never_loses :
  forall (p0 : pfsm) (ins : list (role * input)) (r : role) (i : input),
    fresh p0 -> pstate (run_from p0 ins) (other r) = Established ->
    pstate (fst (peer_step (run_from p0 ins) r i)) (other r) = Established.
Print Assumptions established_never_loses.

(* (5b) When a connection enters OpenConfirm while the other one is already
   confirmed: an Established other side wins; between two OpenConfirm
   connections the Active one (initiated locally) survives iff the local
   identifier is the higher; the loser's slot is freed and it is told
   Cease / connection collision (6,7). *)
Theorem collision_survivor :
  forall (p0 : pfsm) (ins : list (role * input)) (r : role) (asn id hold : N)
         (caps : list cap) (c oc : conn),
    fresh p0 ->
    let p := run_from p0 ins in
    slot p r = Some c -> c_state c = OpenSent ->
    asn_acceptable (c_expected_asn c) asn ->
    slot p (other r) = Some oc -> confirmed (c_state oc) = true ->
    let res := peer_step p r (Recv (MOpen asn id hold caps)) in
    let loser := if st_eqb (c_state oc) Established then r
                 else other (if id <? p_local_id p then RActive else RPassive) in
    slot (fst res) loser = None
    /\ confirmed (pstate (fst res) (other loser)) = true
    /\ (if role_eqb loser r
        then In (PConn r (SessDown (RLocalNotif 6 7) (Some (6, 7)))) (snd res)
        else In (PConn loser (Send (MNotif 6 7))) (snd res)).
Proof. exact C07_collision_survivor. Qed.
Check collision_survivor :
  forall (p0 : pfsm) (ins : list (role * input)) (r : role) (asn id hold : N)
         (caps : list cap) (c oc : conn),
    fresh p0 ->
    let p := run_from p0 ins in
    slot p r = Some c -> c_state c = OpenSent ->
    asn_acceptable (c_expected_asn c) asn ->
    slot p (other r) = Some oc -> confirmed (c_state oc) = true ->
    let res := peer_step p r (Recv (MOpen asn id hold caps)) in
    let loser := if st_eqb (c_state oc) Established then r
                 else other (if id <? p_local_id p then RActive else RPassive) in
    slot (fst res) loser = None
    /\ confirmed (pstate (fst res) (other loser)) = true
    /\ (if role_eqb loser r
        then In (PConn r (SessDown (RLocalNotif 6 7) (Some (6, 7)))) (snd res)
        else In (PConn loser (Send (MNotif 6 7))) (snd res)).
Print Assumptions collision_survivor.
