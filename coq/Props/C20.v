(* C20  Kernel FIB requests and next-hop tracking stay in step with the RIB.
   Statements only: each theorem is closed by [exact], pinned by [Check] and
   followed by [Print Assumptions].  [run c Fixed st0 ops] is the model of the
   TableManager after the history [ops] together with the request stream sent
   through the KernelHandle; fib_replay / ref_replay are the kernel side. *)
From Coq Require Import List NArith Bool.
From RB Require Import Base.Val Model.Fib Spec.FibSpec Proofs.FibOrder Proofs.Fib.
Import ListNotations.
Open Scope N_scope.

(* (1a) After any history, replaying the requests yields for every prefix of the
   main table exactly the next hops of the selectable paths that no selectable
   path beats in the decision steps before the router id (nothing if there is
   no selectable path).  Histories include inserts under a prefix limit and the
   restarting-speaker deferral of a family: [run_ok] says that a deferral starts
   while the family holds no route (it is started at boot); while it lasts
   ([s_def]) nothing of the family is installed, once it has ended the statement
   is the one of the property text. *)
Theorem fib_replay_eq_ecmp_of_best :
  forall (c : cfg) (ops : list op) (p : prefix),
    run_ok c Fixed st0 ops ->
    let s := fst (run c Fixed st0 ops) in
    let reqs := snd (run c Fixed st0 ops) in
    fib_replay reqs (None, p) =
    if memN (fst p) (s_def s) then [] else fib_spec c (s_fl s) (d_l (s_get s p)).
Proof. exact C20_fib_replay_eq_ecmp_of_best. Qed.
Check fib_replay_eq_ecmp_of_best :
  forall (c : cfg) (ops : list op) (p : prefix),
    run_ok c Fixed st0 ops ->
    let s := fst (run c Fixed st0 ops) in
    let reqs := snd (run c Fixed st0 ops) in
    fib_replay reqs (None, p) =
    if memN (fst p) (s_def s) then [] else fib_spec c (s_fl s) (d_l (s_get s p)).
Print Assumptions fib_replay_eq_ecmp_of_best.

(* (1b) For a VPN prefix (VPNv4 or VPNv6), every VRF with a kernel table holds the
   same next hops when its import targets match the best path and nothing
   otherwise; the best path referred to is a best path in the sense of the Spec.
   Outside the known class C20-3 (another VPN prefix with the same VRF-local
   prefix, i.e. another route distinguisher, has been seen): see the witness. *)
Theorem vrf_fib_replay_eq_ecmp_of_best_outside_known :
  forall (c : cfg) (ops : list op) (p : prefix) (id : N) (imp : list N),
    is_vpn p = true ->
    NoDup (map fst (c_vrfs c)) -> In (id, imp) (c_vrfs c) -> id <> 0 ->
    run_ok c Fixed st0 ops ->
    let s := fst (run c Fixed st0 ops) in
    let reqs := snd (run c Fixed st0 ops) in
    let l := d_l (s_get s p) in
    ~ Known_C20_3 p (s_keys s) ->
    fib_replay reqs (Some id, local_pfx p) =
      (if memN (fst p) (s_def s) then [] else vrf_spec c (s_fl s) imp l (hd_error (selectable l))) /\
    (forall b, hd_error (selectable l) = Some b -> is_best c (s_fl s) l b).
Proof. exact C20_vrf_fib_replay_eq_ecmp_of_best_outside_known. Qed.
Check vrf_fib_replay_eq_ecmp_of_best_outside_known :
  forall (c : cfg) (ops : list op) (p : prefix) (id : N) (imp : list N),
    is_vpn p = true ->
    NoDup (map fst (c_vrfs c)) -> In (id, imp) (c_vrfs c) -> id <> 0 ->
    run_ok c Fixed st0 ops ->
    let s := fst (run c Fixed st0 ops) in
    let reqs := snd (run c Fixed st0 ops) in
    let l := d_l (s_get s p) in
    ~ Known_C20_3 p (s_keys s) ->
    fib_replay reqs (Some id, local_pfx p) =
      (if memN (fst p) (s_def s) then [] else vrf_spec c (s_fl s) imp l (hd_error (selectable l))) /\
    (forall b, hd_error (selectable l) = Some b -> is_best c (s_fl s) l b).
Print Assumptions vrf_fib_replay_eq_ecmp_of_best_outside_known.

(* (1b, witness) the full statement fails inside the class: the VRF entry is keyed
   by the prefix without its route distinguisher, and withdrawing one of two VPN
   prefixes that share it empties the entry although the other is still importable. *)
Theorem vrf_fib_replay_eq_ecmp_of_best_refuted :
  exists (c : cfg) (ops : list op) (p : prefix) (id : N) (imp : list N),
    is_vpn p = true /\ NoDup (map fst (c_vrfs c)) /\ In (id, imp) (c_vrfs c) /\ id <> 0 /\
    run_ok c Fixed st0 ops /\
    let s := fst (run c Fixed st0 ops) in
    let l := d_l (s_get s p) in
    Known_C20_3 p (s_keys s) /\
    fib_replay (snd (run c Fixed st0 ops)) (Some id, local_pfx p) <>
    (if memN (fst p) (s_def s) then [] else vrf_spec c (s_fl s) imp l (hd_error (selectable l))).
Proof. exact C20_vrf_fib_replay_eq_ecmp_of_best_refuted. Qed.
Check vrf_fib_replay_eq_ecmp_of_best_refuted :
  exists (c : cfg) (ops : list op) (p : prefix) (id : N) (imp : list N),
    is_vpn p = true /\ NoDup (map fst (c_vrfs c)) /\ In (id, imp) (c_vrfs c) /\ id <> 0 /\
    run_ok c Fixed st0 ops /\
    let s := fst (run c Fixed st0 ops) in
    let l := d_l (s_get s p) in
    Known_C20_3 p (s_keys s) /\
    fib_replay (snd (run c Fixed st0 ops)) (Some id, local_pfx p) <>
    (if memN (fst p) (s_def s) then [] else vrf_spec c (s_fl s) imp l (hd_error (selectable l))).
Print Assumptions vrf_fib_replay_eq_ecmp_of_best_refuted.

(* (2) The registrations outstanding for an address equal the number of
   peer-learned paths currently using it (peer-level operations never name the
   local pseudo-source). *)
Theorem nht_refcount_eq_paths :
  forall (c : cfg) (ops : list op) (a : N),
    forallb wf_op ops = true ->
    let s := fst (run c Fixed st0 ops) in
    let reqs := snd (run c Fixed st0 ops) in
    ref_replay reqs a = paths_using s a.
Proof. exact C20_nht_refcount_eq_paths. Qed.
Check nht_refcount_eq_paths :
  forall (c : cfg) (ops : list op) (a : N),
    forallb wf_op ops = true ->
    let s := fst (run c Fixed st0 ops) in
    let reqs := snd (run c Fixed st0 ops) in
    ref_replay reqs a = paths_using s a.
Print Assumptions nht_refcount_eq_paths.

(* (2') The counts the kernel service task keeps (Model: svc_run, tied to
   run_service_loop by the hx-kernel harness) are the replay used in (2). *)
Theorem kernel_watched_count_is_replay :
  forall (reqs : list req) (a : N), fst (svc_run reqs) a = ref_replay reqs a.
Proof. exact svc_count_refines_spec. Qed.
Check kernel_watched_count_is_replay :
  forall (reqs : list req) (a : N), fst (svc_run reqs) a = ref_replay reqs a.
Print Assumptions kernel_watched_count_is_replay.

(* (3) A path whose next hop was last reported unreachable is not selectable;
   once reported reachable again it is selectable unless import policy filtered it. *)
Theorem unreachable_nexthop_excluded :
  forall (c : cfg) (ops : list op) (p : prefix) (e : entry) (a : N),
    let s := fst (run c Fixed st0 ops) in
    let l := d_l (s_get s p) in
    In e l -> e_nh e = Some a ->
    (unreachable_after ops a false = true -> ~ In e (selectable l)) /\
    (unreachable_after ops a false = false -> e_filt e = false -> In e (selectable l)).
Proof. exact C20_unreachable_nexthop_excluded. Qed.
Check unreachable_nexthop_excluded :
  forall (c : cfg) (ops : list op) (p : prefix) (e : entry) (a : N),
    let s := fst (run c Fixed st0 ops) in
    let l := d_l (s_get s p) in
    In e l -> e_nh e = Some a ->
    (unreachable_after ops a false = true -> ~ In e (selectable l)) /\
    (unreachable_after ops a false = false -> e_filt e = false -> In e (selectable l)).
Print Assumptions unreachable_nexthop_excluded.

(* (3') Finding C20-4 (fixed): an insert_route that takes its shard lock after the
   reachability reports [mids] of another thread were applied consults the set of
   unreachable next hops as it is then, i.e. it is the insert of the sequential history
   [pre ++ mids ++ [Insert ...]] to which (1)-(3) apply; the harness drives exactly
   this schedule on real threads (Model: run_race). *)
Theorem insert_race_is_sequential :
  forall (c : cfg) (pre mids : list op) (peer sess : N) (p : prefix) (pid : N) (nh : option nexthop) (tok : N),
    let s1 := fst (run c Fixed st0 (pre ++ mids)) in
    step_ins_with c Fixed s1 (s_inv s1) peer sess p pid nh tok = step c Fixed s1 (Insert peer sess p pid nh tok).
Proof. exact C20_insert_race_is_sequential. Qed.
Check insert_race_is_sequential :
  forall (c : cfg) (pre mids : list op) (peer sess : N) (p : prefix) (pid : N) (nh : option nexthop) (tok : N),
    let s1 := fst (run c Fixed st0 (pre ++ mids)) in
    step_ins_with c Fixed s1 (s_inv s1) peer sess p pid nh tok = step c Fixed s1 (Insert peer sess p pid nh tok).
Print Assumptions insert_race_is_sequential.

(* (3', witness) with the set read before the lock (the code before the fix) a path inserted
   while the report is applied stays selectable although its next hop is unreachable. *)
Theorem unreachable_nexthop_excluded_early_read_refuted :
  exists (c : cfg) (pre mids : list op) peer sess p pid nh tok (e : entry) (a : N),
    let s := early_state c pre mids peer sess p pid nh tok in
    let l := d_l (s_get s p) in
    In e l /\ e_nh e = Some a /\
    unreachable_after (pre ++ mids ++ [Insert peer sess p pid nh tok]) a false = true /\ In e (selectable l).
Proof. exact C20_unreachable_nexthop_excluded_early_read_refuted. Qed.
Check unreachable_nexthop_excluded_early_read_refuted :
  exists (c : cfg) (pre mids : list op) peer sess p pid nh tok (e : entry) (a : N),
    let s := early_state c pre mids peer sess p pid nh tok in
    let l := d_l (s_get s p) in
    In e l /\ e_nh e = Some a /\
    unreachable_after (pre ++ mids ++ [Insert peer sess p pid nh tok]) a false = true /\ In e (selectable l).
Print Assumptions unreachable_nexthop_excluded_early_read_refuted.

(* Witnesses kept from before the fix commits (findings C20-1, C20-2): the
   behaviour of distribute_update at that time ([Legacy]) violates (1a) and (1b). *)
Theorem fib_replay_eq_ecmp_of_best_legacy_refuted :
  exists (c : cfg) (ops : list op) (p : prefix),
    let s := fst (run c Legacy st0 ops) in
    fib_replay (snd (run c Legacy st0 ops)) (None, p) <> fib_spec c (s_fl s) (d_l (s_get s p)).
Proof. exact C20_fib_replay_eq_ecmp_of_best_legacy_refuted. Qed.
Check fib_replay_eq_ecmp_of_best_legacy_refuted :
  exists (c : cfg) (ops : list op) (p : prefix),
    let s := fst (run c Legacy st0 ops) in
    fib_replay (snd (run c Legacy st0 ops)) (None, p) <> fib_spec c (s_fl s) (d_l (s_get s p)).
Print Assumptions fib_replay_eq_ecmp_of_best_legacy_refuted.

Theorem vrf_fib_replay_eq_ecmp_of_best_legacy_refuted :
  exists (c : cfg) (ops : list op) (i id : N) (imp : list N),
    NoDup (map fst (c_vrfs c)) /\ In (id, imp) (c_vrfs c) /\ id <> 0 /\
    let s := fst (run c Legacy st0 ops) in
    let l := d_l (s_get s (1, i)) in
    fib_replay (snd (run c Legacy st0 ops)) (Some id, (2, i)) <>
    vrf_spec c (s_fl s) imp l (hd_error (selectable l)).
Proof. exact C20_vrf_fib_replay_eq_ecmp_of_best_legacy_refuted. Qed.
Check vrf_fib_replay_eq_ecmp_of_best_legacy_refuted :
  exists (c : cfg) (ops : list op) (i id : N) (imp : list N),
    NoDup (map fst (c_vrfs c)) /\ In (id, imp) (c_vrfs c) /\ id <> 0 /\
    let s := fst (run c Legacy st0 ops) in
    let l := d_l (s_get s (1, i)) in
    fib_replay (snd (run c Legacy st0 ops)) (Some id, (2, i)) <>
    vrf_spec c (s_fl s) imp l (hd_error (selectable l)).
Print Assumptions vrf_fib_replay_eq_ecmp_of_best_legacy_refuted.
