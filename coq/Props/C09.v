(* C09  Routes are propagated only where BGP allows, with correctly rewritten
   attributes.  Statements only. *)
From Coq Require Import List NArith Bool.
From RB Require Import Base.Val Model.Export Spec.ExportSpec Proofs.Export.
Import ListNotations.
Open Scope N_scope.

Theorem rs_predicate :
  forall s dest, crosses_rs_boundary s dest -> rs_isolation_suppress s dest = true.
Proof. exact C09_rs_predicate. Qed.
Check rs_predicate :
  forall s dest, crosses_rs_boundary s dest -> rs_isolation_suppress s dest = true.
Print Assumptions rs_predicate.
