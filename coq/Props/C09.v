(* C09  Routes are propagated only where BGP allows, with correctly rewritten
   attributes.  Statements only: each theorem is closed by [exact], pinned by
   [Check] and followed by [Print Assumptions].

   [advertised x pol emax raddr cid c e d pid nh out s]: process_nlri_change (the
   model of the working tree, Model/Export.v) run for a receiver with export
   context x, export policy pol, send-max emax, address raddr and cluster id cid
   on change c with export map e hands Reach(d, pid, nh, out) of source s to the
   sink.  All statements are for every context, policy, change and export map. *)
From Coq Require Import List NArith Bool.
From RB Require Import Base.Val Model.Export Spec.ExportSpec Proofs.Export.
Import ListNotations.
Open Scope N_scope.

(* (1) A route is never advertised back to the peer it was learned from (the peer is
   identified by its address, as in the code and in Source). *)
Theorem no_echo :
  forall x pol emax raddr cid c e d pid nh out s,
    advertised x pol emax raddr cid c e d pid nh out s -> ~ learned_from s raddr.
Proof. exact C09_no_echo. Qed.
Check no_echo :
  forall x pol emax raddr cid c e d pid nh out s,
    advertised x pol emax raddr cid c e d pid nh out s -> ~ learned_from s raddr.
Print Assumptions no_echo.

(* (2) Never from one non-client iBGP peer to another (any export policy, any
   cluster-id configuration). *)
Theorem no_ibgp_nonclient_to_nonclient :
  forall x pol emax raddr cid c e d pid nh out s,
    advertised x pol emax raddr cid c e d pid nh out s ->
    x_role x = Ibgp -> ~ nonclient_ibgp_source s.
Proof. exact C09_no_ibgp_nonclient_to_nonclient. Qed.
Check no_ibgp_nonclient_to_nonclient :
  forall x pol emax raddr cid c e d pid nh out s,
    advertised x pol emax raddr cid c e d pid nh out s ->
    x_role x = Ibgp -> ~ nonclient_ibgp_source s.
Print Assumptions no_ibgp_nonclient_to_nonclient.

(* (3) Never across the route-server / non-route-server boundary. *)
Theorem no_rs_boundary_crossing :
  forall x pol emax raddr cid c e d pid nh out s,
    advertised x pol emax raddr cid c e d pid nh out s -> ~ crosses_rs_boundary s (x_role x).
Proof. exact C09_no_rs_boundary_crossing. Qed.
Check no_rs_boundary_crossing :
  forall x pol emax raddr cid c e d pid nh out s,
    advertised x pol emax raddr cid c e d pid nh out s -> ~ crosses_rs_boundary s (x_role x).
Print Assumptions no_rs_boundary_crossing.

(* (4) A route whose AS_PATH contains the local AS or the confederation id, whose
   ORIGINATOR_ID is the local router id, or whose CLUSTER_LIST contains the
   session's cluster id is never handed to insert_route (rx_reach = the
   is_as_loop filter of run_select followed by rx_update). *)
Theorem loops_never_installed :
  forall x rid cid attrs,
    looped x rid cid attrs -> forall installed, rx_reach x rid cid attrs <> Ok (Some installed).
Proof. exact C09_loops_never_installed. Qed.
Check loops_never_installed :
  forall x rid cid attrs,
    looped x rid cid attrs -> forall installed, rx_reach x rid cid attrs <> Ok (Some installed).
Print Assumptions loops_never_installed.

(* (5) To eBGP peers (export policy without set-actions): the local AS — the
   confederation id if configured — is prepended exactly once to the path
   without its confederation segments, in an AS_SEQUENCE; LOCAL_PREF,
   ORIGINATOR_ID, CLUSTER_LIST, AIGP and MED are absent; the next hop is self
   (except for a Flowspec route without next hop, and for a locally injected
   route whose API-supplied next hop is explicit: export_nexthop keeps that one). *)
Theorem ebgp_rewrite :
  forall x pol emax raddr cid c e d pid nh out s,
    wf_ctx x -> x_role x = Ebgp -> filter_only pol ->
    (forall p, In p (c_paths c) -> decodable (p_attrs p)) ->
    advertised x pol emax raddr cid c e d pid nh out s ->
    exists p, In p (c_paths c) /\ s = p_src p
      /\ (forall pin, path_of (p_attrs p) pin -> ebgp_path_ok x pin out)
      /\ ebgp_strips_ok out
      /\ absent MED out
      /\ ((p_nh p = None -> is_flowspec (c_family c) = false) ->
          (forall n, p_nh p = Some n -> src_is_local s = true -> ip_unspecified (nh_addr n) = true) ->
          nh = Some (self_nexthop x)).
Proof. exact C09_ebgp_rewrite. Qed.
Check ebgp_rewrite :
  forall x pol emax raddr cid c e d pid nh out s,
    wf_ctx x -> x_role x = Ebgp -> filter_only pol ->
    (forall p, In p (c_paths c) -> decodable (p_attrs p)) ->
    advertised x pol emax raddr cid c e d pid nh out s ->
    exists p, In p (c_paths c) /\ s = p_src p
      /\ (forall pin, path_of (p_attrs p) pin -> ebgp_path_ok x pin out)
      /\ ebgp_strips_ok out
      /\ absent MED out
      /\ ((p_nh p = None -> is_flowspec (c_family c) = false) ->
          (forall n, p_nh p = Some n -> src_is_local s = true -> ip_unspecified (nh_addr n) = true) ->
          nh = Some (self_nexthop x)).
Print Assumptions ebgp_rewrite.

(* (5') With ANY export policy: the iBGP-only attributes never reach an eBGP peer;
   the policy is applied to attributes whose received MED has been removed and
   whose next hop is already self, and what is sent is the next hop the policy
   returned (so set-med / set-nexthop actions survive). *)
Theorem ebgp_any_policy :
  forall x pol emax raddr cid c e d pid nh out s,
    x_role x = Ebgp -> advertised x pol emax raddr cid c e d pid nh out s ->
    ebgp_strips_ok out
    /\ exists p a0 nh0 a1, In p (c_paths c) /\ s = p_src p
         /\ pre_policy_defaults x (p_attrs p) (p_nh p) (c_family c) (src_is_local s) = (a0, nh0)
         /\ absent MED a0
         /\ ((p_nh p = None -> is_flowspec (c_family c) = false) ->
             (forall n, p_nh p = Some n -> src_is_local s = true -> ip_unspecified (nh_addr n) = true) ->
             nh0 = Some (self_nexthop x))
         /\ pol s a0 nh0 (p_nh p) (role_eqb (x_role x) ConfedEbgp) = Some (a1, nh).
Proof. exact C09_ebgp_any_policy. Qed.
Check ebgp_any_policy :
  forall x pol emax raddr cid c e d pid nh out s,
    x_role x = Ebgp -> advertised x pol emax raddr cid c e d pid nh out s ->
    ebgp_strips_ok out
    /\ exists p a0 nh0 a1, In p (c_paths c) /\ s = p_src p
         /\ pre_policy_defaults x (p_attrs p) (p_nh p) (c_family c) (src_is_local s) = (a0, nh0)
         /\ absent MED a0
         /\ ((p_nh p = None -> is_flowspec (c_family c) = false) ->
             (forall n, p_nh p = Some n -> src_is_local s = true -> ip_unspecified (nh_addr n) = true) ->
             nh0 = Some (self_nexthop x))
         /\ pol s a0 nh0 (p_nh p) (role_eqb (x_role x) ConfedEbgp) = Some (a1, nh).
Print Assumptions ebgp_any_policy.

(* (6) To iBGP peers: LOCAL_PREF is present (the route's own if it has one), the
   AS_PATH attribute and an explicit next hop are untouched. *)
Theorem ibgp_rewrite :
  forall x pol emax raddr cid c e d pid nh out s,
    role_is_ibgp (x_role x) = true -> filter_only pol ->
    (forall p, In p (c_paths c) -> decodable (p_attrs p)) ->
    advertised x pol emax raddr cid c e d pid nh out s ->
    exists p, In p (c_paths c) /\ s = p_src p
      /\ (exists lp, find_code LOCAL_PREF out = Some lp
                     /\ forall lp', find_code LOCAL_PREF (p_attrs p) = Some lp' -> lp = lp')
      /\ find_code AS_PATH out = find_code AS_PATH (p_attrs p)
      /\ (explicit_nexthop (src_is_local s) (p_nh p) -> nh = p_nh p).
Proof. exact C09_ibgp_rewrite. Qed.
Check ibgp_rewrite :
  forall x pol emax raddr cid c e d pid nh out s,
    role_is_ibgp (x_role x) = true -> filter_only pol ->
    (forall p, In p (c_paths c) -> decodable (p_attrs p)) ->
    advertised x pol emax raddr cid c e d pid nh out s ->
    exists p, In p (c_paths c) /\ s = p_src p
      /\ (exists lp, find_code LOCAL_PREF out = Some lp
                     /\ forall lp', find_code LOCAL_PREF (p_attrs p) = Some lp' -> lp = lp')
      /\ find_code AS_PATH out = find_code AS_PATH (p_attrs p)
      /\ (explicit_nexthop (src_is_local s) (p_nh p) -> nh = p_nh p).
Print Assumptions ibgp_rewrite.

(* (6') LOCAL_PREF is ALWAYS present towards iBGP peers, whatever the policy does. *)
Theorem ibgp_local_pref_any_policy :
  forall x pol emax raddr cid c e d pid nh out s,
    role_is_ibgp (x_role x) = true -> policy_keeps_decodable pol ->
    (forall p, In p (c_paths c) -> decodable (p_attrs p)) ->
    advertised x pol emax raddr cid c e d pid nh out s ->
    has_code LOCAL_PREF out = true.
Proof. exact C09_ibgp_local_pref_any_policy. Qed.
Check ibgp_local_pref_any_policy :
  forall x pol emax raddr cid c e d pid nh out s,
    role_is_ibgp (x_role x) = true -> policy_keeps_decodable pol ->
    (forall p, In p (c_paths c) -> decodable (p_attrs p)) ->
    advertised x pol emax raddr cid c e d pid nh out s ->
    has_code LOCAL_PREF out = true.
Print Assumptions ibgp_local_pref_any_policy.

(* (7) A route learned from an iBGP peer and sent to an iBGP peer (a reflected
   route) carries ORIGINATOR_ID (the received one, else the router id of the peer
   it came from) and the cluster id in front of the received CLUSTER_LIST. *)
Theorem reflection_adds_originator_and_cluster :
  forall x pol emax raddr cid c e d pid nh out s,
    role_is_ibgp (x_role x) = true -> ibgp_peer_source s -> filter_only pol ->
    (forall p, In p (c_paths c) -> decodable (p_attrs p)) ->
    advertised x pol emax raddr cid c e d pid nh out s ->
    exists p cl, In p (c_paths c) /\ s = p_src p /\ cid = Some cl
      /\ reflected_ok (p_attrs p) out (src_rid s) cl.
Proof. exact C09_reflection_adds_originator_and_cluster. Qed.
Check reflection_adds_originator_and_cluster :
  forall x pol emax raddr cid c e d pid nh out s,
    role_is_ibgp (x_role x) = true -> ibgp_peer_source s -> filter_only pol ->
    (forall p, In p (c_paths c) -> decodable (p_attrs p)) ->
    advertised x pol emax raddr cid c e d pid nh out s ->
    exists p cl, In p (c_paths c) /\ s = p_src p /\ cid = Some cl
      /\ reflected_ok (p_attrs p) out (src_rid s) cl.
Print Assumptions reflection_adds_originator_and_cluster.

(* (8) Confed-eBGP peers get the member AS at the head of an AS_CONFED_SEQUENCE,
   the rest of the path unchanged; LOCAL_PREF is retained. *)
Theorem confed_rewrite :
  forall x pol emax raddr cid c e d pid nh out s,
    wf_ctx x -> x_role x = ConfedEbgp -> filter_only pol ->
    (forall p, In p (c_paths c) -> decodable (p_attrs p)) ->
    advertised x pol emax raddr cid c e d pid nh out s ->
    exists p, In p (c_paths c) /\ s = p_src p
      /\ (forall pin, path_of (p_attrs p) pin -> confed_path_ok x pin out)
      /\ (forall lp, find_code LOCAL_PREF (p_attrs p) = Some lp -> find_code LOCAL_PREF out = Some lp).
Proof. exact C09_confed_rewrite. Qed.
Check confed_rewrite :
  forall x pol emax raddr cid c e d pid nh out s,
    wf_ctx x -> x_role x = ConfedEbgp -> filter_only pol ->
    (forall p, In p (c_paths c) -> decodable (p_attrs p)) ->
    advertised x pol emax raddr cid c e d pid nh out s ->
    exists p, In p (c_paths c) /\ s = p_src p
      /\ (forall pin, path_of (p_attrs p) pin -> confed_path_ok x pin out)
      /\ (forall lp, find_code LOCAL_PREF (p_attrs p) = Some lp -> find_code LOCAL_PREF out = Some lp).
Print Assumptions confed_rewrite.

(* (9) Every advertisement of a route whose source is LLGR-stale carries LLGR_STALE
   (any role, any decodability-preserving policy). *)
Theorem llgr_stale_marked :
  forall x pol emax raddr cid c e r d pid nh out s,
    policy_keeps_decodable pol ->
    (forall p, In p (c_paths c) -> decodable (p_attrs p)) ->
    process_change x pol emax raddr cid c e = Ok r -> In (Reach d pid nh out s) (fst r) ->
    src_llgr s = true -> carries_llgr_stale out.
Proof. exact C09_llgr_stale_marked. Qed.
Check llgr_stale_marked :
  forall x pol emax raddr cid c e r d pid nh out s,
    policy_keeps_decodable pol ->
    (forall p, In p (c_paths c) -> decodable (p_attrs p)) ->
    process_change x pol emax raddr cid c e = Ok r -> In (Reach d pid nh out s) (fst r) ->
    src_llgr s = true -> carries_llgr_stale out.
Print Assumptions llgr_stale_marked.



(* (10) Unknown transitive attributes of the route are forwarded with Partial set,
   unknown non-transitive ones are dropped, nothing unknown is invented. *)
Theorem unknown_attr_rule :
  forall x pol emax raddr cid c e d pid nh out s,
    filter_only pol ->
    (forall p, In p (c_paths c) -> decodable (p_attrs p)) ->
    advertised x pol emax raddr cid c e d pid nh out s ->
    exists p, In p (c_paths c) /\ s = p_src p /\ unknown_rule_ok (p_attrs p) out.
Proof. exact C09_unknown_attr_rule. Qed.
Check unknown_attr_rule :
  forall x pol emax raddr cid c e d pid nh out s,
    filter_only pol ->
    (forall p, In p (c_paths c) -> decodable (p_attrs p)) ->
    advertised x pol emax raddr cid c e d pid nh out s ->
    exists p, In p (c_paths c) /\ s = p_src p /\ unknown_rule_ok (p_attrs p) out.
Print Assumptions unknown_attr_rule.

(* (10') The rule holds of export_attrs itself, for every role and whatever attribute
   vector the policy produced. *)
Theorem unknown_attr_rule_any_policy :
  forall x attrs out,
    decodable attrs -> export_attrs x attrs = Ok out -> unknown_rule_ok attrs out.
Proof. exact C09_unknown_attr_rule_any_policy. Qed.
Check unknown_attr_rule_any_policy :
  forall x attrs out,
    decodable attrs -> export_attrs x attrs = Ok out -> unknown_rule_ok attrs out.
Print Assumptions unknown_attr_rule_any_policy.

(* AS_PATH edits (packet/src/bgp.rs).  as_path_prepend / as_path_prepend_confed on a
   well-formed path: the AS is in front exactly once in a segment of the requested
   type, everything else is unchanged, the result is well-formed (<= 255 per segment). *)
Theorem as_path_prepend_spec :
  forall ty asn p,
    wf_path p -> 1 <= ty <= 4 -> asn < 4294967296 ->
    exists asns rest,
      path_prepend_b ty asn (encode_path p) = Ok (encode_path ((ty, asn :: asns) :: rest))
      /\ wf_path ((ty, asn :: asns) :: rest)
      /\ tflat ((ty, asn :: asns) :: rest) = (ty, asn) :: tflat p.
Proof. exact prepend_spec. Qed.
Check as_path_prepend_spec :
  forall ty asn p,
    wf_path p -> 1 <= ty <= 4 -> asn < 4294967296 ->
    exists asns rest,
      path_prepend_b ty asn (encode_path p) = Ok (encode_path ((ty, asn :: asns) :: rest))
      /\ wf_path ((ty, asn :: asns) :: rest)
      /\ tflat ((ty, asn :: asns) :: rest) = (ty, asn) :: tflat p.
Print Assumptions as_path_prepend_spec.

(* A head segment that already has 255 ASes is not extended: a new segment is created. *)
Theorem as_path_full_segment_rule :
  forall ty asn asns rest,
    length asns = 255%nat ->
    path_prepend_b ty asn (encode_path ((ty, asns) :: rest))
    = Ok (encode_path ((ty, [asn]) :: (ty, asns) :: rest)).
Proof. exact prepend_full_segment. Qed.
Check as_path_full_segment_rule :
  forall ty asn asns rest,
    length asns = 255%nat ->
    path_prepend_b ty asn (encode_path ((ty, asns) :: rest))
    = Ok (encode_path ((ty, [asn]) :: (ty, asns) :: rest)).
Print Assumptions as_path_full_segment_rule.

(* as_path_strip_confed removes exactly the confederation segments and cannot panic
   on a well-formed path. *)
Theorem as_path_strip_confed_spec :
  forall p, wf_path p ->
    path_strip_confed_b (encode_path p) = Ok (encode_path (strip_confed_spec p)).
Proof. exact strip_spec. Qed.
Check as_path_strip_confed_spec :
  forall p, wf_path p ->
    path_strip_confed_b (encode_path p) = Ok (encode_path (strip_confed_spec p)).
Print Assumptions as_path_strip_confed_spec.

(* as_path_count is positive exactly when the AS occurs in the path (the test of is_as_loop). *)
Theorem as_path_count_spec :
  forall asn p, wf_path p ->
    exists n, path_count_b asn (encode_path p) = Some n /\ (0 < n <-> In asn (flat p)).
Proof. exact path_count_spec. Qed.
Check as_path_count_spec :
  forall asn p, wf_path p ->
    exists n, path_count_b asn (encode_path p) = Some n /\ (0 < n <-> In asn (flat p)).
Print Assumptions as_path_count_spec.

(* Export-policy MED action: towards an eBGP peer the MED that is sent is the one a
   real one-statement policy (table/src/policy.rs med action, model stmt_policy)
   computes starting from a cleared MED: the received MED was removed first, and
   the set-med action is not clobbered afterwards. *)
Theorem ebgp_policy_med :
  forall x st default emax raddr cid c e d pid nh out s act,
    x_role x = Ebgp -> st_med st = Some act ->
    advertised x (stmt_policy x raddr st default) emax raddr cid c e d pid nh out s ->
    exists m, find_code MED out = Some m
      /\ a_data m = DVal (match act with MedMod dl => clamp_u32 dl | MedReplace v => clamp_u32 v end).
Proof. exact C09_ebgp_policy_med. Qed.
Check ebgp_policy_med :
  forall x st default emax raddr cid c e d pid nh out s act,
    x_role x = Ebgp -> st_med st = Some act ->
    advertised x (stmt_policy x raddr st default) emax raddr cid c e d pid nh out s ->
    exists m, find_code MED out = Some m
      /\ a_data m = DVal (match act with MedMod dl => clamp_u32 dl | MedReplace v => clamp_u32 v end).
Print Assumptions ebgp_policy_med.

(* The policies with next-hop / MED set-actions satisfy the hypothesis
   [policy_keeps_decodable] of the any-policy theorems above. *)
Theorem policy_actions_keep_decodable :
  forall x raddr st default, policy_keeps_decodable (stmt_policy x raddr st default).
Proof. exact stmt_policy_keeps_decodable. Qed.
Check policy_actions_keep_decodable :
  forall x raddr st default, policy_keeps_decodable (stmt_policy x raddr st default).
Print Assumptions policy_actions_keep_decodable.

(* process_nlri_change cannot panic (no slice index / unwrap of the AS_PATH edits is
   reached) on attribute vectors the UPDATE decoder produces, for every policy that keeps
   vectors decodable. *)
Theorem no_panic_on_decodable :
  forall x pol emax raddr cid c e,
    wf_ctx x -> policy_keeps_decodable pol ->
    (forall p, In p (c_paths c) -> decodable (p_attrs p)) ->
    exists r, process_change x pol emax raddr cid c e = Ok r.
Proof. exact C09_no_panic_on_decodable. Qed.
Check no_panic_on_decodable :
  forall x pol emax raddr cid c e,
    wf_ctx x -> policy_keeps_decodable pol ->
    (forall p, In p (c_paths c) -> decodable (p_attrs p)) ->
    exists r, process_change x pol emax raddr cid c e = Ok r.
Print Assumptions no_panic_on_decodable.

(* The segment view used by the statements above is unambiguous: the RFC 4271 reader
   of Spec/ExportSpec.v reads a well-formed path back from its wire bytes. *)
Theorem as_path_view_unambiguous :
  forall p, wf_path p -> parse_path (encode_path p) = Some p.
Proof. exact parse_encode_path. Qed.
Check as_path_view_unambiguous :
  forall p, wf_path p -> parse_path (encode_path p) = Some p.
Print Assumptions as_path_view_unambiguous.




(* The converse of (1)-(3): the three filters of process_nlri_change let a path
   through EXACTLY when BGP allows it to go to that receiver (Spec may_send: not back
   to its peer; route-server clients among themselves only; between iBGP peers only
   by reflection, i.e. with a cluster id and a client on one side), for every source
   whose role agrees with its AS numbers, except the kernel pseudo-source. *)
Theorem propagation_exactly_where_allowed :
  forall x raddr cid p,
    wf_source (p_src p) -> p_src p <> SrcKernel ->
    (visible x raddr cid p = true <-> may_send (p_src p) (x_role x) raddr cid).
Proof. exact C09_visible_iff_may_send. Qed.
Check propagation_exactly_where_allowed :
  forall x raddr cid p,
    wf_source (p_src p) -> p_src p <> SrcKernel ->
    (visible x raddr cid p = true <-> may_send (p_src p) (x_role x) raddr cid).
Print Assumptions propagation_exactly_where_allowed.

(* The exception, recorded because the model is faithful to it (the property text does
   not forbid it): Source::kernel() has remote_asn = local_asn = 0 and is not
   Source::local(), so is_ibgp_learned holds of it and kernel-redistributed routes are
   never sent to non-client iBGP peers. *)
Theorem kernel_routes_withheld_from_nonclient_ibgp :
  forall x raddr cid nh attrs lpid,
    x_role x = Ibgp ->
    visible x raddr cid {| p_lpid := lpid; p_src := SrcKernel; p_nh := nh; p_attrs := attrs |} = false.
Proof. exact kernel_routes_and_nonclient_ibgp. Qed.
Check kernel_routes_withheld_from_nonclient_ibgp :
  forall x raddr cid nh attrs lpid,
    x_role x = Ibgp ->
    visible x raddr cid {| p_lpid := lpid; p_src := SrcKernel; p_nh := nh; p_attrs := attrs |} = false.
Print Assumptions kernel_routes_withheld_from_nonclient_ibgp.

(* Best-only branch, both directions: a changed best path that passes the filters and
   the policy IS advertised (with the rewritten attributes and the policy's next hop);
   one that does not is withdrawn if it had been sent. *)
Theorem best_only_complete :
  forall x pol raddr cid c e best rest,
    c_best_changed c = true -> c_paths c = best :: rest ->
    (forall a nh out,
       visible x raddr cid best = true ->
       policy_stage x pol cid (c_family c) best = Some (a, nh) ->
       export_attrs x (llgr_stage best a) = Ok out ->
       process_change x pol 1 raddr cid c e
       = Ok ([Reach (c_dest c) 0 nh out (p_src best)], em_mark_sent e (c_dest c) 0))
    /\ ((visible x raddr cid best = false \/ policy_stage x pol cid (c_family c) best = None) ->
        process_change x pol 1 raddr cid c e
        = if em_was_sent e (c_dest c)
          then Ok ([Unreach (c_dest c) 0], em_mark_withdrawn e (c_dest c) 0)
          else Ok ([], e)).
Proof. exact C09_best_only_complete. Qed.
Check best_only_complete :
  forall x pol raddr cid c e best rest,
    c_best_changed c = true -> c_paths c = best :: rest ->
    (forall a nh out,
       visible x raddr cid best = true ->
       policy_stage x pol cid (c_family c) best = Some (a, nh) ->
       export_attrs x (llgr_stage best a) = Ok out ->
       process_change x pol 1 raddr cid c e
       = Ok ([Reach (c_dest c) 0 nh out (p_src best)], em_mark_sent e (c_dest c) 0))
    /\ ((visible x raddr cid best = false \/ policy_stage x pol cid (c_family c) best = None) ->
        process_change x pol 1 raddr cid c e
        = if em_was_sent e (c_dest c)
          then Ok ([Unreach (c_dest c) 0], em_mark_withdrawn e (c_dest c) 0)
          else Ok ([], e)).
Print Assumptions best_only_complete.

(* Histories.  Whatever sequence of changes a neighbour's task processes
   (run_changes: handle_prefix_update / the initial dump / route refresh all feed
   process_nlri_change with the same ExportMap), from any export map, with any export
   policy: every entry of the Adj-RIB-In the neighbour builds from the messages was
   put there by an advertisement that respects the three "never" rules, and towards an
   eBGP peer no entry carries LOCAL_PREF / ORIGINATOR_ID / CLUSTER_LIST / AIGP. *)
Theorem history_view_allowed :
  forall x pol emax raddr cid cs e r d pid v,
    run_changes x pol emax raddr cid cs e = Ok r ->
    view_after (fst r) d pid None = Some v ->
    exists nh s, In (Reach d pid nh v s) (fst r)
      /\ ~ learned_from s raddr
      /\ ~ crosses_rs_boundary s (x_role x)
      /\ (x_role x = Ibgp -> ~ nonclient_ibgp_source s)
      /\ (x_role x = Ebgp -> ebgp_strips_ok v).
Proof. exact C09_history_view_allowed. Qed.
Check history_view_allowed :
  forall x pol emax raddr cid cs e r d pid v,
    run_changes x pol emax raddr cid cs e = Ok r ->
    view_after (fst r) d pid None = Some v ->
    exists nh s, In (Reach d pid nh v s) (fst r)
      /\ ~ learned_from s raddr
      /\ ~ crosses_rs_boundary s (x_role x)
      /\ (x_role x = Ibgp -> ~ nonclient_ibgp_source s)
      /\ (x_role x = Ebgp -> ebgp_strips_ok v).
Print Assumptions history_view_allowed.

(* Export policies that can panic (an as-prepend action runs the AS_PATH edits on the
   bytes it finds).  process_change_r is the model of process_nlri_change with such a
   policy; a call that returns is a call of process_change_v with the policy that answers
   on the inputs it survives, so every statement above about [advertised] carries over;
   and with a policy that never panics the two are the same function. *)
Theorem process_change_r_lower :
  forall x polr emax raddr cid c e r,
    process_change_r x polr emax raddr cid c e = Ok r ->
    process_change x (lower_policy polr) emax raddr cid c e = Ok r.
Proof. exact C09_process_change_r_lower. Qed.
Check process_change_r_lower :
  forall x polr emax raddr cid c e r,
    process_change_r x polr emax raddr cid c e = Ok r ->
    process_change x (lower_policy polr) emax raddr cid c e = Ok r.
Print Assumptions process_change_r_lower.

Theorem process_change_r_lift :
  forall x pol emax raddr cid c e,
    process_change_r x (lift_policy pol) emax raddr cid c e = process_change x pol emax raddr cid c e.
Proof. exact C09_process_change_r_lift. Qed.
Check process_change_r_lift :
  forall x pol emax raddr cid c e,
    process_change_r x (lift_policy pol) emax raddr cid c e = process_change x pol emax raddr cid c e.
Print Assumptions process_change_r_lift.

(* The AS_PATH edits as used by an export policy's as-prepend action compose with the
   role rewrite as they must: towards an eBGP peer the k copies sit in an AS_SEQUENCE
   between the local AS (confederation id) and the path without its confederation
   segments; towards a confed-eBGP peer they sit in the AS_CONFED_SEQUENCE behind the
   member AS (process_nlri_change hands is_confed = (role == ConfedEbgp) to
   table::apply_export). *)
Theorem policy_prepend_then_export :
  forall x st pa default emax raddr cid c e r d pid nh out s,
    wf_ctx x -> (x_role x = Ebgp \/ x_role x = ConfedEbgp) ->
    pa_left_most pa = false -> pa_asn pa < 4294967296 -> pa_repeat pa <> 0 ->
    (forall p, In p (c_paths c) -> decodable (p_attrs p)) ->
    process_change_r x (stmt_policy_r x raddr st (Some pa) default) emax raddr cid c e = Ok r ->
    In (Reach d pid nh out s) (fst r) ->
    exists p, In p (c_paths c) /\ s = p_src p /\
      forall pin, path_of (p_attrs p) pin ->
      exists segs', path_of out (Some segs') /\
        tflat segs' =
        if role_eqb (x_role x) ConfedEbgp
        then (3, x_lasn x) :: repeat (3, pa_asn pa) (N.to_nat (pa_repeat pa)) ++ tflat (segs_of pin)
        else (2, external_asn x) :: repeat (2, pa_asn pa) (N.to_nat (pa_repeat pa))
                                   ++ tflat (strip_confed_spec (segs_of pin)).
Proof. exact C09_policy_prepend_then_export. Qed.
Check policy_prepend_then_export :
  forall x st pa default emax raddr cid c e r d pid nh out s,
    wf_ctx x -> (x_role x = Ebgp \/ x_role x = ConfedEbgp) ->
    pa_left_most pa = false -> pa_asn pa < 4294967296 -> pa_repeat pa <> 0 ->
    (forall p, In p (c_paths c) -> decodable (p_attrs p)) ->
    process_change_r x (stmt_policy_r x raddr st (Some pa) default) emax raddr cid c e = Ok r ->
    In (Reach d pid nh out s) (fst r) ->
    exists p, In p (c_paths c) /\ s = p_src p /\
      forall pin, path_of (p_attrs p) pin ->
      exists segs', path_of out (Some segs') /\
        tflat segs' =
        if role_eqb (x_role x) ConfedEbgp
        then (3, x_lasn x) :: repeat (3, pa_asn pa) (N.to_nat (pa_repeat pa)) ++ tflat (segs_of pin)
        else (2, external_asn x) :: repeat (2, pa_asn pa) (N.to_nat (pa_repeat pa))
                                   ++ tflat (strip_confed_spec (segs_of pin)).
Print Assumptions policy_prepend_then_export.

(* (4, converse) The drops of the receive path are exactly the loops: an UPDATE that is
   none of the four loops IS handed to insert_route, with LOCAL_PREF defaulted on iBGP
   sessions ([rx_attrs]). *)
Theorem loop_free_installed :
  forall x rid cid attrs pin,
    path_of attrs pin ->
    (forall a, find_code ORIGINATOR_ID attrs = Some a -> exists v, a_data a = DVal v) ->
    (forall a c, cid = Some c -> find_code CLUSTER_LIST attrs = Some a ->
       c < 4294967296 /\ exists ids, binary a = Some (cluster_list_bytes ids) /\ Forall (fun i => i < 4294967296) ids) ->
    ~ looped x rid cid attrs ->
    rx_reach x rid cid attrs = Ok (Some (rx_attrs x attrs)).
Proof. exact C09_loop_free_installed. Qed.
Check loop_free_installed :
  forall x rid cid attrs pin,
    path_of attrs pin ->
    (forall a, find_code ORIGINATOR_ID attrs = Some a -> exists v, a_data a = DVal v) ->
    (forall a c, cid = Some c -> find_code CLUSTER_LIST attrs = Some a ->
       c < 4294967296 /\ exists ids, binary a = Some (cluster_list_bytes ids) /\ Forall (fun i => i < 4294967296) ids) ->
    ~ looped x rid cid attrs ->
    rx_reach x rid cid attrs = Ok (Some (rx_attrs x attrs)).
Print Assumptions loop_free_installed.

(* The rtc_filter argument.  process_nlri_change asks RtcFilter::allows about the stored
   attributes before pre_policy_defaults; the model (with_rtc) asks after it, as a wrapper
   around the export policy.  The answers coincide, so every statement above, being for
   all policies, covers calls with an RTC filter. *)
Theorem rtc_filter_is_a_policy_wrapper :
  forall acc rts x attrs nh fam il,
    rtc_allows acc rts (fst (pre_policy_defaults x attrs nh fam il)) = rtc_allows acc rts attrs.
Proof. exact rtc_allows_pre_policy. Qed.
Check rtc_filter_is_a_policy_wrapper :
  forall acc rts x attrs nh fam il,
    rtc_allows acc rts (fst (pre_policy_defaults x attrs nh fam il)) = rtc_allows acc rts attrs.
Print Assumptions rtc_filter_is_a_policy_wrapper.

(* Best-only sessions: ExportMap::was_sent says exactly whether the neighbour holds a
   route for the destination — after one call if it did before, and therefore along any
   history that starts with nothing sent (so the hypothesis "was sent" of
   llgr_refresh_best_only means "the neighbour holds a copy"). *)
Theorem export_map_tracks_view :
  forall x pol raddr cid c e r,
    not_addpath e ->
    process_change x pol 1 raddr cid c e = Ok r ->
    not_addpath (snd r)
    /\ forall d v0, has_entry v0 = em_was_sent e d ->
         has_entry (view_after (fst r) d 0 v0) = em_was_sent (snd r) d.
Proof. exact C09_export_map_tracks_view. Qed.
Check export_map_tracks_view :
  forall x pol raddr cid c e r,
    not_addpath e ->
    process_change x pol 1 raddr cid c e = Ok r ->
    not_addpath (snd r)
    /\ forall d v0, has_entry v0 = em_was_sent e d ->
         has_entry (view_after (fst r) d 0 v0) = em_was_sent (snd r) d.
Print Assumptions export_map_tracks_view.

Theorem export_map_tracks_view_history :
  forall x pol raddr cid cs r d,
    run_changes x pol 1 raddr cid cs ENone = Ok r ->
    has_entry (view_after (fst r) d 0 None) = em_was_sent (snd r) d.
Proof. exact C09_export_map_tracks_view_history. Qed.
Check export_map_tracks_view_history :
  forall x pol raddr cid cs r d,
    run_changes x pol 1 raddr cid cs ENone = Ok r ->
    has_entry (view_after (fst r) d 0 None) = em_was_sent (snd r) d.
Print Assumptions export_map_tracks_view_history.

(* (9a) LLGR re-advertisement.  process_nlri_change is unchanged; Table::restale_llgr (since
   03ea310) names every eligible path of the marked peer as replaced, in a change of its
   own, and reports the best path as changed when it is one of them.  One-path scenario
   (the one run against the real Table): whatever the neighbour holds for the route once
   the LLGR period of its source has begun carries LLGR_STALE. *)
Theorem llgr_stale_readvertised :
  forall x pol emax raddr cid ps nh attrs ops1 ops2 e v,
    policy_keeps_decodable pol -> decodable attrs ->
    llgr_scenario x pol emax raddr cid ps nh attrs = Ok (ops1, ops2, e) ->
    view_after (ops1 ++ ops2) 1 (if emax =? 1 then 0 else 1) None = Some v ->
    carries_llgr_stale v.
Proof. exact C09_llgr_stale_readvertised. Qed.
Check llgr_stale_readvertised :
  forall x pol emax raddr cid ps nh attrs ops1 ops2 e v,
    policy_keeps_decodable pol -> decodable attrs ->
    llgr_scenario x pol emax raddr cid ps nh attrs = Ok (ops1, ops2, e) ->
    view_after (ops1 ++ ops2) 1 (if emax =? 1 then 0 else 1) None = Some v ->
    carries_llgr_stale v.
Print Assumptions llgr_stale_readvertised.

(* (9b) With the stream restale_llgr reported BEFORE 03ea310 (best_changed = false when the
   best keeps its place, no path named as replaced) the same statement is false of the
   same exporter: finding C09-1, the same defect as C01-llgr-stale-not-resent. *)
Theorem llgr_stale_readvertised_refuted :
  ~ old_stream_llgr_statement.
Proof. exact C09_llgr_stale_readvertised_refuted. Qed.
Check llgr_stale_readvertised_refuted :
  ~ old_stream_llgr_statement.
Print Assumptions llgr_stale_readvertised_refuted.

(* (9c) Any destination, best-only neighbour: when the new best path is one of the marked
   peer's, exporting restale_llgr's whole stream leaves the neighbour with a copy that
   carries LLGR_STALE, or with nothing. *)
Theorem llgr_stream_best_only :
  forall x pol raddr cid fam d old any addr best rest e r v0 v,
    policy_keeps_decodable pol ->
    (forall p, In p (best :: rest) -> decodable (p_attrs p)) ->
    src_raddr (p_src best) = addr -> src_llgr (p_src best) = true ->
    has_entry v0 = em_was_sent e d ->
    run_changes x pol 1 raddr cid (restale_llgr_changes fam d old any addr (best :: rest)) e = Ok r ->
    view_after (fst r) d 0 v0 = Some v -> carries_llgr_stale v.
Proof. exact C09_llgr_stream_best_only. Qed.
Check llgr_stream_best_only :
  forall x pol raddr cid fam d old any addr best rest e r v0 v,
    policy_keeps_decodable pol ->
    (forall p, In p (best :: rest) -> decodable (p_attrs p)) ->
    src_raddr (p_src best) = addr -> src_llgr (p_src best) = true ->
    has_entry v0 = em_was_sent e d ->
    run_changes x pol 1 raddr cid (restale_llgr_changes fam d old any addr (best :: rest)) e = Ok r ->
    view_after (fst r) d 0 v0 = Some v -> carries_llgr_stale v.
Print Assumptions llgr_stream_best_only.

(* (9d) One change of the stream, any export map, both branches ([llgr_change_for]: best-only
   - the change reports the best as changed and the best is stale; Add-Path - the change
   names path id pid as replaced and that path is stale): what the neighbour holds for the
   entry afterwards carries LLGR_STALE. *)
Theorem llgr_view_refreshed :
  forall x pol emax raddr cid c e r pid v0 v,
    policy_keeps_decodable pol ->
    (forall p, In p (c_paths c) -> decodable (p_attrs p)) ->
    llgr_change_for emax c e pid v0 ->
    process_change x pol emax raddr cid c e = Ok r ->
    view_after (fst r) (c_dest c) pid v0 = Some v -> carries_llgr_stale v.
Proof. exact C09_llgr_view_refreshed. Qed.
Check llgr_view_refreshed :
  forall x pol emax raddr cid c e r pid v0 v,
    policy_keeps_decodable pol ->
    (forall p, In p (c_paths c) -> decodable (p_attrs p)) ->
    llgr_change_for emax c e pid v0 ->
    process_change x pol emax raddr cid c e = Ok r ->
    view_after (fst r) (c_dest c) pid v0 = Some v -> carries_llgr_stale v.
Print Assumptions llgr_view_refreshed.

(* (9e) Add-Path: a change that names a path id as replaced touches what the neighbour holds
   for it (re-advertised, or withdrawn when no longer among the paths sent). *)
Theorem llgr_refresh_addpath :
  forall x pol emax raddr cid c e r pid,
    emax <> 1 -> process_change x pol emax raddr cid c e = Ok r ->
    c_any_changed c = true -> c_replaced c = Some pid ->
    was_sent_path e (c_dest c) pid ->
    exists op, In op (fst r) /\ touches (c_dest c) pid op = true.
Proof. exact C09_llgr_refresh_addpath. Qed.
Check llgr_refresh_addpath :
  forall x pol emax raddr cid c e r pid,
    emax <> 1 -> process_change x pol emax raddr cid c e = Ok r ->
    c_any_changed c = true -> c_replaced c = Some pid ->
    was_sent_path e (c_dest c) pid ->
    exists op, In op (fst r) /\ touches (c_dest c) pid op = true.
Print Assumptions llgr_refresh_addpath.

(* (9f) Best-only: a change that reports the best path as changed touches what the neighbour
   holds for the destination. *)
Theorem llgr_refresh_best_only :
  forall x pol raddr cid c e r,
    process_change x pol 1 raddr cid c e = Ok r ->
    c_best_changed c = true -> em_was_sent e (c_dest c) = true ->
    exists op, In op (fst r) /\ touches (c_dest c) 0 op = true.
Proof. exact C09_llgr_refresh_best_only. Qed.
Check llgr_refresh_best_only :
  forall x pol raddr cid c e r,
    process_change x pol 1 raddr cid c e = Ok r ->
    c_best_changed c = true -> em_was_sent e (c_dest c) = true ->
    exists op, In op (fst r) /\ touches (c_dest c) 0 op = true.
Print Assumptions llgr_refresh_best_only.

(* as_path_prepend / as_path_prepend_confed cannot panic on any byte string (a62a64e /
   0db415e: the head test is guarded by len >= 2). *)
Theorem as_path_prepend_total :
  forall ty asn buf, exists b, path_prepend_b ty asn buf = Ok b.
Proof. exact prepend_total. Qed.
Check as_path_prepend_total :
  forall ty asn buf, exists b, path_prepend_b ty asn buf = Ok b.
Print Assumptions as_path_prepend_total.

(* Add-Path sessions: every entry the neighbour holds is recorded in the ExportMap - after one
   call if that was so before, hence along any history that starts with an empty map - so a
   later change that names the path as replaced, or no longer lists it, reaches the entry. *)
Theorem export_map_covers_view_addpath :
  forall x pol emax raddr cid c m r,
    emax <> 1 ->
    process_change x pol emax raddr cid c (EAddPath m) = Ok r ->
    exists m', snd r = EAddPath m'
      /\ forall d pid v0,
           (has_entry v0 = true -> In pid (ap_ids m d)) ->
           has_entry (view_after (fst r) d pid v0) = true -> In pid (ap_ids m' d).
Proof. exact C09_export_map_covers_view_addpath. Qed.
Check export_map_covers_view_addpath :
  forall x pol emax raddr cid c m r,
    emax <> 1 ->
    process_change x pol emax raddr cid c (EAddPath m) = Ok r ->
    exists m', snd r = EAddPath m'
      /\ forall d pid v0,
           (has_entry v0 = true -> In pid (ap_ids m d)) ->
           has_entry (view_after (fst r) d pid v0) = true -> In pid (ap_ids m' d).
Print Assumptions export_map_covers_view_addpath.

(* ... along histories. *)
Theorem export_map_covers_view_addpath_history :
  forall x pol emax raddr cid cs m r,
    emax <> 1 ->
    run_changes x pol emax raddr cid cs (EAddPath m) = Ok r ->
    exists m', snd r = EAddPath m'
      /\ forall d pid v0,
           (has_entry v0 = true -> In pid (ap_ids m d)) ->
           has_entry (view_after (fst r) d pid v0) = true -> In pid (ap_ids m' d).
Proof. exact C09_export_map_covers_view_addpath_history. Qed.
Check export_map_covers_view_addpath_history :
  forall x pol emax raddr cid cs m r,
    emax <> 1 ->
    run_changes x pol emax raddr cid cs (EAddPath m) = Ok r ->
    exists m', snd r = EAddPath m'
      /\ forall d pid v0,
           (has_entry v0 = true -> In pid (ap_ids m d)) ->
           has_entry (view_after (fst r) d pid v0) = true -> In pid (ap_ids m' d).
Print Assumptions export_map_covers_view_addpath_history.

(* (9g) Add-Path neighbour, ANY destination: after restale_llgr's whole stream, what the
   neighbour holds for an eligible path of the marked peer carries LLGR_STALE, or it holds
   nothing (any_from_addr = true: an eligible path of the peer exists). *)
Theorem llgr_stream_addpath :
  forall x pol emax raddr cid fam d old addr paths m r p pid v0 v,
    policy_keeps_decodable pol -> emax <> 1 ->
    (forall q, In q paths -> decodable (p_attrs q)) ->
    (forall q, In q paths -> src_raddr (p_src q) = addr -> src_llgr (p_src q) = true) ->
    (forall q, In q paths -> p_lpid q = pid -> src_raddr (p_src q) = addr) ->
    In p paths -> p_lpid p = pid ->
    (has_entry v0 = true -> In pid (ap_ids m d)) ->
    run_changes x pol emax raddr cid (restale_llgr_changes fam d old true addr paths) (EAddPath m) = Ok r ->
    view_after (fst r) d pid v0 = Some v -> carries_llgr_stale v.
Proof. exact C09_llgr_stream_addpath. Qed.
Check llgr_stream_addpath :
  forall x pol emax raddr cid fam d old addr paths m r p pid v0 v,
    policy_keeps_decodable pol -> emax <> 1 ->
    (forall q, In q paths -> decodable (p_attrs q)) ->
    (forall q, In q paths -> src_raddr (p_src q) = addr -> src_llgr (p_src q) = true) ->
    (forall q, In q paths -> p_lpid q = pid -> src_raddr (p_src q) = addr) ->
    In p paths -> p_lpid p = pid ->
    (has_entry v0 = true -> In pid (ap_ids m d)) ->
    run_changes x pol emax raddr cid (restale_llgr_changes fam d old true addr paths) (EAddPath m) = Ok r ->
    view_after (fst r) d pid v0 = Some v -> carries_llgr_stale v.
Print Assumptions llgr_stream_addpath.

(* (9h) NO_LLGR.  TableManager::mark_llgr_stale = restale_llgr then drop_no_llgr; a route that
   carries NO_LLGR does not outlive the start of the LLGR period of its source: after both
   change streams the neighbour holds nothing for it (best-only and Add-Path). *)
Theorem no_llgr_route_withdrawn :
  forall x pol emax raddr cid ps nh attrs ops1 ops2 e,
    has_no_llgr attrs = true ->
    llgr_scenario_full x pol emax raddr cid ps nh attrs = Ok (ops1, ops2, e) ->
    view_after (ops1 ++ ops2) 1 (if emax =? 1 then 0 else 1) None = None.
Proof. exact C09_no_llgr_route_withdrawn. Qed.
Check no_llgr_route_withdrawn :
  forall x pol emax raddr cid ps nh attrs ops1 ops2 e,
    has_no_llgr attrs = true ->
    llgr_scenario_full x pol emax raddr cid ps nh attrs = Ok (ops1, ops2, e) ->
    view_after (ops1 ++ ops2) 1 (if emax =? 1 then 0 else 1) None = None.
Print Assumptions no_llgr_route_withdrawn.

(* ... and without NO_LLGR the full scenario is the one of llgr_stale_readvertised. *)
Theorem llgr_scenario_full_without_no_llgr :
  forall x pol emax raddr cid ps nh attrs,
    has_no_llgr attrs = false ->
    llgr_scenario_full x pol emax raddr cid ps nh attrs = llgr_scenario x pol emax raddr cid ps nh attrs.
Proof. exact llgr_scenario_full_plain. Qed.
Check llgr_scenario_full_without_no_llgr :
  forall x pol emax raddr cid ps nh attrs,
    has_no_llgr attrs = false ->
    llgr_scenario_full x pol emax raddr cid ps nh attrs = llgr_scenario x pol emax raddr cid ps nh attrs.
Print Assumptions llgr_scenario_full_without_no_llgr.

(* Add-Path sessions, the other direction: the ExportMap records nothing the neighbour does not
   hold (one call). *)
Theorem export_map_within_view_addpath :
  forall x pol emax raddr cid c m r,
    emax <> 1 ->
    process_change x pol emax raddr cid c (EAddPath m) = Ok r ->
    exists m', snd r = EAddPath m'
      /\ forall d pid v0,
           (In pid (ap_ids m d) -> has_entry v0 = true) ->
           In pid (ap_ids m' d) -> has_entry (view_after (fst r) d pid v0) = true.
Proof. exact C09_export_map_within_view_addpath. Qed.
Check export_map_within_view_addpath :
  forall x pol emax raddr cid c m r,
    emax <> 1 ->
    process_change x pol emax raddr cid c (EAddPath m) = Ok r ->
    exists m', snd r = EAddPath m'
      /\ forall d pid v0,
           (In pid (ap_ids m d) -> has_entry v0 = true) ->
           In pid (ap_ids m' d) -> has_entry (view_after (fst r) d pid v0) = true.
Print Assumptions export_map_within_view_addpath.

(* Along any history of an Add-Path session that starts with an empty map, ExportMap::sent_path_ids
   is exactly the set of path ids the neighbour holds for the destination. *)
Theorem export_map_exact_addpath_history :
  forall x pol emax raddr cid cs r d pid,
    emax <> 1 ->
    run_changes x pol emax raddr cid cs (EAddPath []) = Ok r ->
    (has_entry (view_after (fst r) d pid None) = true <-> was_sent_path (snd r) d pid).
Proof. exact C09_export_map_exact_addpath_history. Qed.
Check export_map_exact_addpath_history :
  forall x pol emax raddr cid cs r d pid,
    emax <> 1 ->
    run_changes x pol emax raddr cid cs (EAddPath []) = Ok r ->
    (has_entry (view_after (fst r) d pid None) = true <-> was_sent_path (snd r) d pid).
Print Assumptions export_map_exact_addpath_history.

(* The caller.  PeerSession::handle_prefix_update (model run_updates: nothing for a family that
   was not negotiated, else process_nlri_change with the session's own parameters) feeds the
   family's PendingTx, where the last operation for a key wins (model pending_after).  Every
   announcement that is queued for the wire, along any run, is an advertisement in the sense of
   the statements above - so they all hold of what drain_messages hands to the encoder. *)
Theorem queued_announcements_are_advertised :
  forall x pol emax raddr cid cs e r ap d key nh a,
    run_updates true x (lift_policy pol) emax raddr cid cs e = Ok r ->
    pending_after ap (fst r) d key PNothing = PReach nh a ->
    exists c e' pid s, In c cs /\ advertised x pol emax raddr cid c e' d pid nh a s.
Proof. exact C09_queued_announcements_are_advertised. Qed.
Check queued_announcements_are_advertised :
  forall x pol emax raddr cid cs e r ap d key nh a,
    run_updates true x (lift_policy pol) emax raddr cid cs e = Ok r ->
    pending_after ap (fst r) d key PNothing = PReach nh a ->
    exists c e' pid s, In c cs /\ advertised x pol emax raddr cid c e' d pid nh a s.
Print Assumptions queued_announcements_are_advertised.

Theorem family_not_negotiated_sends_nothing :
  forall x polr emax raddr cid cs e,
    run_updates false x polr emax raddr cid cs e = Ok ([], e).
Proof. exact run_updates_no_family. Qed.
Check family_not_negotiated_sends_nothing :
  forall x polr emax raddr cid cs e,
    run_updates false x polr emax raddr cid cs e = Ok ([], e).
Print Assumptions family_not_negotiated_sends_nothing.

(* Route refresh / soft reset out.  PeerSession::apply_refresh_walk (model refresh_changes: each
   destination once per path with that path named as replaced on an Add-Path session, once
   otherwise) goes through the same process_nlri_change: every announcement it queues is an
   advertisement of a destination of the walk, so all the statements above hold of it. *)
Theorem refresh_announcements_are_advertised :
  forall x pol emax raddr cid walk e r ap d key nh a,
    run_updates true x (lift_policy pol) emax raddr cid (flat_map (refresh_changes emax) walk) e = Ok r ->
    pending_after ap (fst r) d key PNothing = PReach nh a ->
    exists c0 rep e' pid s, In c0 walk /\ advertised x pol emax raddr cid (with_replaced c0 rep) e' d pid nh a s.
Proof. exact C09_refresh_announcements_are_advertised. Qed.
Check refresh_announcements_are_advertised :
  forall x pol emax raddr cid walk e r ap d key nh a,
    run_updates true x (lift_policy pol) emax raddr cid (flat_map (refresh_changes emax) walk) e = Ok r ->
    pending_after ap (fst r) d key PNothing = PReach nh a ->
    exists c0 rep e' pid s, In c0 walk /\ advertised x pol emax raddr cid (with_replaced c0 rep) e' d pid nh a s.
Print Assumptions refresh_announcements_are_advertised.
