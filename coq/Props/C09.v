(* C09 placeholder while the proofs are rebuilt *)
From Coq Require Import List NArith Bool.
From RB Require Import Base.Val Model.Export Spec.ExportSpec.
Theorem trivial_placeholder : True.
Proof. exact I. Qed.
Check trivial_placeholder : True.
Print Assumptions trivial_placeholder.
