(* C03  No byte sequence can panic, wedge or stall a wire decoder.
   Statements only: each theorem is closed by [exact], pinned by [Check] and
   followed by [Print Assumptions]. *)
From Coq Require Import List NArith Bool.
From RB Require Import Base.Val Base.Bytes Model.Bfd Spec.WireSpec Proofs.Bfd.
Import ListNotations.
Open Scope N_scope.

(* BFD: for every byte string the decoder returns a message or a drop reason
   (never a panic, never the encode-only Io error). *)
Theorem bfd_decode_total : forall buf : list N, bfd_outcome_ok (bfd_decode buf).
Proof. exact C03_bfd_decode_total. Qed.
Check bfd_decode_total : forall buf : list N, bfd_outcome_ok (bfd_decode buf).
Print Assumptions bfd_decode_total.

(* BFD: a packet is accepted exactly when it passes the RFC 5880 6.8.6 checks
   that belong to the decoder. *)
Theorem bfd_accepts_iff_wellformed :
  forall buf : list N, (exists m, bfd_decode buf = BfdOk m) <-> bfd_wellformed buf.
Proof. exact C03_bfd_accepts_iff_wellformed. Qed.
Check bfd_accepts_iff_wellformed :
  forall buf : list N, (exists m, bfd_decode buf = BfdOk m) <-> bfd_wellformed buf.
Print Assumptions bfd_accepts_iff_wellformed.
