(* C03  No byte sequence can panic, wedge or stall a wire decoder.
   Statements only: each theorem is closed by [exact], pinned by [Check] and
   followed by [Print Assumptions]. *)
From Coq Require Import List NArith Bool.
From RB Require Import Base.Val Base.Bytes Model.Bfd Model.Stream Model.Rtr Spec.WireSpec Proofs.Bfd Proofs.Rtr.
Import ListNotations.
Open Scope N_scope.

(* BFD: for every byte string the decoder returns a message or a drop reason
   (never a panic, never the encode-only Io error). *)
Theorem bfd_decode_total : forall buf : list N, bfd_outcome_ok (bfd_decode buf).
Proof. exact C03_bfd_decode_total. Qed.
Check bfd_decode_total : forall buf : list N, bfd_outcome_ok (bfd_decode buf).
Print Assumptions bfd_decode_total.

(* BFD: a packet is accepted exactly when it passes the RFC 5880 6.8.6 checks
   that belong to the decoder. *)
Theorem bfd_accepts_iff_wellformed :
  forall buf : list N, (exists m, bfd_decode buf = BfdOk m) <-> bfd_wellformed buf.
Proof. exact C03_bfd_accepts_iff_wellformed. Qed.
Check bfd_accepts_iff_wellformed :
  forall buf : list N, (exists m, bfd_decode buf = BfdOk m) <-> bfd_wellformed buf.
Print Assumptions bfd_accepts_iff_wellformed.

(* RTR: RtrCodec::decode (as repaired by f773db1) panics on no buffer content. *)
Theorem rtr_decode_no_panic : never_panics rtr_decode.
Proof. exact C03_rtr_decode_no_panic. Qed.
Check rtr_decode_no_panic : never_panics rtr_decode.
Print Assumptions rtr_decode_no_panic.

(* RTR: a returned PDU took a non-empty prefix of the buffer (tokio Decoder contract: Some => bytes consumed), so the Framed loop cannot spin. *)
Theorem rtr_decode_progress : consumes_input rtr_decode.
Proof. exact C03_rtr_decode_consumes. Qed.
Check rtr_decode_progress : consumes_input rtr_decode.
Print Assumptions rtr_decode_progress.

(* RTR: once the bytes announced by the length field are buffered the answer is a PDU or an error, never "need more" (no stall on unknown types, short PDUs or length < 8). *)
Theorem rtr_complete_frame_decided : complete_frame_decided rtr_decode rtr_complete.
Proof. exact C03_rtr_complete_frame_decided. Qed.
Check rtr_complete_frame_decided : complete_frame_decided rtr_decode rtr_complete.
Print Assumptions rtr_complete_frame_decided.

(* RTR: more bytes are requested only while the frame is incomplete. *)
Theorem rtr_need_only_if_incomplete : need_only_if_incomplete rtr_decode rtr_complete.
Proof. exact C03_rtr_need_only_if_incomplete. Qed.
Check rtr_need_only_if_incomplete : need_only_if_incomplete rtr_decode rtr_complete.
Print Assumptions rtr_need_only_if_incomplete.

(* RTR: any two fragmentations of the same byte stream deliver the same PDUs and the same final error, with no spin and within the driver bound. *)
Theorem rtr_fragmentation_invariant : fragmentation_invariant rtr_decode.
Proof. exact C03_rtr_fragmentation_invariant. Qed.
Check rtr_fragmentation_invariant : fragmentation_invariant rtr_decode.
Print Assumptions rtr_fragmentation_invariant.
