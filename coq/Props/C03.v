(* C03  No byte sequence can panic, wedge or stall a wire decoder.
   Statements only: each theorem is closed by [exact], pinned by [Check] and
   followed by [Print Assumptions]. *)
From Coq Require Import List NArith Bool.
From RB Require Import Base.Val Base.Bytes Model.Caps Model.Bfd Model.Stream Model.Rtr Model.Wire Model.WireNlri
     Model.WireUpdate Model.WireMsg Spec.WireSpec Proofs.Bfd Proofs.Rtr Proofs.WireMsg Proofs.WireErr.
Import ListNotations.
Open Scope N_scope.

(* BFD: for every byte string the decoder returns a message or a drop reason
   (never a panic, never the encode-only Io error). *)
Theorem bfd_decode_total : forall buf : list N, bfd_outcome_ok (bfd_decode buf).
Proof. exact C03_bfd_decode_total. Qed.
Check bfd_decode_total : forall buf : list N, bfd_outcome_ok (bfd_decode buf).
Print Assumptions bfd_decode_total.

(* BFD: a packet is accepted exactly when it passes the RFC 5880 6.8.6 checks
   that belong to the decoder. *)
Theorem bfd_accepts_iff_wellformed :
  forall buf : list N, (exists m, bfd_decode buf = BfdOk m) <-> bfd_wellformed buf.
Proof. exact C03_bfd_accepts_iff_wellformed. Qed.
Check bfd_accepts_iff_wellformed :
  forall buf : list N, (exists m, bfd_decode buf = BfdOk m) <-> bfd_wellformed buf.
Print Assumptions bfd_accepts_iff_wellformed.

(* RTR: RtrCodec::decode (f773db1, then 698efb6: complete PDUs of unused types are dropped inside the call) panics on no buffer content. *)
Theorem rtr_decode_no_panic : never_panics rtr_decode.
Proof. exact C03_rtr_decode_no_panic. Qed.
Check rtr_decode_no_panic : never_panics rtr_decode.
Print Assumptions rtr_decode_no_panic.

(* RTR: a returned PDU took a non-empty prefix of the buffer (tokio Decoder contract: Some => bytes consumed), so the Framed loop cannot spin. *)
Theorem rtr_decode_progress : consumes_input rtr_decode.
Proof. exact C03_rtr_decode_consumes. Qed.
Check rtr_decode_progress : consumes_input rtr_decode.
Print Assumptions rtr_decode_progress.

(* RTR: with a complete frame at the head of the buffer (the bytes announced by the length field, or a length < 8) the call returns a PDU, an error, or - having dropped PDUs of unused types - asks for more with a strictly shorter buffer: it never leaves the buffer unchanged. *)
Theorem rtr_complete_frame_decided : complete_frame_decided rtr_decode rtr_complete.
Proof. exact C03_rtr_complete_frame_decided. Qed.
Check rtr_complete_frame_decided : complete_frame_decided rtr_decode rtr_complete.
Print Assumptions rtr_complete_frame_decided.

(* RTR: when more bytes are requested, what stays in the buffer is a suffix of it that does not start with a complete frame. *)
Theorem rtr_need_only_if_incomplete : need_only_if_incomplete rtr_decode rtr_complete.
Proof. exact C03_rtr_need_only_if_incomplete. Qed.
Check rtr_need_only_if_incomplete : need_only_if_incomplete rtr_decode rtr_complete.
Print Assumptions rtr_need_only_if_incomplete.

(* RTR: any two fragmentations of the same byte stream deliver the same PDUs and the same final error, with no spin and within the driver bound. *)
Theorem rtr_fragmentation_invariant : fragmentation_invariant rtr_decode.
Proof. exact C03_rtr_fragmentation_invariant. Qed.
Check rtr_fragmentation_invariant : fragmentation_invariant rtr_decode.
Print Assumptions rtr_fragmentation_invariant.

(* ---------------------------------------------------------------- BGP
   PeerCodec::try_parse / parse_message as repaired by 6ec75c9 (UPDATE length
   sum) and ce1a895 (label-stack bit count).  [p] is the build profile, [cd]
   any negotiated codec (any family set, add-path, AS width, extended message).

   Every NLRI family the crate can negotiate is modelled (Model/WireNlri.v):
   IPv4/IPv6 unicast and multicast, labeled unicast, VPN, EVPN route types 1-5, RTC,
   SR policy, MUP route types 1-4, the four flowspec families and BGP-LS (node, link,
   prefix, SRv6-SID and unknown NLRI types with their descriptor TLVs).  The model
   still takes a decoder [other] for families outside that list; no family reaches
   it (Proofs/WireMsg.v try_parse_other), so the statements hold for every [other]
   with no contract assumed - the former _partial suffix is gone. *)

(* BGP: no receive-buffer content panics try_parse/parse_message, in debug or release arithmetic, under any codec (every unwrap(), slice index, narrow subtraction and loop fuel of the modelled code, all NLRI families included). *)
Theorem bgp_parse_no_panic : forall (other : N -> bool -> list N -> option (list N)) (p : profile) (cd : codec), never_panics (try_parse other p cd).
Proof. exact C03_bgp_all_no_panic. Qed.
Check bgp_parse_no_panic : forall (other : N -> bool -> list N -> option (list N)) (p : profile) (cd : codec), never_panics (try_parse other p cd).
Print Assumptions bgp_parse_no_panic.

(* BGP: a returned message took a non-empty prefix of the buffer away, so the drain loop of run_select cannot spin. *)
Theorem bgp_parse_consumes : forall (other : N -> bool -> list N -> option (list N)) (p : profile) (cd : codec), consumes_input (try_parse other p cd).
Proof. exact C03_bgp_all_consumes. Qed.
Check bgp_parse_consumes : forall (other : N -> bool -> list N -> option (list N)) (p : profile) (cd : codec), consumes_input (try_parse other p cd).
Print Assumptions bgp_parse_consumes.

(* BGP: once a header with an invalid length, or all the bytes its length announces, are buffered, the answer is a message or a NOTIFICATION, never "need more". *)
Theorem bgp_complete_frame_decided : forall (other : N -> bool -> list N -> option (list N)) (p : profile) (cd : codec), complete_frame_decided (try_parse other p cd) (bgp_complete (max_len cd)).
Proof. exact C03_bgp_all_complete_frame_decided. Qed.
Check bgp_complete_frame_decided : forall (other : N -> bool -> list N -> option (list N)) (p : profile) (cd : codec), complete_frame_decided (try_parse other p cd) (bgp_complete (max_len cd)).
Print Assumptions bgp_complete_frame_decided.

(* BGP: more bytes are requested only while the frame is incomplete (and the buffer is left as it was). *)
Theorem bgp_need_only_if_incomplete : forall (other : N -> bool -> list N -> option (list N)) (p : profile) (cd : codec), need_only_if_incomplete (try_parse other p cd) (bgp_complete (max_len cd)).
Proof. exact C03_bgp_all_need_only_if_incomplete. Qed.
Check bgp_need_only_if_incomplete : forall (other : N -> bool -> list N -> option (list N)) (p : profile) (cd : codec), need_only_if_incomplete (try_parse other p cd) (bgp_complete (max_len cd)).
Print Assumptions bgp_need_only_if_incomplete.

(* BGP: any two fragmentations of the same byte stream deliver the same messages and the same final NOTIFICATION, with no spin and within the driver bound. *)
Theorem bgp_fragmentation_invariant : forall (other : N -> bool -> list N -> option (list N)) (p : profile) (cd : codec), fragmentation_invariant (try_parse other p cd).
Proof. exact C03_bgp_all_fragmentation_invariant. Qed.
Check bgp_fragmentation_invariant : forall (other : N -> bool -> list N -> option (list N)) (p : profile) (cd : codec), fragmentation_invariant (try_parse other p cd).
Print Assumptions bgp_fragmentation_invariant.

(* BGP: every error result of try_parse carries a (code, subcode) of the table of RFC 4271 section 6 / RFC 7606 / RFC 7313 codes the receive path may answer with (Spec/WireSpec.v notification_allowed). *)
Theorem bgp_errors_are_notifications : forall (other : N -> bool -> list N -> option (list N)) (p : profile) (cd : codec) (src : list N) (e : notif) (rest : list N),
    try_parse other p cd src = DErr e rest -> notification_allowed (n_code e) (n_sub e) = true.
Proof. exact C03_bgp_errors_are_notifications. Qed.
Check bgp_errors_are_notifications : forall (other : N -> bool -> list N -> option (list N)) (p : profile) (cd : codec) (src : list N) (e : notif) (rest : list N),
    try_parse other p cd src = DErr e rest -> notification_allowed (n_code e) (n_sub e) = true.
Print Assumptions bgp_errors_are_notifications.
