(* C15  Route counters and prefix limits match the RIB.  Statements only: each
   theorem is closed by [exact], pinned by [Check] and followed by
   [Print Assumptions].

   Vocabulary (Spec/RibSpec.v): [recv_recount t a] = prefixes for which peer [a]
   has a path, [acc_recount t a] = paths of [a] that passed import policy,
   [sess_recount t c] = prefixes for which session (Source) [c] has a path,
   [ctr_of t c] the prefix-limit counter of session [c], [t_bad] = a statistics
   decrement underflowed (debug panic / release wrap),
   [Known_C15_session_touch c shard ops] = the input class of the open finding
   C15-session-counter, as narrow as the defect: at some step an operation acting
   for a session of a peer (insert, withdrawal, purge carrying its counter)
   touches a destination holding a path of the same peer that belongs to another
   session, and [c] is the acting session or the owner of such a path. *)
From Coq Require Import List NArith ZArith Bool.
From RB Require Import Base.Val Model.Rib Spec.RibSpec Proofs.RibInv Proofs.RibC02 Proofs.RibC15 Proofs.RibC15L Proofs.RibViews Model.RibSession Proofs.RibSession.
Import ListNotations.
Open Scope N_scope.

(* After any history no prefix with no paths is held as a destination. *)
Theorem no_empty_destination :
  forall shard ops net d,
    In (net, d) (t_dests (run (empty_table shard) ops)) -> d_entries d <> [].
Proof. exact C15_no_empty_destination. Qed.
Check no_empty_destination :
  forall shard ops net d,
    In (net, d) (t_dests (run (empty_table shard) ops)) -> d_entries d <> [].
Print Assumptions no_empty_destination.

(* After any history the per-peer received / accepted statistics equal the recount;
   a peer without a statistics entry has no path in the RIB. *)
Theorem stats_eq_recount :
  forall shard ops a,
    let t := run (empty_table shard) ops in
    match alookup a (t_stats t) with
    | Some (r, c) => r = recv_recount t a /\ c = acc_recount t a
    | None => recv_recount t a = 0 /\ acc_recount t a = 0
    end.
Proof. exact C15_stats_eq_recount. Qed.
Check stats_eq_recount :
  forall shard ops a,
    let t := run (empty_table shard) ops in
    match alookup a (t_stats t) with
    | Some (r, c) => r = recv_recount t a /\ c = acc_recount t a
    | None => recv_recount t a = 0 /\ acc_recount t a = 0
    end.
Print Assumptions stats_eq_recount.

(* No statistics decrement ever underflows (no debug panic, no release wrap), and
   remove never meets a missing statistics entry. *)
Theorem no_counter_underflow :
  forall shard ops, t_bad (run (empty_table shard) ops) = false.
Proof. exact C15_no_counter_underflow. Qed.
Check no_counter_underflow :
  forall shard ops, t_bad (run (empty_table shard) ops) = false.
Print Assumptions no_counter_underflow.

(* Table::state recounts on demand (destinations, paths, accepted are computed from
   the RIB in the model as in the code); what needs proof is that the destination
   total counts only prefixes that have a path. *)
Theorem table_totals_eq_recount :
  forall shard ops,
    let t := run (empty_table shard) ops in
    N.of_nat (length (t_dests t)) = N.of_nat (length (filter (fun nd => negb (match d_entries (snd nd) with [] => true | _ => false end)) (t_dests t))).
Proof. exact C15_table_totals_eq_recount. Qed.
Check table_totals_eq_recount :
  forall shard ops,
    let t := run (empty_table shard) ops in
    N.of_nat (length (t_dests t)) = N.of_nat (length (filter (fun nd => negb (match d_entries (snd nd) with [] => true | _ => false end)) (t_dests t))).
Print Assumptions table_totals_eq_recount.

(* Open finding C15-session-counter, witness corpus/C15/known-session-counter.json:
   a well-formed, disciplined history in the known class after which the new
   session's counter is 2^64-1 while the session holds no prefix, and the next new
   prefix is rejected as over the limit. *)
Theorem limit_counter_refuted :
  exists shard ops f mx c,
    Forall (op_wf f) ops /\ Forall (ctr_disciplined f mx) ops /\ mx c < 4294967296
    /\ session_alive (f c) c false ops = true
    /\ Known_C15_session_touch c shard ops
    /\ ctr_of (run (empty_table shard) ops) c = 18446744073709551615
    /\ sess_recount (run (empty_table shard) ops) c = 0
    /\ snd (step (run (empty_table shard) ops)
                 (Insert (ex_src 11 1 9 0) 2 0 (Some 1) kf_attr false false (Some (mx c, c)))) = true.
Proof. exact C15_limit_counter_refuted. Qed.
Check limit_counter_refuted :
  exists shard ops f mx c,
    Forall (op_wf f) ops /\ Forall (ctr_disciplined f mx) ops /\ mx c < 4294967296
    /\ session_alive (f c) c false ops = true
    /\ Known_C15_session_touch c shard ops
    /\ ctr_of (run (empty_table shard) ops) c = 18446744073709551615
    /\ sess_recount (run (empty_table shard) ops) c = 0
    /\ snd (step (run (empty_table shard) ops)
                 (Insert (ex_src 11 1 9 0) 2 0 (Some 1) kf_attr false false (Some (mx c, c)))) = true.
Print Assumptions limit_counter_refuted.

(* Outside the known class: while a session is alive its prefix-limit counter equals
   the number of prefixes it holds, and that number never exceeds the configured
   maximum (an insert that would exceed it is rejected with PrefixLimitExceeded and
   installs nothing). *)
Theorem limit_respected_outside_known :
  forall f mx shard ops c,
    Forall (op_wf f) ops -> Forall (ctr_disciplined f mx) ops -> mx c < 4294967296 ->
    session_alive (f c) c false ops = true ->
    ~ Known_C15_session_touch c shard ops ->
    let t := run (empty_table shard) ops in
    ctr_of t c = sess_recount t c /\ sess_recount t c <= mx c.
Proof. exact C15_limit_respected_outside_known. Qed.
Check limit_respected_outside_known :
  forall f mx shard ops c,
    Forall (op_wf f) ops -> Forall (ctr_disciplined f mx) ops -> mx c < 4294967296 ->
    session_alive (f c) c false ops = true ->
    ~ Known_C15_session_touch c shard ops ->
    let t := run (empty_table shard) ops in
    ctr_of t c = sess_recount t c /\ sess_recount t c <= mx c.
Print Assumptions limit_respected_outside_known.

(* An insert answered with PrefixLimitExceeded leaves the table exactly as it was
   (nothing installed, no empty destination, no id consumed): together with the
   previous theorem, a session never holds more than its maximum, and the only
   inserts that do not take effect are the signalled ones. *)
Theorem limit_rejection_installs_nothing :
  forall t s net rpid nh a filt nhinv lim,
    snd (step t (Insert s net rpid nh a filt nhinv lim)) = true ->
    fst (fst (step t (Insert s net rpid nh a filt nhinv lim))) = t.
Proof. exact C15_limit_rejection_installs_nothing. Qed.
Check limit_rejection_installs_nothing :
  forall t s net rpid nh a filt nhinv lim,
    snd (step t (Insert s net rpid nh a filt nhinv lim)) = true ->
    fst (fst (step t (Insert s net rpid nh a filt nhinv lim))) = t.
Print Assumptions limit_rejection_installs_nothing.

(* Table::remove unwraps the peer's statistics entry: whenever it finds the path to
   remove, the entry exists (no panic on a missing entry). *)
Theorem remove_finds_stats :
  forall shard ops s net rpid d removed,
    let t := run (empty_table shard) ops in
    alookup net (t_dests t) = Some d -> find (same_key s rpid) (d_entries d) = Some removed ->
    alookup (s_addr s) (t_stats t) <> None.
Proof. exact C15_remove_finds_stats. Qed.
Check remove_finds_stats :
  forall shard ops s net rpid d removed,
    let t := run (empty_table shard) ops in
    alookup net (t_dests t) = Some d -> find (same_key s rpid) (d_entries d) = Some removed ->
    alookup (s_addr s) (t_stats t) <> None.
Print Assumptions remove_finds_stats.

(* The statistics of a peer are what its Adj-RIB-In view shows: received = prefixes with
   a non-empty view (filtered paths included), accepted = paths in the view without
   the filtered ones. *)
Theorem stats_eq_adjin_view :
  forall shard ops a r c,
    let t := run (empty_table shard) ops in
    alookup a (t_stats t) = Some (r, c) ->
    r = N.of_nat (length (filter (fun nd => match adj_in a true (snd nd) with [] => false | _ => true end) (t_dests t)))
    /\ c = N.of_nat (length (flat_map (fun nd => adj_in a false (snd nd)) (t_dests t))).
Proof. exact C15_stats_eq_adjin_view. Qed.
Check stats_eq_adjin_view :
  forall shard ops a r c,
    let t := run (empty_table shard) ops in
    alookup a (t_stats t) = Some (r, c) ->
    r = N.of_nat (length (filter (fun nd => match adj_in a true (snd nd) with [] => false | _ => true end) (t_dests t)))
    /\ c = N.of_nat (length (flat_map (fun nd => adj_in a false (snd nd)) (t_dests t))).
Print Assumptions stats_eq_adjin_view.

(* The class of the open finding was narrowed: every history in the class used now
   (Known_C15_session_touch, per session and per destination touched) is in the class
   used before (Known_C15_two_sessions, per peer and whole table). *)
Theorem known_class_narrowed :
  forall f mx shard ops c,
    Forall (op_wf f) ops -> Forall (ctr_disciplined f mx) ops ->
    Known_C15_session_touch c shard ops -> Known_C15_two_sessions (f c) shard ops.
Proof. exact C15_known_class_narrowed. Qed.
Check known_class_narrowed :
  forall f mx shard ops c,
    Forall (op_wf f) ops -> Forall (ctr_disciplined f mx) ops ->
    Known_C15_session_touch c shard ops -> Known_C15_two_sessions (f c) shard ops.
Print Assumptions known_class_narrowed.

(* Outside the known class PrefixLimitExceeded is answered to a session only when it
   really holds its maximum number of prefixes (no new prefix is rejected early). *)
Theorem limit_signalled_only_when_full :
  forall f mx shard ops c s net rpid nh a filt nhinv,
    Forall (op_wf f) ops -> Forall (ctr_disciplined f mx) ops -> mx c < 4294967296 ->
    session_alive (f c) c false ops = true ->
    ~ Known_C15_session_touch c shard ops ->
    let t := run (empty_table shard) ops in
    s_tok s = c ->
    snd (step t (Insert s net rpid nh a filt nhinv (Some (mx c, c)))) = true ->
    sess_recount t c = mx c.
Proof. exact C15_limit_signalled_only_when_full. Qed.
Check limit_signalled_only_when_full :
  forall f mx shard ops c s net rpid nh a filt nhinv,
    Forall (op_wf f) ops -> Forall (ctr_disciplined f mx) ops -> mx c < 4294967296 ->
    session_alive (f c) c false ops = true ->
    ~ Known_C15_session_touch c shard ops ->
    let t := run (empty_table shard) ops in
    s_tok s = c ->
    snd (step t (Insert s net rpid nh a filt nhinv (Some (mx c, c)))) = true ->
    sess_recount t c = mx c.
Print Assumptions limit_signalled_only_when_full.

(* ---- the repaired finding C15-session-counter (repo commit abd1341) ----
   Model/RibSession.v adds to the operations of the RIB the synchronisation a
   session performs when it is established and after the stale purges it runs
   ([Sync c a]: counter c := prefixes the RIB holds from peer a).
   [session_disciplined a c mx false ops] (Spec/RibSpec.v, decidable) says how the
   repaired daemon uses the counter c of a session of peer a with maximum mx. *)

(* From its creation by a synchronisation onwards, through every disciplined
   continuation and whatever happened before (any history, other sessions of the same
   peer and their retained routes included), a session's prefix-limit counter equals
   the number of prefixes for which its peer's address holds at least one path in the
   RIB, stale ones included: it never underflows. *)
Theorem limit_counter_eq_recount :
  forall shard pre ops a c mx,
    mx < 4294967296 ->
    session_disciplined a c mx false ops = true ->
    let t := srun (empty_table shard) (pre ++ Sync c a :: ops) in
    ctr_of t c = recv_recount t a /\ ctr_of t c <= N.of_nat (length (t_dests t)).
Proof. exact C15_limit_counter_eq_recount. Qed.
Check limit_counter_eq_recount :
  forall shard pre ops a c mx,
    mx < 4294967296 ->
    session_disciplined a c mx false ops = true ->
    let t := srun (empty_table shard) (pre ++ Sync c a :: ops) in
    ctr_of t c = recv_recount t a /\ ctr_of t c <= N.of_nat (length (t_dests t)).
Print Assumptions limit_counter_eq_recount.

(* If the peer held no more prefixes than the maximum when the session was created, it
   never holds more while the session lives (a new prefix beyond the maximum is refused;
   retained prefixes count). *)
Theorem limit_respected :
  forall shard pre ops a c mx,
    mx < 4294967296 ->
    session_disciplined a c mx false ops = true ->
    recv_recount (srun (empty_table shard) pre) a <= mx ->
    recv_recount (srun (empty_table shard) (pre ++ Sync c a :: ops)) a <= mx.
Proof. exact C15_limit_respected. Qed.
Check limit_respected :
  forall shard pre ops a c mx,
    mx < 4294967296 ->
    session_disciplined a c mx false ops = true ->
    recv_recount (srun (empty_table shard) pre) a <= mx ->
    recv_recount (srun (empty_table shard) (pre ++ Sync c a :: ops)) a <= mx.
Print Assumptions limit_respected.

(* Record of the pre-repair discipline (a new session starts at 0, the End-of-RIB purge
   carries no counter, nothing follows it): the history of corpus/C15/known-session-counter.json
   drives the counter to 2^64-1 with no prefix held; with the synchronisations of the
   repaired discipline the same events keep it exact (1 after the re-announcement, 0 at the end). *)
Theorem old_discipline_refuted :
  ctr_of (srun (empty_table 0) kf_sops_old) 11 = 18446744073709551615
  /\ recv_recount (srun (empty_table 0) kf_sops_old) 1 = 0
  /\ session_disciplined 1 11 5 false (skipn 3 kf_sops_new) = true
  /\ ctr_of (srun (empty_table 0) kf_sops_new) 11 = 0
  /\ ctr_of (srun (empty_table 0) (firstn 4 kf_sops_new)) 11 = 1.
Proof. exact C15_old_discipline_refuted. Qed.
Check old_discipline_refuted :
  ctr_of (srun (empty_table 0) kf_sops_old) 11 = 18446744073709551615
  /\ recv_recount (srun (empty_table 0) kf_sops_old) 1 = 0
  /\ session_disciplined 1 11 5 false (skipn 3 kf_sops_new) = true
  /\ ctr_of (srun (empty_table 0) kf_sops_new) 11 = 0
  /\ ctr_of (srun (empty_table 0) (firstn 4 kf_sops_new)) 11 = 1.
Print Assumptions old_discipline_refuted.
