(* C18  A monitoring subscriber reconstructs the exact Adj-RIB-In whenever it
   subscribes.  Statements only: each theorem is closed by [exact], pinned by
   [Check] and followed by [Print Assumptions].  [run_sched c Fixed (init progs) sched]
   is the state after the threads [progs] have been granted the atomic steps
   listed in [sched]; every interleaving is such a schedule.  Subscriptions are
   numbered; [g_ph g j = 1] says subscription [j] is still in the subscriber list. *)
From Coq Require Import List NArith Bool.
From RB Require Import Base.Val Model.Subscribe Spec.SubscribeSpec Proofs.Subscribe.
Import ListNotations.
Open Scope N_scope.

(* (1) For every interleaving of the subscribe calls (any number of subscriptions,
   unsubscribe and resubscribe included) with the sessions' inserts, removes,
   session-downs with and without graceful restart, stale purges, drop_families,
   soft resets, policy changes and reachability reports: once every thread has
   finished, a subscription that is still registered holds, per key, exactly the
   pre-policy and the post-policy Adj-RIB-In -- or nothing, for a path the RIB
   retains stale after the PeerDown of its peer. *)
Theorem subscriber_fold_eq_rib :
  forall (c : cfg) (progs : list (list op)) (sched : list nat) (i j : nat),
    wf_progs progs -> In (Subscribe j) (nth i progs []) ->
    let s := run_sched c Fixed (init progs) sched in
    all_done s -> g_ph (s_g s) j = 1 ->
    forall k, holds_exactly (s_g s) j false k /\ holds_exactly (s_g s) j true k.
Proof. exact C18_subscriber_fold_eq_rib. Qed.
Check subscriber_fold_eq_rib :
  forall (c : cfg) (progs : list (list op)) (sched : list nat) (i j : nat),
    wf_progs progs -> In (Subscribe j) (nth i progs []) ->
    let s := run_sched c Fixed (init progs) sched in
    all_done s -> g_ph (s_g s) j = 1 ->
    forall k, holds_exactly (s_g s) j false k /\ holds_exactly (s_g s) j true k.
Print Assumptions subscriber_fold_eq_rib.

(* (1') ... hence exactly the two views when no path is retained stale. *)
Theorem subscriber_fold_eq_rib_no_stale :
  forall (c : cfg) (progs : list (list op)) (sched : list nat) (i j : nat),
    wf_progs progs -> In (Subscribe j) (nth i progs []) ->
    let s := run_sched c Fixed (init progs) sched in
    all_done s -> g_ph (s_g s) j = 1 -> (forall k, ~ stale_retained (s_g s) k) ->
    forall k, fold_pre (g_evs (s_g s) j) k = rib_pre (s_g s) k /\
              fold_post (g_evs (s_g s) j) k = rib_post (s_g s) k.
Proof. exact C18_subscriber_fold_eq_rib_no_stale. Qed.
Check subscriber_fold_eq_rib_no_stale :
  forall (c : cfg) (progs : list (list op)) (sched : list nat) (i j : nat),
    wf_progs progs -> In (Subscribe j) (nth i progs []) ->
    let s := run_sched c Fixed (init progs) sched in
    all_done s -> g_ph (s_g s) j = 1 -> (forall k, ~ stale_retained (s_g s) k) ->
    forall k, fold_pre (g_evs (s_g s) j) k = rib_pre (s_g s) k /\
              fold_post (g_evs (s_g s) j) k = rib_post (s_g s) k.
Print Assumptions subscriber_fold_eq_rib_no_stale.

(* (2) Per (peer, prefix, path id) and kind, the last event delivered (a PeerDown of
   the peer counts as a withdrawal) is the current state, up to stale retention; a
   key never mentioned is not in the RIB (or is retained stale). *)
Theorem last_event_is_current :
  forall (c : cfg) (progs : list (list op)) (sched : list nat) (i j : nat),
    wf_progs progs -> In (Subscribe j) (nth i progs []) ->
    let s := run_sched c Fixed (init progs) sched in
    all_done s -> g_ph (s_g s) j = 1 ->
    forall b k,
      (forall x, last_touch b k (g_evs (s_g s) j) = Some x ->
                 ribv b (g_rib (s_g s)) k = x \/ (stale_retained (s_g s) k /\ x = None)) /\
      (last_touch b k (g_evs (s_g s) j) = None ->
                 ribv b (g_rib (s_g s)) k = None \/ stale_retained (s_g s) k).
Proof. exact C18_last_event_is_current. Qed.
Check last_event_is_current :
  forall (c : cfg) (progs : list (list op)) (sched : list nat) (i j : nat),
    wf_progs progs -> In (Subscribe j) (nth i progs []) ->
    let s := run_sched c Fixed (init progs) sched in
    all_done s -> g_ph (s_g s) j = 1 ->
    forall b k,
      (forall x, last_touch b k (g_evs (s_g s) j) = Some x ->
                 ribv b (g_rib (s_g s)) k = x \/ (stale_retained (s_g s) k /\ x = None)) /\
      (last_touch b k (g_evs (s_g s) j) = None ->
                 ribv b (g_rib (s_g s)) k = None \/ stale_retained (s_g s) k).
Print Assumptions last_event_is_current.

(* (3) Whatever is received, the PeerDown events that track_peer_down lets
   through are paired with PeerUp events let through before (or with the peers
   reported up when the snapshot ended, [sent]). *)
Theorem peer_down_only_after_up :
  forall (sent : list N) (evs : list ev), paired sent (forward sent evs).
Proof. exact C18_peer_down_only_after_up. Qed.
Check peer_down_only_after_up :
  forall (sent : list N) (evs : list ev), paired sent (forward sent evs).
Print Assumptions peer_down_only_after_up.

(* Witnesses kept from before the fix commits ([Legacy] behaviour): soft_reset_in
   loading the subscriber list before the shard loop (C18-2), a refused insert left
   announced (C18-1), purges that removed retained paths silently (C18-3). *)
Theorem subscriber_fold_eq_rib_legacy_refuted :
  exists (c : cfg) (progs : list (list op)) (sched : list nat) (i j : nat) (k : key),
    wf_progs progs /\ In (Subscribe j) (nth i progs []) /\
    let s := run_sched c Legacy (init progs) sched in
    all_done s /\ g_ph (s_g s) j = 1 /\ ~ holds_exactly (s_g s) j true k.
Proof. exact C18_subscriber_fold_eq_rib_legacy_refuted. Qed.
Check subscriber_fold_eq_rib_legacy_refuted :
  exists (c : cfg) (progs : list (list op)) (sched : list nat) (i j : nat) (k : key),
    wf_progs progs /\ In (Subscribe j) (nth i progs []) /\
    let s := run_sched c Legacy (init progs) sched in
    all_done s /\ g_ph (s_g s) j = 1 /\ ~ holds_exactly (s_g s) j true k.
Print Assumptions subscriber_fold_eq_rib_legacy_refuted.

Theorem subscriber_fold_eq_rib_legacy_limit_refuted :
  exists (c : cfg) (progs : list (list op)) (sched : list nat) (i j : nat) (k : key),
    wf_progs progs /\ In (Subscribe j) (nth i progs []) /\
    let s := run_sched c Legacy (init progs) sched in
    all_done s /\ g_ph (s_g s) j = 1 /\ ~ holds_exactly (s_g s) j false k.
Proof. exact C18_subscriber_fold_eq_rib_legacy_limit_refuted. Qed.
Check subscriber_fold_eq_rib_legacy_limit_refuted :
  exists (c : cfg) (progs : list (list op)) (sched : list nat) (i j : nat) (k : key),
    wf_progs progs /\ In (Subscribe j) (nth i progs []) /\
    let s := run_sched c Legacy (init progs) sched in
    all_done s /\ g_ph (s_g s) j = 1 /\ ~ holds_exactly (s_g s) j false k.
Print Assumptions subscriber_fold_eq_rib_legacy_limit_refuted.

Theorem subscriber_fold_eq_rib_legacy_purge_refuted :
  exists (c : cfg) (progs : list (list op)) (sched : list nat) (i j : nat) (k : key),
    wf_progs progs /\ In (Subscribe j) (nth i progs []) /\
    let s := run_sched c Legacy (init progs) sched in
    all_done s /\ g_ph (s_g s) j = 1 /\ ~ holds_exactly (s_g s) j false k.
Proof. exact C18_subscriber_fold_eq_rib_legacy_purge_refuted. Qed.
Check subscriber_fold_eq_rib_legacy_purge_refuted :
  exists (c : cfg) (progs : list (list op)) (sched : list nat) (i j : nat) (k : key),
    wf_progs progs /\ In (Subscribe j) (nth i progs []) /\
    let s := run_sched c Legacy (init progs) sched in
    all_done s /\ g_ph (s_g s) j = 1 /\ ~ holds_exactly (s_g s) j false k.
Print Assumptions subscriber_fold_eq_rib_legacy_purge_refuted.
