(* C18  A monitoring subscriber reconstructs the exact Adj-RIB-In whenever it
   subscribes.  Statements only: each theorem is closed by [exact], pinned by
   [Check] and followed by [Print Assumptions].  [run_sched c Fixed (init progs) sched]
   is the state after the threads [progs] have been granted the atomic steps
   listed in [sched]; every interleaving is such a schedule. *)
From Coq Require Import List NArith Bool.
From RB Require Import Base.Val Model.Subscribe Spec.SubscribeSpec Proofs.Subscribe.
Import ListNotations.
Open Scope N_scope.

(* (1) For every interleaving of a subscribe call with the sessions' inserts,
   removes, session-downs, soft resets and policy changes (some thread calls
   subscribe at some point of its program): once every thread has finished, the
   subscriber's fold of what it received is exactly the pre-policy and the
   post-policy Adj-RIB-In. *)
Theorem subscriber_fold_eq_rib :
  forall (c : cfg) (progs : list (list op)) (sched : list nat) (i : nat),
    wf_progs progs -> In Subscribe (nth i progs []) ->
    let s := run_sched c Fixed (init progs) sched in
    all_done s ->
    forall k, fold_pre (g_evs (s_g s)) k = rib_pre (s_g s) k /\
              fold_post (g_evs (s_g s)) k = rib_post (s_g s) k.
Proof. exact C18_subscriber_fold_eq_rib_sub. Qed.
Check subscriber_fold_eq_rib :
  forall (c : cfg) (progs : list (list op)) (sched : list nat) (i : nat),
    wf_progs progs -> In Subscribe (nth i progs []) ->
    let s := run_sched c Fixed (init progs) sched in
    all_done s ->
    forall k, fold_pre (g_evs (s_g s)) k = rib_pre (s_g s) k /\
              fold_post (g_evs (s_g s)) k = rib_post (s_g s) k.
Print Assumptions subscriber_fold_eq_rib.

(* (2) Per (peer, prefix, path id) the last event delivered (a PeerDown of the
   peer counts as a withdrawal) is the current state; a key never mentioned is
   not in the RIB. *)
Theorem last_event_is_current :
  forall (c : cfg) (progs : list (list op)) (sched : list nat) (i : nat),
    wf_progs progs -> In Subscribe (nth i progs []) ->
    let s := run_sched c Fixed (init progs) sched in
    all_done s ->
    forall k,
      (forall x, last_touch false k (g_evs (s_g s)) = Some x -> rib_pre (s_g s) k = x) /\
      (last_touch false k (g_evs (s_g s)) = None -> rib_pre (s_g s) k = None) /\
      (forall x, last_touch true k (g_evs (s_g s)) = Some x -> rib_post (s_g s) k = x) /\
      (last_touch true k (g_evs (s_g s)) = None -> rib_post (s_g s) k = None).
Proof. exact C18_last_event_is_current_sub. Qed.
Check last_event_is_current :
  forall (c : cfg) (progs : list (list op)) (sched : list nat) (i : nat),
    wf_progs progs -> In Subscribe (nth i progs []) ->
    let s := run_sched c Fixed (init progs) sched in
    all_done s ->
    forall k,
      (forall x, last_touch false k (g_evs (s_g s)) = Some x -> rib_pre (s_g s) k = x) /\
      (last_touch false k (g_evs (s_g s)) = None -> rib_pre (s_g s) k = None) /\
      (forall x, last_touch true k (g_evs (s_g s)) = Some x -> rib_post (s_g s) k = x) /\
      (last_touch true k (g_evs (s_g s)) = None -> rib_post (s_g s) k = None).
Print Assumptions last_event_is_current.

(* (3) Whatever is received, the PeerDown events that track_peer_down lets
   through are paired with PeerUp events let through before (or with the peers
   reported up when the snapshot ended, [sent]). *)
Theorem peer_down_only_after_up :
  forall (sent : list N) (evs : list ev), paired sent (forward sent evs).
Proof. exact C18_peer_down_only_after_up. Qed.
Check peer_down_only_after_up :
  forall (sent : list N) (evs : list ev), paired sent (forward sent evs).
Print Assumptions peer_down_only_after_up.

(* Witnesses kept from before the fix commits: with soft_reset_in loading the
   subscriber list before the shard loop (C18-2), resp. with a refused insert
   left announced (C18-1), statement (1) fails ([Legacy] behaviour). *)
Theorem subscriber_fold_eq_rib_legacy_refuted :
  exists (c : cfg) (progs : list (list op)) (sched : list nat) (k : key),
    wf_progs progs /\
    let s := run_sched c Legacy (init progs) sched in
    all_done s /\ 2 <= g_walk (s_g s) /\
    fold_post (g_evs (s_g s)) k <> rib_post (s_g s) k.
Proof. exact C18_subscriber_fold_eq_rib_legacy_refuted. Qed.
Check subscriber_fold_eq_rib_legacy_refuted :
  exists (c : cfg) (progs : list (list op)) (sched : list nat) (k : key),
    wf_progs progs /\
    let s := run_sched c Legacy (init progs) sched in
    all_done s /\ 2 <= g_walk (s_g s) /\
    fold_post (g_evs (s_g s)) k <> rib_post (s_g s) k.
Print Assumptions subscriber_fold_eq_rib_legacy_refuted.

Theorem subscriber_fold_eq_rib_legacy_limit_refuted :
  exists (c : cfg) (progs : list (list op)) (sched : list nat) (k : key),
    wf_progs progs /\
    let s := run_sched c Legacy (init progs) sched in
    all_done s /\ 2 <= g_walk (s_g s) /\
    fold_pre (g_evs (s_g s)) k <> rib_pre (s_g s) k.
Proof. exact C18_subscriber_fold_eq_rib_legacy_limit_refuted. Qed.
Check subscriber_fold_eq_rib_legacy_limit_refuted :
  exists (c : cfg) (progs : list (list op)) (sched : list nat) (k : key),
    wf_progs progs /\
    let s := run_sched c Legacy (init progs) sched in
    all_done s /\ 2 <= g_walk (s_g s) /\
    fold_pre (g_evs (s_g s)) k <> rib_pre (s_g s) k.
Print Assumptions subscriber_fold_eq_rib_legacy_limit_refuted.
