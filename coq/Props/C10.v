(* C10 placeholder: theorems follow *)
From Coq Require Import List NArith Bool.
From RB Require Import Base.Val Model.Deferral Model.Gr.
