(* C10  Graceful-restart helper: stale routes live only while a timer or EOR is
   pending.  Statements only: each theorem is closed by [exact], pinned by
   [Check] and followed by [Print Assumptions].

   The faithful model of the unchanged code violates the full-strength
   statements in five input classes (open findings C10-2..C10-6, see
   known_findings.json); those appear as [_refuted] witnesses next to
   [_outside_known] / [_partial] statements.  C10-1 was repaired. *)
From Coq Require Import List NArith Bool.
From RB Require Import Base.Val Model.Deferral Model.Gr Spec.GrSpec Proofs.Gr.
Import ListNotations.
Open Scope N_scope.

(* (1) GrState: helper mode is entered only together with arming a timer
   (StartTimer or StartLlgrTimers in the same step). *)
Theorem helper_mode_entry_arms_timer :
  forall (s : grinner) (i : grinput),
    is_peer_restarting s = false ->
    is_peer_restarting (fst (gr_step s i)) = true ->
    (exists d, In (GStartTimer d) (snd (gr_step s i))) \/
    (exists l, In (GStartLlgrTimers l) (snd (gr_step s i))).
Proof. exact C10_helper_mode_entry_arms_timer. Qed.
Check helper_mode_entry_arms_timer :
  forall (s : grinner) (i : grinput),
    is_peer_restarting s = false ->
    is_peer_restarting (fst (gr_step s i)) = true ->
    (exists d, In (GStartTimer d) (snd (gr_step s i))) \/
    (exists l, In (GStartLlgrTimers l) (snd (gr_step s i))).
Print Assumptions helper_mode_entry_arms_timer.

(* (2) GrState: a session drop never ends helper mode. *)
Theorem drop_never_leaves_helper_mode :
  forall (s : grinner) gr ll,
    is_peer_restarting s = true ->
    is_peer_restarting (fst (gr_step s (GSessionDropped gr ll))) = true.
Proof. exact C10_drop_never_leaves_helper_mode. Qed.
Check drop_never_leaves_helper_mode :
  forall (s : grinner) gr ll,
    is_peer_restarting s = true ->
    is_peer_restarting (fst (gr_step s (GSessionDropped gr ll))) = true.
Print Assumptions drop_never_leaves_helper_mode.

(* (3) A connection attempt that ends before Established (apply_disconnect with
   nothing negotiated) leaves the LLGR timers, the routes, the helper phase and,
   while the peer is restarting, the restart timer untouched.  (Holds after the
   repair of finding C10-1.) *)
Theorem failed_reconnect_keeps_timer :
  forall (h : hstate),
    let h' := h_step h HFailedConnect in
    h_ltimers h' = h_ltimers h /\ h_rib h' = h_rib h /\ h_gr h' = h_gr h /\ h_sess h' = h_sess h
    /\ (is_peer_restarting (h_gr h) = true -> h_rtimer h' = h_rtimer h).
Proof. exact C10_failed_reconnect_keeps_timer. Qed.
Check failed_reconnect_keeps_timer :
  forall (h : hstate),
    let h' := h_step h HFailedConnect in
    h_ltimers h' = h_ltimers h /\ h_rib h' = h_rib h /\ h_gr h' = h_gr h /\ h_sess h' = h_sess h
    /\ (is_peer_restarting (h_gr h) = true -> h_rtimer h' = h_rtimer h).
Print Assumptions failed_reconnect_keeps_timer.

(* (4) When the restart timer expires and the LLGR period starts, every started
   family has its LLGR timer armed, and no route of those families carries
   NO_LLGR; the remaining ones are LLGR-stale marked. *)
Theorem no_llgr_dropped_at_llgr_start :
  forall (h : hstate) (l : list (fam * N)),
    h_rtimer h = true -> start_llgr (snd (gr_step (h_gr h) GTimerExpired)) = Some l ->
    let h' := h_step h HRestartTimer in
    (forall f, In f (map fst l) -> mem f (h_ltimers h') = true)
    /\ (forall r, In r (h_rib h') -> mem (r_fam r) (map fst l) = true -> r_no_llgr r = false /\ r_llgr r = true).
Proof. exact C10_no_llgr_dropped_at_llgr_start. Qed.
Check no_llgr_dropped_at_llgr_start :
  forall (h : hstate) (l : list (fam * N)),
    h_rtimer h = true -> start_llgr (snd (gr_step (h_gr h) GTimerExpired)) = Some l ->
    let h' := h_step h HRestartTimer in
    (forall f, In f (map fst l) -> mem f (h_ltimers h') = true)
    /\ (forall r, In r (h_rib h') -> mem (r_fam r) (map fst l) = true -> r_no_llgr r = false /\ r_llgr r = true).
Print Assumptions no_llgr_dropped_at_llgr_start.

(* (5) The same when a session drop starts the LLGR period directly. *)
Theorem no_llgr_dropped_at_llgr_only_drop :
  forall (h : hstate) gr ll (l : list (fam * N)),
    start_llgr (snd (gr_step (h_gr h) (GSessionDropped gr ll))) = Some l ->
    (gr <> None \/ ll <> None) ->
    let h' := apply_disconnect h gr ll in
    forall r, In r (h_rib h') -> mem (r_fam r) (map fst l) = true -> r_no_llgr r = false /\ r_llgr r = true.
Proof. exact C10_no_llgr_dropped_at_llgr_only_drop. Qed.
Check no_llgr_dropped_at_llgr_only_drop :
  forall (h : hstate) gr ll (l : list (fam * N)),
    start_llgr (snd (gr_step (h_gr h) (GSessionDropped gr ll))) = Some l ->
    (gr <> None \/ ll <> None) ->
    let h' := apply_disconnect h gr ll in
    forall r, In r (h_rib h') -> mem (r_fam r) (map fst l) = true -> r_no_llgr r = false /\ r_llgr r = true.
Print Assumptions no_llgr_dropped_at_llgr_only_drop.

(* (6) Outside finding C10-6: the purges triggered by End-of-RIB and by
   re-establishment never remove an unmarked route that does not carry the
   LLGR_STALE community. *)
Theorem fresh_routes_survive_purge_outside_known :
  forall (h : hstate) (e : hevent) (r : route),
    (exists f, e = HEor f) \/ (exists fams gr ll, e = HUp fams gr ll) ->
    In r (h_rib h) -> r_stale r = false -> r_llgr r = false ->
    r_llgr_comm r = false ->
    In r (h_rib (h_step h e)).
Proof. exact C10_fresh_routes_survive_purge_outside_known. Qed.
Check fresh_routes_survive_purge_outside_known :
  forall (h : hstate) (e : hevent) (r : route),
    (exists f, e = HEor f) \/ (exists fams gr ll, e = HUp fams gr ll) ->
    In r (h_rib h) -> r_stale r = false -> r_llgr r = false ->
    r_llgr_comm r = false ->
    In r (h_rib (h_step h e)).
Print Assumptions fresh_routes_survive_purge_outside_known.

(* (7) Finding C10-6: a route announced on the live session that carries
   LLGR_STALE is removed by the End-of-RIB purge after an LLGR period. *)
Theorem fresh_routes_survive_purge_refuted :
  exists (evs : list hevent) (f : fam) (r : route),
    Known_C10_6 evs = true /\
    let h := h_run h0 evs in
    In r (h_rib h) /\ retained h r = false /\ ~ In r (h_rib (h_step h (HEor f))).
Proof. exact C10_fresh_routes_survive_purge_refuted. Qed.
Check fresh_routes_survive_purge_refuted :
  exists (evs : list hevent) (f : fam) (r : route),
    Known_C10_6 evs = true /\
    let h := h_run h0 evs in
    In r (h_rib h) /\ retained h r = false /\ ~ In r (h_rib (h_step h (HEor f))).
Print Assumptions fresh_routes_survive_purge_refuted.

(* (8) Removal no later than the End-of-RIB / the expiry: after End-of-RIB for f
   on a GR (resp. LLGR) reconnect no stale (resp. LLGR-stale) route of f is left;
   after the restart timer expires without LLGR nothing of the stale families is
   left; after the LLGR timer of f expires no LLGR-stale route of f is left. *)
Theorem purged_by_expiry_or_eor :
  forall (h : hstate),
    (forall f s g pending, h_sess h = Some s -> s_gr s = Some g -> h_gr h = GPeerReconnected pending false ->
        forall r, In r (h_rib (h_step h (HEor f))) -> r_fam r = f -> r_stale r = false)
    /\ (forall f s g pending, h_sess h = Some s -> s_gr s = Some g -> h_gr h = GPeerReconnected pending true ->
        forall r, In r (h_rib (h_step h (HEor f))) -> r_fam r = f -> is_llgr_stale r = false)
    /\ (forall stale, h_rtimer h = true -> h_gr h = GPeerRestarting stale None ->
        forall r, In r (h_rib (h_step h HRestartTimer)) -> mem (r_fam r) stale = false)
    /\ (forall f remaining, mem f (h_ltimers h) = true -> h_gr h = GLlgrStaling remaining ->
        forall r, In r (h_rib (h_step h (HLlgrTimer f))) -> r_fam r = f -> is_llgr_stale r = false).
Proof. exact C10_purged_by_expiry_or_eor. Qed.
Check purged_by_expiry_or_eor :
  forall (h : hstate),
    (forall f s g pending, h_sess h = Some s -> s_gr s = Some g -> h_gr h = GPeerReconnected pending false ->
        forall r, In r (h_rib (h_step h (HEor f))) -> r_fam r = f -> r_stale r = false)
    /\ (forall f s g pending, h_sess h = Some s -> s_gr s = Some g -> h_gr h = GPeerReconnected pending true ->
        forall r, In r (h_rib (h_step h (HEor f))) -> r_fam r = f -> is_llgr_stale r = false)
    /\ (forall stale, h_rtimer h = true -> h_gr h = GPeerRestarting stale None ->
        forall r, In r (h_rib (h_step h HRestartTimer)) -> mem (r_fam r) stale = false)
    /\ (forall f remaining, mem f (h_ltimers h) = true -> h_gr h = GLlgrStaling remaining ->
        forall r, In r (h_rib (h_step h (HLlgrTimer f))) -> r_fam r = f -> is_llgr_stale r = false).
Print Assumptions purged_by_expiry_or_eor.

(* (9) At a session drop, whatever the reason, only routes of families that were
   negotiated for GR or LLGR can remain: every other family is removed at once. *)
Theorem non_negotiated_families_dropped_at_once :
  forall (h : hstate) (s : session) (rs : reason) (r : route),
    h_sess h = Some s ->
    In r (h_rib (h_step h (HDown rs))) ->
    mem (r_fam r) (s_fams s) = true ->
    mem (r_fam r) (fams_of_gr (s_gr s)) = true \/ mem (r_fam r) (fams_of_llgr (s_llgr s)) = true.
Proof. exact C10_non_negotiated_families_dropped_at_once. Qed.
Check non_negotiated_families_dropped_at_once :
  forall (h : hstate) (s : session) (rs : reason) (r : route),
    h_sess h = Some s ->
    In r (h_rib (h_step h (HDown rs))) ->
    mem (r_fam r) (s_fams s) = true ->
    mem (r_fam r) (fams_of_gr (s_gr s)) = true \/ mem (r_fam r) (fams_of_llgr (s_llgr s)) = true.
Print Assumptions non_negotiated_families_dropped_at_once.

(* (10) Findings C10-2..C10-5: "stale routes only while a timer is armed or an
   End-of-RIB is awaited" is false of the faithful model; one witness per class. *)
Theorem stale_implies_timer_or_eor_refuted :
  (Known_C10_2 w2 = true /\ stale_ok (h_run h0 w2) = false)
  /\ (Known_C10_3 w3 = true /\ stale_ok (h_run h0 w3) = false)
  /\ (Known_C10_4 w4 = true /\ stale_ok (h_run h0 w4) = false)
  /\ (Known_C10_5 w5 = true /\ stale_ok (h_run h0 w5) = false).
Proof. exact C10_stale_implies_timer_or_eor_refuted. Qed.
Check stale_implies_timer_or_eor_refuted :
  (Known_C10_2 w2 = true /\ stale_ok (h_run h0 w2) = false)
  /\ (Known_C10_3 w3 = true /\ stale_ok (h_run h0 w3) = false)
  /\ (Known_C10_4 w4 = true /\ stale_ok (h_run h0 w4) = false)
  /\ (Known_C10_5 w5 = true /\ stale_ok (h_run h0 w5) = false).
Print Assumptions stale_implies_timer_or_eor_refuted.

(* (11) [partial] Outside the known classes the invariant holds after every
   step of every event sequence of length 4 over sweep_alphabet (complete sweep,
   19 letters, two families).  Full statement, not proved:
     forall evs, known_any evs = false -> stale_ok_along h0 evs = true. *)
Theorem stale_implies_timer_or_eor_partial :
  forall (evs : list hevent),
    length evs = 4%nat -> Forall (fun e => In e sweep_alphabet) evs ->
    known_any evs = false ->
    stale_ok_along h0 evs = true.
Proof. exact C10_stale_implies_timer_or_eor_partial. Qed.
Check stale_implies_timer_or_eor_partial :
  forall (evs : list hevent),
    length evs = 4%nat -> Forall (fun e => In e sweep_alphabet) evs ->
    known_any evs = false ->
    stale_ok_along h0 evs = true.
Print Assumptions stale_implies_timer_or_eor_partial.

(* (12) Finding C10-2: after a hard reset the helper phase is Idle and no timer
   is armed, but the stale-marked routes are still there. *)
Theorem non_gr_reasons_retain_nothing_refuted :
  exists evs, Known_C10_2 evs = true /\
              let h := h_run h0 evs in
              is_peer_restarting (h_gr h) = false /\ h_rtimer h = false /\ h_ltimers h = [] /\ h_rib h <> [].
Proof. exact C10_non_gr_reasons_retain_nothing_refuted. Qed.
Check non_gr_reasons_retain_nothing_refuted :
  exists evs, Known_C10_2 evs = true /\
              let h := h_run h0 evs in
              is_peer_restarting (h_gr h) = false /\ h_rtimer h = false /\ h_ltimers h = [] /\ h_rib h <> [].
Print Assumptions non_gr_reasons_retain_nothing_refuted.

(* (13) Outside that class: a session that negotiated neither GR nor LLGR leaves
   no route of its families behind, whatever the reason. *)
Theorem non_gr_reasons_retain_nothing_outside_known :
  forall (h : hstate) (s : session) (rs : reason) (r : route),
    h_sess h = Some s -> s_gr s = None -> s_llgr s = None ->
    In r (h_rib (h_step h (HDown rs))) -> mem (r_fam r) (s_fams s) = false.
Proof. exact C10_non_gr_reasons_retain_nothing_outside_known. Qed.
Check non_gr_reasons_retain_nothing_outside_known :
  forall (h : hstate) (s : session) (rs : reason) (r : route),
    h_sess h = Some s -> s_gr s = None -> s_llgr s = None ->
    In r (h_rib (h_step h (HDown rs))) -> mem (r_fam r) (s_fams s) = false.
Print Assumptions non_gr_reasons_retain_nothing_outside_known.
