(* C10  Graceful-restart helper: stale routes live only while a timer or EOR is
   pending.  Statements only: each theorem is closed by [exact], pinned by
   [Check] and followed by [Print Assumptions].

   Findings C10-1 .. C10-7 are repaired in the repository and the model is the
   repaired behaviour; no theorem carries a known-class hypothesis. *)
From Coq Require Import List NArith Bool.
From RB Require Import Base.Val Model.Deferral Model.Gr Spec.GrSpec Proofs.Gr.
Import ListNotations.
Open Scope N_scope.

(* helper mode is entered only together with arming a timer *)
Theorem helper_mode_entry_arms_timer :
  forall (s : grinner) (i : grinput),
    is_peer_restarting s = false ->
    is_peer_restarting (fst (gr_step s i)) = true ->
    (exists d, In (GStartTimer d) (snd (gr_step s i))) \/
    (exists l, In (GStartLlgrTimers l) (snd (gr_step s i))).
Proof. exact C10_helper_mode_entry_arms_timer. Qed.
Check helper_mode_entry_arms_timer :
  forall (s : grinner) (i : grinput),
    is_peer_restarting s = false ->
    is_peer_restarting (fst (gr_step s i)) = true ->
    (exists d, In (GStartTimer d) (snd (gr_step s i))) \/
    (exists l, In (GStartLlgrTimers l) (snd (gr_step s i))).
Print Assumptions helper_mode_entry_arms_timer.

(* a session drop never ends helper mode; only expiry, End-of-RIB or
   re-establishment do *)
Theorem drop_never_leaves_helper_mode :
  forall (s : grinner) gr ll,
    is_peer_restarting s = true ->
    is_peer_restarting (fst (gr_step s (GSessionDropped gr ll))) = true.
Proof. exact C10_drop_never_leaves_helper_mode. Qed.
Check drop_never_leaves_helper_mode :
  forall (s : grinner) gr ll,
    is_peer_restarting s = true ->
    is_peer_restarting (fst (gr_step s (GSessionDropped gr ll))) = true.
Print Assumptions drop_never_leaves_helper_mode.

(* Stale routes exist only while a restart timer or an LLGR timer is armed or an
   End-of-RIB is awaited on the re-established session: after every step of every
   history (sessions up with any negotiated GR / LLGR sets, announcements,
   End-of-RIB markers, drops for every reason, failed connection attempts, timer
   expiries, forced peer-down, admin-down in any order). *)
Theorem stale_implies_timer_or_eor :
  forall (evs : list hevent),
    stale_ok_along h0 evs = true /\ stale_ok (h_run h0 evs) = true.
Proof. exact C10_stale_implies_timer_or_eor. Qed.
Check stale_implies_timer_or_eor :
  forall (evs : list hevent),
    stale_ok_along h0 evs = true /\ stale_ok (h_run h0 evs) = true.
Print Assumptions stale_implies_timer_or_eor.

(* the phase / timer / route consistency behind it, as a usable corollary: in every
   reachable state a session that is up has no timer armed and its own routes are
   unmarked and in its families; the restart timer is armed exactly in phase
   PeerRestarting; LLGR timers are armed only in phase LlgrStaling, for the
   families still staling *)
Theorem phase_timer_consistency :
  forall (evs : list hevent),
    let h := h_run h0 evs in
    (forall s, h_sess h = Some s ->
        h_rtimer h = false /\ h_ltimers h = [] /\
        forall r, In r (h_rib h) -> r_sess r = s_gen s ->
                  r_stale r = false /\ r_llgr r = false /\ mem (r_fam r) (s_fams s) = true)
    /\ (h_rtimer h = true <-> exists stale llgr, h_gr h = GPeerRestarting stale llgr)
    /\ (forall f, mem f (h_ltimers h) = true -> exists rem, h_gr h = GLlgrStaling rem /\ mem f rem = true).
Proof. exact C10_phase_timer_consistency. Qed.
Check phase_timer_consistency :
  forall (evs : list hevent),
    let h := h_run h0 evs in
    (forall s, h_sess h = Some s ->
        h_rtimer h = false /\ h_ltimers h = [] /\
        forall r, In r (h_rib h) -> r_sess r = s_gen s ->
                  r_stale r = false /\ r_llgr r = false /\ mem (r_fam r) (s_fams s) = true)
    /\ (h_rtimer h = true <-> exists stale llgr, h_gr h = GPeerRestarting stale llgr)
    /\ (forall f, mem f (h_ltimers h) = true -> exists rem, h_gr h = GLlgrStaling rem /\ mem f rem = true).
Print Assumptions phase_timer_consistency.

(* (a) a connection attempt that ends before Established leaves every pending
       timer, the helper phase and the routes as they were *)
Theorem failed_reconnect_keeps_timer :
  forall (h : hstate),
    let h' := h_step h HFailedConnect in
    h_ltimers h' = h_ltimers h /\ h_rib h' = h_rib h /\ h_gr h' = h_gr h /\ h_sess h' = h_sess h
    /\ (is_peer_restarting (h_gr h) = true -> h_rtimer h' = h_rtimer h).
Proof. exact C10_failed_reconnect_keeps_timer. Qed.
Check failed_reconnect_keeps_timer :
  forall (h : hstate),
    let h' := h_step h HFailedConnect in
    h_ltimers h' = h_ltimers h /\ h_rib h' = h_rib h /\ h_gr h' = h_gr h /\ h_sess h' = h_sess h
    /\ (is_peer_restarting (h_gr h) = true -> h_rtimer h' = h_rtimer h).
Print Assumptions failed_reconnect_keeps_timer.

(* (b) NO_LLGR routes are gone when the LLGR period of their family starts *)
Theorem no_llgr_dropped_at_llgr_start :
  forall (h : hstate) (l : list (fam * N)),
    h_rtimer h = true -> start_llgr (snd (gr_step (h_gr h) GTimerExpired)) = Some l ->
    let h' := h_step h HRestartTimer in
    (forall f, In f (map fst l) -> mem f (h_ltimers h') = true)
    /\ (forall r, In r (h_rib h') -> mem (r_fam r) (map fst l) = true -> r_no_llgr r = false /\ r_llgr r = true).
Proof. exact C10_no_llgr_dropped_at_llgr_start. Qed.
Check no_llgr_dropped_at_llgr_start :
  forall (h : hstate) (l : list (fam * N)),
    h_rtimer h = true -> start_llgr (snd (gr_step (h_gr h) GTimerExpired)) = Some l ->
    let h' := h_step h HRestartTimer in
    (forall f, In f (map fst l) -> mem f (h_ltimers h') = true)
    /\ (forall r, In r (h_rib h') -> mem (r_fam r) (map fst l) = true -> r_no_llgr r = false /\ r_llgr r = true).
Print Assumptions no_llgr_dropped_at_llgr_start.


Theorem no_llgr_dropped_at_llgr_only_drop :
  forall (h : hstate) gr ll (l : list (fam * N)),
    start_llgr (snd (gr_step (h_gr h) (GSessionDropped gr ll))) = Some l ->
    (gr <> None \/ ll <> None) ->
    let h' := apply_disconnect h gr ll in
    forall r, In r (h_rib h') -> mem (r_fam r) (map fst l) = true -> r_no_llgr r = false /\ r_llgr r = true.
Proof. exact C10_no_llgr_dropped_at_llgr_only_drop. Qed.
Check no_llgr_dropped_at_llgr_only_drop :
  forall (h : hstate) gr ll (l : list (fam * N)),
    start_llgr (snd (gr_step (h_gr h) (GSessionDropped gr ll))) = Some l ->
    (gr <> None \/ ll <> None) ->
    let h' := apply_disconnect h gr ll in
    forall r, In r (h_rib h') -> mem (r_fam r) (map fst l) = true -> r_no_llgr r = false /\ r_llgr r = true.
Print Assumptions no_llgr_dropped_at_llgr_only_drop.

(* (c) the stale purges (End-of-RIB, re-establishment) never remove an unmarked route;
       in particular not a route re-announced on the new session, whatever communities it carries *)
Theorem fresh_routes_survive_purge :
  forall (h : hstate) (e : hevent) (r : route),
    (exists f, e = HEor f) \/ (exists fams gr ll, e = HUp fams gr ll) ->
    In r (h_rib h) -> r_stale r = false -> r_llgr r = false ->
    In r (h_rib (h_step h e)).
Proof. exact C10_fresh_routes_survive_purge. Qed.
Check fresh_routes_survive_purge :
  forall (h : hstate) (e : hevent) (r : route),
    (exists f, e = HEor f) \/ (exists fams gr ll, e = HUp fams gr ll) ->
    In r (h_rib h) -> r_stale r = false -> r_llgr r = false ->
    In r (h_rib (h_step h e)).
Print Assumptions fresh_routes_survive_purge.

(* ... and in every reachable state the routes of the live session are unmarked, so they
   survive the purge *)
Theorem live_session_routes_survive_purge :
  forall (evs : list hevent) (e : hevent) (s : session) (r : route),
    let h := h_run h0 evs in
    h_sess h = Some s -> In r (h_rib h) -> r_sess r = s_gen s ->
    (exists f, e = HEor f) ->
    In r (h_rib (h_step h e)).
Proof. exact C10_live_session_routes_survive_purge. Qed.
Check live_session_routes_survive_purge :
  forall (evs : list hevent) (e : hevent) (s : session) (r : route),
    let h := h_run h0 evs in
    h_sess h = Some s -> In r (h_rib h) -> r_sess r = s_gen s ->
    (exists f, e = HEor f) ->
    In r (h_rib (h_step h e)).
Print Assumptions live_session_routes_survive_purge.

(* (d) removal no later than the expiry / the End-of-RIB *)
Theorem purged_by_expiry_or_eor :
  forall (h : hstate),
    (forall f s g pending, h_sess h = Some s -> s_gr s = Some g -> h_gr h = GPeerReconnected pending false ->
        forall r, In r (h_rib (h_step h (HEor f))) -> r_fam r = f -> r_stale r = false)
    /\ (forall f s g pending, h_sess h = Some s -> s_gr s = Some g -> h_gr h = GPeerReconnected pending true ->
        forall r, In r (h_rib (h_step h (HEor f))) -> r_fam r = f -> r_llgr r = false)
    /\ (forall stale, h_rtimer h = true -> h_gr h = GPeerRestarting stale None ->
        forall r, In r (h_rib (h_step h HRestartTimer)) -> mem (r_fam r) stale = false)
    /\ (forall f remaining, mem f (h_ltimers h) = true -> h_gr h = GLlgrStaling remaining ->
        forall r, In r (h_rib (h_step h (HLlgrTimer f))) -> r_fam r = f -> r_llgr r = false).
Proof. exact C10_purged_by_expiry_or_eor. Qed.
Check purged_by_expiry_or_eor :
  forall (h : hstate),
    (forall f s g pending, h_sess h = Some s -> s_gr s = Some g -> h_gr h = GPeerReconnected pending false ->
        forall r, In r (h_rib (h_step h (HEor f))) -> r_fam r = f -> r_stale r = false)
    /\ (forall f s g pending, h_sess h = Some s -> s_gr s = Some g -> h_gr h = GPeerReconnected pending true ->
        forall r, In r (h_rib (h_step h (HEor f))) -> r_fam r = f -> r_llgr r = false)
    /\ (forall stale, h_rtimer h = true -> h_gr h = GPeerRestarting stale None ->
        forall r, In r (h_rib (h_step h HRestartTimer)) -> mem (r_fam r) stale = false)
    /\ (forall f remaining, mem f (h_ltimers h) = true -> h_gr h = GLlgrStaling remaining ->
        forall r, In r (h_rib (h_step h (HLlgrTimer f))) -> r_fam r = f -> r_llgr r = false).
Print Assumptions purged_by_expiry_or_eor.


Theorem non_negotiated_families_dropped_at_once :
  forall (h : hstate) (s : session) (rs : reason) (r : route),
    h_sess h = Some s ->
    In r (h_rib (h_step h (HDown rs))) ->
    mem (r_fam r) (s_fams s) = true ->
    mem (r_fam r) (fams_of_gr (s_gr s)) = true \/ mem (r_fam r) (fams_of_llgr (s_llgr s)) = true.
Proof. exact C10_non_negotiated_families_dropped_at_once. Qed.
Check non_negotiated_families_dropped_at_once :
  forall (h : hstate) (s : session) (rs : reason) (r : route),
    h_sess h = Some s ->
    In r (h_rib (h_step h (HDown rs))) ->
    mem (r_fam r) (s_fams s) = true ->
    mem (r_fam r) (fams_of_gr (s_gr s)) = true \/ mem (r_fam r) (fams_of_llgr (s_llgr s)) = true.
Print Assumptions non_negotiated_families_dropped_at_once.

(* (f) a hard reset, an admin shutdown, a non-Cease error (and a NOTIFICATION or hold-timer
       expiry without the N bit) never enters helper mode and retains nothing, in every
       reachable state *)
Theorem non_gr_reasons_retain_nothing :
  forall (evs : list hevent) (s : session) (rs : reason),
    let h := h_run h0 evs in
    h_sess h = Some s -> not_eligible h s rs = true ->
    let h' := h_step h (HDown rs) in
    h_rib h' = [] /\ h_rtimer h' = false /\ h_ltimers h' = [] /\ h_sess h' = None /\ h_gr h' = h_gr h.
Proof. exact C10_non_gr_reasons_retain_nothing. Qed.
Check non_gr_reasons_retain_nothing :
  forall (evs : list hevent) (s : session) (rs : reason),
    let h := h_run h0 evs in
    h_sess h = Some s -> not_eligible h s rs = true ->
    let h' := h_step h (HDown rs) in
    h_rib h' = [] /\ h_rtimer h' = false /\ h_ltimers h' = [] /\ h_sess h' = None /\ h_gr h' = h_gr h.
Print Assumptions non_gr_reasons_retain_nothing.

(* the eligibility decision of gr_on_disconnect is the one the property text states: for every
   reason class, and for every NOTIFICATION (code, subcode) sent or received it is eligible exactly
   when the N bit is negotiated and it is a Cease other than Hard Reset (finding C10-8 repaired) *)
Theorem eligibility_is_as_stated :
  (forall r nb, gr_applies r nb = spec_eligible r nb)
  /\ (forall (local : bool) (code sub : N) (nb : bool),
        gr_applies (reason_of_notification local code sub) nb = nb && (code =? 6) && negb (sub =? 9)).
Proof. exact C10_eligibility_is_as_stated. Qed.
Check eligibility_is_as_stated :
  (forall r nb, gr_applies r nb = spec_eligible r nb)
  /\ (forall (local : bool) (code sub : N) (nb : bool),
        gr_applies (reason_of_notification local code sub) nb = nb && (code =? 6) && negb (sub =? 9)).
Print Assumptions eligibility_is_as_stated.

(* The invariant over histories in which the neighbour has a second connection (either
   role) registered with the arbiter at any point: opened while the first session is up or
   down, ending in OpenSent / OpenConfirm before or after the session drops, losing the
   collision against the Established session, or becoming the next session (with any
   negotiated GR / LLGR sets), interleaved with every event of the one-connection histories. *)
Theorem stale_implies_timer_or_eor_two_connections :
  forall (evs : list cevent),
    stale_ok_along_c c0 evs = true /\ stale_ok (c_h (c_run c0 evs)) = true.
Proof. exact C10_stale_implies_timer_or_eor_two_connections. Qed.
Check stale_implies_timer_or_eor_two_connections :
  forall (evs : list cevent),
    stale_ok_along_c c0 evs = true /\ stale_ok (c_h (c_run c0 evs)) = true.
Print Assumptions stale_implies_timer_or_eor_two_connections.

(* A second connection being registered does not take the drop of the Established session
   out of helper mode: in every reachable state, whether or not a second connection exists,
   the eligible drop of a session that negotiated GR arms the restart timer and enters
   PeerRestarting; and the drop does to the peer state exactly what it does without one. *)
Theorem second_connection_does_not_suppress_helper_mode :
  forall (evs : list cevent) (r : reason) (s : session) l rt nb,
    let c := c_run c0 evs in
    h_sess (c_h c) = Some s -> s_gr s = Some (l, rt, nb) ->
    gr_applies r nb = true -> h_admin_down (c_h c) = false ->
    let c' := c_step c (CBase (HDown r)) in
    c_h c' = h_step (c_h c) (HDown r)
    /\ h_rtimer (c_h c') = true /\ is_peer_restarting (h_gr (c_h c')) = true
    /\ c_sib c' = c_sib c.
Proof. exact C10_second_connection_does_not_suppress_helper_mode. Qed.
Check second_connection_does_not_suppress_helper_mode :
  forall (evs : list cevent) (r : reason) (s : session) l rt nb,
    let c := c_run c0 evs in
    h_sess (c_h c) = Some s -> s_gr s = Some (l, rt, nb) ->
    gr_applies r nb = true -> h_admin_down (c_h c) = false ->
    let c' := c_step c (CBase (HDown r)) in
    c_h c' = h_step (c_h c) (HDown r)
    /\ h_rtimer (c_h c') = true /\ is_peer_restarting (h_gr (c_h c')) = true
    /\ c_sib c' = c_sib c.
Print Assumptions second_connection_does_not_suppress_helper_mode.

(* The map llgr_family_timers of the code keeps the entry of an LLGR timer that ran out
   (Model/Gr.v t_dead).  Over every history, through any number of GR / LLGR cycles of the
   peer: the state is the one of the histories above (dead entries influence nothing, because
   storing a new timer overwrites the entry of its family), so stale routes exist only while
   a restart timer or an ARMED LLGR timer is pending or an End-of-RIB is awaited; and a family
   never has a dead entry and an armed timer at once. *)
Theorem stale_implies_timer_or_eor_dead_timer_entries :
  forall (evs : list cevent),
    let t := t_run t0 evs in
    t_c t = c_run c0 evs
    /\ stale_ok (c_h (t_c t)) = true
    /\ (forall f, mem f (t_dead t) = true -> mem f (h_ltimers (c_h (t_c t))) = false).
Proof. exact C10_stale_implies_timer_or_eor_dead_timer_entries. Qed.
Check stale_implies_timer_or_eor_dead_timer_entries :
  forall (evs : list cevent),
    let t := t_run t0 evs in
    t_c t = c_run c0 evs
    /\ stale_ok (c_h (t_c t)) = true
    /\ (forall f, mem f (t_dead t) = true -> mem f (h_ltimers (c_h (t_c t))) = false).
Print Assumptions stale_implies_timer_or_eor_dead_timer_entries.
