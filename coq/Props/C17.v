(* C17  What the gRPC API accepts is stored faithfully, shown back unchanged, and
   safe.  Statements only: each theorem is closed by [exact], pinned by [Check]
   and followed by [Print Assumptions]. *)
From Coq Require Import List ZArith NArith Bool.
From RB Require Import Base.Val Model.Api Spec.ApiSpec Proofs.ApiRt Proofs.ApiNlri Proofs.ApiEvpn Proofs.ApiGuard Proofs.ApiX Proofs.Api.
Import ListNotations.
Open Scope N_scope.

(* (1) For every well-formed internal attribute of a core type, attr_from_api
   (attr_to_api a) returns the same type and the same value, with the flags octet
   canonical_flags gives that type ([canon_of]); under the stated contract of the
   Ipv6Addr textual form (used only by a 16-byte NEXT_HOP). *)
Theorem attr_roundtrip_up_to_flags :
  forall (v6p : N -> list N) (v6r : list N -> option N) (a : attr),
    v6_contract v6p v6r -> wf_attr a -> core_code (a_code a) = true ->
    roundtrip v6p v6r a = Ok (Some (canon_of a)).
Proof. exact C17_attr_roundtrip_up_to_flags. Qed.
Check attr_roundtrip_up_to_flags :
  forall (v6p : N -> list N) (v6r : list N -> option N) (a : attr),
    v6_contract v6p v6r -> wf_attr a -> core_code (a_code a) = true ->
    roundtrip v6p v6r a = Ok (Some (canon_of a)).
Print Assumptions attr_roundtrip_up_to_flags.

(* (2) attr_roundtrip_core outside the known class C17-flags: the round trip is the
   identity on every well-formed core attribute whose stored flags are the
   canonical ones of its type (or whose type has no definition: opaque). *)
Theorem attr_roundtrip_core_outside_known :
  forall (v6p : N -> list N) (v6r : list N -> option N) (a : attr),
    v6_contract v6p v6r -> wf_attr a -> core_code (a_code a) = true ->
    ~ Known_C17_flags a -> roundtrip v6p v6r a = Ok (Some a).
Proof. exact C17_attr_roundtrip_core_outside_known. Qed.
Check attr_roundtrip_core_outside_known :
  forall (v6p : N -> list N) (v6r : list N -> option N) (a : attr),
    v6_contract v6p v6r -> wf_attr a -> core_code (a_code a) = true ->
    ~ Known_C17_flags a -> roundtrip v6p v6r a = Ok (Some a).
Print Assumptions attr_roundtrip_core_outside_known.

(* (3) The unrestricted statement is false of the code: a well-formed value in the
   class C17-flags (ORIGIN held with the PARTIAL bit) does not come back equal,
   whatever the Ipv6 textual form does. *)
Theorem attr_roundtrip_core_refuted :
  forall (v6p : N -> list N) (v6r : list N -> option N),
    exists a, wf_attr a /\ core_code (a_code a) = true /\ Known_C17_flags a
              /\ roundtrip v6p v6r a <> Ok (Some a).
Proof. exact C17_attr_roundtrip_core_refuted. Qed.
Check attr_roundtrip_core_refuted :
  forall (v6p : N -> list N) (v6r : list N -> option N),
    exists a, wf_attr a /\ core_code (a_code a) = true /\ Known_C17_flags a
              /\ roundtrip v6p v6r a <> Ok (Some a).
Print Assumptions attr_roundtrip_core_refuted.

(* (4) attr_from_api returns Ok or Err for every API message, whatever the Ipv6
   parser does: it has no panicking path. *)
Theorem from_api_total :
  forall (v6r : list N -> option N) (x : api_attr) (t : N), from_api v6r x <> Panic t.
Proof. exact C17_from_api_total. Qed.
Check from_api_total :
  forall (v6r : list N -> option N) (x : api_attr) (t : N), from_api v6r x <> Panic t.
Print Assumptions from_api_total.

(* (5) Whatever attr_from_api accepts (from a message whose fields are in their
   protobuf ranges) satisfies the invariants of values stored from the wire. *)
Theorem from_api_preserves_wf :
  forall (v6r : list N -> option N) (x : api_attr) (a : attr),
    api_in_range x -> from_api v6r x = Ok (Some a) -> wf_attr a.
Proof. exact C17_from_api_preserves_wf. Qed.
Check from_api_preserves_wf :
  forall (v6r : list N -> option N) (x : api_attr) (a : attr),
    api_in_range x -> from_api v6r x = Ok (Some a) -> wf_attr a.
Print Assumptions from_api_preserves_wf.

(* (6) The Spec's invariants are what the (modelled) UPDATE decoder guarantees of
   every attribute it stores: wf_attr is not stronger than the wire. *)
Theorem wire_values_are_wf :
  forall (flags code : N) (d : list N) (a : attr),
    flags < 256 -> code < 256 -> bytes_ok d -> len_ok d ->
    wire_accept flags code d = Some a -> wf_attr a.
Proof. exact C17_wire_values_are_wf. Qed.
Check wire_values_are_wf :
  forall (flags code : N) (d : list N) (a : attr),
    flags < 256 -> code < 256 -> bytes_ok d -> len_ok d ->
    wire_accept flags code d = Some a -> wf_attr a.
Print Assumptions wire_values_are_wf.

(* (7) Well-formed values cannot panic the consumers: listing (attr_to_api),
   Attribute::encode, as_path_length, and one best-path comparison (either
   direction) of local_path's assembled list against any well-formed path. *)
Theorem wf_is_safe_downstream :
  forall (v6p : N -> list N) (l others : list attr) (ra rb : N),
    Forall wf_attr l -> Forall wf_attr others ->
    (forall a, In a l -> core_code (a_code a) = true -> exists x, to_api v6p a = Ok x)
    /\ (forall a, In a l -> exists b, encode_attr a = Ok b)
    /\ (forall a, In a l -> a_code a = AS_PATH -> exists n, as_path_length a = Ok n)
    /\ (exists z, rib_cmp (local_path_attrs l) ra others rb = Ok z)
    /\ (exists z, rib_cmp others rb (local_path_attrs l) ra = Ok z).
Proof. exact C17_wf_is_safe_downstream. Qed.
Check wf_is_safe_downstream :
  forall (v6p : N -> list N) (l others : list attr) (ra rb : N),
    Forall wf_attr l -> Forall wf_attr others ->
    (forall a, In a l -> core_code (a_code a) = true -> exists x, to_api v6p a = Ok x)
    /\ (forall a, In a l -> exists b, encode_attr a = Ok b)
    /\ (forall a, In a l -> a_code a = AS_PATH -> exists n, as_path_length a = Ok n)
    /\ (exists z, rib_cmp (local_path_attrs l) ra others rb = Ok z)
    /\ (exists z, rib_cmp others rb (local_path_attrs l) ra = Ok z).
Print Assumptions wf_is_safe_downstream.

(* (8) Composition of (5) and (7): a path whose attributes were all accepted by
   attr_from_api can be compared with any well-formed path, encoded and listed
   without a panic. *)
Theorem api_accepted_is_safe :
  forall (v6p : N -> list N) (v6r : list N -> option N) (xs : list api_attr)
         (l others : list attr) (ra rb : N),
    Forall api_in_range xs ->
    Forall2 (fun x a => from_api v6r x = Ok (Some a)) xs l ->
    Forall wf_attr others ->
    (exists z, rib_cmp (local_path_attrs l) ra others rb = Ok z)
    /\ (forall a, In a l -> exists b, encode_attr a = Ok b)
    /\ (forall a, In a l -> core_code (a_code a) = true -> exists x, to_api v6p a = Ok x).
Proof. exact C17_api_accepted_is_safe. Qed.
Check api_accepted_is_safe :
  forall (v6p : N -> list N) (v6r : list N -> option N) (xs : list api_attr)
         (l others : list attr) (ra rb : N),
    Forall api_in_range xs ->
    Forall2 (fun x a => from_api v6r x = Ok (Some a)) xs l ->
    Forall wf_attr others ->
    (exists z, rib_cmp (local_path_attrs l) ra others rb = Ok z)
    /\ (forall a, In a l -> exists b, encode_attr a = Ok b)
    /\ (forall a, In a l -> core_code (a_code a) = true -> exists x, to_api v6p a = Ok x).
Print Assumptions api_accepted_is_safe.

(* (9) net_from_api (nlri_to_api n) = n for every well-formed IPv4 / IPv6 unicast,
   labeled-unicast or VPN NLRI, under the stated assumptions on the Ipv6Addr textual form
   (round trip, not an IPv4 string, no '/'). *)
Theorem nlri_roundtrip_core :
  forall (v6p : N -> list N) (v6r : list N -> option N) (n : nlri),
    v6_contract v6p v6r -> v6_noslash v6p -> wf_nlri n ->
    net_from_api v6r (nlri_to_api v6p n) = Some n.
Proof. exact C17_nlri_roundtrip_core. Qed.
Check nlri_roundtrip_core :
  forall (v6p : N -> list N) (v6r : list N -> option N) (n : nlri),
    v6_contract v6p v6r -> v6_noslash v6p -> wf_nlri n ->
    net_from_api v6r (nlri_to_api v6p n) = Some n.
Print Assumptions nlri_roundtrip_core.

(* (10) An NLRI accepted by net_from_api (Prefix / LabeledPrefix / LabeledVPNIPPrefix arms) satisfies what
   the NLRI decoders guarantee: length within the address width, at least one
   20-bit label, total bits within the one-octet length. *)
Theorem net_from_api_preserves_wf :
  forall (v6r : list N -> option N) (x : api_nlri) (n : nlri),
    v6_range v6r -> api_nlri_in_range x -> net_from_api v6r x = Some n -> wf_nlri n.
Proof. exact C17_net_from_api_preserves_wf. Qed.
Check net_from_api_preserves_wf :
  forall (v6r : list N -> option N) (x : api_nlri) (n : nlri),
    v6_range v6r -> api_nlri_in_range x -> net_from_api v6r x = Some n -> wf_nlri n.
Print Assumptions net_from_api_preserves_wf.

(* (11) The NLRI encoders cannot panic on a well-formed NLRI, in a debug or a
   release build (no index past the address octets, no u8 overflow). *)
Theorem nlri_encode_safe :
  forall (p : profile) (n : nlri), wf_nlri n -> exists b, encode_nlri p n = Ok b.
Proof. exact C17_nlri_encode_safe. Qed.
Check nlri_encode_safe :
  forall (p : profile) (n : nlri), wf_nlri n -> exists b, encode_nlri p n = Ok b.
Print Assumptions nlri_encode_safe.

(* (12) A path GrpcService::local_path accepts carries a well-formed NLRI and a list of
   well-formed attributes that includes ORIGIN and AS_PATH (so, by (7), it can be
   inserted next to any well-formed path, encoded and listed). *)
Theorem local_path_accepts_wf :
  forall (v6r : list N -> option N) (fam : option N) (n : api_nlri) (xs : list api_attr)
         (family : N) (net : nlri) (attrs : list attr) (nh : option (list N)),
    v6_range v6r -> api_nlri_in_range n -> Forall api_in_range xs ->
    local_path v6r fam n xs = Some (family, net, attrs, nh) ->
    wf_nlri net /\ Forall wf_attr attrs
    /\ existsb (fun a => a_code a =? ORIGIN) attrs = true
    /\ existsb (fun a => a_code a =? AS_PATH) attrs = true.
Proof. exact C17_local_path_accepts_wf. Qed.
Check local_path_accepts_wf :
  forall (v6r : list N -> option N) (fam : option N) (n : api_nlri) (xs : list api_attr)
         (family : N) (net : nlri) (attrs : list attr) (nh : option (list N)),
    v6_range v6r -> api_nlri_in_range n -> Forall api_in_range xs ->
    local_path v6r fam n xs = Some (family, net, attrs, nh) ->
    wf_nlri net /\ Forall wf_attr attrs
    /\ existsb (fun a => a_code a =? ORIGIN) attrs = true
    /\ existsb (fun a => a_code a =? AS_PATH) attrs = true.
Print Assumptions local_path_accepts_wf.

(* (13) net_from_api (nlri_to_api n) = n for every well-formed EVPN route of the five
   types (RD, ESI, MAC address text, IPv4 / IPv6 address text, one or two labels),
   under the stated assumptions on the Ipv6Addr textual form. *)
Theorem evpn_roundtrip :
  forall (v6p : N -> list N) (v6r : list N -> option N) (e : evpn),
    v6_contract v6p v6r -> v6_nonempty v6p -> wf_evpn e ->
    evpn_from_api v6r (evpn_to_api v6p e) = Some e.
Proof. exact C17_evpn_roundtrip. Qed.
Check evpn_roundtrip :
  forall (v6p : N -> list N) (v6r : list N -> option N) (e : evpn),
    v6_contract v6p v6r -> v6_nonempty v6p -> wf_evpn e ->
    evpn_from_api v6r (evpn_to_api v6p e) = Some e.
Print Assumptions evpn_roundtrip.

(* (14) An EVPN route accepted by net_from_api is one the EVPN decoder can produce:
   24-bit labels, ten-octet ESI, six-octet MAC, prefix length within the prefix's
   address width, gateway of the prefix's family. *)
Theorem evpn_from_api_preserves_wf :
  forall (v6r : list N -> option N) (x : api_evpn) (e : evpn),
    v6_range v6r -> api_evpn_in_range x -> evpn_from_api v6r x = Some e -> wf_evpn e.
Proof. exact C17_evpn_from_api_preserves_wf. Qed.
Check evpn_from_api_preserves_wf :
  forall (v6r : list N -> option N) (x : api_evpn) (e : evpn),
    v6_range v6r -> api_evpn_in_range x -> evpn_from_api v6r x = Some e -> wf_evpn e.
Print Assumptions evpn_from_api_preserves_wf.

(* (15) TUNNEL_ENCAP, PREFIX_SID and the BGP-LS attribute: whatever the typed converters
   do (they are uninterpreted functions here), what the wrapper of attr_to_api shows for a
   well-formed held attribute is turned back by attr_from_api into the same type and bytes
   with the canonical flags; the only thing not covered is a panic inside a converter. *)
Theorem noncore_roundtrip_guarded :
  forall (typed_of_bytes bytes_of_typed : N -> list N -> res (option (list N))) (a : attr) (x : api_nc),
    wf_attr a -> core_code (a_code a) = false ->
    to_api_nc typed_of_bytes bytes_of_typed a = Ok x ->
    from_api_nc bytes_of_typed x = Ok (Some (canon_of a)).
Proof. exact C17_noncore_roundtrip_guarded. Qed.
Check noncore_roundtrip_guarded :
  forall (typed_of_bytes bytes_of_typed : N -> list N -> res (option (list N))) (a : attr) (x : api_nc),
    wf_attr a -> core_code (a_code a) = false ->
    to_api_nc typed_of_bytes bytes_of_typed a = Ok x ->
    from_api_nc bytes_of_typed x = Ok (Some (canon_of a)).
Print Assumptions noncore_roundtrip_guarded.

(* (16) A typed TunnelEncap / PrefixSid / Ls message accepted by attr_from_api yields a
   well-formed attribute (within the attribute length bound), given only that the
   converter returns a byte string. *)
Theorem noncore_typed_from_api_wf :
  forall (bytes_of_typed : N -> list N -> res (option (list N))) (c : N) (t : list N) (a : attr),
    c = TUNNEL_ENCAP \/ c = LS \/ c = PREFIX_SID ->
    (forall b, bytes_of_typed c t = Ok (Some b) -> bytes_ok b) ->
    from_api_nc bytes_of_typed (NcTyped c t) = Ok (Some a) -> wf_attr a.
Proof. exact C17_noncore_typed_from_api_wf. Qed.
Check noncore_typed_from_api_wf :
  forall (bytes_of_typed : N -> list N -> res (option (list N))) (c : N) (t : list N) (a : attr),
    c = TUNNEL_ENCAP \/ c = LS \/ c = PREFIX_SID ->
    (forall b, bytes_of_typed c t = Ok (Some b) -> bytes_ok b) ->
    from_api_nc bytes_of_typed (NcTyped c t) = Ok (Some a) -> wf_attr a.
Print Assumptions noncore_typed_from_api_wf.

(* (17) Flowspec (IPv4 / IPv6, plain and VPN): net_from_api of the API form of a well-formed
   flowspec NLRI gives the NLRI back (prefix components, operator lists with their framing bits,
   route distinguisher). *)
Theorem flowspec_roundtrip :
  forall (v6p : N -> list N) (v6r : list N -> option N) (n : fs_nlri),
    v6_contract v6p v6r -> wf_fs n ->
    fs_from_api v6r (fs_family n) (fs_to_api v6p n) = Some n.
Proof. exact C17_flowspec_roundtrip. Qed.
Check flowspec_roundtrip :
  forall (v6p : N -> list N) (v6r : list N -> option N) (n : fs_nlri),
    v6_contract v6p v6r -> wf_fs n ->
    fs_from_api v6r (fs_family n) (fs_to_api v6p n) = Some n.
Print Assumptions flowspec_roundtrip.

(* (18) A flowspec NLRI accepted from the API is one the flowspec decoder can produce: prefix
   lengths within the address, zero octets beyond them, non-empty operator lists ending in the
   end-of-list bit and free of length bits, at most 4095 octets of components. *)
Theorem flowspec_from_api_preserves_wf :
  forall (v6r : list N -> option N) (family : N) (x : api_fs) (n : fs_nlri),
    v6_range v6r -> api_fs_in_range x -> fs_from_api v6r family x = Some n -> wf_fs n.
Proof. exact C17_flowspec_from_api_preserves_wf. Qed.
Check flowspec_from_api_preserves_wf :
  forall (v6r : list N -> option N) (family : N) (x : api_fs) (n : fs_nlri),
    v6_range v6r -> api_fs_in_range x -> fs_from_api v6r family x = Some n -> wf_fs n.
Print Assumptions flowspec_from_api_preserves_wf.

(* (19) SR Policy NLRI: round trip of every well-formed value, and an accepted message yields a
   well-formed value. *)
Theorem srpolicy_roundtrip_and_wf :
  (forall n, wf_srp n -> srp_from_api (srp_to_api n) = Some n)
  /\ (forall l d c e n, u32_ok d -> u32_ok c -> bytes_ok e -> srp_from_api (ASrP l d c e) = Some n -> wf_srp n).
Proof. exact C17_srpolicy_roundtrip_and_wf. Qed.
Check srpolicy_roundtrip_and_wf :
  (forall n, wf_srp n -> srp_from_api (srp_to_api n) = Some n)
  /\ (forall l d c e n, u32_ok d -> u32_ok c -> bytes_ok e -> srp_from_api (ASrP l d c e) = Some n -> wf_srp n).
Print Assumptions srpolicy_roundtrip_and_wf.

(* (20) Route Target Constraint NLRI outside the class of the open finding C17-rtc (origin AS 0
   with any target; a target that is not type 0/1/2 with sub-type 2): the round trip is the identity. *)
Theorem rtc_roundtrip_outside_known :
  forall n : rtc, wf_rtc n -> ~ Known_C17_rtc n -> rtc_from_api (rtc_to_api n) = Some n.
Proof. exact C17_rtc_roundtrip_outside_known. Qed.
Check rtc_roundtrip_outside_known :
  forall n : rtc, wf_rtc n -> ~ Known_C17_rtc n -> rtc_from_api (rtc_to_api n) = Some n.
Print Assumptions rtc_roundtrip_outside_known.

(* (21) ... and inside that class it is not: the 32-bit form with origin AS 0 comes back as the
   default membership. *)
Theorem rtc_roundtrip_refuted :
  exists n : rtc, wf_rtc n /\ Known_C17_rtc n /\ rtc_from_api (rtc_to_api n) <> Some n.
Proof. exact C17_rtc_roundtrip_refuted. Qed.
Check rtc_roundtrip_refuted :
  exists n : rtc, wf_rtc n /\ Known_C17_rtc n /\ rtc_from_api (rtc_to_api n) <> Some n.
Print Assumptions rtc_roundtrip_refuted.

(* (22) An RTC NLRI accepted from the API is well-formed (eight-octet target). *)
Theorem rtc_from_api_preserves_wf :
  forall (a : N) (rt : option api_rt) (n : rtc), u32_ok a -> rtc_from_api (ARtc a rt) = Some n -> wf_rtc n.
Proof. exact C17_rtc_from_api_preserves_wf. Qed.
Check rtc_from_api_preserves_wf :
  forall (a : N) (rt : option api_rt) (n : rtc), u32_ok a -> rtc_from_api (ARtc a rt) = Some n -> wf_rtc n.
Print Assumptions rtc_from_api_preserves_wf.

(* (23) attr_from_api on a typed PrefixSid or TunnelEncap message always returns: the model has no
   panicking path for any message (missing oneofs, SIDs of any length, fields of any size, any
   number of TLVs); the answer is an attribute or a refusal. *)
Theorem typed_from_api_total :
  (forall x, exists r, from_api_psid x = Ok r) /\ (forall x, exists r, from_api_te x = Ok r).
Proof. exact C17_typed_from_api_total. Qed.
Check typed_from_api_total :
  (forall x, exists r, from_api_psid x = Ok r) /\ (forall x, exists r, from_api_te x = Ok r).
Print Assumptions typed_from_api_total.

(* (24) An accepted PrefixSid message is stored as the encoding of a TLV tree whose fields are all
   within their wire widths (16-octet SIDs, 16-bit behaviour, one-octet structure lengths), in which
   no TLV / sub-TLV length field has wrapped, and whose value fits the attribute length. *)
Theorem prefix_sid_accepted_wf :
  forall x a, api_psid_in_range x -> from_api_psid x = Ok (Some a) ->
    exists p, psid_from_api x = Some p /\ a = mkAttr PREFIX_SID 192 (DBin (psid_encode p)) /\
              wf_psid p /\ ps_fits p /\ len_ok (psid_encode p).
Proof. exact C17_prefix_sid_accepted_wf. Qed.
Check prefix_sid_accepted_wf :
  forall x a, api_psid_in_range x -> from_api_psid x = Ok (Some a) ->
    exists p, psid_from_api x = Some p /\ a = mkAttr PREFIX_SID 192 (DBin (psid_encode p)) /\
              wf_psid p /\ ps_fits p /\ len_ok (psid_encode p).
Print Assumptions prefix_sid_accepted_wf.

(* (25) The typed listing of a well-formed PREFIX_SID tree is accepted again as the same tree. *)
Theorem prefix_sid_roundtrip :
  forall p, wf_psid p -> psid_from_api (psid_to_api p) = Some p.
Proof. exact C17_prefix_sid_roundtrip. Qed.
Check prefix_sid_roundtrip :
  forall p, wf_psid p -> psid_from_api (psid_to_api p) = Some p.
Print Assumptions prefix_sid_roundtrip.

(* (26) An accepted TunnelEncap message is stored as the encoding of tunnel TLVs whose fields are
   all within their wire widths (16-bit tunnel type, one-octet flags / ENLP / priority / structure
   lengths, 20-bit labels, 16-octet SIDs, UTF-8 policy name, each one-per-path sub-TLV once), in
   which no one- or two-octet length field has wrapped, and whose value fits the attribute length. *)
Theorem tunnel_encap_accepted_wf :
  forall x a, api_te_in_range x -> from_api_te x = Ok (Some a) ->
    exists l, te_from_api x = Some l /\ a = mkAttr TUNNEL_ENCAP 192 (DBin (te_encode l)) /\
              wf_te l /\ te_fits l /\ len_ok (te_encode l).
Proof. exact C17_tunnel_encap_accepted_wf. Qed.
Check tunnel_encap_accepted_wf :
  forall x a, api_te_in_range x -> from_api_te x = Ok (Some a) ->
    exists l, te_from_api x = Some l /\ a = mkAttr TUNNEL_ENCAP 192 (DBin (te_encode l)) /\
              wf_te l /\ te_fits l /\ len_ok (te_encode l).
Print Assumptions tunnel_encap_accepted_wf.

(* (27) The typed listing of well-formed tunnel TLVs that the typed message can carry (te_listable:
   only flag bits the message has fields for, a type B behaviour structure under flag 0x40, no raw
   value of another tunnel type) is accepted again as the same TLVs.  Outside te_listable attr_to_api
   lists the raw value (theorem 15 covers that wrapper). *)
Theorem tunnel_encap_roundtrip :
  forall l, wf_te l -> te_listable l -> te_from_api (te_to_api l) = Some l.
Proof. exact C17_tunnel_encap_roundtrip. Qed.
Check tunnel_encap_roundtrip :
  forall l, wf_te l -> te_listable l -> te_from_api (te_to_api l) = Some l.
Print Assumptions tunnel_encap_roundtrip.

(* (28) BGP-MUP NLRI (the four 3GPP-5G route types): listing a well-formed route and adding it again
   gives the same route (address and prefix text, RD, TEID, QFI, endpoint length). *)
Theorem mup_roundtrip :
  forall (v6p : N -> list N) (v6r : list N -> option N) (n : mup),
    v6_contract v6p v6r -> v6_nonempty v6p -> wf_mup n ->
    mup_from_api v6r (mup_to_api v6p n) = Some n.
Proof. exact C17_mup_roundtrip. Qed.
Check mup_roundtrip :
  forall (v6p : N -> list N) (v6r : list N -> option N) (n : mup),
    v6_contract v6p v6r -> v6_nonempty v6p -> wf_mup n ->
    mup_from_api v6r (mup_to_api v6p n) = Some n.
Print Assumptions mup_roundtrip.

(* (29) A MUP route accepted from the API is one the MUP decoder can produce (prefix length within
   the address and no address octets beyond it, one-octet QFI, Type 2 endpoint length within
   [width, width + 32] with no TEID bits beyond it) and its body fits the one-octet length of the
   encoding. *)
Theorem mup_from_api_preserves_wf :
  forall (v6r : list N -> option N) (x : api_mup) (n : mup),
    v6_range v6r -> api_mup_in_range x -> mup_from_api v6r x = Some n ->
    wf_mup n /\ N.of_nat (length (mup_body n)) < 256.
Proof. exact C17_mup_from_api_preserves_wf. Qed.
Check mup_from_api_preserves_wf :
  forall (v6r : list N -> option N) (x : api_mup) (n : mup),
    v6_range v6r -> api_mup_in_range x -> mup_from_api v6r x = Some n ->
    wf_mup n /\ N.of_nat (length (mup_body n)) < 256.
Print Assumptions mup_from_api_preserves_wf.

(* (30) Every MUP route the MUP decoder produces from received octets (whole octets of a prefix and of
   a partial TEID are kept, including bits of the last octet beyond the bit length) satisfies the
   invariant of theorems 28 / 29. *)
Theorem mup_decoded_is_wf :
  forall (v6 : bool) (rt : N) (data : list N) (n : mup),
    bytes_ok data -> mup_decode_body v6 rt data = Some n -> wf_mup n.
Proof. exact C17_mup_decoded_is_wf. Qed.
Check mup_decoded_is_wf :
  forall (v6 : bool) (rt : N) (data : list N) (n : mup),
    bytes_ok data -> mup_decode_body v6 rt data = Some n -> wf_mup n.
Print Assumptions mup_decoded_is_wf.

(* (31) The held-value direction of the round trip: a MUP route decoded from the wire, listed by
   nlri_to_api and given back to net_from_api is accepted as the identical route. *)
Theorem mup_held_roundtrip :
  forall (v6p : N -> list N) (v6r : list N -> option N) (v6 : bool) (rt : N) (data : list N) (n : mup),
    v6_contract v6p v6r -> v6_nonempty v6p -> bytes_ok data ->
    mup_decode_body v6 rt data = Some n -> mup_from_api v6r (mup_to_api v6p n) = Some n.
Proof. exact C17_mup_held_roundtrip. Qed.
Check mup_held_roundtrip :
  forall (v6p : N -> list N) (v6r : list N -> option N) (v6 : bool) (rt : N) (data : list N) (n : mup),
    v6_contract v6p v6r -> v6_nonempty v6p -> bytes_ok data ->
    mup_decode_body v6 rt data = Some n -> mup_from_api v6r (mup_to_api v6p n) = Some n.
Print Assumptions mup_held_roundtrip.
