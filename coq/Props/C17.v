(* C17  What the gRPC API accepts is stored faithfully, shown back unchanged, and
   safe.  Statements only: each theorem is closed by [exact], pinned by [Check]
   and followed by [Print Assumptions]. *)
From Coq Require Import List ZArith NArith Bool.
From RB Require Import Base.Val Model.Api Spec.ApiSpec Proofs.Api.
Import ListNotations.
Open Scope N_scope.

(* attr_from_api returns Ok or Err for every API message, whatever the Ipv6
   parser does: it has no panicking path. *)
Theorem from_api_total :
  forall (v6r : list N -> option N) (x : api_attr) (t : N), from_api v6r x <> Panic t.
Proof. exact C17_from_api_total. Qed.
Check from_api_total :
  forall (v6r : list N -> option N) (x : api_attr) (t : N), from_api v6r x <> Panic t.
Print Assumptions from_api_total.
