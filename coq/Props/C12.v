(* C12  RPKI origin validation is exactly RFC 6811; the VRP table is a set keyed
   by (cache, prefix, max-length, AS).  Statements only. *)
From Coq Require Import List NArith Bool.
From RB Require Import Base.Val Model.Rpki Model.RpkiPre Spec.Rfc6811 Proofs.Rpki.
Import ListNotations.
Open Scope N_scope.

Theorem validate_pre_refuted_covering :
  exists (t : rtab) (n : net) (attrs : list (N * list N)) (res : vres),
    validate_pre t 65000 n attrs = POk (Some res)
    /\ v_state res = NotFound
    /\ rfc6811 (vrps_of (sel (n_fam n) t)) (route_of n (Some 65001)) = SValid.
Proof. exact C12_validate_pre_refuted_covering. Qed.
Check validate_pre_refuted_covering :
  exists (t : rtab) (n : net) (attrs : list (N * list N)) (res : vres),
    validate_pre t 65000 n attrs = POk (Some res)
    /\ v_state res = NotFound
    /\ rfc6811 (vrps_of (sel (n_fam n) t)) (route_of n (Some 65001)) = SValid.
Print Assumptions validate_pre_refuted_covering.
