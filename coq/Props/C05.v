(* C05  A malformed UPDATE never installs a route; the session resets only if it must.
   Statements only: each theorem is closed by [exact], pinned by [Check] and
   followed by [Print Assumptions].

   Full statements quantify over byte strings: "for every UPDATE frame b and codec,
   if Spec/Rfc7606.v judge says must_withdraw then ...".  What is proved (_partial)
   quantifies over every parsed UPDATE value (so over every byte string that
   parses) and takes as "faulty" the error list the parser itself produced
   (error_attrs with a non-discardable entry, or a mandatory attribute absent from
   attrs / the reach next hop).  That the parser's error list is non-discardable
   whenever the independent RFC 7606 classifier of Spec/Rfc7606.v calls the
   UPDATE faulty is not proved: it is checked on every run by evaluating [judge]
   in Coq on each generated frame and judging the implementation's messages
   against it (gen/c05.py oracle). *)
From Coq Require Import List NArith Bool.
From RB Require Import Base.Val Base.Bytes Model.Wire Model.WireNlri Model.WireUpdate Model.WireMsg
     Spec.Rfc7606 Model.Validate Proofs.Validate.
Import ListNotations.
Open Scope N_scope.

(* (1) A faulty UPDATE yields no announcement, and every prefix it announced (legacy NLRI and MP_REACH) is delivered as a withdrawal. *)
Theorem bad_update_installs_nothing_partial : forall reach mp_reach unreach mp_unreach attrs errs (e : bool), existsb err_fatal errs = true \/ mandatory_missing reach mp_reach attrs = true ->
  let out := validate_update (URoutes reach mp_reach unreach mp_unreach attrs errs) e in
  (forall m, In m out -> is_reach m = false) /\
  (forall f en nh, In (f, en, nh) (opt_list reach ++ opt_list mp_reach) -> In (VUnreach f en) out).
Proof. exact C05_bad_update_installs_nothing. Qed.
Check bad_update_installs_nothing_partial : forall reach mp_reach unreach mp_unreach attrs errs (e : bool), existsb err_fatal errs = true \/ mandatory_missing reach mp_reach attrs = true ->
  let out := validate_update (URoutes reach mp_reach unreach mp_unreach attrs errs) e in
  (forall m, In m out -> is_reach m = false) /\
  (forall f en nh, In (f, en, nh) (opt_list reach ++ opt_list mp_reach) -> In (VUnreach f en) out).
Print Assumptions bad_update_installs_nothing_partial.

(* (1b) RIB effect: whatever the Adj-RIB-In held, after the messages of a faulty UPDATE are applied none of the prefixes it announced is present. *)
Theorem bad_update_leaves_no_route_partial : forall reach mp_reach unreach mp_unreach attrs errs (e : bool), forall r : rib, existsb err_fatal errs = true \/ mandatory_missing reach mp_reach attrs = true ->
  forall f en nh x, In (f, en, nh) (opt_list reach ++ opt_list mp_reach) -> In x en ->
  has_key (apply_all r (validate_update (URoutes reach mp_reach unreach mp_unreach attrs errs) e)) (f, fst x, snd x) = false.
Proof. exact (fun reach mp_reach unreach mp_unreach attrs errs e r => C05_bad_update_leaves_no_route reach mp_reach unreach mp_unreach attrs errs e r). Qed.
Check bad_update_leaves_no_route_partial : forall reach mp_reach unreach mp_unreach attrs errs (e : bool), forall r : rib, existsb err_fatal errs = true \/ mandatory_missing reach mp_reach attrs = true ->
  forall f en nh x, In (f, en, nh) (opt_list reach ++ opt_list mp_reach) -> In x en ->
  has_key (apply_all r (validate_update (URoutes reach mp_reach unreach mp_unreach attrs errs) e)) (f, fst x, snd x) = false.
Print Assumptions bad_update_leaves_no_route_partial.

(* (2) Withdrawals carried by the UPDATE (legacy and MP_UNREACH) are delivered whatever is wrong with its attributes. *)
Theorem withdrawals_survive_errors : forall reach mp_reach unreach mp_unreach attrs errs (e : bool), forall f en, In (f, en) (opt_list unreach ++ opt_list mp_unreach) ->
  In (VUnreach f en) (validate_update (URoutes reach mp_reach unreach mp_unreach attrs errs) e).
Proof. exact C05_withdrawals_survive_errors. Qed.
Check withdrawals_survive_errors : forall reach mp_reach unreach mp_unreach attrs errs (e : bool), forall f en, In (f, en) (opt_list unreach ++ opt_list mp_unreach) ->
  In (VUnreach f en) (validate_update (URoutes reach mp_reach unreach mp_unreach attrs errs) e).
Print Assumptions withdrawals_survive_errors.

(* (4) With is_ebgp computed from the role as run_select does (as repaired: Ebgp or RsClient), LOCAL_PREF, ORIGINATOR_ID and CLUSTER_LIST of an external peer never reach an announcement. *)
Theorem ibgp_only_attrs_dropped_from_external : forall (u : pupdate) (role : prole), external role = true ->
  forall f en nh attrs a, In (VReach f en nh attrs) (validate_update u (is_ebgp_of_role role)) -> In a attrs ->
  a_code a <> 5 /\ a_code a <> 9 /\ a_code a <> 10.
Proof. exact C05_ibgp_only_attrs_dropped_from_external. Qed.
Check ibgp_only_attrs_dropped_from_external : forall (u : pupdate) (role : prole), external role = true ->
  forall f en nh attrs a, In (VReach f en nh attrs) (validate_update u (is_ebgp_of_role role)) -> In a attrs ->
  a_code a <> 5 /\ a_code a <> 9 /\ a_code a <> 10.
Print Assumptions ibgp_only_attrs_dropped_from_external.
