(* C05  A malformed UPDATE never installs a route; the session resets only if it must.
   Statements only: each theorem is closed by [exact], pinned by [Check] and
   followed by [Print Assumptions].

   The statements are over raw bytes: [frame] is any byte string handed to
   PeerCodec::parse_message as one frame, [cd] any session codec, [p] the build
   profile; "faulty" and "locatable" are the verdict of the independent RFC 7606
   classifier Spec/Rfc7606.v [judge] on those bytes (its own attribute walk, flag,
   length and value rules, mandatory-attribute rule, MP-attribute structure), not
   anything the parser computed.  The link is Proofs/Rfc7606.v: the attribute walk of
   the parser model is a fold of one-attribute steps over the Spec's TLV scan, every
   TLV the Spec calls bad beyond discarding leaves a fatal entry in error_attrs, a
   missing mandatory attribute is seen by the parser or by validate_update, and every
   parse failure of the UPDATE arm is one of the Spec's "cannot locate the NLRI" cases.

   Scope: every NLRI family the crate can negotiate is modelled since round 3
   (IPv4/IPv6 unicast and multicast, labeled unicast, VPN, EVPN, RTC, SR policy, MUP,
   flowspec and flowspec-VPN, BGP-LS), so a malformed attribute next to NLRI of any of
   them, and NLRI of any of them that cannot be parsed, are covered; [no_other] is the
   decoder argument for families outside that list and is never reached
   (Proofs/WireMsg.v try_parse_other: try_parse does not depend on it).  Value syntax of
   AIGP, PREFIX_SID, BGP-LS attribute and TUNNEL_ENCAP is not judged (the receive path
   keeps them as bytes). *)
From Coq Require Import List NArith Bool.
From RB Require Import Base.Val Base.Bytes Model.Wire Model.WireNlri Model.WireUpdate Model.WireMsg
     Spec.Rfc7606 Model.Validate Proofs.Validate Proofs.Rfc7606.
Import ListNotations.
Open Scope N_scope.

(* (1) An UPDATE frame with an attribute that is malformed, wrongly flagged or an unrecognised well-known one (and not of a kind that may be discarded), or lacking a mandatory attribute, yields no announcement whatever is_ebgp is, and every prefix the frame announces (legacy NLRI and MP_REACH_NLRI) is delivered as a withdrawal. *)
Theorem bad_update_installs_nothing : forall (p : profile) (cd : codec) (frame : list N) (u : pupdate) (e : bool), parse_message no_other p cd frame = Ok (PUpdate u) ->
  v_must_withdraw (judge cd frame) = true ->
  let out := validate_update u e in
  (forall m, In m out -> is_reach m = false) /\
  (forall k, In k (v_announced (judge cd frame)) ->
     exists f en x, In (VUnreach f en) out /\ In x en /\ k = (f, fst x, snd x)).
Proof. exact C05_bad_update_installs_nothing_bytes. Qed.
Check bad_update_installs_nothing : forall (p : profile) (cd : codec) (frame : list N) (u : pupdate) (e : bool), parse_message no_other p cd frame = Ok (PUpdate u) ->
  v_must_withdraw (judge cd frame) = true ->
  let out := validate_update u e in
  (forall m, In m out -> is_reach m = false) /\
  (forall k, In k (v_announced (judge cd frame)) ->
     exists f en x, In (VUnreach f en) out /\ In x en /\ k = (f, fst x, snd x)).
Print Assumptions bad_update_installs_nothing.

(* (1b) RIB effect: whatever the Adj-RIB-In held, after the messages of such a frame are applied none of the prefixes it announces is present. *)
Theorem bad_update_leaves_no_route : forall (p : profile) (cd : codec) (frame : list N) (u : pupdate) (e : bool), forall r : rib, parse_message no_other p cd frame = Ok (PUpdate u) ->
  v_must_withdraw (judge cd frame) = true ->
  forall k, In k (v_announced (judge cd frame)) -> has_key (apply_all r (validate_update u e)) k = false.
Proof. exact (fun p cd frame u e r => C05_bad_update_leaves_no_route_bytes p cd frame u e r). Qed.
Check bad_update_leaves_no_route : forall (p : profile) (cd : codec) (frame : list N) (u : pupdate) (e : bool), forall r : rib, parse_message no_other p cd frame = Ok (PUpdate u) ->
  v_must_withdraw (judge cd frame) = true ->
  forall k, In k (v_announced (judge cd frame)) -> has_key (apply_all r (validate_update u e)) k = false.
Print Assumptions bad_update_leaves_no_route.

(* (2) Every withdrawal carried by the frame (withdrawn routes field and MP_UNREACH_NLRI) is delivered, whatever is wrong with its attributes. *)
Theorem withdrawals_survive_errors : forall (p : profile) (cd : codec) (frame : list N) (u : pupdate) (e : bool), parse_message no_other p cd frame = Ok (PUpdate u) ->
  forall k, In k (v_withdrawn (judge cd frame)) ->
  exists f en x, In (VUnreach f en) (validate_update u e) /\ In x en /\ k = (f, fst x, snd x).
Proof. exact C05_withdrawals_survive_bytes. Qed.
Check withdrawals_survive_errors : forall (p : profile) (cd : codec) (frame : list N) (u : pupdate) (e : bool), parse_message no_other p cd frame = Ok (PUpdate u) ->
  forall k, In k (v_withdrawn (judge cd frame)) ->
  exists f en x, In (VUnreach f en) (validate_update u e) /\ In x en /\ k = (f, fst x, snd x).
Print Assumptions withdrawals_survive_errors.

(* (3) An UPDATE frame is answered with a session-reset NOTIFICATION only when the Spec cannot locate or parse its NLRI (length fields beyond the frame, MP_REACH_NLRI/MP_UNREACH_NLRI twice or structurally broken, family not negotiated, NLRI syntax).  Validation adds no reset: validate_update is a total function into message lists. *)
Theorem reset_only_if_nlri_unlocatable : forall (p : profile) (cd : codec) (frame : list N) (e : notif),
  nth_error frame 18 = Some 2 -> parse_message no_other p cd frame = Fail e ->
  v_locatable (judge cd frame) = false.
Proof. exact C05_reset_only_if_nlri_unlocatable. Qed.
Check reset_only_if_nlri_unlocatable : forall (p : profile) (cd : codec) (frame : list N) (e : notif),
  nth_error frame 18 = Some 2 -> parse_message no_other p cd frame = Fail e ->
  v_locatable (judge cd frame) = false.
Print Assumptions reset_only_if_nlri_unlocatable.

(* (3b) Conversely a frame that parses is locatable, and the prefixes it announces / withdraws according to the Spec are exactly those of the parsed UPDATE. *)
Theorem parsed_update_is_locatable : forall (p : profile) (cd : codec) (frame : list N) (u : pupdate),
  parse_message no_other p cd frame = Ok (PUpdate u) ->
  v_locatable (judge cd frame) = true /\ v_announced (judge cd frame) = announced_of u /\
  v_withdrawn (judge cd frame) = withdrawn_of u.
Proof. exact C05_parsed_update_is_locatable. Qed.
Check parsed_update_is_locatable : forall (p : profile) (cd : codec) (frame : list N) (u : pupdate),
  parse_message no_other p cd frame = Ok (PUpdate u) ->
  v_locatable (judge cd frame) = true /\ v_announced (judge cd frame) = announced_of u /\
  v_withdrawn (judge cd frame) = withdrawn_of u.
Print Assumptions parsed_update_is_locatable.

(* (4) With is_ebgp computed from the role as run_select does (Ebgp or RsClient), LOCAL_PREF, ORIGINATOR_ID and CLUSTER_LIST of an external peer never reach an announcement. *)
Theorem ibgp_only_attrs_dropped_from_external : forall (u : pupdate) (role : prole), external role = true ->
  forall f en nh attrs a, In (VReach f en nh attrs) (validate_update u (is_ebgp_of_role role)) -> In a attrs ->
  a_code a <> 5 /\ a_code a <> 9 /\ a_code a <> 10.
Proof. exact C05_ibgp_only_attrs_dropped_from_external. Qed.
Check ibgp_only_attrs_dropped_from_external : forall (u : pupdate) (role : prole), external role = true ->
  forall f en nh attrs a, In (VReach f en nh attrs) (validate_update u (is_ebgp_of_role role)) -> In a attrs ->
  a_code a <> 5 /\ a_code a <> 9 /\ a_code a <> 10.
Print Assumptions ibgp_only_attrs_dropped_from_external.
