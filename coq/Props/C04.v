(* C04 (placeholder while the model is being tied to the code) *)
From RB Require Import Model.WireEnc.
