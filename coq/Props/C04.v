(* C04  Encoded BGP messages are well-framed and decode to the same routes at the
   peer.  Statements only: each theorem is closed by [exact], pinned by [Check]
   and followed by [Print Assumptions].  The encoder model is Model/WireEnc.v
   (PeerCodec::encode_to and what it calls, after the five `fix:` commits listed
   in known_findings.json); the reader is Spec/WireRead.v (written from the
   RFCs, not from the Rust parser). *)
From Coq Require Import List NArith Bool.
From RB Require Import Base.Val Model.Caps Model.WireEnc Spec.WireRead Spec.WireEncSpec Proofs.WireEnc.
Import ListNotations.
Open Scope N_scope.

(* (1) Whatever the message, the capability sets and the build profile: every frame
   encode_to emits is a complete message of at least 19 octets and at most the
   negotiated maximum (4096, or 65535 with RFC 8654 on both sides). *)
Theorem frames_within_limit :
  forall (p : profile) (c : codec) (m : msg) (frames : list (list N)),
    encode_to p c m = Ok frames ->
    Forall (fun fr => 19 <= blen fr /\ blen fr <= max_len c) frames.
Proof. exact C04_frames_within_limit. Qed.
Check frames_within_limit :
  forall (p : profile) (c : codec) (m : msg) (frames : list (list N)),
    encode_to p c m = Ok frames ->
    Forall (fun fr => 19 <= blen fr /\ blen fr <= max_len c) frames.
Print Assumptions frames_within_limit.

(* (3) A Reach of plain prefixes (IPv4 / IPv6 unicast and multicast NLRI), with any
   attribute list, on any session: the frames split the entry list into consecutive
   chunks (nothing dropped, duplicated or reordered), and from every frame the
   structural reader recovers the family, the attributes exactly as the sender wrote
   them (the same list [ws] in every frame: the message's attributes, or their RFC 6793
   two-octet form), the next hop, and exactly the prefixes of its chunk with their
   path identifiers (0 when ADD-PATH is not negotiated). *)
Theorem decode_encode_routes :
  forall (p : profile) (c : codec) (f : N) (nh : option (list N)) (attrs : list attr)
         (es : list pnlri) (frames : list (list N)),
    encode_to p c (MReach f nh attrs es) = Ok frames ->
    Forall attr_wf attrs -> code_not 3 attrs -> code_not 14 attrs -> fam_ok f ->
    match nh with Some b => blen b < 248 | None => True end ->
    Forall (plain (maxbits_of f)) es ->
    exists ws chunks,
      wire_attrs (two_byte c) attrs = Ok ws /\
      concat chunks = es /\
      Forall2 (reach_frame_ok c f nh ws (es <> [])) frames chunks.
Proof. exact C04_decode_encode_routes. Qed.
Check decode_encode_routes :
  forall (p : profile) (c : codec) (f : N) (nh : option (list N)) (attrs : list attr)
         (es : list pnlri) (frames : list (list N)),
    encode_to p c (MReach f nh attrs es) = Ok frames ->
    Forall attr_wf attrs -> code_not 3 attrs -> code_not 14 attrs -> fam_ok f ->
    match nh with Some b => blen b < 248 | None => True end ->
    Forall (plain (maxbits_of f)) es ->
    exists ws chunks,
      wire_attrs (two_byte c) attrs = Ok ws /\
      concat chunks = es /\
      Forall2 (reach_frame_ok c f nh ws (es <> [])) frames chunks.
Print Assumptions decode_encode_routes.
