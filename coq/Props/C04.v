(* C04  Encoded BGP messages are well-framed and decode to the same routes at the
   peer.  Statements only: each theorem is closed by [exact], pinned by [Check]
   and followed by [Print Assumptions].  The encoder model is Model/WireEnc.v
   (PeerCodec::encode_to and what it calls, after the five `fix:` commits listed
   in known_findings.json); the reader is Spec/WireRead.v (written from the
   RFCs, not from the Rust parser). *)
From Coq Require Import List NArith Bool.
From RB Require Import Base.Val Model.Caps Model.WireEnc Spec.WireRead Spec.WireEncSpec Spec.WireReadFam Spec.WireFamSpec
     Proofs.WireEnc Proofs.WireEncFam Proofs.WireEncFix Proofs.WireEncSound.
Import ListNotations.
Open Scope N_scope.

(* (1) Whatever the message, the capability sets and the build profile: every frame
   encode_to emits is a complete message of at least 19 octets and at most the
   negotiated maximum (4096, or 65535 with RFC 8654 on both sides). *)
Theorem frames_within_limit :
  forall (p : profile) (c : codec) (m : msg) (frames : list (list N)),
    encode_to p c m = Ok frames ->
    Forall (fun fr => 19 <= blen fr /\ blen fr <= max_len c) frames.
Proof. exact C04_frames_within_limit. Qed.
Check frames_within_limit :
  forall (p : profile) (c : codec) (m : msg) (frames : list (list N)),
    encode_to p c m = Ok frames ->
    Forall (fun fr => 19 <= blen fr /\ blen fr <= max_len c) frames.
Print Assumptions frames_within_limit.

(* (2) The header of every emitted frame is consistent: all-ones marker, a length field equal
   to the length of the frame, the type of the message.  (The inner lengths -- withdrawn
   routes, total path attributes, each attribute TLV, MP_REACH / MP_UNREACH, OPEN optional
   parameters and capabilities -- are what the reader needs to succeed in (3)-(8).) *)
Theorem frame_lengths_consistent :
  forall (p : profile) (c : codec) (m : msg) (frames : list (list N)),
    encode_to p c m = Ok frames ->
    Forall (fun fr => exists body, read_frame (max_len c) fr = Some (msg_type m, body)) frames.
Proof. exact C04_frame_lengths_consistent. Qed.
Check frame_lengths_consistent :
  forall (p : profile) (c : codec) (m : msg) (frames : list (list N)),
    encode_to p c m = Ok frames ->
    Forall (fun fr => exists body, read_frame (max_len c) fr = Some (msg_type m, body)) frames.
Print Assumptions frame_lengths_consistent.

(* (3) A Reach of plain prefixes (IPv4 / IPv6 unicast and multicast NLRI), with any
   attribute list, on any session: the frames split the entry list into consecutive
   chunks (nothing dropped, duplicated or reordered), and from every frame the
   structural reader recovers the family, the attributes exactly as the sender wrote
   them (the same list [ws] in every frame: the message's attributes, or their RFC 6793
   two-octet form), the next hop, and exactly the prefixes of its chunk with their
   path identifiers (0 when ADD-PATH is not negotiated). *)
Theorem decode_encode_routes :
  forall (p : profile) (c : codec) (f : N) (nh : option (list N)) (attrs : list attr)
         (es : list pnlri) (frames : list (list N)),
    encode_to p c (MReach f nh attrs es) = Ok frames ->
    Forall attr_wf attrs -> code_not 3 attrs -> code_not 14 attrs -> fam_ok f ->
    match nh with Some b => blen b < 248 | None => True end ->
    Forall (plain (maxbits_of f)) es ->
    exists ws chunks,
      wire_attrs (two_byte c) attrs = Ok ws /\
      concat chunks = es /\
      Forall2 (reach_frame_ok c f nh ws (es <> [])) frames chunks.
Proof. exact C04_decode_encode_routes. Qed.
Check decode_encode_routes :
  forall (p : profile) (c : codec) (f : N) (nh : option (list N)) (attrs : list attr)
         (es : list pnlri) (frames : list (list N)),
    encode_to p c (MReach f nh attrs es) = Ok frames ->
    Forall attr_wf attrs -> code_not 3 attrs -> code_not 14 attrs -> fam_ok f ->
    match nh with Some b => blen b < 248 | None => True end ->
    Forall (plain (maxbits_of f)) es ->
    exists ws chunks,
      wire_attrs (two_byte c) attrs = Ok ws /\
      concat chunks = es /\
      Forall2 (reach_frame_ok c f nh ws (es <> [])) frames chunks.
Print Assumptions decode_encode_routes.

(* (4) A withdrawal of plain prefixes: the frames split the entry list into consecutive
   chunks and from every frame the reader recovers the family and exactly the withdrawn
   prefixes of its chunk.  Together with (3): splitting a large update neither drops,
   duplicates nor reorders a prefix. *)
Theorem split_preserves_multiset :
  forall (p : profile) (c : codec) (f : N) (es : list pnlri) (frames : list (list N)),
    encode_to p c (MUnreach f es) = Ok frames ->
    fam_ok f -> Forall (plain (maxbits_of f)) es ->
    exists chunks, concat chunks = es /\ Forall2 (unreach_frame_ok c f) frames chunks.
Proof. exact C04_split_preserves_multiset. Qed.
Check split_preserves_multiset :
  forall (p : profile) (c : codec) (f : N) (es : list pnlri) (frames : list (list N)),
    encode_to p c (MUnreach f es) = Ok frames ->
    fam_ok f -> Forall (plain (maxbits_of f)) es ->
    exists chunks, concat chunks = es /\ Forall2 (unreach_frame_ok c f) frames chunks.
Print Assumptions split_preserves_multiset.

(* (5) The same split property for NLRI of ANY family (labeled, VPN, and the families whose
   NLRI enter the model as their wire bytes): every frame of a Reach is readable, carries the
   family, the attributes as written, the expected next hop, and its NLRI field is exactly the
   concatenation of the encodings of the entries of its chunk; the chunks concatenate to the
   entry list. *)
Theorem reach_frames_all_families :
  forall (p : profile) (c : codec) (f : N) (nh : option (list N)) (attrs : list attr)
         (es : list pnlri) (frames : list (list N)),
    encode_to p c (MReach f nh attrs es) = Ok frames ->
    Forall attr_wf attrs -> code_not 3 attrs -> code_not 14 attrs -> fam_ok f ->
    match nh with Some b => blen b < 248 | None => True end ->
    exists ws chunks,
      wire_attrs (two_byte c) attrs = Ok ws /\
      concat chunks = es /\
      Forall2 (reach_frame_bytes p c f nh ws (es <> [])) frames chunks.
Proof. exact C04_reach_frames. Qed.
Check reach_frames_all_families :
  forall (p : profile) (c : codec) (f : N) (nh : option (list N)) (attrs : list attr)
         (es : list pnlri) (frames : list (list N)),
    encode_to p c (MReach f nh attrs es) = Ok frames ->
    Forall attr_wf attrs -> code_not 3 attrs -> code_not 14 attrs -> fam_ok f ->
    match nh with Some b => blen b < 248 | None => True end ->
    exists ws chunks,
      wire_attrs (two_byte c) attrs = Ok ws /\
      concat chunks = es /\
      Forall2 (reach_frame_bytes p c f nh ws (es <> [])) frames chunks.
Print Assumptions reach_frames_all_families.

(* (6) ... and of an Unreach. *)
Theorem unreach_frames_all_families :
  forall (p : profile) (c : codec) (f : N) (es : list pnlri) (frames : list (list N)),
    encode_to p c (MUnreach f es) = Ok frames -> fam_ok f ->
    exists chunks, concat chunks = es /\ Forall2 (unreach_frame_bytes p c f) frames chunks.
Proof. exact C04_unreach_frames. Qed.
Check unreach_frames_all_families :
  forall (p : profile) (c : codec) (f : N) (es : list pnlri) (frames : list (list N)),
    encode_to p c (MUnreach f es) = Ok frames -> fam_ok f ->
    exists chunks, concat chunks = es /\ Forall2 (unreach_frame_bytes p c f) frames chunks.
Print Assumptions unreach_frames_all_families.

(* (7) An OPEN with any capability list that encode_to accepts is one frame from which the
   reader recovers version 4, the AS field (AS_TRANS for a four-octet AS number), the hold
   time, the identifier and the capabilities, in order, as <code, value>; the optional
   parameter and capability lengths tile the message exactly. *)
Theorem open_roundtrip :
  forall (p : profile) (c : codec) (asn hold rid : N) (caps : list cap) (frames : list (list N)),
    encode_to p c (MOpen asn hold rid caps) = Ok frames ->
    asn < 4294967296 -> hold < 65536 -> rid < 4294967296 -> Forall cap_wf caps ->
    exists fr, frames = [fr] /\ open_ok (max_len c) asn hold rid caps fr.
Proof. exact C04_open_roundtrip. Qed.
Check open_roundtrip :
  forall (p : profile) (c : codec) (asn hold rid : N) (caps : list cap) (frames : list (list N)),
    encode_to p c (MOpen asn hold rid caps) = Ok frames ->
    asn < 4294967296 -> hold < 65536 -> rid < 4294967296 -> Forall cap_wf caps ->
    exists fr, frames = [fr] /\ open_ok (max_len c) asn hold rid caps fr.
Print Assumptions open_roundtrip.

(* (8) An End-of-RIB is one UPDATE with consistent inner lengths that carries nothing (IPv4) or
   exactly an empty MP_UNREACH_NLRI of its family (RFC 4724 2). *)
Theorem eor_frame :
  forall (p : profile) (c : codec) (f : N) (frames : list (list N)),
    encode_to p c (MEor f) = Ok frames -> fam_ok f ->
    exists fr body u,
      frames = [fr] /\ read_frame (max_len c) fr = Some (2, body) /\ read_update body = Some u /\
      u_withdrawn u = [] /\ u_nlri u = [] /\
      (if f =? F_IPV4 then u_attrs u = []
       else exists t, u_attrs u = [t] /\ is_code 15 t = true /\ read_mp_unreach (snd t) = Some (f, [])).
Proof. exact C04_eor_frame. Qed.
Check eor_frame :
  forall (p : profile) (c : codec) (f : N) (frames : list (list N)),
    encode_to p c (MEor f) = Ok frames -> fam_ok f ->
    exists fr body u,
      frames = [fr] /\ read_frame (max_len c) fr = Some (2, body) /\ read_update body = Some u /\
      u_withdrawn u = [] /\ u_nlri u = [] /\
      (if f =? F_IPV4 then u_attrs u = []
       else exists t, u_attrs u = [t] /\ is_code 15 t = true /\ read_mp_unreach (snd t) = Some (f, [])).
Print Assumptions eor_frame.

(* (9) "Decoding with the peer's negotiated codec": the codec negotiated from the same two
   capability lists in the opposite order has the same maximum message size, the same AS
   number width, the same families and RFC 8950 switch, and expects path identifiers exactly
   for the families for which this side sends them -- the parameters the reader is given in
   (3)-(8) are the peer's. *)
Theorem peer_codec_agrees :
  forall (l r : list cap) (f : N),
    max_len (negotiate l r) = max_len (negotiate r l) /\
    two_byte (negotiate l r) = two_byte (negotiate r l) /\
    negotiated (negotiate l r) f = negotiated (negotiate r l) f /\
    addpath_for (negotiate l r) f = addpath_rx_for (negotiate r l) f /\
    ext_nh (negotiate l r) = ext_nh (negotiate r l).
Proof. exact C04_peer_codec_agrees. Qed.
Check peer_codec_agrees :
  forall (l r : list cap) (f : N),
    max_len (negotiate l r) = max_len (negotiate r l) /\
    two_byte (negotiate l r) = two_byte (negotiate r l) /\
    negotiated (negotiate l r) f = negotiated (negotiate r l) f /\
    addpath_for (negotiate l r) f = addpath_rx_for (negotiate r l) f /\
    ext_nh (negotiate l r) = ext_nh (negotiate r l).
Print Assumptions peer_codec_agrees.

(* (10) The documented canonicalisation on a two-octet-AS session (RFC 6793): what is written for
   an AS_PATH is the down-converted path plus, only when an AS number needs four octets, an
   AS4_PATH with the non-confederation segments; the RFC 6793 4.2.3 reconstruction returns that
   AS4_PATH, which is the original path when it has no confederation segment; without wide AS
   numbers the down-converted path is the original. *)
Theorem as4_path_roundtrip :
  forall (a : attr) (b : list N) (w : list attr),
    a_code a = 2 -> a_binary a = Some b -> attrs_2byte a = Ok w ->
    exists segs,
      segs_of b = Ok segs /\
      (existsb seg_wide segs = false ->
         w = [mk_bin 2 (flat_map enc_seg2 segs)] /\ map seg_down segs = segs) /\
      (existsb seg_wide segs = true -> filter not_confed segs = [] ->
         w = [mk_bin 2 (flat_map enc_seg2 segs)]) /\
      (existsb seg_wide segs = true -> filter not_confed segs <> [] ->
         w = [mk_bin 2 (flat_map enc_seg2 segs); mk_bin 17 (flat_map enc_seg4 (filter not_confed segs))] /\
         as4_reconcile (map seg_down segs) (filter not_confed segs) = filter not_confed segs /\
         (forallb not_confed segs = true -> as4_reconcile (map seg_down segs) (filter not_confed segs) = segs)).
Proof. exact C04_as4_path_roundtrip. Qed.
Check as4_path_roundtrip :
  forall (a : attr) (b : list N) (w : list attr),
    a_code a = 2 -> a_binary a = Some b -> attrs_2byte a = Ok w ->
    exists segs,
      segs_of b = Ok segs /\
      (existsb seg_wide segs = false ->
         w = [mk_bin 2 (flat_map enc_seg2 segs)] /\ map seg_down segs = segs) /\
      (existsb seg_wide segs = true -> filter not_confed segs = [] ->
         w = [mk_bin 2 (flat_map enc_seg2 segs)]) /\
      (existsb seg_wide segs = true -> filter not_confed segs <> [] ->
         w = [mk_bin 2 (flat_map enc_seg2 segs); mk_bin 17 (flat_map enc_seg4 (filter not_confed segs))] /\
         as4_reconcile (map seg_down segs) (filter not_confed segs) = filter not_confed segs /\
         (forallb not_confed segs = true -> as4_reconcile (map seg_down segs) (filter not_confed segs) = segs)).
Print Assumptions as4_path_roundtrip.

(* (11) The encoder does not escape through its error result: a withdrawal whose entries encode
   (no panic) to at most 4000 octets each is always encoded, on every session and in both build
   profiles -- so by (4)/(6) none of its prefixes is dropped. *)
Theorem unreach_never_refused :
  forall (p : profile) (c : codec) (f : N) (es : list pnlri),
    Forall (fun e => exists b, enc_pnlri p (addpath_for c f) true e = Ok b /\ len b <= 4000) es ->
    exists frames, encode_to p c (MUnreach f es) = Ok frames.
Proof. exact C04_unreach_never_refused. Qed.
Check unreach_never_refused :
  forall (p : profile) (c : codec) (f : N) (es : list pnlri),
    Forall (fun e => exists b, enc_pnlri p (addpath_for c f) true e = Ok b /\ len b <= 4000) es ->
    exists frames, encode_to p c (MUnreach f es) = Ok frames.
Print Assumptions unreach_never_refused.

(* (12) ... and an announcement whose attributes encode and leave 1300 octets of the negotiated
   maximum, with a next hop of fewer than 40 octets and entries that encode to at most 1000
   octets each, is always encoded: with (3)/(5), none of its prefixes is dropped.  (The code
   before the fix: commit returned Ok with every prefix missing when nothing fitted.) *)
Theorem reach_never_refused :
  forall (p : profile) (c : codec) (f : N) (nh : option (list N)) (attrs : list attr) (es : list pnlri) (ab : list N) (acc : N),
    enc_attrs (two_byte c) 0 attrs = Ok (ab, acc) -> len ab + 1300 <= max_len c ->
    match nh with Some b => blen b < 40 | None => True end ->
    Forall (fun e => exists b, enc_pnlri p (addpath_for c f) false e = Ok b /\ len b <= 1000) es ->
    exists frames, encode_to p c (MReach f nh attrs es) = Ok frames.
Proof. exact C04_reach_never_refused. Qed.
Check reach_never_refused :
  forall (p : profile) (c : codec) (f : N) (nh : option (list N)) (attrs : list attr) (es : list pnlri) (ab : list N) (acc : N),
    enc_attrs (two_byte c) 0 attrs = Ok (ab, acc) -> len ab + 1300 <= max_len c ->
    match nh with Some b => blen b < 40 | None => True end ->
    Forall (fun e => exists b, enc_pnlri p (addpath_for c f) false e = Ok b /\ len b <= 1000) es ->
    exists frames, encode_to p c (MReach f nh attrs es) = Ok frames.
Print Assumptions reach_never_refused.

(* (13) The same as (3) for labeled-unicast (RFC 8277) and VPN (RFC 4364) entries with any label
   stack whose NLRI length fits its octet (24 * labels (+ 64) + prefix bits < 256): from every
   frame the reader recovers exactly the entries of its chunk -- path identifier, label
   stack, route distinguisher, prefix. *)
Theorem decode_encode_routes_labeled :
  forall (p : profile) (c : codec) (f : N) (vpn : bool) (nh : option (list N)) (attrs : list attr)
         (es : list pnlri) (frames : list (list N)),
    encode_to p c (MReach f nh attrs es) = Ok frames ->
    Forall attr_wf attrs -> code_not 3 attrs -> code_not 14 attrs -> fam_ok f ->
    match nh with Some b => blen b < 248 | None => True end ->
    Forall (labeled vpn (maxbits_of f)) es ->
    exists ws chunks,
      wire_attrs (two_byte c) attrs = Ok ws /\
      concat chunks = es /\
      Forall2 (reach_frame_labeled_ok c f vpn nh ws (es <> [])) frames chunks.
Proof. exact C04_decode_encode_routes_labeled. Qed.
Check decode_encode_routes_labeled :
  forall (p : profile) (c : codec) (f : N) (vpn : bool) (nh : option (list N)) (attrs : list attr)
         (es : list pnlri) (frames : list (list N)),
    encode_to p c (MReach f nh attrs es) = Ok frames ->
    Forall attr_wf attrs -> code_not 3 attrs -> code_not 14 attrs -> fam_ok f ->
    match nh with Some b => blen b < 248 | None => True end ->
    Forall (labeled vpn (maxbits_of f)) es ->
    exists ws chunks,
      wire_attrs (two_byte c) attrs = Ok ws /\
      concat chunks = es /\
      Forall2 (reach_frame_labeled_ok c f vpn nh ws (es <> [])) frames chunks.
Print Assumptions decode_encode_routes_labeled.

(* (14) Flowspec (IPv4 / IPv6, plain / VPN), Route Target Constraint, EVPN route types 1-5,
   SR Policy, MUP route types 1-4 and BGP-LS (NLRI types 1-4 and 6 at TLV level, other types
   opaque), with the NLRI VALUE universally quantified (rule components and operator lists,
   route targets, RD / ESI / tags / MAC / IP / labels, ...): the frames of a Reach split the
   entries into consecutive chunks and from every frame the RFC reader of the family recovers the
   attributes, the next hop and exactly the entries of the chunk -- the value itself (a Flowspec
   prefix component keeps its significant octets).  This covers the length prefix rule of RFC 8955
   4.1 (one octet below 240, two octets 0xfnnn from 240 to 4095) and the operator value widths.
   (One reader clause is not the RFC's: an IPv6 Flowspec prefix component with a non-zero offset
   is read as the code writes it, ceil(length / 8) octets from bit 0, where RFC 8956 3.1 has the
   length - offset bits after the offset; the python oracle judges by the RFC and reports the
   difference on every run as the open finding C04-fs6-prefix-offset.) *)
Theorem decode_encode_routes_structured :
  forall (p : profile) (c : codec) (f : N) (k : skind) (nh : option (list N)) (attrs : list attr)
         (es : list pnlri) (frames : list (list N)),
    encode_to p c (MReach f nh attrs es) = Ok frames ->
    Forall attr_wf attrs -> code_not 3 attrs -> code_not 14 attrs -> fam_ok f ->
    match nh with Some b => blen b < 248 | None => True end ->
    Forall (structured k) es ->
    exists ws chunks,
      wire_attrs (two_byte c) attrs = Ok ws /\
      concat chunks = es /\
      Forall2 (reach_frame_struct_ok c f k nh ws (es <> [])) frames chunks.
Proof. exact C04_decode_encode_routes_structured. Qed.
Check decode_encode_routes_structured :
  forall (p : profile) (c : codec) (f : N) (k : skind) (nh : option (list N)) (attrs : list attr)
         (es : list pnlri) (frames : list (list N)),
    encode_to p c (MReach f nh attrs es) = Ok frames ->
    Forall attr_wf attrs -> code_not 3 attrs -> code_not 14 attrs -> fam_ok f ->
    match nh with Some b => blen b < 248 | None => True end ->
    Forall (structured k) es ->
    exists ws chunks,
      wire_attrs (two_byte c) attrs = Ok ws /\
      concat chunks = es /\
      Forall2 (reach_frame_struct_ok c f k nh ws (es <> [])) frames chunks.
Print Assumptions decode_encode_routes_structured.

(* (15) ... and their withdrawals. *)
Theorem split_preserves_multiset_structured :
  forall (p : profile) (c : codec) (f : N) (k : skind) (es : list pnlri) (frames : list (list N)),
    encode_to p c (MUnreach f es) = Ok frames ->
    fam_ok f -> Forall (structured k) es ->
    exists chunks, concat chunks = es /\ Forall2 (unreach_frame_struct_ok c f k) frames chunks.
Proof. exact C04_split_preserves_multiset_structured. Qed.
Check split_preserves_multiset_structured :
  forall (p : profile) (c : codec) (f : N) (k : skind) (es : list pnlri) (frames : list (list N)),
    encode_to p c (MUnreach f es) = Ok frames ->
    fam_ok f -> Forall (structured k) es ->
    exists chunks, concat chunks = es /\ Forall2 (unreach_frame_struct_ok c f k) frames chunks.
Print Assumptions split_preserves_multiset_structured.

(* (16) Fixed point: the value the peer reads from what the encoder wrote for a representable
   entry is itself representable, canonical (reading it again changes nothing), is written as
   the very same octets, and those octets read as that value -- decode (encode y) = y for every y
   obtained by decoding an encoding. *)
Theorem structured_fixpoint :
  forall (p : profile) (k : skind) (pid : N) (n : nlri),
    structured k (pid, n) ->
    structured k (pid, canon_struct n) /\
    canon_struct (canon_struct n) = canon_struct n /\
    enc_nlri p (canon_struct n) = enc_nlri p n /\
    forall enc rest, enc_nlri p n = Ok enc -> read_struct k (enc ++ rest) = Some (canon_struct n, rest).
Proof. exact C04_structured_fixpoint. Qed.
Check structured_fixpoint :
  forall (p : profile) (k : skind) (pid : N) (n : nlri),
    structured k (pid, n) ->
    structured k (pid, canon_struct n) /\
    canon_struct (canon_struct n) = canon_struct n /\
    enc_nlri p (canon_struct n) = enc_nlri p n /\
    forall enc rest, enc_nlri p n = Ok enc -> read_struct k (enc ++ rest) = Some (canon_struct n, rest).
Print Assumptions structured_fixpoint.

(* (17) decode (encode (decode b)) = decode b for the NLRI of the structured families: whatever
   octet string [b] the RFC reader of the family accepts, the value [v] it returns is encoded by
   the implementation's encoder (no panic, either build profile) and that encoding reads as [v]
   again.  (The reader is the structural one of Spec/WireReadFam.v; the Rust decoder is
   property C03's and is tied to this clause by the harness check on every run.) *)
Theorem decode_encode_decode_fixpoint_nlri :
  forall (p : profile) (k : skind) (b : list N) (v : nlri) (rest : list N),
    bytes_ok b -> read_struct k b = Some (v, rest) ->
    exists enc, enc_nlri p v = Ok enc /\ forall rest', read_struct k (enc ++ rest') = Some (v, rest').
Proof. exact C04_decode_encode_decode_fixpoint. Qed.
Check decode_encode_decode_fixpoint_nlri :
  forall (p : profile) (k : skind) (b : list N) (v : nlri) (rest : list N),
    bytes_ok b -> read_struct k b = Some (v, rest) ->
    exists enc, enc_nlri p v = Ok enc /\ forall rest', read_struct k (enc ++ rest') = Some (v, rest').
Print Assumptions decode_encode_decode_fixpoint_nlri.
