(* C04  Encoded BGP messages are well-framed and decode to the same routes at the
   peer.  Statements only: each theorem is closed by [exact], pinned by [Check]
   and followed by [Print Assumptions].  The encoder model is Model/WireEnc.v
   (PeerCodec::encode_to and what it calls, after the five `fix:` commits listed
   in known_findings.json); the reader is Spec/WireRead.v (written from the
   RFCs, not from the Rust parser). *)
From Coq Require Import List NArith Bool.
From RB Require Import Base.Val Model.Caps Model.WireEnc Spec.WireRead Spec.WireEncSpec Proofs.WireEnc.
Import ListNotations.
Open Scope N_scope.

(* (1) Whatever the message, the capability sets and the build profile: every frame
   encode_to emits is a complete message of at least 19 octets and at most the
   negotiated maximum (4096, or 65535 with RFC 8654 on both sides). *)
Theorem frames_within_limit :
  forall (p : profile) (c : codec) (m : msg) (frames : list (list N)),
    encode_to p c m = Ok frames ->
    Forall (fun fr => 19 <= blen fr /\ blen fr <= max_len c) frames.
Proof. exact C04_frames_within_limit. Qed.
Check frames_within_limit :
  forall (p : profile) (c : codec) (m : msg) (frames : list (list N)),
    encode_to p c m = Ok frames ->
    Forall (fun fr => 19 <= blen fr /\ blen fr <= max_len c) frames.
Print Assumptions frames_within_limit.

(* (3) A Reach of plain prefixes (IPv4 / IPv6 unicast and multicast NLRI), with any
   attribute list, on any session: the frames split the entry list into consecutive
   chunks (nothing dropped, duplicated or reordered), and from every frame the
   structural reader recovers the family, the attributes exactly as the sender wrote
   them (the same list [ws] in every frame: the message's attributes, or their RFC 6793
   two-octet form), the next hop, and exactly the prefixes of its chunk with their
   path identifiers (0 when ADD-PATH is not negotiated). *)
Theorem decode_encode_routes :
  forall (p : profile) (c : codec) (f : N) (nh : option (list N)) (attrs : list attr)
         (es : list pnlri) (frames : list (list N)),
    encode_to p c (MReach f nh attrs es) = Ok frames ->
    Forall attr_wf attrs -> code_not 3 attrs -> code_not 14 attrs -> fam_ok f ->
    match nh with Some b => blen b < 248 | None => True end ->
    Forall (plain (maxbits_of f)) es ->
    exists ws chunks,
      wire_attrs (two_byte c) attrs = Ok ws /\
      concat chunks = es /\
      Forall2 (reach_frame_ok c f nh ws (es <> [])) frames chunks.
Proof. exact C04_decode_encode_routes. Qed.
Check decode_encode_routes :
  forall (p : profile) (c : codec) (f : N) (nh : option (list N)) (attrs : list attr)
         (es : list pnlri) (frames : list (list N)),
    encode_to p c (MReach f nh attrs es) = Ok frames ->
    Forall attr_wf attrs -> code_not 3 attrs -> code_not 14 attrs -> fam_ok f ->
    match nh with Some b => blen b < 248 | None => True end ->
    Forall (plain (maxbits_of f)) es ->
    exists ws chunks,
      wire_attrs (two_byte c) attrs = Ok ws /\
      concat chunks = es /\
      Forall2 (reach_frame_ok c f nh ws (es <> [])) frames chunks.
Print Assumptions decode_encode_routes.

(* (4) A withdrawal of plain prefixes: the frames split the entry list into consecutive
   chunks and from every frame the reader recovers the family and exactly the withdrawn
   prefixes of its chunk.  Together with (3): splitting a large update neither drops,
   duplicates nor reorders a prefix. *)
Theorem split_preserves_multiset :
  forall (p : profile) (c : codec) (f : N) (es : list pnlri) (frames : list (list N)),
    encode_to p c (MUnreach f es) = Ok frames ->
    fam_ok f -> Forall (plain (maxbits_of f)) es ->
    exists chunks, concat chunks = es /\ Forall2 (unreach_frame_ok c f) frames chunks.
Proof. exact C04_split_preserves_multiset. Qed.
Check split_preserves_multiset :
  forall (p : profile) (c : codec) (f : N) (es : list pnlri) (frames : list (list N)),
    encode_to p c (MUnreach f es) = Ok frames ->
    fam_ok f -> Forall (plain (maxbits_of f)) es ->
    exists chunks, concat chunks = es /\ Forall2 (unreach_frame_ok c f) frames chunks.
Print Assumptions split_preserves_multiset.

(* (5) The same split property for NLRI of ANY family (labeled, VPN, and the families whose
   NLRI enter the model as their wire bytes): every frame of a Reach is readable, carries the
   family, the attributes as written, the expected next hop, and its NLRI field is exactly the
   concatenation of the encodings of the entries of its chunk; the chunks concatenate to the
   entry list. *)
Theorem reach_frames_all_families :
  forall (p : profile) (c : codec) (f : N) (nh : option (list N)) (attrs : list attr)
         (es : list pnlri) (frames : list (list N)),
    encode_to p c (MReach f nh attrs es) = Ok frames ->
    Forall attr_wf attrs -> code_not 3 attrs -> code_not 14 attrs -> fam_ok f ->
    match nh with Some b => blen b < 248 | None => True end ->
    exists ws chunks,
      wire_attrs (two_byte c) attrs = Ok ws /\
      concat chunks = es /\
      Forall2 (reach_frame_bytes p c f nh ws (es <> [])) frames chunks.
Proof. exact C04_reach_frames. Qed.
Check reach_frames_all_families :
  forall (p : profile) (c : codec) (f : N) (nh : option (list N)) (attrs : list attr)
         (es : list pnlri) (frames : list (list N)),
    encode_to p c (MReach f nh attrs es) = Ok frames ->
    Forall attr_wf attrs -> code_not 3 attrs -> code_not 14 attrs -> fam_ok f ->
    match nh with Some b => blen b < 248 | None => True end ->
    exists ws chunks,
      wire_attrs (two_byte c) attrs = Ok ws /\
      concat chunks = es /\
      Forall2 (reach_frame_bytes p c f nh ws (es <> [])) frames chunks.
Print Assumptions reach_frames_all_families.

(* (6) ... and of an Unreach. *)
Theorem unreach_frames_all_families :
  forall (p : profile) (c : codec) (f : N) (es : list pnlri) (frames : list (list N)),
    encode_to p c (MUnreach f es) = Ok frames -> fam_ok f ->
    exists chunks, concat chunks = es /\ Forall2 (unreach_frame_bytes p c f) frames chunks.
Proof. exact C04_unreach_frames. Qed.
Check unreach_frames_all_families :
  forall (p : profile) (c : codec) (f : N) (es : list pnlri) (frames : list (list N)),
    encode_to p c (MUnreach f es) = Ok frames -> fam_ok f ->
    exists chunks, concat chunks = es /\ Forall2 (unreach_frame_bytes p c f) frames chunks.
Print Assumptions unreach_frames_all_families.

(* (7) An OPEN with any capability list that encode_to accepts is one frame from which the
   reader recovers version 4, the AS field (AS_TRANS for a four-octet AS number), the hold
   time, the identifier and the capabilities, in order, as <code, value>; the optional
   parameter and capability lengths tile the message exactly. *)
Theorem open_roundtrip :
  forall (p : profile) (c : codec) (asn hold rid : N) (caps : list cap) (frames : list (list N)),
    encode_to p c (MOpen asn hold rid caps) = Ok frames ->
    asn < 4294967296 -> hold < 65536 -> rid < 4294967296 -> Forall cap_wf caps ->
    exists fr, frames = [fr] /\ open_ok (max_len c) asn hold rid caps fr.
Proof. exact C04_open_roundtrip. Qed.
Check open_roundtrip :
  forall (p : profile) (c : codec) (asn hold rid : N) (caps : list cap) (frames : list (list N)),
    encode_to p c (MOpen asn hold rid caps) = Ok frames ->
    asn < 4294967296 -> hold < 65536 -> rid < 4294967296 -> Forall cap_wf caps ->
    exists fr, frames = [fr] /\ open_ok (max_len c) asn hold rid caps fr.
Print Assumptions open_roundtrip.
