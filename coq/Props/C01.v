(* C01  Every neighbour's view converges to export(Loc-RIB); no withdrawal is lost. *)
From Coq Require Import List NArith Bool.
From RB Require Import Base.Val Model.ExportTx.
