(* C01  Every neighbour's view converges to export(Loc-RIB); no withdrawal is lost.
   Statements only: each theorem is closed by [exact], pinned by [Check] and followed by
   [Print Assumptions].

   The model (Model/ExportTx.v) is the code after the `fix:` commits of this property
   (PendingTx keyed by (prefix, path id); initial dump / route refresh hand every candidate
   to the add-path top-N; restale_llgr reports the marked paths as replaced / the marked best
   as changed; a route refresh re-sends per path to an add-path peer and its walk is queued on the
   session's channel behind the changes already there).  The RIB is abstracted to its change stream; [truthful_run] is the contract
   of that stream (flags say what changed, including the LLGR-stale marking of a source),
   [pol_marks_after_accept] the contract of the policy abstraction (LLGR_STALE is added to an
   accepted route).  No known-finding hypothesis is left: every label sequence is admitted.
   MAXOK max is addpath_tx = (effective_max > 1).  [pol] is indexed by the installed export
   policy; the histories of the theorems keep policy 0 installed (a PolicyChange label is not
   truthful): a policy change during a session is exercised by the correspondence only. *)
From Coq Require Import List NArith Bool.
From RB Require Import Base.Val Model.ExportTx Spec.ExportTxSpec Proofs.ExportTx.
Import ListNotations.
Open Scope N_scope.

(* (T1) The invariant linking RIB, undelivered changes, ExportMap, pending sets and mirror
   holds after every admissible history (all label sequences, all payload types, send-max
   values, visibility filters and export policies). *)
Theorem export_inv_preserved :
  forall (E : Type) (max : N) (vis : path -> bool) (pol : N -> bool -> N -> path -> option E)
         (ls : list label),
    pol_marks_after_accept E (pol 0) ->
    ok_run E ByNet false false max (MAXOK max) vis pol (state0 E) ls ->
    Inv E max vis (pol 0) 0 (run E ByNet false false max (MAXOK max) vis pol ls).
Proof. exact C01_export_inv_preserved. Qed.
Check export_inv_preserved :
  forall (E : Type) (max : N) (vis : path -> bool) (pol : N -> bool -> N -> path -> option E)
         (ls : list label),
    pol_marks_after_accept E (pol 0) ->
    ok_run E ByNet false false max (MAXOK max) vis pol (state0 E) ls ->
    Inv E max vis (pol 0) 0 (run E ByNet false false max (MAXOK max) vis pol ls).
Print Assumptions export_inv_preserved.

(* (T2) Established, nothing queued, nothing pending: the neighbour's Adj-RIB-In is
   exactly what a brand-new session would be sent now. *)
Theorem quiescent_view_eq_fresh :
  forall (E : Type) (max : N) (vis : path -> bool) (pol : N -> bool -> N -> path -> option E)
         (ls : list label),
    pol_marks_after_accept E (pol 0) ->
    truthful_run E ByNet false false max (MAXOK max) vis pol (state0 E) ls ->
    let s := run E ByNet false false max (MAXOK max) vis pol ls in
    established E s -> quiescent E s ->
    same_routes E (view E s) (fresh E ByNet false max (MAXOK max) vis pol s).
Proof. exact C01_quiescent_view_eq_fresh. Qed.
Check quiescent_view_eq_fresh :
  forall (E : Type) (max : N) (vis : path -> bool) (pol : N -> bool -> N -> path -> option E)
         (ls : list label),
    pol_marks_after_accept E (pol 0) ->
    truthful_run E ByNet false false max (MAXOK max) vis pol (state0 E) ls ->
    let s := run E ByNet false false max (MAXOK max) vis pol ls in
    established E s -> quiescent E s ->
    same_routes E (view E s) (fresh E ByNet false max (MAXOK max) vis pol s).
Print Assumptions quiescent_view_eq_fresh.

(* (T3) At any point of an admissible history: a route the neighbour holds and a fresh
   session would not be sent has its withdrawal waiting for the socket, or a change of its
   prefix is still queued. *)
Theorem no_lost_withdrawal :
  forall (E : Type) (max : N) (vis : path -> bool) (pol : N -> bool -> N -> path -> option E)
         (ls : list label),
    pol_marks_after_accept E (pol 0) ->
    truthful_run E ByNet false false max (MAXOK max) vis pol (state0 E) ls ->
    let s := run E ByNet false false max (MAXOK max) vis pol ls in
    established E s ->
    forall k e, kfind k (view E s) = Some e ->
                kfind k (fresh E ByNet false max (MAXOK max) vis pol s) = None ->
                withdrawal_pending E s k \/ change_undelivered E s k.
Proof. exact C01_no_lost_withdrawal. Qed.
Check no_lost_withdrawal :
  forall (E : Type) (max : N) (vis : path -> bool) (pol : N -> bool -> N -> path -> option E)
         (ls : list label),
    pol_marks_after_accept E (pol 0) ->
    truthful_run E ByNet false false max (MAXOK max) vis pol (state0 E) ls ->
    let s := run E ByNet false false max (MAXOK max) vis pol ls in
    established E s ->
    forall k e, kfind k (view E s) = Some e ->
                kfind k (fresh E ByNet false max (MAXOK max) vis pol s) = None ->
                withdrawal_pending E s k \/ change_undelivered E s k.
Print Assumptions no_lost_withdrawal.

(* (T4) What `Register` dumps is the closed form of the export rules: the best path only /
   the first send-max visible candidates, each through the export policy. *)
Theorem fresh_is_export_rules :
  forall (E : Type) (max : N) (vis : path -> bool) (pol : N -> bool -> N -> path -> option E)
         (ls : list label),
    pol_marks_after_accept E (pol 0) ->
    ok_run E ByNet false false max (MAXOK max) vis pol (state0 E) ls ->
    let s := run E ByNet false false max (MAXOK max) vis pol ls in
    forall k, kfind k (fresh E ByNet false max (MAXOK max) vis pol s)
              = fresh_at E max vis (pol 0) (live (s_llgr s)) (s_rib s) k.
Proof. exact C01_fresh_is_export_rules. Qed.
Check fresh_is_export_rules :
  forall (E : Type) (max : N) (vis : path -> bool) (pol : N -> bool -> N -> path -> option E)
         (ls : list label),
    pol_marks_after_accept E (pol 0) ->
    ok_run E ByNet false false max (MAXOK max) vis pol (state0 E) ls ->
    let s := run E ByNet false false max (MAXOK max) vis pol ls in
    forall k, kfind k (fresh E ByNet false max (MAXOK max) vis pol s)
              = fresh_at E max vis (pol 0) (live (s_llgr s)) (s_rib s) k.
Print Assumptions fresh_is_export_rules.

(* ---- refutations.  The full-strength statements are false of the code before the fixes
   and, for two input classes, of the code after them. *)

(* code before fix ee21a37 (PendingTx keyed by dest_id): a withdrawal is lost *)
Theorem no_lost_withdrawal_refuted_by_id_keying :
  let g := G ById false 1 [] in
  let s := crun g w_idreuse in
  established CE s /\ quiescent CE s /\
  exists k e, kfind k (view CE s) = Some e /\ kfind k (cfresh g s) = None /\
              ~ withdrawal_pending CE s k /\ ~ change_undelivered CE s k.
Proof. exact C01_no_lost_withdrawal_refuted_by_id_keying. Qed.
Check no_lost_withdrawal_refuted_by_id_keying :
  let g := G ById false 1 [] in
  let s := crun g w_idreuse in
  established CE s /\ quiescent CE s /\
  exists k e, kfind k (view CE s) = Some e /\ kfind k (cfresh g s) = None /\
              ~ withdrawal_pending CE s k /\ ~ change_undelivered CE s k.
Print Assumptions no_lost_withdrawal_refuted_by_id_keying.

(* code before fix fcdcf73 (dump truncated before the visibility filters) *)
Theorem quiescent_view_eq_fresh_refuted_truncated_dump :
  let g := G ByNet true 2 [0] in
  let s := crun g w_limited in
  established CE s /\ quiescent CE s /\
  exists k, kfind k (view CE s) <> kfind k (cfresh g s).
Proof. exact C01_quiescent_view_eq_fresh_refuted_truncated_dump. Qed.
Check quiescent_view_eq_fresh_refuted_truncated_dump :
  let g := G ByNet true 2 [0] in
  let s := crun g w_limited in
  established CE s /\ quiescent CE s /\
  exists k, kfind k (view CE s) <> kfind k (cfresh g s).
Print Assumptions quiescent_view_eq_fresh_refuted_truncated_dump.

(* the RIB before fix d9feca9 (restale_llgr reported an unmoved best path as unchanged and
   no replaced path): an untruthful change stream, the view does not converge *)
Theorem quiescent_view_eq_fresh_refuted_unreported_llgr :
  let g := G ByNet false 1 [] in
  let s := crun g w_llgr_old in
  established CE s /\ quiescent CE s /\
  exists k, kfind k (view CE s) <> kfind k (cfresh g s).
Proof. exact C01_quiescent_view_eq_fresh_refuted_unreported_llgr. Qed.
Check quiescent_view_eq_fresh_refuted_unreported_llgr :
  let g := G ByNet false 1 [] in
  let s := crun g w_llgr_old in
  established CE s /\ quiescent CE s /\
  exists k, kfind k (view CE s) <> kfind k (cfresh g s).
Print Assumptions quiescent_view_eq_fresh_refuted_unreported_llgr.

(* code before the fix of C01-refresh-race (do_route_refresh walked the RIB at once, ahead of
   the changes queued for the session) *)
Theorem no_lost_withdrawal_refuted_inline_refresh :
  let g := GI 2 [1] in
  let s := crun g w_race in
  established CE s /\ quiescent CE s /\
  exists k e, kfind k (view CE s) = Some e /\ kfind k (cfresh g s) = None /\
              ~ withdrawal_pending CE s k /\ ~ change_undelivered CE s k.
Proof. exact C01_no_lost_withdrawal_refuted_inline_refresh. Qed.
Check no_lost_withdrawal_refuted_inline_refresh :
  let g := GI 2 [1] in
  let s := crun g w_race in
  established CE s /\ quiescent CE s /\
  exists k e, kfind k (view CE s) = Some e /\ kfind k (cfresh g s) = None /\
              ~ withdrawal_pending CE s k /\ ~ change_undelivered CE s k.
Print Assumptions no_lost_withdrawal_refuted_inline_refresh.

(* (T5) End-of-RIB: one is buffered with the initial dump of a session and leaves right behind
   the dump; one is scheduled when a queued route-refresh walk has been applied and leaves last
   in the next batch; a flush or the end of the session clears both; no other step touches them. *)
Theorem eor_emission :
  forall (E : Type) (max : N) (vis : path -> bool) (polv : N -> bool -> N -> path -> option E)
         (s : state E) (l : label),
  let n := s_nbr s in
  let n' := s_nbr (step E ByNet false false max (MAXOK max) vis polv s l) in
  match l with
  | Register => n_beor n' = true /\ n_eor n' = false /\
                eor_positions n' = [N.of_nat (length (n_buf n'))]
  | Flush | Unregister => n_beor n' = false /\ n_eor n' = false /\ eor_positions n' = []
  | Deliver => n_beor n' = n_beor n /\ n_eor n' = (n_eor n || walk_at_head E n)
  | _ => n_beor n' = n_beor n /\ n_eor n' = n_eor n
  end.
Proof. exact C01_eor_emission. Qed.
Check eor_emission :
  forall (E : Type) (max : N) (vis : path -> bool) (polv : N -> bool -> N -> path -> option E)
         (s : state E) (l : label),
  let n := s_nbr s in
  let n' := s_nbr (step E ByNet false false max (MAXOK max) vis polv s l) in
  match l with
  | Register => n_beor n' = true /\ n_eor n' = false /\
                eor_positions n' = [N.of_nat (length (n_buf n'))]
  | Flush | Unregister => n_beor n' = false /\ n_eor n' = false /\ eor_positions n' = []
  | Deliver => n_beor n' = n_beor n /\ n_eor n' = (n_eor n || walk_at_head E n)
  | _ => n_beor n' = n_beor n /\ n_eor n' = n_eor n
  end.
Print Assumptions eor_emission.

(* (T6) PendingTx coalescing: per route, the last event queued between two flushes wins. *)
Theorem pending_last_event_wins :
  forall (E : Type) (p : ptx E) (k' : key) (e : E) (k : key),
    pview E (ptx_reach E k' (fst k') e p) k = (if key_eqb k k' then Some (Some e) else pview E p k) /\
    pview E (ptx_unreach E k' (fst k') p) k = (if key_eqb k k' then Some None else pview E p k) /\
    (coherent E p -> coherent E (ptx_reach E k' (fst k') e p) /\ coherent E (ptx_unreach E k' (fst k') p)).
Proof. exact C01_pending_last_event_wins. Qed.
Check pending_last_event_wins :
  forall (E : Type) (p : ptx E) (k' : key) (e : E) (k : key),
    pview E (ptx_reach E k' (fst k') e p) k = (if key_eqb k k' then Some (Some e) else pview E p k) /\
    pview E (ptx_unreach E k' (fst k') p) k = (if key_eqb k k' then Some None else pview E p k) /\
    (coherent E p -> coherent E (ptx_reach E k' (fst k') e p) /\ coherent E (ptx_unreach E k' (fst k') p)).
Print Assumptions pending_last_event_wins.

(* (T7) Flush order: buffered initial dump, then withdrawals, then announcements. *)
Theorem flush_order :
  forall (E : Type) (n : nbr E) (k : key),
    coherent E (n_ptx n) ->
    kfind k (flush_mirror E n) =
    match pview E (n_ptx n) k with
    | Some (Some e) => Some e
    | Some None => None
    | None => match kfind k (rev (n_buf n)) with
              | Some e => Some e
              | None => kfind k (n_mirror n)
              end
    end.
Proof. exact C01_flush_order. Qed.
Check flush_order :
  forall (E : Type) (n : nbr E) (k : key),
    coherent E (n_ptx n) ->
    kfind k (flush_mirror E n) =
    match pview E (n_ptx n) k with
    | Some (Some e) => Some e
    | Some None => None
    | None => match kfind k (rev (n_buf n)) with
              | Some e => Some e
              | None => kfind k (n_mirror n)
              end
    end.
Print Assumptions flush_order.
