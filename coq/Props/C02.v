(* C02  Selected and ranked paths are always maximal under the stated decision
   order.  Statements only. *)
From Coq Require Import List NArith ZArith Bool Sorting.Permutation.
From RB Require Import Base.Val Model.Rib Spec.BestPath Proofs.RibC02 Proofs.RibViews.
Import ListNotations.
Open Scope N_scope.

(* The comparator the RIB sorts with (RibEntry::cmp, evpn_type2_cmp for EVPN
   Type-2 prefixes) is the decision order of the property. *)
Theorem cmp_code_refines_spec :
  forall fl net a b, cmp_for fl net a b = cmp_spec fl net a b.
Proof. exact C02_cmp_code_refines_spec. Qed.
Check cmp_code_refines_spec : forall fl net a b, cmp_for fl net a b = cmp_spec fl net a b.
Print Assumptions cmp_code_refines_spec.

(* AS hop counting over unbounded integers: AS_SET one, confederation segments zero. *)
Theorem hops_code_refines_spec :
  forall a, Z.of_N (hops_of a) = match a_segs a with Some s => hops_spec s | None => 0%Z end.
Proof. exact C02_hops_code_refines_spec. Qed.
Check hops_code_refines_spec :
  forall a, Z.of_N (hops_of a) = match a_segs a with Some s => hops_spec s | None => 0%Z end.
Print Assumptions hops_code_refines_spec.

(* The decision order is a total preorder (plain and EVPN variant). *)
Theorem decision_order_total_preorder :
  forall fl net,
    (forall a, not_worse fl net a a)
    /\ (forall a b, not_worse fl net a b \/ not_worse fl net b a)
    /\ (forall a b c, not_worse fl net a b -> not_worse fl net b c -> not_worse fl net a c)
    /\ (forall a b, cmp_spec fl net b a = CompOpp (cmp_spec fl net a b)).
Proof. exact C02_decision_order_total_preorder. Qed.
Check decision_order_total_preorder :
  forall fl net,
    (forall a, not_worse fl net a a)
    /\ (forall a b, not_worse fl net a b \/ not_worse fl net b a)
    /\ (forall a b c, not_worse fl net a b -> not_worse fl net b c -> not_worse fl net a c)
    /\ (forall a b, cmp_spec fl net b a = CompOpp (cmp_spec fl net a b)).
Print Assumptions decision_order_total_preorder.

(* After any history of insert / replace / remove / peer drop / stale and LLGR
   marking / purges / next-hop flips / deferral, every destination is ranked by
   the decision order under the current flags. *)
Theorem dest_sorted_reachable :
  forall shard ops net d,
    consistent ops ->
    In (net, d) (t_dests (run (empty_table shard) ops)) ->
    ranked (t_flags (run (empty_table shard) ops)) net (d_entries d).
Proof. exact C02_dest_sorted_reachable. Qed.
Check dest_sorted_reachable :
  forall shard ops net d,
    consistent ops ->
    In (net, d) (t_dests (run (empty_table shard) ops)) ->
    ranked (t_flags (run (empty_table shard) ops)) net (d_entries d).
Print Assumptions dest_sorted_reachable.

(* The best path is a path of the prefix that is neither import-filtered nor
   next-hop-invalid, and no other such path beats it. *)
Theorem best_eligible_maximal :
  forall shard ops net d b,
    consistent ops ->
    In (net, d) (t_dests (run (empty_table shard) ops)) ->
    best_of d = Some b ->
    In b (d_entries d) /\ eligible b = true
    /\ forall e, In e (d_entries d) -> eligible e = true ->
                 not_worse (t_flags (run (empty_table shard) ops)) net b e.
Proof. exact C02_best_eligible_maximal. Qed.
Check best_eligible_maximal :
  forall shard ops net d b,
    consistent ops ->
    In (net, d) (t_dests (run (empty_table shard) ops)) ->
    best_of d = Some b ->
    In b (d_entries d) /\ eligible b = true
    /\ forall e, In e (d_entries d) -> eligible e = true ->
                 not_worse (t_flags (run (empty_table shard) ops)) net b e.
Print Assumptions best_eligible_maximal.

(* The outcome depends only on the current set of paths and flags, not on the
   history: two reachable tables holding the same paths rank them identically
   up to ties. *)
Theorem ranking_order_independent :
  forall shard1 ops1 shard2 ops2 net d1 d2,
    consistent ops1 -> consistent ops2 ->
    let t1 := run (empty_table shard1) ops1 in
    let t2 := run (empty_table shard2) ops2 in
    In (net, d1) (t_dests t1) -> In (net, d2) (t_dests t2) ->
    (forall tok, flags_of (t_flags t1) tok = flags_of (t_flags t2) tok) ->
    Permutation (d_entries d1) (d_entries d2) ->
    Forall2 (tied (t_flags t1) net) (d_entries d1) (d_entries d2)
    /\ Forall2 (tied (t_flags t1) net) (elig_list d1) (elig_list d2).
Proof. exact C02_ranking_order_independent. Qed.
Check ranking_order_independent :
  forall shard1 ops1 shard2 ops2 net d1 d2,
    consistent ops1 -> consistent ops2 ->
    let t1 := run (empty_table shard1) ops1 in
    let t2 := run (empty_table shard2) ops2 in
    In (net, d1) (t_dests t1) -> In (net, d2) (t_dests t2) ->
    (forall tok, flags_of (t_flags t1) tok = flags_of (t_flags t2) tok) ->
    Permutation (d_entries d1) (d_entries d2) ->
    Forall2 (tied (t_flags t1) net) (d_entries d1) (d_entries d2)
    /\ Forall2 (tied (t_flags t1) net) (elig_list d1) (elig_list d2).
Print Assumptions ranking_order_independent.

(* The add-path window and the ECMP set are prefixes of the one ranking. *)
Theorem limited_and_ecmp_are_prefixes :
  forall fl (l : list entry) (n : nat),
    (exists r, l = firstn n l ++ r) /\ (exists r, l = ecmp_paths fl l ++ r).
Proof. exact C02_limited_and_ecmp_are_prefixes. Qed.
Check limited_and_ecmp_are_prefixes :
  forall fl (l : list entry) (n : nat),
    (exists r, l = firstn n l ++ r) /\ (exists r, l = ecmp_paths fl l ++ r).
Print Assumptions limited_and_ecmp_are_prefixes.

(* The ECMP set is exactly the leading run tied with the best path on every
   step before router-id. *)
Theorem ecmp_code_refines_spec :
  forall fl b l,
    (forall p, In p (ecmp_paths fl (b :: l)) -> ecmp_tied fl p b)
    /\ (forall r x, b :: l = ecmp_paths fl (b :: l) ++ x :: r -> ~ ecmp_tied fl x b).
Proof. exact C02_ecmp_code_refines_spec. Qed.
Check ecmp_code_refines_spec :
  forall fl b l,
    (forall p, In p (ecmp_paths fl (b :: l)) -> ecmp_tied fl p b)
    /\ (forall r x, b :: l = ecmp_paths fl (b :: l) ++ x :: r -> ~ ecmp_tied fl x b).
Print Assumptions ecmp_code_refines_spec.

(* The route-server local view shown by the API for a peer is an eligible path
   of another route-server client that no other such path beats. *)
Theorem rs_local_best :
  forall shard ops net d peer e,
    consistent ops ->
    In (net, d) (t_dests (run (empty_table shard) ops)) ->
    rs_local peer d = Some e ->
    In e (d_entries d) /\ eligible e = true /\ s_role (e_src e) = 1 /\ s_addr (e_src e) <> peer
    /\ forall x, In x (d_entries d) -> eligible x = true -> s_role (e_src x) = 1 -> s_addr (e_src x) <> peer ->
                 not_worse (t_flags (run (empty_table shard) ops)) net e x.
Proof. exact C02_rs_local_best. Qed.
Check rs_local_best :
  forall shard ops net d peer e,
    consistent ops ->
    In (net, d) (t_dests (run (empty_table shard) ops)) ->
    rs_local peer d = Some e ->
    In e (d_entries d) /\ eligible e = true /\ s_role (e_src e) = 1 /\ s_addr (e_src e) <> peer
    /\ forall x, In x (d_entries d) -> eligible x = true -> s_role (e_src x) = 1 -> s_addr (e_src x) <> peer ->
                 not_worse (t_flags (run (empty_table shard) ops)) net e x.
Print Assumptions rs_local_best.

(* The Adj-RIB-In view of a peer (destinations(AdjIn(peer)), with or without the paths
   import policy rejected) is exactly the peer's paths of the destination, listed in
   the decision order; the soft-reset input (collect_adj_in_paths) is exactly the
   peer's paths, without the stale ones unless asked for. *)
Theorem adj_in_view :
  forall shard ops net d a flt,
    consistent ops ->
    In (net, d) (t_dests (run (empty_table shard) ops)) ->
    (forall e, In e (adj_in a flt d) <->
               In e (d_entries d) /\ s_addr (e_src e) = a /\ (flt = true \/ e_filtered e = false))
    /\ ranked (t_flags (run (empty_table shard) ops)) net (adj_in a flt d)
    /\ (forall e, In e (soft_in (t_flags (run (empty_table shard) ops)) a flt d) <->
                  In e (d_entries d) /\ s_addr (e_src e) = a
                  /\ (flt = true \/ is_stale (t_flags (run (empty_table shard) ops)) e = false)).
Proof. exact C02_adj_in_view. Qed.
Check adj_in_view :
  forall shard ops net d a flt,
    consistent ops ->
    In (net, d) (t_dests (run (empty_table shard) ops)) ->
    (forall e, In e (adj_in a flt d) <->
               In e (d_entries d) /\ s_addr (e_src e) = a /\ (flt = true \/ e_filtered e = false))
    /\ ranked (t_flags (run (empty_table shard) ops)) net (adj_in a flt d)
    /\ (forall e, In e (soft_in (t_flags (run (empty_table shard) ops)) a flt d) <->
                  In e (d_entries d) /\ s_addr (e_src e) = a
                  /\ (flt = true \/ is_stale (t_flags (run (empty_table shard) ops)) e = false)).
Print Assumptions adj_in_view.
