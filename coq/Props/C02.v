(* placeholder until the theorems are stated *)
