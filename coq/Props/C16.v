(* C16  Only configured or permitted neighbours get a session, set up right.
   Statements only: each theorem is closed by [exact], pinned by [Check] and
   followed by [Print Assumptions]. *)
From Coq Require Import List NArith Bool.
From RB Require Import Base.Val Model.Caps Model.Fsm Model.Negotiate Spec.NegotiateSpec
                       Proofs.Negotiate Proofs.IpNet.
Import ListNotations.
Open Scope N_scope.

(* (1) The two ends hold mirror images: the same families, add-path receive/send swapped, the same extended-message and AS-width decision. *)
Theorem negotiate_mirror :
  forall (l r : list cap) (f : N),
    mirror (neg_family l r f) (neg_family r l f)
    /\ neg_extended_length l r = neg_extended_length r l
    /\ neg_two_byte_as l r = neg_two_byte_as r l.
Proof. exact C16_negotiate_mirror. Qed.
Check negotiate_mirror :
  forall (l r : list cap) (f : N),
    mirror (neg_family l r f) (neg_family r l f)
    /\ neg_extended_length l r = neg_extended_length r l
    /\ neg_two_byte_as l r = neg_two_byte_as r l.
Print Assumptions negotiate_mirror.

(* (2) A family is in force iff both ends advertised it. *)
Theorem family_in_force_iff_both :
  forall (l r : list cap) (f : N),
    neg_family l r f <> None <-> advertises_family l f /\ advertises_family r f.
Proof. exact C16_family_in_force_iff_both. Qed.
Check family_in_force_iff_both :
  forall (l r : list cap) (f : N),
    neg_family l r f <> None <-> advertises_family l f /\ advertises_family r f.
Print Assumptions family_in_force_iff_both.

(* (3) Extended message and 4-octet AS are in force iff both ends advertised them. *)
Theorem flags_in_force_iff_both :
  forall (l r : list cap),
    (neg_extended_length l r = true <-> In CExtMessage l /\ In CExtMessage r)
    /\ (neg_two_byte_as l r = false <-> (exists a, In (CFourOctet a) l) /\ (exists a, In (CFourOctet a) r)).
Proof. exact C16_flags_iff_both. Qed.
Check flags_in_force_iff_both :
  forall (l r : list cap),
    (neg_extended_length l r = true <-> In CExtMessage l /\ In CExtMessage r)
    /\ (neg_two_byte_as l r = false <-> (exists a, In (CFourOctet a) l) /\ (exists a, In (CFourOctet a) r)).
Print Assumptions flags_in_force_iff_both.

(* (4) Graceful restart is in force for the same families at both ends (those listed by both first GR capabilities). *)
Theorem graceful_restart_mirror :
  forall (l r : list cap), same_set (gr_fams (negotiate_gr l r)) (gr_fams (negotiate_gr r l)).
Proof. exact C16_gr_mirror. Qed.
Check graceful_restart_mirror :
  forall (l r : list cap), same_set (gr_fams (negotiate_gr l r)) (gr_fams (negotiate_gr r l)).
Print Assumptions graceful_restart_mirror.

(* (5) The driver's effective send-max and the codec agree (finding C16-2
   repaired): more than one path is sent for a family only where add-path send
   is in force in PeerCodec::negotiate; where it is, the configured send-max
   applies; where the family or the send direction is not in force it is 1. *)
Theorem send_max_iff_addpath_tx :
  forall (smax : list (N * N)) (l r : list cap) (f : N),
    (1 < driver_max smax l r f ->
       (exists rx, neg_family l r f = Some (rx, true)) /\ driver_max smax l r f = configured_max smax f)
    /\ ((exists rx, neg_family l r f = Some (rx, true)) -> driver_max smax l r f = configured_max smax f)
    /\ (neg_family l r f = None \/ (exists rx, neg_family l r f = Some (rx, false)) -> driver_max smax l r f = 1).
Proof. exact C16_send_max_iff_addpath_tx. Qed.
Check send_max_iff_addpath_tx :
  forall (smax : list (N * N)) (l r : list cap) (f : N),
    (1 < driver_max smax l r f ->
       (exists rx, neg_family l r f = Some (rx, true)) /\ driver_max smax l r f = configured_max smax f)
    /\ ((exists rx, neg_family l r f = Some (rx, true)) -> driver_max smax l r f = configured_max smax f)
    /\ (neg_family l r f = None \/ (exists rx, neg_family l r f = Some (rx, false)) -> driver_max smax l r f = 1).
Print Assumptions send_max_iff_addpath_tx.

(* (6) LLGR is in force for the same families at both ends, for all capability lists (finding C16-3 repaired). *)
Theorem llgr_mirror :
  forall (l r : list cap), same_set (llgr_fams (negotiate_llgr l r)) (llgr_fams (negotiate_llgr r l)).
Proof. exact C16_llgr_mirror. Qed.
Check llgr_mirror :
  forall (l r : list cap), same_set (llgr_fams (negotiate_llgr l r)) (llgr_fams (negotiate_llgr r l)).
Print Assumptions llgr_mirror.

(* (7) IpNet::contains: for every prefix length up to the address width, IPv4
   and IPv6, canonical or not, it does not panic and answers exactly "same
   family and the address agrees with the prefix on its leading mask bits". *)
Theorem contains_eq_bit_prefix :
  forall (net : ipnet) (addr : ipaddr),
    net_ok net -> addr_ok addr -> mask_of net <= width net ->
    exists v, contains net addr = COk v /\ (v = true <-> inside net addr).
Proof. exact C16_contains_eq_bit_prefix. Qed.
Check contains_eq_bit_prefix :
  forall (net : ipnet) (addr : ipaddr),
    net_ok net -> addr_ok addr -> mask_of net <= width net ->
    exists v, contains net addr = COk v /\ (v = true <-> inside net addr).
Print Assumptions contains_eq_bit_prefix.

(* (8) A prefix length above the width (which FromStr, the only constructor
   used for dynamic-neighbour prefixes, rejects: it accepts 0..=32 / 0..=128;
   IpNet::new does not check) never answers "inside": the result is false or
   a slice-index panic, and it is the panic on every address equal to the
   prefix's own octets. *)
Theorem contains_beyond_width :
  forall (w : nat) (a b : list N) (mask : N),
    length a = w -> length b = w -> 8 * N.of_nat w < mask ->
    (contains_octets a b mask = CPanic \/ contains_octets a b mask = COk false)
    /\ contains_octets a a mask = CPanic.
Proof. exact C16_contains_beyond_width. Qed.
Check contains_beyond_width :
  forall (w : nat) (a b : list N) (mask : N),
    length a = w -> length b = w -> 8 * N.of_nat w < mask ->
    (contains_octets a b mask = CPanic \/ contains_octets a b mask = COk false)
    /\ contains_octets a a mask = CPanic.
Print Assumptions contains_beyond_width.

(* (9) Record of finding C16-2 (repaired): the any-entry filter PeerFsm::process used before keeps a send-max of 8 for a family whose add-path send is not in force. *)
Theorem send_max_any_filter_refuted :
  exists (smax : list (N * N)) (l r : list cap) (f : N),
    In (f, 8) (effective_max_any smax l r) /\ neg_family l r f = Some (false, false).
Proof. exact C16_send_max_any_filter_refuted. Qed.
Check send_max_any_filter_refuted :
  exists (smax : list (N * N)) (l r : list cap) (f : N),
    In (f, 8) (effective_max_any smax l r) /\ neg_family l r f = Some (false, false).
Print Assumptions send_max_any_filter_refuted.

(* (10) Record of finding C16-3 (repaired): walking every local LLGR entry (no first-entry rule) leaves LLGR in force at one end only. *)
Theorem llgr_all_entries_refuted :
  exists (l r : list cap),
    ~ same_set (negotiate_llgr_all_entries l r) (negotiate_llgr_all_entries r l).
Proof. exact C16_llgr_all_entries_refuted. Qed.
Check llgr_all_entries_refuted :
  exists (l r : list cap),
    ~ same_set (negotiate_llgr_all_entries l r) (negotiate_llgr_all_entries r l).
Print Assumptions llgr_all_entries_refuted.
